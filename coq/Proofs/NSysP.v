(* NSysP.v - the two-party netcode system (Spec/NSysSpec.v): the handshake completes.
   T1 handshake_two_good_rounds, T2 handshake_inv_preserved, T3 handshake_completes_after_loss and
   handshake_eventually, T4 failover, and a concrete run through the cipher. *)
From RenetV Require Import Base Consts Aead NPacket Token NServer NClient.
From RenetV Require Import Spec.NetSpec Spec.NSysSpec.
From RenetV Require Import Proofs.AeadP Proofs.NPacketP Proofs.TokenP.
From RenetV Require Import Proofs.NSlotsP Proofs.NCodecP Proofs.NServerP Proofs.NAuthP Proofs.NClientP.
Require Import Lia ZifyBool ZifyN ZifyNat.
Arguments N.add : simpl never.
Arguments N.sub : simpl never.
Arguments N.mul : simpl never.
Arguments N.div : simpl never.
Arguments N.modulo : simpl never.
Arguments N.pow : simpl never.
Arguments N.eqb : simpl never.
Arguments N.ltb : simpl never.
Arguments N.leb : simpl never.
Open Scope N_scope.

(* ================================================================== *)
(* 0. the restated definitions are the ones of Proofs/NClientP.v       *)
(* ================================================================== *)
Lemma client_wf_inv c : client_wf c <-> client_inv c.
Proof. reflexivity. Qed.

Lemma cl_expired_eq c dt : cl_expired c dt = token_expired c dt.
Proof. reflexivity. Qed.

Lemma cl_timed_out_eq c dt : cl_timed_out c dt = NClientP.timed_out c dt.
Proof. reflexivity. Qed.

Lemma token_dgram_eq tok : [0] ++ packet_body (token_request tok) = token_dgram tok.
Proof. reflexivity. Qed.

Lemma as_secs_mono x y : x <= y -> as_secs x <= as_secs y.
Proof. intros H. unfold as_secs. apply N.div_le_mono; [discriminate | exact H]. Qed.

(* ================================================================== *)
(* 1. the request built from the token validates                       *)
(* ================================================================== *)
Lemma token_dgram_decode tok proto' :
  token_wf tok ->
  snd (decode (token_dgram tok) proto' None None) =
    Ok (0, PRequest NC_VERSION_INFO (ct_protocol tok) (ct_expire tok) (ct_xnonce tok) (ct_private tok)).
Proof.
  intros (_ & _ & Hp & _ & He & Hx & _ & _ & _ & Ld & _).
  assert (Wf : npacket_wf (PRequest NC_VERSION_INFO (ct_protocol tok) (ct_expire tok) (ct_xnonce tok) (ct_private tok))).
  { cbn [npacket_wf]. repeat split; auto. }
  pose proof (NPacketP.read_packet_body _ Wf) as Hr. cbn [packet_id packet_body] in Hr.
  unfold token_dgram, decode.
  match goal with |- context [len ?b <? 2 + NC_MAC_BYTES] => assert (E : (len b <? 2 + NC_MAC_BYTES) = false) end.
  { rewrite NSlotsP.len_cons, !NSlotsP.len_app, Ld, Hx. unfold le64. rewrite !NSlotsP.len_le_bytes.
    rewrite mac_val, xnonce_bytes_val, private_bytes_val. lia. }
  rewrite E. change (0 mod 16) with 0. change (6 <? 0) with false. change (0 =? 0) with true. cbv iota.
  cbn [snd]. rewrite Hr. reflexivity.
Qed.

Lemma token_dgram_mac tok :
  token_wf tok -> mac_of (token_dgram tok) = dropN (NC_PRIVATE_BYTES - NC_MAC_BYTES) (ct_private tok).
Proof.
  intros W. unfold mac_of. rewrite (request_data_decode _ 0 _ _ _ _ _ (token_dgram_decode tok 0 W)). reflexivity.
Qed.

(* the static part of the invariant, seen from the server *)
Definition srv_static (s : nserver) (a : addr) (tok : connect_token) (t : private_token) : Prop :=
  token_wf tok /\ private_wf t /\ token_consistent tok t /\ ct_protocol tok = ns_protocol s /\
  private_decode (ct_private tok) (ns_protocol s) (ct_expire tok) (ct_xnonce tok) (ns_connect_key s) = Ok t /\
  (ns_secure s = true -> in_host_list s t = true) /\
  entry_free_or_bound s a (mac_of (token_dgram tok)) /\
  table_inv s /\ server_sizes s.

Lemma static_validates s a tok t :
  srv_static s a tok t -> as_secs (ns_now s) < ct_expire tok ->
  request_validates s (token_dgram tok) t (ct_expire tok).
Proof.
  intros (W & _ & _ & Hp & Hd & Hh & _) Hnow.
  exists NC_VERSION_INFO, (ct_protocol tok), (ct_xnonce tok), (ct_private tok).
  split; [apply token_dgram_decode; exact W|]. repeat split; auto.
Qed.

Lemma validates_static s now tok t :
  token_wf tok -> request_validates (set_now s now) (token_dgram tok) t (ct_expire tok) ->
  ct_protocol tok = ns_protocol s /\
  private_decode (ct_private tok) (ns_protocol s) (ct_expire tok) (ct_xnonce tok) (ns_connect_key s) = Ok t /\
  (ns_secure s = true -> in_host_list s t = true) /\ as_secs now < ct_expire tok.
Proof.
  intros W (v & pr & xn & data & Hd & _ & Hp & Hnow & Hpd & Hh).
  rewrite (token_dgram_decode tok _ W) in Hd. injection Hd as <- <- <- <-.
  nsimpl_in Hp. nsimpl_in Hnow. nsimpl_in Hpd. nsimpl_in Hh.
  repeat split; auto.
Qed.

(* ================================================================== *)
(* 2. the server's steps                                               *)
(* ================================================================== *)

(* ---- the connect token table: a tag that is free or bound to a stays so ---- *)
Lemma last_match_upd_new es i e mac m :
  last_match es mac = None -> last_match (upd es i (Some e)) mac = Some m -> m = e.
Proof.
  intros Hn Hm. destruct (last_match_some _ _ _ Hm) as [Hin Hmac].
  apply In_upd in Hin. destruct Hin as [Hin|Hin]; [congruence|].
  exfalso. rewrite last_match_none in Hn. apply (Hn m Hin Hmac).
Qed.

Lemma entry_allowed s a mac e :
  entry_free_or_bound s a mac -> te_mac e = mac -> te_addr e = a ->
  snd (find_or_add_entry (ns_entries s) e) = true /\
  entry_free_or_bound (set_entries s (fst (find_or_add_entry (ns_entries s) e))) a mac.
Proof.
  intros Hf Hm Ha. unfold entry_free_or_bound in *. rewrite find_or_add_entry_eq, Hm.
  destruct (last_match (ns_entries s) mac) as [m|] eqn:El.
  - rewrite Hf, Ha, addr_eqb_refl. cbn [fst snd]. nsimpl. rewrite El. split; [reflexivity | exact Hf].
  - cbn [fst snd]. nsimpl. split; [reflexivity|].
    destruct (last_match (upd _ _ _) mac) as [m'|] eqn:El'; [|exact I].
    rewrite (last_match_upd_new _ _ _ _ _ El El'). exact Ha.
Qed.

(* ---- a request, from the address the token was (or will be) bound to ---- *)
Definition pend_room (s : nserver) (a : addr) (tok : connect_token) (t : private_token) : Prop :=
  match pend_find a (ns_pending s) with
  | None => len (ns_pending s) < NC_MAX_CLIENTS * NC_MAX_PENDING_FACTOR
  | Some pc => pending_ok s a tok t pc
  end.

Lemma srv_same_refl s : srv_same s s.
Proof. repeat split. Qed.

Lemma srv_same_trans s1 s2 s3 : srv_same s1 s2 -> srv_same s2 s3 -> srv_same s1 s3.
Proof. unfold srv_same. intros H1 H2. intuition congruence. Qed.

Definition challenge_dgram (s : nserver) (t : private_token) (cseq q : N) (d : list N) : Prop :=
  encode OUT_CAP (PChallenge cseq (challenge_data s t cseq)) (ns_protocol s) (Some (q, pt_s2c t)) = Ok d.

Lemma srv_request s a tok t :
  srv_static s a tok t -> slot_open s a t -> pend_room s a tok t ->
  as_secs (ns_now s) < ct_expire tok ->
  exists s' d pc',
    process_packet s a (token_dgram tok) = Ok (s', SRPacketToSend a d) /\
    challenge_dgram s t (ns_chal_seq s + 1) (ns_global_seq s) d /\
    srv_static s' a tok t /\ slot_open s' a t /\
    pend_find a (ns_pending s') = Some pc' /\ pending_ok s' a tok t pc' /\
    nc_chal_floor pc' <= ns_chal_seq s + 1 /\
    (forall old, pend_find a (ns_pending s) = Some old -> nc_chal_floor pc' = nc_chal_floor old) /\
    ns_chal_seq s' = ns_chal_seq s + 1 /\ ns_global_seq s' = ns_global_seq s + 1 /\
    ns_clients s' = ns_clients s /\ ns_now s' = ns_now s /\ srv_same s s'.
Proof.
  intros St (Ea & Ei & Hc & Hff) Hp Hnow.
  pose proof (static_validates _ _ _ _ St Hnow) as Hv.
  destruct St as (W & Wt & Hcons & Hpr & Hpd & Hh & He & T & Hsz).
  set (buf := token_dgram tok) in *.
  destruct (entry_allowed s a (mac_of buf) (request_entry s a buf) He eq_refl eq_refl) as [Hfe He'].
  assert (Hp' : pend_find a (ns_pending s) <> None \/ len (ns_pending s) < NC_MAX_CLIENTS * NC_MAX_PENDING_FACTOR).
  { unfold pend_room in Hp. destruct (pend_find a (ns_pending s)); [left; discriminate | right; exact Hp]. }
  destruct (request_gets_challenge s a buf t (ct_expire tok) T Hv Ea Ei Hc Hp' Hfe)
    as (d & Hpp & Hd & T1 & pc & Hpf & Hnew & Hold).
  exists (challenged s a buf t (ct_expire tok)), d, pc.
  split; [exact Hpp|]. split; [exact Hd|].
  split.
  { exact (conj W (conj Wt (conj Hcons (conj Hpr (conj Hpd (conj Hh (conj He' (conj T1 Hsz)))))))). }
  split.
  { exact (conj Ea (conj Ei (conj Hc Hff))). }
  split; [exact Hpf|].
  unfold pend_room in Hp.
  destruct (pend_find a (ns_pending s)) as [old|] eqn:Eold.
  - rewrite (Hold old eq_refl). destruct Hp as (Hct & Hfl & Hrp & Hsq).
    split; [|split; [|split]].
    + unfold pending_ok. split; [apply conn_of_token_refresh; exact Hct|].
      cbn [refresh_conn nc_chal_floor nc_replay nc_seq]. unfold challenged. nsimpl. repeat split; try assumption. lia.
    + cbn [refresh_conn nc_chal_floor]. lia.
    + intros old' E. injection E as <-. reflexivity.
    + repeat split.
  - destruct (Hnew eq_refl) as (Hct & Hfl & Hrp & Hsq & _).
    split; [|split; [|split]].
    + unfold pending_ok. split; [exact Hct|]. unfold challenged. nsimpl. rewrite Hfl. repeat split; try assumption. lia.
    + lia.
    + intros old' E. discriminate E.
    + repeat split.
Qed.

(* ---- the response that echoes one of the server's challenges ---- *)
Lemma process_packet_table_inv s a buf s' r : table_inv s -> process_packet s a buf = Ok (s', r) -> table_inv s'.
Proof.
  intros T H. apply process_packet_inv in H. destruct H as [r0 [Hs _]]. apply (ppi_spec_table_inv _ _ _ _ _ Hs T).
Qed.

Lemma promote_of_token pc a t ex now : conn_of_token pc a t ex -> conn_of_token (promote pc (pt_user t) now) a t ex.
Proof. unfold conn_of_token. cbn [promote nc_id nc_user nc_recv_key nc_send_key nc_expire nc_addr nc_timeout]. tauto. Qed.

Lemma srv_response s a tok t pc ts q d :
  srv_static s a tok t -> slot_open s a t ->
  pend_find a (ns_pending s) = Some pc -> pending_ok s a tok t pc ->
  nc_chal_floor pc <= ts -> ts < U64 -> q < U64 ->
  encode OUT_CAP (PResponse ts (challenge_data s t ts)) (ns_protocol s) (Some (q, pt_c2s t)) = Ok d ->
  exists s' slot ka,
    process_packet s a d = Ok (s', SRConnected (pt_client_id t) a (pt_user t) ka) /\
    encode OUT_CAP (PKeepAlive slot (ns_max s)) (ns_protocol s) (Some (0, pt_s2c t)) = Ok ka /\
    first_free (ns_clients s) 0 = Some slot /\
    srv_static s' a tok t /\
    server_conn s' a tok t slot (promote pc (pt_user t) (ns_now s)) /\
    find_by_id s' (pt_client_id t) = Some (slot, promote pc (pt_user t) (ns_now s)) /\
    pend_find a (ns_pending s') = None /\
    connected_count s' = connected_count s + 1 /\
    ns_chal_seq s' = ns_chal_seq s /\ ns_global_seq s' = ns_global_seq s /\ ns_now s' = ns_now s /\
    srv_same s s'.
Proof.
  intros St (Ea & Ei & Hc & Hff) Ep (Hct & Hfl0 & Hrp & Hsq) Hfl Hts Hq He.
  destruct St as (W & Wt & Hcons & Hpr & Hpd & Hh & Hen & T & Hsz).
  pose proof Hct as (Hi & Hu & Hrk & Hsk & Hex & Hpa & Hto).
  pose proof Wt as (Hid & _ & _ & _ & _ & Hul).
  destruct (first_free (ns_clients s) 0) as [idx|] eqn:Ef; [clear Hff | congruence].
  assert (He' : encode OUT_CAP (PResponse ts (aead_seal (ns_chal_key s) (nonce_of ts) []
                   (challenge_plain (nc_id pc) (nc_user pc)))) (ns_protocol s) (Some (q, nc_recv_key pc)) = Ok d).
  { rewrite Hi, Hu, Hrk. exact He. }
  destruct (response_connects s a pc ts q d idx Ea Ep) as (s' & out & H & Hcnt & Hmax); try assumption.
  { rewrite Hi. exact Ei. } { rewrite Hi. exact Hid. } { rewrite Hu. exact Hul. }
  pose proof (process_packet_table_inv _ _ _ _ _ T H) as T'.
  (* the post-state, explicitly *)
  set (td := aead_seal (ns_chal_key s) (nonce_of ts) [] (challenge_plain (nc_id pc) (nc_user pc))) in *.
  pose proof (challenge_decode_generate (nc_id pc) (nc_user pc) ts (ns_chal_key s)) as Hcg.
  unfold generate_challenge in Hcg. fold td in Hcg. destruct Hcg as (_ & Ltd & _); [rewrite Hi; exact Hid | rewrite Hu; exact Hul|].
  assert (Hp3 : packet_id (PResponse ts td) <> 0) by (cbn [packet_id]; lia).
  assert (Lb : len (packet_body (PResponse ts td)) = 8 + NC_CHALLENGE_BYTES).
  { cbn [packet_body]. unfold le64. rewrite NSlotsP.len_app, NSlotsP.len_le_bytes. lia. }
  assert (Hdec : decode d (ns_protocol s) (Some (nc_recv_key pc)) (Some (nc_replay pc)) =
                 (Some (nc_replay pc), Ok (q, PResponse ts td))).
  { rewrite (decode_encode OUT_CAP (PResponse ts td) (ns_protocol s) q (nc_recv_key pc) d (Some (nc_replay pc))); try assumption.
    - reflexivity.
    - cbn [npacket_wf]. auto.
    - rewrite Lb. lia.
    - intros r _. reflexivity. }
  assert (Hl : 2 + NC_MAC_BYTES <= len d).
  { pose proof (encode_sealed_len _ _ _ _ _ _ Hp3 He') as L. rewrite Lb in L. lia. }
  pose proof H as H0. unfold process_packet in H0. rewrite (ppi_pend _ _ _ _ Hl Ea Ep), Hdec in H0.
  cbn [fst snd] in H0. unfold pend_step in H0. cbn [opt_replay] in H0.
  rewrite (pending_put_back _ _ _ T Ep), nc_with_replay_id in H0.
  destruct (resp_step s a pc ts td) as [s1 r1] eqn:Er.
  destruct r1 as [x|e|site]; try discriminate. injection H0 as -> ->.
  destruct (resp_step_connected _ _ _ _ _ _ _ _ _ _ Er) as (_ & _ & _ & _ & _ & _ & idx' & Hff' & Henc & Es').
  rewrite Ef in Hff'. injection Hff' as <-.
  rewrite Hi, Hu in H. rewrite Hsq, Hsk in Henc. rewrite Hu in Es'.
  assert (Hfi : find_by_id s' (pt_client_id t) = Some (idx, promote pc (pt_user t) (ns_now s))).
  { rewrite Es'. apply (find_by_id_after_insert (set_pending s _) (pt_client_id t) idx); [exact Ei | exact Ef |].
    cbn [promote nc_id]. exact Hi. }
  assert (Hfa : find_by_addr s' a = Some (idx, promote pc (pt_user t) (ns_now s))).
  { destruct (find_by_id_addr _ _ _ _ T' Hfi) as [_ K]. cbn [promote nc_addr] in K. rewrite Hpa in K. exact K. }
  exists s', idx, out. split; [exact H|]. split; [exact Henc|]. split; [reflexivity|].
  split.
  { refine (conj W (conj Wt (conj Hcons _))). rewrite Es'. refine (conj Hpr (conj Hpd (conj Hh (conj Hen (conj _ _))))).
    - rewrite <- Es'. exact T'.
    - destruct Hsz as [Hs1 Hs2]. split; [exact Hs1|]. rewrite len_set_slot. exact Hs2. }
  split.
  { refine (conj Hfa (conj (promote_of_token _ _ _ _ _ Hct) _)). rewrite Es'. cbn [promote nc_last_send nc_last_recv]. nsimpl. lia. }
  split; [exact Hfi|].
  split.
  { rewrite Es'. nsimpl. apply pend_find_none. apply pend_remove_keys. apply (table_inv_pending_nodup _ T). }
  split; [exact Hcnt|].
  rewrite Es'. repeat split; try reflexivity. rewrite len_set_slot. reflexivity.
Qed.

Lemma count_slot_update f s slot c c' :
  find_slot_by f (ns_clients s) 0 = Some (slot, c) -> connected_count (set_slot s slot (Some c')) = connected_count s.
Proof.
  intros H. destruct (lookup_split _ _ _ _ H) as [l1 [l2 [E1 [_ [_ [_ E5]]]]]].
  unfold connected_count. rewrite E5, E1, !count_some_app, !count_some_cons_some. reflexivity.
Qed.

(* ---- a connected address: a retransmitted response is ignored, a keep-alive refreshes ---- *)
Definition conn_kept (now : N) (sc sc' : nconn) : Prop :=
  same_cred sc sc' /\ nc_seq sc' = nc_seq sc /\ nc_last_send sc' = nc_last_send sc /\
  (nc_last_recv sc' = nc_last_recv sc \/ nc_last_recv sc' = now).

Definition quiet_packet (p : npacket) : Prop :=
  match p with PResponse _ _ | PKeepAlive _ _ => True | _ => False end.

Lemma srv_conn_recv s a slot sc p q d :
  table_inv s -> find_by_addr s a = Some (slot, sc) ->
  quiet_packet p -> npacket_wf p -> q < U64 ->
  encode OUT_CAP p (ns_protocol s) (Some (q, nc_recv_key sc)) = Ok d ->
  exists s' sc',
    process_packet s a d = Ok (s', SRNone) /\ table_inv s' /\
    find_by_addr s' a = Some (slot, sc') /\ conn_kept (ns_now s) sc sc' /\
    ns_entries s' = ns_entries s /\ ns_pending s' = ns_pending s /\
    ns_chal_seq s' = ns_chal_seq s /\ ns_global_seq s' = ns_global_seq s /\ ns_now s' = ns_now s /\
    srv_same s s' /\ connected_count s' = connected_count s.
Proof.
  intros T Ea Hqp Wp Hq He.
  assert (Hid : packet_id p <> 0) by (destruct p; try contradiction; cbn [packet_id]; lia).
  assert (Hb : 1 <= len (packet_body p)).
  { destruct p; try contradiction; cbn [packet_body]; unfold le64, le32;
      rewrite NSlotsP.len_app, !NSlotsP.len_le_bytes; lia. }
  assert (Hl : 2 + NC_MAC_BYTES <= len d).
  { rewrite (encode_sealed_len _ _ _ _ _ _ Hid He). lia. }
  assert (Hnw : snd (decode d (ns_protocol s) (Some (nc_recv_key sc)) None) = Ok (q, p)).
  { rewrite (decode_encode OUT_CAP p (ns_protocol s) q (nc_recv_key sc) d None); try assumption; [reflexivity | lia | discriminate]. }
  assert (Hcases : exists s' r0, process_packet_internal s a d = (s', r0) /\ (forall site, r0 <> Panic site) /\
            res_of r0 = SRNone /\
            exists sc', find_by_addr s' a = Some (slot, sc') /\ conn_kept (ns_now s) sc sc' /\
              ns_entries s' = ns_entries s /\ ns_pending s' = ns_pending s /\
              ns_chal_seq s' = ns_chal_seq s /\ ns_global_seq s' = ns_global_seq s /\ ns_now s' = ns_now s /\
              srv_same s s' /\ connected_count s' = connected_count s).
  { rewrite (ppi_conn _ _ _ _ _ Hl Ea).
    set (D := decode d (ns_protocol s) (Some (nc_recv_key sc)) (Some (nc_replay sc))).
    set (c1 := nc_with_replay sc (opt_replay (fst D) (nc_replay sc))).
    assert (F1 : find_by_addr (set_slot s slot (Some c1)) a = Some (slot, c1))
      by (apply (find_by_addr_slot_update _ _ _ sc); [exact Ea | reflexivity]).
    assert (K1 : conn_kept (ns_now s) sc c1).
    { unfold conn_kept, same_cred, c1. nsimpl. repeat split. left. reflexivity. }
    assert (S1 : srv_same s (set_slot s slot (Some c1))).
    { unfold srv_same. rewrite len_set_slot. repeat split. }
    assert (C1 : connected_count (set_slot s slot (Some c1)) = connected_count s) by exact (count_slot_update _ _ _ _ _ Ea).
    unfold conn_step. fold c1.
    destruct (snd D) as [[q' p']|e|site] eqn:Ed.
    - assert (p' = p).
      { pose proof (decode_ok_without_window _ _ _ _ _ _ Ed) as H1. rewrite Hnw in H1. congruence. }
      subst p'. destruct p; try contradiction.
      + eexists _, _. split; [reflexivity|]. split; [discriminate|]. split; [reflexivity|].
        exists c1. exact (conj F1 (conj K1 (conj eq_refl (conj eq_refl (conj eq_refl (conj eq_refl (conj eq_refl (conj S1 C1)))))))).
      + set (c2 := nc_received c1 (ns_now (set_slot s slot (Some c1)))).
        eexists _, _. split; [reflexivity|]. split; [discriminate|]. split; [reflexivity|].
        exists c2. split.
        { apply (find_by_addr_slot_update _ _ _ c1); [exact F1 | reflexivity]. }
        split.
        { unfold conn_kept, same_cred, c2, c1. nsimpl. repeat split. right. reflexivity. }
        refine (conj eq_refl (conj eq_refl (conj eq_refl (conj eq_refl (conj eq_refl (conj _ _)))))).
        { unfold srv_same. rewrite !len_set_slot. repeat split. }
        rewrite (count_slot_update _ _ _ _ _ F1). exact C1.
    - eexists _, _. split; [reflexivity|]. split; [discriminate|]. split; [reflexivity|].
      exists c1. exact (conj F1 (conj K1 (conj eq_refl (conj eq_refl (conj eq_refl (conj eq_refl (conj eq_refl (conj S1 C1)))))))).
    - exfalso. apply (NCodecP.decode_no_panic _ _ _ _ _ Ed). }
  destruct Hcases as (s' & r0 & Hppi & Hnp & Hres & sc' & Hrest).
  assert (Hpp : process_packet s a d = Ok (s', SRNone)).
  { unfold process_packet. rewrite Hppi. destruct r0 as [x|e|site]; cbn [res_of] in Hres; subst; try reflexivity.
    exfalso. apply (Hnp site). reflexivity. }
  exists s', sc'. split; [exact Hpp|]. split; [apply (process_packet_table_inv _ _ _ _ _ T Hpp)|]. exact Hrest.
Qed.

(* ---- the server's tick: NetcodeServer::update, then update_client for this client ---- *)
Lemma pend_find_filter (f : addr * nconn -> bool) a p :
  (forall c, pend_find a p = Some c -> f (a, c) = true) -> pend_find a (filter f p) = pend_find a p.
Proof.
  induction p as [|[a' c'] p IH]; intros H; [reflexivity|]. cbn [filter pend_find] in *.
  destruct (addr_eqb a a') eqn:E.
  - pose proof E as E'. apply addr_eqb_eq in E'. subst a'. rewrite (H c' eq_refl). cbn [pend_find]. rewrite E. reflexivity.
  - destruct (f (a', c')); [cbn [pend_find]; rewrite E|]; apply IH; exact H.
Qed.

Lemma len_filter_le {A} (f : A -> bool) l : len (filter f l) <= len l.
Proof.
  unfold len. induction l as [|x l IH]; cbn [filter length]; [lia|]. destruct (f x); cbn [length]; lia.
Qed.

Lemma srv_tick_open s a tok t dt :
  srv_static s a tok t -> slot_open s a t -> pend_room s a tok t ->
  srv_expired s tok dt = false ->
  update_client (nserver_update s dt) (pt_client_id t) = Ok (nserver_update s dt, SRNone) /\
  srv_static (nserver_update s dt) a tok t /\ slot_open (nserver_update s dt) a t /\
  pend_find a (ns_pending (nserver_update s dt)) = pend_find a (ns_pending s) /\
  pend_room (nserver_update s dt) a tok t /\
  (forall pc, pending_ok s a tok t pc -> pending_ok (nserver_update s dt) a tok t pc) /\
  as_secs (ns_now (nserver_update s dt)) < ct_expire tok.
Proof.
  intros St So Hp Hex.
  destruct St as (W & Wt & Hcons & Hpr & Hpd & Hh & Hen & T & Hsz).
  pose proof So as (Ea & Ei & Hc & Hff).
  unfold srv_expired in Hex.
  assert (Hpf : pend_find a (ns_pending (nserver_update s dt)) = pend_find a (ns_pending s)).
  { unfold nserver_update. nsimpl. apply pend_find_filter. intros pc Epc. cbn [snd].
    unfold pend_room in Hp. rewrite Epc in Hp. destruct Hp as ((_ & _ & _ & _ & Hx & _) & _). rewrite Hx. lia. }
  split.
  { unfold update_client.
    change (find_by_id (nserver_update s dt) (pt_client_id t)) with (find_by_id s (pt_client_id t)).
    rewrite Ei. reflexivity. }
  split.
  { exact (conj W (conj Wt (conj Hcons (conj Hpr (conj Hpd (conj Hh (conj Hen (conj (table_inv_update s dt T) Hsz)))))))). }
  split; [exact So|]. split; [exact Hpf|].
  split.
  { unfold pend_room in *. rewrite Hpf. destruct (pend_find a (ns_pending s)); [exact Hp|].
    unfold nserver_update. nsimpl. pose proof (len_filter_le (fun ac => negb (nc_expire (snd ac) <? as_secs (ns_now s + dt))) (ns_pending s)). lia. }
  split; [intros pc Hok; exact Hok|].
  unfold nserver_update. nsimpl. lia.
Qed.

Definition keepalive_dgram (s : nserver) (t : private_token) (slot q : N) (d : list N) : Prop :=
  encode OUT_CAP (PKeepAlive slot (ns_max s)) (ns_protocol s) (Some (q, pt_s2c t)) = Ok d.

Lemma keepalive_encodes proto q key ci mc : exists d, encode OUT_CAP (PKeepAlive ci mc) proto (Some (q, key)) = Ok d.
Proof.
  apply encode_small_ok; [cbn [packet_id]; lia|].
  cbn [packet_body]. unfold le32. rewrite NSlotsP.len_app, !NSlotsP.len_le_bytes. lia.
Qed.

Lemma srv_tick_conn s a tok t slot sc dt :
  srv_static s a tok t -> server_conn s a tok t slot sc ->
  srv_timed_out s (pt_client_id t) dt = false ->
  exists s2 k sc',
    update_client (nserver_update s dt) (pt_client_id t) = Ok (s2, k) /\
    srv_static s2 a tok t /\ server_conn s2 a tok t slot sc' /\
    ((k = SRNone /\ sc' = sc) \/
     (exists ka, k = SRPacketToSend a ka /\ keepalive_dgram s t slot (nc_seq sc) ka /\
                 sc' = nc_sent sc (ns_now s + dt))) /\
    (SEND_RATE_NS <= dt -> k <> SRNone) /\
    ns_pending s2 = ns_pending (nserver_update s dt) /\
    ns_chal_seq s2 = ns_chal_seq s /\ ns_global_seq s2 = ns_global_seq s /\ ns_now s2 = ns_now s + dt /\
    srv_same s s2 /\ connected_count s2 = connected_count s.
Proof.
  intros St (Ea & Hct & Hls & Hlr) Hto.
  destruct St as (W & Wt & Hcons & Hpr & Hpd & Hh & Hen & T & Hsz).
  pose proof Hct as (Hi & Hu & Hrk & Hsk & Hex & Hpa & Htm).
  destruct (find_by_addr_id _ _ _ _ T Ea) as [_ Ei]. rewrite Hi in Ei.
  set (s1 := nserver_update s dt).
  assert (T1 : table_inv s1) by apply (table_inv_update s dt T).
  assert (Ei1 : find_by_id s1 (pt_client_id t) = Some (slot, sc)) by exact Ei.
  assert (Ea1 : find_by_addr s1 a = Some (slot, sc)) by exact Ea.
  unfold srv_timed_out in Hto. rewrite Ei in Hto.
  unfold update_client. rewrite Ei1.
  change (ns_now s1) with (ns_now s + dt). rewrite Hto.
  destruct (nc_last_send sc + NC_SEND_RATE_MS * 1000000 <=? ns_now s + dt) eqn:Edue.
  - destruct (keepalive_encodes (ns_protocol s1) (nc_seq sc) (nc_send_key sc) slot (ns_max s1)) as [ka Hka].
    rewrite Hka. exists (set_slot s1 slot (Some (nc_sent sc (ns_now s + dt)))), (SRPacketToSend (nc_addr sc) ka), (nc_sent sc (ns_now s + dt)).
    split; [reflexivity|].
    assert (Ea2 : find_by_addr (set_slot s1 slot (Some (nc_sent sc (ns_now s + dt)))) a = Some (slot, nc_sent sc (ns_now s + dt))).
    { apply (find_by_addr_slot_update _ _ _ sc); [exact Ea1 | reflexivity]. }
    split.
    { refine (conj W (conj Wt (conj Hcons (conj Hpr (conj Hpd (conj Hh (conj Hen (conj _ _)))))))).
      - apply (table_inv_slot_update _ _ _ _ _ T1 Ei1); reflexivity.
      - destruct Hsz as [Hs1 Hs2]. split; [exact Hs1|]. rewrite len_set_slot. exact Hs2. }
    split.
    { refine (conj Ea2 (conj _ _)).
      - unfold conn_of_token in *. nsimpl. tauto.
      - cbn [nc_sent nc_last_send nc_last_recv]. change (ns_now (set_slot s1 slot (Some (nc_sent sc (ns_now s + dt))))) with (ns_now s + dt). lia. }
    split.
    { right. exists ka. rewrite Hpa. split; [reflexivity|]. split; [|reflexivity].
      unfold keepalive_dgram. rewrite <- Hsk. exact Hka. }
    split; [discriminate|].
    split; [reflexivity|]. split; [reflexivity|]. split; [reflexivity|]. split; [reflexivity|].
    split; [|exact (count_slot_update _ _ _ _ _ Ea1)].
    repeat split; try reflexivity. rewrite len_set_slot. reflexivity.
  - exists s1, SRNone, sc. split; [reflexivity|].
    split.
    { exact (conj W (conj Wt (conj Hcons (conj Hpr (conj Hpd (conj Hh (conj Hen (conj T1 Hsz)))))))). }
    split.
    { refine (conj Ea1 (conj Hct _)). change (ns_now s1) with (ns_now s + dt). lia. }
    split; [left; split; reflexivity|].
    split.
    { intros Hdt. exfalso. unfold SEND_RATE_NS in Hdt. lia. }
    split; [reflexivity|]. split; [reflexivity|]. split; [reflexivity|]. split; [reflexivity|].
    split; [repeat split; reflexivity | reflexivity].
Qed.

(* ================================================================== *)
(* 3. the client's steps                                               *)
(* ================================================================== *)

(* what the handshake never changes in the client, and what only grows *)
Definition cl_frame (c c' : nclient) : Prop :=
  cl_token c' = cl_token c /\ cl_id c' = cl_id c /\ cl_server_addr c' = cl_server_addr c /\
  cl_addr_index c' = cl_addr_index c /\ cl_connect_start c' = cl_connect_start c /\
  cl_now c' = cl_now c /\ cl_seq c' = cl_seq c /\ cl_last_recv c <= cl_last_recv c'.

Lemma cl_frame_refl c : cl_frame c c.
Proof. unfold cl_frame. repeat split. lia. Qed.

Lemma cl_frame_trans c1 c2 c3 : cl_frame c1 c2 -> cl_frame c2 c3 -> cl_frame c1 c3.
Proof. unfold cl_frame. intros H1 H2. intuition (try congruence). lia. Qed.

(* any datagram at all *)
Lemma cl_recv_frame c d : client_inv c -> cl_frame c (fst (nclient_process_packet c d)) /\ client_inv (fst (nclient_process_packet c d)).
Proof.
  intros Hinv. split; [|apply client_inv_step_process; exact Hinv].
  pose proof (client_process_frame c d) as F. cbv zeta in F.
  destruct F as (F1 & F2 & F3 & F4 & F5 & F6 & F7 & _).
  unfold cl_frame. repeat split; try assumption.
  destruct Hinv as (_ & Hlr & _).
  destruct (process_cases c d) as [H|(plain & _ & _ & H)]; rewrite H; [cbn [fst]; lia|].
  cbv zeta. set (c1 := cl_with_replay c _).
  destruct (read_packet (dgram_type d) plain) as [pkt|e|site]; try (cbn [fst]; unfold c1; proj_cbn; lia).
  pose proof (client_handle_frame c1 pkt) as G. cbv zeta in G.
  destruct G as (_ & _ & _ & _ & _ & _ & _ & _ & [G|G] & _); rewrite G; unfold c1; proj_cbn; lia.
Qed.

(* a sealed datagram of the server opens at the client *)
Lemma decode_from_server c s t p q d :
  protocol_of c = ns_protocol s -> s2c_key c = pt_s2c t ->
  encode OUT_CAP p (ns_protocol s) (Some (q, pt_s2c t)) = Ok d ->
  npacket_wf p -> packet_id p <> 0 -> q < U64 -> 1 <= len (packet_body p) ->
  snd (decode d (protocol_of c) (Some (s2c_key c)) None) = Ok (q, p).
Proof.
  intros Hp Hk He W Hid Hq Hb. rewrite Hp, Hk.
  rewrite (decode_encode OUT_CAP p (ns_protocol s) q (pt_s2c t) d None); try assumption; [reflexivity | lia | discriminate].
Qed.

Lemma challenge_data_len s t cseq : private_wf t -> len (challenge_data s t cseq) = NC_CHALLENGE_BYTES.
Proof.
  intros (Hid & _ & _ & _ & _ & Hul).
  pose proof (challenge_decode_generate (pt_client_id t) (pt_user t) cseq (ns_chal_key s) Hid Hul) as H.
  unfold generate_challenge in H. apply H.
Qed.

Lemma decode_challenge c s t cseq q d :
  protocol_of c = ns_protocol s -> s2c_key c = pt_s2c t -> private_wf t ->
  q < U64 -> cseq < U64 -> challenge_dgram s t cseq q d ->
  snd (decode d (protocol_of c) (Some (s2c_key c)) None) = Ok (q, PChallenge cseq (challenge_data s t cseq)).
Proof.
  intros Hp Hk Wt Hq Hc He.
  apply (decode_from_server c s t _ q d Hp Hk He); try assumption.
  - cbn [npacket_wf]. split; [exact Hc | apply challenge_data_len; exact Wt].
  - cbn [packet_id]. lia.
  - cbn [packet_body]. unfold le64. rewrite NSlotsP.len_app, NSlotsP.len_le_bytes. lia.
Qed.

Lemma decode_keepalive c s t slot mc q d :
  protocol_of c = ns_protocol s -> s2c_key c = pt_s2c t ->
  q < U64 -> slot < 4294967296 -> mc < 4294967296 ->
  encode OUT_CAP (PKeepAlive slot mc) (ns_protocol s) (Some (q, pt_s2c t)) = Ok d ->
  snd (decode d (protocol_of c) (Some (s2c_key c)) None) = Ok (q, PKeepAlive slot mc).
Proof.
  intros Hp Hk Hq Hs Hm He.
  apply (decode_from_server c s t _ q d Hp Hk He); try assumption.
  - cbn [npacket_wf]. split; assumption.
  - cbn [packet_id]. lia.
  - cbn [packet_body]. unfold le32. rewrite NSlotsP.len_app, !NSlotsP.len_le_bytes. lia.
Qed.

(* a second challenge is ignored *)
Lemma cl_ignores_challenge c q ts td d :
  cl_state c = CSendingResponse ->
  snd (decode d (protocol_of c) (Some (s2c_key c)) None) = Ok (q, PChallenge ts td) ->
  nclient_process_packet c d = (c, None).
Proof.
  intros S H. rewrite (process_authentic_unprotected _ _ _ _ H); [|discriminate|reflexivity].
  unfold client_handle. rewrite S. reflexivity.
Qed.

(* a keep-alive at a connected client: still connected, whatever the window says *)
Lemma cl_connected_keepalive c q ci mc d :
  client_inv c -> cl_state c = CConnected ->
  snd (decode d (protocol_of c) (Some (s2c_key c)) None) = Ok (q, PKeepAlive ci mc) ->
  let c' := fst (nclient_process_packet c d) in
  cl_state c' = CConnected /\ cl_client_index c' = cl_client_index c /\ cl_frame c c' /\ client_inv c'.
Proof.
  intros Hinv S H c'. destruct (cl_recv_frame c d Hinv) as [F I']. fold c' in F, I'.
  split; [|split; [|split; assumption]]; unfold c'; rewrite process_packet_unfold; cbv zeta;
    set (D := decode d (protocol_of c) (Some (s2c_key c)) (Some (cl_replay c)));
    destruct (snd D) as [[q' p']|e|site] eqn:Ed; try (cbn [fst]; proj_cbn; auto; fail).
  - pose proof (decode_ok_without_window _ _ _ _ _ _ Ed) as H1. rewrite H in H1. injection H1 as _ <-.
    unfold client_handle. proj_cbn. rewrite S. reflexivity.
  - pose proof (decode_ok_without_window _ _ _ _ _ _ Ed) as H1. rewrite H in H1. injection H1 as _ <-.
    unfold client_handle. proj_cbn. rewrite S. reflexivity.
Qed.

(* ---- the client's tick ---- *)
Definition cl_sent (c : nclient) (dt : N) : nclient :=
  cl_set (cl_tick c dt) (cl_state c) (Some (cl_now c + dt)) (cl_last_recv c) (cl_seq c + 1).

Lemma client_tick c dt :
  client_inv c -> is_connecting c = true \/ is_connected c = true ->
  (is_connecting c = true -> token_expired c dt = false) -> NClientP.timed_out c dt = false ->
  (cl_state c = CSendingRequest -> token_sizes_ok (cl_token c)) ->
  (nclient_update c dt = Ok (cl_tick c dt, None) /\ send_due (cl_tick c dt) = false) \/
  (exists d p, nclient_update c dt = Ok (cl_sent c dt, Some (d, cl_server_addr c)) /\
     send_due (cl_tick c dt) = true /\ client_packet c = Some p /\
     encode CL_CAP p (protocol_of c) (Some (cl_seq c, c2s_key c)) = Ok d /\
     (cl_state c = CSendingRequest -> d = token_dgram (cl_token c))).
Proof.
  intros Hinv Hst Hexp Hto Htok.
  pose proof (uis_alive c dt Hinv Hst Hexp Hto) as Hu.
  rewrite (update_unfold _ _ _ _ Hu).
  assert (Hls : last_send_ok (cl_tick c dt)) by (apply client_inv_last_send_ok, client_inv_tick, Hinv).
  destruct (send_due (cl_tick c dt)) eqn:Hdue.
  - right.
    assert (Hp : exists p, client_packet c = Some p).
    { unfold client_packet, is_connecting, is_connected in *.
      destruct (cl_state c); try (eexists; reflexivity). destruct Hst; discriminate. }
    destruct Hp as [p Hp].
    destruct Hinv as (H1 & H2 & H3 & H4 & H5 & H6 & H7).
    destruct (client_packet_encodes c p H7 Htok Hp) as (d & He & Hd).
    exists d, p. split.
    { rewrite (generate_packet_due (cl_tick c dt) p d Hls Hdue Hp He). reflexivity. }
    split; [reflexivity|]. split; [exact Hp|]. split; [exact He|].
    intros S. rewrite S in Hd. exact Hd.
  - left. split; [|reflexivity]. apply generate_packet_too_soon; assumption.
Qed.

Lemma client_inv_cl_sent c dt : client_inv c -> client_inv (cl_sent c dt).
Proof.
  intros Hinv. pose proof (client_inv_tick c dt Hinv) as H1.
  apply (client_inv_sent (cl_tick c dt) (Some (cl_now c + dt)) (cl_seq c + 1)) in H1; [exact H1|]. proj_cbn. lia.
Qed.

Lemma send_due_tick c dt :
  client_inv c -> (cl_last_send c = None \/ SEND_RATE_NS <= dt) -> send_due (cl_tick c dt) = true.
Proof.
  intros (_ & _ & H3 & _) H. unfold send_due. proj_cbn. unfold SEND_RATE_NS in H.
  destruct (cl_last_send c) as [t0|]; [|reflexivity]. destruct H as [H|H]; [discriminate | lia].
Qed.

(* ================================================================== *)
(* 4. the network: copies of one datagram                              *)
(* ================================================================== *)

(* ---- requests at the server ---- *)
Definition chal_reply (s : nserver) (a : addr) (t : private_token) (r : sresult) : Prop :=
  exists d cseq q, r = SRPacketToSend a d /\ challenge_dgram s t cseq q d /\ q < U64 /\ cseq < U64 /\
    exists pc, pend_find a (ns_pending s) = Some pc /\ nc_chal_floor pc <= cseq.

Lemma challenge_dgram_same s s' t cseq q d :
  srv_same s s' -> challenge_dgram s t cseq q d -> challenge_dgram s' t cseq q d.
Proof.
  intros (Hp & _ & Hk & _) H. unfold challenge_dgram, challenge_data in *. rewrite Hp, Hk. exact H.
Qed.

Lemma feed_requests a tok t n : forall s,
  srv_static s a tok t -> slot_open s a t -> pend_room s a tok t ->
  as_secs (ns_now s) < ct_expire tok ->
  ns_chal_seq s + N.of_nat n < U64 -> ns_global_seq s + N.of_nat n <= U64 ->
  exists s' rs,
    feed n s a (token_dgram tok) = Ok (s', rs) /\
    srv_static s' a tok t /\ slot_open s' a t /\ pend_room s' a tok t /\
    Forall (chal_reply s' a t) rs /\ length rs = n /\
    (forall old, pend_find a (ns_pending s) = Some old ->
       exists pc', pend_find a (ns_pending s') = Some pc' /\ nc_chal_floor pc' = nc_chal_floor old) /\
    ns_chal_seq s' = ns_chal_seq s + N.of_nat n /\ ns_global_seq s' = ns_global_seq s + N.of_nat n /\
    ns_clients s' = ns_clients s /\ ns_now s' = ns_now s /\ srv_same s s'.
Proof.
  induction n as [|n IH]; intros s St So Hp Hnow Hc Hg.
  - exists s, []. cbn [feed length]. split; [reflexivity|]. split; [exact St|]. split; [exact So|]. split; [exact Hp|].
    split; [constructor|]. split; [reflexivity|].
    split; [intros old E; exists old; split; [exact E | reflexivity]|].
    repeat split; try reflexivity; lia.
  - destruct (srv_request s a tok t St So Hp Hnow)
      as (s1 & d & pc1 & Hpp & Hd & St1 & So1 & Ep1 & Hok1 & Hfl1 & Hfl1' & Hc1 & Hg1 & Hcl1 & Hn1 & Sm1).
    assert (Hp1 : pend_room s1 a tok t) by (unfold pend_room; rewrite Ep1; exact Hok1).
    destruct (IH s1 St1 So1 Hp1) as (s2 & rs & Hf & St2 & So2 & Hp2 & Hrs & Hlen & Hfl2 & Hc2 & Hg2 & Hcl2 & Hn2 & Sm2);
      [rewrite Hn1; exact Hnow | lia | lia |].
    exists s2, (SRPacketToSend a d :: rs). cbn [feed]. rewrite Hpp. cbn [bind]. rewrite Hf. cbn [bind].
    split; [reflexivity|]. split; [exact St2|]. split; [exact So2|]. split; [exact Hp2|].
    destruct (Hfl2 pc1 Ep1) as (pc2 & Ep2 & Hfl12).
    split.
    { constructor; [|exact Hrs]. exists d, (ns_chal_seq s + 1), (ns_global_seq s).
      split; [reflexivity|]. split; [apply (challenge_dgram_same s s2); [apply (srv_same_trans _ _ _ Sm1 Sm2) | exact Hd]|].
      split; [lia|]. split; [lia|]. exists pc2. split; [exact Ep2 | lia]. }
    split; [cbn [length]; lia|].
    split.
    { intros old E. exists pc2. split; [exact Ep2|]. rewrite Hfl12. apply Hfl1'. exact E. }
    split; [lia|]. split; [lia|]. split; [congruence|]. split; [congruence|]. apply (srv_same_trans _ _ _ Sm1 Sm2).
Qed.

(* ---- datagrams that do not change a connected server's mind ---- *)
Lemma conn_kept_trans now sc1 sc2 sc3 : conn_kept now sc1 sc2 -> conn_kept now sc2 sc3 -> conn_kept now sc1 sc3.
Proof.
  unfold conn_kept, same_cred. intros (A1 & A2 & A3 & A4) (B1 & B2 & B3 & B4).
  split; [intuition congruence|]. split; [congruence|]. split; [congruence|].
  destruct B4 as [B4|B4]; [rewrite B4; exact A4 | right; exact B4].
Qed.

Lemma conn_kept_refl now sc : conn_kept now sc sc.
Proof. unfold conn_kept. split; [apply same_cred_refl|]. auto. Qed.

Lemma feed_quiet a p q d n : forall s slot sc,
  table_inv s -> find_by_addr s a = Some (slot, sc) ->
  quiet_packet p -> npacket_wf p -> q < U64 ->
  encode OUT_CAP p (ns_protocol s) (Some (q, nc_recv_key sc)) = Ok d ->
  exists s' sc',
    feed n s a d = Ok (s', repeat SRNone n) /\ table_inv s' /\
    find_by_addr s' a = Some (slot, sc') /\ conn_kept (ns_now s) sc sc' /\
    ns_entries s' = ns_entries s /\ ns_pending s' = ns_pending s /\
    ns_chal_seq s' = ns_chal_seq s /\ ns_global_seq s' = ns_global_seq s /\ ns_now s' = ns_now s /\
    srv_same s s' /\ connected_count s' = connected_count s.
Proof.
  induction n as [|n IH]; intros s slot sc T Ea Hqp Wp Hq He.
  - exists s, sc. cbn [feed repeat]. split; [reflexivity|]. split; [exact T|]. split; [exact Ea|].
    split; [apply conn_kept_refl|]. repeat split; reflexivity.
  - destruct (srv_conn_recv s a slot sc p q d T Ea Hqp Wp Hq He)
      as (s1 & sc1 & Hpp & T1 & Ea1 & K1 & En1 & Pe1 & Hc1 & Hg1 & Hn1 & Sm1 & Cn1).
    assert (He1 : encode OUT_CAP p (ns_protocol s1) (Some (q, nc_recv_key sc1)) = Ok d).
    { destruct Sm1 as (-> & _). destruct K1 as ((_ & _ & -> & _) & _). exact He. }
    destruct (IH s1 slot sc1 T1 Ea1 Hqp Wp Hq He1) as (s2 & sc2 & Hf & T2 & Ea2 & K2 & En2 & Pe2 & Hc2 & Hg2 & Hn2 & Sm2 & Cn2).
    exists s2, sc2. cbn [feed repeat]. rewrite Hpp. cbn [bind]. rewrite Hf. cbn [bind].
    split; [reflexivity|]. split; [exact T2|]. split; [exact Ea2|].
    split; [apply (conn_kept_trans _ _ sc1); [exact K1 | rewrite <- Hn1; exact K2]|].
    split; [congruence|]. split; [congruence|]. split; [congruence|]. split; [congruence|]. split; [congruence|].
    split; [apply (srv_same_trans _ _ _ Sm1 Sm2) | congruence].
Qed.

(* ---- the client's side of the network ---- *)
Lemma deliver_reach (P R : nclient -> Prop) (d : list N) :
  (forall c, P c -> P (fst (nclient_process_packet c d)) /\ R (fst (nclient_process_packet c d))) ->
  forall m c, P c -> P (deliver m c d) /\ ((0 < m)%nat -> R (deliver m c d)).
Proof.
  intros Hstep. induction m as [|m IH]; intros c Hc; cbn [deliver].
  - split; [exact Hc | lia].
  - destruct (Hstep c Hc) as [P1 R1]. destruct (IH _ P1) as [P2 R2]. split; [exact P2|].
    intros _. destruct m as [|m]; [exact R1 | apply R2; lia].
Qed.

Lemma deliver_all_reach (P R : nclient -> Prop) (Q : list N -> Prop) m :
  (forall c d, P c -> Q d -> P (fst (nclient_process_packet c d)) /\ R (fst (nclient_process_packet c d))) ->
  forall ds c, P c -> Forall Q ds ->
    P (deliver_all m c ds) /\ ((0 < m)%nat -> ds <> [] -> R (deliver_all m c ds)).
Proof.
  intros Hstep. unfold deliver_all. induction ds as [|d ds IH]; intros c Hc HQ; cbn [fold_left].
  - split; [exact Hc | congruence].
  - inversion HQ as [|x l Hd Hds]; subst.
    destruct (deliver_reach P R d (fun c0 H0 => Hstep c0 d H0 Hd) m c Hc) as [P1 R1].
    destruct (IH _ P1 Hds) as [P2 R2]. split; [exact P2|].
    intros Hm _. destruct ds as [|d' ds']; [cbn [fold_left]; apply R1; exact Hm | apply R2; [exact Hm | discriminate]].
Qed.

(* ---- the static part, split between the two parties ---- *)
Lemma sys_static_split c s a t :
  sys_static {| sy_client := c; sy_server := s; sy_addr := a |} t <->
  srv_static s a (cl_token c) t /\ cl_id c = ct_client_id (cl_token c) /\
  dest_ok s (cl_server_addr c) = true /\ client_inv c.
Proof.
  unfold sys_static, srv_static. cbn [sy_client sy_server sy_addr]. unfold client_wf, client_inv. tauto.
Qed.

Lemma srv_static_same_dest s s' d : srv_same s s' -> dest_ok s d = true -> dest_ok s' d = true.
Proof. intros (_ & _ & _ & _ & Ha & _) H. unfold dest_ok in *. rewrite Ha. exact H. Qed.

Lemma sys_static_client c c' s a t :
  sys_static {| sy_client := c; sy_server := s; sy_addr := a |} t -> cl_frame c c' -> client_inv c' ->
  sys_static {| sy_client := c'; sy_server := s; sy_addr := a |} t.
Proof.
  rewrite !sys_static_split. intros (S1 & S2 & S3 & _) (Ft & Fi & Fa & _) I'.
  rewrite Ft, Fi, Fa. auto.
Qed.

(* ================================================================== *)
(* 5. the client receives the server's answers                         *)
(* ================================================================== *)
Notation mk c s a := {| sy_client := c; sy_server := s; sy_addr := a |}.

Lemma static_keys c s a t :
  sys_static (mk c s a) t -> protocol_of c = ns_protocol s /\ s2c_key c = pt_s2c t /\ c2s_key c = pt_c2s t.
Proof.
  rewrite sys_static_split. intros ((_ & _ & (_ & Hc & Hs) & Hp & _) & _).
  unfold protocol_of, s2c_key, c2s_key. auto.
Qed.

(* ---- challenges ---- *)
Definition chal_dgram_ok (s : nserver) (a : addr) (t : private_token) (d : list N) : Prop :=
  exists cseq q, challenge_dgram s t cseq q d /\ q < U64 /\ cseq < U64 /\
    exists pc, pend_find a (ns_pending s) = Some pc /\ nc_chal_floor pc <= cseq.

(* the client after any number of deliveries in a tick that started with the requesting client c0 *)
Definition got_challenge (s : nserver) (a : addr) (t : private_token) (c0 c : nclient) : Prop :=
  ph_response (mk c s a) t /\ cl_last_send c = None /\ cl_last_recv c = cl_now c0.

Definition P12 (s : nserver) (a : addr) (t : private_token) (c0 c : nclient) : Prop :=
  sys_static (mk c s a) t /\ cl_frame c0 c /\
  ((ph_request (mk c s a) t /\ c = c0) \/ got_challenge s a t c0 c).

Lemma recv_challenge_step s a t c0 c d :
  P12 s a t c0 c -> chal_dgram_ok s a t d ->
  P12 s a t c0 (fst (nclient_process_packet c d)) /\ got_challenge s a t c0 (fst (nclient_process_packet c d)).
Proof.
  intros (St & Fr & Hph) (cseq & q & Hd & Hq & Hcs & pc & Epc & Hfl).
  destruct (static_keys _ _ _ _ St) as (Kp & Ks & _).
  pose proof St as St0. rewrite sys_static_split in St0. destruct St0 as ((_ & Wt & _) & _ & _ & Hinv).
  pose proof (decode_challenge c s t cseq q d Kp Ks Wt Hq Hcs Hd) as Hdec.
  destruct Hph as [[(S & Hrp & So & Hpend) ->]|(Hresp & Hls & Hlr)]; cbn [sy_client sy_server sy_addr] in *.
  - destruct (client_accepts_challenge c0 d q cseq _ S Hdec)
      as (c' & Hpp & S' & Hcq & Hcd & Hls' & Hlr' & Hnow' & Hsq' & Htok' & Hsa' & Hai' & Hcs' & Hrp').
    rewrite Hpp. cbn [fst].
    destruct (cl_recv_frame c0 d Hinv) as [F I']. rewrite Hpp in F, I'. cbn [fst] in F, I'.
    assert (G : got_challenge s a t c0 c').
    { split; [|split; assumption]. unfold ph_response. cbn [sy_client sy_server sy_addr].
      split; [exact S'|]. split; [congruence|]. split; [exact So|].
      exists pc. rewrite Epc in Hpend. rewrite Htok', Hcq, Hcd. auto. }
    split; [|exact G]. split; [apply (sys_static_client c0); assumption|]. split; [exact F|]. right. exact G.
  - pose proof Hresp as (S & _).
    rewrite (cl_ignores_challenge c q _ _ d S Hdec). cbn [fst].
    split; [|exact (conj Hresp (conj Hls Hlr))]. split; [exact St|]. split; [exact Fr|]. right. exact (conj Hresp (conj Hls Hlr)).
Qed.

(* ---- keep-alives ---- *)
Definition ka_dgram_ok (s : nserver) (a : addr) (t : private_token) (d : list N) : Prop :=
  exists q slot sc, q < U64 /\ find_by_addr s a = Some (slot, sc) /\ keepalive_dgram s t slot q d.

Definition P34 (s : nserver) (a : addr) (t : private_token) (c0 c : nclient) : Prop :=
  sys_static (mk c s a) t /\ cl_frame c0 c /\ (ph_accepted (mk c s a) t \/ ph_connected (mk c s a) t).

Lemma slot_small s f slot sc :
  server_sizes s -> find_slot_by f (ns_clients s) 0 = Some (slot, sc) -> slot < 4294967296 /\ ns_max s < 4294967296.
Proof.
  intros [H1 H2] H. destruct (lookup_nth _ _ _ _ H) as [Hn _]. apply nth_opt_some_lt in Hn.
  unfold len, NC_MAX_CLIENTS in *. lia.
Qed.

Lemma recv_keepalive_step s a t c0 c d :
  P34 s a t c0 c -> ka_dgram_ok s a t d ->
  P34 s a t c0 (fst (nclient_process_packet c d)) /\ ph_connected (mk (fst (nclient_process_packet c d)) s a) t.
Proof.
  intros (St & Fr & Hph) (q & slot & sc & Hq & Ea & Hd).
  destruct (static_keys _ _ _ _ St) as (Kp & Ks & _).
  pose proof St as St0. rewrite sys_static_split in St0. destruct St0 as ((_ & _ & _ & _ & _ & _ & _ & _ & Hsz) & _ & _ & Hinv).
  destruct (slot_small _ _ _ _ Hsz Ea) as [Hsl Hmx].
  pose proof (decode_keepalive c s t slot (ns_max s) q d Kp Ks Hq Hsl Hmx Hd) as Hdec.
  destruct (cl_recv_frame c d Hinv) as [F I'].
  assert (St' : sys_static (mk (fst (nclient_process_packet c d)) s a) t) by (apply (sys_static_client c); assumption).
  assert (Fr' : cl_frame c0 (fst (nclient_process_packet c d))) by (apply (cl_frame_trans _ c); assumption).
  destruct Hph as [(S & Hrp & _ & slot' & sc' & Hconn)|(S & slot' & sc' & Hconn & Hidx)]; cbn [sy_client sy_server sy_addr] in *.
  - assert (Hfresh : already_received (cl_replay c) q = false) by (rewrite Hrp; apply already_received_new).
    destruct (client_accepts_keepalive c d q slot (ns_max s) S Hdec Hfresh)
      as (c' & Hpp & S' & Hci & _ & _ & _ & _ & _ & Htok' & _).
    rewrite Hpp in *. cbn [fst] in *.
    assert (C : ph_connected (mk c' s a) t).
    { unfold ph_connected. cbn [sy_client sy_server sy_addr]. split; [exact S'|].
      exists slot', sc'. rewrite Htok'. split; [exact Hconn|].
      destruct Hconn as (Ea' & _). rewrite Ea in Ea'. injection Ea' as -> _. exact Hci. }
    split; [|exact C]. split; [exact St'|]. split; [exact Fr'|]. right. exact C.
  - pose proof (cl_connected_keepalive c q slot (ns_max s) d Hinv S Hdec) as K. cbv zeta in K.
    destruct K as (S' & Hci & (Htok' & _) & _).
    assert (C : ph_connected (mk (fst (nclient_process_packet c d)) s a) t).
    { unfold ph_connected. cbn [sy_client sy_server sy_addr]. split; [exact S'|].
      exists slot', sc'. rewrite Htok', Hci. split; [exact Hconn | exact Hidx]. }
    split; [|exact C]. split; [exact St'|]. split; [exact Fr'|]. right. exact C.
Qed.

(* ================================================================== *)
(* 6. one tick, phase by phase                                         *)
(* ================================================================== *)

Lemma tick_frame_tick c dt : tick_frame c (cl_tick c dt) dt.
Proof. unfold tick_frame. proj_cbn. repeat split; lia. Qed.

Lemma tick_frame_sent c dt : tick_frame c (cl_sent c dt) dt.
Proof. unfold tick_frame, cl_sent. proj_cbn. repeat split; lia. Qed.

Lemma copies_le2 f : (copies f <= 2)%nat.
Proof. destruct f; cbn [copies]; lia. Qed.

Lemma round_ok_split c s a dt :
  round_ok (mk c s a) dt = true ->
  (is_connecting c = true -> token_expired c dt = false /\ srv_expired s (cl_token c) dt = false) /\
  NClientP.timed_out c dt = false /\ srv_timed_out s (cl_id c) dt = false /\
  cl_seq c + 1 < U64 /\ ns_global_seq s + 2 < U64 /\ ns_chal_seq s + 2 < U64 /\ srv_conn_seq (mk c s a) + 1 < U64.
Proof.
  unfold round_ok, time_ok, seq_room. cbn [sy_client sy_server sy_addr].
  rewrite cl_expired_eq, cl_timed_out_eq. intros H.
  apply andb_true_iff in H. destruct H as [Ht Hs].
  apply andb_true_iff in Ht. destruct Ht as [Ht Hst]. apply andb_true_iff in Ht. destruct Ht as [Hx Hct].
  apply negb_true_iff in Hst. apply negb_true_iff in Hct.
  split.
  { intros Hc. rewrite Hc in Hx. apply andb_true_iff in Hx. destruct Hx as [X1 X2].
    split; [apply negb_true_iff; exact X1 | apply negb_true_iff; exact X2]. }
  split; [exact Hct|]. split; [exact Hst|].
  repeat split; lia.
Qed.

Lemma flat_map_repeat_none a n : flat_map (reply_to a) (repeat SRNone n) = [].
Proof. induction n as [|n IH]; cbn [repeat flat_map reply_to app]; [reflexivity | exact IH]. Qed.

Lemma count_connected_repeat_none n : count_connected (repeat SRNone n) = 0%nat.
Proof. unfold count_connected. induction n as [|n IH]; cbn [repeat filter is_connected_event]; [reflexivity | exact IH]. Qed.

Lemma replies_of_chal s a t rs :
  Forall (chal_reply s a t) rs ->
  Forall (chal_dgram_ok s a t) (flat_map (reply_to a) rs) /\
  (rs <> [] -> flat_map (reply_to a) rs <> []) /\ count_connected rs = 0%nat.
Proof.
  induction 1 as [|r rs Hr Hrs IH]; [split; [constructor|split; [congruence|reflexivity]]|].
  destruct Hr as (d & cseq & q & -> & Hd & Hq & Hcs & Hpc). destruct IH as (I1 & _ & I3).
  cbn [flat_map reply_to]. rewrite addr_eqb_refl. cbn [app]. split; [|split].
  - constructor; [exists cseq, q; auto | exact I1].
  - discriminate.
  - exact I3.
Qed.

Lemma sys_frame_intro c c1 c2 s s' a dt :
  tick_frame c c1 dt -> cl_frame c1 c2 -> (is_connecting c2 = true -> is_connecting c = true) ->
  ns_now s' = ns_now s + dt ->
  ns_chal_seq s <= ns_chal_seq s' <= ns_chal_seq s + 2 ->
  ns_global_seq s <= ns_global_seq s' <= ns_global_seq s + 2 ->
  srv_conn_seq (mk c2 s' a) <= srv_conn_seq (mk c s a) + 1 -> srv_same s s' ->
  (forall slot' sc', find_by_id s' (cl_id c) = Some (slot', sc') ->
     (exists slot sc, find_by_id s (cl_id c) = Some (slot, sc) /\ nc_timeout sc' = nc_timeout sc /\
                      nc_last_recv sc <= nc_last_recv sc') \/
     (find_by_id s (cl_id c) = None /\ ns_now s + dt <= nc_last_recv sc')) ->
  sys_frame (mk c s a) (mk c2 s' a) dt.
Proof.
  intros (T1 & T2 & T3 & T4 & T5 & T6 & T7 & T8 & _) (F1 & F2 & F3 & F4 & F5 & F6 & F7 & F8) Hc Hn Hcs Hg Hsq Sm Hconn.
  unfold sys_frame. cbn [sy_client sy_server sy_addr].
  split; [reflexivity|]. split; [congruence|]. split; [congruence|]. split; [congruence|]. split; [congruence|].
  split; [congruence|]. split; [congruence|]. split; [lia|]. split; [lia|].
  split; [exact Hn|]. split; [exact Hcs|]. split; [exact Hg|]. split; [exact Hsq|]. split; [exact Sm|].
  split; [exact Hc | exact Hconn].
Qed.

Lemma static_id c s a t : sys_static (mk c s a) t -> cl_id c = pt_client_id t.
Proof. rewrite sys_static_split. intros ((_ & _ & (Hi & _) & _) & Hid & _). congruence. Qed.

(* (1) the client is requesting *)
Lemma round_request c s a t dt fc fs :
  sys_static (mk c s a) t -> ph_request (mk c s a) t -> round_ok (mk c s a) dt = true ->
  exists c' s' rs,
    round (mk c s a) dt fc fs = Ok (mk c' s' a, rs) /\
    sys_static (mk c' s' a) t /\ sys_frame (mk c s a) (mk c' s' a) dt /\
    ns_clients s' = ns_clients s /\ count_connected rs = 0%nat /\
    (ph_request (mk c' s' a) t \/
     (ph_response (mk c' s' a) t /\ cl_last_send c' = None /\ cl_last_recv c' = cl_now c + dt)) /\
    ((cl_last_send c = None \/ SEND_RATE_NS <= dt) -> (0 < copies fc)%nat -> (0 < copies fs)%nat ->
       ph_response (mk c' s' a) t /\ cl_last_send c' = None /\ cl_last_recv c' = cl_now c + dt).
Proof.
  intros St Ph Hok.
  pose proof St as St0. rewrite sys_static_split in St0. destruct St0 as (Ss & Hid & Hdest & Hinv).
  pose proof (static_id _ _ _ _ St) as Hidt.
  destruct (round_ok_split _ _ _ _ Hok) as (Hconn & Hto & Hsto & Hq1 & Hg & Hcs & Hsq). clear Hok.
  destruct Ph as (S & Hrp & So & Hpend). cbn [sy_client sy_server sy_addr] in *.
  assert (Hc : is_connecting c = true) by (unfold is_connecting; rewrite S; reflexivity).
  destruct (Hconn Hc) as [Hex Hsex].
  assert (Hp : pend_room s a (cl_token c) t) by exact Hpend.
  destruct (srv_tick_open s a (cl_token c) t dt Ss So Hp Hsex) as (Huc & Ss1 & So1 & Hpf1 & Hp1 & _ & Hnow1).
  set (s1 := nserver_update s dt) in *.
  assert (Sm1 : srv_same s s1) by (repeat split).
  assert (Hsz : token_sizes_ok (cl_token c)) by (apply token_wf_sizes; apply Ss).
  pose proof So as (Ea & Ei & _).
  assert (Hconnpart : forall s', ns_clients s' = ns_clients s ->
            forall slot' sc', find_by_id s' (cl_id c) = Some (slot', sc') ->
            (exists slot sc, find_by_id s (cl_id c) = Some (slot, sc) /\ nc_timeout sc' = nc_timeout sc /\
                             nc_last_recv sc <= nc_last_recv sc') \/
            (find_by_id s (cl_id c) = None /\ ns_now s + dt <= nc_last_recv sc')).
  { intros s' Ecl slot' sc' E. exfalso. unfold find_by_id in E, Ei. rewrite Ecl, Hidt, Ei in E. discriminate. }
  assert (Hseq0 : forall s' c2, ns_clients s' = ns_clients s -> srv_conn_seq (mk c2 s' a) <= srv_conn_seq (mk c s a) + 1).
  { intros s' c2 Ecl. unfold srv_conn_seq, find_by_addr in *. cbn [sy_server sy_addr]. rewrite Ecl, Ea. lia. }
  destruct (client_tick c dt Hinv (or_introl Hc) (fun _ => Hex) Hto (fun _ => Hsz))
    as [[Hcu Hnd]|(d & p & Hcu & Hdue & Hcp & Henc & Hd)].
  - (* too soon: nothing leaves *)
    exists (cl_tick c dt), s1, [SRNone].
    assert (St1 : sys_static (mk (cl_tick c dt) s1 a) t).
    { rewrite sys_static_split. split; [exact Ss1|]. split; [exact Hid|]. split; [exact Hdest|]. apply client_inv_tick. exact Hinv. }
    split.
    { unfold round. cbn [sy_client sy_server sy_addr]. fold s1. rewrite Hidt, Huc. cbn [bind]. rewrite Hcu. reflexivity. }
    split; [exact St1|].
    split.
    { refine (sys_frame_intro c (cl_tick c dt) (cl_tick c dt) s s1 a dt _ _ _ _ _ _ _ _ _).
      - apply tick_frame_tick. - apply cl_frame_refl. - intros _. exact Hc.
      - reflexivity. - change (ns_chal_seq s1) with (ns_chal_seq s). lia.
      - change (ns_global_seq s1) with (ns_global_seq s). lia.
      - apply Hseq0. reflexivity. - exact Sm1. - apply Hconnpart. reflexivity. }
    split; [reflexivity|]. split; [reflexivity|].
    assert (Ph1 : ph_request (mk (cl_tick c dt) s1 a) t).
    { unfold ph_request. cbn [sy_client sy_server sy_addr]. exact (conj S (conj Hrp (conj So1 Hp1))). }
    split; [left; exact Ph1|].
    intros Hsend _ _. exfalso. rewrite (send_due_tick c dt Hinv Hsend) in Hnd. discriminate.
  - (* the request leaves *)
    specialize (Hd S). subst d. clear Hto Hsto Hex Hsex Hdue Hconn.
    assert (Hdest1 : dest_ok s1 (cl_server_addr c) = true) by exact Hdest.
    destruct (feed_requests a (cl_token c) t (copies fc) s1 Ss1 So1 Hp1 Hnow1)
      as (s3 & rs & Hf & Ss3 & So3 & Hp3 & Hrs & Hlen & _ & Hc3 & Hg3 & Hcl3 & Hn3 & Sm3).
    { pose proof (copies_le2 fc). change (ns_chal_seq s1) with (ns_chal_seq s). lia. }
    { pose proof (copies_le2 fc). change (ns_global_seq s1) with (ns_global_seq s). lia. }
    destruct (replies_of_chal s3 a t rs Hrs) as (Hds & Hne & Hcnt).
    set (c1 := cl_sent c dt) in *.
    assert (Hinv1 : client_inv c1).
    { apply client_inv_cl_sent. exact Hinv. }
    assert (St13 : sys_static (mk c1 s3 a) t).
    { rewrite sys_static_split. split; [exact Ss3|]. split; [exact Hid|].
      split; [apply (srv_static_same_dest s1 s3 _ Sm3); exact Hdest1 | exact Hinv1]. }
    assert (P0 : P12 s3 a t c1 c1).
    { split; [exact St13|]. split; [apply cl_frame_refl|]. left. split; [|reflexivity].
      unfold ph_request. cbn [sy_client sy_server sy_addr]. exact (conj S (conj Hrp (conj So3 Hp3))). }
    destruct (deliver_all_reach (P12 s3 a t c1) (got_challenge s3 a t c1) (chal_dgram_ok s3 a t) (copies fs)
                (recv_challenge_step s3 a t c1) (flat_map (reply_to a) rs) c1 P0 Hds) as [Pf Rf].
    set (c2 := deliver_all (copies fs) c1 (flat_map (reply_to a) rs)) in *.
    exists c2, s3, (SRNone :: rs).
    split.
    { unfold round. cbn [sy_client sy_server sy_addr]. fold s1. rewrite Hidt, Huc. cbn [bind]. rewrite Hcu. cbn [bind].
      rewrite Hdest1, Hf. cbn [bind]. reflexivity. }
    destruct Pf as (St2 & Fr2 & Hph2).
    split; [exact St2|].
    split.
    { refine (sys_frame_intro c c1 c2 s s3 a dt _ _ _ _ _ _ _ _ _).
      - apply tick_frame_sent. - exact Fr2. - intros _. exact Hc.
      - rewrite Hn3. reflexivity.
      - pose proof (copies_le2 fc). change (ns_chal_seq s1) with (ns_chal_seq s) in Hc3. lia.
      - pose proof (copies_le2 fc). change (ns_global_seq s1) with (ns_global_seq s) in Hg3. lia.
      - apply Hseq0. exact Hcl3.
      - apply (srv_same_trans _ _ _ Sm1 Sm3).
      - apply Hconnpart. exact Hcl3. }
    split; [exact Hcl3|].
    split; [exact Hcnt|].
    assert (Hgot : got_challenge s3 a t c1 c2 ->
              ph_response (mk c2 s3 a) t /\ cl_last_send c2 = None /\ cl_last_recv c2 = cl_now c + dt).
    { intros (G1 & G2 & G3). split; [exact G1|]. split; [exact G2|]. rewrite G3. reflexivity. }
    split.
    { destruct Hph2 as [[Hr ->]|G]; [left; exact Hr | right; apply Hgot; exact G]. }
    intros _ Hfc Hfs. apply Hgot. apply Rf; [exact Hfs|]. apply Hne. intros E. rewrite E in Hlen. cbn [length] in Hlen. lia.
Qed.

Lemma srv_static_kept s s' a tok t :
  srv_static s a tok t -> table_inv s' -> srv_same s s' -> ns_entries s' = ns_entries s -> srv_static s' a tok t.
Proof.
  intros (W & Wt & Hcons & Hpr & Hpd & Hh & Hen & _ & Hsz) T' (Sp & Sk & _ & Ss & Sa & Sm & Sl) Een.
  unfold srv_static. rewrite Sp, Sk, Ss.
  refine (conj W (conj Wt (conj Hcons (conj Hpr (conj Hpd (conj _ (conj _ (conj T' _)))))))).
  - unfold in_host_list in *. rewrite Sa. exact Hh.
  - unfold entry_free_or_bound in *. rewrite Een. exact Hen.
  - unfold server_sizes in *. rewrite Sm, Sl. exact Hsz.
Qed.

Lemma same_id_same_conn s id slot sc slot' sc' :
  find_by_id s id = Some (slot, sc) -> find_by_id s id = Some (slot', sc') -> slot' = slot /\ sc' = sc.
Proof. intros H1 H2. rewrite H1 in H2. injection H2 as <- <-. auto. Qed.

(* (2) the client is answering a challenge, the server still has the pending entry *)
Lemma round_response c s a t dt fc fs :
  sys_static (mk c s a) t -> ph_response (mk c s a) t -> round_ok (mk c s a) dt = true ->
  exists c' s' rs,
    round (mk c s a) dt fc fs = Ok (mk c' s' a, rs) /\
    sys_static (mk c' s' a) t /\ sys_frame (mk c s a) (mk c' s' a) dt /\
    ((ph_response (mk c' s' a) t /\ ns_clients s' = ns_clients s /\ count_connected rs = 0%nat) \/
     ((ph_accepted (mk c' s' a) t \/ ph_connected (mk c' s' a) t) /\
      connected_count s' = connected_count s + 1 /\ count_connected rs = 1%nat)) /\
    ((cl_last_send c = None \/ SEND_RATE_NS <= dt) -> (0 < copies fc)%nat ->
       connected_count s' = connected_count s + 1 /\ count_connected rs = 1%nat /\
       ((0 < copies fs)%nat -> ph_connected (mk c' s' a) t)).
Proof.
  intros St Ph Hok.
  pose proof St as St0. rewrite sys_static_split in St0. destruct St0 as (Ss & Hid & Hdest & Hinv).
  pose proof (static_id _ _ _ _ St) as Hidt.
  destruct (static_keys _ _ _ _ St) as (Kp & Ks & Kc).
  destruct (round_ok_split _ _ _ _ Hok) as (Hconn & Hto & Hsto & Hq1 & Hg & Hcs & Hsq). clear Hok.
  destruct Ph as (S & Hrp & So & pc & Epc & Hokpc & Hfl & Hts & Hcd). cbn [sy_client sy_server sy_addr] in *.
  assert (Hc : is_connecting c = true) by (unfold is_connecting; rewrite S; reflexivity).
  destruct (Hconn Hc) as [Hex Hsex].
  assert (Hp : pend_room s a (cl_token c) t) by (unfold pend_room; rewrite Epc; exact Hokpc).
  destruct (srv_tick_open s a (cl_token c) t dt Ss So Hp Hsex) as (Huc & Ss1 & So1 & Hpf1 & Hp1 & Hkeep & Hnow1).
  set (s1 := nserver_update s dt) in *.
  assert (Sm1 : srv_same s s1) by (repeat split).
  rewrite Epc in Hpf1. pose proof (Hkeep pc Hokpc) as Hokpc1.
  pose proof So as (Ea & Ei & _).
  assert (Hnotreq : cl_state c = CSendingRequest -> token_sizes_ok (cl_token c)) by (intros E; rewrite S in E; discriminate).
  assert (Hconnpart0 : forall s', ns_clients s' = ns_clients s ->
            forall slot' sc', find_by_id s' (cl_id c) = Some (slot', sc') ->
            (exists slot sc, find_by_id s (cl_id c) = Some (slot, sc) /\ nc_timeout sc' = nc_timeout sc /\
                             nc_last_recv sc <= nc_last_recv sc') \/
            (find_by_id s (cl_id c) = None /\ ns_now s + dt <= nc_last_recv sc')).
  { intros s' Ecl slot' sc' E. exfalso. unfold find_by_id in E, Ei. rewrite Ecl, Hidt, Ei in E. discriminate. }
  assert (Hseq0 : forall s' c2, ns_clients s' = ns_clients s -> srv_conn_seq (mk c2 s' a) <= srv_conn_seq (mk c s a) + 1).
  { intros s' c2 Ecl. unfold srv_conn_seq, find_by_addr in *. cbn [sy_server sy_addr]. rewrite Ecl, Ea. lia. }
  (* the state when nothing reaches the server *)
  assert (Hstay : forall c1, tick_frame c c1 dt -> client_inv c1 ->
            sys_static (mk c1 s1 a) t /\ sys_frame (mk c s a) (mk c1 s1 a) dt /\ ph_response (mk c1 s1 a) t).
  { intros c1 Tf I1. pose proof Tf as (T1 & T2 & T3 & T4 & T5 & T6 & T7 & T8 & T9 & T10 & T11 & T12 & T13).
    split; [|split].
    - rewrite sys_static_split. rewrite T1, T2, T3. auto.
    - refine (sys_frame_intro c c1 c1 s s1 a dt Tf (cl_frame_refl c1) _ _ _ _ _ Sm1 _).
      + unfold is_connecting. rewrite T9. auto.
      + reflexivity.
      + change (ns_chal_seq s1) with (ns_chal_seq s). lia.
      + change (ns_global_seq s1) with (ns_global_seq s). lia.
      + apply Hseq0. reflexivity.
      + apply Hconnpart0. reflexivity.
    - unfold ph_response. cbn [sy_client sy_server sy_addr]. rewrite T9, T10, T1, T11, T12.
      refine (conj S (conj Hrp (conj So1 _))). exists pc. auto. }
  destruct (client_tick c dt Hinv (or_introl Hc) (fun _ => Hex) Hto Hnotreq)
    as [[Hcu Hnd]|(d & p & Hcu & Hdue & Hcp & Henc & _)].
  - (* too soon *)
    destruct (Hstay (cl_tick c dt) (tick_frame_tick c dt) (client_inv_tick c dt Hinv)) as (St1 & Fr1 & Ph1).
    exists (cl_tick c dt), s1, [SRNone].
    split.
    { unfold round. cbn [sy_client sy_server sy_addr]. fold s1. rewrite Hidt, Huc. cbn [bind]. rewrite Hcu. reflexivity. }
    split; [exact St1|]. split; [exact Fr1|].
    split; [left; split; [exact Ph1 | split; reflexivity]|].
    intros Hsend _. exfalso. rewrite (send_due_tick c dt Hinv Hsend) in Hnd. discriminate.
  - (* the response leaves *)
    unfold client_packet in Hcp. rewrite S in Hcp. injection Hcp as <-. clear Hto Hsto Hex Hsex Hdue Hconn.
    set (c1 := cl_sent c dt) in *.
    assert (Hinv1 : client_inv c1) by (apply client_inv_cl_sent; exact Hinv).
    assert (Hdest1 : dest_ok s1 (cl_server_addr c) = true) by exact Hdest.
    assert (Henc1 : encode OUT_CAP (PResponse (cl_chal_seq c) (challenge_data s1 t (cl_chal_seq c))) (ns_protocol s1)
                      (Some (cl_seq c, pt_c2s t)) = Ok d).
    { rewrite Kp, Kc, Hcd in Henc. exact Henc. }
    destruct (copies fc) as [|n] eqn:Ecf.
    + (* lost *)
      destruct (Hstay c1 (tick_frame_sent c dt) Hinv1) as (St1 & Fr1 & Ph1).
      exists c1, s1, [SRNone].
      split.
      { unfold round. cbn [sy_client sy_server sy_addr]. fold s1. rewrite Hidt, Huc. cbn [bind]. rewrite Hcu. cbn [bind].
        rewrite Hdest1, Ecf. reflexivity. }
      split; [exact St1|]. split; [exact Fr1|].
      split; [left; split; [exact Ph1 | split; reflexivity]|].
      intros _ Hfc. lia.
    + (* delivered: the first copy connects, the others are ignored *)
      destruct (srv_response s1 a (cl_token c) t pc (cl_chal_seq c) (cl_seq c) d Ss1 So1 Hpf1 Hokpc1 Hfl Hts)
        as (s2 & slot & ka & Hpp & Hka & Hff & Ss2 & Hconn2 & Hfi2 & Hpn2 & Hcnt2 & Hc2 & Hg2 & Hn2 & Sm2);
        [lia | exact Henc1 |].
      set (sc2 := promote pc (pt_user t) (ns_now s1)) in *.
      destruct Hconn2 as (Ea2 & Hct2 & Hls2 & Hlr2).
      pose proof Ss2 as (_ & _ & _ & _ & _ & _ & _ & T2 & _).
      assert (Henc2 : encode OUT_CAP (PResponse (cl_chal_seq c) (challenge_data s1 t (cl_chal_seq c))) (ns_protocol s2)
                        (Some (cl_seq c, nc_recv_key sc2)) = Ok d).
      { destruct Sm2 as (-> & _). destruct Hct2 as (_ & _ & -> & _). exact Henc1. }
      destruct (feed_quiet a (PResponse (cl_chal_seq c) (challenge_data s1 t (cl_chal_seq c))) (cl_seq c) d n s2 slot sc2 T2 Ea2 I) as
        (s3 & sc3 & Hf & T3 & Ea3 & K3 & En3 & Pe3 & Hc3 & Hg3 & Hn3 & Sm3 & Cn3); [| lia | exact Henc2 |].
      { cbn [npacket_wf]. split; [exact Hts | apply challenge_data_len; apply Ss]. }
      pose proof (srv_static_kept s2 s3 a (cl_token c) t Ss2 T3 Sm3 En3) as Ss3.
      assert (Hconn3 : server_conn s3 a (cl_token c) t slot sc3).
      { destruct K3 as (Kc3 & _ & Kls & Klr). refine (conj Ea3 (conj (same_cred_token _ _ _ _ _ Kc3 Hct2) _)).
        rewrite Kls, Hn3. split; [exact Hls2|]. destruct Klr as [-> | ->]; [exact Hlr2 | lia]. }
      assert (Sm13 : srv_same s s3) by (apply (srv_same_trans _ s1); [exact Sm1 | apply (srv_same_trans _ s2); assumption]).
      assert (St13 : sys_static (mk c1 s3 a) t).
      { rewrite sys_static_split. split; [exact Ss3|]. split; [exact Hid|].
        split; [apply (srv_static_same_dest s s3 _ Sm13); exact Hdest | exact Hinv1]. }
      assert (Hkd : ka_dgram_ok s3 a t ka).
      { exists 0, slot, sc3. split; [unfold U64; lia|]. split; [exact Ea3|].
        unfold keepalive_dgram in *. destruct Sm13 as (Sp & _ & _ & _ & _ & Smx & _). rewrite Sp, Smx.
        exact Hka. }
      assert (P0 : P34 s3 a t c1 c1).
      { split; [exact St13|]. split; [apply cl_frame_refl|]. left.
        unfold ph_accepted. cbn [sy_client sy_server sy_addr].
        refine (conj S (conj Hrp (conj Hts _))). exists slot, sc3. exact Hconn3. }
      destruct (deliver_all_reach (P34 s3 a t c1) (fun c' => ph_connected (mk c' s3 a) t) (ka_dgram_ok s3 a t) (copies fs)
                  (recv_keepalive_step s3 a t c1) [ka] c1 P0 (Forall_cons _ Hkd (Forall_nil _))) as [Pf Rf].
      set (c2 := deliver_all (copies fs) c1 [ka]) in *.
      exists c2, s3, (SRNone :: SRConnected (pt_client_id t) a (pt_user t) ka :: repeat SRNone n).
      split.
      { unfold round. cbn [sy_client sy_server sy_addr]. fold s1. rewrite Hidt, Huc. cbn [bind]. rewrite Hcu. cbn [bind].
        rewrite Hdest1, Ecf. cbn [feed]. rewrite Hpp. cbn [bind]. rewrite Hf. cbn [bind].
        cbn [flat_map reply_to app]. rewrite addr_eqb_refl, flat_map_repeat_none. reflexivity. }
      destruct Pf as (St2 & Fr2 & Hph2).
      assert (Hcount : connected_count s3 = connected_count s + 1).
      { rewrite Cn3, Hcnt2. reflexivity. }
      assert (Hcc : count_connected (SRNone :: SRConnected (pt_client_id t) a (pt_user t) ka :: repeat SRNone n) = 1%nat).
      { unfold count_connected. cbn [filter is_connected_event length]. f_equal. apply count_connected_repeat_none. }
      split; [exact St2|].
      split.
      { refine (sys_frame_intro c c1 c2 s s3 a dt (tick_frame_sent c dt) Fr2 (fun _ => Hc) _ _ _ _ Sm13 _).
        - rewrite Hn3, Hn2. reflexivity.
        - rewrite Hc3, Hc2. change (ns_chal_seq s1) with (ns_chal_seq s). lia.
        - rewrite Hg3, Hg2. change (ns_global_seq s1) with (ns_global_seq s). lia.
        - unfold srv_conn_seq. cbn [sy_server sy_addr]. rewrite Ea3, Ea.
          destruct K3 as (_ & -> & _). unfold sc2. cbn [promote nc_seq]. destruct Hokpc1 as (_ & _ & _ & ->). lia.
        - intros slot' sc' E. right. rewrite Hidt. split; [exact Ei|].
          destruct (find_by_addr_id _ _ _ _ T3 Ea3) as [_ Ei3].
          destruct Hconn3 as (_ & (Hi3 & _) & _). rewrite Hi3, <- Hidt in Ei3.
          destruct (same_id_same_conn _ _ _ _ _ _ Ei3 E) as [_ ->].
          destruct K3 as (_ & _ & _ & [K|K]); rewrite K.
          + unfold sc2. cbn [promote nc_last_recv]. change (ns_now s1) with (ns_now s + dt). lia.
          + rewrite Hn2. change (ns_now s1) with (ns_now s + dt). lia. }
      split; [right; split; [exact Hph2 | split; [exact Hcount | exact Hcc]]|].
      intros _ _. split; [exact Hcount|]. split; [exact Hcc|].
      intros Hfs. apply Rf; [exact Hfs | discriminate].
Qed.

(* (3), (4) the server has the connected entry *)
Lemma round_srv_connected c s a t dt fc fs :
  sys_static (mk c s a) t -> (ph_accepted (mk c s a) t \/ ph_connected (mk c s a) t) ->
  round_ok (mk c s a) dt = true ->
  exists c' s' rs,
    round (mk c s a) dt fc fs = Ok (mk c' s' a, rs) /\
    sys_static (mk c' s' a) t /\ sys_frame (mk c s a) (mk c' s' a) dt /\
    (ph_accepted (mk c' s' a) t \/ ph_connected (mk c' s' a) t) /\
    (ph_connected (mk c s a) t -> ph_connected (mk c' s' a) t) /\
    count_connected rs = 0%nat /\ connected_count s' = connected_count s /\
    (SEND_RATE_NS <= dt -> (0 < copies fs)%nat -> ph_connected (mk c' s' a) t).
Proof.
  intros St Ph Hok.
  pose proof St as St0. rewrite sys_static_split in St0. destruct St0 as (Ss & Hid & Hdest & Hinv).
  pose proof (static_id _ _ _ _ St) as Hidt.
  destruct (static_keys _ _ _ _ St) as (Kp & Ks & Kc).
  destruct (round_ok_split _ _ _ _ Hok) as (Hconn & Hto & Hsto & Hq1 & Hg & Hcs & Hsq). clear Hok.
  pose proof Ss as (_ & _ & _ & _ & _ & _ & _ & T & _).
  (* what the two phases share *)
  assert (Hsh : exists slot sc, server_conn s a (cl_token c) t slot sc /\
            (is_connecting c = true \/ is_connected c = true) /\
            (forall p, client_packet c = Some p -> quiet_packet p /\ npacket_wf p) /\
            (cl_state c = CSendingRequest -> token_sizes_ok (cl_token c))).
  { destruct Ph as [(S & Hrp & Hts & slot & sc & Hc0)|(S & slot & sc & Hc0 & Hidx)]; cbn [sy_client sy_server sy_addr] in *;
      exists slot, sc; (split; [exact Hc0|]); unfold is_connecting, is_connected, client_packet; rewrite S.
    - split; [left; reflexivity|]. split; [|discriminate]. intros p E. injection E as <-. split; [exact I|].
      cbn [npacket_wf]. split; [exact Hts | apply Hinv].
    - split; [right; reflexivity|]. split; [|discriminate]. intros p E. injection E as <-. split; [exact I|].
      cbn [npacket_wf]. lia. }
  destruct Hsh as (slot & sc & Hconn0 & Hst & Hpkt & Hnotreq).
  pose proof Hconn0 as (Ea & Hct & Hls & Hlr).
  rewrite Hidt in Hsto.
  destruct (srv_tick_conn s a (cl_token c) t slot sc dt Ss Hconn0 Hsto)
    as (s2 & k & sc2 & Huc & Ss2 & Hconn2 & Hk & Hkdue & Hpe2 & Hc2 & Hg2 & Hn2 & Sm2 & Cn2).
  pose proof Hconn2 as (Ea2 & Hct2 & Hls2 & Hlr2).
  pose proof Ss2 as (_ & _ & _ & _ & _ & _ & _ & T2 & _).
  destruct (find_by_addr_id _ _ _ _ T Ea) as [_ Ei]. destruct Hct as (Hi & Hct'). rewrite Hi in Ei.
  assert (Hsc2 : nc_timeout sc2 = nc_timeout sc /\ nc_last_recv sc2 = nc_last_recv sc /\ nc_seq sc2 <= nc_seq sc + 1).
  { clear Hto Hsto Hconn. destruct Hk as [[_ ->]|(ka & _ & _ & ->)]; cbn [nc_sent nc_timeout nc_last_recv nc_seq]; repeat split; lia. }
  assert (Hseqsc : nc_seq sc + 1 < U64).
  { unfold srv_conn_seq in Hsq. cbn [sy_server sy_addr] in Hsq. rewrite Ea in Hsq. exact Hsq. }
  (* the end of the tick, given what the feed did *)
  assert (Hfin : forall c1 s3 sc3 m,
            tick_frame c c1 dt -> client_inv c1 -> table_inv s3 ->
            find_by_addr s3 a = Some (slot, sc3) -> conn_kept (ns_now s2) sc2 sc3 ->
            ns_entries s3 = ns_entries s2 -> ns_chal_seq s3 = ns_chal_seq s2 -> ns_global_seq s3 = ns_global_seq s2 ->
            ns_now s3 = ns_now s2 -> srv_same s2 s3 -> connected_count s3 = connected_count s2 ->
            let c2 := deliver_all (copies fs) c1 (flat_map (reply_to a) (k :: repeat SRNone m)) in
            sys_static (mk c2 s3 a) t /\ sys_frame (mk c s a) (mk c2 s3 a) dt /\
            (ph_accepted (mk c2 s3 a) t \/ ph_connected (mk c2 s3 a) t) /\
            (ph_connected (mk c s a) t -> ph_connected (mk c2 s3 a) t) /\
            count_connected (k :: repeat SRNone m) = 0%nat /\ connected_count s3 = connected_count s /\
            (SEND_RATE_NS <= dt -> (0 < copies fs)%nat -> ph_connected (mk c2 s3 a) t)).
  { clear Hto Hsto Hconn. intros c1 s3 sc3 m Tf I1 T3 Ea3 K3 En3 Hc3 Hg3 Hn3 Sm3 Cn3 c2.
    pose proof Tf as (T1 & T2' & T3' & T4 & T5 & T6 & T7 & T8 & T9 & T10 & T11 & T12 & T13).
    pose proof (srv_static_kept s2 s3 a (cl_token c) t Ss2 T3 Sm3 En3) as Ss3.
    assert (Sm13 : srv_same s s3) by (apply (srv_same_trans _ s2); assumption).
    assert (Hconn3 : server_conn s3 a (cl_token c) t slot sc3).
    { destruct K3 as (Kc3 & _ & Kls & Klr). refine (conj Ea3 (conj (same_cred_token _ _ _ _ _ Kc3 Hct2) _)).
      rewrite Kls, Hn3. split; [exact Hls2|]. destruct Klr as [-> | ->]; [exact Hlr2 | lia]. }
    assert (St13 : sys_static (mk c1 s3 a) t).
    { rewrite sys_static_split. rewrite T1, T2', T3'. split; [exact Ss3|]. split; [exact Hid|].
      split; [apply (srv_static_same_dest s s3 _ Sm13); exact Hdest | exact I1]. }
    assert (Hph1 : (ph_accepted (mk c1 s3 a) t \/ ph_connected (mk c1 s3 a) t) /\
                   (ph_connected (mk c s a) t -> ph_connected (mk c1 s3 a) t)).
    { assert (Hcon : ph_connected (mk c s a) t -> ph_connected (mk c1 s3 a) t).
      { intros (S & slot0 & sc0 & (Ea0 & _) & Hidx). cbn [sy_client sy_server sy_addr] in *.
        rewrite Ea in Ea0. injection Ea0 as <- <-.
        unfold ph_connected. cbn [sy_client sy_server sy_addr]. rewrite T9, T1, T13. split; [exact S|].
        exists slot, sc3. split; [exact Hconn3 | exact Hidx]. }
      split; [|exact Hcon].
      destruct Ph as [(S & Hrp & Hts & _)|Hc4]; [left | right; apply Hcon; exact Hc4].
      cbn [sy_client sy_server sy_addr] in *. unfold ph_accepted. cbn [sy_client sy_server sy_addr].
      rewrite T9, T10, T11, T1. refine (conj S (conj Hrp (conj Hts _))). exists slot, sc3. exact Hconn3. }
    destruct Hph1 as [Hph1 Hcon1].
    set (P := fun c' => P34 s3 a t c1 c' /\ (ph_connected (mk c s a) t -> ph_connected (mk c' s3 a) t)).
    assert (Hstep : forall c0 d, P c0 -> ka_dgram_ok s3 a t d ->
              P (fst (nclient_process_packet c0 d)) /\ ph_connected (mk (fst (nclient_process_packet c0 d)) s3 a) t).
    { intros c0 d [P1 _] Hd. destruct (recv_keepalive_step s3 a t c1 c0 d P1 Hd) as [P2 C2].
      split; [split; [exact P2 | intros _; exact C2] | exact C2]. }
    assert (P0 : P c1).
    { split; [|exact Hcon1]. split; [exact St13|]. split; [apply cl_frame_refl | exact Hph1]. }
    assert (Hreplies : (k = SRNone /\ flat_map (reply_to a) (k :: repeat SRNone m) = []) \/
                       (exists ka, flat_map (reply_to a) (k :: repeat SRNone m) = [ka] /\ ka_dgram_ok s3 a t ka)).
    { destruct Hk as [[-> _]|(ka & -> & Hka & _)].
      - left. split; [reflexivity|]. cbn [flat_map reply_to app]. apply flat_map_repeat_none.
      - right. exists ka. cbn [flat_map reply_to]. rewrite addr_eqb_refl, flat_map_repeat_none. split; [reflexivity|].
        exists (nc_seq sc), slot, sc3. split; [lia|]. split; [exact Ea3|].
        unfold keepalive_dgram in *. destruct Sm13 as (Sp & _ & _ & _ & _ & Smx & _). rewrite Sp, Smx. exact Hka. }
    assert (Hds : Forall (ka_dgram_ok s3 a t) (flat_map (reply_to a) (k :: repeat SRNone m))).
    { destruct Hreplies as [[_ ->]|(ka & -> & Hka)]; [constructor | constructor; [exact Hka | constructor]]. }
    destruct (deliver_all_reach P (fun c' => ph_connected (mk c' s3 a) t) (ka_dgram_ok s3 a t) (copies fs) Hstep _ c1 P0 Hds)
      as [Pf Rf]. fold c2 in Pf, Rf.
    destruct Pf as ((St2 & Fr2 & Hph2) & Hcon2).
    split; [exact St2|].
    split.
    { refine (sys_frame_intro c c1 c2 s s3 a dt Tf Fr2 _ _ _ _ _ Sm13 _).
      - intros H2. destruct Ph as [(S & _)|Hc4]; [cbn [sy_client] in S; unfold is_connecting; rewrite S; reflexivity|].
        exfalso. destruct (Hcon2 Hc4) as (S2 & _). cbn [sy_client] in S2. unfold is_connecting in H2. rewrite S2 in H2. discriminate.
      - rewrite Hn3, Hn2. reflexivity.
      - rewrite Hc3, Hc2. lia.
      - rewrite Hg3, Hg2. lia.
      - unfold srv_conn_seq. cbn [sy_server sy_addr]. rewrite Ea3, Ea. destruct K3 as (_ & -> & _). lia.
      - intros slot' sc' E. left. exists slot, sc. rewrite Hidt. split; [exact Ei|].
        destruct (find_by_addr_id _ _ _ _ T3 Ea3) as [_ Ei3].
        destruct Hconn3 as (_ & (Hi3 & _) & _). rewrite Hi3, <- Hidt in Ei3.
        destruct (same_id_same_conn _ _ _ _ _ _ Ei3 E) as [_ ->].
        destruct K3 as ((_ & _ & _ & _ & _ & _ & Kto) & _ & _ & Klr). split; [rewrite Kto; apply Hsc2|].
        destruct Klr as [-> | ->]; [lia|]. rewrite Hn2. lia. }
    split; [exact Hph2|]. split; [exact Hcon2|].
    split.
    { unfold count_connected. cbn [filter].
      assert (Ek : is_connected_event k = false) by (destruct Hk as [[-> _]|(ka & -> & _)]; reflexivity).
      rewrite Ek. apply count_connected_repeat_none. }
    split.
    { rewrite Cn3. exact Cn2. }
    intros Hdt Hfs. apply Rf; [exact Hfs|].
    destruct Hreplies as [[Ek _]|(ka & -> & _)]; [exfalso; apply (Hkdue Hdt Ek) | discriminate]. }
  destruct (client_tick c dt Hinv Hst (fun Hc => proj1 (Hconn Hc)) Hto Hnotreq)
    as [[Hcu Hnd]|(d & p & Hcu & Hdue & Hcp & Henc & _)].
  - (* too soon *)
    exists (deliver_all (copies fs) (cl_tick c dt) (flat_map (reply_to a) (k :: repeat SRNone 0))), s2, (k :: repeat SRNone 0).
    split.
    { unfold round. cbn [sy_client sy_server sy_addr]. rewrite Hidt, Huc. cbn [bind]. rewrite Hcu. reflexivity. }
    apply (Hfin (cl_tick c dt) s2 sc2 0%nat (tick_frame_tick c dt) (client_inv_tick c dt Hinv) T2 Ea2 (conn_kept_refl _ _));
      try reflexivity. apply srv_same_refl.
  - (* the client's datagram leaves; the server ignores it or takes it as a keep-alive *)
    clear Hto Hsto Hconn Hdue.
    destruct (Hpkt p Hcp) as [Hqp Hwf].
    assert (Hdest2 : dest_ok s2 (cl_server_addr c) = true) by (apply (srv_static_same_dest s s2 _ Sm2); exact Hdest).
    assert (Henc2 : encode OUT_CAP p (ns_protocol s2) (Some (cl_seq c, nc_recv_key sc2)) = Ok d).
    { destruct Sm2 as (-> & _). destruct Hct2 as (_ & _ & -> & _). rewrite Kp, Kc in Henc. exact Henc. }
    destruct (feed_quiet a p (cl_seq c) d (copies fc) s2 slot sc2 T2 Ea2 Hqp Hwf) as
      (s3 & sc3 & Hf & T3 & Ea3 & K3 & En3 & Pe3 & Hc3 & Hg3 & Hn3 & Sm3 & Cn3); [lia | exact Henc2 |].
    exists (deliver_all (copies fs) (cl_sent c dt) (flat_map (reply_to a) (k :: repeat SRNone (copies fc)))), s3,
           (k :: repeat SRNone (copies fc)).
    split.
    { unfold round. cbn [sy_client sy_server sy_addr]. rewrite Hidt, Huc. cbn [bind]. rewrite Hcu. cbn [bind].
      rewrite Hdest2, Hf. reflexivity. }
    apply (Hfin (cl_sent c dt) s3 sc3 (copies fc) (tick_frame_sent c dt) (client_inv_cl_sent c dt Hinv) T3 Ea3 K3); assumption.
Qed.

(* ================================================================== *)
(* 7. T2: the invariant is kept by every tick, whatever the network does *)
(* ================================================================== *)
Lemma hs_inv_with_inv y t : hs_inv_with y t -> hs_inv y.
Proof. intros H. exists t. exact H. Qed.

(* the private token of the invariant stays the same *)
Lemma inv_step_with y t dt fc fs :
  hs_inv_with y t -> round_ok y dt = true ->
  exists y' rs, round y dt fc fs = Ok (y', rs) /\ hs_inv_with y' t /\ sys_frame y y' dt.
Proof.
  destruct y as [c s a]. intros (St & Hph) Hok.
  destruct Hph as [P1|[P2|P34]].
  - destruct (round_request c s a t dt fc fs St P1 Hok) as (c' & s' & rs & Hr & St' & Fr & _ & _ & Hph' & _).
    exists (mk c' s' a), rs. split; [exact Hr|]. split; [|exact Fr]. split; [exact St'|].
    destruct Hph' as [H|[H _]]; [left; exact H | right; left; exact H].
  - destruct (round_response c s a t dt fc fs St P2 Hok) as (c' & s' & rs & Hr & St' & Fr & Hph' & _).
    exists (mk c' s' a), rs. split; [exact Hr|]. split; [|exact Fr]. split; [exact St'|].
    destruct Hph' as [[H _]|[[H|H] _]]; [right; left; exact H | right; right; left; exact H | right; right; right; exact H].
  - destruct (round_srv_connected c s a t dt fc fs St P34 Hok) as (c' & s' & rs & Hr & St' & Fr & Hph' & _).
    exists (mk c' s' a), rs. split; [exact Hr|]. split; [|exact Fr]. split; [exact St'|].
    right; right. exact Hph'.
Qed.

Theorem handshake_inv_preserved y dt fc fs :
  hs_inv y -> round_ok y dt = true ->
  exists y' rs, round y dt fc fs = Ok (y', rs) /\ hs_inv y' /\ sys_frame y y' dt.
Proof.
  intros (t & H) Hok. destruct (inv_step_with y t dt fc fs H Hok) as (y' & rs & Hr & H' & Fr).
  exists y', rs. split; [exact Hr|]. split; [exists t; exact H' | exact Fr].
Qed.
Print Assumptions handshake_inv_preserved.

(* connected stays connected *)
Theorem connected_preserved y dt fc fs :
  sys_connected y -> round_ok y dt = true ->
  exists y' rs, round y dt fc fs = Ok (y', rs) /\ sys_connected y' /\ sys_frame y y' dt /\
                count_connected rs = 0%nat /\ connected_count (sy_server y') = connected_count (sy_server y).
Proof.
  destruct y as [c s a]. intros (t & St & P4) Hok.
  destruct (round_srv_connected c s a t dt fc fs St (or_intror P4) Hok) as (c' & s' & rs & Hr & St' & Fr & _ & Hc & Hcnt & Hcc & _).
  exists (mk c' s' a), rs. split; [exact Hr|]. split; [exists t; split; [exact St' | apply Hc; exact P4]|].
  split; [exact Fr|]. split; [exact Hcnt | exact Hcc].
Qed.

(* ================================================================== *)
(* 8. T3: good ticks make progress                                     *)
(* ================================================================== *)
Lemma rank_zero_connected y : hs_inv y -> hs_rank y = 0%nat -> sys_connected y.
Proof.
  destruct y as [c s a]. intros (t & St & Hph) Hr. exists t. split; [exact St|].
  unfold hs_rank in Hr. cbn [sy_client] in Hr.
  destruct Hph as [(S & _)|[(S & _)|[(S & _)|H]]]; try exact H; cbn [sy_client] in S; rewrite S in Hr; discriminate.
Qed.

Lemma good_round_rank y dt :
  hs_inv y -> round_ok y dt = true -> SEND_RATE_NS <= dt ->
  exists y' rs, good_round y dt = Ok (y', rs) /\ hs_inv y' /\ sys_frame y y' dt /\
                (hs_rank y' <= hs_rank y - 1)%nat.
Proof.
  destruct y as [c s a]. intros (t & St & Hph) Hok Hdt. unfold good_round.
  assert (H1 : (0 < copies Once)%nat) by (cbn [copies]; lia).
  destruct Hph as [P1|[P2|P34]].
  - destruct (round_request c s a t dt Once Once St P1 Hok) as (c' & s' & rs & Hr & St' & Fr & _ & _ & _ & Hprog).
    destruct (Hprog (or_intror Hdt) H1 H1) as (P2' & _).
    exists (mk c' s' a), rs. split; [exact Hr|]. split; [exists t; split; [exact St' | right; left; exact P2']|].
    split; [exact Fr|]. destruct P1 as (S & _). destruct P2' as (S' & _). cbn [sy_client] in S, S'.
    unfold hs_rank. cbn [sy_client]. rewrite S, S'. lia.
  - destruct (round_response c s a t dt Once Once St P2 Hok) as (c' & s' & rs & Hr & St' & Fr & _ & Hprog).
    destruct (Hprog (or_intror Hdt) H1) as (_ & _ & P4'). specialize (P4' H1).
    exists (mk c' s' a), rs. split; [exact Hr|]. split; [exists t; split; [exact St' | right; right; right; exact P4']|].
    split; [exact Fr|]. destruct P4' as (S' & _). cbn [sy_client] in S'. unfold hs_rank. cbn [sy_client]. rewrite S'. lia.
  - destruct (round_srv_connected c s a t dt Once Once St P34 Hok) as (c' & s' & rs & Hr & St' & Fr & _ & _ & _ & _ & Hprog).
    pose proof (Hprog Hdt H1) as P4'.
    exists (mk c' s' a), rs. split; [exact Hr|]. split; [exists t; split; [exact St' | right; right; right; exact P4']|].
    split; [exact Fr|]. destruct P4' as (S' & _). cbn [sy_client] in S'. unfold hs_rank. cbn [sy_client]. rewrite S'. lia.
Qed.

Lemma hs_rank_le2 y : (hs_rank y <= 2)%nat.
Proof. unfold hs_rank. destruct (cl_state (sy_client y)); lia. Qed.

Theorem handshake_completes_after_loss y dt1 dt2 :
  hs_inv y -> SEND_RATE_NS <= dt1 -> SEND_RATE_NS <= dt2 ->
  rounds_ok y [(dt1, Once, Once); (dt2, Once, Once)] = true ->
  exists y2 rss, run_rounds y [(dt1, Once, Once); (dt2, Once, Once)] = Ok (y2, rss) /\ sys_connected y2.
Proof.
  intros Hinv H1 H2 Hok. cbn [rounds_ok] in Hok. apply andb_true_iff in Hok. destruct Hok as [Ho1 Hok].
  destruct (good_round_rank y dt1 Hinv Ho1 H1) as (y1 & rs1 & Hr1 & Hinv1 & _ & Hrk1).
  unfold good_round in Hr1. rewrite Hr1 in Hok. apply andb_true_iff in Hok. destruct Hok as [Ho2 _].
  destruct (good_round_rank y1 dt2 Hinv1 Ho2 H2) as (y2 & rs2 & Hr2 & Hinv2 & _ & Hrk2).
  unfold good_round in Hr2.
  exists y2, [rs1; rs2]. cbn [run_rounds]. rewrite Hr1. cbn [bind]. rewrite Hr2. cbn [bind]. split; [reflexivity|].
  apply rank_zero_connected; [exact Hinv2|]. pose proof (hs_rank_le2 y). lia.
Qed.
Print Assumptions handshake_completes_after_loss.

(* ---- runs ---- *)
Lemma rounds_ok_app l1 : forall y l2,
  rounds_ok y (l1 ++ l2) = rounds_ok y l1 && match run_rounds y l1 with Ok (y1, _) => rounds_ok y1 l2 | _ => false end.
Proof.
  induction l1 as [|[[dt fc] fs] l1 IH]; intros y l2; cbn [app rounds_ok run_rounds].
  - destruct (rounds_ok y l2); reflexivity.
  - destruct (round_ok y dt); [|reflexivity]. cbn [andb].
    destruct (round y dt fc fs) as [[y1 rs]|e|site]; cbn [bind]; try reflexivity.
    rewrite IH. destruct (rounds_ok y1 l1); [|reflexivity]. cbn [andb].
    destruct (run_rounds y1 l1) as [[y2 rss]|e|site]; reflexivity.
Qed.

Lemma run_rounds_app l1 : forall y l2 y1 rss1,
  run_rounds y l1 = Ok (y1, rss1) ->
  run_rounds y (l1 ++ l2) = do r <- run_rounds y1 l2; let (y2, rss2) := r in Ok (y2, rss1 ++ rss2).
Proof.
  induction l1 as [|[[dt fc] fs] l1 IH]; intros y l2 y1 rss1 H; cbn [app run_rounds] in *.
  - injection H as <- <-. destruct (run_rounds y l2) as [[y2 rss2]|e|site]; reflexivity.
  - destruct (round y dt fc fs) as [[ya rs]|e|site]; cbn [bind] in *; try discriminate.
    destruct (run_rounds ya l1) as [[yb rssb]|e|site] eqn:E; cbn [bind] in *; try discriminate.
    injection H as <- <-. rewrite (IH ya l2 yb rssb E).
    destruct (run_rounds yb l2) as [[y2 rss2]|e|site]; reflexivity.
Qed.

(* any run whose ticks satisfy the side conditions keeps the invariant *)
Theorem run_inv_preserved l : forall y,
  hs_inv y -> rounds_ok y l = true -> exists y' rss, run_rounds y l = Ok (y', rss) /\ hs_inv y'.
Proof.
  induction l as [|[[dt fc] fs] l IH]; intros y Hinv Hok; cbn [rounds_ok run_rounds] in *.
  - exists y, []. split; [reflexivity | exact Hinv].
  - apply andb_true_iff in Hok. destruct Hok as [Ho Hok].
    destruct (handshake_inv_preserved y dt fc fs Hinv Ho) as (y1 & rs & Hr & Hinv1 & _).
    rewrite Hr in *. cbn [bind]. destruct (IH y1 Hinv1 Hok) as (y2 & rss & Hrun & Hinv2).
    rewrite Hrun. cbn [bind]. exists y2, (rs :: rss). split; [reflexivity | exact Hinv2].
Qed.

(* whatever the network did before (loss, duplication), two good ticks connect both sides *)
Corollary handshake_eventually y l dt1 dt2 :
  hs_inv y -> SEND_RATE_NS <= dt1 -> SEND_RATE_NS <= dt2 ->
  rounds_ok y (l ++ [(dt1, Once, Once); (dt2, Once, Once)]) = true ->
  exists y' rss, run_rounds y (l ++ [(dt1, Once, Once); (dt2, Once, Once)]) = Ok (y', rss) /\ sys_connected y'.
Proof.
  intros Hinv H1 H2 Hok. rewrite rounds_ok_app in Hok. apply andb_true_iff in Hok. destruct Hok as [Hok1 Hok2].
  destruct (run_inv_preserved l y Hinv Hok1) as (y1 & rss1 & Hrun1 & Hinv1).
  rewrite Hrun1 in Hok2.
  destruct (handshake_completes_after_loss y1 dt1 dt2 Hinv1 H1 H2 Hok2) as (y2 & rss2 & Hrun2 & Hc).
  exists y2, (rss1 ++ rss2). rewrite (run_rounds_app l y _ y1 rss1 Hrun1), Hrun2. cbn [bind]. split; [reflexivity | exact Hc].
Qed.
Print Assumptions handshake_eventually.

(* ================================================================== *)
(* 9. T1: from a new client, two good ticks                            *)
(* ================================================================== *)
Lemma round_ok_intro c s a dt :
  (is_connecting c = true -> cl_expired c dt = false /\ srv_expired s (cl_token c) dt = false) ->
  cl_timed_out c dt = false -> srv_timed_out s (cl_id c) dt = false ->
  cl_seq c + 1 < U64 -> ns_global_seq s + 2 < U64 -> ns_chal_seq s + 2 < U64 -> srv_conn_seq (mk c s a) + 1 < U64 ->
  round_ok (mk c s a) dt = true.
Proof.
  intros Hc Hto Hsto H1 H2 H3 H4. unfold round_ok, time_ok, seq_room. cbn [sy_client sy_server sy_addr].
  rewrite Hto, Hsto. cbn [negb andb].
  assert (E : (if is_connecting c then negb (cl_expired c dt) && negb (srv_expired s (cl_token c) dt) else true) = true).
  { destruct (is_connecting c); [|reflexivity]. destruct (Hc eq_refl) as [-> ->]. reflexivity. }
  rewrite E. cbn [andb]. lia.
Qed.

(* the system made of a new client and a server that would accept its token *)
Lemma initial_hs_inv s tok a now t nowc c :
  table_inv s -> server_sizes s -> token_for_server_with s tok a now t ->
  nclient_new nowc tok = Ok c -> dest_ok s (cl_server_addr c) = true ->
  sys_static (mk c s a) t /\ ph_request (mk c s a) t /\
  cl_last_send c = None /\ cl_token c = tok /\ cl_now c = nowc /\ cl_connect_start c = nowc /\
  cl_last_recv c = nowc /\ cl_seq c = 0 /\ as_secs now < ct_expire tok.
Proof.
  intros T Hsz (W & Wt & Hcons & Hv & Ei & Ea & Ep & Hen & Hc & Hff & Hpl) Hnew Hdest.
  destruct (validates_static s now tok t W Hv) as (Hpr & Hpd & Hh & Hnow).
  assert (L32 : length (ct_addrs tok) = 32%nat).
  { destruct W as (_ & _ & _ & _ & _ & _ & (addrs & -> & _ & Hle & _) & _).
    apply pad_slots_length. rewrite map_length. unfold len in Hle. lia. }
  pose proof (client_inv_init nowc tok c L32 Hnew) as Hinv.
  unfold nclient_new in Hnew. destruct (ct_addrs tok) as [|[a0|] rest]; try discriminate. injection Hnew as <-.
  cbn [cl_server_addr] in Hdest.
  split.
  { rewrite sys_static_split. cbn [cl_token cl_id cl_server_addr].
    split; [exact (conj W (conj Wt (conj Hcons (conj Hpr (conj Hpd (conj Hh (conj Hen (conj T Hsz))))))))|].
    split; [reflexivity|]. split; [exact Hdest | exact Hinv]. }
  split.
  { unfold ph_request. cbn [sy_client sy_server sy_addr cl_state cl_replay cl_token].
    split; [reflexivity|]. split; [reflexivity|]. split; [exact (conj Ea (conj Ei (conj Hc Hff)))|].
    rewrite Ep. exact Hpl. }
  cbn [cl_last_send cl_token cl_now cl_connect_start cl_last_recv cl_seq]. repeat split. exact Hnow.
Qed.

Theorem handshake_two_good_rounds s tok a t nowc c dt1 dt2 :
  table_inv s -> server_sizes s ->
  token_for_server_with s tok a (ns_now s + dt1 + dt2) t ->
  nclient_new nowc tok = Ok c -> dest_ok s (cl_server_addr c) = true ->
  as_secs (dt1 + dt2) < ct_expire tok - ct_create tok ->
  ((ct_timeout tok <= 0)%Z \/
   (dt1 <= Z.to_N (ct_timeout tok) * NS_PER_SEC /\ dt2 <= Z.to_N (ct_timeout tok) * NS_PER_SEC)) ->
  ns_global_seq s + 4 < U64 -> ns_chal_seq s + 4 < U64 ->
  exists y1 rs1 y2 rs2,
    good_round (mk c s a) dt1 = Ok (y1, rs1) /\ good_round y1 dt2 = Ok (y2, rs2) /\
    cl_state (sy_client y2) = CConnected /\
    (exists slot sc,
       find_by_id (sy_server y2) (ct_client_id tok) = Some (slot, sc) /\
       find_by_addr (sy_server y2) a = Some (slot, sc) /\
       nc_user sc = pt_user t /\ cl_client_index (sy_client y2) = slot) /\
    user_data (sy_server y2) (ct_client_id tok) = Some (pt_user t) /\
    count_connected rs1 = 0%nat /\ count_connected rs2 = 1%nat /\
    connected_count (sy_server y2) = connected_count s + 1 /\
    sys_connected y2.
Proof.
  intros T Hsz Htok Hnew Hdest Hexp Htmo Hg Hcs.
  destruct (initial_hs_inv s tok a _ t nowc c T Hsz Htok Hnew Hdest)
    as (St0 & P1 & Hls0 & Etok & Enow & Ecs & Elr & Esq & Hnow).
  pose proof P1 as (S0 & _ & (Ea0 & Ei0 & _) & _). cbn [sy_client sy_server sy_addr] in S0, Ea0, Ei0.
  pose proof (static_id _ _ _ _ St0) as Hidt.
  assert (Hcid : ct_client_id tok = pt_client_id t) by (destruct Htok as (_ & _ & (H & _) & _); exact H).
  assert (Hnt : forall x, (0 <? ct_timeout tok)%Z && (x + Z.to_N (ct_timeout tok) * NS_PER_SEC <? x + dt1) = false /\
                          (0 <? ct_timeout tok)%Z && (x + Z.to_N (ct_timeout tok) * NS_PER_SEC <? x + dt2) = false).
  { intros x. destruct Htmo as [Hz|[H1 H2]].
    - assert (E : (0 <? ct_timeout tok)%Z = false) by lia. rewrite E. split; reflexivity.
    - split; apply andb_false_iff; right; lia. }
  (* first tick *)
  assert (Ho1 : round_ok (mk c s a) dt1 = true).
  { apply round_ok_intro.
    - intros _. unfold cl_expired, srv_expired. rewrite Etok, Enow, Ecs.
      replace (nowc + dt1 - nowc) with dt1 by lia.
      pose proof (as_secs_mono dt1 (dt1 + dt2)). pose proof (as_secs_mono (ns_now s + dt1) (ns_now s + dt1 + dt2)).
      split; lia.
    - unfold cl_timed_out. rewrite Etok, Elr, Enow. apply (Hnt nowc).
    - unfold srv_timed_out. rewrite Hidt, Ei0. reflexivity.
    - lia. - lia. - lia.
    - unfold srv_conn_seq. cbn [sy_server sy_addr]. rewrite Ea0. unfold U64. lia. }
  assert (H1 : (0 < copies Once)%nat) by (cbn [copies]; lia).
  destruct (round_request c s a t dt1 Once Once St0 P1 Ho1) as (c1 & s1 & rs1 & Hr1 & St1 & Fr1 & Hcl1 & Hcnt1 & _ & Hprog1).
  destruct (Hprog1 (or_introl Hls0) H1 H1) as (P2 & Hls1 & Hlr1).
  destruct Fr1 as (_ & Ft & Fi & _ & _ & Fcs & Fnow & Fsq & _ & Fsn & Fch & Fgl & _ & _ & _ & _).
  cbn [sy_client sy_server sy_addr] in Ft, Fi, Fcs, Fnow, Fsq, Fsn, Fch, Fgl.
  pose proof P2 as (S1 & _ & (Ea1 & Ei1 & _) & _). cbn [sy_client sy_server sy_addr] in S1, Ea1, Ei1.
  (* second tick *)
  assert (Ho2 : round_ok (mk c1 s1 a) dt2 = true).
  { apply round_ok_intro.
    - intros _. unfold cl_expired, srv_expired. rewrite Ft, Etok, Fnow, Fcs, Enow, Ecs, Fsn.
      replace (nowc + dt1 + dt2 - nowc) with (dt1 + dt2) by lia. split; lia.
    - unfold cl_timed_out. rewrite Ft, Etok, Hlr1, Fnow, Enow. apply (Hnt (nowc + dt1)).
    - unfold srv_timed_out. rewrite Fi, Hidt, Ei1. reflexivity.
    - lia. - lia. - lia.
    - unfold srv_conn_seq. cbn [sy_server sy_addr]. rewrite Ea1. unfold U64. lia. }
  destruct (round_response c1 s1 a t dt2 Once Once St1 P2 Ho2) as (c2 & s2 & rs2 & Hr2 & St2 & Fr2 & _ & Hprog2).
  destruct (Hprog2 (or_introl Hls1) H1) as (Hcount & Hcnt2 & P4). specialize (P4 H1).
  exists (mk c1 s1 a), rs1, (mk c2 s2 a), rs2. unfold good_round.
  split; [exact Hr1|]. split; [exact Hr2|]. cbn [sy_client sy_server].
  pose proof P4 as (S2 & slot & sc & (Ea2 & Hct2 & _) & Hidx). cbn [sy_client sy_server sy_addr] in S2, Ea2, Hct2, Hidx.
  pose proof St2 as St2'. rewrite sys_static_split in St2'. destruct St2' as ((_ & _ & _ & _ & _ & _ & _ & T2 & _) & _).
  destruct (find_by_addr_id _ _ _ _ T2 Ea2) as [_ Ei2]. destruct Hct2 as (Hi2 & Hu2 & _). rewrite Hi2, <- Hcid in Ei2.
  split; [exact S2|].
  split; [exists slot, sc; auto|].
  split; [unfold user_data; rewrite Ei2; cbn [option_map snd]; rewrite Hu2; reflexivity|].
  split; [exact Hcnt1|]. split; [exact Hcnt2|].
  split; [rewrite Hcount; unfold connected_count; rewrite Hcl1; reflexivity|].
  exists t. split; [exact St2 | exact P4].
Qed.
Print Assumptions handshake_two_good_rounds.

(* ================================================================== *)
(* 9b. the side conditions in closed form                              *)
(* ================================================================== *)

(* the server's connected entry for the client id is the one of the invariant *)
Lemma inv_conn_by_id y t slot sc :
  hs_inv_with y t -> find_by_id (sy_server y) (cl_id (sy_client y)) = Some (slot, sc) -> nc_timeout sc = pt_timeout t.
Proof.
  destruct y as [c s a]. intros (St & Hph) E. cbn [sy_client sy_server] in E.
  rewrite (static_id _ _ _ _ St) in E.
  pose proof St as St'. rewrite sys_static_split in St'. destruct St' as ((_ & _ & _ & _ & _ & _ & _ & T & _) & _).
  assert (Hc : forall slot0 sc0, server_conn s a (cl_token c) t slot0 sc0 -> nc_timeout sc = pt_timeout t).
  { intros slot0 sc0 (Ea & Hct & _). destruct (find_by_addr_id _ _ _ _ T Ea) as [_ Ei].
    destruct Hct as (Hi & _ & _ & _ & _ & _ & Hto). rewrite Hi in Ei.
    destruct (same_id_same_conn _ _ _ _ _ _ Ei E) as [_ ->]. exact Hto. }
  destruct Hph as [(_ & _ & (_ & Ei & _) & _)|[(_ & _ & (_ & Ei & _) & _)|[(_ & _ & _ & slot0 & sc0 & H)|(_ & slot0 & sc0 & H & _)]]];
    cbn [sy_client sy_server sy_addr] in *; try congruence; apply (Hc _ _ H).
Qed.

Lemma time_ok_intro c s a dt :
  (is_connecting c = true -> cl_expired c dt = false /\ srv_expired s (cl_token c) dt = false) ->
  cl_timed_out c dt = false -> srv_timed_out s (cl_id c) dt = false -> time_ok (mk c s a) dt = true.
Proof.
  intros Hc Hto Hsto. unfold time_ok. cbn [sy_client sy_server]. rewrite Hto, Hsto. cbn [negb andb].
  destruct (is_connecting c); [|reflexivity]. destruct (Hc eq_refl) as [-> ->]. reflexivity.
Qed.

(* a budget for dt + T' pays for a tick of length dt and leaves a budget for T' *)
Lemma budget_step y t y' dt T' :
  hs_inv_with y t -> hs_inv_with y' t -> sys_frame y y' dt -> time_budget y t (dt + T') ->
  time_ok y dt = true /\ time_budget y' t T'.
Proof.
  destruct y as [c s a], y' as [c' s' a']. intros Hinv Hinv' Fr (Bc & Bto & Bsto & Bt).
  pose proof Hinv as (St & _). rewrite sys_static_split in St. destruct St as (_ & _ & _ & (Hcs & Hlr & _)).
  destruct Fr as (_ & Ft & Fi & _ & _ & Fcs & Fnow & _ & Flr & Fsn & _ & _ & _ & _ & Fconn & Fsrv).
  cbn [sy_client sy_server sy_addr] in *.
  split.
  - apply time_ok_intro.
    + intros Hc. destruct (Bc Hc) as [B1 B2]. unfold cl_expired, srv_expired in *.
      pose proof (as_secs_mono (cl_now c + dt - cl_connect_start c) (cl_now c + (dt + T') - cl_connect_start c)).
      pose proof (as_secs_mono (ns_now s + dt) (ns_now s + (dt + T'))).
      split; lia.
    + unfold cl_timed_out in *. lia.
    + unfold srv_timed_out in *. destruct (find_by_id s (cl_id c)) as [[slot sc]|]; [lia | reflexivity].
  - unfold time_budget. cbn [sy_client sy_server].
    split; [|split; [|split]].
    + intros Hc'. destruct (Bc (Fconn Hc')) as [B1 B2]. unfold cl_expired, srv_expired in *.
      rewrite Ft, Fnow, Fcs, Fsn.
      replace (cl_now c + dt + T') with (cl_now c + (dt + T')) by lia.
      replace (ns_now s + dt + T') with (ns_now s + (dt + T')) by lia. auto.
    + unfold cl_timed_out in *. rewrite Ft, Fnow. lia.
    + unfold srv_timed_out in *. rewrite Fi.
      destruct (find_by_id s' (cl_id c)) as [[slot' sc']|] eqn:E'; [|reflexivity].
      destruct (Fsrv slot' sc' eq_refl) as [(slot & sc & E & Hto & Hlr')|(E & Hlr')].
      * rewrite E in Bsto. rewrite Hto, Fsn. lia.
      * assert (Hto : nc_timeout sc' = pt_timeout t).
        { apply (inv_conn_by_id (mk c' s' a') t slot' sc' Hinv'). cbn [sy_client sy_server]. rewrite Fi. exact E'. }
        rewrite Hto, Fsn. destruct Bt as [Bt|Bt]; [|lia].
        assert (Ez : (0 <? pt_timeout t)%Z = false) by lia. rewrite Ez. reflexivity.
    + destruct Bt as [Bt|Bt]; [left; exact Bt | right; lia].
Qed.

Lemma seq_room_step y y' dt n :
  sys_frame y y' dt -> seq_room y (n + 1) = true -> seq_room y 1 = true /\ seq_room y' n = true.
Proof.
  intros (_ & _ & _ & _ & _ & _ & _ & Fsq & _ & _ & Fch & Fgl & Fcq & _) H.
  unfold seq_room in *. lia.
Qed.

(* the closed side conditions imply the tick-by-tick ones, whatever the network does *)
Theorem budget_rounds_ok l : forall y t,
  hs_inv_with y t -> time_budget y t (total_time l) -> seq_room y (len l) = true -> rounds_ok y l = true.
Proof.
  induction l as [|[[dt fc] fs] l IH]; intros y t Hinv Hb Hs; cbn [rounds_ok]; [reflexivity|].
  assert (Hs' : seq_room y (len l + 1) = true).
  { replace (len l + 1) with (len ((dt, fc, fs) :: l)); [exact Hs|]. rewrite NSlotsP.len_cons. lia. }
  assert (Hb' : time_budget y t (dt + total_time l)) by exact Hb.
  (* one tick, first with the side condition still to be shown *)
  assert (Hok : round_ok y dt = true).
  { unfold round_ok. apply andb_true_iff. split.
    - destruct y as [c s a]. destruct Hb' as (Bc & Bto & Bsto & _). cbn [sy_client sy_server] in *.
      pose proof Hinv as (St & _). rewrite sys_static_split in St. destruct St as (_ & _ & _ & (Hcs & Hlr & _)).
      apply time_ok_intro.
      + intros Hc. destruct (Bc Hc) as [B1 B2]. unfold cl_expired, srv_expired in *.
        pose proof (as_secs_mono (cl_now c + dt - cl_connect_start c) (cl_now c + (dt + total_time l) - cl_connect_start c)).
        pose proof (as_secs_mono (ns_now s + dt) (ns_now s + (dt + total_time l))).
        split; lia.
      + unfold cl_timed_out in *. lia.
      + unfold srv_timed_out in *. destruct (find_by_id s (cl_id c)) as [[slot sc]|]; [lia | reflexivity].
    - clear - Hs'. unfold seq_room in *. lia. }
  rewrite Hok. cbn [andb].
  destruct (inv_step_with y t dt fc fs Hinv Hok) as (y' & rs & Hr & Hinv' & Fr).
  rewrite Hr. apply (IH y' t Hinv').
  - apply (budget_step y t y' dt (total_time l) Hinv Hinv' Fr Hb').
  - apply (seq_room_step y y' dt (len l) Fr Hs').
Qed.
Print Assumptions budget_rounds_ok.

(* T3, closed: any lossy run followed by two good ticks, all within the budget *)
Theorem handshake_eventually_closed y t l dt1 dt2 :
  hs_inv_with y t -> SEND_RATE_NS <= dt1 -> SEND_RATE_NS <= dt2 ->
  let run := l ++ [(dt1, Once, Once); (dt2, Once, Once)] in
  time_budget y t (total_time run) -> seq_room y (len run) = true ->
  exists y' rss, run_rounds y run = Ok (y', rss) /\ sys_connected y'.
Proof.
  intros Hinv H1 H2 run Hb Hs.
  apply (handshake_eventually y l dt1 dt2 (hs_inv_with_inv y t Hinv) H1 H2).
  apply (budget_rounds_ok run y t Hinv Hb Hs).
Qed.
Print Assumptions handshake_eventually_closed.

(* ... and from the very beginning: a new client, a server that accepts its token until the end of
   the run; the network may lose and duplicate whatever it likes in the ticks of l *)
Theorem handshake_liveness s tok a t nowc c l dt1 dt2 :
  let run := l ++ [(dt1, Once, Once); (dt2, Once, Once)] in
  let T := total_time run in
  table_inv s -> server_sizes s ->
  token_for_server_with s tok a (ns_now s + T) t ->
  nclient_new nowc tok = Ok c -> dest_ok s (cl_server_addr c) = true ->
  SEND_RATE_NS <= dt1 -> SEND_RATE_NS <= dt2 ->
  as_secs T < ct_expire tok - ct_create tok ->
  ((ct_timeout tok <= 0)%Z \/ T <= Z.to_N (ct_timeout tok) * NS_PER_SEC) ->
  ((pt_timeout t <= 0)%Z \/ T <= Z.to_N (pt_timeout t) * NS_PER_SEC) ->
  ns_global_seq s + 2 * len run < U64 -> ns_chal_seq s + 2 * len run < U64 -> len run < U64 ->
  exists y' rss, run_rounds (mk c s a) run = Ok (y', rss) /\ sys_connected y'.
Proof.
  intros run T Tinv Hsz Htok Hnew Hdest H1 H2 Hexp Hct Hpt Hg Hcs Hlen.
  destruct (initial_hs_inv s tok a _ t nowc c Tinv Hsz Htok Hnew Hdest)
    as (St0 & P1 & Hls0 & Etok & Enow & Ecs & Elr & Esq & Hnow).
  pose proof P1 as (S0 & _ & (Ea0 & Ei0 & _) & _). cbn [sy_client sy_server sy_addr] in S0, Ea0, Ei0.
  pose proof (static_id _ _ _ _ St0) as Hidt.
  apply (handshake_eventually_closed (mk c s a) t l dt1 dt2 (conj St0 (or_introl P1)) H1 H2).
  - fold run. fold T. unfold time_budget. cbn [sy_client sy_server].
    split; [|split; [|split]].
    + intros _. unfold cl_expired, srv_expired. rewrite Etok, Enow, Ecs.
      replace (nowc + T - nowc) with T by lia. split; lia.
    + unfold cl_timed_out. rewrite Etok, Elr, Enow. destruct Hct as [Hz|Hz]; [|lia].
      assert (E : (0 <? ct_timeout tok)%Z = false) by lia. rewrite E. reflexivity.
    + unfold srv_timed_out. rewrite Hidt, Ei0. reflexivity.
    + exact Hpt.
  - fold run. unfold seq_room, srv_conn_seq. cbn [sy_client sy_server sy_addr]. rewrite Esq, Ea0. lia.
Qed.
Print Assumptions handshake_liveness.

(* ================================================================== *)
(* 9c. T4: fail-over to the next server of the token                   *)
(* ================================================================== *)
Lemma waiting_split c s a t :
  hs_waiting (mk c s a) t <->
  (srv_static s a (cl_token c) t /\ cl_id c = ct_client_id (cl_token c) /\ client_inv c) /\
  is_connecting c = true /\ cl_replay c = replay_new /\ slot_open s a t /\ pend_room s a (cl_token c) t.
Proof.
  unfold hs_waiting, srv_static, pend_room. cbn [sy_client sy_server sy_addr]. unfold client_wf, client_inv. tauto.
Qed.

(* phases (1) and (2) are waiting states *)
Lemma inv_waiting y t : hs_inv_with y t -> ph_request y t \/ ph_response y t -> hs_waiting y t.
Proof.
  destruct y as [c s a]. intros (St & _) Hph. rewrite sys_static_split in St. destruct St as (Ss & Hid & _ & Hinv).
  rewrite waiting_split. split; [exact (conj Ss (conj Hid Hinv))|].
  destruct Hph as [(S & Hrp & So & Hp)|(S & Hrp & So & pc & Epc & Hok & _)]; cbn [sy_client sy_server sy_addr] in *;
    unfold is_connecting; rewrite S; (split; [reflexivity|]); (split; [exact Hrp|]); (split; [exact So|]).
  - exact Hp.
  - unfold pend_room. rewrite Epc. exact Hok.
Qed.

(* the client that update leaves behind when the time-out fires and the token has a next address *)
Definition cl_over (c : nclient) (dt : N) (a2 : addr) : nclient :=
  cl_set (cl_next c dt a2) CSendingRequest (Some (cl_now c + dt)) (cl_now c + dt) (cl_seq c + 1).

Lemma client_failover_explicit c dt a2 :
  client_inv c -> is_connecting c = true -> token_expired c dt = false -> NClientP.timed_out c dt = true ->
  next_server c = Some a2 -> token_sizes_ok (cl_token c) ->
  nclient_update c dt = Ok (cl_over c dt a2, Some (token_dgram (cl_token c), a2)).
Proof.
  intros Hinv Hc Hexp Hto Hnx Htok.
  assert (Hnth : nth_opt (ct_addrs (cl_token c)) (N.to_nat (cl_addr_index c + 1)) = Some (Some a2)).
  { unfold next_server in Hnx. destruct (nth_opt _ _) as [[x|]|]; try discriminate. congruence. }
  pose proof (failover_target_nth _ _ Hinv Hnth) as F.
  unfold nclient_update.
  rewrite (uis_connecting _ _ Hc) by (destruct Hinv as (H1 & _); lia).
  rewrite Hexp, Hto, (failover_eq _ _ Hinv), F. cbn [bind].
  rewrite (generate_packet_due (cl_next c dt a2) (token_request (cl_token c))
             ([0] ++ packet_body (token_request (cl_token c)))).
  - reflexivity.
  - exact I.
  - reflexivity.
  - reflexivity.
  - apply encode_request_ok. exact Htok.
Qed.

Theorem failover_round y t dt fc fs a2 :
  hs_waiting y t ->
  cl_timed_out (sy_client y) dt = true -> cl_expired (sy_client y) dt = false ->
  srv_expired (sy_server y) (cl_token (sy_client y)) dt = false ->
  next_server (sy_client y) = Some a2 -> dest_ok (sy_server y) a2 = true ->
  seq_room y 1 = true ->
  exists y' rs,
    round y dt fc fs = Ok (y', rs) /\ hs_inv_with y' t /\
    (ph_request y' t \/ ph_response y' t) /\
    cl_server_addr (sy_client y') = a2 /\
    cl_addr_index (sy_client y') = cl_addr_index (sy_client y) + 1 /\
    cl_connect_start (sy_client y') = cl_now (sy_client y) + dt /\
    cl_now (sy_client y') = cl_now (sy_client y) + dt /\
    cl_now (sy_client y) + dt <= cl_last_recv (sy_client y') /\
    ns_now (sy_server y') = ns_now (sy_server y) + dt.
Proof.
  destruct y as [c s a]. cbn [sy_client sy_server]. intros Hw Hto Hex Hsex Hnx Hdest2 Hroom.
  rewrite waiting_split in Hw. destruct Hw as ((Ss & Hid & Hinv) & Hc & Hrp & So & Hp).
  rewrite cl_timed_out_eq in Hto. rewrite cl_expired_eq in Hex.
  assert (Hidt : cl_id c = pt_client_id t) by (destruct Ss as (_ & _ & (Hi & _) & _); congruence).
  assert (Hsz : token_sizes_ok (cl_token c)) by (apply token_wf_sizes; apply Ss).
  assert (Hsq : ns_chal_seq s + 2 < U64 /\ ns_global_seq s + 2 < U64).
  { clear - Hroom. unfold seq_room in Hroom. cbn [sy_client sy_server sy_addr] in Hroom. lia. }
  clear Hroom.
  destruct (srv_tick_open s a (cl_token c) t dt Ss So Hp Hsex) as (Huc & Ss1 & So1 & Hpf1 & Hp1 & _ & Hnow1).
  set (s1 := nserver_update s dt) in *.
  assert (Sm1 : srv_same s s1) by (repeat split).
  pose proof (client_failover_explicit c dt a2 Hinv Hc Hex Hto Hnx Hsz) as Hcu.
  set (c1 := cl_over c dt a2) in *.
  assert (Hinv1 : client_inv c1) by (apply (client_inv_step_update c dt c1 _ Hinv Hcu)).
  clear Hto Hex Hsex.
  destruct (feed_requests a (cl_token c) t (copies fc) s1 Ss1 So1 Hp1 Hnow1)
    as (s3 & rs & Hf & Ss3 & So3 & Hp3 & Hrs & Hlen & _ & Hc3 & Hg3 & Hcl3 & Hn3 & Sm3).
  { pose proof (copies_le2 fc). change (ns_chal_seq s1) with (ns_chal_seq s). lia. }
  { pose proof (copies_le2 fc). change (ns_global_seq s1) with (ns_global_seq s). lia. }
  destruct (replies_of_chal s3 a t rs Hrs) as (Hds & _ & _).
  assert (Hdest1 : dest_ok s1 a2 = true) by exact Hdest2.
  assert (St13 : sys_static (mk c1 s3 a) t).
  { rewrite sys_static_split. split; [exact Ss3|]. split; [exact Hid|].
    split; [apply (srv_static_same_dest s1 s3 _ Sm3); exact Hdest1 | exact Hinv1]. }
  assert (P0 : P12 s3 a t c1 c1).
  { split; [exact St13|]. split; [apply cl_frame_refl|]. left. split; [|reflexivity].
    unfold ph_request. cbn [sy_client sy_server sy_addr]. split; [reflexivity|]. split; [exact Hrp|]. split; [exact So3 | exact Hp3]. }
  destruct (deliver_all_reach (P12 s3 a t c1) (got_challenge s3 a t c1) (chal_dgram_ok s3 a t) (copies fs)
              (recv_challenge_step s3 a t c1) (flat_map (reply_to a) rs) c1 P0 Hds) as [Pf _].
  set (c2 := deliver_all (copies fs) c1 (flat_map (reply_to a) rs)) in *.
  exists (mk c2 s3 a), (SRNone :: rs).
  split.
  { unfold round. cbn [sy_client sy_server sy_addr]. fold s1. rewrite Hidt, Huc. cbn [bind]. rewrite Hcu. cbn [bind].
    rewrite Hdest1, Hf. cbn [bind]. reflexivity. }
  destruct Pf as (St2 & Fr2 & Hph2).
  assert (Hph : ph_request (mk c2 s3 a) t \/ ph_response (mk c2 s3 a) t).
  { destruct Hph2 as [[Hr _]|(Hr & _)]; [left | right]; exact Hr. }
  split; [split; [exact St2|]; destruct Hph as [H|H]; [left; exact H | right; left; exact H]|].
  split; [exact Hph|].
  destruct Fr2 as (_ & _ & Fa & Fi & Fcs & Fnow & _ & Flr). cbn [sy_client sy_server].
  split; [rewrite Fa; reflexivity|]. split; [rewrite Fi; reflexivity|]. split; [rewrite Fcs; reflexivity|].
  split; [rewrite Fnow; reflexivity|]. split; [exact Flr|]. rewrite Hn3. reflexivity.
Qed.
Print Assumptions failover_round.

(* while the client talks to an address that is not the server's (or while the network loses every
   datagram), nothing happens on the server but its clock *)
Theorem waiting_round y t dt fc fs :
  hs_waiting y t ->
  dest_ok (sy_server y) (cl_server_addr (sy_client y)) = false \/ fc = Lost ->
  cl_timed_out (sy_client y) dt = false -> cl_expired (sy_client y) dt = false ->
  srv_expired (sy_server y) (cl_token (sy_client y)) dt = false ->
  exists y',
    round y dt fc fs = Ok (y', [SRNone]) /\ hs_waiting y' t /\
    sy_server y' = nserver_update (sy_server y) dt /\ tick_frame (sy_client y) (sy_client y') dt /\
    cl_last_send (sy_client y') <> None.
Proof.
  destruct y as [c s a]. cbn [sy_client sy_server]. intros Hw Hlost Hto Hex Hsex.
  rewrite waiting_split in Hw. destruct Hw as ((Ss & Hid & Hinv) & Hc & Hrp & So & Hp).
  rewrite cl_timed_out_eq in Hto. rewrite cl_expired_eq in Hex.
  assert (Hidt : cl_id c = pt_client_id t) by (destruct Ss as (_ & _ & (Hi & _) & _); congruence).
  assert (Hsz : token_sizes_ok (cl_token c)) by (apply token_wf_sizes; apply Ss).
  destruct (srv_tick_open s a (cl_token c) t dt Ss So Hp Hsex) as (Huc & Ss1 & So1 & Hpf1 & Hp1 & _ & Hnow1).
  set (s1 := nserver_update s dt) in *.
  assert (Hres : forall c1, tick_frame c c1 dt -> client_inv c1 -> hs_waiting (mk c1 s1 a) t).
  { intros c1 (T1 & T2 & _ & _ & _ & _ & _ & _ & T9 & T10 & _) I1. rewrite waiting_split. rewrite T1, T2, T10.
    unfold is_connecting in *. rewrite T9. auto. }
  destruct (client_tick c dt Hinv (or_introl Hc) (fun _ => Hex) Hto (fun _ => Hsz))
    as [[Hcu Hnd]|(d & p & Hcu & Hdue & Hcp & Henc & Hd)].
  - exists (mk (cl_tick c dt) s1 a).
    split.
    { unfold round. cbn [sy_client sy_server sy_addr]. fold s1. rewrite Hidt, Huc. cbn [bind]. rewrite Hcu. reflexivity. }
    split; [apply Hres; [apply tick_frame_tick | apply client_inv_tick; exact Hinv]|].
    split; [reflexivity|]. split; [apply tick_frame_tick|]. cbn [sy_client]. proj_cbn.
    unfold send_due in Hnd. cbn [cl_tick cl_last_send cl_now] in Hnd. destruct (cl_last_send c); [discriminate | discriminate Hnd].
  - exists (mk (cl_sent c dt) s1 a).
    split.
    { unfold round. cbn [sy_client sy_server sy_addr]. fold s1. rewrite Hidt, Huc. cbn [bind]. rewrite Hcu. cbn [bind].
      change (dest_ok s1 (cl_server_addr c)) with (dest_ok s (cl_server_addr c)).
      destruct Hlost as [-> | ->]; [reflexivity|]. destruct (dest_ok s (cl_server_addr c)); reflexivity. }
    split; [apply Hres; [apply tick_frame_sent | apply client_inv_cl_sent; exact Hinv]|].
    split; [reflexivity|]. split; [apply tick_frame_sent|]. cbn [sy_client]. unfold cl_sent. proj_cbn. discriminate.
Qed.
Print Assumptions waiting_round.

(* T4: the time-out fires on a waiting client, the token lists a next address and that address is the
   server's: the client restarts there and two good ticks later both sides are connected *)
Theorem failover_then_connects y t dt fc fs a2 dt1 dt2 :
  hs_waiting y t ->
  cl_timed_out (sy_client y) dt = true -> cl_expired (sy_client y) dt = false ->
  srv_expired (sy_server y) (cl_token (sy_client y)) dt = false ->
  next_server (sy_client y) = Some a2 -> dest_ok (sy_server y) a2 = true ->
  seq_room y 1 = true ->
  SEND_RATE_NS <= dt1 -> SEND_RATE_NS <= dt2 ->
  (* the side conditions of T3 for the two good ticks, on the state the fail-over tick leads to *)
  match round y dt fc fs with
  | Ok (y1, _) => rounds_ok y1 [(dt1, Once, Once); (dt2, Once, Once)] = true
  | _ => False
  end ->
  exists y' rss,
    run_rounds y [(dt, fc, fs); (dt1, Once, Once); (dt2, Once, Once)] = Ok (y', rss) /\ sys_connected y' /\
    cl_server_addr (sy_client y') = a2.
Proof.
  intros Hw Hto Hex Hsex Hnx Hd Hroom H1 H2 Hok.
  destruct (failover_round y t dt fc fs a2 Hw Hto Hex Hsex Hnx Hd Hroom) as (y1 & rs & Hr & Hinv1 & _ & Ha2 & _).
  rewrite Hr in Hok. cbn [rounds_ok] in Hok.
  (* two good ticks; the address is kept by the frame *)
  apply andb_true_iff in Hok. destruct Hok as [Ho1 Hok].
  destruct (good_round_rank y1 dt1 (hs_inv_with_inv _ _ Hinv1) Ho1 H1) as (y2 & rs1 & Hr1 & Hinv2 & Fr1 & Hrk1).
  unfold good_round in Hr1. rewrite Hr1 in Hok. apply andb_true_iff in Hok. destruct Hok as [Ho2 _].
  destruct (good_round_rank y2 dt2 Hinv2 Ho2 H2) as (y3 & rs2 & Hr2 & Hinv3 & Fr2 & Hrk2).
  unfold good_round in Hr2.
  exists y3, [rs; rs1; rs2]. cbn [run_rounds]. rewrite Hr. cbn [bind]. rewrite Hr1. cbn [bind]. rewrite Hr2. cbn [bind].
  split; [reflexivity|]. split.
  - apply rank_zero_connected; [exact Hinv3|]. pose proof (hs_rank_le2 y1). lia.
  - destruct Fr1 as (_ & _ & _ & F1 & _). destruct Fr2 as (_ & _ & _ & F2 & _). congruence.
Qed.
Print Assumptions failover_then_connects.

(* ================================================================== *)
(* 10. E: a concrete run through the cipher                            *)
(* ================================================================== *)
Definition nv_user : list N := repeatN 1 256.
Definition nv_c2s : list N := repeatN 17 32.
Definition nv_s2c : list N := repeatN 34 32.
Definition nv_xnonce : list N := repeatN 9 24.

(* the private part that goes into the token *)
Definition nv_private : private_token :=
  {| pt_client_id := 9; pt_timeout := 15%Z; pt_addrs := pad_slots (map Some [NServerP.ex_addr]);
     pt_c2s := nv_c2s; pt_s2c := nv_s2c; pt_user := nv_user |}.

(* ConnectToken::generate with the server's connect key: protocol 42, valid for 300 s, time-out 15 s *)
Definition nv_generated : nres connect_token :=
  token_generate 0 42 300 9 15%Z [NServerP.ex_addr] nv_user NServerP.ex_key nv_xnonce nv_c2s nv_s2c.

Definition nv_token : connect_token :=
  match nv_generated with
  | Ok t => t
  | _ => {| ct_client_id := 0; ct_version := []; ct_protocol := 0; ct_create := 0; ct_expire := 0; ct_xnonce := [];
            ct_addrs := []; ct_c2s := []; ct_s2c := []; ct_private := []; ct_timeout := 0%Z |}
  end.

Lemma nv_generated_ok : nv_generated = Ok nv_token.
Proof. vm_compute. reflexivity. Qed.

Definition nv_client : nclient :=
  match nclient_new 0 nv_token with
  | Ok c => c
  | _ => {| cl_state := CDisconnected CRDenied; cl_id := 0; cl_connect_start := 0; cl_last_send := None; cl_last_recv := 0;
            cl_now := 0; cl_seq := 0; cl_server_addr := NServerP.ex_addr; cl_addr_index := 0; cl_token := nv_token;
            cl_chal_seq := 0; cl_chal_data := []; cl_max_clients := 0; cl_client_index := 0; cl_replay := replay_new |}
  end.

Lemma nv_client_new : nclient_new 0 nv_token = Ok nv_client.
Proof. vm_compute. reflexivity. Qed.

(* the server of NAuthP.sc_server: nserver_new 0 2 42 [127.0.0.1:5000] (Some key) chal_key *)
Definition nv_sys : nsys := mk nv_client sc_server NServerP.ex_peer.

Lemma nv_private_wf : private_wf nv_private.
Proof.
  unfold private_wf. cbn [nv_private pt_client_id pt_timeout pt_addrs pt_c2s pt_s2c pt_user].
  split; [reflexivity|]. split; [lia|]. split.
  { exists [NServerP.ex_addr]. split; [reflexivity|]. split; [cbn; lia|]. split; [cbn; lia|].
    repeat constructor; apply bytes_ok_dec_true; reflexivity. }
  repeat split.
Qed.

Lemma nv_token_wf : token_wf nv_token.
Proof.
  apply (token_generate_wf 0 42 300 9 15%Z [NServerP.ex_addr] nv_user NServerP.ex_key nv_xnonce nv_c2s nv_s2c nv_token nv_generated_ok);
    try reflexivity; try (vm_compute; reflexivity); try lia.
  repeat constructor; apply bytes_ok_dec_true; reflexivity.
Qed.

Lemma sc_server_inv : table_inv sc_server.
Proof.
  apply (table_inv_init 0 2 42 [NServerP.ex_addr] (Some NServerP.ex_key) NServerP.ex_chal_key);
    [unfold NC_MAX_CLIENTS; lia | apply sc_server_new].
Qed.

Lemma sc_server_sizes : server_sizes sc_server.
Proof. split; vm_compute; discriminate. Qed.

(* token_for_server is satisfiable: the generated token, the new server, any time before the expiry *)
Example nv_token_for_server_at now :
  as_secs now < 300 -> token_for_server_with sc_server nv_token NServerP.ex_peer now nv_private.
Proof.
  intros Hnow. unfold token_for_server_with.
  split; [exact nv_token_wf|]. split; [exact nv_private_wf|].
  split; [vm_compute; repeat split|].
  split.
  { exists NC_VERSION_INFO, 42, nv_xnonce, (ct_private nv_token).
    split; [rewrite (token_dgram_decode nv_token _ nv_token_wf); vm_compute; reflexivity|].
    split; [reflexivity|]. split; [reflexivity|].
    split; [change (ns_now (set_now sc_server now)) with now; replace (ct_expire nv_token) with 300 by (vm_compute; reflexivity); exact Hnow|].
    split; [vm_compute; reflexivity|]. intros _. vm_compute. reflexivity. }
  split; [vm_compute; reflexivity|]. split; [vm_compute; reflexivity|]. split; [vm_compute; reflexivity|].
  split; [unfold entry_free_or_bound; cbn [sc_server ns_entries]; rewrite last_match_repeat_none; exact I|].
  split; [vm_compute; reflexivity|]. split; [vm_compute; discriminate|]. vm_compute. reflexivity.
Qed.

Example nv_token_for_server : token_for_server_with sc_server nv_token NServerP.ex_peer 0 nv_private.
Proof. apply nv_token_for_server_at. vm_compute. reflexivity. Qed.

Example nv_hs_inv : hs_inv nv_sys.
Proof.
  destruct (initial_hs_inv sc_server nv_token NServerP.ex_peer 0 nv_private 0 nv_client
              sc_server_inv sc_server_sizes nv_token_for_server nv_client_new) as (St & P1 & _).
  { vm_compute. reflexivity. }
  exists nv_private. split; [exact St | left; exact P1].
Qed.

(* 300 ms ticks: the first request is lost, the second arrives twice (two challenges come back, the
   client takes the first), then two good ticks *)
Definition nv_dt : N := 300000000.
Definition nv_run : list (N * fate * fate) :=
  [(nv_dt, Lost, Once); (nv_dt, Twice, Once); (nv_dt, Once, Once); (nv_dt, Once, Once)].

(* the side conditions of T2 / T3 hold along this run *)
Example nv_rounds_ok : rounds_ok nv_sys nv_run = true.
Proof. vm_compute. reflexivity. Qed.

Example nv_run_connects :
  match run_rounds nv_sys nv_run with
  | Ok (y, rss) =>
      cl_state (sy_client y) = CConnected /\ cl_client_index (sy_client y) = 0 /\
      is_client_connected (sy_server y) 9 = true /\
      user_data (sy_server y) 9 = Some (repeatN 1 256) /\
      client_addr (sy_server y) 9 = Some (AddrV4 [10; 0; 0; 1] 4000) /\
      connected_count (sy_server y) = 1 /\
      map count_connected rss = [0; 0; 1; 0]%nat /\
      map (@length sresult) rss = [1; 3; 2; 2]%nat
  | _ => False
  end.
Proof. vm_compute. repeat split. Qed.
Print Assumptions nv_token_for_server.
Print Assumptions nv_hs_inv.
Print Assumptions nv_run_connects.

(* the theorems apply to this system: T3 from its initial state *)
Example nv_by_theorem :
  exists y rss, run_rounds nv_sys ([(nv_dt, Lost, Once); (nv_dt, Twice, Lost)] ++ [(nv_dt, Once, Once); (nv_dt, Once, Once)]) = Ok (y, rss) /\
                sys_connected y.
Proof.
  apply handshake_eventually; [exact nv_hs_inv | vm_compute; discriminate | vm_compute; discriminate | vm_compute; reflexivity].
Qed.

(* the hypotheses of T1 and of the closed liveness theorem are satisfiable: both apply to this system *)
Example nv_t1_applies :
  exists y1 rs1 y2 rs2,
    good_round nv_sys nv_dt = Ok (y1, rs1) /\ good_round y1 nv_dt = Ok (y2, rs2) /\
    cl_state (sy_client y2) = CConnected /\ user_data (sy_server y2) 9 = Some nv_user /\
    count_connected rs1 = 0%nat /\ count_connected rs2 = 1%nat /\
    connected_count (sy_server y2) = connected_count sc_server + 1.
Proof.
  destruct (handshake_two_good_rounds sc_server nv_token NServerP.ex_peer nv_private 0 nv_client nv_dt nv_dt
              sc_server_inv sc_server_sizes) as (y1 & rs1 & y2 & rs2 & H1 & H2 & H3 & _ & H5 & H6 & H7 & H8 & _).
  - apply nv_token_for_server_at. vm_compute. reflexivity.
  - exact nv_client_new.
  - vm_compute. reflexivity.
  - vm_compute. reflexivity.
  - right. vm_compute. split; discriminate.
  - vm_compute. reflexivity.
  - vm_compute. reflexivity.
  - exists y1, rs1, y2, rs2. repeat split; assumption.
Qed.

Example nv_liveness_applies :
  exists y rss, run_rounds nv_sys nv_run = Ok (y, rss) /\ sys_connected y.
Proof.
  apply (handshake_liveness sc_server nv_token NServerP.ex_peer nv_private 0 nv_client
           [(nv_dt, Lost, Once); (nv_dt, Twice, Once)] nv_dt nv_dt sc_server_inv sc_server_sizes).
  - apply nv_token_for_server_at. vm_compute. reflexivity.
  - exact nv_client_new.
  - vm_compute. reflexivity.
  - vm_compute. discriminate.
  - vm_compute. discriminate.
  - vm_compute. reflexivity.
  - right. vm_compute. discriminate.
  - right. vm_compute. discriminate.
  - vm_compute. reflexivity.
  - vm_compute. reflexivity.
  - vm_compute. reflexivity.
Qed.

(* ================================================================== *)
(* 11. the tick without update_client: the handshake can get stuck     *)
(* ================================================================== *)

(* The state after: request and challenge delivered, response delivered, the keep-alive that announces
   the connection LOST.  It satisfies hs_inv (phase 3: the server has the connected entry, the client is
   still answering).  From there, ticks that only call NetcodeServer::update never connect the client:
   the server ignores the retransmitted responses of a connected address and sends nothing. *)
Definition sys_of (r : nres (nsys * list (list sresult))) (d : nsys) : nsys :=
  match r with Ok (y, _) => y | _ => d end.

Definition stuck_sys : nsys := sys_of (run_rounds nv_sys [(nv_dt, Once, Once); (nv_dt, Once, Lost)]) nv_sys.

Lemma stuck_sys_inv : hs_inv stuck_sys.
Proof.
  destruct (run_inv_preserved [(nv_dt, Once, Once); (nv_dt, Once, Lost)] nv_sys nv_hs_inv) as (y & rss & Hr & Hinv).
  { vm_compute. reflexivity. }
  unfold stuck_sys. rewrite Hr. exact Hinv.
Qed.

(* T3 read with round_lit (only nserver_update on the server side) is FALSE *)
Theorem handshake_completes_after_loss_lit_refuted :
  ~ (forall y dt1 dt2,
       hs_inv y -> SEND_RATE_NS <= dt1 -> SEND_RATE_NS <= dt2 ->
       rounds_ok y [(dt1, Once, Once); (dt2, Once, Once)] = true ->
       exists y2 rss, run_rounds_lit y [(dt1, Once, Once); (dt2, Once, Once)] = Ok (y2, rss) /\ sys_connected y2).
Proof.
  intros H.
  destruct (H stuck_sys nv_dt nv_dt stuck_sys_inv) as (y2 & rss & Hr & (t & _ & (S & _))).
  - vm_compute. discriminate.
  - vm_compute. discriminate.
  - vm_compute. reflexivity.
  - assert (E : match run_rounds_lit stuck_sys [(nv_dt, Once, Once); (nv_dt, Once, Once)] with
                | Ok (y, _) => cl_state (sy_client y) = CSendingResponse
                | _ => False
                end) by (vm_compute; reflexivity).
    rewrite Hr in E. rewrite E in S. discriminate.
Qed.
Print Assumptions handshake_completes_after_loss_lit_refuted.

(* ... and it stays stuck for as long as the client keeps trying (here 20 more good ticks, 6 s), while
   the real tick connects in one *)
Example stuck_for_long :
  match run_rounds_lit stuck_sys (repeat (nv_dt, Once, Once) 20) with
  | Ok (y, _) => cl_state (sy_client y) = CSendingResponse /\ is_client_connected (sy_server y) 9 = true
  | _ => False
  end.
Proof. vm_compute. repeat split. Qed.

Example unstuck_by_update_client :
  match run_rounds stuck_sys [(nv_dt, Once, Once)] with
  | Ok (y, _) => cl_state (sy_client y) = CConnected
  | _ => False
  end.
Proof. vm_compute. reflexivity. Qed.

(* the three-case invariant of the task statement (without phase 3) is not preserved: the lost
   keep-alive leads from phase 2 to a state that is in none of the three *)
Theorem three_phase_inv_refuted :
  exists y dt fc fs y' rs,
    (exists t, sys_static y t /\ ph_response y t) /\ round_ok y dt = true /\ round y dt fc fs = Ok (y', rs) /\
    ~ (exists t, sys_static y' t /\ (ph_request y' t \/ ph_response y' t \/ ph_connected y' t)).
Proof.
  set (y1 := sys_of (run_rounds nv_sys [(nv_dt, Once, Once)]) nv_sys).
  assert (Hy1 : exists t, sys_static y1 t /\ ph_response y1 t).
  { destruct (run_inv_preserved [(nv_dt, Once, Once)] nv_sys nv_hs_inv) as (y & rss & Hr & (t & St & Hph)); [vm_compute; reflexivity|].
    unfold y1. rewrite Hr. cbn [sys_of]. exists t. split; [exact St|].
    assert (S : cl_state (sy_client y) = CSendingResponse /\ find_by_addr (sy_server y) (sy_addr y) = None).
    { assert (E : match run_rounds nv_sys [(nv_dt, Once, Once)] with
                  | Ok (y, _) => cl_state (sy_client y) = CSendingResponse /\ find_by_addr (sy_server y) (sy_addr y) = None
                  | _ => False end) by (vm_compute; split; reflexivity).
      rewrite Hr in E. exact E. }
    destruct S as [S Ea].
    destruct Hph as [(S' & _)|[H|[(_ & _ & _ & slot & sc & (Ea' & _))|(S' & _)]]]; try exact H; try congruence. }
  destruct (round y1 nv_dt Once Lost) as [[y' rs]|e|site] eqn:Hr; [|exfalso; vm_compute in Hr; discriminate..].
  exists y1, nv_dt, Once, Lost, y', rs.
  split; [exact Hy1|]. split; [vm_compute; reflexivity|]. split; [exact Hr|].
  assert (E : match round y1 nv_dt Once Lost with
              | Ok (y, _) => cl_state (sy_client y) = CSendingResponse /\
                             pend_find (sy_addr y) (ns_pending (sy_server y)) = None
              | _ => False end) by (vm_compute; split; reflexivity).
  rewrite Hr in E. destruct E as [S Ep].
  intros (t & _ & [(S' & _)|[(_ & _ & _ & pc & Ep' & _)|(S' & _)]]); congruence.
Qed.
Print Assumptions three_phase_inv_refuted.

(* T1 read as "two good ticks with ANY dt that keep the token unexpired" is FALSE: a first tick longer than
   the token's time-out (here 20 s against 15 s; the token is valid for 300 s on both clocks) makes the
   client give up before it has sent anything - the time-out hypothesis of handshake_two_good_rounds is
   needed *)
Theorem two_good_rounds_any_dt_refuted :
  exists s tok a t nowc c dt1 dt2,
    table_inv s /\ server_sizes s /\ token_for_server_with s tok a (ns_now s + dt1 + dt2) t /\
    nclient_new nowc tok = Ok c /\ dest_ok s (cl_server_addr c) = true /\
    as_secs (dt1 + dt2) < ct_expire tok - ct_create tok /\
    match run_rounds (mk c s a) [(dt1, Once, Once); (dt2, Once, Once)] with
    | Ok (y, rss) => cl_state (sy_client y) = CDisconnected CRRequestTimedOut /\
                     is_client_connected (sy_server y) (ct_client_id tok) = false /\ map count_connected rss = [0; 0]%nat
    | _ => False
    end.
Proof.
  exists sc_server, nv_token, NServerP.ex_peer, nv_private, 0, nv_client, 20000000000, nv_dt.
  split; [exact sc_server_inv|]. split; [exact sc_server_sizes|].
  split; [apply nv_token_for_server_at; vm_compute; reflexivity|].
  split; [exact nv_client_new|]. split; [vm_compute; reflexivity|]. split; [vm_compute; reflexivity|].
  vm_compute. repeat split.
Qed.
Print Assumptions two_good_rounds_any_dt_refuted.

(* ================================================================== *)
(* 12. fail-over, concretely: the first listed server is silent        *)
(* ================================================================== *)
Lemma initial_waiting s tok a now t nowc c :
  table_inv s -> server_sizes s -> token_for_server_with s tok a now t -> nclient_new nowc tok = Ok c ->
  hs_waiting (mk c s a) t.
Proof.
  intros T Hsz (W & Wt & Hcons & Hv & Ei & Ea & Ep & Hen & Hc & Hff & Hpl) Hnew.
  destruct (validates_static s now tok t W Hv) as (Hpr & Hpd & Hh & Hnow).
  assert (L32 : length (ct_addrs tok) = 32%nat).
  { destruct W as (_ & _ & _ & _ & _ & _ & (addrs & -> & _ & Hle & _) & _).
    apply pad_slots_length. rewrite map_length. unfold len in Hle. lia. }
  pose proof (client_inv_init nowc tok c L32 Hnew) as Hinv.
  unfold nclient_new in Hnew. destruct (ct_addrs tok) as [|[a0|] rest]; try discriminate. injection Hnew as <-.
  rewrite waiting_split. cbn [cl_token cl_id cl_replay].
  split; [split; [exact (conj W (conj Wt (conj Hcons (conj Hpr (conj Hpd (conj Hh (conj Hen (conj T Hsz))))))))|]; split; [reflexivity | exact Hinv]|].
  split; [reflexivity|]. split; [reflexivity|]. split; [exact (conj Ea (conj Ei (conj Hc Hff)))|].
  unfold pend_room. rewrite Ep. exact Hpl.
Qed.

Definition nv_silent : addr := AddrV4 [192; 168; 0; 1] 5000.

(* the same token, but the server's address is listed second and the time-out is 2 s *)
Definition nv2_private : private_token :=
  {| pt_client_id := 9; pt_timeout := 2%Z; pt_addrs := pad_slots (map Some [nv_silent; NServerP.ex_addr]);
     pt_c2s := nv_c2s; pt_s2c := nv_s2c; pt_user := nv_user |}.

Definition nv2_generated : nres connect_token :=
  token_generate 0 42 300 9 2%Z [nv_silent; NServerP.ex_addr] nv_user NServerP.ex_key nv_xnonce nv_c2s nv_s2c.

Definition token_of (r : nres connect_token) : connect_token :=
  match r with
  | Ok t => t
  | _ => {| ct_client_id := 0; ct_version := []; ct_protocol := 0; ct_create := 0; ct_expire := 0; ct_xnonce := [];
            ct_addrs := []; ct_c2s := []; ct_s2c := []; ct_private := []; ct_timeout := 0%Z |}
  end.
Definition nv2_token : connect_token := token_of nv2_generated.

Lemma nv2_generated_ok : nv2_generated = Ok nv2_token.
Proof. vm_compute. reflexivity. Qed.

Definition client_of (r : nres nclient) (tok : connect_token) : nclient :=
  match r with
  | Ok c => c
  | _ => {| cl_state := CDisconnected CRDenied; cl_id := 0; cl_connect_start := 0; cl_last_send := None; cl_last_recv := 0;
            cl_now := 0; cl_seq := 0; cl_server_addr := NServerP.ex_addr; cl_addr_index := 0; cl_token := tok;
            cl_chal_seq := 0; cl_chal_data := []; cl_max_clients := 0; cl_client_index := 0; cl_replay := replay_new |}
  end.
Definition nv2_client : nclient := client_of (nclient_new 0 nv2_token) nv2_token.

Lemma nv2_client_new : nclient_new 0 nv2_token = Ok nv2_client.
Proof. vm_compute. reflexivity. Qed.

Definition nv2_sys : nsys := mk nv2_client sc_server NServerP.ex_peer.

Lemma nv2_private_wf : private_wf nv2_private.
Proof.
  unfold private_wf. cbn [nv2_private pt_client_id pt_timeout pt_addrs pt_c2s pt_s2c pt_user].
  split; [reflexivity|]. split; [lia|]. split.
  { exists [nv_silent; NServerP.ex_addr]. split; [reflexivity|]. split; [cbn; lia|]. split; [cbn; lia|].
    repeat constructor; apply bytes_ok_dec_true; reflexivity. }
  repeat split.
Qed.

Lemma nv2_token_wf : token_wf nv2_token.
Proof.
  apply (token_generate_wf 0 42 300 9 2%Z [nv_silent; NServerP.ex_addr] nv_user NServerP.ex_key nv_xnonce nv_c2s nv_s2c
           nv2_token nv2_generated_ok);
    try reflexivity; try (vm_compute; reflexivity); try lia.
  repeat constructor; apply bytes_ok_dec_true; reflexivity.
Qed.

Example nv2_token_for_server : token_for_server_with sc_server nv2_token NServerP.ex_peer 0 nv2_private.
Proof.
  unfold token_for_server_with.
  split; [exact nv2_token_wf|]. split; [exact nv2_private_wf|].
  split; [vm_compute; repeat split|].
  split.
  { exists NC_VERSION_INFO, 42, nv_xnonce, (ct_private nv2_token).
    split; [rewrite (token_dgram_decode nv2_token _ nv2_token_wf); vm_compute; reflexivity|].
    split; [reflexivity|]. split; [reflexivity|]. split; [vm_compute; reflexivity|].
    split; [vm_compute; reflexivity|]. intros _. vm_compute. reflexivity. }
  split; [vm_compute; reflexivity|]. split; [vm_compute; reflexivity|]. split; [vm_compute; reflexivity|].
  split; [unfold entry_free_or_bound; cbn [sc_server ns_entries]; rewrite last_match_repeat_none; exact I|].
  split; [vm_compute; reflexivity|]. split; [vm_compute; discriminate|]. vm_compute. reflexivity.
Qed.

(* the client starts on 192.168.0.1:5000, which is not the server: a waiting state, not covered by hs_inv *)
Example nv2_waiting :
  hs_waiting nv2_sys nv2_private /\ dest_ok (sy_server nv2_sys) (cl_server_addr (sy_client nv2_sys)) = false.
Proof.
  split; [|vm_compute; reflexivity].
  apply (initial_waiting sc_server nv2_token NServerP.ex_peer 0 nv2_private 0 nv2_client
           sc_server_inv sc_server_sizes nv2_token_for_server nv2_client_new).
Qed.

Definition nv_sec : N := 1000000000.

(* two ticks of 1 s into the void, the third fires the 2 s time-out: fail-over to 127.0.0.1:5000, the
   request is answered in the same tick; two good ticks connect *)
Definition nv2_run : list (N * fate * fate) :=
  [(nv_sec, Once, Once); (nv_sec, Once, Once); (nv_sec, Once, Once); (nv_dt, Once, Once); (nv_dt, Once, Once)].

Example nv2_run_fails_over :
  match run_rounds nv2_sys nv2_run with
  | Ok (y, rss) =>
      cl_state (sy_client y) = CConnected /\ cl_server_addr (sy_client y) = AddrV4 [127; 0; 0; 1] 5000 /\
      cl_addr_index (sy_client y) = 1 /\ is_client_connected (sy_server y) 9 = true /\
      map count_connected rss = [0; 0; 0; 1; 0]%nat /\ map (@length sresult) rss = [1; 1; 2; 2; 2]%nat
  | _ => False
  end.
Proof. vm_compute. repeat split. Qed.

(* the same by the theorems: two waiting ticks (waiting_round), then failover_then_connects *)
Example nv2_by_theorem :
  exists y rss, run_rounds nv2_sys nv2_run = Ok (y, rss) /\ sys_connected y /\
                cl_server_addr (sy_client y) = NServerP.ex_addr.
Proof.
  destruct nv2_waiting as [W0 D0].
  assert (A1 : cl_timed_out (sy_client nv2_sys) nv_sec = false) by (vm_compute; reflexivity).
  assert (A2 : cl_expired (sy_client nv2_sys) nv_sec = false) by (vm_compute; reflexivity).
  assert (A3 : srv_expired (sy_server nv2_sys) (cl_token (sy_client nv2_sys)) nv_sec = false) by (vm_compute; reflexivity).
  destruct (waiting_round nv2_sys nv2_private nv_sec Once Once W0 (or_introl D0) A1 A2 A3) as (y1 & R1 & W1 & S1 & F1 & _).
  assert (D1 : dest_ok (sy_server y1) (cl_server_addr (sy_client y1)) = false).
  { rewrite S1. destruct F1 as (_ & _ & -> & _). exact D0. }
  assert (B : match round nv2_sys nv_sec Once Once with
              | Ok (y, _) => cl_timed_out (sy_client y) nv_sec = false /\ cl_expired (sy_client y) nv_sec = false /\
                             srv_expired (sy_server y) (cl_token (sy_client y)) nv_sec = false
              | _ => False end) by (vm_compute; repeat split).
  rewrite R1 in B. destruct B as (B1 & B2 & B3).
  destruct (waiting_round y1 nv2_private nv_sec Once Once W1 (or_introl D1) B1 B2 B3) as (y2 & R2 & W2 & S2 & F2 & _).
  assert (R12 : run_rounds nv2_sys [(nv_sec, Once, Once); (nv_sec, Once, Once)] = Ok (y2, [[SRNone]; [SRNone]])).
  { cbn [run_rounds]. rewrite R1. cbn [bind]. rewrite R2. cbn [bind]. reflexivity. }
  assert (E : match run_rounds nv2_sys [(nv_sec, Once, Once); (nv_sec, Once, Once)] with
              | Ok (y, _) =>
                  cl_timed_out (sy_client y) nv_sec = true /\ cl_expired (sy_client y) nv_sec = false /\
                  srv_expired (sy_server y) (cl_token (sy_client y)) nv_sec = false /\
                  next_server (sy_client y) = Some NServerP.ex_addr /\ dest_ok (sy_server y) NServerP.ex_addr = true /\
                  seq_room y 1 = true /\
                  match round y nv_sec Once Once with
                  | Ok (y1, _) => rounds_ok y1 [(nv_dt, Once, Once); (nv_dt, Once, Once)] = true
                  | _ => False
                  end
              | _ => False end) by (vm_compute; repeat split).
  rewrite R12 in E. destruct E as (E1 & E2 & E3 & E4 & E5 & E6 & E7).
  assert (G1 : SEND_RATE_NS <= nv_dt) by (vm_compute; discriminate).
  destruct (failover_then_connects y2 nv2_private nv_sec Once Once NServerP.ex_addr nv_dt nv_dt W2 E1 E2 E3 E4 E5 E6 G1 G1 E7)
    as (y5 & rss & R & C & A).
  exists y5, ([[SRNone]; [SRNone]] ++ rss).
  split; [|split; [exact C | exact A]].
  change nv2_run with ([(nv_sec, Once, Once); (nv_sec, Once, Once)] ++ [(nv_sec, Once, Once); (nv_dt, Once, Once); (nv_dt, Once, Once)]).
  rewrite (run_rounds_app _ _ _ _ _ R12), R. reflexivity.
Qed.
Print Assumptions nv2_run_fails_over.
Print Assumptions nv2_by_theorem.
