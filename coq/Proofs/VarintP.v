(* VarintP.v - proofs about the varint codec and the reader / writer primitives. *)
From RenetV Require Import Base Consts Varint Packet.
From RenetV Require Import Spec.CodecSpec.
Require Import Lia ZifyBool ZifyN.
Arguments N.add : simpl never.
Arguments N.sub : simpl never.
Arguments N.mul : simpl never.
Arguments N.div : simpl never.
Arguments N.modulo : simpl never.
Arguments N.pow : simpl never.
Arguments N.eqb : simpl never.
Arguments N.ltb : simpl never.
Arguments N.leb : simpl never.
Open Scope N_scope.

(* lia with div / mod turned into their defining equations (used on small goals only) *)
Ltac zlia := zify; Z.div_mod_to_equations; lia.

(* ------------------------------------------------------------------ *)
(* res / bind                                                          *)
(* ------------------------------------------------------------------ *)
Lemma bind_ext {E A B} (r : res E A) (f g : A -> res E B) :
  (forall a, f a = g a) -> bind r f = bind r g.
Proof. intros H. destruct r as [a|e|s]; cbn [bind]; auto. Qed.

Lemma bind_ok_inv {E A B} (r : res E A) (f : A -> res E B) b :
  bind r f = Ok b -> exists a, r = Ok a /\ f a = Ok b.
Proof. destruct r as [a|e|s]; cbn [bind]; intros H; [eauto | discriminate | discriminate]. Qed.

Lemma bind_no_panic {E A B} (r : res E A) (f : A -> res E B) :
  is_panic r = false -> (forall a, is_panic (f a) = false) -> is_panic (bind r f) = false.
Proof. destruct r as [a|e|s]; cbn [bind is_panic]; intros H1 H2; auto. Qed.

(* ------------------------------------------------------------------ *)
(* len / takeN / dropN                                                 *)
(* ------------------------------------------------------------------ *)
Lemma len_nil {A} : len (@nil A) = 0.
Proof. reflexivity. Qed.

Lemma len_cons {A} (x : A) l : len (x :: l) = 1 + len l.
Proof. unfold len. cbn [length]. lia. Qed.

Lemma len_app {A} (a b : list A) : len (a ++ b) = len a + len b.
Proof. unfold len. rewrite app_length. lia. Qed.

Lemma len_rev {A} (a : list A) : len (rev a) = len a.
Proof. unfold len. rewrite rev_length. reflexivity. Qed.

Lemma len_map {A B} (f : A -> B) (a : list A) : len (map f a) = len a.
Proof. unfold len. rewrite map_length. reflexivity. Qed.

Lemma len_zero_nil {A} (a : list A) : len a = 0 -> a = [].
Proof. destruct a as [|x a]; [reflexivity|]. rewrite len_cons. lia. Qed.

Lemma len_length {A} (a : list A) : N.to_nat (len a) = length a.
Proof. unfold len. apply Nat2N.id. Qed.

Lemma takeN_app_len {A} n (a b : list A) : len a = n -> takeN n (a ++ b) = a.
Proof.
  intros <-. unfold takeN. rewrite len_length.
  revert b. induction a as [|x a IH]; intros b; cbn [length firstn app].
  - reflexivity.
  - f_equal. apply IH.
Qed.

Lemma dropN_app_len {A} n (a b : list A) : len a = n -> dropN n (a ++ b) = b.
Proof.
  intros <-. unfold dropN. rewrite len_length.
  revert b. induction a as [|x a IH]; intros b; cbn [length skipn app].
  - reflexivity.
  - apply IH.
Qed.

Lemma takeN_dropN {A} n (l : list A) : takeN n l ++ dropN n l = l.
Proof. unfold takeN, dropN. apply firstn_skipn. Qed.

Lemma len_takeN {A} n (l : list A) : n <= len l -> len (takeN n l) = n.
Proof.
  intros H. unfold takeN, len in *. rewrite firstn_length. lia.
Qed.

Lemma len_dropN {A} n (l : list A) : len (dropN n l) = len l - n.
Proof. unfold dropN, len. rewrite skipn_length. lia. Qed.

Lemma len_split {A} n (l : list A) : n <= len l -> len l = n + len (dropN n l).
Proof. intros H. rewrite len_dropN. lia. Qed.

(* ------------------------------------------------------------------ *)
(* bytes_ok                                                            *)
(* ------------------------------------------------------------------ *)
Lemma bytes_ok_app a b : bytes_ok (a ++ b) <-> bytes_ok a /\ bytes_ok b.
Proof. unfold bytes_ok. apply Forall_app. Qed.

Lemma bytes_ok_nil : bytes_ok [].
Proof. constructor. Qed.

Lemma bytes_ok_cons x l : bytes_ok (x :: l) <-> x < 256 /\ bytes_ok l.
Proof.
  unfold bytes_ok. split.
  - intros H. inversion H; subst; auto.
  - intros [H1 H2]. constructor; auto.
Qed.

Lemma bytes_ok_dropN n l : bytes_ok l -> bytes_ok (dropN n l).
Proof.
  intros H. rewrite <- (takeN_dropN n l) in H. apply bytes_ok_app in H. apply H.
Qed.

Lemma bytes_ok_takeN n l : bytes_ok l -> bytes_ok (takeN n l).
Proof.
  intros H. rewrite <- (takeN_dropN n l) in H. apply bytes_ok_app in H. apply H.
Qed.

(* ------------------------------------------------------------------ *)
(* fixed-width digits                                                  *)
(* ------------------------------------------------------------------ *)
Lemma le_bytes_length n v : length (le_bytes n v) = n.
Proof.
  revert v. induction n as [|k IH]; intros v; cbn [le_bytes length]; [reflexivity|].
  f_equal. apply IH.
Qed.

Lemma be_bytes_length n v : length (be_bytes n v) = n.
Proof. unfold be_bytes. rewrite rev_length. apply le_bytes_length. Qed.

Lemma len_be_bytes n v : len (be_bytes n v) = N.of_nat n.
Proof. unfold len. rewrite be_bytes_length. reflexivity. Qed.

Lemma le_bytes_ok n v : bytes_ok (le_bytes n v).
Proof.
  revert v. induction n as [|k IH]; intros v; cbn [le_bytes].
  - apply bytes_ok_nil.
  - apply bytes_ok_cons. split; [|apply IH].
    apply N.mod_upper_bound. discriminate.
Qed.

Lemma be_bytes_ok n v : bytes_ok (be_bytes n v).
Proof.
  unfold be_bytes, bytes_ok. apply Forall_rev. apply le_bytes_ok.
Qed.

Lemma be_val_snoc l b : be_val (l ++ [b]) = be_val l * 256 + b.
Proof. unfold be_val. rewrite fold_left_app. reflexivity. Qed.

Lemma be_val_rev l : be_val (rev l) = le_val l.
Proof.
  induction l as [|b l IH]; [reflexivity|].
  cbn [rev]. rewrite be_val_snoc, IH. cbn [le_val fold_right]. fold (le_val l). lia.
Qed.

Lemma pow256_nz k : 256 ^ k <> 0.
Proof. apply N.pow_nonzero. discriminate. Qed.

Lemma le_val_le_bytes n v : le_val (le_bytes n v) = v mod 256 ^ N.of_nat n.
Proof.
  revert v. induction n as [|k IH]; intros v.
  - cbn [le_bytes le_val fold_right]. change (256 ^ N.of_nat 0) with 1.
    rewrite N.mod_1_r. reflexivity.
  - cbn [le_bytes le_val fold_right]. fold (le_val (le_bytes k (v / 256))).
    rewrite IH, Nat2N.inj_succ, N.pow_succ_r'.
    rewrite N.mod_mul_r; [reflexivity | discriminate | apply pow256_nz].
Qed.

Lemma be_val_be_bytes n v : be_val (be_bytes n v) = v mod 256 ^ N.of_nat n.
Proof. unfold be_bytes. rewrite be_val_rev. apply le_val_le_bytes. Qed.

Lemma le_bytes_snoc k v :
  le_bytes (S k) v = le_bytes k v ++ [(v / 256 ^ N.of_nat k) mod 256].
Proof.
  revert v. induction k as [|k IH]; intros v.
  - cbn [le_bytes app]. change (256 ^ N.of_nat 0) with 1. rewrite N.div_1_r. reflexivity.
  - change (le_bytes (S (S k)) v) with (v mod 256 :: le_bytes (S k) (v / 256)).
    rewrite IH. cbn [le_bytes app]. do 3 f_equal.
    rewrite Nat2N.inj_succ, N.pow_succ_r', N.div_div; [reflexivity | discriminate | apply pow256_nz].
Qed.

Lemma be_bytes_S k v :
  be_bytes (S k) v = (v / 256 ^ N.of_nat k) mod 256 :: be_bytes k v.
Proof.
  unfold be_bytes. rewrite le_bytes_snoc, rev_app_distr. reflexivity.
Qed.

Lemma be_val_lt l : bytes_ok l -> be_val l < 256 ^ len l.
Proof.
  induction l as [|b l IH] using rev_ind; intros H.
  - cbn. reflexivity.
  - apply bytes_ok_app in H. destruct H as [Hl Hb].
    apply bytes_ok_cons in Hb. destruct Hb as [Hb _].
    specialize (IH Hl). rewrite be_val_snoc, len_app, len_cons, len_nil.
    replace (len l + (1 + 0)) with (N.succ (len l)) by lia.
    rewrite N.pow_succ_r'. lia.
Qed.

(* ------------------------------------------------------------------ *)
(* varint_len                                                          *)
(* ------------------------------------------------------------------ *)
Lemma varint_len_cases v :
  varint_len v = 1 \/ varint_len v = 2 \/ varint_len v = 4 \/ varint_len v = 8.
Proof.
  unfold varint_len.
  destruct (v <=? 63) eqn:H1; [auto|].
  destruct (v <=? 16383) eqn:H2; [auto|].
  destruct (v <=? 1073741823) eqn:H3; auto.
Qed.

Lemma varint_len_le8 v : varint_len v <= 8.
Proof. destruct (varint_len_cases v) as [H|[H|[H|H]]]; rewrite H; lia. Qed.

Lemma varint_len_ge1 v : 1 <= varint_len v.
Proof. destruct (varint_len_cases v) as [H|[H|[H|H]]]; rewrite H; lia. Qed.

(* holds for every v: be_bytes has a fixed width *)
Lemma varint_bytes_len_gen v : len (varint_bytes v) = varint_len v.
Proof.
  unfold varint_bytes, varint_len.
  destruct (v <=? 63) eqn:H1; [reflexivity|].
  destruct (v <=? 16383) eqn:H2; [apply len_be_bytes|].
  destruct (v <=? 1073741823) eqn:H3; apply len_be_bytes.
Qed.

Theorem varint_bytes_len : forall v, v <= VARINT_MAX -> len (varint_bytes v) = varint_len v.
Proof. intros v _. apply varint_bytes_len_gen. Qed.

Lemma varint_bytes_ok_gen v : bytes_ok (varint_bytes v).
Proof.
  unfold varint_bytes.
  destruct (v <=? 63) eqn:H1.
  - apply bytes_ok_cons. split; [lia | apply bytes_ok_nil].
  - destruct (v <=? 16383) eqn:H2; [apply be_bytes_ok|].
    destruct (v <=? 1073741823) eqn:H3; apply be_bytes_ok.
Qed.

Theorem varint_bytes_ok : forall v, v <= VARINT_MAX -> bytes_ok (varint_bytes v).
Proof. intros v _. apply varint_bytes_ok_gen. Qed.

Lemma varint_bytes_nonempty v : varint_bytes v <> [].
Proof.
  intros H. pose proof (varint_bytes_len_gen v) as HL. rewrite H, len_nil in HL.
  pose proof (varint_len_ge1 v). lia.
Qed.

(* ------------------------------------------------------------------ *)
(* get_varint                                                          *)
(* ------------------------------------------------------------------ *)
Lemma varint_parse_len_cases f :
  varint_parse_len f = 1 \/ varint_parse_len f = 2 \/ varint_parse_len f = 4 \/ varint_parse_len f = 8.
Proof.
  unfold varint_parse_len.
  destruct (f / 64) as [|p]; [auto|].
  destruct p as [[q|q|]|[q|q|]|]; auto.
Qed.

Lemma get_varint_cons f t :
  get_varint (f :: t) =
  if len (f :: t) <? varint_parse_len f then Err BufferTooShort
  else Ok (be_val (takeN (varint_parse_len f) (f :: t)) mod 2 ^ (8 * varint_parse_len f - 2),
           dropN (varint_parse_len f) (f :: t)).
Proof. reflexivity. Qed.

Lemma get_varint_be k x rest :
  varint_parse_len ((x / 256 ^ N.of_nat k) mod 256) = N.of_nat (S k) ->
  get_varint (be_bytes (S k) x ++ rest) =
  Ok ((x mod 256 ^ N.of_nat (S k)) mod 2 ^ (8 * N.of_nat (S k) - 2), rest).
Proof.
  intros Hp.
  pose proof (be_bytes_S k x) as HS.
  remember (be_bytes (S k) x ++ rest) as l eqn:Hl.
  assert (Hl' : l = (x / 256 ^ N.of_nat k) mod 256 :: (be_bytes k x ++ rest)).
  { rewrite Hl, HS. reflexivity. }
  rewrite Hl'. rewrite get_varint_cons. rewrite <- Hl'. rewrite Hp.
  assert (Hlen : len l = N.of_nat (S k) + len rest).
  { rewrite Hl, len_app, len_be_bytes. reflexivity. }
  destruct (len l <? N.of_nat (S k)) eqn:Hc; [lia|].
  rewrite Hl.
  rewrite takeN_app_len by apply len_be_bytes.
  rewrite dropN_app_len by apply len_be_bytes.
  rewrite be_val_be_bytes. reflexivity.
Qed.

Theorem varint_roundtrip : forall v rest,
  v <= VARINT_MAX -> get_varint (varint_bytes v ++ rest) = Ok (v, rest).
Proof.
  intros v rest Hv. unfold VARINT_MAX in Hv. unfold varint_bytes.
  destruct (v <=? 63) eqn:H1.
  - cbn [app]. rewrite get_varint_cons.
    assert (Hp : varint_parse_len v = 1).
    { unfold varint_parse_len. replace (v / 64) with 0 by zlia. reflexivity. }
    rewrite Hp. rewrite len_cons.
    destruct (1 + len rest <? 1) eqn:Hc; [lia|].
    change (takeN 1 (v :: rest)) with (firstn 1 (v :: rest)).
    change (dropN 1 (v :: rest)) with rest.
    cbn [firstn].
    change (be_val [v]) with (0 * 256 + v).
    change (2 ^ (8 * 1 - 2)) with 64.
    f_equal. f_equal. zlia.
  - destruct (v <=? 16383) eqn:H2.
    + rewrite get_varint_be.
      * f_equal. f_equal.
        change (256 ^ N.of_nat 2) with 65536.
        change (2 ^ (8 * N.of_nat 2 - 2)) with 16384. zlia.
      * change (256 ^ N.of_nat 1) with 256.
        unfold varint_parse_len.
        replace (((v + 16384) / 256) mod 256 / 64) with 1 by zlia. reflexivity.
    + destruct (v <=? 1073741823) eqn:H3.
      * rewrite get_varint_be.
        -- f_equal. f_equal.
           change (256 ^ N.of_nat 4) with 4294967296.
           change (2 ^ (8 * N.of_nat 4 - 2)) with 1073741824. zlia.
        -- change (256 ^ N.of_nat 3) with 16777216.
           unfold varint_parse_len.
           replace (((v + 2147483648) / 16777216) mod 256 / 64) with 2 by zlia. reflexivity.
      * rewrite get_varint_be.
        -- f_equal. f_equal.
           change (256 ^ N.of_nat 8) with 18446744073709551616.
           change (2 ^ (8 * N.of_nat 8 - 2)) with 4611686018427387904. zlia.
        -- change (256 ^ N.of_nat 7) with 72057594037927936.
           unfold varint_parse_len.
           replace (((v + 13835058055282163712) / 72057594037927936) mod 256 / 64) with 3 by zlia.
           reflexivity.
Qed.

Lemma varint_len_below n v :
  (n = 1 \/ n = 2 \/ n = 4 \/ n = 8) -> v < 2 ^ (8 * n - 2) ->
  v <= VARINT_MAX /\ varint_len v <= n.
Proof.
  unfold VARINT_MAX, varint_len.
  intros [Hn|[Hn|[Hn|Hn]]] Hv; subst n.
  - change (2 ^ (8 * 1 - 2)) with 64 in Hv.
    destruct (v <=? 63) eqn:H1; lia.
  - change (2 ^ (8 * 2 - 2)) with 16384 in Hv.
    destruct (v <=? 63) eqn:H1; [lia|].
    destruct (v <=? 16383) eqn:H2; lia.
  - change (2 ^ (8 * 4 - 2)) with 1073741824 in Hv.
    destruct (v <=? 63) eqn:H1; [lia|].
    destruct (v <=? 16383) eqn:H2; [lia|].
    destruct (v <=? 1073741823) eqn:H3; lia.
  - change (2 ^ (8 * 8 - 2)) with 4611686018427387904 in Hv.
    destruct (v <=? 63) eqn:H1; [lia|].
    destruct (v <=? 16383) eqn:H2; [lia|].
    destruct (v <=? 1073741823) eqn:H3; lia.
Qed.

(* everything one can say about a successful get_varint: the value is in range, a
   non-empty prefix was consumed, and that prefix is at least as long as the
   canonical encoding of the value *)
Lemma get_varint_inv l v r :
  get_varint l = Ok (v, r) ->
  exists pre, l = pre ++ r /\ pre <> [] /\ v <= VARINT_MAX /\ varint_len v <= len pre.
Proof.
  destruct l as [|f t]; [discriminate|].
  rewrite get_varint_cons.
  pose proof (varint_parse_len_cases f) as Hn.
  set (n := varint_parse_len f) in *.
  destruct (len (f :: t) <? n) eqn:Hc; [discriminate|].
  intros H. injection H as Hv Hr.
  exists (takeN n (f :: t)).
  assert (Hlen : len (takeN n (f :: t)) = n) by (apply len_takeN; lia).
  split; [|split].
  - rewrite <- Hr. symmetry. apply takeN_dropN.
  - intros E. rewrite E, len_nil in Hlen. lia.
  - rewrite Hlen. apply varint_len_below; [exact Hn|].
    rewrite <- Hv. apply N.mod_upper_bound. apply N.pow_nonzero. discriminate.
Qed.

Theorem get_varint_sound : forall l v r,
  get_varint l = Ok (v, r) -> v <= VARINT_MAX /\ exists pre, l = pre ++ r /\ pre <> [].
Proof.
  intros l v r H. apply get_varint_inv in H.
  destruct H as (pre & H1 & H2 & H3 & _). split; [exact H3|]. exists pre. auto.
Qed.

(* ------------------------------------------------------------------ *)
(* readers never panic                                                 *)
(* ------------------------------------------------------------------ *)
Theorem get_u8_no_panic : forall l, is_panic (get_u8 l) = false.
Proof. intros [|b t]; reflexivity. Qed.

Theorem get_u16_no_panic : forall l, is_panic (get_u16 l) = false.
Proof. intros l. unfold get_u16. destruct (len l <? 2) eqn:H; reflexivity. Qed.

Theorem get_bytes_no_panic : forall n l, is_panic (get_bytes n l) = false.
Proof. intros n l. unfold get_bytes. destruct (len l <? n) eqn:H; reflexivity. Qed.

Theorem get_varint_no_panic : forall l, is_panic (get_varint l) = false.
Proof.
  intros [|f t]; [reflexivity|]. rewrite get_varint_cons.
  destruct (len (f :: t) <? varint_parse_len f) eqn:H; reflexivity.
Qed.

Theorem get_bytes_with_varint_length_no_panic :
  forall l, is_panic (get_bytes_with_varint_length l) = false.
Proof.
  intros l. unfold get_bytes_with_varint_length.
  apply bind_no_panic; [apply get_varint_no_panic|].
  intros [n l1]. apply get_bytes_no_panic.
Qed.

(* readers: the only error is BufferTooShort *)
Lemma get_varint_err l e : get_varint l = Err e -> e = BufferTooShort.
Proof.
  destruct l as [|f t]; [intros H; injection H as <-; reflexivity|].
  rewrite get_varint_cons.
  destruct (len (f :: t) <? varint_parse_len f) eqn:Hc; [|discriminate].
  intros H; injection H as <-; reflexivity.
Qed.

(* inversions of the other readers *)
Lemma get_u8_inv l b r : get_u8 l = Ok (b, r) -> l = b :: r.
Proof. destruct l as [|x t]; [discriminate|]. cbn [get_u8]. intros H; injection H as -> ->. reflexivity. Qed.

Lemma get_u16_inv l v r :
  get_u16 l = Ok (v, r) -> exists pre, l = pre ++ r /\ len pre = 2 /\ v = be_val pre.
Proof.
  unfold get_u16. destruct (len l <? 2) eqn:Hc; [discriminate|].
  intros H; injection H as Hv Hr. exists (takeN 2 l). split; [|split].
  - rewrite <- Hr. symmetry. apply takeN_dropN.
  - apply len_takeN. lia.
  - auto.
Qed.

Lemma get_bytes_inv n l m r : get_bytes n l = Ok (m, r) -> l = m ++ r /\ len m = n.
Proof.
  unfold get_bytes. destruct (len l <? n) eqn:Hc; [discriminate|].
  intros H; injection H as Hm Hr. subst m r. split.
  - symmetry. apply takeN_dropN.
  - apply len_takeN. lia.
Qed.

Lemma get_bwvl_inv l m r :
  get_bytes_with_varint_length l = Ok (m, r) ->
  exists pre, l = pre ++ m ++ r /\ pre <> [] /\ len m <= VARINT_MAX /\ varint_len (len m) <= len pre.
Proof.
  unfold get_bytes_with_varint_length. intros H.
  apply bind_ok_inv in H. destruct H as ([n l1] & H1 & H2).
  apply get_varint_inv in H1. destruct H1 as (pre & E1 & Hne & Hn & Hl).
  apply get_bytes_inv in H2. destruct H2 as [E2 Hm]. subst n.
  exists pre. rewrite E1, E2. auto.
Qed.

(* forward rewriting rules for the readers on concatenations *)
Lemma get_u8_app b rest : get_u8 (b :: rest) = Ok (b, rest).
Proof. reflexivity. Qed.

Lemma get_u16_be v rest : v < 65536 -> get_u16 (be_bytes 2 v ++ rest) = Ok (v, rest).
Proof.
  intros Hv. unfold get_u16. rewrite len_app, len_be_bytes.
  destruct (N.of_nat 2 + len rest <? 2) eqn:Hc; [lia|].
  rewrite takeN_app_len by apply len_be_bytes.
  rewrite dropN_app_len by apply len_be_bytes.
  rewrite be_val_be_bytes. change (256 ^ N.of_nat 2) with 65536.
  rewrite N.mod_small by exact Hv. reflexivity.
Qed.

Lemma get_bytes_app m rest : get_bytes (len m) (m ++ rest) = Ok (m, rest).
Proof.
  unfold get_bytes. rewrite len_app.
  destruct (len m + len rest <? len m) eqn:Hc; [lia|].
  rewrite takeN_app_len, dropN_app_len by reflexivity. reflexivity.
Qed.

Lemma get_bwvl_app m rest :
  len m <= VARINT_MAX ->
  get_bytes_with_varint_length (varint_bytes (len m) ++ m ++ rest) = Ok (m, rest).
Proof.
  intros H. unfold get_bytes_with_varint_length.
  rewrite varint_roundtrip by exact H. cbn [bind]. apply get_bytes_app.
Qed.

(* ------------------------------------------------------------------ *)
(* writer                                                              *)
(* ------------------------------------------------------------------ *)
Definition w_push (w : writer) (b : list N) : writer :=
  {| w_out := w_out w ++ b; w_cap := w_cap w - len b |}.

(* characterisation of put_bytes *)
Theorem put_bytes_spec : forall w b,
  put_bytes w b = if len b <=? w_cap w then Ok (w_push w b) else Err BufferTooShort.
Proof.
  intros w b. unfold put_bytes, w_push.
  destruct (w_cap w <? len b) eqn:H1; destruct (len b <=? w_cap w) eqn:H2; try reflexivity; lia.
Qed.

Theorem put_bytes_ok_iff : forall w b w',
  put_bytes w b = Ok w' <->
  len b <= w_cap w /\ w_out w' = w_out w ++ b /\ w_cap w' = w_cap w - len b.
Proof.
  intros w b w'. rewrite put_bytes_spec.
  destruct (len b <=? w_cap w) eqn:H; split.
  - intros E; injection E as <-. cbn [w_push w_out w_cap]. repeat split; lia.
  - intros (_ & Ho & Hc). destruct w' as [o c]. cbn [w_out w_cap] in Ho, Hc. subst o c. reflexivity.
  - discriminate.
  - intros (Hl & _). lia.
Qed.

Theorem put_bytes_err_iff : forall w b e,
  put_bytes w b = Err e <-> e = BufferTooShort /\ w_cap w < len b.
Proof.
  intros w b e. rewrite put_bytes_spec.
  destruct (len b <=? w_cap w) eqn:H; split.
  - discriminate.
  - intros [_ Hl]. lia.
  - intros E; injection E as <-. split; [reflexivity | lia].
  - intros [-> _]. reflexivity.
Qed.

Theorem put_bytes_no_panic : forall w b, is_panic (put_bytes w b) = false.
Proof. intros w b. rewrite put_bytes_spec. destruct (len b <=? w_cap w); reflexivity. Qed.

Lemma put_bytes_nil w : put_bytes w [] = Ok w.
Proof.
  rewrite put_bytes_spec, len_nil. destruct (0 <=? w_cap w) eqn:H; [|lia].
  destruct w as [o c]. unfold w_push. cbn [w_out w_cap]. rewrite app_nil_r, len_nil, N.sub_0_r.
  reflexivity.
Qed.

(* two consecutive writes are one write of the concatenation *)
Lemma put_bytes_app w a b :
  bind (put_bytes w a) (fun w1 => put_bytes w1 b) = put_bytes w (a ++ b).
Proof.
  rewrite (put_bytes_spec w a), (put_bytes_spec w (a ++ b)), len_app.
  destruct (len a <=? w_cap w) eqn:H1; cbn [bind].
  - rewrite put_bytes_spec. unfold w_push. cbn [w_out w_cap].
    destruct (len b <=? w_cap w - len a) eqn:H2;
      destruct (len a + len b <=? w_cap w) eqn:H3; try lia; [|reflexivity].
    rewrite app_assoc, len_app. replace (w_cap w - len a - len b) with (w_cap w - (len a + len b)) by lia.
    reflexivity.
  - destruct (len a + len b <=? w_cap w) eqn:H3; [lia | reflexivity].
Qed.

(* same, with an arbitrary continuation that is itself a write *)
Lemma put_bytes_then w a (f : writer -> sres writer) b :
  (forall w1, f w1 = put_bytes w1 b) ->
  bind (put_bytes w a) f = put_bytes w (a ++ b).
Proof.
  intros H. rewrite (bind_ext _ f (fun w1 => put_bytes w1 b) H). apply put_bytes_app.
Qed.

Theorem put_varint_ok : forall w v, v <= VARINT_MAX -> put_varint w v = put_bytes w (varint_bytes v).
Proof.
  intros w v Hv. unfold put_varint. destruct (VARINT_MAX <? v) eqn:H; [lia | reflexivity].
Qed.

Lemma put_varint_panic w v : VARINT_MAX < v -> put_varint w v = Panic SITE_VARINT_TOO_LARGE.
Proof.
  intros Hv. unfold put_varint. destruct (VARINT_MAX <? v) eqn:H; [reflexivity | lia].
Qed.

Lemma put_u8_ok w v : v < 256 -> put_u8 w v = put_bytes w [v].
Proof. intros Hv. unfold put_u8. rewrite N.mod_small by exact Hv. reflexivity. Qed.

Lemma put_u16_ok w v : v < 65536 -> put_u16 w v = put_bytes w (be_bytes 2 v).
Proof. intros Hv. unfold put_u16. rewrite N.mod_small by exact Hv. reflexivity. Qed.

Print Assumptions varint_roundtrip.
Print Assumptions varint_bytes_len.
Print Assumptions varint_bytes_ok.
Print Assumptions get_varint_sound.
Print Assumptions get_varint_no_panic.
Print Assumptions get_u8_no_panic.
Print Assumptions get_u16_no_panic.
Print Assumptions get_bytes_no_panic.
Print Assumptions get_bytes_with_varint_length_no_panic.
Print Assumptions put_varint_ok.
Print Assumptions put_bytes_spec.
Print Assumptions put_bytes_ok_iff.
Print Assumptions put_bytes_err_iff.
Print Assumptions put_bytes_no_panic.
Print Assumptions varint_len_le8.
Print Assumptions varint_len_ge1.
