(* NAuthP.v - authenticity of the renetcode server model (Netcode/NServer.v):
   what does not authenticate changes nothing, replays change nothing, payloads and connections only
   surface from the session they belong to, connections trace back to a validated request, requests
   are rejected for the stated causes, connect tokens are bound to an address (as long as the table
   remembers them), every valid request is answered with a challenge.
   The cipher is used only through Proofs/AeadP.v. *)
From RenetV Require Import Base Consts Aead NPacket Token NServer.
From RenetV Require Import Spec.NetSpec.
From RenetV Require Import Proofs.AeadP Proofs.ReplayP Proofs.NPacketP Proofs.TokenP.
From RenetV Require Import Proofs.NSlotsP Proofs.NCodecP Proofs.NServerP.
Require Import Lia ZifyBool ZifyN ZifyNat.
Arguments N.add : simpl never.
Arguments N.sub : simpl never.
Arguments N.mul : simpl never.
Arguments N.div : simpl never.
Arguments N.modulo : simpl never.
Arguments N.pow : simpl never.
Arguments N.eqb : simpl never.
Arguments N.ltb : simpl never.
Arguments N.leb : simpl never.
Open Scope N_scope.

(* ------------------------------------------------------------------ *)
(* small facts about states                                            *)
(* ------------------------------------------------------------------ *)
Lemma set_clients_id s : set_clients s (ns_clients s) = s.
Proof. destruct s; reflexivity. Qed.

Lemma set_pending_id s : set_pending s (ns_pending s) = s.
Proof. destruct s; reflexivity. Qed.

Lemma nc_with_replay_id c : nc_with_replay c (nc_replay c) = c.
Proof. destruct c; reflexivity. Qed.

Lemma set_slot_same f s slot c :
  find_slot_by f (ns_clients s) 0 = Some (slot, c) -> set_slot s slot (Some c) = s.
Proof.
  intros H. destruct (lookup_split _ _ _ _ H) as [l1 [l2 [E1 [_ [_ [_ E5]]]]]].
  change (set_slot s slot (Some c)) with (set_clients s (ns_clients (set_slot s slot (Some c)))).
  rewrite E5, <- E1. apply set_clients_id.
Qed.

Lemma map_id_off_key a (g : addr * nconn -> addr * nconn) (p : list (addr * nconn)) :
  ~ In a (map fst p) -> map (fun ac => if addr_eqb a (fst ac) then g ac else ac) p = p.
Proof.
  induction p as [|[a' c'] t IH]; intros Hn; cbn [map fst] in *; [reflexivity|].
  destruct (addr_eqb a a') eqn:E.
  - exfalso. apply addr_eqb_eq in E. apply Hn. left. auto.
  - rewrite IH; [reflexivity|]. intros Hin. apply Hn. right. exact Hin.
Qed.

Lemma pend_put_same a pc p : NoDup (map fst p) -> pend_find a p = Some pc -> pend_put a pc p = p.
Proof.
  intros Hd Hf. unfold pend_put. rewrite Hf.
  induction p as [|[a' c'] t IH]; [reflexivity|].
  cbn [map fst] in *. inversion Hd as [|x l Hni Hd']; subst.
  cbn [pend_find] in Hf. destruct (addr_eqb a a') eqn:E.
  - injection Hf as ->. apply addr_eqb_eq in E. subst a'.
    rewrite (map_id_off_key a (fun ac => (fst ac, pc)) t Hni). reflexivity.
  - rewrite (IH Hd' Hf). reflexivity.
Qed.

Lemma table_inv_pending_nodup s : table_inv s -> NoDup (map fst (ns_pending s)).
Proof. intros T. apply table_inv_tbl in T. apply T. Qed.

(* the pending entry of a, with its replay window as it is, put back: nothing changes *)
Lemma pending_put_back s a pc :
  table_inv s -> pend_find a (ns_pending s) = Some pc ->
  set_pending s (pend_put a (nc_with_replay pc (nc_replay pc)) (ns_pending s)) = s.
Proof.
  intros T Hf. rewrite nc_with_replay_id, (pend_put_same _ _ _ (table_inv_pending_nodup _ T) Hf).
  apply set_pending_id.
Qed.

Lemma table_inv_connected_wf s f slot c :
  table_inv s -> find_slot_by f (ns_clients s) 0 = Some (slot, c) -> rp_wf (nc_replay c).
Proof.
  intros T H. apply find_slot_by_In in H. destruct H as [Hin _].
  destruct T as (_ & _ & _ & _ & T5 & _). rewrite Forall_forall in T5. apply (T5 _ Hin).
Qed.

Lemma table_inv_pending_wf s a pc :
  table_inv s -> pend_find a (ns_pending s) = Some pc -> nc_addr pc = a /\ rp_wf (nc_replay pc).
Proof.
  intros T H. apply pend_find_In in H. apply table_inv_tbl in T. apply (tbl_pending_wf _ _ _ _ T H).
Qed.

Lemma find_by_addr_slot_update s a slot c c' :
  find_by_addr s a = Some (slot, c) -> nc_addr c' = nc_addr c ->
  find_by_addr (set_slot s slot (Some c')) a = Some (slot, c').
Proof.
  intros H Ea. destruct (lookup_split _ _ _ _ H) as [l1 [l2 [E1 [E2 [E3 [E4 E5]]]]]].
  unfold find_by_addr. rewrite E5.
  replace slot with (0 + len l1) by (unfold len; lia).
  apply find_slot_by_mid; [rewrite Ea; exact E3 | exact E4].
Qed.

(* ------------------------------------------------------------------ *)
(* tag_verifies is dgram_auth                                          *)
(* ------------------------------------------------------------------ *)
Lemma tag_verifies_iff key proto buf : tag_verifies key proto buf <-> dgram_auth key proto buf.
Proof. destruct buf as [|prefix rest]; [tauto|]. cbn [tag_verifies dgram_auth]. unfold header_ok. tauto. Qed.

Lemma tag_verifies_type key proto buf : tag_verifies key proto buf -> dgram_type buf <> 0.
Proof. destruct buf as [|prefix rest]; [tauto|]. cbn [tag_verifies dgram_type]. lia. Qed.

Lemma opens_sealed_tag key proto buf : opens_sealed key proto buf -> tag_verifies key proto buf.
Proof. intros H. apply tag_verifies_iff. apply opens_sealed_auth. exact H. Qed.

(* the Spec's authentic_for is stronger than tag_authentic_for *)
Lemma authentic_for_tag s a buf : authentic_for s a buf -> tag_authentic_for s a buf.
Proof.
  intros [[slot [c [H1 H2]]]|[H0 [pc [H1 H2]]]]; [left | right].
  - exists slot, c. split; [exact H1 | apply opens_sealed_tag; exact H2].
  - split; [exact H0|]. exists pc. split; [exact H1 | apply opens_sealed_tag; exact H2].
Qed.

(* ------------------------------------------------------------------ *)
(* decode on connection requests (type 0): no key, no window           *)
(* ------------------------------------------------------------------ *)
Lemma decode_type0 buf proto key rp :
  dgram_type buf = 0 -> decode buf proto key rp = (rp, snd (decode buf proto None None)).
Proof.
  intros Hty. destruct buf as [|prefix rest]; [rewrite !decode_nil; reflexivity|].
  cbn [dgram_type] in Hty. unfold decode.
  destruct (len (prefix :: rest) <? 2 + NC_MAC_BYTES); [reflexivity|].
  destruct (6 <? prefix mod 16); [reflexivity|].
  rewrite Hty. change (0 =? 0) with true. reflexivity.
Qed.

Lemma decode_ok_request_or_sealed buf proto rp q p :
  snd (decode buf proto None rp) = Ok (q, p) ->
  dgram_type buf = 0 /\ q = 0 /\ exists v pr ex xn data, p = PRequest v pr ex xn data.
Proof.
  intros H. destruct (N.eq_dec (dgram_type buf) 0) as [E|E].
  - destruct (decode_request_form _ _ _ _ _ _ H E) as [-> [Hid _]].
    split; [exact E|]. split; [reflexivity|]. apply packet_id_request. exact Hid.
  - destruct (decode_no_key buf proto rp E) as [_ [e He]]. congruence.
Qed.

(* what decode does, under a key and a window, with a datagram whose tag does not verify *)
Lemma decode_unverified buf proto k r0 :
  ~ tag_verifies k proto buf ->
  fst (decode buf proto (Some k) (Some r0)) = Some r0 /\
  ((exists e, snd (decode buf proto (Some k) (Some r0)) = Err e) \/
   (dgram_type buf = 0 /\ exists v pr ex xn data,
      snd (decode buf proto (Some k) (Some r0)) = Ok (0, PRequest v pr ex xn data) /\
      snd (decode buf proto None None) = Ok (0, PRequest v pr ex xn data))).
Proof.
  intros Hn. destruct (N.eq_dec (dgram_type buf) 0) as [E|E].
  - rewrite (decode_type0 _ _ _ _ E). cbn [fst snd]. split; [reflexivity|].
    destruct (snd (decode buf proto None None)) as [[q p]|e|site] eqn:Ed.
    + right. split; [exact E|]. destruct (decode_ok_request_or_sealed _ _ _ _ _ Ed) as [_ [-> [v [pr [ex [xn [data ->]]]]]]].
      exists v, pr, ex, xn, data. auto.
    + left. eauto.
    + exfalso. apply (NCodecP.decode_no_panic buf proto None None site). exact Ed.
  - destruct (decode_unopened_keeps_replay buf proto (Some k) (Some r0)) as [H1 H2]; [|exact E|].
    + intros k' Hk. injection Hk as <-. intros Ha. apply Hn. apply tag_verifies_iff. exact Ha.
    + split; [exact H1 | left; exact H2].
Qed.

(* ------------------------------------------------------------------ *)
(* handle_request: the checks, then the body                           *)
(* ------------------------------------------------------------------ *)
Definition hr_body (s : nserver) (a : addr) (expire : N) (data : list N) (t : private_token) : nserver * nres sresult :=
  match find_by_addr s a, find_by_id s (pt_client_id t) with
  | None, None =>
      let is_pending := match pend_find a (ns_pending s) with Some _ => true | None => false end in
      if negb is_pending && (NC_MAX_CLIENTS * NC_MAX_PENDING_FACTOR <=? len (ns_pending s)) then (s, Ok SRNone) else
      let mac := dropN (NC_PRIVATE_BYTES - NC_MAC_BYTES) data in
      let (es, allowed) := find_or_add_entry (ns_entries s) {| te_time := ns_now s; te_addr := a; te_mac := mac |} in
      let s1 := set_entries s es in
      if negb allowed then (s1, Ok SRNone) else
      if ns_max s1 <=? connected_count s1 then
        let s2 := set_pending s1 (pend_remove a (ns_pending s1)) in
        match encode OUT_CAP PDenied (ns_protocol s2) (Some (ns_global_seq s2, pt_s2c t)) with
        | Ok out => (set_seqs s2 (ns_global_seq s2 + 1) (ns_chal_seq s2), Ok (SRPacketToSend a out))
        | Err e => (s2, Err e)
        | Panic p => (s2, Panic p)
        end
      else
        let cseq := ns_chal_seq s1 + 1 in
        let chal := generate_challenge (pt_client_id t) (pt_user t) cseq (ns_chal_key s1) in
        let s2 := set_seqs s1 (ns_global_seq s1) cseq in
        match encode OUT_CAP chal (ns_protocol s2) (Some (ns_global_seq s2, pt_s2c t)) with
        | Ok out =>
            let s3 := set_seqs s2 (ns_global_seq s2 + 1) cseq in
            (set_pending s3 (pend_put a (pending_entry s a t expire cseq) (ns_pending s3)), Ok (SRPacketToSend a out))
        | Err e => (s2, Err e)
        | Panic p => (s2, Panic p)
        end
  | _, _ => (s, Ok SRNone)
  end.

Lemma handle_request_cases s a v pr ex xn data :
  (exists e, handle_request s a v pr ex xn data = (s, Err e) /\ forall t, ~ request_checks s v pr ex xn data t) \/
  (exists t, request_checks s v pr ex xn data t /\ handle_request s a v pr ex xn data = hr_body s a ex data t).
Proof.
  unfold handle_request, request_checks.
  destruct (bytes_eqb v NC_VERSION_INFO) eqn:Ev; cbn [negb].
  2:{ left. eexists. split; [reflexivity|]. intros t (Hv & _). apply list_eqb_N_eq in Hv. congruence. }
  apply list_eqb_N_eq in Ev.
  destruct (pr =? ns_protocol s) eqn:Ep; cbn [negb].
  2:{ left. eexists. split; [reflexivity|]. intros t (_ & Hp & _). lia. }
  destruct (ex <=? as_secs (ns_now s)) eqn:Ee.
  { left. eexists. split; [reflexivity|]. intros t (_ & _ & He & _). lia. }
  destruct (private_decode data (ns_protocol s) ex xn (ns_connect_key s)) as [t|e|site] eqn:Ept.
  2:{ left. eexists. split; [reflexivity|]. intros t (_ & _ & _ & Hd & _). discriminate. }
  2:{ exfalso. apply (NCodecP.private_decode_no_panic _ _ _ _ _ _ Ept). }
  destruct (ns_secure s && negb (in_host_list s t)) eqn:Eh.
  { left. eexists. split; [reflexivity|]. intros t' (_ & _ & _ & Hd & Hh). injection Hd as <-.
    apply andb_true_iff in Eh. destruct Eh as [E1 E2]. rewrite (Hh E1) in E2. discriminate. }
  right. exists t. split.
  - repeat split; auto; lia.
  - unfold hr_body, pending_entry, fresh_conn, refresh_conn. reflexivity.
Qed.

Lemma request_validates_iff s buf t ex :
  request_validates s buf t ex <->
  exists v pr xn data, snd (decode buf (ns_protocol s) None None) = Ok (0, PRequest v pr ex xn data) /\
                       request_checks s v pr ex xn data t.
Proof.
  unfold request_validates, request_checks. split; intros (v & pr & xn & data & H); exists v, pr, xn, data; tauto.
Qed.

(* ------------------------------------------------------------------ *)
(* process_packet_internal, branch by branch, as equations             *)
(* ------------------------------------------------------------------ *)
Definition conn_step (s : nserver) (a : addr) (slot : N) (c : nconn) (rp : option replay) (dr : nres (N * npacket))
  : nserver * nres sresult :=
  let c1 := nc_with_replay c (opt_replay rp (nc_replay c)) in
  let s1 := set_slot s slot (Some c1) in
  match dr with
  | Err e => (s1, Err e)
  | Panic p => (s1, Panic p)
  | Ok (_, pkt) =>
      match pkt with
      | PDisconnect => (set_slot s1 slot None, Ok (SRDisconnected (nc_id c1) a None))
      | PPayload p => (set_slot s1 slot (Some (nc_received c1 (ns_now s1))), Ok (SRPayload (nc_id c1) p))
      | PKeepAlive _ _ => (set_slot s1 slot (Some (nc_received c1 (ns_now s1))), Ok SRNone)
      | _ => (s1, Ok SRNone)
      end
  end.

Definition resp_step (s1 : nserver) (a : addr) (pc1 : nconn) (tseq : N) (tdata : list N) : nserver * nres sresult :=
  match challenge_decode tdata tseq (ns_chal_key s1) with
  | Err e => (s1, Err e)
  | Panic p => (s1, Panic p)
  | Ok (cid, cuser) =>
      if tseq <? nc_chal_floor pc1 then (s1, Ok SRNone) else
      if negb (cid =? nc_id pc1) || negb (bytes_eqb cuser (nc_user pc1)) then (s1, Ok SRNone) else
      let s2 := set_pending s1 (pend_remove a (ns_pending s1)) in
      match find_by_id s2 cid with
      | Some _ => (s2, Ok SRNone)
      | None =>
          match first_free (ns_clients s2) 0 with
          | None =>
              match encode OUT_CAP PDenied (ns_protocol s2) (Some (ns_global_seq s2, nc_send_key pc1)) with
              | Ok out => (set_seqs s2 (ns_global_seq s2 + 1) (ns_chal_seq s2), Ok (SRPacketToSend a out))
              | Err e => (s2, Err e)
              | Panic p => (s2, Panic p)
              end
          | Some idx =>
              match encode OUT_CAP (PKeepAlive idx (ns_max s2)) (ns_protocol s2) (Some (nc_seq pc1, nc_send_key pc1)) with
              | Ok out =>
                  (set_slot s2 idx (Some (promote pc1 cuser (ns_now s2))), Ok (SRConnected (nc_id pc1) a cuser out))
              | Err e => (s2, Err e)
              | Panic p => (s2, Panic p)
              end
          end
      end
  end.

Definition pend_step (s : nserver) (a : addr) (pc : nconn) (rp : option replay) (dr : nres (N * npacket))
  : nserver * nres sresult :=
  let pc1 := nc_with_replay pc (opt_replay rp (nc_replay pc)) in
  let s1 := set_pending s (pend_put a pc1 (ns_pending s)) in
  match dr with
  | Err e => (s1, Err e)
  | Panic p => (s1, Panic p)
  | Ok (_, pkt) =>
      match pkt with
      | PRequest v protocol expire xn data => handle_request s1 a v protocol expire xn data
      | PResponse tseq tdata => resp_step s1 a pc1 tseq tdata
      | _ => (s1, Ok SRNone)
      end
  end.

Definition unknown_step (s : nserver) (a : addr) (dr : nres (N * npacket)) : nserver * nres sresult :=
  match dr with
  | Err e => (s, Err e)
  | Panic p => (s, Panic p)
  | Ok (_, PRequest v protocol expire xn data) => handle_request s a v protocol expire xn data
  | Ok _ => (s, Panic SITE_N_UNREACHABLE)
  end.

Lemma ppi_short s a buf :
  len buf < 2 + NC_MAC_BYTES -> process_packet_internal s a buf = (s, Err EPacketTooSmall).
Proof.
  intros H. unfold process_packet_internal.
  destruct (len buf <? 2 + NC_MAC_BYTES) eqn:E; [reflexivity | lia].
Qed.

Lemma ppi_conn s a buf slot c :
  2 + NC_MAC_BYTES <= len buf -> find_by_addr s a = Some (slot, c) ->
  process_packet_internal s a buf =
  conn_step s a slot c (fst (decode buf (ns_protocol s) (Some (nc_recv_key c)) (Some (nc_replay c))))
                       (snd (decode buf (ns_protocol s) (Some (nc_recv_key c)) (Some (nc_replay c)))).
Proof.
  intros Hl Ea. unfold process_packet_internal.
  destruct (len buf <? 2 + NC_MAC_BYTES) eqn:E; [lia|]. rewrite Ea.
  destruct (decode buf (ns_protocol s) (Some (nc_recv_key c)) (Some (nc_replay c))) as [rp dr]. reflexivity.
Qed.

Lemma ppi_pend s a buf pc :
  2 + NC_MAC_BYTES <= len buf -> find_by_addr s a = None -> pend_find a (ns_pending s) = Some pc ->
  process_packet_internal s a buf =
  pend_step s a pc (fst (decode buf (ns_protocol s) (Some (nc_recv_key pc)) (Some (nc_replay pc))))
                   (snd (decode buf (ns_protocol s) (Some (nc_recv_key pc)) (Some (nc_replay pc)))).
Proof.
  intros Hl Ea Ep. unfold process_packet_internal.
  destruct (len buf <? 2 + NC_MAC_BYTES) eqn:E; [lia|]. rewrite Ea, Ep.
  destruct (decode buf (ns_protocol s) (Some (nc_recv_key pc)) (Some (nc_replay pc))) as [rp dr]. reflexivity.
Qed.

Lemma ppi_unknown s a buf :
  2 + NC_MAC_BYTES <= len buf -> find_by_addr s a = None -> pend_find a (ns_pending s) = None ->
  process_packet_internal s a buf = unknown_step s a (snd (decode buf (ns_protocol s) None None)).
Proof.
  intros Hl Ea Ep. unfold process_packet_internal.
  destruct (len buf <? 2 + NC_MAC_BYTES) eqn:E; [lia|]. rewrite Ea, Ep.
  destruct (decode buf (ns_protocol s) None None) as [rp dr]. cbn [snd].
  destruct dr as [[q pkt]|e|site]; [destruct pkt|..]; reflexivity.
Qed.

(* a call that ends (s, r0) with r0 silent is a no-op of process_packet *)
Definition quiet (s : nserver) (x : nserver * nres sresult) : Prop :=
  fst x = s /\ (snd x = Ok SRNone \/ exists e, snd x = Err e).

Lemma quiet_noop s a buf s' r :
  quiet s (process_packet_internal s a buf) -> process_packet s a buf = Ok (s', r) -> s' = s /\ r = SRNone.
Proof.
  unfold process_packet, quiet. destruct (process_packet_internal s a buf) as [s1 r0]. cbn [fst snd].
  intros [-> [-> | [e ->]]] H; injection H as <- <-; auto.
Qed.

Lemma quiet_ok s : quiet s (s, Ok SRNone).
Proof. split; [reflexivity | left; reflexivity]. Qed.
Lemma quiet_err s e : quiet s (s, Err e).
Proof. split; [reflexivity | right; eexists; reflexivity]. Qed.

(* ------------------------------------------------------------------ *)
(* 1. what does not authenticate changes nothing                       *)
(* ------------------------------------------------------------------ *)
Lemma handle_request_unvalidated s a buf v pr ex xn data :
  snd (decode buf (ns_protocol s) None None) = Ok (0, PRequest v pr ex xn data) ->
  (forall t ex', ~ request_validates s buf t ex') ->
  quiet s (handle_request s a v pr ex xn data).
Proof.
  intros Hd Hn. destruct (handle_request_cases s a v pr ex xn data) as [[e [-> _]]|[t [Hc _]]].
  - apply quiet_err.
  - exfalso. apply (Hn t ex). apply request_validates_iff. exists v, pr, xn, data. auto.
Qed.

Lemma ppi_inauthentic_quiet s a buf :
  table_inv s -> ~ tag_authentic_for s a buf -> (forall t ex, ~ request_validates s buf t ex) ->
  quiet s (process_packet_internal s a buf).
Proof.
  intros T Hna Hnv.
  destruct (N.lt_ge_cases (len buf) (2 + NC_MAC_BYTES)) as [Hl|Hl].
  { rewrite (ppi_short _ _ _ Hl). apply quiet_err. }
  destruct (find_by_addr s a) as [[slot c]|] eqn:Ea.
  { (* connected *)
    rewrite (ppi_conn _ _ _ _ _ Hl Ea).
    assert (Hk : ~ tag_verifies (nc_recv_key c) (ns_protocol s) buf).
    { intros Hv. apply Hna. left. exists slot, c. auto. }
    destruct (decode_unverified buf (ns_protocol s) (nc_recv_key c) (nc_replay c) Hk) as [E1 E2].
    rewrite E1. unfold conn_step. cbn [opt_replay]. rewrite nc_with_replay_id, (set_slot_same _ _ _ _ Ea).
    destruct E2 as [[e ->]|[_ [v [pr [ex [xn [data [-> _]]]]]]]]; [apply quiet_err | apply quiet_ok]. }
  destruct (pend_find a (ns_pending s)) as [pc|] eqn:Ep.
  { (* pending *)
    rewrite (ppi_pend _ _ _ _ Hl Ea Ep).
    assert (Hk : ~ tag_verifies (nc_recv_key pc) (ns_protocol s) buf).
    { intros Hv. apply Hna. right. split; [exact Ea|]. exists pc. auto. }
    destruct (decode_unverified buf (ns_protocol s) (nc_recv_key pc) (nc_replay pc) Hk) as [E1 E2].
    rewrite E1. unfold pend_step. cbn [opt_replay]. rewrite (pending_put_back _ _ _ T Ep).
    destruct E2 as [[e ->]|[_ [v [pr [ex [xn [data [-> Hd]]]]]]]]; [apply quiet_err|].
    apply (handle_request_unvalidated _ _ _ _ _ _ _ _ Hd Hnv). }
  (* unknown address *)
  rewrite (ppi_unknown _ _ _ Hl Ea Ep).
  destruct (snd (decode buf (ns_protocol s) None None)) as [[q p]|e|site] eqn:Ed.
  - destruct (decode_ok_request_or_sealed _ _ _ _ _ Ed) as [_ [-> [v [pr [ex [xn [data ->]]]]]]].
    cbn [unknown_step]. apply (handle_request_unvalidated _ _ _ _ _ _ _ _ Ed Hnv).
  - apply quiet_err.
  - exfalso. apply (NCodecP.decode_no_panic _ _ _ _ _ Ed).
Qed.

Theorem inauthentic_is_noop s a buf s' r :
  table_inv s -> process_packet s a buf = Ok (s', r) ->
  ~ tag_authentic_for s a buf -> (forall t ex, ~ request_validates s buf t ex) ->
  s' = s /\ r = SRNone.
Proof.
  intros T H Hna Hnv. apply (quiet_noop _ _ _ _ _ (ppi_inauthentic_quiet _ _ _ T Hna Hnv) H).
Qed.

(* a connection-request typed datagram is never authenticated by decode *)
Lemma request_typed_not_authentic s a buf : dgram_type buf = 0 -> ~ tag_authentic_for s a buf.
Proof.
  intros Hty [[slot [c [_ Hv]]]|[_ [pc [_ Hv]]]]; apply tag_verifies_type in Hv; congruence.
Qed.

Theorem unvalidated_request_is_noop s a buf s' r :
  table_inv s -> dgram_type buf = 0 -> (forall t ex, ~ request_validates s buf t ex) ->
  process_packet s a buf = Ok (s', r) -> s' = s /\ r = SRNone.
Proof.
  intros T Hty Hnv H. apply (inauthentic_is_noop _ _ _ _ _ T H (request_typed_not_authentic _ _ _ Hty) Hnv).
Qed.

(* from a connected address a connection request is ignored outright, validated or not *)
Theorem request_from_connected_ignored s a buf slot c s' r :
  find_by_addr s a = Some (slot, c) -> dgram_type buf = 0 ->
  process_packet s a buf = Ok (s', r) -> s' = s /\ r = SRNone.
Proof.
  intros Ea Hty H. apply (quiet_noop _ _ _ _ _) in H; [exact H|].
  destruct (N.lt_ge_cases (len buf) (2 + NC_MAC_BYTES)) as [Hl|Hl].
  { rewrite (ppi_short _ _ _ Hl). apply quiet_err. }
  rewrite (ppi_conn _ _ _ _ _ Hl Ea), (decode_type0 _ _ _ _ Hty). cbn [fst snd].
  unfold conn_step. cbn [opt_replay]. rewrite nc_with_replay_id, (set_slot_same _ _ _ _ Ea).
  destruct (snd (decode buf (ns_protocol s) None None)) as [[q p]|e|site] eqn:Ed.
  - destruct (decode_ok_request_or_sealed _ _ _ _ _ Ed) as [_ [_ [v [pr [ex [xn [data ->]]]]]]]. apply quiet_ok.
  - apply quiet_err.
  - exfalso. apply (NCodecP.decode_no_panic _ _ _ _ _ Ed).
Qed.

(* ------------------------------------------------------------------ *)
(* 1'. the statement with the Spec's authentic_for (opens_sealed) is   *)
(*     FALSE: a tag that verifies moves the window before parsing      *)
(* ------------------------------------------------------------------ *)
Definition ce_conn (k : list N) (a : addr) : nconn :=
  {| nc_confirmed := true; nc_id := 1; nc_send_key := k; nc_recv_key := k; nc_user := []; nc_addr := a;
     nc_last_recv := 0; nc_last_send := 0; nc_timeout := 15%Z; nc_seq := 0; nc_expire := 100;
     nc_replay := replay_new; nc_chal_floor := 1 |}.
Definition ce_state (k : list N) (a : addr) (proto : N) : nserver :=
  {| ns_clients := [Some (ce_conn k a)]; ns_pending := []; ns_entries := []; ns_protocol := proto;
     ns_connect_key := []; ns_max := 1; ns_chal_seq := 1; ns_chal_key := []; ns_addrs := [];
     ns_now := 0; ns_global_seq := NC_GLOBAL_SEQUENCE_INIT; ns_secure := false |}.

Lemma ce_state_inv k a proto : table_inv (ce_state k a proto).
Proof.
  unfold table_inv, ce_state, connected. nsimpl. cbn [some_list map fst distinct_by In ce_conn nc_id nc_addr].
  repeat split; try tauto; repeat constructor.
Qed.

Lemma ce_state_find k a proto : find_by_addr (ce_state k a proto) a = Some (0, ce_conn k a).
Proof. unfold find_by_addr. cbn [ce_state ns_clients find_slot_by ce_conn nc_addr]. rewrite addr_eqb_refl. reflexivity. Qed.

(* a keep-alive with an empty plaintext sealed under the session key: it does not open (so it is not
   authentic_for), it is no request, the call returns nothing - and the replay window has moved *)
Theorem inauthentic_opens_refuted k a proto :
  let s := ce_state k a proto in
  let buf := [20; 5] ++ aead_seal k (nonce_of 5) (packet_aad 20 proto) [] in
  table_inv s /\ ~ authentic_for s a buf /\ (forall t ex, ~ request_validates s buf t ex) /\
  exists s', process_packet s a buf = Ok (s', SRNone) /\ s' <> s /\
             exists c', find_by_addr s' a = Some (0, c') /\ already_received (nc_replay c') 5 = true.
Proof.
  intros s buf. destruct (decode_advances_before_parsing k proto) as [D1 D2]. cbv zeta in D1, D2. fold buf in D1, D2.
  pose proof (ce_state_find k a proto) as Ea. fold s in Ea.
  split; [apply ce_state_inv|]. split; [|split].
  - intros [[slot [c [H1 H2]]]|[H0 _]]; [|congruence].
    rewrite Ea in H1. injection H1 as <- <-. apply D2. exact H2.
  - intros t ex (v & pr & xn & data & Hd & _).
    destruct (decode_no_key buf (ns_protocol s) None) as [_ [e He]]; [|congruence].
    unfold buf. cbn [app dgram_type]. change (20 mod 16) with 4. lia.
  - assert (Hl : 2 + NC_MAC_BYTES <= len buf).
    { unfold buf. cbn [app]. rewrite !NSlotsP.len_cons, aead_seal_len, NSlotsP.len_nil, mac_val. lia. }
    eexists. split; [|split].
    + unfold process_packet. rewrite (ppi_conn _ _ _ _ _ Hl Ea).
      change (ns_protocol s) with proto. change (nc_recv_key (ce_conn k a)) with k.
      change (nc_replay (ce_conn k a)) with replay_new. rewrite D1. cbn [fst snd conn_step]. reflexivity.
    + intros E. apply (f_equal ns_clients) in E.
      cbn [ns_clients set_slot set_clients ce_state upd N.to_nat] in E. injection E as E. discriminate E.
    + eexists. split.
      * apply (find_by_addr_slot_update _ _ _ _ _ Ea). reflexivity.
      * cbn [nc_replay nc_with_replay opt_replay]. apply advance_then_received; [apply NCodecP.replay_new_wf | reflexivity].
Qed.

(* ------------------------------------------------------------------ *)
(* 2. replays change nothing                                           *)
(* ------------------------------------------------------------------ *)
Lemma decode_replayed buf proto key r :
  applies_replay (dgram_type buf) = true -> already_received r (dgram_seq buf) = true ->
  fst (decode buf proto (Some key) (Some r)) = Some r /\ exists e, snd (decode buf proto (Some key) (Some r)) = Err e.
Proof.
  intros Ha Hr. destruct buf as [|prefix rest]; [discriminate|].
  assert (Hty : prefix mod 16 <> 0). { cbn [dgram_type] in Ha. intros E. rewrite E in Ha. discriminate. }
  destruct (header_ok_dec prefix rest) as [Hh|Hh].
  - rewrite (decode_duplicate prefix rest proto key r Hh Ha Hr). split; [reflexivity | eexists; reflexivity].
  - apply decode_bad_header; assumption.
Qed.

Theorem replayed_is_noop s a buf slot c s' r :
  find_by_addr s a = Some (slot, c) -> applies_replay (dgram_type buf) = true ->
  already_received (nc_replay c) (dgram_seq buf) = true ->
  process_packet s a buf = Ok (s', r) -> s' = s /\ r = SRNone.
Proof.
  intros Ea Ha Hr H. apply (quiet_noop _ _ _ _ _) in H; [exact H|].
  destruct (N.lt_ge_cases (len buf) (2 + NC_MAC_BYTES)) as [Hl|Hl].
  { rewrite (ppi_short _ _ _ Hl). apply quiet_err. }
  rewrite (ppi_conn _ _ _ _ _ Hl Ea).
  destruct (decode_replayed buf (ns_protocol s) (nc_recv_key c) (nc_replay c) Ha Hr) as [-> [e ->]].
  unfold conn_step. cbn [opt_replay]. rewrite nc_with_replay_id, (set_slot_same _ _ _ _ Ea). apply quiet_err.
Qed.

(* the same for an address that is still pending (there every replay protected kind is ignored anyway) *)
Theorem replayed_is_noop_pending s a buf pc s' r :
  table_inv s -> find_by_addr s a = None -> pend_find a (ns_pending s) = Some pc ->
  applies_replay (dgram_type buf) = true -> already_received (nc_replay pc) (dgram_seq buf) = true ->
  process_packet s a buf = Ok (s', r) -> s' = s /\ r = SRNone.
Proof.
  intros T Ea Ep Ha Hr H. apply (quiet_noop _ _ _ _ _) in H; [exact H|].
  destruct (N.lt_ge_cases (len buf) (2 + NC_MAC_BYTES)) as [Hl|Hl].
  { rewrite (ppi_short _ _ _ Hl). apply quiet_err. }
  rewrite (ppi_pend _ _ _ _ Hl Ea Ep).
  destruct (decode_replayed buf (ns_protocol s) (nc_recv_key pc) (nc_replay pc) Ha Hr) as [-> [e ->]].
  unfold pend_step. cbn [opt_replay]. rewrite (pending_put_back _ _ _ T Ep). apply quiet_err.
Qed.

(* ------------------------------------------------------------------ *)
(* decode_sound with the Spec's readings of the header                 *)
(* ------------------------------------------------------------------ *)
Lemma decode_sealed_sound buf proto key rp q p :
  snd (decode buf proto (Some key) rp) = Ok (q, p) -> packet_id p <> 0 ->
  dgram_type buf = packet_id p /\ dgram_seq buf = q /\ rp_dup rp (packet_id p) q = false /\
  fst (decode buf proto (Some key) rp) = rp_after rp (packet_id p) q /\
  exists prefix seqbytes plain,
    buf = prefix :: seqbytes ++ aead_seal key (nonce_of q) (packet_aad prefix proto) plain /\
    len seqbytes = prefix / 16 /\ read_packet (packet_id p) plain = Ok p.
Proof.
  intros H Hid.
  assert (Hty : dgram_type buf <> 0).
  { intros E. destruct (decode_request_form _ _ _ _ _ _ H E) as [_ [Hp _]]. congruence. }
  destruct (decode_sound _ _ _ _ _ _ H Hty) as (prefix & sb & plain & -> & Hm & Hl & _ & Hv & Hr & Hd & Hf).
  rewrite Hm in *. cbn [dgram_type dgram_seq]. rewrite (NCodecP.takeN_app_exact sb _ _ Hl).
  repeat split; auto. exists prefix, sb, plain. auto.
Qed.

(* ------------------------------------------------------------------ *)
(* 3. payloads                                                         *)
(* ------------------------------------------------------------------ *)
Lemma hr_spec_result' s a ex xn data s' r :
  hr_spec s a ex xn data s' r -> r = Ok SRNone \/ (exists e, r = Err e) \/ exists out, r = Ok (SRPacketToSend a out).
Proof. intros H. destruct H as [es r [->|[e ->]]| |]; eauto. Qed.

Lemma payload_from_connected s a buf s' r0 id p :
  ppi_spec s a buf s' r0 -> res_of r0 = SRPayload id p -> exists slot c, find_by_addr s a = Some (slot, c).
Proof.
  intros H. destruct H; cbn [res_of]; try discriminate; try (intros _; eauto; fail).
  - destruct H2 as [->|[e ->]]; discriminate.
  - destruct (hr_spec_result' _ _ _ _ _ _ _ H3) as [->|[[e ->]|[out ->]]]; discriminate.
  - destruct (hr_spec_result' _ _ _ _ _ _ _ H2) as [->|[[e ->]|[out ->]]]; discriminate.
Qed.

Theorem payload_only_authentic s a buf s' id p :
  table_inv s -> process_packet s a buf = Ok (s', SRPayload id p) ->
  exists slot c, find_by_addr s a = Some (slot, c) /\ nc_id c = id /\ dgram_type buf = 5 /\
    already_received (nc_replay c) (dgram_seq buf) = false /\
    (exists prefix seqbytes,
       buf = prefix :: seqbytes ++ aead_seal (nc_recv_key c) (nonce_of (dgram_seq buf))
                                             (packet_aad prefix (ns_protocol s)) p /\
       len seqbytes = prefix / 16) /\
    exists c', find_by_addr s' a = Some (slot, c') /\ nc_id c' = id /\
      nc_replay c' = advance_sequence (nc_replay c) (dgram_seq buf) /\ nc_last_recv c' = ns_now s /\
      (dgram_seq buf < U64MAX -> already_received (nc_replay c') (dgram_seq buf) = true).
Proof.
  intros T H. pose proof H as H0. apply process_packet_inv in H0. destruct H0 as [r0 [Hs Hr]].
  destruct (payload_from_connected _ _ _ _ _ _ _ Hs (eq_sym Hr)) as [slot [c Ea]].
  exists slot, c. split; [exact Ea|].
  destruct (N.lt_ge_cases (len buf) (2 + NC_MAC_BYTES)) as [Hl|Hl].
  { unfold process_packet in H. rewrite (ppi_short _ _ _ Hl) in H. discriminate. }
  unfold process_packet in H. rewrite (ppi_conn _ _ _ _ _ Hl Ea) in H.
  destruct (snd (decode buf (ns_protocol s) (Some (nc_recv_key c)) (Some (nc_replay c)))) as [[q pkt]|e|site] eqn:Ed;
    unfold conn_step in H; [|discriminate|discriminate].
  destruct pkt as [v pr ex xn data| |ts td|ts td|ci mc|pl|]; try discriminate.
  injection H as <- <- <-. nsimpl.
  assert (Hid : packet_id (PPayload pl) <> 0) by (cbn [packet_id]; lia).
  destruct (decode_sealed_sound _ _ _ _ _ _ Ed Hid) as (Hty & Hq & Hdup & Hf & prefix & sb & plain & Hb & Hlen & Hrd).
  cbn [packet_id] in *. cbn [read_packet] in Hrd. injection Hrd as ->.
  cbn [rp_dup rp_after] in Hdup, Hf. change (applies_replay 5) with true in Hdup, Hf. cbn [andb] in Hdup.
  rewrite Hf. cbn [opt_replay]. rewrite set_slot_twice. rewrite Hq.
  split; [reflexivity|]. split; [exact Hty|]. split; [exact Hdup|]. split.
  { exists prefix, sb. split; [exact Hb | exact Hlen]. }
  eexists. split; [apply (find_by_addr_slot_update _ _ _ _ _ Ea); reflexivity|]. nsimpl.
  split; [reflexivity|]. split; [reflexivity|]. split; [reflexivity|].
  intros Hlt. apply advance_then_received; [|exact Hlt]. apply (table_inv_connected_wf _ _ _ _ T Ea).
Qed.

(* the same for the other event a datagram can cause at a connected address: the disconnection *)
Lemma disconnected_from_connected s a buf s' r0 id a' pl :
  ppi_spec s a buf s' r0 -> res_of r0 = SRDisconnected id a' pl -> exists slot c, find_by_addr s a = Some (slot, c).
Proof.
  intros H. destruct H; cbn [res_of]; try discriminate; try (intros _; eauto; fail).
  - destruct H2 as [->|[e ->]]; discriminate.
  - destruct (hr_spec_result' _ _ _ _ _ _ _ H3) as [->|[[e ->]|[out ->]]]; discriminate.
  - destruct (hr_spec_result' _ _ _ _ _ _ _ H2) as [->|[[e ->]|[out ->]]]; discriminate.
Qed.

Theorem disconnected_only_authentic s a buf s' id a' pl :
  table_inv s -> process_packet s a buf = Ok (s', SRDisconnected id a' pl) ->
  a' = a /\ pl = None /\
  exists slot c, find_by_addr s a = Some (slot, c) /\ nc_id c = id /\ dgram_type buf = 6 /\
    already_received (nc_replay c) (dgram_seq buf) = false /\
    (exists prefix seqbytes plain,
       buf = prefix :: seqbytes ++ aead_seal (nc_recv_key c) (nonce_of (dgram_seq buf))
                                             (packet_aad prefix (ns_protocol s)) plain /\
       len seqbytes = prefix / 16) /\
    s' = set_slot s slot None /\ find_by_id s' id = None.
Proof.
  intros T H. pose proof H as H0. apply process_packet_inv in H0. destruct H0 as [r0 [Hs Hr]].
  destruct (disconnected_from_connected _ _ _ _ _ _ _ _ Hs (eq_sym Hr)) as [slot [c Ea]].
  destruct (N.lt_ge_cases (len buf) (2 + NC_MAC_BYTES)) as [Hl|Hl].
  { unfold process_packet in H. rewrite (ppi_short _ _ _ Hl) in H. discriminate. }
  unfold process_packet in H. rewrite (ppi_conn _ _ _ _ _ Hl Ea) in H.
  destruct (snd (decode buf (ns_protocol s) (Some (nc_recv_key c)) (Some (nc_replay c)))) as [[q pkt]|e|site] eqn:Ed;
    unfold conn_step in H; [|discriminate|discriminate].
  destruct pkt as [v pr ex xn data| |ts td|ts td|ci mc|p0|]; try discriminate.
  injection H as <- <- <- <-. nsimpl.
  assert (Hid : packet_id PDisconnect <> 0) by (cbn [packet_id]; lia).
  destruct (decode_sealed_sound _ _ _ _ _ _ Ed Hid) as (Hty & Hq & Hdup & Hf & prefix & sb & plain & Hb & Hlen & _).
  cbn [packet_id] in *. cbn [rp_dup] in Hdup. change (applies_replay 6) with true in Hdup. cbn [andb] in Hdup.
  rewrite set_slot_twice, Hq.
  split; [reflexivity|]. split; [reflexivity|]. exists slot, c.
  split; [exact Ea|]. split; [reflexivity|]. split; [exact Hty|]. split; [exact Hdup|]. split.
  { exists prefix, sb, plain. auto. }
  split; [reflexivity|].
  destruct (find_by_addr_id _ _ _ _ T Ea) as [_ Hfi]. apply (find_by_id_after_clear _ _ _ _ T Hfi).
Qed.

(* ------------------------------------------------------------------ *)
(* 4. connections                                                      *)
(* ------------------------------------------------------------------ *)
Lemma resp_step_connected s1 a pc1 ts td s' id a' user p :
  resp_step s1 a pc1 ts td = (s', Ok (SRConnected id a' user p)) ->
  a' = a /\ id = nc_id pc1 /\ user = nc_user pc1 /\ nc_chal_floor pc1 <= ts /\
  challenge_decode td ts (ns_chal_key s1) = Ok (id, user) /\ find_by_id s1 id = None /\
  exists idx, first_free (ns_clients s1) 0 = Some idx /\
    encode OUT_CAP (PKeepAlive idx (ns_max s1)) (ns_protocol s1) (Some (nc_seq pc1, nc_send_key pc1)) = Ok p /\
    s' = set_slot (set_pending s1 (pend_remove a (ns_pending s1))) idx (Some (promote pc1 user (ns_now s1))).
Proof.
  unfold resp_step.
  destruct (challenge_decode td ts (ns_chal_key s1)) as [[cid cuser]|e|site] eqn:Ec; try discriminate.
  destruct (ts <? nc_chal_floor pc1) eqn:Efl; [discriminate|].
  destruct (negb (cid =? nc_id pc1) || negb (bytes_eqb cuser (nc_user pc1))) eqn:Ek; [discriminate|].
  apply orb_false_elim in Ek. destruct Ek as [Ek1 Ek2].
  apply negb_false_iff, N.eqb_eq in Ek1. apply negb_false_iff, list_eqb_N_eq in Ek2. subst cid cuser.
  cbv zeta.
  change (find_by_id (set_pending s1 (pend_remove a (ns_pending s1))) (nc_id pc1)) with (find_by_id s1 (nc_id pc1)).
  destruct (find_by_id s1 (nc_id pc1)) as [[sl0 c0]|] eqn:Ei; [discriminate|].
  nsimpl.
  destruct (first_free (ns_clients s1) 0) as [idx|] eqn:Ef.
  - destruct (encode OUT_CAP (PKeepAlive idx (ns_max s1)) _ _) as [out|e|site] eqn:Eo; try discriminate.
    intros H. injection H as <- <- <- <- <-.
    repeat split; auto; try lia. exists idx. auto.
  - destruct (encode OUT_CAP PDenied _ _) as [out|e|site]; discriminate.
Qed.

Lemma connected_from_pending s a buf s' r0 id a' user p :
  ppi_spec s a buf s' r0 -> res_of r0 = SRConnected id a' user p ->
  find_by_addr s a = None /\ exists pc, pend_find a (ns_pending s) = Some pc.
Proof.
  intros H. destruct H; cbn [res_of]; try discriminate; try (intros _; eauto; fail).
  - destruct H2 as [[e ->]|[->|[p0 ->]]]; discriminate.
  - destruct (hr_spec_result' _ _ _ _ _ _ _ H2) as [->|[[e ->]|[out ->]]]; discriminate.
Qed.

Lemma handle_request_not_connected s a v pr ex xn data s' id a' user p :
  handle_request s a v pr ex xn data <> (s', Ok (SRConnected id a' user p)).
Proof.
  intros H. apply handle_request_spec in H.
  destruct (hr_spec_result' _ _ _ _ _ _ _ H) as [E|[[e E]|[out E]]]; discriminate.
Qed.

(* a client is reported connected only by a Response datagram from an address with a pending entry,
   sealed under that entry's receive key, echoing a challenge token that opens under THIS server's
   challenge key for exactly that entry's client id and user data, with a challenge sequence not below
   the first challenge issued for the attempt *)
Theorem connected_implies_pending_match s a buf s' id a' user p :
  table_inv s -> process_packet s a buf = Ok (s', SRConnected id a' user p) ->
  a' = a /\ find_by_addr s a = None /\ find_by_id s id = None /\
  exists pc tseq tdata,
    pend_find a (ns_pending s) = Some pc /\ nc_id pc = id /\ nc_user pc = user /\ nc_addr pc = a /\
    nc_chal_floor pc <= tseq /\ challenge_decode tdata tseq (ns_chal_key s) = Ok (id, user) /\
    dgram_type buf = 3 /\
    (exists prefix seqbytes plain,
       buf = prefix :: seqbytes ++ aead_seal (nc_recv_key pc) (nonce_of (dgram_seq buf))
                                             (packet_aad prefix (ns_protocol s)) plain /\
       len seqbytes = prefix / 16 /\ read_packet 3 plain = Ok (PResponse tseq tdata)) /\
    pend_find a (ns_pending s') = None /\
    exists slot, first_free (ns_clients s) 0 = Some slot /\
                 find_by_addr s' a = Some (slot, promote pc user (ns_now s)) /\
                 find_by_id s' id = Some (slot, promote pc user (ns_now s)).
Proof.
  intros T H. pose proof H as H0. apply process_packet_inv in H0. destruct H0 as [r0 [Hs Hr]].
  destruct (connected_from_pending _ _ _ _ _ _ _ _ _ Hs (eq_sym Hr)) as [Ea [pc Ep]].
  destruct (N.lt_ge_cases (len buf) (2 + NC_MAC_BYTES)) as [Hl|Hl].
  { unfold process_packet in H. rewrite (ppi_short _ _ _ Hl) in H. discriminate. }
  unfold process_packet in H. rewrite (ppi_pend _ _ _ _ Hl Ea Ep) in H.
  destruct (snd (decode buf (ns_protocol s) (Some (nc_recv_key pc)) (Some (nc_replay pc)))) as [[q pkt]|e|site] eqn:Ed;
    unfold pend_step in H; [|discriminate|discriminate].
  destruct pkt as [v pr ex xn data| |ts td|ts td|ci mc|pl|]; try discriminate.
  { exfalso. destruct (handle_request _ a v pr ex xn data) as [s1 r1] eqn:Eh.
    destruct r1 as [x|e|site]; try discriminate. injection H as -> ->.
    apply (handle_request_not_connected _ _ _ _ _ _ _ _ _ _ _ _ Eh). }
  assert (Hid : packet_id (PResponse ts td) <> 0) by (cbn [packet_id]; lia).
  destruct (decode_sealed_sound _ _ _ _ _ _ Ed Hid) as (Hty & Hq & Hdup & Hf & prefix & sb & plain & Hb & Hlen & Hrd).
  cbn [packet_id] in *. cbn [rp_after] in Hf. change (applies_replay 3) with false in Hf. cbv iota in Hf.
  rewrite Hf in H. cbn [opt_replay] in H. rewrite (pending_put_back _ _ _ T Ep), nc_with_replay_id in H.
  destruct (resp_step s a pc ts td) as [s1 r1] eqn:Er.
  destruct r1 as [x|e|site]; try discriminate. injection H as -> ->.
  destruct (resp_step_connected _ _ _ _ _ _ _ _ _ _ Er) as (-> & -> & -> & Hfl & Hcd & Hni & idx & Hff & Henc & ->).
  destruct (table_inv_pending_wf _ _ _ T Ep) as [Hpa _].
  split; [reflexivity|]. split; [exact Ea|]. split; [exact Hni|].
  exists pc, ts, td. repeat split; auto.
  - exists prefix, sb, plain. rewrite Hq. auto.
  - nsimpl. apply pend_find_none. apply pend_remove_keys. apply (table_inv_pending_nodup _ T).
  - exists idx. split; [exact Hff|].
    assert (Hfi : find_by_id (set_slot (set_pending s (pend_remove a (ns_pending s))) idx (Some (promote pc (nc_user pc) (ns_now s)))) (nc_id pc)
                  = Some (idx, promote pc (nc_user pc) (ns_now s))).
    { apply (find_by_id_after_insert (set_pending s _) (nc_id pc) idx); [exact Hni | exact Hff | reflexivity]. }
    split; [|exact Hfi].
    assert (T' : table_inv (set_slot (set_pending s (pend_remove a (ns_pending s))) idx (Some (promote pc (nc_user pc) (ns_now s))))).
    { apply (ppi_spec_table_inv _ _ _ _ _ Hs T). }
    destruct (find_by_id_addr _ _ _ _ T' Hfi) as [_ K]. cbn [promote nc_addr] in K. rewrite Hpa in K. exact K.
Qed.

(* ------------------------------------------------------------------ *)
(* 6. why a request is rejected                                        *)
(* ------------------------------------------------------------------ *)
Lemma request_validates_type s buf t ex : request_validates s buf t ex -> dgram_type buf = 0.
Proof.
  intros (v & pr & xn & data & Hd & _). apply decode_ok_request_or_sealed in Hd. apply Hd.
Qed.

Theorem request_rejects s buf v pr ex xn data :
  snd (decode buf (ns_protocol s) None None) = Ok (0, PRequest v pr ex xn data) ->
  v <> NC_VERSION_INFO \/ pr <> ns_protocol s \/ ex <= as_secs (ns_now s) \/
  (forall t, private_decode data (ns_protocol s) ex xn (ns_connect_key s) <> Ok t) \/
  (ns_secure s = true /\ exists t, private_decode data (ns_protocol s) ex xn (ns_connect_key s) = Ok t /\
                                   in_host_list s t = false) ->
  forall t ex', ~ request_validates s buf t ex'.
Proof.
  intros Hd Hc t ex' (v' & pr' & xn' & data' & Hd' & Hv & Hp & He & Hpd & Hh).
  rewrite Hd in Hd'. injection Hd' as <- <- <- <- <-.
  destruct Hc as [Hc|[Hc|[Hc|[Hc|[Hs [t' [Hc1 Hc2]]]]]]].
  - congruence.
  - congruence.
  - lia.
  - apply (Hc t). exact Hpd.
  - rewrite Hpd in Hc1. injection Hc1 as <-. rewrite (Hh Hs) in Hc2. discriminate.
Qed.

(* ... and then nothing happens: no connection, no pending entry, no token entry, no reply *)
Corollary request_rejects_noop s a buf v pr ex xn data s' r :
  table_inv s ->
  snd (decode buf (ns_protocol s) None None) = Ok (0, PRequest v pr ex xn data) ->
  v <> NC_VERSION_INFO \/ pr <> ns_protocol s \/ ex <= as_secs (ns_now s) \/
  (forall t, private_decode data (ns_protocol s) ex xn (ns_connect_key s) <> Ok t) \/
  (ns_secure s = true /\ exists t, private_decode data (ns_protocol s) ex xn (ns_connect_key s) = Ok t /\
                                   in_host_list s t = false) ->
  process_packet s a buf = Ok (s', r) -> s' = s /\ r = SRNone.
Proof.
  intros T Hd Hc H.
  apply (unvalidated_request_is_noop s a buf s' r T); [|apply (request_rejects _ _ _ _ _ _ _ Hd Hc) | exact H].
  apply decode_ok_request_or_sealed in Hd. apply Hd.
Qed.

(* a request validates only if its private part is the seal, under the server's connect key and the
   nonce of the request, with the server's protocol id and the request's expiry as associated data,
   of a plaintext that reads as the token *)
Theorem request_validates_sealed s buf t ex :
  request_validates s buf t ex ->
  exists prefix v xn plain rest,
    buf = prefix :: rest /\ prefix mod 16 = 0 /\
    read_packet 0 rest = Ok (PRequest v (ns_protocol s) ex xn
              (xaead_seal (ns_connect_key s) xn (token_aad (ns_protocol s) ex) plain)) /\
    v = NC_VERSION_INFO /\ as_secs (ns_now s) < ex /\ private_read plain = Ok t /\
    (ns_secure s = true -> in_host_list s t = true).
Proof.
  intros (v & pr & xn & data & Hd & Hv & Hp & He & Hpd & Hh). subst pr.
  destruct (private_decode_sound _ _ _ _ _ _ Hpd) as [plain [-> Hr]].
  destruct (decode_ok_request_or_sealed _ _ _ _ _ Hd) as [Hty _].
  destruct (decode_request_form _ _ _ _ _ _ Hd Hty) as (_ & _ & _ & prefix & rest & -> & Hrd).
  exists prefix, v, xn, plain, rest. cbn [dgram_type] in Hty. repeat split; auto.
Qed.

(* ------------------------------------------------------------------ *)
(* a connection request reaches handle_request in the state as it is   *)
(* ------------------------------------------------------------------ *)
Lemma decode_ok_len buf proto key rp q p : snd (decode buf proto key rp) = Ok (q, p) -> 2 + NC_MAC_BYTES <= len buf.
Proof.
  unfold decode. destruct (len buf <? 2 + NC_MAC_BYTES) eqn:E; [discriminate | lia].
Qed.

Lemma ppi_request s a buf v pr ex xn data :
  table_inv s -> find_by_addr s a = None ->
  snd (decode buf (ns_protocol s) None None) = Ok (0, PRequest v pr ex xn data) ->
  process_packet_internal s a buf = handle_request s a v pr ex xn data.
Proof.
  intros T Ea Hd. pose proof (decode_ok_len _ _ _ _ _ _ Hd) as Hl.
  destruct (decode_ok_request_or_sealed _ _ _ _ _ Hd) as [Hty _].
  destruct (pend_find a (ns_pending s)) as [pc|] eqn:Ep.
  - rewrite (ppi_pend _ _ _ _ Hl Ea Ep), (decode_type0 _ _ _ _ Hty), Hd. cbn [fst snd].
    unfold pend_step. cbn [opt_replay]. rewrite (pending_put_back _ _ _ T Ep). reflexivity.
  - rewrite (ppi_unknown _ _ _ Hl Ea Ep), Hd. reflexivity.
Qed.

Lemma request_data_decode buf proto v pr ex xn data :
  snd (decode buf proto None None) = Ok (0, PRequest v pr ex xn data) -> request_data buf = data.
Proof.
  intros Hd. destruct (decode_ok_request_or_sealed _ _ _ _ _ Hd) as [Hty _].
  destruct (decode_request_form _ _ _ _ _ _ Hd Hty) as (_ & _ & _ & prefix & rest & -> & Hrd).
  unfold request_data. cbn [tl]. rewrite Hrd. reflexivity.
Qed.

(* ------------------------------------------------------------------ *)
(* 8. every valid request is answered with a fresh challenge           *)
(* ------------------------------------------------------------------ *)
Definition request_entry (s : nserver) (a : addr) (buf : list N) : token_entry :=
  {| te_time := ns_now s; te_addr := a; te_mac := mac_of buf |}.

(* the state after the challenge was sent *)
Definition challenged (s : nserver) (a : addr) (buf : list N) (t : private_token) (ex : N) : nserver :=
  set_pending (set_seqs (set_entries s (fst (find_or_add_entry (ns_entries s) (request_entry s a buf))))
                        (ns_global_seq s + 1) (ns_chal_seq s + 1))
              (pend_put a (pending_entry s a t ex (ns_chal_seq s + 1)) (ns_pending s)).

Lemma hr_body_challenge s a ex data t es out :
  find_by_addr s a = None -> find_by_id s (pt_client_id t) = None ->
  (pend_find a (ns_pending s) <> None \/ len (ns_pending s) < NC_MAX_CLIENTS * NC_MAX_PENDING_FACTOR) ->
  find_or_add_entry (ns_entries s) {| te_time := ns_now s; te_addr := a;
                                      te_mac := dropN (NC_PRIVATE_BYTES - NC_MAC_BYTES) data |} = (es, true) ->
  connected_count s < ns_max s ->
  encode OUT_CAP (generate_challenge (pt_client_id t) (pt_user t) (ns_chal_seq s + 1) (ns_chal_key s))
         (ns_protocol s) (Some (ns_global_seq s, pt_s2c t)) = Ok out ->
  hr_body s a ex data t =
    (set_pending (set_seqs (set_entries s es) (ns_global_seq s + 1) (ns_chal_seq s + 1))
                 (pend_put a (pending_entry s a t ex (ns_chal_seq s + 1)) (ns_pending s)),
     Ok (SRPacketToSend a out)).
Proof.
  intros Ea Ei Hp Hfe Hc Henc. unfold hr_body. rewrite Ea, Ei.
  assert (E1 : negb (match pend_find a (ns_pending s) with Some _ => true | None => false end) &&
               (NC_MAX_CLIENTS * NC_MAX_PENDING_FACTOR <=? len (ns_pending s)) = false).
  { destruct (pend_find a (ns_pending s)); [reflexivity|]. cbn [negb andb]. destruct Hp as [Hp|Hp]; [congruence | lia]. }
  rewrite E1. cbv zeta. rewrite Hfe. cbn [negb]. nsimpl.
  change (connected_count (set_entries s es)) with (connected_count s).
  destruct (ns_max s <=? connected_count s) eqn:E2; [lia|].
  rewrite Henc. reflexivity.
Qed.

Theorem request_gets_challenge s a buf t ex :
  table_inv s -> request_validates s buf t ex ->
  find_by_addr s a = None -> find_by_id s (pt_client_id t) = None ->
  connected_count s < ns_max s ->
  (pend_find a (ns_pending s) <> None \/ len (ns_pending s) < NC_MAX_CLIENTS * NC_MAX_PENDING_FACTOR) ->
  snd (find_or_add_entry (ns_entries s) (request_entry s a buf)) = true ->
  exists d,
    process_packet s a buf = Ok (challenged s a buf t ex, SRPacketToSend a d) /\
    encode OUT_CAP (generate_challenge (pt_client_id t) (pt_user t) (ns_chal_seq s + 1) (ns_chal_key s))
           (ns_protocol s) (Some (ns_global_seq s, pt_s2c t)) = Ok d /\
    table_inv (challenged s a buf t ex) /\
    exists pc, pend_find a (ns_pending (challenged s a buf t ex)) = Some pc /\
      (pend_find a (ns_pending s) = None ->
         conn_of_token pc a t ex /\ nc_chal_floor pc = ns_chal_seq s + 1 /\ nc_replay pc = replay_new /\
         nc_seq pc = 0 /\ nc_last_recv pc = ns_now s) /\
      (forall old, pend_find a (ns_pending s) = Some old -> pc = refresh_conn old (ns_now s)).
Proof.
  intros T Hv Ea Ei Hc Hp Hfe.
  pose proof Hv as Hv0. apply request_validates_iff in Hv0. destruct Hv0 as (v & pr & xn & data & Hd & Hck).
  assert (Hppi := ppi_request _ _ _ _ _ _ _ _ T Ea Hd).
  destruct (handle_request_cases s a v pr ex xn data) as [[e [_ Hn]]|[t' [Hck' Hhr]]]; [exfalso; apply (Hn t); exact Hck|].
  assert (t' = t).
  { destruct Hck as (_ & _ & _ & H1 & _). destruct Hck' as (_ & _ & _ & H2 & _). congruence. }
  subst t'. clear Hck'.
  pose proof Hck as (_ & _ & _ & Hpd & _).
  pose proof (private_decode_user_len _ _ _ _ _ _ Hpd) as Hu.
  destruct (encode_small_ok (generate_challenge (pt_client_id t) (pt_user t) (ns_chal_seq s + 1) (ns_chal_key s))
              (ns_protocol s) (ns_global_seq s) (pt_s2c t)) as [out Eo].
  { rewrite generate_challenge_id. lia. }
  { rewrite challenge_body_len by exact Hu. rewrite challenge_val. lia. }
  assert (Hmac : {| te_time := ns_now s; te_addr := a; te_mac := dropN (NC_PRIVATE_BYTES - NC_MAC_BYTES) data |}
                 = request_entry s a buf).
  { unfold request_entry, mac_of. rewrite (request_data_decode _ _ _ _ _ _ _ Hd). reflexivity. }
  assert (Hfe' : find_or_add_entry (ns_entries s) {| te_time := ns_now s; te_addr := a;
                     te_mac := dropN (NC_PRIVATE_BYTES - NC_MAC_BYTES) data |}
                 = (fst (find_or_add_entry (ns_entries s) (request_entry s a buf)), true)).
  { rewrite Hmac. rewrite <- Hfe. apply surjective_pairing. }
  rewrite (hr_body_challenge s a ex data t _ out Ea Ei Hp Hfe' Hc Eo) in Hhr.
  fold (challenged s a buf t ex) in Hhr.
  assert (Hpp : process_packet s a buf = Ok (challenged s a buf t ex, SRPacketToSend a out)).
  { unfold process_packet. rewrite Hppi, Hhr. reflexivity. }
  exists out. split; [exact Hpp|]. split; [exact Eo|]. split.
  { apply process_packet_inv in Hpp. destruct Hpp as [r0 [Hs _]]. apply (ppi_spec_table_inv _ _ _ _ _ Hs T). }
  exists (pending_entry s a t ex (ns_chal_seq s + 1)). split.
  { unfold challenged. nsimpl. apply pend_put_find. }
  unfold pending_entry. split.
  - intros ->. unfold conn_of_token, fresh_conn. nsimpl. repeat split; reflexivity.
  - intros old ->. reflexivity.
Qed.

(* the two server steps of the handshake: a valid request from an unknown address, then the response
   that echoes the challenge, sealed under the client-to-server key of the token *)
Corollary handshake_connects s a buf t ex q resp idx :
  table_inv s -> request_validates s buf t ex ->
  find_by_addr s a = None -> pend_find a (ns_pending s) = None -> find_by_id s (pt_client_id t) = None ->
  connected_count s < ns_max s -> len (ns_pending s) < NC_MAX_CLIENTS * NC_MAX_PENDING_FACTOR ->
  snd (find_or_add_entry (ns_entries s) (request_entry s a buf)) = true ->
  first_free (ns_clients s) 0 = Some idx ->
  pt_client_id t < U64 -> len (pt_user t) = NC_USER_DATA_BYTES -> ns_chal_seq s + 1 < U64 -> q < U64 ->
  encode OUT_CAP (PResponse (ns_chal_seq s + 1)
                    (aead_seal (ns_chal_key s) (nonce_of (ns_chal_seq s + 1)) [] (challenge_plain (pt_client_id t) (pt_user t))))
         (ns_protocol s) (Some (q, pt_c2s t)) = Ok resp ->
  exists s1 d s2 ka,
    process_packet s a buf = Ok (s1, SRPacketToSend a d) /\
    encode OUT_CAP (generate_challenge (pt_client_id t) (pt_user t) (ns_chal_seq s + 1) (ns_chal_key s))
           (ns_protocol s) (Some (ns_global_seq s, pt_s2c t)) = Ok d /\
    process_packet s1 a resp = Ok (s2, SRConnected (pt_client_id t) a (pt_user t) ka) /\
    connected_count s2 = connected_count s + 1.
Proof.
  intros T Hv Ea Ep Ei Hc Hpl Hfe Hff Hid Hul Hts Hq Henc.
  destruct (request_gets_challenge s a buf t ex T Hv Ea Ei Hc (or_intror Hpl) Hfe)
    as (d & Hpp & Hd & T1 & pc & Hpf & Hnew & _).
  destruct (Hnew Ep) as ((Hi & Hu & Hrk & Hsk & _) & Hfl & _).
  set (s1 := challenged s a buf t ex) in *.
  assert (Ecl : ns_clients s1 = ns_clients s) by reflexivity.
  destruct (response_connects s1 a pc (ns_chal_seq s + 1) q resp idx) as (s2 & ka & H2 & Hcnt & _).
  - unfold find_by_addr. rewrite Ecl. exact Ea.
  - exact Hpf.
  - unfold find_by_id. rewrite Ecl, Hi. exact Ei.
  - rewrite Ecl. exact Hff.
  - rewrite Hi. exact Hid.
  - rewrite Hu. exact Hul.
  - exact Hts.
  - exact Hq.
  - lia.
  - rewrite Hi, Hu, Hrk. exact Henc.
  - exists s1, d, s2, ka. rewrite Hi, Hu in H2. repeat split; auto.
Qed.

(* ODDITY.  While an address is pending, a request with ANOTHER token from that address is answered with
   a challenge for the new token (sealed under the new token's server-to-client key), but the pending
   entry keeps the credentials of the first token: the only client that can be connected from that
   address is the first token's, with a response sealed under the first token's key.  The answer to the
   new challenge is useless until the old entry is dropped (at the expiry of the OLD token, see
   pending_expires: pending entries have no time-out of their own). *)
Corollary pending_address_locked s a buf t ex old :
  table_inv s -> request_validates s buf t ex ->
  find_by_addr s a = None -> find_by_id s (pt_client_id t) = None -> connected_count s < ns_max s ->
  snd (find_or_add_entry (ns_entries s) (request_entry s a buf)) = true ->
  pend_find a (ns_pending s) = Some old ->
  exists d,
    process_packet s a buf = Ok (challenged s a buf t ex, SRPacketToSend a d) /\
    encode OUT_CAP (generate_challenge (pt_client_id t) (pt_user t) (ns_chal_seq s + 1) (ns_chal_key s))
           (ns_protocol s) (Some (ns_global_seq s, pt_s2c t)) = Ok d /\
    forall resp s2 id a' user p,
      process_packet (challenged s a buf t ex) a resp = Ok (s2, SRConnected id a' user p) ->
      id = nc_id old /\ user = nc_user old /\
      exists prefix seqbytes plain,
        resp = prefix :: seqbytes ++ aead_seal (nc_recv_key old) (nonce_of (dgram_seq resp))
                                               (packet_aad prefix (ns_protocol s)) plain.
Proof.
  intros T Hv Ea Ei Hc Hfe Ep.
  assert (Hp : pend_find a (ns_pending s) <> None \/ len (ns_pending s) < NC_MAX_CLIENTS * NC_MAX_PENDING_FACTOR)
    by (left; congruence).
  destruct (request_gets_challenge s a buf t ex T Hv Ea Ei Hc Hp Hfe) as (d & H1 & Hd & T1 & pc & Hpf & _ & Hold).
  exists d. split; [exact H1|]. split; [exact Hd|].
  intros resp s2 id a' user p H2.
  destruct (connected_implies_pending_match _ _ _ _ _ _ _ _ T1 H2)
    as (_ & _ & _ & pc' & ts & td & Ep' & Hi & Hu & _ & _ & _ & _ & (prefix & sb & plain & Hb & _) & _).
  rewrite Hpf in Ep'. injection Ep' as <-. rewrite (Hold _ Ep) in *.
  cbn [refresh_conn nc_id nc_user nc_recv_key] in *.
  split; [congruence|]. split; [congruence|]. exists prefix, sb, plain. exact Hb.
Qed.

(* ------------------------------------------------------------------ *)
(* 5. where pending entries come from                                  *)
(* ------------------------------------------------------------------ *)
Lemma conn_step_pending s a slot c rp dr : ns_pending (fst (conn_step s a slot c rp dr)) = ns_pending s.
Proof.
  unfold conn_step. destruct dr as [[q pkt]|e|site]; [destruct pkt|..]; reflexivity.
Qed.

Lemma resp_step_pending s1 a pc1 ts td x :
  In x (ns_pending (fst (resp_step s1 a pc1 ts td))) -> In x (ns_pending s1).
Proof.
  unfold resp_step.
  destruct (challenge_decode td ts (ns_chal_key s1)) as [[cid cuser]|e|site]; cbn [fst]; auto.
  destruct (ts <? nc_chal_floor pc1); cbn [fst]; auto.
  destruct (negb (cid =? nc_id pc1) || negb (bytes_eqb cuser (nc_user pc1))); cbn [fst]; auto.
  cbv zeta.
  assert (K : In x (pend_remove a (ns_pending s1)) -> In x (ns_pending s1)) by apply pend_remove_In.
  destruct (find_by_id _ cid); cbn [fst]; [exact K|].
  destruct (first_free _ 0).
  - destruct (encode OUT_CAP (PKeepAlive _ _) _ _); cbn [fst]; exact K.
  - destruct (encode OUT_CAP PDenied _ _); cbn [fst]; exact K.
Qed.

(* the pending entries after handle_request *)
Lemma handle_request_pending s a v pr ex xn data s' r a1 pc' :
  handle_request s a v pr ex xn data = (s', r) -> In (a1, pc') (ns_pending s') ->
  In (a1, pc') (ns_pending s) \/
  (a1 = a /\ exists t, request_checks s v pr ex xn data t /\ pc' = pending_entry s a t ex (ns_chal_seq s + 1)).
Proof.
  intros H Hin.
  destruct (handle_request_cases s a v pr ex xn data) as [[e [He _]]|[t [Hck _]]].
  { rewrite He in H. injection H as <- _. left. exact Hin. }
  apply handle_request_spec in H. destruct H as [es r0 _ | t0 es out s' Hpd _ _ _ _ -> | t0 es out s' Hpd _ _ _ _ ->].
  - left. exact Hin.
  - left. nsimpl_in Hin. apply (pend_remove_In _ _ _ Hin).
  - nsimpl_in Hin. apply pend_put_In in Hin. destruct Hin as [Hx|Hin]; [|left; exact Hin].
    injection Hx as -> ->. right. split; [reflexivity|]. exists t. split; [exact Hck|].
    destruct Hck as (_ & _ & _ & Hpd' & _). congruence.
Qed.

Lemma conn_of_token_replay pc rp a t ex : conn_of_token pc a t ex -> conn_of_token (nc_with_replay pc rp) a t ex.
Proof. unfold conn_of_token. nsimpl. tauto. Qed.

Lemma conn_of_token_refresh pc now a t ex : conn_of_token pc a t ex -> conn_of_token (refresh_conn pc now) a t ex.
Proof. unfold conn_of_token, refresh_conn. nsimpl. tauto. Qed.

Lemma conn_of_token_fresh t a now ex cseq : conn_of_token (fresh_conn t a now ex cseq) a t ex.
Proof. unfold conn_of_token, fresh_conn. nsimpl. repeat split; reflexivity. Qed.

(* one call of process_packet: every pending entry afterwards is an old one (same credentials), or was
   created by this very datagram, a request that validates *)
Lemma ppi_pending_origin s a buf a1 pc' :
  table_inv s -> In (a1, pc') (ns_pending (fst (process_packet_internal s a buf))) ->
  (exists pc, In (a1, pc) (ns_pending s) /\ forall t ex, conn_of_token pc a1 t ex -> conn_of_token pc' a1 t ex) \/
  (a1 = a /\ exists t ex, request_validates s buf t ex /\ conn_of_token pc' a t ex).
Proof.
  intros T Hin.
  assert (Old : In (a1, pc') (ns_pending s) ->
     (exists pc, In (a1, pc) (ns_pending s) /\ forall t ex, conn_of_token pc a1 t ex -> conn_of_token pc' a1 t ex) \/
     (a1 = a /\ exists t ex, request_validates s buf t ex /\ conn_of_token pc' a t ex)).
  { intros H. left. exists pc'. auto. }
  (* after handle_request in state s on the request carried by buf *)
  assert (HR : forall v pr ex xn data,
     snd (decode buf (ns_protocol s) None None) = Ok (0, PRequest v pr ex xn data) ->
     In (a1, pc') (ns_pending (fst (handle_request s a v pr ex xn data))) ->
     (exists pc, In (a1, pc) (ns_pending s) /\ forall t ex, conn_of_token pc a1 t ex -> conn_of_token pc' a1 t ex) \/
     (a1 = a /\ exists t ex, request_validates s buf t ex /\ conn_of_token pc' a t ex)).
  { intros v pr ex xn data Hd Hi. destruct (handle_request s a v pr ex xn data) as [s1 r1] eqn:Eh. cbn [fst] in Hi.
    destruct (handle_request_pending _ _ _ _ _ _ _ _ _ _ _ Eh Hi) as [Ho|[-> [t [Hck ->]]]]; [apply Old; exact Ho|].
    assert (Hv : request_validates s buf t ex) by (apply request_validates_iff; exists v, pr, xn, data; auto).
    unfold pending_entry. destruct (pend_find a (ns_pending s)) as [old|] eqn:Ep.
    - left. exists old. split; [apply pend_find_In; exact Ep|]. intros t0 ex0. apply conn_of_token_refresh.
    - right. split; [reflexivity|]. exists t, ex. split; [exact Hv | apply conn_of_token_fresh]. }
  destruct (N.lt_ge_cases (len buf) (2 + NC_MAC_BYTES)) as [Hl|Hl].
  { rewrite (ppi_short _ _ _ Hl) in Hin. apply Old. exact Hin. }
  destruct (find_by_addr s a) as [[slot c]|] eqn:Ea.
  { rewrite (ppi_conn _ _ _ _ _ Hl Ea), conn_step_pending in Hin. apply Old. exact Hin. }
  destruct (pend_find a (ns_pending s)) as [pc|] eqn:Ep.
  2:{ rewrite (ppi_unknown _ _ _ Hl Ea Ep) in Hin.
      destruct (snd (decode buf (ns_protocol s) None None)) as [[q p]|e|site] eqn:Ed; [|apply Old; exact Hin..].
      destruct (decode_ok_request_or_sealed _ _ _ _ _ Ed) as [_ [-> [v [pr [ex [xn [data ->]]]]]]].
      cbn [unknown_step] in Hin. apply (HR _ _ _ _ _ eq_refl Hin). }
  (* pending *)
  pose proof (pend_find_In _ _ _ Ep) as Hpin.
  assert (Put : forall rp, In (a1, pc') (pend_put a (nc_with_replay pc rp) (ns_pending s)) ->
     (exists pc0, In (a1, pc0) (ns_pending s) /\ forall t ex, conn_of_token pc0 a1 t ex -> conn_of_token pc' a1 t ex) \/
     (a1 = a /\ exists t ex, request_validates s buf t ex /\ conn_of_token pc' a t ex)).
  { intros rp Hi. apply pend_put_In in Hi. destruct Hi as [Hx|Hi]; [|apply Old; exact Hi].
    injection Hx as -> ->. left. exists pc. split; [exact Hpin|]. intros t ex. apply conn_of_token_replay. }
  rewrite (ppi_pend _ _ _ _ Hl Ea Ep) in Hin.
  destruct (N.eq_dec (dgram_type buf) 0) as [Hty|Hty].
  - rewrite (decode_type0 _ _ _ _ Hty) in Hin. cbn [fst snd] in Hin. unfold pend_step in Hin. cbn [opt_replay] in Hin.
    rewrite (pending_put_back _ _ _ T Ep) in Hin.
    destruct (snd (decode buf (ns_protocol s) None None)) as [[q p]|e|site] eqn:Ed; [|apply Old; exact Hin..].
    destruct (decode_ok_request_or_sealed _ _ _ _ _ Ed) as [_ [-> [v [pr [ex [xn [data ->]]]]]]].
    apply (HR _ _ _ _ _ eq_refl Hin).
  - unfold pend_step in Hin.
    destruct (snd (decode buf (ns_protocol s) (Some (nc_recv_key pc)) (Some (nc_replay pc)))) as [[q p]|e|site] eqn:Ed;
      [|apply (Put _ Hin)..].
    destruct p as [v pr ex xn data| |ts td|ts td|ci mc|pl|]; try (apply (Put _ Hin)).
    + exfalso.
      destruct (decode_sound _ _ _ _ _ _ Ed Hty) as (prefix & sb & plain & -> & Hm & _).
      cbn [dgram_type] in Hty. cbn [packet_id] in Hm. congruence.
    + apply resp_step_pending in Hin. nsimpl_in Hin. apply (Put _ Hin).
Qed.

Lemma nsstep_pending_origin s o s' out a1 pc' :
  table_inv s -> nsstep s o = Ok (s', out) -> In (a1, pc') (ns_pending s') ->
  (exists pc, In (a1, pc) (ns_pending s) /\ forall t ex, conn_of_token pc a1 t ex -> conn_of_token pc' a1 t ex) \/
  (exists buf t ex, o = NSProcess a1 buf /\ request_validates s buf t ex /\ conn_of_token pc' a1 t ex).
Proof.
  intros T E Hin.
  assert (Old : In (a1, pc') (ns_pending s) ->
     (exists pc, In (a1, pc) (ns_pending s) /\ forall t ex, conn_of_token pc a1 t ex -> conn_of_token pc' a1 t ex) \/
     (exists buf t ex, o = NSProcess a1 buf /\ request_validates s buf t ex /\ conn_of_token pc' a1 t ex)).
  { intros H. left. exists pc'. auto. }
  destruct o as [a buf|dt|id|id|id p|m]; cbn [nsstep] in E.
  - unfold process_packet in E. destruct (process_packet_internal s a buf) as [s1 r0] eqn:Ep.
    assert (Hs : s' = s1) by (destruct r0; cbn [bind] in E; try discriminate; injection E as <- _; reflexivity).
    subst s1. pose proof (ppi_pending_origin s a buf a1 pc' T) as K. rewrite Ep in K. cbn [fst] in K.
    destruct (K Hin) as [Ho|[-> [t [ex [Hv Hc]]]]]; [left; exact Ho|].
    right. exists buf, t, ex. auto.
  - injection E as <- _. unfold nserver_update in Hin. nsimpl_in Hin. apply filter_In in Hin. apply Old. tauto.
  - destruct (update_client s id) as [[s1 r1]|e|site] eqn:E1; cbn [bind] in E; try discriminate.
    injection E as <- _. cbn [fst] in Hin. apply update_client_spec in E1. destruct E1; apply Old; exact Hin.
  - destruct (nserver_disconnect s id) as [[s1 r1]|e|site] eqn:E1; cbn [bind] in E; try discriminate.
    injection E as <- _. cbn [fst] in Hin. apply nserver_disconnect_spec in E1. destruct E1; apply Old; exact Hin.
  - destruct (generate_payload_packet s id p) as [s1 r1] eqn:E1. apply generate_payload_spec in E1.
    destruct E1; injection E as <- _; apply Old; exact Hin.
  - injection E as <- _. rewrite set_max_clients_pending in Hin. apply Old. exact Hin.
Qed.

(* ---- runs ---- *)
Lemma nsrun_app l1 : forall s l2 s' outs,
  nsrun s (l1 ++ l2) = Ok (s', outs) <->
  exists s1 o1 o2, nsrun s l1 = Ok (s1, o1) /\ nsrun s1 l2 = Ok (s', o2) /\ outs = o1 ++ o2.
Proof.
  induction l1 as [|o l1 IH]; intros s l2 s' outs; cbn [app nsrun].
  - split.
    + intros H. exists s, [], outs. auto.
    + intros (s1 & o1 & o2 & H1 & H2 & ->). injection H1 as <- <-. exact H2.
  - destruct (nsstep s o) as [[sa out]|e|site]; cbn [bind].
    2,3: split; [discriminate | intros (s1 & o1 & o2 & H1 & _); discriminate].
    split.
    + destruct (nsrun sa (l1 ++ l2)) as [[sb outsb]|e|site] eqn:E2; cbn [bind]; try discriminate.
      intros H. injection H as <- <-. apply IH in E2. destruct E2 as (s1 & o1 & o2 & H1 & H2 & ->).
      exists s1, (out :: o1), o2. rewrite H1. cbn [bind]. auto.
    + intros (s1 & o1 & o2 & H1 & H2 & ->).
      destruct (nsrun sa l1) as [[sb outsb]|e|site] eqn:E1; cbn [bind] in H1; try discriminate.
      injection H1 as <- <-.
      assert (E2 : nsrun sa (l1 ++ l2) = Ok (s', outsb ++ o2)) by (apply IH; exists sb, outsb, o2; auto).
      rewrite E2. reflexivity.
Qed.

Lemma nsrun_length ops : forall s s' outs, nsrun s ops = Ok (s', outs) -> length outs = length ops.
Proof.
  induction ops as [|o ops IH]; intros s s' outs; cbn [nsrun].
  - intros H. injection H as _ <-. reflexivity.
  - destruct (nsstep s o) as [[s1 out]|e|site]; cbn [bind]; try discriminate.
    destruct (nsrun s1 ops) as [[s2 outs2]|e|site] eqn:E2; cbn [bind]; try discriminate.
    intros H. injection H as _ <-. cbn [length]. rewrite (IH _ _ _ E2). reflexivity.
Qed.

(* the k-th output is the output of the k-th call, made in the state after the first k calls *)
Lemma nsrun_nth ops s0 s outs k out :
  nsrun s0 ops = Ok (s, outs) -> nth_error outs k = Some out ->
  exists s1 o1 op s2, nsrun s0 (firstn k ops) = Ok (s1, o1) /\ nth_error ops k = Some op /\
                      nsstep s1 op = Ok (s2, out).
Proof.
  intros H Hn. pose proof (nsrun_length _ _ _ _ H) as HL.
  assert (Hk : (k < length ops)%nat) by (rewrite <- HL; apply nth_error_Some; congruence).
  rewrite <- (firstn_skipn k ops) in H. apply nsrun_app in H. destruct H as (s1 & o1 & o2 & H1 & H2 & ->).
  pose proof (nsrun_length _ _ _ _ H1) as L1. rewrite firstn_length_le in L1 by lia.
  destruct (skipn k ops) as [|op rest] eqn:Es.
  { exfalso. apply (f_equal (@length nsop)) in Es. rewrite skipn_length in Es. cbn [length] in Es. lia. }
  cbn [nsrun] in H2. destruct (nsstep s1 op) as [[s2 out']|e|site] eqn:E; cbn [bind] in H2; try discriminate.
  destruct (nsrun s2 rest) as [[s3 outs3]|e|site]; cbn [bind] in H2; try discriminate.
  injection H2 as <- <-.
  rewrite nth_error_app2 in Hn by lia. rewrite L1, Nat.sub_diag in Hn. cbn [nth_error] in Hn. injection Hn as <-.
  exists s1, o1, op, s2. split; [exact H1|]. split; [|exact E].
  rewrite <- (firstn_skipn k ops) at 1. rewrite nth_error_app2 by (rewrite firstn_length_le; lia).
  rewrite firstn_length_le, Nat.sub_diag, Es by lia. reflexivity.
Qed.

Lemma call_at_app s0 l l2 k s1 a buf : call_at s0 l k s1 a buf -> call_at s0 (l ++ l2) k s1 a buf.
Proof.
  intros [Hn [o1 Hr]].
  assert (Hk : (k < length l)%nat) by (apply nth_error_Some; congruence).
  split.
  - rewrite nth_error_app1 by exact Hk. exact Hn.
  - exists o1. rewrite firstn_app. replace (k - length l)%nat with 0%nat by lia.
    cbn [firstn]. rewrite app_nil_r. exact Hr.
Qed.

Lemma call_at_lt s0 l k s1 a buf : call_at s0 l k s1 a buf -> (k < length l)%nat.
Proof. intros [Hn _]. apply nth_error_Some. congruence. Qed.

(* the ghost invariant: along any run from a state without pending entries, every pending entry was
   created by a connection request from its own address that validated in the state it arrived in, and
   carries the client id, user data, keys, expiry and time-out of that request's private token *)
Theorem pending_implies_valid_request ops : forall s0 s outs,
  table_inv s0 -> ns_pending s0 = [] -> nsrun s0 ops = Ok (s, outs) -> pending_valid s0 ops s.
Proof.
  induction ops as [|o l IH] using rev_ind; intros s0 s outs T0 Hp H.
  - cbn [nsrun] in H. injection H as <- _. intros a pc Hin. rewrite Hp in Hin. destruct Hin.
  - apply nsrun_app in H. destruct H as (s1 & o1 & o2 & H1 & H2 & ->).
    cbn [nsrun] in H2. destruct (nsstep s1 o) as [[s2 out]|e|site] eqn:E; cbn [bind] in H2; try discriminate.
    injection H2 as <- _.
    pose proof (table_inv_run _ _ _ _ T0 H1) as T1.
    specialize (IH _ _ _ T0 Hp H1).
    intros a pc' Hin.
    destruct (nsstep_pending_origin _ _ _ _ _ _ T1 E Hin) as [[pc [Ho Hc]]|[buf [t [ex [-> [Hv Hc]]]]]].
    + destruct (IH _ _ Ho) as (k & sk & buf0 & t & ex & Hca & Hv & Hct).
      exists k, sk, buf0, t, ex. split; [apply call_at_app; exact Hca|]. split; [exact Hv | apply Hc; exact Hct].
    + exists (length l), s1, buf, t, ex. split; [|split; [exact Hv | exact Hc]].
      split.
      * rewrite nth_error_app2 by lia. rewrite Nat.sub_diag. reflexivity.
      * exists o1. rewrite firstn_app, firstn_all, Nat.sub_diag. cbn [firstn]. rewrite app_nil_r. exact H1.
Qed.

(* a client reported connected at step k2 (from address a, as client id, with this user data) traces
   back to an earlier call k1 < k2: a connection request from the same address a that validated, for a
   private token with that client id and that user data; the session keys of the new connection are
   the token's *)
Theorem connected_implies_valid_request ops s0 s outs k2 id a user p :
  table_inv s0 -> ns_pending s0 = [] -> nsrun s0 ops = Ok (s, outs) ->
  nth_error outs k2 = Some (NOResult (SRConnected id a user p)) ->
  exists k1 s1 buf0 t ex,
    (k1 < k2)%nat /\ call_at s0 ops k1 s1 a buf0 /\ request_validates s1 buf0 t ex /\
    pt_client_id t = id /\ pt_user t = user /\
    exists s2 o2 resp s3 slot c,
      nsrun s0 (firstn k2 ops) = Ok (s2, o2) /\ nth_error ops k2 = Some (NSProcess a resp) /\
      process_packet s2 a resp = Ok (s3, SRConnected id a user p) /\
      find_by_id s3 id = Some (slot, c) /\ find_by_addr s3 a = Some (slot, c) /\
      nc_recv_key c = pt_c2s t /\ nc_send_key c = pt_s2c t /\ nc_expire c = ex /\ nc_timeout c = pt_timeout t.
Proof.
  intros T0 Hp H Hn.
  destruct (nsrun_nth _ _ _ _ _ _ H Hn) as (s2 & o2 & op & s3 & H2 & Hop & E).
  pose proof (table_inv_run _ _ _ _ T0 H2) as T2.
  destruct op as [a0 resp|dt|id0|id0|id0 pl|m]; cbn [nsstep] in E.
  2:{ discriminate. }
  2:{ destruct (update_client s2 id0) as [[sx rx]|e|site] eqn:E1; cbn [bind] in E; try discriminate.
      injection E as _ Hr. cbn [snd] in Hr. apply update_client_spec in E1. destruct E1; discriminate. }
  2:{ destruct (nserver_disconnect s2 id0) as [[sx rx]|e|site] eqn:E1; cbn [bind] in E; try discriminate.
      injection E as _ Hr. cbn [snd] in Hr. apply nserver_disconnect_spec in E1. destruct E1; discriminate. }
  2:{ destruct (generate_payload_packet s2 id0 pl) as [sx rx]. destruct rx; discriminate. }
  2:{ discriminate. }
  destruct (process_packet s2 a0 resp) as [[sx rx]|e|site] eqn:E1; cbn [bind] in E; try discriminate.
  injection E as -> ->. cbn [fst snd] in *.
  destruct (connected_implies_pending_match _ _ _ _ _ _ _ _ T2 E1)
    as (-> & Ea & Eid & pc & ts & td & Ep & Hi & Hu & Hpa & _ & _ & _ & _ & _ & slot & _ & Hfa & Hfi).
  pose proof (pending_implies_valid_request _ _ _ _ T0 Hp H2) as PV.
  destruct (PV _ _ (pend_find_In _ _ _ Ep)) as (k1 & s1 & buf0 & t & ex & Hca & Hv & Hct).
  destruct Hct as (Ci & Cu & Crk & Csk & Cex & _ & Cto).
  exists k1, s1, buf0, t, ex.
  split. { apply call_at_lt in Hca. rewrite firstn_length in Hca. lia. }
  split. { rewrite <- (firstn_skipn k2 ops). apply call_at_app. exact Hca. }
  split; [exact Hv|]. split; [congruence|]. split; [congruence|].
  exists s2, o2, resp, s3, slot, (promote pc user (ns_now s2)).
  repeat split; auto.
Qed.

(* ------------------------------------------------------------------ *)
(* 7. connect tokens are bound to the address that first used them ... *)
(* ------------------------------------------------------------------ *)
Definition scan0 : scan := {| sn_min := None; sn_oldest := 0; sn_empty := false; sn_match := None |}.

(* the scan keeps the LAST entry whose tag matches *)
Lemma scan_entries_match es : forall i mac acc,
  sn_match (scan_entries es i mac acc) =
  match last_match es mac with Some m => Some m | None => sn_match acc end.
Proof.
  induction es as [|[e|] t IH]; intros i mac acc; cbn [scan_entries last_match]; [reflexivity| |].
  - destruct (negb (sn_empty acc) && _); rewrite IH; cbn [sn_match];
      destruct (last_match t mac); try reflexivity; destruct (bytes_eqb (te_mac e) mac); reflexivity.
  - destruct (negb (sn_empty acc)); rewrite IH; reflexivity.
Qed.

Lemma find_or_add_entry_eq es e :
  find_or_add_entry es e =
  match last_match es (te_mac e) with
  | Some m => (es, addr_eqb (te_addr m) (te_addr e))
  | None => (upd es (N.to_nat (sn_oldest (scan_entries es 0 (te_mac e) scan0))) (Some e), true)
  end.
Proof.
  unfold find_or_add_entry. fold scan0. rewrite scan_entries_match. cbn [scan0 sn_match].
  destruct (last_match es (te_mac e)); reflexivity.
Qed.

Lemma last_match_some es mac m : last_match es mac = Some m -> In (Some m) es /\ te_mac m = mac.
Proof.
  induction es as [|[e|] t IH]; cbn [last_match]; [discriminate| |].
  - destruct (last_match t mac) as [m'|].
    + intros H. injection H as ->. destruct (IH eq_refl) as [H1 H2]. split; [right; exact H1 | exact H2].
    + destruct (bytes_eqb (te_mac e) mac) eqn:E; [|discriminate]. intros H. injection H as ->.
      apply list_eqb_N_eq in E. split; [left; reflexivity | exact E].
  - intros H. destruct (IH H) as [H1 H2]. split; [right; exact H1 | exact H2].
Qed.

Lemma last_match_none es mac : last_match es mac = None <-> forall m, In (Some m) es -> te_mac m <> mac.
Proof.
  induction es as [|[e|] t IH]; cbn [last_match].
  - split; [intros _ m [] | reflexivity].
  - destruct (last_match t mac) as [m'|] eqn:El.
    + split; [discriminate|]. intros H. destruct (last_match_some _ _ _ El) as [H1 H2].
      exfalso. apply (H m'); [right; exact H1 | exact H2].
    + destruct (bytes_eqb (te_mac e) mac) eqn:E.
      * split; [discriminate|]. intros H. apply list_eqb_N_eq in E. exfalso. apply (H e); [left; reflexivity | exact E].
      * split; [|reflexivity]. intros _ m [Hm|Hm].
        -- injection Hm as <-. intros Hx. apply list_eqb_N_eq in Hx. congruence.
        -- destruct IH as [IH _]. apply (IH eq_refl m Hm).
  - rewrite IH. split; intros H m Hm; [destruct Hm as [Hm|Hm]; [discriminate|]|]; apply (H m); auto. right. exact Hm.
Qed.

(* the tag is known, bound (by the last entry that carries it) to another address: refused, the table
   is returned as it is *)
Theorem token_bound_to_address es e m :
  last_match es (te_mac e) = Some m -> te_addr m <> te_addr e ->
  find_or_add_entry es e = (es, false).
Proof.
  intros Hm Hne. rewrite find_or_add_entry_eq, Hm. apply addr_eqb_neq in Hne. rewrite Hne. reflexivity.
Qed.

(* bound to the same address: allowed again (this is how a retransmitted request passes), table unchanged *)
Theorem token_same_address es e m :
  last_match es (te_mac e) = Some m -> te_addr m = te_addr e ->
  find_or_add_entry es e = (es, true).
Proof.
  intros Hm He. rewrite find_or_add_entry_eq, Hm, He, addr_eqb_refl. reflexivity.
Qed.

(* lifted to the server: a request that validates but whose tag the table binds to another address is
   dropped without a trace - no reply, no pending entry, no table entry *)
Theorem token_bound_request_dropped s a buf t ex m s' r :
  table_inv s -> request_validates s buf t ex ->
  last_match (ns_entries s) (mac_of buf) = Some m -> te_addr m <> a ->
  process_packet s a buf = Ok (s', r) -> s' = s /\ r = SRNone.
Proof.
  intros T Hv Hm Hne H.
  pose proof (request_validates_type _ _ _ _ Hv) as Hty.
  destruct (find_by_addr s a) as [[slot c]|] eqn:Ea.
  { apply (request_from_connected_ignored _ _ _ _ _ _ _ Ea Hty H). }
  apply (quiet_noop _ _ _ _ _) in H; [exact H|].
  apply request_validates_iff in Hv. destruct Hv as (v & pr & xn & data & Hd & Hck).
  rewrite (ppi_request _ _ _ _ _ _ _ _ T Ea Hd).
  destruct (handle_request_cases s a v pr ex xn data) as [[e [-> _]]|[t' [_ ->]]]; [apply quiet_err|].
  unfold hr_body. rewrite Ea.
  destruct (find_by_id s (pt_client_id t')); [apply quiet_ok|].
  match goal with |- quiet s (if ?c then _ else _) => destruct c; [apply quiet_ok|] end.
  cbv zeta.
  assert (Hfe : find_or_add_entry (ns_entries s)
                  {| te_time := ns_now s; te_addr := a; te_mac := dropN (NC_PRIVATE_BYTES - NC_MAC_BYTES) data |}
                = (ns_entries s, false)).
  { apply (token_bound_to_address _ _ m); cbn [te_mac te_addr]; [|exact Hne].
    unfold mac_of in Hm. rewrite (request_data_decode _ _ _ _ _ _ _ Hd) in Hm. exact Hm. }
  rewrite Hfe. cbn [negb]. rewrite set_entries_id. apply quiet_ok.
Qed.

(* ------------------------------------------------------------------ *)
(* ... but only as long as the bounded table remembers them            *)
(* ------------------------------------------------------------------ *)
Definition is_some {A} (o : option A) : Prop := match o with Some _ => True | None => False end.

(* on a table without free entries the scan ends on the FIRST entry with the least time *)
Lemma scan_entries_full es : forall i mac acc,
  Forall is_some es -> sn_empty acc = false ->
  let r := scan_entries es i mac acc in
  sn_empty r = false /\
  ((sn_min r = sn_min acc /\ sn_oldest r = sn_oldest acc /\
    forall e, In (Some e) es -> match sn_min acc with Some mn => mn <= te_time e | None => False end) \/
   (exists j e0, nth_opt es j = Some (Some e0) /\ sn_oldest r = i + N.of_nat j /\ sn_min r = Some (te_time e0) /\
      (forall e, In (Some e) es -> te_time e0 <= te_time e) /\
      match sn_min acc with Some mn => te_time e0 < mn | None => True end)).
Proof.
  induction es as [|[e|] t IH]; intros i mac acc Hf He; cbv zeta; cbn [scan_entries].
  - split; [exact He|]. left. repeat split; auto. intros e [].
  - inversion Hf as [|x l _ Hf']; subst. rewrite He. cbn [negb andb].
    destruct (match sn_min acc with Some mn => te_time e <? mn | None => true end) eqn:Ey.
    + (* e becomes the oldest so far *)
      match goal with |- context [scan_entries t (i + 1) mac ?acc'] => specialize (IH (i + 1) mac acc' Hf' eq_refl) end.
      cbv zeta in IH. cbn [sn_min sn_oldest sn_empty] in IH. destruct IH as [IH1 IH2]. split; [exact IH1|]. right.
      destruct IH2 as [(M1 & M2 & M3)|(j & e0 & N1 & N2 & N3 & N4 & N5)].
      * exists 0%nat, e. cbn [nth_opt]. split; [reflexivity|]. split; [rewrite M2; lia|]. split; [exact M1|]. split.
        -- intros e' [Hx|Hx]; [injection Hx as <-; lia | apply (M3 e' Hx)].
        -- destruct (sn_min acc); [lia | exact I].
      * exists (S j), e0. cbn [nth_opt]. split; [exact N1|]. split; [rewrite N2; lia|]. split; [exact N3|]. split.
        -- intros e' [Hx|Hx]; [injection Hx as <-; lia | apply (N4 e' Hx)].
        -- destruct (sn_min acc); [lia | exact I].
    + destruct (sn_min acc) as [mn|] eqn:Em; [|discriminate].
      match goal with |- context [scan_entries t (i + 1) mac ?acc'] => specialize (IH (i + 1) mac acc' Hf' eq_refl) end.
      cbv zeta in IH. cbn [sn_min sn_oldest sn_empty] in IH. destruct IH as [IH1 IH2]. split; [exact IH1|].
      destruct IH2 as [(M1 & M2 & M3)|(j & e0 & N1 & N2 & N3 & N4 & N5)].
      * left. split; [exact M1|]. split; [exact M2|].
        intros e' [Hx|Hx]; [injection Hx as <-; lia | apply (M3 e' Hx)].
      * right. exists (S j), e0. cbn [nth_opt]. split; [exact N1|]. split; [rewrite N2; lia|]. split; [exact N3|]. split.
        -- intros e' [Hx|Hx]; [injection Hx as <-; lia | apply (N4 e' Hx)].
        -- exact N5.
  - inversion Hf as [|x l Hx _]; subst. destruct Hx.
Qed.

(* a full table of other tags: the new tag evicts the (first) oldest entry - and is allowed *)
Theorem token_rebinding_refuted es e :
  Forall is_some es -> es <> [] -> last_match es (te_mac e) = None ->
  exists i old, nth_opt es i = Some (Some old) /\
    (forall e', In (Some e') es -> te_time old <= te_time e') /\
    find_or_add_entry es e = (upd es i (Some e), true).
Proof.
  intros Hf Hne Hm. rewrite find_or_add_entry_eq, Hm.
  destruct (scan_entries_full es 0 (te_mac e) scan0 Hf eq_refl) as [_ [(_ & _ & M3)|(j & e0 & N1 & N2 & _ & N4 & _)]].
  - exfalso. destruct es as [|[x|] t]; [congruence | apply (M3 x); left; reflexivity |].
    inversion Hf as [|y l Hy _]; subst. destruct Hy.
  - exists j, e0. split; [exact N1|]. split; [exact N4|]. rewrite N2. replace (N.to_nat (0 + N.of_nat j)) with j by lia.
    reflexivity.
Qed.

(* hence the binding is forgotten: once the entry of a tag has been evicted, the same tag is accepted
   from ANY address.  Two entries, three tags, two addresses: mac1 is bound to addr1; mac3 arrives and
   evicts it (oldest); mac1 presented from addr2 is now allowed and bound to addr2. *)
Definition rb_a1 : addr := AddrV4 [10; 0; 0; 1] 4000.
Definition rb_a2 : addr := AddrV4 [10; 0; 0; 2] 4000.
Definition rb_table : list (option token_entry) :=
  [Some {| te_time := 1; te_addr := rb_a1; te_mac := [1] |}; Some {| te_time := 2; te_addr := rb_a1; te_mac := [2] |}].

Example token_rebinding_example :
  (* while remembered, mac1 from addr2 is refused *)
  find_or_add_entry rb_table {| te_time := 3; te_addr := rb_a2; te_mac := [1] |} = (rb_table, false) /\
  (* a third tag evicts the entry of mac1 *)
  let es1 := fst (find_or_add_entry rb_table {| te_time := 3; te_addr := rb_a1; te_mac := [3] |}) in
  es1 = [Some {| te_time := 3; te_addr := rb_a1; te_mac := [3] |}; Some {| te_time := 2; te_addr := rb_a1; te_mac := [2] |}] /\
  (* now mac1 from addr2 is allowed, and bound to addr2 *)
  find_or_add_entry es1 {| te_time := 4; te_addr := rb_a2; te_mac := [1] |} =
    ([Some {| te_time := 3; te_addr := rb_a1; te_mac := [3] |}; Some {| te_time := 4; te_addr := rb_a2; te_mac := [1] |}], true).
Proof. repeat split. Qed.

(* ------------------------------------------------------------------ *)
(* 9. non-vacuity: the positive side, symbolically through the cipher  *)
(* ------------------------------------------------------------------ *)

(* ---- a payload sealed under the session's receive key is delivered ---- *)
Definition delivered (s : nserver) (slot : N) (c : nconn) (q : N) : nserver :=
  set_slot s slot (Some (nc_received (nc_with_replay c (advance_sequence (nc_replay c) q)) (ns_now s))).

Theorem payload_delivered s a slot c q p buf :
  find_by_addr s a = Some (slot, c) -> q < U64 -> 1 <= sequence_bytes_required q + len p ->
  already_received (nc_replay c) q = false ->
  encode OUT_CAP (PPayload p) (ns_protocol s) (Some (q, nc_recv_key c)) = Ok buf ->
  process_packet s a buf = Ok (delivered s slot c q, SRPayload (nc_id c) p) /\
  find_by_addr (delivered s slot c q) a =
    Some (slot, nc_received (nc_with_replay c (advance_sequence (nc_replay c) q)) (ns_now s)) /\
  dgram_type buf = 5 /\ dgram_seq buf = q.
Proof.
  intros Ea Hq Hlen Hnr Henc.
  assert (Hid : packet_id (PPayload p) <> 0) by (cbn [packet_id]; lia).
  assert (Hl : 2 + NC_MAC_BYTES <= len buf).
  { rewrite (encode_sealed_len _ _ _ _ _ _ Hid Henc). cbn [packet_body]. lia. }
  assert (Hdec : decode buf (ns_protocol s) (Some (nc_recv_key c)) (Some (nc_replay c)) =
                 (Some (advance_sequence (nc_replay c) q), Ok (q, PPayload p))).
  { rewrite (decode_encode OUT_CAP (PPayload p) (ns_protocol s) q (nc_recv_key c) buf (Some (nc_replay c))); try assumption.
    - reflexivity.
    - exact I.
    - intros r Hr. injection Hr as <-. rewrite Hnr. apply andb_false_r. }
  split; [|split; [|split]].
  - unfold process_packet. rewrite (ppi_conn _ _ _ _ _ Hl Ea), Hdec. cbn [fst snd conn_step opt_replay].
    rewrite set_slot_twice. reflexivity.
  - apply (find_by_addr_slot_update _ _ _ _ _ Ea). reflexivity.
  - apply (encode_dgram_type _ _ _ _ _ _ Hid Henc).
  - apply (encode_dgram_seq _ _ _ _ _ _ Hid Hq Henc).
Qed.

(* ... and, presented again, ignored *)
Corollary payload_delivered_once s a slot c q p buf s' r :
  table_inv s -> find_by_addr s a = Some (slot, c) -> q < U64MAX -> 1 <= sequence_bytes_required q + len p ->
  already_received (nc_replay c) q = false ->
  encode OUT_CAP (PPayload p) (ns_protocol s) (Some (q, nc_recv_key c)) = Ok buf ->
  process_packet (delivered s slot c q) a buf = Ok (s', r) -> s' = delivered s slot c q /\ r = SRNone.
Proof.
  intros T Ea Hq Hlen Hnr Henc H.
  assert (Hq' : q < U64) by (unfold U64, U64MAX in *; lia).
  destruct (payload_delivered _ _ _ _ _ _ _ Ea Hq' Hlen Hnr Henc) as (_ & Hf & Hty & Hsq).
  apply (replayed_is_noop (delivered s slot c q) a buf slot _ s' r Hf); [rewrite Hty; reflexivity | | exact H].
  rewrite Hsq. nsimpl. apply advance_then_received; [|exact Hq]. apply (table_inv_connected_wf _ _ _ _ T Ea).
Qed.

(* the bound q < U64MAX is needed: sequence number u64::MAX is the EMPTY marker of the window, it never
   counts as received, and the very same datagram is delivered twice (see replay_sentinel_refuted) *)
Lemma sentinel_never_received r :
  rp_wf r -> already_received r U64MAX = false -> already_received (advance_sequence r U64MAX) U64MAX = false.
Proof.
  intros W H0. apply already_received_false in H0. cbv zeta in H0. destruct H0 as [H0 _].
  apply already_received_false. cbv zeta. split.
  - rewrite advance_most_recent. rewrite replay_size_val in *. unfold U64MAX in *. lia.
  - left. rewrite advance_slot_same by exact W. reflexivity.
Qed.

Theorem payload_sentinel_replayed s a slot c p buf :
  table_inv s -> find_by_addr s a = Some (slot, c) -> already_received (nc_replay c) U64MAX = false ->
  encode OUT_CAP (PPayload p) (ns_protocol s) (Some (U64MAX, nc_recv_key c)) = Ok buf ->
  exists s1 s2, process_packet s a buf = Ok (s1, SRPayload (nc_id c) p) /\
                process_packet s1 a buf = Ok (s2, SRPayload (nc_id c) p).
Proof.
  intros T Ea Hnr Henc.
  assert (Hq : U64MAX < U64) by reflexivity.
  assert (Hlen : forall p0 : list N, 1 <= sequence_bytes_required U64MAX + len p0).
  { intros p0. change (sequence_bytes_required U64MAX) with 8. lia. }
  destruct (payload_delivered _ _ _ _ _ _ _ Ea Hq (Hlen p) Hnr Henc) as (H1 & Hf & _).
  set (c1 := nc_received (nc_with_replay c (advance_sequence (nc_replay c) U64MAX)) (ns_now s)) in *.
  assert (Hnr1 : already_received (nc_replay c1) U64MAX = false).
  { unfold c1. nsimpl. apply sentinel_never_received; [apply (table_inv_connected_wf _ _ _ _ T Ea) | exact Hnr]. }
  destruct (payload_delivered (delivered s slot c U64MAX) a slot c1 U64MAX p buf Hf Hq (Hlen p) Hnr1 Henc) as (H2 & _).
  eexists _, _. split; [exact H1 | exact H2].
Qed.

(* ---- a connection request built from a private token validates ---- *)
Definition request_dgram (proto ex : N) (xn key : list N) (t : private_token) : list N :=
  0 :: NC_VERSION_INFO ++ le64 proto ++ le64 ex ++ xn ++ private_encode t proto ex xn key.

Lemma request_dgram_decode proto ex xn key t proto' :
  private_wf t -> proto < U64 -> ex < U64 -> len xn = NC_XNONCE_BYTES ->
  snd (decode (request_dgram proto ex xn key t) proto' None None) =
    Ok (0, PRequest NC_VERSION_INFO proto ex xn (private_encode t proto ex xn key)).
Proof.
  intros W Hp He Hx.
  set (data := private_encode t proto ex xn key).
  pose proof (private_encode_length t proto ex xn key W) as Ld. fold data in Ld.
  assert (Wf : npacket_wf (PRequest NC_VERSION_INFO proto ex xn data)).
  { cbn [npacket_wf]. repeat split; auto. }
  pose proof (NPacketP.read_packet_body _ Wf) as Hr. cbn [packet_id packet_body] in Hr.
  unfold request_dgram. fold data. unfold decode.
  match goal with |- context [len ?b <? 2 + NC_MAC_BYTES] => assert (E : (len b <? 2 + NC_MAC_BYTES) = false) end.
  { rewrite NSlotsP.len_cons, !NSlotsP.len_app, Ld, Hx. unfold le64. rewrite !NSlotsP.len_le_bytes.
    rewrite mac_val, xnonce_bytes_val, private_bytes_val. lia. }
  rewrite E. change (0 mod 16) with 0. change (6 <? 0) with false. change (0 =? 0) with true. cbv iota.
  cbn [snd]. rewrite Hr. reflexivity.
Qed.

Lemma request_dgram_validates s t ex xn :
  private_wf t -> ns_protocol s < U64 -> ex < U64 -> len xn = NC_XNONCE_BYTES -> as_secs (ns_now s) < ex ->
  (ns_secure s = true -> in_host_list s t = true) ->
  request_validates s (request_dgram (ns_protocol s) ex xn (ns_connect_key s) t) t ex.
Proof.
  intros W Hp He Hx Hnow Hh.
  exists NC_VERSION_INFO, (ns_protocol s), xn, (private_encode t (ns_protocol s) ex xn (ns_connect_key s)).
  split; [apply request_dgram_decode; assumption|].
  repeat split; auto. apply private_roundtrip. exact W.
Qed.

Lemma already_received_new q : already_received replay_new q = false.
Proof.
  unfold already_received, replay_new. cbn [rp_most_recent rp_slots].
  rewrite replay_size_val. change (256 <=? 0) with false. cbn [andb].
  rewrite nth_repeatN. reflexivity.
Qed.

Lemma last_match_repeat_none n mac : last_match (repeatN None n) mac = None.
Proof. induction n as [|n IH]; cbn [repeatN last_match]; [reflexivity | exact IH]. Qed.

(* ---- a whole session: request, challenge, response, connected, payload, replay ---- *)
Theorem full_session s a t ex xn q1 resp idx q2 p pay :
  table_inv s -> private_wf t -> ns_protocol s < U64 -> ex < U64 -> len xn = NC_XNONCE_BYTES ->
  as_secs (ns_now s) < ex -> (ns_secure s = true -> in_host_list s t = true) ->
  find_by_addr s a = None -> pend_find a (ns_pending s) = None -> find_by_id s (pt_client_id t) = None ->
  connected_count s < ns_max s -> len (ns_pending s) < NC_MAX_CLIENTS * NC_MAX_PENDING_FACTOR ->
  last_match (ns_entries s) (mac_of (request_dgram (ns_protocol s) ex xn (ns_connect_key s) t)) = None ->
  first_free (ns_clients s) 0 = Some idx -> ns_chal_seq s + 1 < U64 -> q1 < U64 -> q2 < U64MAX ->
  encode OUT_CAP (PResponse (ns_chal_seq s + 1)
                    (aead_seal (ns_chal_key s) (nonce_of (ns_chal_seq s + 1)) [] (challenge_plain (pt_client_id t) (pt_user t))))
         (ns_protocol s) (Some (q1, pt_c2s t)) = Ok resp ->
  1 <= sequence_bytes_required q2 + len p ->
  encode OUT_CAP (PPayload p) (ns_protocol s) (Some (q2, pt_c2s t)) = Ok pay ->
  let req := request_dgram (ns_protocol s) ex xn (ns_connect_key s) t in
  exists s1 chal s2 ka s3,
    process_packet s a req = Ok (s1, SRPacketToSend a chal) /\
    process_packet s1 a resp = Ok (s2, SRConnected (pt_client_id t) a (pt_user t) ka) /\
    process_packet s2 a pay = Ok (s3, SRPayload (pt_client_id t) p) /\
    process_packet s3 a pay = Ok (s3, SRNone) /\
    process_packet s3 a req = Ok (s3, SRNone).
Proof.
  intros T W Hp He Hx Hnow Hh Ea Ep Ei Hc Hpl Hlm Hff Hts Hq1 Hq2 Hresp Hplen Hpay req.
  pose proof (request_dgram_validates s t ex xn W Hp He Hx Hnow Hh) as Hv. fold req in Hv, Hlm.
  destruct W as (Hid & _ & _ & _ & _ & Hul).
  assert (Hfe : snd (find_or_add_entry (ns_entries s) (request_entry s a req)) = true).
  { rewrite find_or_add_entry_eq. cbn [request_entry te_mac]. rewrite Hlm. reflexivity. }
  destruct (handshake_connects s a req t ex q1 resp idx T Hv Ea Ep Ei Hc Hpl Hfe Hff Hid Hul Hts Hq1 Hresp)
    as (s1 & chal & s2 & ka & H1 & _ & H2 & _).
  assert (T1 : table_inv s1).
  { apply process_packet_inv in H1. destruct H1 as [r0 [Hs _]]. apply (ppi_spec_table_inv _ _ _ _ _ Hs T). }
  assert (T2 : table_inv s2).
  { pose proof H2 as H2'. apply process_packet_inv in H2'. destruct H2' as [r0 [Hs _]]. apply (ppi_spec_table_inv _ _ _ _ _ Hs T1). }
  destruct (connected_implies_pending_match _ _ _ _ _ _ _ _ T1 H2)
    as (_ & _ & _ & pc & ts & td & Ep1 & Hi1 & Hu1 & _ & _ & _ & _ & _ & _ & slot & _ & Hfa & _).
  (* the pending entry of a in s1 is the fresh one *)
  destruct (request_gets_challenge s a req t ex T Hv Ea Ei Hc (or_intror Hpl) Hfe) as (d' & H1' & _ & _ & pc' & Hpf & Hnew & _).
  rewrite H1 in H1'. injection H1' as Hs1 _. rewrite <- Hs1 in Hpf. rewrite Ep1 in Hpf. injection Hpf as <-.
  destruct (Hnew Ep) as ((_ & _ & Hrk & _) & _ & Hrp & _).
  set (c2 := promote pc (pt_user t) (ns_now s1)) in *.
  assert (Hproto : ns_protocol s2 = ns_protocol s).
  { assert (P1 : ns_protocol s1 = ns_protocol s) by (rewrite Hs1; reflexivity).
    rewrite <- P1. apply (nsstep_protocol s1 (NSProcess a resp) s2 (NOResult (SRConnected (pt_client_id t) a (pt_user t) ka))).
    cbn [nsstep]. rewrite H2. reflexivity. }
  assert (Hq2' : q2 < U64) by (unfold U64, U64MAX in *; lia).
  assert (Hnr : already_received (nc_replay c2) q2 = false).
  { unfold c2. cbn [promote nc_replay]. rewrite Hrp. apply already_received_new. }
  assert (Hpay' : encode OUT_CAP (PPayload p) (ns_protocol s2) (Some (q2, nc_recv_key c2)) = Ok pay).
  { rewrite Hproto. unfold c2. cbn [promote nc_recv_key]. rewrite Hrk. exact Hpay. }
  destruct (payload_delivered s2 a slot c2 q2 p pay Hfa Hq2' Hplen Hnr Hpay') as (H3 & Hf3 & _).
  exists s1, chal, s2, ka, (delivered s2 slot c2 q2).
  split; [exact H1|]. split; [exact H2|]. split.
  { rewrite H3. unfold c2. cbn [promote nc_id]. rewrite Hi1. reflexivity. }
  split.
  - assert (T3 : table_inv (delivered s2 slot c2 q2)).
    { pose proof H3 as H3'. apply process_packet_inv in H3'. destruct H3' as [r0 [Hs _]]. apply (ppi_spec_table_inv _ _ _ _ _ Hs T2). }
    destruct (process_packet_no_panic _ T3 a pay) as [sx [rx Hpx]].
    destruct (payload_delivered_once s2 a slot c2 q2 p pay sx rx T2 Hfa Hq2 Hplen Hnr Hpay' Hpx) as [-> ->]. exact Hpx.
  - assert (T3 : table_inv (delivered s2 slot c2 q2)).
    { pose proof H3 as H3'. apply process_packet_inv in H3'. destruct H3' as [r0 [Hs _]]. apply (ppi_spec_table_inv _ _ _ _ _ Hs T2). }
    destruct (process_packet_no_panic _ T3 a req) as [sx [rx Hpx]].
    destruct (request_from_connected_ignored _ _ _ _ _ _ _ Hf3 (eq_refl : dgram_type req = 0) Hpx) as [-> ->]. exact Hpx.
Qed.

(* ---- the same on the server of NServerP.server_example and the token of TokenP ---- *)
Definition sc_server : nserver :=
  {| ns_clients := repeatN None 2; ns_pending := []; ns_entries := repeatN None 2048; ns_protocol := 42;
     ns_connect_key := NServerP.ex_key; ns_max := 2; ns_chal_seq := 0; ns_chal_key := ex_chal_key;
     ns_addrs := [ex_addr]; ns_now := 0; ns_global_seq := NC_GLOBAL_SEQUENCE_INIT; ns_secure := true |}.

Lemma sc_server_new : nserver_new 0 2 42 [ex_addr] (Some NServerP.ex_key) ex_chal_key = Ok sc_server.
Proof. reflexivity. Qed.

Definition sc_xnonce : list N := repeatN 9 24.
Definition sc_request : list N := request_dgram 42 300 sc_xnonce NServerP.ex_key ex_private.

Definition sc_id : N := pt_client_id ex_private.
Definition sc_user : list N := pt_user ex_private.

Lemma sc_session :
  exists resp pay s1 chal s2 ka s3,
    encode OUT_CAP (PResponse 1 (aead_seal ex_chal_key (nonce_of 1) [] (challenge_plain sc_id sc_user))) 42
           (Some (0, pt_c2s ex_private)) = Ok resp /\
    encode OUT_CAP (PPayload [1; 2; 3]) 42 (Some (1, pt_c2s ex_private)) = Ok pay /\
    table_inv sc_server /\
    request_validates sc_server sc_request ex_private 300 /\
    process_packet sc_server ex_peer sc_request = Ok (s1, SRPacketToSend ex_peer chal) /\
    process_packet s1 ex_peer resp = Ok (s2, SRConnected sc_id ex_peer sc_user ka) /\
    process_packet s2 ex_peer pay = Ok (s3, SRPayload sc_id [1; 2; 3]) /\
    process_packet s3 ex_peer pay = Ok (s3, SRNone) /\
    process_packet s3 ex_peer sc_request = Ok (s3, SRNone).
Proof.
  assert (T : table_inv sc_server).
  { apply (table_inv_init 0 2 42 [ex_addr] (Some NServerP.ex_key) ex_chal_key); [unfold NC_MAX_CLIENTS; lia | apply sc_server_new]. }
  set (td := aead_seal (ns_chal_key sc_server) (nonce_of (ns_chal_seq sc_server + 1)) []
               (challenge_plain (pt_client_id ex_private) (pt_user ex_private))).
  destruct (encode_small_ok (PResponse (ns_chal_seq sc_server + 1) td) (ns_protocol sc_server) 0 (pt_c2s ex_private)) as [resp Eresp].
  { cbn [packet_id]. lia. }
  { cbn [packet_body]. unfold le64, td. rewrite NSlotsP.len_app, NSlotsP.len_le_bytes, aead_seal_len.
    unfold challenge_plain, le64. rewrite !NSlotsP.len_app, NCodecP.len_zeros. rewrite !NSlotsP.len_le_bytes.
    change (len (pt_user ex_private)) with 256. rewrite challenge_val, mac_val. lia. }
  destruct (encode_small_ok (PPayload [1; 2; 3]) (ns_protocol sc_server) 1 (pt_c2s ex_private)) as [pay Epay].
  { cbn [packet_id]. lia. }
  { cbn [packet_body]. change (len [1; 2; 3]) with 3. lia. }
  assert (U : ns_protocol sc_server < U64 /\ 300 < U64 /\ ns_chal_seq sc_server + 1 < U64 /\ 0 < U64 /\ 1 < U64MAX).
  { cbn [sc_server ns_protocol ns_chal_seq]. unfold U64, U64MAX. lia. }
  destruct U as (U1 & U2 & U3 & U4 & U5).
  assert (Hnow : as_secs (ns_now sc_server) < 300) by (cbn [sc_server ns_now]; change (as_secs 0) with 0; lia).
  assert (Hhost : ns_secure sc_server = true -> in_host_list sc_server ex_private = true) by (intros _; vm_compute; reflexivity).
  assert (Hcnt : connected_count sc_server < ns_max sc_server) by (vm_compute; reflexivity).
  assert (Hpl : len (ns_pending sc_server) < NC_MAX_CLIENTS * NC_MAX_PENDING_FACTOR) by (vm_compute; reflexivity).
  assert (Hplen : 1 <= sequence_bytes_required 1 + len [1; 2; 3]) by (change (len [1; 2; 3]) with 3; lia).
  destruct (full_session sc_server ex_peer ex_private 300 sc_xnonce 0 resp 0 1 [1; 2; 3] pay
              T ex_private_wf U1 U2 eq_refl Hnow Hhost eq_refl eq_refl eq_refl Hcnt Hpl
              (last_match_repeat_none 2048 _) eq_refl U3 U4 U5 Eresp Hplen Epay)
    as (s1 & chal & s2 & ka & s3 & H1 & H2 & H3 & H4 & H5).
  exists resp, pay, s1, chal, s2, ka, s3.
  split; [exact Eresp|]. split; [exact Epay|]. split; [exact T|].
  split; [|exact (conj H1 (conj H2 (conj H3 (conj H4 H5))))].
  apply (request_dgram_validates sc_server ex_private 300 sc_xnonce ex_private_wf U1 U2 eq_refl Hnow Hhost).
Qed.

Example session_example :
  exists resp pay s1 chal s2 ka s3,
    request_validates sc_server sc_request ex_private 300 /\
    process_packet sc_server ex_peer sc_request = Ok (s1, SRPacketToSend ex_peer chal) /\
    process_packet s1 ex_peer resp = Ok (s2, SRConnected sc_id ex_peer sc_user ka) /\
    process_packet s2 ex_peer pay = Ok (s3, SRPayload sc_id [1; 2; 3]) /\
    process_packet s3 ex_peer pay = Ok (s3, SRNone) /\
    process_packet s3 ex_peer sc_request = Ok (s3, SRNone).
Proof.
  destruct sc_session as (resp & pay & s1 & chal & s2 & ka & s3 & _ & _ & _ & H).
  exists resp, pay, s1, chal, s2, ka, s3. exact H.
Qed.

(* ---- the hypotheses of inauthentic_is_noop are satisfiable: a keep-alive sealed under another key
        (27 bytes through the cipher) ---- *)
Example inauthentic_example :
  let s := ce_state (repeatN 8 32) ex_peer 42 in
  table_inv s /\ ~ tag_authentic_for s ex_peer ex_keepalive_dgram /\
  (forall t ex, ~ request_validates s ex_keepalive_dgram t ex) /\
  process_packet s ex_peer ex_keepalive_dgram = Ok (s, SRNone).
Proof.
  intros s.
  assert (T : table_inv s) by apply ce_state_inv.
  assert (Hna : ~ tag_authentic_for s ex_peer ex_keepalive_dgram).
  { intros [[slot [c [H1 H2]]]|[H0 _]].
    - unfold s in H1. rewrite ce_state_find in H1. injection H1 as <- <-.
      vm_compute in H2. destruct H2 as [_ H2]. apply H2. reflexivity.
    - unfold s in H0. rewrite ce_state_find in H0. discriminate. }
  assert (Hnv : forall t ex, ~ request_validates s ex_keepalive_dgram t ex).
  { intros t ex Hv. apply request_validates_type in Hv. vm_compute in Hv. discriminate. }
  split; [exact T|]. split; [exact Hna|]. split; [exact Hnv|].
  destruct (process_packet_no_panic s T ex_peer ex_keepalive_dgram) as [s' [r H]].
  destruct (inauthentic_is_noop _ _ _ _ _ T H Hna Hnv) as [-> ->]. exact H.
Qed.

(* ---- table_inv is needed in unvalidated_request_is_noop: the pending map is modelled by an association
        list; with a duplicated key (impossible for a HashMap) putting the entry back rewrites the
        second copy ---- *)
Definition dup_pc (id : N) : nconn :=
  {| nc_confirmed := false; nc_id := id; nc_send_key := []; nc_recv_key := []; nc_user := []; nc_addr := ex_peer;
     nc_last_recv := 0; nc_last_send := 0; nc_timeout := 15%Z; nc_seq := 0; nc_expire := 100;
     nc_replay := replay_new; nc_chal_floor := 1 |}.
Definition dup_state : nserver :=
  {| ns_clients := [None]; ns_pending := [(ex_peer, dup_pc 1); (ex_peer, dup_pc 2)]; ns_entries := []; ns_protocol := 42;
     ns_connect_key := []; ns_max := 1; ns_chal_seq := 1; ns_chal_key := []; ns_addrs := [];
     ns_now := 0; ns_global_seq := NC_GLOBAL_SEQUENCE_INIT; ns_secure := false |}.

Example unvalidated_request_needs_inv :
  dgram_type (zeros 18) = 0 /\ (forall t ex, ~ request_validates dup_state (zeros 18) t ex) /\
  exists s', process_packet dup_state ex_peer (zeros 18) = Ok (s', SRNone) /\ s' <> dup_state /\ ~ table_inv dup_state.
Proof.
  split; [reflexivity|]. split.
  - intros t ex (v & pr & xn & data & Hd & _). vm_compute in Hd. discriminate.
  - eexists. split; [vm_compute; reflexivity|]. split.
    + intros E. apply (f_equal ns_pending) in E. discriminate E.
    + intros (_ & _ & H3 & _). cbn [dup_state ns_pending map fst distinct_by] in H3. destruct H3 as [H3 _].
      specialize (H3 ex_peer (or_introl eq_refl)).
      vm_compute in H3. discriminate.
Qed.

(* ---- item 6: each cause, on a request that is otherwise perfectly valid ---- *)
Example request_rejects_examples s a :
  table_inv s -> ns_protocol s < U64 ->
  (* sealed for another protocol id *)
  (forall proto, proto < U64 -> proto <> ns_protocol s ->
     process_packet s a (request_dgram proto 300 sc_xnonce (ns_connect_key s) ex_private) = Ok (s, SRNone)) /\
  (* expired *)
  (forall ex, ex < U64 -> ex <= as_secs (ns_now s) ->
     process_packet s a (request_dgram (ns_protocol s) ex sc_xnonce (ns_connect_key s) ex_private) = Ok (s, SRNone)) /\
  (* none of the token's server addresses is one of this server's *)
  (ns_secure s = true -> in_host_list s ex_private = false ->
     process_packet s a (request_dgram (ns_protocol s) 300 sc_xnonce (ns_connect_key s) ex_private) = Ok (s, SRNone)).
Proof.
  intros T Hp.
  assert (K : forall buf v pr ex xn data,
     snd (decode buf (ns_protocol s) None None) = Ok (0, PRequest v pr ex xn data) ->
     v <> NC_VERSION_INFO \/ pr <> ns_protocol s \/ ex <= as_secs (ns_now s) \/
     (forall t, private_decode data (ns_protocol s) ex xn (ns_connect_key s) <> Ok t) \/
     (ns_secure s = true /\ exists t, private_decode data (ns_protocol s) ex xn (ns_connect_key s) = Ok t /\
                                      in_host_list s t = false) ->
     process_packet s a buf = Ok (s, SRNone)).
  { intros buf v pr ex xn data Hd Hc. destruct (process_packet_no_panic s T a buf) as [s' [r H]].
    destruct (request_rejects_noop _ _ _ _ _ _ _ _ _ _ T Hd Hc H) as [-> ->]. exact H. }
  assert (U : 300 < U64) by (unfold U64; lia).
  split; [|split].
  - intros proto Hpr Hne.
    apply (K _ _ _ _ _ _ (request_dgram_decode proto 300 sc_xnonce (ns_connect_key s) ex_private _ ex_private_wf Hpr U eq_refl)).
    right. left. exact Hne.
  - intros ex Hex Hle.
    apply (K _ _ _ _ _ _ (request_dgram_decode (ns_protocol s) ex sc_xnonce (ns_connect_key s) ex_private _ ex_private_wf Hp Hex eq_refl)).
    right. right. left. exact Hle.
  - intros Hs Hh.
    apply (K _ _ _ _ _ _ (request_dgram_decode (ns_protocol s) 300 sc_xnonce (ns_connect_key s) ex_private _ ex_private_wf Hp U eq_refl)).
    right. right. right. right. split; [exact Hs|]. exists ex_private. split; [|exact Hh].
    apply private_roundtrip. apply ex_private_wf.
Qed.

(* ---- item 7: the token of sc_request, bound to another address ---- *)
Definition bound_server : nserver :=
  set_entries sc_server [Some {| te_time := 0; te_addr := ex_addr; te_mac := mac_of sc_request |}].

Example token_bound_example : process_packet bound_server ex_peer sc_request = Ok (bound_server, SRNone).
Proof.
  assert (T : table_inv bound_server).
  { apply (table_inv_of _ [] []); [reflexivity | reflexivity |].
    unfold tbl. cbn [map]. repeat split; try constructor; destruct H. }
  assert (Hv : request_validates bound_server sc_request ex_private 300).
  { apply (request_dgram_validates bound_server ex_private 300 sc_xnonce ex_private_wf);
      [reflexivity | reflexivity | reflexivity | reflexivity | intros _; vm_compute; reflexivity]. }
  destruct (process_packet_no_panic _ T ex_peer sc_request) as [s' [r H]].
  destruct (token_bound_request_dropped bound_server ex_peer sc_request ex_private 300
              {| te_time := 0; te_addr := ex_addr; te_mac := mac_of sc_request |} s' r T Hv) as [-> ->]; [| |exact H|exact H].
  - unfold bound_server. nsimpl. cbn [last_match te_mac]. rewrite bytes_eqb_refl. reflexivity.
  - cbn [te_addr]. discriminate.
Qed.

(* ---- and lifted to the server: on a full table that has forgotten the tag, the request is answered
        with a challenge whatever the address it comes from ---- *)
Corollary forgotten_token_accepted_anywhere s a buf t ex :
  table_inv s -> request_validates s buf t ex ->
  find_by_addr s a = None -> find_by_id s (pt_client_id t) = None -> connected_count s < ns_max s ->
  (pend_find a (ns_pending s) <> None \/ len (ns_pending s) < NC_MAX_CLIENTS * NC_MAX_PENDING_FACTOR) ->
  last_match (ns_entries s) (mac_of buf) = None ->
  exists d, process_packet s a buf = Ok (challenged s a buf t ex, SRPacketToSend a d).
Proof.
  intros T Hv Ea Ei Hc Hp Hm.
  destruct (request_gets_challenge s a buf t ex T Hv Ea Ei Hc Hp) as (d & H & _); [|eauto].
  rewrite find_or_add_entry_eq. cbn [request_entry te_mac]. rewrite Hm. reflexivity.
Qed.

(* ------------------------------------------------------------------ *)
(* what one call does to a connected client                            *)
(* ------------------------------------------------------------------ *)
Definition same_cred (c c' : nconn) : Prop :=
  nc_id c' = nc_id c /\ nc_user c' = nc_user c /\ nc_recv_key c' = nc_recv_key c /\ nc_send_key c' = nc_send_key c /\
  nc_expire c' = nc_expire c /\ nc_addr c' = nc_addr c /\ nc_timeout c' = nc_timeout c.

Lemma same_cred_refl c : same_cred c c.
Proof. unfold same_cred. tauto. Qed.

Lemma same_cred_token c c' a t ex : same_cred c c' -> conn_of_token c a t ex -> conn_of_token c' a t ex.
Proof. unfold same_cred, conn_of_token. intros (-> & -> & -> & -> & -> & -> & ->). tauto. Qed.

(* the window after decode: untouched, or advanced by the (fresh) sequence number of the datagram *)
Lemma decode_window buf proto k r :
  fst (decode buf proto (Some k) (Some r)) = Some r \/
  (fst (decode buf proto (Some k) (Some r)) = Some (advance_sequence r (dgram_seq buf)) /\
   already_received r (dgram_seq buf) = false /\ applies_replay (dgram_type buf) = true).
Proof.
  destruct buf as [|prefix rest]; [rewrite decode_nil; left; reflexivity|].
  destruct (N.eq_dec (prefix mod 16) 0) as [E|E].
  { left. rewrite decode_type0 by exact E. reflexivity. }
  destruct (header_ok_dec prefix rest) as [Hh|Hh].
  2:{ left. apply decode_bad_header; assumption. }
  rewrite decode_sealed_eq by exact Hh. cbv zeta. cbn [dgram_seq dgram_type rp_dup rp_after].
  destruct (applies_replay (prefix mod 16)) eqn:Ea; cbn [andb].
  - destruct (already_received r (le_val (takeN (prefix / 16) rest))) eqn:Er; [left; reflexivity|].
    destruct (aead_open k _ _ _); [right; auto | left; reflexivity].
  - destruct (aead_open k _ _ _); left; reflexivity.
Qed.

Lemma nth_opt_upd_inv {A} (l : list A) : forall i x k y,
  nth_opt (upd l i x) k = Some y -> (k = i /\ y = x) \/ (k <> i /\ nth_opt l k = Some y).
Proof.
  induction l as [|z l IH]; intros i x k y; [destruct i; cbn [upd nth_opt]; discriminate|].
  destruct i as [|i]; destruct k as [|k]; cbn [upd nth_opt].
  - intros H. injection H as <-. left. auto.
  - intros H. right. split; [discriminate | exact H].
  - intros H. right. split; [discriminate | exact H].
  - intros H. destruct (IH _ _ _ _ H) as [[-> ->]|[Hn Hk]]; [left; auto | right; split; [lia | exact Hk]].
Qed.

Lemma nth_opt_app_inv {A} (l1 l2 : list A) : forall k x,
  nth_opt (l1 ++ l2) k = Some x -> nth_opt l1 k = Some x \/ In x l2.
Proof.
  induction l1 as [|z l1 IH]; intros k x; cbn [app].
  - intros H. right. apply (nth_opt_In _ _ _ H).
  - destruct k as [|k]; cbn [nth_opt]; [auto | apply IH].
Qed.

Lemma In_nth_opt {A} (l : list A) x : In x l -> exists k, nth_opt l k = Some x.
Proof.
  induction l as [|z l IH]; [intros []|]. intros [->|H].
  - exists 0%nat. reflexivity.
  - destruct (IH H) as [k Hk]. exists (S k). exact Hk.
Qed.

Lemma conn_step_clients s a slot c rp dr :
  let c1 := nc_with_replay c (opt_replay rp (nc_replay c)) in
  exists X, ns_clients (fst (conn_step s a slot c rp dr)) = upd (ns_clients s) (N.to_nat slot) X /\
            (X = None \/ X = Some c1 \/ X = Some (nc_received c1 (ns_now s))).
Proof.
  cbv zeta. unfold conn_step.
  destruct dr as [[q pkt]|e|site]; [destruct pkt|..]; cbn [fst]; rewrite ?set_slot_twice; eexists; (split; [reflexivity|]); auto.
Qed.

Lemma resp_step_clients s1 a pc1 ts td :
  ns_clients (fst (resp_step s1 a pc1 ts td)) = ns_clients s1 \/
  exists idx, first_free (ns_clients s1) 0 = Some idx /\
    ns_clients (fst (resp_step s1 a pc1 ts td)) =
      upd (ns_clients s1) (N.to_nat idx) (Some (promote pc1 (nc_user pc1) (ns_now s1))).
Proof.
  unfold resp_step.
  destruct (challenge_decode td ts (ns_chal_key s1)) as [[cid cuser]|e|site]; cbn [fst]; auto.
  destruct (ts <? nc_chal_floor pc1); cbn [fst]; auto.
  destruct (negb (cid =? nc_id pc1) || negb (bytes_eqb cuser (nc_user pc1))) eqn:Ek; cbn [fst]; auto.
  apply orb_false_elim in Ek. destruct Ek as [_ Ek2]. apply negb_false_iff, list_eqb_N_eq in Ek2. subst cuser.
  cbv zeta. destruct (find_by_id _ cid); cbn [fst]; auto.
  nsimpl. destruct (first_free (ns_clients s1) 0) as [idx|] eqn:Ef.
  - destruct (encode OUT_CAP (PKeepAlive _ _) _ _); cbn [fst]; auto.
    right. exists idx. split; reflexivity.
  - destruct (encode OUT_CAP PDenied _ _); cbn [fst]; auto.
Qed.

Lemma handle_request_clients s a v pr ex xn data :
  ns_clients (fst (handle_request s a v pr ex xn data)) = ns_clients s.
Proof.
  destruct (handle_request s a v pr ex xn data) as [s' r] eqn:E. apply handle_request_spec in E.
  apply (hr_spec_clients _ _ _ _ _ _ _ E).
Qed.

Lemma first_free_nth s idx : first_free (ns_clients s) 0 = Some idx -> nth_opt (ns_clients s) (N.to_nat idx) = Some None.
Proof.
  intros H. destruct (free_split _ _ H) as [l1 [l2 [E1 [E2 _]]]]. rewrite E1, E2. apply nth_opt_app_mid.
Qed.

(* one call of process_packet, seen from slot k *)
Lemma ppi_client_frame s a buf k c' :
  table_inv s -> nth_opt (ns_clients (fst (process_packet_internal s a buf))) k = Some (Some c') ->
  (exists c, nth_opt (ns_clients s) k = Some (Some c) /\ same_cred c c' /\
     (nc_replay c' = nc_replay c \/
      (nc_addr c = a /\ nc_replay c' = advance_sequence (nc_replay c) (dgram_seq buf) /\
       already_received (nc_replay c) (dgram_seq buf) = false))) \/
  (nth_opt (ns_clients s) k = Some None /\ exists pc, In (a, pc) (ns_pending s) /\ same_cred pc c').
Proof.
  intros T H.
  assert (Old : nth_opt (ns_clients s) k = Some (Some c') ->
    (exists c, nth_opt (ns_clients s) k = Some (Some c) /\ same_cred c c' /\
       (nc_replay c' = nc_replay c \/
        (nc_addr c = a /\ nc_replay c' = advance_sequence (nc_replay c) (dgram_seq buf) /\
         already_received (nc_replay c) (dgram_seq buf) = false))) \/
    (nth_opt (ns_clients s) k = Some None /\ exists pc, In (a, pc) (ns_pending s) /\ same_cred pc c')).
  { intros Hk. left. exists c'. split; [exact Hk|]. split; [apply same_cred_refl | left; reflexivity]. }
  destruct (N.lt_ge_cases (len buf) (2 + NC_MAC_BYTES)) as [Hl|Hl].
  { rewrite (ppi_short _ _ _ Hl) in H. apply Old. exact H. }
  destruct (find_by_addr s a) as [[slot c]|] eqn:Ea.
  { (* connected *)
    rewrite (ppi_conn _ _ _ _ _ Hl Ea) in H.
    destruct (conn_step_clients s a slot c (fst (decode buf (ns_protocol s) (Some (nc_recv_key c)) (Some (nc_replay c))))
                (snd (decode buf (ns_protocol s) (Some (nc_recv_key c)) (Some (nc_replay c))))) as [X [EX HX]].
    cbv zeta in HX. rewrite EX in H. apply nth_opt_upd_inv in H. destruct H as [[-> HX']|[_ Hk]]; [|apply Old; exact Hk].
    subst X.
    destruct (lookup_nth _ _ _ _ Ea) as [Hn Hf]. apply addr_eqb_eq in Hf.
    left. exists c. split; [exact Hn|].
    assert (W : forall r', opt_replay (fst (decode buf (ns_protocol s) (Some (nc_recv_key c)) (Some (nc_replay c)))) (nc_replay c) = r' ->
      r' = nc_replay c \/ (nc_addr c = a /\ r' = advance_sequence (nc_replay c) (dgram_seq buf) /\
                           already_received (nc_replay c) (dgram_seq buf) = false)).
    { intros r' <-. destruct (decode_window buf (ns_protocol s) (nc_recv_key c) (nc_replay c)) as [->|[-> [Hr _]]];
        cbn [opt_replay]; auto. }
    destruct HX as [HX|[HX|HX]]; [discriminate | |]; injection HX as ->; (split; [unfold same_cred; nsimpl; tauto|]); nsimpl;
      apply W; reflexivity. }
  destruct (pend_find a (ns_pending s)) as [pc|] eqn:Ep.
  2:{ rewrite (ppi_unknown _ _ _ Hl Ea Ep) in H. apply Old.
      destruct (snd (decode buf (ns_protocol s) None None)) as [[q p]|e|site]; [|exact H..].
      destruct p; cbn [unknown_step fst] in H; try exact H. rewrite handle_request_clients in H. exact H. }
  (* pending *)
  rewrite (ppi_pend _ _ _ _ Hl Ea Ep) in H. unfold pend_step in H.
  destruct (snd (decode buf (ns_protocol s) (Some (nc_recv_key pc)) (Some (nc_replay pc)))) as [[q p]|e|site];
    [|apply Old; exact H..].
  destruct p as [v pr ex xn data| |ts td|ts td|ci mc|pl|]; try (apply Old; exact H).
  - rewrite handle_request_clients in H. apply Old. exact H.
  - match type of H with context [resp_step ?s1 a ?pc1 ts td] => pose proof (resp_step_clients s1 a pc1 ts td) as RC end.
    destruct RC as [E|[idx [Hff E]]]; rewrite E in H; nsimpl_in H; [|nsimpl_in Hff].
    + apply Old. exact H.
    + apply nth_opt_upd_inv in H. destruct H as [[-> Hc]|[_ Hk]]; [|apply Old; exact Hk].
      injection Hc as ->. right. split; [apply first_free_nth; exact Hff|].
      exists pc. split; [apply pend_find_In; exact Ep|]. unfold same_cred, promote. nsimpl. tauto.
Qed.

Lemma nsstep_client_frame s o s' out k c' :
  table_inv s -> nsstep s o = Ok (s', out) -> nth_opt (ns_clients s') k = Some (Some c') ->
  (exists c, nth_opt (ns_clients s) k = Some (Some c) /\ same_cred c c' /\
     (nc_replay c' = nc_replay c \/
      exists buf, o = NSProcess (nc_addr c) buf /\ nc_replay c' = advance_sequence (nc_replay c) (dgram_seq buf) /\
                  already_received (nc_replay c) (dgram_seq buf) = false)) \/
  (nth_opt (ns_clients s) k = Some None /\ exists a buf pc, o = NSProcess a buf /\ In (a, pc) (ns_pending s) /\ same_cred pc c').
Proof.
  intros T E H.
  assert (Old : nth_opt (ns_clients s) k = Some (Some c') ->
    (exists c, nth_opt (ns_clients s) k = Some (Some c) /\ same_cred c c' /\
       (nc_replay c' = nc_replay c \/
        exists buf, o = NSProcess (nc_addr c) buf /\ nc_replay c' = advance_sequence (nc_replay c) (dgram_seq buf) /\
                    already_received (nc_replay c) (dgram_seq buf) = false)) \/
    (nth_opt (ns_clients s) k = Some None /\ exists a buf pc, o = NSProcess a buf /\ In (a, pc) (ns_pending s) /\ same_cred pc c')).
  { intros Hk. left. exists c'. split; [exact Hk|]. split; [apply same_cred_refl | left; reflexivity]. }
  (* a slot found by id that is cleared or marked as sent *)
  assert (Sent : forall id slot c, find_by_id s id = Some (slot, c) ->
     forall X, (X = None \/ X = Some (nc_sent c (ns_now s))) ->
     nth_opt (ns_clients (set_slot s slot X)) k = Some (Some c') ->
     (exists c, nth_opt (ns_clients s) k = Some (Some c) /\ same_cred c c' /\
       (nc_replay c' = nc_replay c \/
        exists buf, o = NSProcess (nc_addr c) buf /\ nc_replay c' = advance_sequence (nc_replay c) (dgram_seq buf) /\
                    already_received (nc_replay c) (dgram_seq buf) = false)) \/
     (nth_opt (ns_clients s) k = Some None /\ exists a buf pc, o = NSProcess a buf /\ In (a, pc) (ns_pending s) /\ same_cred pc c')).
  { intros id slot c Hf X HX Hk. nsimpl_in Hk. apply nth_opt_upd_inv in Hk. destruct Hk as [[-> Hc]|[_ Hk]]; [|apply Old; exact Hk].
    destruct HX as [->| ->]; [discriminate|]. injection Hc as ->.
    destruct (lookup_nth _ _ _ _ Hf) as [Hn _]. left. exists c. split; [exact Hn|].
    split; [unfold same_cred; nsimpl; tauto | left; reflexivity]. }
  destruct o as [a buf|dt|id|id|id p|m]; cbn [nsstep] in E.
  - unfold process_packet in E. destruct (process_packet_internal s a buf) as [s1 r0] eqn:Ep.
    assert (Hs : s' = s1) by (destruct r0; cbn [bind] in E; try discriminate; injection E as <- _; reflexivity).
    subst s1. pose proof (ppi_client_frame s a buf k c' T) as K. rewrite Ep in K. cbn [fst] in K.
    destruct (K H) as [[c [Hn [Hc Hr]]]|[Hn [pc [Hin Hc]]]].
    + left. exists c. split; [exact Hn|]. split; [exact Hc|].
      destruct Hr as [Hr|[Ha [Hr Hnr]]]; [left; exact Hr|]. right. exists buf. rewrite Ha. auto.
    + right. split; [exact Hn|]. exists a, buf, pc. auto.
  - injection E as <- _. apply Old. exact H.
  - destruct (update_client s id) as [[s1 r1]|e|site] eqn:E1; cbn [bind] in E; try discriminate.
    injection E as <- _. cbn [fst] in H. apply update_client_spec in E1.
    destruct E1 as [|slot c p0 Hf _ _|slot c out0 Hf _ _]; [apply Old; exact H | |].
    + apply (Sent _ _ _ Hf None); auto.
    + apply (Sent _ _ _ Hf (Some (nc_sent c (ns_now s)))); auto.
  - destruct (nserver_disconnect s id) as [[s1 r1]|e|site] eqn:E1; cbn [bind] in E; try discriminate.
    injection E as <- _. cbn [fst] in H. apply nserver_disconnect_spec in E1.
    destruct E1 as [|slot c p0 Hf _]; [apply Old; exact H|]. apply (Sent _ _ _ Hf None); auto.
  - destruct (generate_payload_packet s id p) as [s1 r1] eqn:E1. apply generate_payload_spec in E1.
    destruct E1 as [|slot c out0 Hf _]; injection E as <- _; [apply Old; exact H|].
    apply (Sent _ _ _ Hf (Some (nc_sent c (ns_now s)))); auto.
  - injection E as <- _. destruct (set_max_clients_clients s m) as [n En]. rewrite En in H.
    apply nth_opt_app_inv in H. destruct H as [H|H]; [apply Old; exact H|]. apply In_repeatN in H. discriminate.
Qed.

(* ------------------------------------------------------------------ *)
(* 5'. every connected client goes back to a validated request         *)
(* ------------------------------------------------------------------ *)
Definition clients_valid (s0 : nserver) (ops : list nsop) (s : nserver) : Prop :=
  forall k c, nth_opt (ns_clients s) k = Some (Some c) ->
    exists k1 s1 buf0 t ex, call_at s0 ops k1 s1 (nc_addr c) buf0 /\ request_validates s1 buf0 t ex /\
                            conn_of_token c (nc_addr c) t ex.

Theorem client_implies_valid_request ops : forall s0 s outs,
  table_inv s0 -> ns_pending s0 = [] -> connected s0 = [] -> nsrun s0 ops = Ok (s, outs) -> clients_valid s0 ops s.
Proof.
  induction ops as [|o l IH] using rev_ind; intros s0 s outs T0 Hp Hc H.
  - cbn [nsrun] in H. injection H as <- _. intros k c Hk. apply nth_opt_In in Hk.
    apply some_list_In in Hk. fold (connected s0) in Hk. rewrite Hc in Hk. destruct Hk.
  - apply nsrun_app in H. destruct H as (s1 & o1 & o2 & H1 & H2 & ->).
    cbn [nsrun] in H2. destruct (nsstep s1 o) as [[s2 out]|e|site] eqn:E; cbn [bind] in H2; try discriminate.
    injection H2 as <- _.
    pose proof (table_inv_run _ _ _ _ T0 H1) as T1.
    specialize (IH _ _ _ T0 Hp Hc H1).
    pose proof (pending_implies_valid_request _ _ _ _ T0 Hp H1) as PV.
    intros k c' Hk.
    destruct (nsstep_client_frame _ _ _ _ _ _ T1 E Hk) as [[c [Hn [Hsc _]]]|[_ [a [buf [pc [-> [Hin Hsc]]]]]]].
    + destruct (IH _ _ Hn) as (k1 & sk & buf0 & t & ex & Hca & Hv & Hct).
      assert (Ha : nc_addr c' = nc_addr c) by apply Hsc.
      exists k1, sk, buf0, t, ex. rewrite Ha. split; [apply call_at_app; exact Hca|]. split; [exact Hv|].
      apply (same_cred_token _ _ _ _ _ Hsc Hct).
    + destruct (PV _ _ Hin) as (k1 & sk & buf0 & t & ex & Hca & Hv & Hct).
      assert (Ha : nc_addr c' = a).
      { destruct Hsc as (_ & _ & _ & _ & _ & Ha & _). rewrite Ha. apply Hct. }
      exists k1, sk, buf0, t, ex. rewrite Ha. split; [apply call_at_app; exact Hca|]. split; [exact Hv|].
      apply (same_cred_token _ _ _ _ _ Hsc Hct).
Qed.

(* hence: a payload surfaces (as coming from client id) only if it is sealed under the client-to-server key
   of a private token, for that client id, that the server validated earlier in a request from the same
   address *)
Theorem payload_implies_valid_request ops s0 s outs k2 id p :
  table_inv s0 -> ns_pending s0 = [] -> connected s0 = [] -> nsrun s0 ops = Ok (s, outs) ->
  nth_error outs k2 = Some (NOResult (SRPayload id p)) ->
  exists a buf s2 k1 s1 buf0 t ex,
    call_at s0 ops k2 s2 a buf /\ (k1 < k2)%nat /\ call_at s0 ops k1 s1 a buf0 /\ request_validates s1 buf0 t ex /\
    pt_client_id t = id /\
    exists prefix seqbytes,
      buf = prefix :: seqbytes ++ aead_seal (pt_c2s t) (nonce_of (dgram_seq buf)) (packet_aad prefix (ns_protocol s2)) p /\
      len seqbytes = prefix / 16.
Proof.
  intros T0 Hp Hc H Hn.
  destruct (nsrun_nth _ _ _ _ _ _ H Hn) as (s2 & o2 & op & s3 & H2 & Hop & E).
  pose proof (table_inv_run _ _ _ _ T0 H2) as T2.
  destruct op as [a buf|dt|id0|id0|id0 pl|m]; cbn [nsstep] in E.
  2:{ discriminate. }
  2:{ destruct (update_client s2 id0) as [[sx rx]|e|site] eqn:E1; cbn [bind] in E; try discriminate.
      injection E as _ Hr. cbn [snd] in Hr. apply update_client_spec in E1. destruct E1; discriminate. }
  2:{ destruct (nserver_disconnect s2 id0) as [[sx rx]|e|site] eqn:E1; cbn [bind] in E; try discriminate.
      injection E as _ Hr. cbn [snd] in Hr. apply nserver_disconnect_spec in E1. destruct E1; discriminate. }
  2:{ destruct (generate_payload_packet s2 id0 pl) as [sx rx]. destruct rx; discriminate. }
  2:{ discriminate. }
  destruct (process_packet s2 a buf) as [[sx rx]|e|site] eqn:E1; cbn [bind] in E; try discriminate.
  injection E as -> ->. cbn [fst snd] in *.
  destruct (payload_only_authentic _ _ _ _ _ _ T2 E1) as (slot & c & Ea & Hid & _ & _ & (prefix & sb & Hb & Hl) & _).
  destruct (lookup_nth _ _ _ _ Ea) as [Hnth Hf]. apply addr_eqb_eq in Hf.
  destruct (client_implies_valid_request _ _ _ _ T0 Hp Hc H2 _ _ Hnth) as (k1 & s1 & buf0 & t & ex & Hca & Hv & Hct).
  rewrite Hf in Hca. destruct Hct as (Ci & _ & Crk & _).
  exists a, buf, s2, k1, s1, buf0, t, ex.
  split. { split; [exact Hop | eauto]. }
  split. { apply call_at_lt in Hca. rewrite firstn_length in Hca. lia. }
  split. { rewrite <- (firstn_skipn k2 ops). apply call_at_app. exact Hca. }
  split; [exact Hv|]. split; [congruence|].
  exists prefix, sb. rewrite <- Crk. auto.
Qed.

(* ------------------------------------------------------------------ *)
(* 3'. along a run: a session delivers a sequence number at most once  *)
(* ------------------------------------------------------------------ *)
(* what the window has seen, it keeps seeing *)
Lemma received_stays r q q' :
  rp_wf r -> q' < U64MAX -> already_received r q = true -> already_received r q' = false ->
  already_received (advance_sequence r q') q = true.
Proof.
  intros W Hq' H1 H2.
  apply already_received_true in H1. apply already_received_false in H2. cbv zeta in H1, H2.
  apply already_received_true. cbv zeta. rewrite advance_most_recent.
  destruct H1 as [[H1 H1']|[H1 H1']]; [left; lia|].
  destruct H2 as [_ H2].
  destruct (Nat.eq_dec (N.to_nat (q' mod NC_REPLAY_SIZE)) (N.to_nat (q mod NC_REPLAY_SIZE))) as [E|E].
  - right. rewrite <- E in *. rewrite advance_slot_same by exact W.
    destruct H2 as [H2|H2]; [congruence|]. unfold U64MAX in *. lia.
  - right. rewrite advance_slot_other by exact E. auto.
Qed.

Definition op_bounded (o : nsop) : Prop := match o with NSProcess _ buf => dgram_seq buf < U64MAX | _ => True end.

(* the sequence numbers of the datagrams that surfaced as payloads of client id, in order *)
Fixpoint payload_seqs (id : N) (ops : list nsop) (outs : list nsout) : list N :=
  match ops, outs with
  | o :: t, out :: t' =>
      match o, out with
      | NSProcess _ buf, NOResult (SRPayload id' _) =>
          if id' =? id then dgram_seq buf :: payload_seqs id t t' else payload_seqs id t t'
      | _, _ => payload_seqs id t t'
      end
  | _, _ => []
  end.

Lemma session_step s o s1 out id slot c :
  table_inv s -> nsstep s o = Ok (s1, out) -> find_by_id s id = Some (slot, c) -> find_by_id s1 id <> None ->
  op_bounded o ->
  exists c1, find_by_id s1 id = Some (slot, c1) /\
    (nc_replay c1 = nc_replay c \/
     exists q, q < U64MAX /\ nc_replay c1 = advance_sequence (nc_replay c) q /\ already_received (nc_replay c) q = false) /\
    (forall a buf p, o = NSProcess a buf -> out = NOResult (SRPayload id p) ->
       nc_replay c1 = advance_sequence (nc_replay c) (dgram_seq buf) /\
       already_received (nc_replay c) (dgram_seq buf) = false).
Proof.
  intros T E Hf Hs Hb. pose proof (table_inv_step _ _ _ _ T E) as T1.
  destruct (seq_frame _ _ _ _ _ _ _ T E Hf) as [Hn|[c1 [Hf1 _]]]; [contradiction|].
  exists c1. split; [exact Hf1|].
  destruct (lookup_nth _ _ _ _ Hf) as [Hn _]. destruct (lookup_nth _ _ _ _ Hf1) as [Hn1 _].
  split.
  - destruct (nsstep_client_frame _ _ _ _ _ _ T E Hn1) as [[c0 [Hn0 [_ Hr]]]|[Hn0 _]]; [|congruence].
    rewrite Hn in Hn0. injection Hn0 as <-.
    destruct Hr as [Hr|[buf [-> [Hr Hnr]]]]; [left; exact Hr|].
    right. exists (dgram_seq buf). cbn [op_bounded] in Hb. auto.
  - intros a buf p -> ->. cbn [nsstep] in E.
    destruct (process_packet s a buf) as [[sx rx]|e|site] eqn:E1; cbn [bind] in E; try discriminate.
    injection E as -> ->. cbn [fst snd] in *.
    destruct (payload_only_authentic _ _ _ _ _ _ T E1) as (slot' & c' & Ea & Hid & _ & Hnr & _ & c3 & Ea3 & Hid3 & Hr3 & _).
    destruct (find_by_addr_id _ _ _ _ T Ea) as [_ K]. rewrite Hid, Hf in K. injection K as <- <-.
    destruct (find_by_addr_id _ _ _ _ T1 Ea3) as [_ K3]. rewrite Hid3, Hf1 in K3. injection K3 as <-.
    split; [exact Hr3 | exact Hnr].
Qed.

Theorem session_payloads_once ops : forall s s' outs id slot c,
  table_inv s -> nsrun s ops = Ok (s', outs) -> find_by_id s id = Some (slot, c) -> stays_connected id s ops ->
  Forall op_bounded ops ->
  NoDup (payload_seqs id ops outs) /\
  forall q, In q (payload_seqs id ops outs) -> already_received (nc_replay c) q = false.
Proof.
  induction ops as [|o ops IH]; intros s s' outs id slot c T; cbn [nsrun stays_connected].
  - intros H _ _ _. injection H as _ <-. cbn [payload_seqs]. split; [constructor | intros q []].
  - destruct (nsstep s o) as [[s1 out]|e|site] eqn:E; cbn [bind]; try discriminate.
    destruct (nsrun s1 ops) as [[s2 outs2]|e|site] eqn:E2; cbn [bind]; try discriminate.
    intros H Hf [Hs Hrest] Hb. injection H as _ <-. inversion Hb as [|x l Hb0 Hb']; subst.
    pose proof (table_inv_step _ _ _ _ T E) as T1.
    destruct (session_step _ _ _ _ _ _ _ T E Hf Hs Hb0) as [c1 [Hf1 [Hr Hpay]]].
    destruct (IH _ _ _ _ _ _ T1 E2 Hf1 Hrest Hb') as [ND Hfresh].
    pose proof (table_inv_connected_wf _ _ _ _ T Hf) as W.
    (* freshness with respect to the window before the step *)
    assert (Back : forall q, already_received (nc_replay c1) q = false -> already_received (nc_replay c) q = false).
    { intros q Hq. destruct Hr as [Hr|[q0 [Hq0 [Hr Hnr]]]]; [rewrite <- Hr; exact Hq|].
      destruct (already_received (nc_replay c) q) eqn:Eq; [|reflexivity].
      rewrite Hr, (received_stays _ _ _ W Hq0 Eq Hnr) in Hq. discriminate. }
    assert (Rest : NoDup (payload_seqs id ops outs2) /\
                   forall q, In q (payload_seqs id ops outs2) -> already_received (nc_replay c) q = false).
    { split; [exact ND|]. intros q Hq. apply Back. apply Hfresh. exact Hq. }
    cbn [payload_seqs].
    destruct o as [a buf|dt|id0|id0|id0 pl|m]; try exact Rest.
    destruct out as [r| |]; try exact Rest. destruct r as [|a0 d|id' p|id' a0 u d|id' a0 d]; try exact Rest.
    destruct (id' =? id) eqn:Ei; [|exact Rest]. apply N.eqb_eq in Ei. subst id'.
    destruct (Hpay a buf p eq_refl eq_refl) as [Hr1 Hnr1].
    split.
    + constructor; [|exact ND]. intros Hin. apply Hfresh in Hin.
      rewrite Hr1, advance_then_received in Hin; [discriminate | exact W | exact Hb0].
    + intros q [<-|Hq]; [exact Hnr1 | apply Rest; exact Hq].
Qed.

(* the same as one run from the initial state: the hypotheses of the run-level theorems
   (pending_implies_valid_request, connected_implies_valid_request, client_implies_valid_request,
   payload_implies_valid_request, session_payloads_once) are satisfiable, and their conclusions are not
   trivially so: a client does get connected, a payload does surface, the replayed one does not *)
Example session_run_example :
  exists resp pay chal ka s,
    let ops := [NSProcess ex_peer sc_request; NSProcess ex_peer resp; NSProcess ex_peer pay; NSProcess ex_peer pay] in
    let outs := [NOResult (SRPacketToSend ex_peer chal); NOResult (SRConnected sc_id ex_peer sc_user ka);
                 NOResult (SRPayload sc_id [1; 2; 3]); NOResult SRNone] in
    table_inv sc_server /\ ns_pending sc_server = [] /\ connected sc_server = [] /\
    nsrun sc_server ops = Ok (s, outs) /\ Forall op_bounded ops /\ payload_seqs sc_id ops outs = [1].
Proof.
  destruct sc_session as (resp & pay & s1 & chal & s2 & ka & s3 & Eresp & Epay & T & _ & H1 & H2 & H3 & H4 & _).
  assert (Hid5 : packet_id (PPayload [1; 2; 3]) <> 0) by (cbn [packet_id]; lia).
  assert (Hid3 : forall td, packet_id (PResponse 1 td) <> 0) by (intros td; cbn [packet_id]; lia).
  assert (U : 1 < U64 /\ 0 < U64) by (unfold U64; lia). destruct U as [U1 U0].
  pose proof (encode_dgram_seq _ _ _ _ _ _ Hid5 U1 Epay) as Sp.
  pose proof (encode_dgram_seq _ _ _ _ _ _ (Hid3 _) U0 Eresp) as Sr.
  exists resp, pay, chal, ka, s3. cbv zeta.
  split; [exact T|]. split; [reflexivity|]. split; [reflexivity|]. split; [|split].
  - cbn [nsrun nsstep]. rewrite H1. cbn [bind fst snd]. rewrite H2. cbn [bind fst snd].
    rewrite H3. cbn [bind fst snd]. rewrite H4. cbn [bind fst snd]. reflexivity.
  - repeat constructor; cbn [op_bounded]; rewrite ?Sp, ?Sr; try (unfold U64MAX; lia).
  - cbn [payload_seqs]. rewrite N.eqb_refl, Sp. reflexivity.
Qed.

(* ------------------------------------------------------------------ *)
Print Assumptions inauthentic_is_noop.
Print Assumptions unvalidated_request_is_noop.
Print Assumptions request_from_connected_ignored.
Print Assumptions inauthentic_opens_refuted.
Print Assumptions replayed_is_noop.
Print Assumptions replayed_is_noop_pending.
Print Assumptions payload_only_authentic.
Print Assumptions disconnected_only_authentic.
Print Assumptions connected_implies_pending_match.
Print Assumptions pending_implies_valid_request.
Print Assumptions connected_implies_valid_request.
Print Assumptions request_rejects.
Print Assumptions request_rejects_noop.
Print Assumptions request_validates_sealed.
Print Assumptions token_bound_to_address.
Print Assumptions token_same_address.
Print Assumptions token_bound_request_dropped.
Print Assumptions token_rebinding_refuted.
Print Assumptions token_rebinding_example.
Print Assumptions request_gets_challenge.
Print Assumptions handshake_connects.
Print Assumptions pending_address_locked.
Print Assumptions payload_delivered.
Print Assumptions payload_delivered_once.
Print Assumptions payload_sentinel_replayed.
Print Assumptions full_session.
Print Assumptions session_example.
Print Assumptions session_run_example.
Print Assumptions inauthentic_example.
Print Assumptions unvalidated_request_needs_inv.
Print Assumptions request_rejects_examples.
Print Assumptions token_bound_example.
Print Assumptions forgotten_token_accepted_anywhere.
Print Assumptions client_implies_valid_request.
Print Assumptions payload_implies_valid_request.
Print Assumptions session_payloads_once.
