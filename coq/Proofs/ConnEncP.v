(* ConnEncP.v - to_bytes on packets that need not be packet_wf (the library can build packets
   whose channel id, slice count or counters are outside what the decoder accepts):
   the only panic is the varint unreachable!(), the only error is BufferTooShort, and the
   length written is always len (enc_packet p), so that the closed forms of PacketP apply. *)
From RenetV Require Import Base Consts Varint Packet.
From RenetV Require Import Spec.CodecSpec Proofs.VarintP Proofs.PacketP.
Require Import Lia ZifyBool ZifyN.
Arguments N.add : simpl never.
Arguments N.sub : simpl never.
Arguments N.mul : simpl never.
Arguments N.div : simpl never.
Arguments N.modulo : simpl never.
Arguments N.pow : simpl never.
Arguments N.eqb : simpl never.
Arguments N.ltb : simpl never.
Arguments N.leb : simpl never.
Open Scope N_scope.

(* [wr G r w n]: starting from writer w, the write r appends n bytes if it succeeds (and then
   the varint side condition G holds), fails only for lack of room for those n bytes, and
   panics only at the varint unreachable!(), exactly when G fails *)
Definition wr (G : Prop) (r : sres writer) (w : writer) (n : N) : Prop :=
  match r with
  | Ok w' => G /\ len (w_out w') = len (w_out w) + n /\ w_cap w = w_cap w' + n
  | Err e => e = BufferTooShort /\ w_cap w < n
  | Panic s => s = SITE_VARINT_TOO_LARGE /\ ~ G
  end.

Lemma wr_weaken (G G' : Prop) r w n n' : wr G r w n -> (G <-> G') -> n = n' -> wr G' r w n'.
Proof. intros H HG <-. destruct r; cbn [wr] in *; tauto. Qed.

Lemma wr_put_bytes w b : wr True (put_bytes w b) w (len b).
Proof.
  rewrite put_bytes_spec. destruct (N.leb_spec (len b) (w_cap w)); cbn [wr w_push w_out w_cap].
  - rewrite len_app. split; [exact I|]. split; lia.
  - split; [reflexivity|lia].
Qed.

Lemma wr_put_varint w v : wr (v <= VARINT_MAX) (put_varint w v) w (len (varint_bytes v)).
Proof.
  unfold put_varint. destruct (N.ltb_spec VARINT_MAX v).
  - cbn [wr]. split; [reflexivity|lia].
  - eapply wr_weaken; [apply wr_put_bytes| |reflexivity]. tauto.
Qed.

Lemma wr_put_u8 w v (x : N) : wr True (put_u8 w v) w (len [x]).
Proof. unfold put_u8. eapply wr_weaken; [apply wr_put_bytes|tauto|reflexivity]. Qed.

Lemma wr_put_u16 w v x : wr True (put_u16 w v) w (len (be_bytes 2 x)).
Proof.
  unfold put_u16. eapply wr_weaken; [apply wr_put_bytes|tauto|]. now rewrite !len_be_bytes.
Qed.

Lemma wr_bind (G1 G2 : Prop) r f w n m :
  wr G1 r w n -> (forall w', wr G2 (f w') w' m) -> wr (G1 /\ G2) (bind r f) w (n + m).
Proof.
  intros H1 H2. destruct r as [w1|e|s]; cbn [bind wr] in *.
  - specialize (H2 w1). destruct (f w1) as [w2|e|s]; cbn [wr] in *.
    + destruct H1 as (A & B & C), H2 as (D & E & F). split; [tauto|]. split; lia.
    + destruct H1 as (A & B & C), H2 as (D & E). split; [exact D|lia].
    + split; tauto.
  - destruct H1. split; [assumption|lia].
  - split; tauto.
Qed.

Lemma wr_ok w : wr True (Ok w) w 0.
Proof. cbn [wr]. split; [exact I|]. split; lia. Qed.

(* ---------- the loops ---------- *)
Definition rel_msg_vok (im : N * list N) : Prop := fst im <= VARINT_MAX /\ len (snd im) <= VARINT_MAX.
Definition unrel_msg_vok (m : list N) : Prop := len m <= VARINT_MAX.

Lemma wr_put_rel_msgs ms : forall w,
  wr (Forall rel_msg_vok ms) (put_rel_msgs w ms) w (len (enc_rel_msgs ms)).
Proof.
  induction ms as [|[id m] t IH]; intros w; cbn [put_rel_msgs enc_rel_msgs].
  - eapply wr_weaken; [apply wr_ok| |reflexivity]. split; auto.
  - eapply wr_weaken.
    + apply wr_bind; [apply wr_put_varint|]. intros w1.
      apply wr_bind; [apply wr_put_varint|]. intros w2.
      apply wr_bind; [apply wr_put_bytes|]. intros w3. apply IH.
    + rewrite Forall_cons_iff. unfold rel_msg_vok. cbn [fst snd]. tauto.
    + unfold enc_rel_msg. cbn [fst snd]. rewrite !len_app. lia.
Qed.

Lemma wr_put_unrel_msgs ms : forall w,
  wr (Forall unrel_msg_vok ms) (put_unrel_msgs w ms) w (len (enc_unrel_msgs ms)).
Proof.
  induction ms as [|m t IH]; intros w; cbn [put_unrel_msgs enc_unrel_msgs].
  - eapply wr_weaken; [apply wr_ok| |reflexivity]. split; auto.
  - eapply wr_weaken.
    + apply wr_bind; [apply wr_put_varint|]. intros w1.
      apply wr_bind; [apply wr_put_bytes|]. intros w2. apply IH.
    + rewrite Forall_cons_iff. unfold unrel_msg_vok. tauto.
    + unfold enc_unrel_msg. rewrite !len_app. lia.
Qed.

Definition slice_vok (s : slice) : Prop :=
  sl_id s <= VARINT_MAX /\ sl_index s <= VARINT_MAX /\ sl_num s <= VARINT_MAX /\
  len (sl_payload s) <= VARINT_MAX.

Lemma wr_put_slice w s : wr (slice_vok s) (put_slice w s) w (len (enc_slice s)).
Proof.
  unfold put_slice. eapply wr_weaken.
  - apply wr_bind; [apply wr_put_varint|]. intros w1.
    apply wr_bind; [apply wr_put_varint|]. intros w2.
    apply wr_bind; [apply wr_put_varint|]. intros w3.
    apply wr_bind; [apply wr_put_varint|]. intros w4. apply wr_put_bytes.
  - unfold slice_vok. tauto.
  - unfold enc_slice. rewrite !len_app. lia.
Qed.

(* ---------- packets ---------- *)
(* every integer the encoder writes as a varint is at most 2^62 - 1 *)
Definition varints_ok (p : packet) : Prop :=
  match p with
  | SmallReliable seq _ ms => seq <= VARINT_MAX /\ Forall rel_msg_vok ms
  | SmallUnreliable seq _ ms => seq <= VARINT_MAX /\ Forall unrel_msg_vok ms
  | ReliableSlice seq _ s | UnreliableSlice seq _ s => seq <= VARINT_MAX /\ slice_vok s
  | Ack seq _ => seq <= VARINT_MAX
  end.

(* the ranges of an Ack packet built from pending_acks *)
Definition ack_ok (p : packet) : Prop :=
  match p with
  | Ack _ rs => rs <> [] /\ ranges_wf 0 rs /\ ranges_below (VARINT_MAX + 1) rs
  | _ => True
  end.

Lemma enc_packet_nonempty p : 1 <= len (enc_packet p).
Proof. destruct p; cbn [enc_packet]; rewrite len_app, len_cons; lia. Qed.

Theorem to_bytes_w_wr w p : ack_ok p -> wr (varints_ok p) (to_bytes_w w p) w (len (enc_packet p)).
Proof.
  destruct p as [seq ch ms|seq ch ms|seq ch s|seq ch s|seq rs]; cbn [ack_ok varints_ok]; intros Hack.
  - unfold to_bytes_w, enc_packet. eapply wr_weaken.
    + apply wr_bind; [apply (wr_put_u8 _ _ 0)|]. intros w1.
      apply wr_bind; [apply wr_put_varint|]. intros w2.
      apply wr_bind; [apply (wr_put_u8 _ _ ch)|]. intros w3.
      apply wr_bind; [apply (wr_put_u16 _ _ (len ms))|]. intros w4. apply wr_put_rel_msgs.
    + tauto.
    + rewrite !len_app. lia.
  - unfold to_bytes_w, enc_packet. eapply wr_weaken.
    + apply wr_bind; [apply (wr_put_u8 _ _ 1)|]. intros w1.
      apply wr_bind; [apply wr_put_varint|]. intros w2.
      apply wr_bind; [apply (wr_put_u8 _ _ ch)|]. intros w3.
      apply wr_bind; [apply (wr_put_u16 _ _ (len ms))|]. intros w4. apply wr_put_unrel_msgs.
    + tauto.
    + rewrite !len_app. lia.
  - unfold to_bytes_w, enc_packet. eapply wr_weaken.
    + apply wr_bind; [apply (wr_put_u8 _ _ 2)|]. intros w1.
      apply wr_bind; [apply wr_put_varint|]. intros w2.
      apply wr_bind; [apply (wr_put_u8 _ _ ch)|]. intros w3. apply wr_put_slice.
    + tauto.
    + rewrite !len_app. lia.
  - unfold to_bytes_w, enc_packet. eapply wr_weaken.
    + apply wr_bind; [apply (wr_put_u8 _ _ 3)|]. intros w1.
      apply wr_bind; [apply wr_put_varint|]. intros w2.
      apply wr_bind; [apply (wr_put_u8 _ _ ch)|]. intros w3. apply wr_put_slice.
    + tauto.
    + rewrite !len_app. lia.
  - destruct Hack as (H1 & H2 & H3).
    destruct (N.le_gt_cases seq VARINT_MAX) as [Hs|Hs].
    + rewrite to_bytes_w_enc by (cbn [packet_wf]; auto).
      eapply wr_weaken; [apply wr_put_bytes|tauto|reflexivity].
    + pose proof (enc_packet_nonempty (Ack seq rs)) as Hne.
      unfold to_bytes_w. unfold put_u8 at 1. rewrite put_bytes_spec.
      destruct (N.leb_spec (len [4 mod 256]) (w_cap w)) as [Hc|Hc]; cbn [bind].
      * rewrite put_varint_panic by exact Hs. cbn [bind wr]. split; [reflexivity|lia].
      * cbn [wr]. split; [reflexivity|]. change (len [4 mod 256]) with 1 in Hc. lia.
Qed.

Theorem to_bytes_cases : forall cap p, ack_ok p ->
  match to_bytes cap p with
  | Ok b => varints_ok p /\ len b = len (enc_packet p) /\ len b <= cap
  | Err e => e = BufferTooShort /\ cap < len (enc_packet p)
  | Panic s => s = SITE_VARINT_TOO_LARGE /\ ~ varints_ok p
  end.
Proof.
  intros cap p Hack. unfold to_bytes.
  pose proof (to_bytes_w_wr {| w_out := []; w_cap := cap |} p Hack) as H.
  destruct (to_bytes_w {| w_out := []; w_cap := cap |} p) as [w'|e|s]; cbn [bind wr w_out w_cap] in *.
  - destruct H as (A & B & C). rewrite len_nil in B. split; [exact A|]. split; lia.
  - exact H.
  - exact H.
Qed.

Corollary to_bytes_no_panic_when_small : forall cap p,
  ack_ok p -> varints_ok p -> is_panic (to_bytes cap p) = false.
Proof.
  intros cap p Hack Hv. pose proof (to_bytes_cases cap p Hack) as H.
  destruct (to_bytes cap p); try reflexivity. destruct H as [_ H]. contradiction.
Qed.

Print Assumptions to_bytes_cases.
