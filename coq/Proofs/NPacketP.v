(* NPacketP.v - renetcode packet framing (packet.rs): no panics, what an accepted
   datagram is bound to, round trips, lengths.  The cipher is used only through
   the theorems of AeadP.v. *)
From Coq Require Import NArith ZArith List Bool Lia ZifyBool ZifyN ZifyNat.
From RenetV Require Import Base Consts Aead NPacket Token NetSpec AeadP ReplayP.
Import ListNotations.
Open Scope N_scope.

Arguments N.add : simpl never.
Arguments N.sub : simpl never.
Arguments N.mul : simpl never.
Arguments N.div : simpl never.
Arguments N.modulo : simpl never.
Arguments N.pow : simpl never.
Arguments N.eqb : simpl never.
Arguments N.ltb : simpl never.
Arguments N.leb : simpl never.

(* ------------------------------------------------------------------ *)
(* lengths, takeN / dropN                                              *)
(* ------------------------------------------------------------------ *)

Lemma len_nil {A} : len (@nil A) = 0.
Proof. reflexivity. Qed.

Lemma len_cons {A} (x : A) l : len (x :: l) = 1 + len l.
Proof. unfold len. cbn [length]. lia. Qed.

Lemma len_app {A} (a b : list A) : len (a ++ b) = len a + len b.
Proof. unfold len. rewrite app_length. lia. Qed.

Lemma len_takeN {A} n (l : list A) : len (takeN n l) = N.min n (len l).
Proof. unfold len, takeN. rewrite firstn_length. lia. Qed.

Lemma len_takeN_le {A} n (l : list A) : n <= len l -> len (takeN n l) = n.
Proof. intro H. rewrite len_takeN. lia. Qed.

Lemma len_dropN {A} n (l : list A) : len (dropN n l) = len l - n.
Proof. unfold len, dropN. rewrite skipn_length. lia. Qed.

Lemma takeN_dropN {A} n (l : list A) : takeN n l ++ dropN n l = l.
Proof. apply firstn_skipn. Qed.

Lemma takeN_app_exact {A} n (a b : list A) : len a = n -> takeN n (a ++ b) = a.
Proof.
  intro H. unfold takeN. assert (E : N.to_nat n = length a) by (unfold len in H; lia).
  rewrite E, firstn_app, Nat.sub_diag, firstn_all. cbn [firstn]. apply app_nil_r.
Qed.

Lemma dropN_app_exact {A} n (a b : list A) : len a = n -> dropN n (a ++ b) = b.
Proof.
  intro H. unfold dropN. assert (E : N.to_nat n = length a) by (unfold len in H; lia).
  rewrite E, skipn_app, Nat.sub_diag, skipn_all. reflexivity.
Qed.

Lemma takeN_all {A} n (l : list A) : len l <= n -> takeN n l = l.
Proof. intro H. apply firstn_all2. unfold len in H. lia. Qed.

Lemma takeN_exact {A} n (l : list A) : len l = n -> takeN n l = l.
Proof. intro H. apply takeN_all. lia. Qed.

Lemma takeN_0 {A} (l : list A) : takeN 0 l = [].
Proof. reflexivity. Qed.

Lemma dropN_0 {A} (l : list A) : dropN 0 l = l.
Proof. reflexivity. Qed.

Lemma len_0_nil {A} (l : list A) : len l = 0 -> l = [].
Proof. destruct l; [reflexivity|]. rewrite len_cons. lia. Qed.

Lemma len_repeatN {A} (x : A) n : len (repeatN x n) = N.of_nat n.
Proof. unfold len. rewrite repeatN_length. reflexivity. Qed.

Lemma len_zeros n : len (zeros n) = n.
Proof. unfold zeros. rewrite len_repeatN. lia. Qed.

(* ------------------------------------------------------------------ *)
(* bytes                                                               *)
(* ------------------------------------------------------------------ *)

Lemma bytes_ok_nil : bytes_ok [].
Proof. constructor. Qed.

Lemma bytes_ok_cons b l : bytes_ok (b :: l) <-> b < 256 /\ bytes_ok l.
Proof.
  unfold bytes_ok. split.
  - intro H. inversion H; subst. split; assumption.
  - intros [H1 H2]. constructor; assumption.
Qed.

Lemma bytes_ok_app a b : bytes_ok (a ++ b) <-> bytes_ok a /\ bytes_ok b.
Proof. unfold bytes_ok. apply Forall_app. Qed.

Lemma bytes_ok_takeN n l : bytes_ok l -> bytes_ok (takeN n l).
Proof.
  intro H. rewrite <- (takeN_dropN n l) in H. apply bytes_ok_app in H. tauto.
Qed.

Lemma bytes_ok_dropN n l : bytes_ok l -> bytes_ok (dropN n l).
Proof.
  intro H. rewrite <- (takeN_dropN n l) in H. apply bytes_ok_app in H. tauto.
Qed.

(* ------------------------------------------------------------------ *)
(* little-endian integers                                              *)
(* ------------------------------------------------------------------ *)

Lemma le_bytes_length n v : length (le_bytes n v) = n.
Proof. revert v; induction n as [|n IH]; intro v; cbn [le_bytes length]; [reflexivity|]. rewrite IH. reflexivity. Qed.

Lemma len_le_bytes n v : len (le_bytes n v) = N.of_nat n.
Proof. unfold len. rewrite le_bytes_length. reflexivity. Qed.

Lemma le_bytes_ok n v : bytes_ok (le_bytes n v).
Proof.
  revert v; induction n as [|n IH]; intro v; cbn [le_bytes]; [constructor|].
  apply bytes_ok_cons. split; [apply N.mod_lt; discriminate | apply IH].
Qed.

Lemma le_val_cons b l : le_val (b :: l) = b + 256 * le_val l.
Proof. reflexivity. Qed.

Lemma pow256_succ n : 256 ^ N.of_nat (S n) = 256 * 256 ^ N.of_nat n.
Proof. rewrite Nat2N.inj_succ, N.pow_succ_r'. reflexivity. Qed.

Lemma pow256_pos n : 0 < 256 ^ n.
Proof. apply N.neq_0_lt_0. apply N.pow_nonzero. discriminate. Qed.

Lemma le_val_le_bytes n v : le_val (le_bytes n v) = v mod 256 ^ N.of_nat n.
Proof.
  revert v; induction n as [|n IH]; intro v.
  - cbn [le_bytes le_val fold_right]. change (256 ^ N.of_nat 0) with 1. rewrite N.mod_1_r. reflexivity.
  - cbn [le_bytes]. rewrite le_val_cons, IH, pow256_succ.
    pose proof (pow256_pos (N.of_nat n)) as P.
    rewrite N.mod_mul_r by lia. reflexivity.
Qed.

Lemma le_val_lt l : bytes_ok l -> le_val l < 256 ^ N.of_nat (length l).
Proof.
  induction l as [|b l IH]; intro H.
  - cbn. reflexivity.
  - apply bytes_ok_cons in H. destruct H as [Hb Hl]. specialize (IH Hl).
    cbn [length]. rewrite le_val_cons, pow256_succ. lia.
Qed.

Lemma le_bytes_le_val l : bytes_ok l -> le_bytes (length l) (le_val l) = l.
Proof.
  induction l as [|b l IH]; intro H; [reflexivity|].
  apply bytes_ok_cons in H. destruct H as [Hb Hl]. specialize (IH Hl).
  cbn [length le_bytes]. rewrite le_val_cons.
  assert (E1 : (b + 256 * le_val l) mod 256 = b).
  { rewrite N.mul_comm, N.mod_add by discriminate. apply N.mod_small. exact Hb. }
  assert (E2 : (b + 256 * le_val l) / 256 = le_val l).
  { rewrite N.mul_comm, N.div_add by discriminate. rewrite N.div_small by exact Hb. reflexivity. }
  rewrite E1, E2, IH. reflexivity.
Qed.

Lemma le_bytes_le_val_n n l : length l = n -> bytes_ok l -> le_bytes n (le_val l) = l.
Proof. intros <-. apply le_bytes_le_val. Qed.

Lemma le_val_inj l1 l2 : length l1 = length l2 -> bytes_ok l1 -> bytes_ok l2 ->
  le_val l1 = le_val l2 -> l1 = l2.
Proof.
  intros HL H1 H2 E. rewrite <- (le_bytes_le_val l1 H1), <- (le_bytes_le_val l2 H2), HL, E. reflexivity.
Qed.

Lemma pow256_2 : 256 ^ N.of_nat 2 = 65536.       Proof. reflexivity. Qed.
Lemma pow256_4 : 256 ^ N.of_nat 4 = 4294967296.  Proof. reflexivity. Qed.
Lemma pow256_8 : 256 ^ N.of_nat 8 = U64.         Proof. reflexivity. Qed.

Lemma len_le64 v : len (le64 v) = 8.  Proof. apply len_le_bytes. Qed.
Lemma len_le32 v : len (le32 v) = 4.  Proof. apply len_le_bytes. Qed.
Lemma len_le16 v : len (le16 v) = 2.  Proof. apply len_le_bytes. Qed.

Lemma le_val_le64 v : v < U64 -> le_val (le64 v) = v.
Proof. intro H. unfold le64. rewrite le_val_le_bytes, pow256_8. apply N.mod_small. exact H. Qed.
Lemma le_val_le32 v : v < 4294967296 -> le_val (le32 v) = v.
Proof. intro H. unfold le32. rewrite le_val_le_bytes, pow256_4. apply N.mod_small. exact H. Qed.
Lemma le_val_le16 v : v < 65536 -> le_val (le16 v) = v.
Proof. intro H. unfold le16. rewrite le_val_le_bytes, pow256_2. apply N.mod_small. exact H. Qed.

Lemma len_length {A} (l : list A) n : len l = N.of_nat n -> length l = n.
Proof. unfold len. lia. Qed.

Lemma le_val_lt_len l n : bytes_ok l -> len l = N.of_nat n -> le_val l < 256 ^ N.of_nat n.
Proof. intros H E. apply len_length in E. subst n. apply le_val_lt. exact H. Qed.

Lemma le64_le_val l : len l = 8 -> bytes_ok l -> le64 (le_val l) = l.
Proof. intros H B. apply le_bytes_le_val_n; [apply len_length; exact H | exact B]. Qed.
Lemma le32_le_val l : len l = 4 -> bytes_ok l -> le32 (le_val l) = l.
Proof. intros H B. apply le_bytes_le_val_n; [apply len_length; exact H | exact B]. Qed.
Lemma le16_le_val l : len l = 2 -> bytes_ok l -> le16 (le_val l) = l.
Proof. intros H B. apply le_bytes_le_val_n; [apply len_length; exact H | exact B]. Qed.

Lemma le_val_lt_U64 l : len l = 8 -> bytes_ok l -> le_val l < U64.
Proof. intros H B. rewrite <- pow256_8. apply le_val_lt_len; assumption. Qed.
Lemma le_val_lt_u32 l : len l = 4 -> bytes_ok l -> le_val l < 4294967296.
Proof. intros H B. rewrite <- pow256_4. apply le_val_lt_len; assumption. Qed.
Lemma le_val_lt_u16 l : len l = 2 -> bytes_ok l -> le_val l < 65536.
Proof. intros H B. rewrite <- pow256_2. apply le_val_lt_len; assumption. Qed.

(* ------------------------------------------------------------------ *)
(* constants                                                           *)
(* ------------------------------------------------------------------ *)
Lemma mac_bytes_val : NC_MAC_BYTES = 16.  Proof. reflexivity. Qed.
Lemma xnonce_bytes_val : NC_XNONCE_BYTES = 24.  Proof. reflexivity. Qed.
Lemma private_bytes_val : NC_PRIVATE_BYTES = 1024.  Proof. reflexivity. Qed.
Lemma challenge_bytes_val : NC_CHALLENGE_BYTES = 300.  Proof. reflexivity. Qed.
Lemma user_data_bytes_val : NC_USER_DATA_BYTES = 256.  Proof. reflexivity. Qed.
Lemma key_bytes_val : NC_KEY_BYTES = 32.  Proof. reflexivity. Qed.
Lemma max_packet_bytes_val : NC_MAX_PACKET_BYTES = 1400.  Proof. reflexivity. Qed.
Lemma max_payload_bytes_val : NC_MAX_PAYLOAD_BYTES = 1300.  Proof. reflexivity. Qed.
Lemma len_version_info : len NC_VERSION_INFO = 13.  Proof. reflexivity. Qed.

Lemma aead_seal_len' k n a m : len (aead_seal k n a m) = len m + NC_MAC_BYTES.
Proof. rewrite mac_bytes_val. apply aead_seal_len. Qed.

Lemma aead_open_len k n a c m : aead_open k n a c = Some m -> len c = len m + NC_MAC_BYTES.
Proof. intro H. apply aead_open_length in H. rewrite mac_bytes_val. unfold len. lia. Qed.

(* ------------------------------------------------------------------ *)
(* prefix byte and sequence width                                      *)
(* ------------------------------------------------------------------ *)

Lemma seq_bytes_fuel_spec : forall fuel s, s < 256 ^ N.of_nat fuel ->
  seq_bytes_fuel fuel s <= N.of_nat fuel /\ s < 256 ^ seq_bytes_fuel fuel s.
Proof.
  induction fuel as [|f IH]; intros s H.
  - cbn [seq_bytes_fuel]. split; [lia|]. exact H.
  - cbn [seq_bytes_fuel]. destruct (s =? 0) eqn:E.
    + split; [lia|]. apply N.eqb_eq in E. subst s. reflexivity.
    + rewrite pow256_succ in H.
      pose proof (pow256_pos (N.of_nat f)) as P.
      assert (H' : s / 256 < 256 ^ N.of_nat f).
      { apply N.div_lt_upper_bound; [discriminate | exact H]. }
      destruct (IH _ H') as [I1 I2]. split; [lia|].
      rewrite N.add_1_l, N.pow_succ_r'.
      set (X := 256 ^ seq_bytes_fuel f (s / 256)) in *.
      pose proof (N.div_mod s 256 ltac:(discriminate)) as DM.
      pose proof (N.mod_lt s 256 ltac:(discriminate)). lia.
Qed.

Lemma seq_bytes_fuel_le : forall fuel s, seq_bytes_fuel fuel s <= N.of_nat fuel.
Proof.
  induction fuel as [|f IH]; intro s; cbn [seq_bytes_fuel]; [lia|].
  destruct (s =? 0); [lia|]. specialize (IH (s / 256)). lia.
Qed.

Lemma sequence_bytes_required_le s : sequence_bytes_required s <= 8.
Proof. unfold sequence_bytes_required. apply (seq_bytes_fuel_le 8). Qed.

Lemma sequence_bytes_required_bound s : s < U64 -> s < 256 ^ sequence_bytes_required s.
Proof.
  intro H. unfold sequence_bytes_required. rewrite (N.mod_small s U64 H).
  apply (seq_bytes_fuel_spec 8). rewrite pow256_8. exact H.
Qed.

Theorem prefix_roundtrip : forall s, s < U64 ->
  le_val (le_bytes (N.to_nat (sequence_bytes_required s)) s) = s /\ sequence_bytes_required s <= 8.
Proof.
  intros s H. split; [|apply sequence_bytes_required_le].
  rewrite le_val_le_bytes, N2Nat.id. apply N.mod_small. apply sequence_bytes_required_bound. exact H.
Qed.

Lemma encode_prefix_split id s : id < 16 ->
  encode_prefix id s mod 16 = id /\ encode_prefix id s / 16 = sequence_bytes_required s.
Proof.
  intro H. unfold encode_prefix.
  split.
  - rewrite N.mul_comm, N.mod_add by discriminate. apply N.mod_small. exact H.
  - rewrite N.mul_comm, N.div_add by discriminate. rewrite N.div_small by exact H. reflexivity.
Qed.

Lemma encode_prefix_lt id s : id < 16 -> encode_prefix id s < 256.
Proof. intro H. unfold encode_prefix. pose proof (sequence_bytes_required_le s). lia. Qed.

Lemma packet_id_le p : packet_id p <= 6.
Proof. destruct p; cbn [packet_id]; lia. Qed.

(* ------------------------------------------------------------------ *)
(* N1: no panics                                                       *)
(* ------------------------------------------------------------------ *)

(* read_packet dispatches on a numeral; this is the same function with tests *)
Lemma read_packet_cases ty src :
  (ty = 0 /\ read_packet ty src = read_packet 0 src) \/
  (ty = 1 /\ read_packet ty src = Ok PDenied) \/
  (ty = 2 /\ read_packet ty src = read_packet 2 src) \/
  (ty = 3 /\ read_packet ty src = read_packet 3 src) \/
  (ty = 4 /\ read_packet ty src = read_packet 4 src) \/
  (ty = 5 /\ read_packet ty src = Ok (PPayload src)) \/
  (ty = 6 /\ read_packet ty src = Ok PDisconnect) \/
  (6 < ty /\ read_packet ty src = Err EInvalidPacketType).
Proof.
  destruct ty as [|p]; [tauto|].
  destruct p as [[[q|q|]|[q|q|]|]|[[q|q|]|[q|q|]|]|]; try tauto;
    do 7 right; (split; [lia | reflexivity]).
Qed.

Theorem read_packet_no_panic : forall ty src, is_panic (read_packet ty src) = false.
Proof.
  intros ty src.
  destruct (read_packet_cases ty src) as [[-> _]|[[_ ->]|[[-> _]|[[-> _]|[[-> _]|[[_ ->]|[[_ ->]|[_ ->]]]]]]]];
    try reflexivity; unfold read_packet;
    match goal with |- context [if ?c then _ else _] => destruct c end; reflexivity.
Qed.

Theorem encode_no_panic : forall cap p protocol crypto, is_panic (encode cap p protocol crypto) = false.
Proof.
  intros cap p protocol crypto. unfold encode.
  destruct p; try (destruct crypto as [[s key]|]; [|reflexivity]);
    match goal with |- context [if ?c then _ else _] => destruct c end; reflexivity.
Qed.

Theorem challenge_decode_no_panic : forall td tseq ckey, is_panic (challenge_decode td tseq ckey) = false.
Proof.
  intros. unfold challenge_decode. destruct (aead_open _ _ _ _); [|reflexivity].
  destruct (_ <? _); reflexivity.
Qed.

Lemma bind_no_panic {E A B} (r : res E A) (f : A -> res E B) :
  is_panic r = false -> (forall a, is_panic (f a) = false) -> is_panic (bind r f) = false.
Proof. destruct r; cbn; auto. Qed.

Theorem decode_no_panic : forall buf protocol key rp, is_panic (snd (decode buf protocol key rp)) = false.
Proof.
  intros buf protocol key rp. unfold decode.
  destruct (len buf <? 2 + NC_MAC_BYTES); [reflexivity|].
  destruct buf as [|prefix rest]; [reflexivity|].
  destruct (6 <? prefix mod 16); [reflexivity|].
  destruct (prefix mod 16 =? 0).
  { cbn [snd]. apply bind_no_panic; [apply read_packet_no_panic | reflexivity]. }
  destruct key as [key|]; [|reflexivity].
  destruct (8 <? prefix / 16); [reflexivity|].
  destruct (len rest <? prefix / 16); [reflexivity|].
  cbv zeta.
  destruct (len (dropN (prefix / 16) rest) <? NC_MAC_BYTES); [reflexivity|].
  match goal with |- context [if ?c then _ else _] => destruct c end; [reflexivity|].
  destruct (aead_open _ _ _ _); [|reflexivity].
  cbn [snd]. apply bind_no_panic; [apply read_packet_no_panic | reflexivity].
Qed.

(* ------------------------------------------------------------------ *)
(* decode on a sealed datagram, spelled out                            *)
(* ------------------------------------------------------------------ *)

(* the window after a replay protected packet of type ty and sequence s authenticated *)
Definition rp_after (rp : option replay) (ty s : N) : option replay :=
  match rp with
  | Some r => if applies_replay ty then Some (advance_sequence r s) else Some r
  | None => None
  end.

Definition rp_dup (rp : option replay) (ty s : N) : bool :=
  match rp with
  | Some r => applies_replay ty && already_received r s
  | None => false
  end.

(* every structural test that precedes the cipher *)
Definition header_ok (prefix : N) (rest : list N) : Prop :=
  2 + NC_MAC_BYTES <= len (prefix :: rest) /\ 1 <= prefix mod 16 <= 6 /\ prefix / 16 <= 8 /\
  prefix / 16 <= len rest /\ NC_MAC_BYTES <= len (dropN (prefix / 16) rest).

Lemma decode_sealed_eq : forall prefix rest protocol key rp,
  header_ok prefix rest ->
  decode (prefix :: rest) protocol (Some key) rp =
  let ty := prefix mod 16 in
  let s := le_val (takeN (prefix / 16) rest) in
  if rp_dup rp ty s then (rp, Err EDuplicatedSequence) else
  match aead_open key (nonce_of s) (packet_aad prefix protocol) (dropN (prefix / 16) rest) with
  | None => (rp, Err ECryptoError)
  | Some plain => (rp_after rp ty s, do p <- read_packet ty plain; Ok (s, p))
  end.
Proof.
  intros prefix rest protocol key rp (H1 & H2 & H3 & H4 & H5).
  unfold decode.
  assert (E1 : (len (prefix :: rest) <? 2 + NC_MAC_BYTES) = false) by lia. rewrite E1.
  assert (E2 : (6 <? prefix mod 16) = false) by lia. rewrite E2.
  assert (E3 : (prefix mod 16 =? 0) = false) by lia. rewrite E3.
  assert (E4 : (8 <? prefix / 16) = false) by lia. rewrite E4.
  assert (E5 : (len rest <? prefix / 16) = false) by lia. rewrite E5.
  cbv zeta.
  assert (E6 : (len (dropN (prefix / 16) rest) <? NC_MAC_BYTES) = false) by lia. rewrite E6.
  reflexivity.
Qed.

(* conversely, when a structural test fails the datagram is refused and nothing moves *)
Lemma decode_bad_header : forall prefix rest protocol key rp,
  prefix mod 16 <> 0 -> ~ header_ok prefix rest ->
  fst (decode (prefix :: rest) protocol (Some key) rp) = rp /\
  exists e, snd (decode (prefix :: rest) protocol (Some key) rp) = Err e.
Proof.
  intros prefix rest protocol key rp Hty Hbad. unfold decode.
  destruct (len (prefix :: rest) <? 2 + NC_MAC_BYTES) eqn:E1; [split; [reflexivity|eexists; reflexivity]|].
  destruct (6 <? prefix mod 16) eqn:E2; [split; [reflexivity|eexists; reflexivity]|].
  assert (E3 : (prefix mod 16 =? 0) = false) by lia. rewrite E3.
  destruct (8 <? prefix / 16) eqn:E4; [split; [reflexivity|eexists; reflexivity]|].
  destruct (len rest <? prefix / 16) eqn:E5; [split; [reflexivity|eexists; reflexivity]|].
  cbv zeta.
  destruct (len (dropN (prefix / 16) rest) <? NC_MAC_BYTES) eqn:E6; [split; [reflexivity|eexists; reflexivity]|].
  exfalso. apply Hbad. unfold header_ok. lia.
Qed.

Lemma header_ok_dec prefix rest : header_ok prefix rest \/ ~ header_ok prefix rest.
Proof. unfold header_ok. lia. Qed.

Lemma decode_nil protocol key rp : decode [] protocol key rp = (rp, Err EPacketTooSmall).
Proof. unfold decode. destruct (len [] <? 2 + NC_MAC_BYTES); reflexivity. Qed.

Lemma decode_no_key : forall buf protocol rp, dgram_type buf <> 0 ->
  fst (decode buf protocol None rp) = rp /\ exists e, snd (decode buf protocol None rp) = Err e.
Proof.
  intros buf protocol rp Hty. destruct buf as [|prefix rest].
  - rewrite decode_nil. split; [reflexivity|eexists; reflexivity].
  - cbn [dgram_type] in Hty. unfold decode.
    destruct (len (prefix :: rest) <? 2 + NC_MAC_BYTES); [split; [reflexivity|eexists; reflexivity]|].
    destruct (6 <? prefix mod 16); [split; [reflexivity|eexists; reflexivity]|].
    assert (E3 : (prefix mod 16 =? 0) = false) by lia. rewrite E3.
    split; [reflexivity|eexists; reflexivity].
Qed.

(* ------------------------------------------------------------------ *)
(* N2: the replay window moves only for an authenticated datagram      *)
(* ------------------------------------------------------------------ *)

(* the tag of the datagram verifies under key, for the nonce and the associated
   data that decode derives from the datagram's own header and the protocol id *)
Definition dgram_auth (key : list N) (protocol : N) (buf : list N) : Prop :=
  match buf with
  | [] => False
  | prefix :: rest =>
      header_ok prefix rest /\
      aead_open key (nonce_of (dgram_seq buf)) (packet_aad prefix protocol) (dropN (prefix / 16) rest) <> None
  end.

Theorem decode_keeps_replay_unless_opened : forall buf protocol key rp,
  fst (decode buf protocol key rp) <> rp ->
  exists k prefix seqbytes body,
    key = Some k /\ buf = prefix :: seqbytes ++ body /\ len seqbytes = prefix / 16 /\
    applies_replay (prefix mod 16) = true /\
    aead_open k (nonce_of (le_val seqbytes)) (packet_aad prefix protocol) body <> None.
Proof.
  intros buf protocol key rp H.
  destruct buf as [|prefix rest]; [rewrite decode_nil in H; contradiction|].
  assert (Hty : prefix mod 16 <> 0).
  { intro E. apply H. unfold decode.
    destruct (len (prefix :: rest) <? 2 + NC_MAC_BYTES); [reflexivity|].
    destruct (6 <? prefix mod 16); [reflexivity|].
    apply N.eqb_eq in E. rewrite E. reflexivity. }
  destruct key as [k|]; [|exfalso; apply H; apply (decode_no_key (prefix :: rest)); exact Hty].
  destruct (header_ok_dec prefix rest) as [Hh|Hh];
    [|exfalso; apply H; apply decode_bad_header; assumption].
  rewrite decode_sealed_eq in H by exact Hh. cbv zeta in H.
  destruct (rp_dup rp _ _); [contradiction|].
  destruct (aead_open k _ _ _) as [plain|] eqn:Eo; [|contradiction].
  cbn [fst] in H.
  exists k, prefix, (takeN (prefix / 16) rest), (dropN (prefix / 16) rest).
  destruct Hh as (_ & _ & _ & H4 & _).
  split; [reflexivity|]. split; [rewrite takeN_dropN; reflexivity|].
  split; [apply len_takeN_le; exact H4|]. split.
  - unfold rp_after in H. destruct rp as [r|]; [|contradiction].
    destruct (applies_replay (prefix mod 16)); [reflexivity|contradiction].
  - rewrite Eo. discriminate.
Qed.

Theorem decode_unopened_keeps_replay : forall buf protocol key rp,
  (forall k, key = Some k -> ~ dgram_auth k protocol buf) -> dgram_type buf <> 0 ->
  fst (decode buf protocol key rp) = rp /\ exists e, snd (decode buf protocol key rp) = Err e.
Proof.
  intros buf protocol key rp Hn Hty.
  destruct key as [k|]; [|apply decode_no_key; exact Hty].
  destruct buf as [|prefix rest]; [rewrite decode_nil; split; [reflexivity|eexists; reflexivity]|].
  cbn [dgram_type] in Hty.
  destruct (header_ok_dec prefix rest) as [Hh|Hh]; [|apply decode_bad_header; assumption].
  rewrite decode_sealed_eq by exact Hh. cbv zeta.
  destruct (rp_dup rp _ _); [split; [reflexivity|eexists; reflexivity]|].
  destruct (aead_open k _ _ _) as [plain|] eqn:Eo; [|split; [reflexivity|eexists; reflexivity]].
  exfalso. apply (Hn k eq_refl). cbn [dgram_auth dgram_seq]. split; [exact Hh|].
  rewrite Eo. discriminate.
Qed.

(* a replay protected datagram whose sequence the window has seen is refused
   before the cipher is consulted *)
Theorem decode_duplicate : forall prefix rest protocol key r,
  header_ok prefix rest -> applies_replay (prefix mod 16) = true ->
  already_received r (dgram_seq (prefix :: rest)) = true ->
  decode (prefix :: rest) protocol (Some key) (Some r) = (Some r, Err EDuplicatedSequence).
Proof.
  intros prefix rest protocol key r Hh Ha Hd.
  rewrite decode_sealed_eq by exact Hh. cbv zeta. cbn [rp_dup dgram_seq] in *.
  rewrite Ha, Hd. reflexivity.
Qed.

(* a datagram that decodes without a window authenticates *)
Lemma opens_sealed_auth : forall key protocol buf, opens_sealed key protocol buf -> dgram_auth key protocol buf.
Proof.
  intros key protocol buf [Hty (s & p & H)].
  destruct buf as [|prefix rest]; [rewrite decode_nil in H; discriminate|].
  cbn [dgram_type] in Hty.
  destruct (header_ok_dec prefix rest) as [Hh|Hh].
  - split; [exact Hh|]. rewrite decode_sealed_eq in H by exact Hh. cbv zeta in H.
    cbn [rp_dup dgram_seq] in *. destruct (aead_open key _ _ _); [discriminate|discriminate H].
  - destruct (decode_bad_header prefix rest protocol key None Hty Hh) as [_ [e He]]. congruence.
Qed.

(* the answer of decode with a window is, up to the duplicate test, the answer without *)
Lemma decode_ok_without_window : forall buf protocol key rp s p,
  snd (decode buf protocol (Some key) rp) = Ok (s, p) ->
  snd (decode buf protocol (Some key) None) = Ok (s, p).
Proof.
  intros buf protocol key rp s p H.
  destruct buf as [|prefix rest]; [rewrite decode_nil in H; discriminate|].
  destruct (N.eq_dec (prefix mod 16) 0) as [E|E].
  - revert H. unfold decode.
    destruct (len (prefix :: rest) <? 2 + NC_MAC_BYTES); [auto|].
    destruct (6 <? prefix mod 16); [auto|].
    apply N.eqb_eq in E. rewrite E. auto.
  - destruct (header_ok_dec prefix rest) as [Hh|Hh].
    + rewrite decode_sealed_eq in * by exact Hh. cbv zeta in *. cbn [rp_dup].
      destruct (rp_dup rp _ _); [discriminate|].
      destruct (aead_open key _ _ _); [exact H|discriminate].
    + destruct (decode_bad_header prefix rest protocol key rp E Hh) as [_ [e He]]. congruence.
Qed.

Theorem decode_unopened_err : forall buf protocol key rp,
  (forall k, key = Some k -> ~ opens_sealed k protocol buf) -> dgram_type buf <> 0 ->
  exists e, snd (decode buf protocol key rp) = Err e.
Proof.
  intros buf protocol key rp Hn Hty.
  destruct key as [k|]; [|apply decode_no_key; exact Hty].
  pose proof (decode_no_panic buf protocol (Some k) rp) as NP.
  destruct (snd (decode buf protocol (Some k) rp)) as [[s p]|e|site] eqn:E.
  - exfalso. apply (Hn k eq_refl). split; [exact Hty|]. exists s, p.
    eapply decode_ok_without_window. exact E.
  - eexists; reflexivity.
  - discriminate.
Qed.

(* "does not open" is not enough to keep the window: the window is advanced as soon as
   the tag verifies, before the plaintext is parsed.  A keep-alive with an empty
   plaintext, sealed with the session key, is refused with an i/o error and still
   consumes its sequence number. *)
Example decode_advances_before_parsing : forall key protocol,
  let buf := [20; 5] ++ aead_seal key (nonce_of 5) (packet_aad 20 protocol) [] in
  decode buf protocol (Some key) (Some replay_new) =
    (Some (advance_sequence replay_new 5), Err EIoError) /\
  ~ opens_sealed key protocol buf.
Proof.
  intros key protocol buf.
  assert (Hh : header_ok 20 (5 :: aead_seal key (nonce_of 5) (packet_aad 20 protocol) [])).
  { unfold header_ok. change (20 mod 16) with 4. change (20 / 16) with 1.
    change (dropN 1 (5 :: ?l)) with l.
    rewrite !len_cons, aead_seal_len', len_nil, mac_bytes_val. lia. }
  assert (E : forall rp, decode buf protocol (Some key) rp =
              if rp_dup rp 4 5 then (rp, Err EDuplicatedSequence)
              else (rp_after rp 4 5, Err EIoError)).
  { intro rp. unfold buf. cbn [app]. rewrite decode_sealed_eq by exact Hh. cbv zeta.
    change (20 mod 16) with 4. change (20 / 16) with 1.
    change (dropN 1 (5 :: ?l)) with l. change (le_val (takeN 1 (5 :: ?l))) with 5.
    rewrite aead_open_seal. reflexivity. }
  split.
  - rewrite E. reflexivity.
  - intros [_ (s & p & H)]. rewrite E in H. discriminate H.
Qed.

(* ------------------------------------------------------------------ *)
(* N3: an accepted datagram is a seal of its own header                *)
(* ------------------------------------------------------------------ *)

Lemma read_packet_id : forall ty src p, read_packet ty src = Ok p -> packet_id p = ty.
Proof.
  intros ty src p H.
  destruct (read_packet_cases ty src) as [[-> _]|[[-> E]|[[-> _]|[[-> _]|[[-> _]|[[-> E]|[[-> E]|[_ E]]]]]]]];
    try (rewrite E in H; injection H as <-; reflexivity);
    try (rewrite E in H; discriminate);
    unfold read_packet in H;
    match type of H with context [if ?c then _ else _] => destruct c end;
    try discriminate; injection H as <-; reflexivity.
Qed.

Theorem decode_sound : forall buf protocol key rp s p,
  snd (decode buf protocol (Some key) rp) = Ok (s, p) -> dgram_type buf <> 0 ->
  exists prefix seqbytes plain,
    buf = prefix :: seqbytes ++ aead_seal key (nonce_of s) (packet_aad prefix protocol) plain /\
    prefix mod 16 = packet_id p /\ len seqbytes = prefix / 16 /\ prefix / 16 <= 8 /\
    le_val seqbytes = s /\ read_packet (prefix mod 16) plain = Ok p /\
    rp_dup rp (prefix mod 16) s = false /\
    fst (decode buf protocol (Some key) rp) = rp_after rp (prefix mod 16) s.
Proof.
  intros buf protocol key rp s p H Hty.
  destruct buf as [|prefix rest]; [rewrite decode_nil in H; discriminate|].
  cbn [dgram_type] in Hty.
  destruct (header_ok_dec prefix rest) as [Hh|Hh];
    [|destruct (decode_bad_header prefix rest protocol key rp Hty Hh) as [_ [e He]]; congruence].
  rewrite decode_sealed_eq in * by exact Hh. cbv zeta in *.
  destruct (rp_dup rp _ _) eqn:Ed; [discriminate|].
  destruct (aead_open key _ _ _) as [plain|] eqn:Eo; [|discriminate].
  cbn [snd fst] in *.
  destruct (read_packet (prefix mod 16) plain) as [p'|e|site] eqn:Er; try discriminate.
  cbn [bind] in H. injection H as Hs Hp. subst p'.
  apply aead_open_iff in Eo.
  exists prefix, (takeN (prefix / 16) rest), plain.
  destruct Hh as (_ & _ & H3 & H4 & _).
  rewrite Hs in *. rewrite <- Eo, takeN_dropN.
  repeat split; auto.
  - symmetry. eapply read_packet_id. exact Er.
  - apply len_takeN_le. exact H4.
Qed.

(* the same for unsealed connection requests (type 0): they carry no tag at all *)
Theorem decode_request_form : forall buf protocol key rp s p,
  snd (decode buf protocol key rp) = Ok (s, p) -> dgram_type buf = 0 ->
  s = 0 /\ packet_id p = 0 /\ fst (decode buf protocol key rp) = rp /\
  exists prefix rest, buf = prefix :: rest /\ read_packet 0 rest = Ok p.
Proof.
  intros buf protocol key rp s p H Hty.
  destruct buf as [|prefix rest]; [rewrite decode_nil in H; discriminate|].
  cbn [dgram_type] in Hty. revert H. unfold decode.
  destruct (len (prefix :: rest) <? 2 + NC_MAC_BYTES); [discriminate|].
  destruct (6 <? prefix mod 16); [discriminate|].
  rewrite Hty. change (0 =? 0) with true. cbn [snd fst].
  destruct (read_packet 0 rest) as [p'|e|site] eqn:Er; try discriminate.
  cbn [bind]. intro H. injection H as <- <-.
  split; [reflexivity|]. split; [eapply read_packet_id; exact Er|]. split; [reflexivity|].
  exists prefix, rest. split; [reflexivity|exact Er].
Qed.

(* ------------------------------------------------------------------ *)
(* N5: encode / decode round trip                                      *)
(* ------------------------------------------------------------------ *)

Lemma read_packet_body : forall p, npacket_wf p -> read_packet (packet_id p) (packet_body p) = Ok p.
Proof.
  intros p W. destruct p as [v protocol expire xn data| |ts td|ts td|ci mc|b|];
    cbn [packet_id packet_body npacket_wf] in *; try reflexivity.
  - destruct W as (Hv & Hp & He & Hx & Hd).
    unfold read_packet.
    assert (L : len (v ++ le64 protocol ++ le64 expire ++ xn ++ data)
                = 13 + 8 + 8 + NC_XNONCE_BYTES + NC_PRIVATE_BYTES).
    { rewrite !len_app, !len_le64, Hv, Hx, Hd. lia. }
    rewrite L, N.ltb_irrefl.
    rewrite (takeN_app_exact 13) by exact Hv. rewrite (dropN_app_exact 13) by exact Hv.
    rewrite (takeN_app_exact 8) by apply len_le64. rewrite (dropN_app_exact 8) by apply len_le64.
    rewrite (takeN_app_exact 8) by apply len_le64. rewrite (dropN_app_exact 8) by apply len_le64.
    rewrite (takeN_app_exact NC_XNONCE_BYTES) by exact Hx.
    rewrite (dropN_app_exact NC_XNONCE_BYTES) by exact Hx.
    rewrite (takeN_exact NC_PRIVATE_BYTES) by exact Hd.
    rewrite !le_val_le64 by assumption. reflexivity.
  - destruct W as (Ht & Hd). unfold read_packet.
    assert (L : len (le64 ts ++ td) = 8 + NC_CHALLENGE_BYTES) by (rewrite len_app, len_le64, Hd; lia).
    rewrite L, N.ltb_irrefl.
    rewrite (takeN_app_exact 8) by apply len_le64. rewrite (dropN_app_exact 8) by apply len_le64.
    rewrite (takeN_exact NC_CHALLENGE_BYTES) by exact Hd.
    rewrite le_val_le64 by assumption. reflexivity.
  - destruct W as (Ht & Hd). unfold read_packet.
    assert (L : len (le64 ts ++ td) = 8 + NC_CHALLENGE_BYTES) by (rewrite len_app, len_le64, Hd; lia).
    rewrite L, N.ltb_irrefl.
    rewrite (takeN_app_exact 8) by apply len_le64. rewrite (dropN_app_exact 8) by apply len_le64.
    rewrite (takeN_exact NC_CHALLENGE_BYTES) by exact Hd.
    rewrite le_val_le64 by assumption. reflexivity.
  - destruct W as (Hc & Hm). unfold read_packet.
    assert (L : len (le32 ci ++ le32 mc) = 8) by (rewrite len_app, !len_le32; lia).
    rewrite L, N.ltb_irrefl.
    rewrite (takeN_app_exact 4) by apply len_le32. rewrite (dropN_app_exact 4) by apply len_le32.
    rewrite (takeN_exact 4) by apply len_le32.
    rewrite !le_val_le32 by assumption. reflexivity.
Qed.

(* the sealed form produced by encode *)
Lemma encode_sealed_form : forall cap p protocol s key out,
  packet_id p <> 0 -> encode cap p protocol (Some (s, key)) = Ok out ->
  let prefix := encode_prefix (packet_id p) s in
  out = prefix :: le_bytes (N.to_nat (sequence_bytes_required s)) s
               ++ aead_seal key (nonce_of s) (packet_aad prefix protocol) (packet_body p).
Proof.
  intros cap p protocol s key out Hid H. cbv zeta.
  destruct p; cbn [packet_id] in Hid; try congruence; unfold encode in H;
    match type of H with context [if ?c then _ else _] => destruct c end;
    try discriminate; injection H as <-; reflexivity.
Qed.

Lemma encode_request_form : forall cap p protocol crypto out,
  packet_id p = 0 -> encode cap p protocol crypto = Ok out -> out = 0 :: packet_body p.
Proof.
  intros cap p protocol crypto out Hid H.
  destruct p; cbn [packet_id] in Hid; try discriminate. unfold encode in H.
  match type of H with context [if ?c then _ else _] => destruct c end;
    try discriminate; injection H as <-; reflexivity.
Qed.

Theorem npacket_roundtrip_full : forall p s key protocol cap out rp,
  npacket_wf p -> s < U64 ->
  encode cap p protocol (Some (s, key)) = Ok out ->
  2 + NC_MAC_BYTES <= len out ->
  rp_dup rp (packet_id p) s = false ->
  decode out protocol (Some key) rp =
    (rp_after rp (packet_id p) (if packet_id p =? 0 then 0 else s),
     Ok ((if packet_id p =? 0 then 0 else s), p)).
Proof.
  intros p s key protocol cap out rp W Hs He Hlen Hdup.
  destruct (N.eq_dec (packet_id p) 0) as [Hid|Hid].
  - (* connection request: in the clear *)
    pose proof (encode_request_form _ _ _ _ _ Hid He) as ->.
    rewrite Hid. change (0 =? 0) with true.
    unfold decode.
    assert (E1 : (len (0 :: packet_body p) <? 2 + NC_MAC_BYTES) = false) by lia. rewrite E1.
    change (0 mod 16) with 0. change (6 <? 0) with false. change (0 =? 0) with true.
    cbv iota. pose proof (read_packet_body p W) as R. rewrite Hid in R. rewrite R. cbn [bind].
    destruct rp as [r|]; reflexivity.
  - pose proof (encode_sealed_form _ _ _ _ _ _ Hid He) as E. cbv zeta in E.
    assert (Hnz : (packet_id p =? 0) = false) by lia. rewrite Hnz.
    pose proof (packet_id_le p) as Hle.
    assert (Hlt : packet_id p < 16) by lia.
    destruct (encode_prefix_split (packet_id p) s Hlt) as [Em Ed].
    destruct (prefix_roundtrip s Hs) as [Er Eb].
    set (prefix := encode_prefix (packet_id p) s) in *.
    set (sb := le_bytes (N.to_nat (sequence_bytes_required s)) s) in *.
    set (body := aead_seal key (nonce_of s) (packet_aad prefix protocol) (packet_body p)) in *.
    assert (Lsb : len sb = prefix / 16).
    { unfold sb. rewrite len_le_bytes, N2Nat.id, Ed. reflexivity. }
    subst out.
    assert (Hh : header_ok prefix (sb ++ body)).
    { unfold header_ok. rewrite (dropN_app_exact _ sb body Lsb), len_app, Em, Ed.
      pose proof (aead_seal_len' key (nonce_of s) (packet_aad prefix protocol) (packet_body p)) as Lb.
      fold body in Lb. lia. }
    rewrite decode_sealed_eq by exact Hh. cbv zeta.
    rewrite (takeN_app_exact _ sb body Lsb), (dropN_app_exact _ sb body Lsb), Em.
    rewrite Er, Hdup.
    unfold body. rewrite aead_open_seal, (read_packet_body p W). reflexivity.
Qed.

(* the statement of the task: only the answer *)
Corollary npacket_roundtrip : forall p s key protocol cap out rp,
  npacket_wf p -> s < U64 ->
  encode cap p protocol (Some (s, key)) = Ok out ->
  2 + NC_MAC_BYTES <= len out ->
  (forall r, rp = Some r -> applies_replay (packet_id p) = true -> already_received r s = false) ->
  snd (decode out protocol (Some key) rp) = Ok ((if packet_id p =? 0 then 0 else s), p).
Proof.
  intros p s key protocol cap out rp W Hs He Hlen Hdup.
  rewrite (npacket_roundtrip_full p s key protocol cap out rp W Hs He Hlen); [reflexivity|].
  destruct rp as [r|]; [|reflexivity]. cbn [rp_dup].
  destruct (applies_replay (packet_id p)) eqn:Ea; [|reflexivity].
  rewrite (Hdup r eq_refl eq_refl). reflexivity.
Qed.

(* the length hypothesis cannot be dropped: Disconnect (and ConnectionDenied) sealed with
   sequence number 0 is 1 + 0 + 0 + 16 = 17 bytes, and decode refuses everything below 18 *)
Example tiny_packet_refuted : forall key protocol rp,
  exists out, encode NC_MAX_PACKET_BYTES PDisconnect protocol (Some (0, key)) = Ok out /\
              len out = 17 /\
              decode out protocol (Some key) rp = (rp, Err EPacketTooSmall).
Proof.
  intros key protocol rp.
  set (out := [encode_prefix 6 0] ++ aead_seal key (nonce_of 0) (packet_aad (encode_prefix 6 0) protocol) []).
  assert (L : len out = 17).
  { unfold out. rewrite len_app, aead_seal_len', mac_bytes_val. reflexivity. }
  exists out. split; [|split; [exact L|]].
  - unfold encode. cbn [packet_id packet_body].
    change (sequence_bytes_required 0) with 0. cbn [N.to_nat le_bytes app len length].
    reflexivity.
  - unfold decode. rewrite L. reflexivity.
Qed.

Example tiny_denied_refuted : forall key protocol rp,
  exists out, encode NC_MAX_PACKET_BYTES PDenied protocol (Some (0, key)) = Ok out /\
              len out = 17 /\
              decode out protocol (Some key) rp = (rp, Err EPacketTooSmall).
Proof.
  intros key protocol rp.
  set (out := [encode_prefix 1 0] ++ aead_seal key (nonce_of 0) (packet_aad (encode_prefix 1 0) protocol) []).
  assert (L : len out = 17).
  { unfold out. rewrite len_app, aead_seal_len', mac_bytes_val. reflexivity. }
  exists out. split; [|split; [exact L|]].
  - unfold encode. cbn [packet_id packet_body].
    change (sequence_bytes_required 0) with 0. cbn [N.to_nat le_bytes app len length].
    reflexivity.
  - unfold decode. rewrite L. reflexivity.
Qed.

(* ------------------------------------------------------------------ *)
(* N7: lengths                                                         *)
(* ------------------------------------------------------------------ *)

Theorem encode_length : forall cap p protocol s key out,
  encode cap p protocol (Some (s, key)) = Ok out ->
  len out = (if packet_id p =? 0 then 1 + len (packet_body p)
             else 1 + sequence_bytes_required s + len (packet_body p) + NC_MAC_BYTES).
Proof.
  intros cap p protocol s key out H.
  destruct (N.eq_dec (packet_id p) 0) as [Hid|Hid].
  - rewrite (encode_request_form _ _ _ _ _ Hid H), Hid, len_cons. reflexivity.
  - rewrite (encode_sealed_form _ _ _ _ _ _ Hid H).
    assert (Hnz : (packet_id p =? 0) = false) by lia. rewrite Hnz.
    rewrite len_cons, len_app, len_le_bytes, N2Nat.id, aead_seal_len'. lia.
Qed.

(* encode fails only for lack of room (or of a key) *)
Lemma encode_room : forall cap p protocol s key,
  (if packet_id p =? 0 then 1 + len (packet_body p)
   else 1 + sequence_bytes_required s + len (packet_body p) + NC_MAC_BYTES) <= cap ->
  exists out, encode cap p protocol (Some (s, key)) = Ok out.
Proof.
  intros cap p protocol s key H.
  destruct p; cbn [packet_id] in H;
    match type of H with context [?a =? 0] => change (a =? 0) with false in H || change (a =? 0) with true in H end;
    cbv iota in H; unfold encode; cbn [packet_id];
    match goal with |- context [if ?c then _ else _] => destruct c eqn:E end;
    try (eexists; reflexivity); exfalso;
    rewrite ?len_app, ?len_cons, ?len_nil, ?len_le_bytes, ?N2Nat.id in E; lia.
Qed.

Lemma packet_body_len : forall p, npacket_wf p ->
  match p with
  | PRequest _ _ _ _ _ => len (packet_body p) = 13 + 8 + 8 + NC_XNONCE_BYTES + NC_PRIVATE_BYTES
  | PChallenge _ _ | PResponse _ _ => len (packet_body p) = 8 + NC_CHALLENGE_BYTES
  | PKeepAlive _ _ => len (packet_body p) = 8
  | PPayload b => len (packet_body p) = len b
  | PDenied | PDisconnect => len (packet_body p) = 0
  end.
Proof.
  intros p W. destruct p; cbn [packet_body npacket_wf] in *; try reflexivity.
  - destruct W as (Hv & _ & _ & Hx & Hd). rewrite !len_app, !len_le64, Hv, Hx, Hd. lia.
  - destruct W as (_ & Hd). rewrite len_app, len_le64, Hd. reflexivity.
  - destruct W as (_ & Hd). rewrite len_app, len_le64, Hd. reflexivity.
Qed.

Theorem netcode_datagrams_fit : forall p protocol s key,
  npacket_wf p -> (forall b, p = PPayload b -> len b <= NC_MAX_PAYLOAD_BYTES) ->
  exists out, encode NC_MAX_PACKET_BYTES p protocol (Some (s, key)) = Ok out /\
              len out <= NC_MAX_PACKET_BYTES.
Proof.
  intros p protocol s key W Hpay.
  assert (B : (if packet_id p =? 0 then 1 + len (packet_body p)
               else 1 + sequence_bytes_required s + len (packet_body p) + NC_MAC_BYTES)
              <= NC_MAX_PACKET_BYTES).
  { pose proof (packet_body_len p W) as L.
    pose proof (sequence_bytes_required_le s) as S8.
    rewrite max_packet_bytes_val, mac_bytes_val.
    rewrite ?xnonce_bytes_val, ?private_bytes_val, ?challenge_bytes_val in L.
    destruct p; cbn [packet_id];
      match goal with |- context [?a =? 0] => change (a =? 0) with false || change (a =? 0) with true end;
      cbv iota; try lia.
    specialize (Hpay _ eq_refl). rewrite max_payload_bytes_val in Hpay. lia. }
  destruct (encode_room _ p protocol s key B) as [out E].
  exists out. split; [exact E|]. rewrite (encode_length _ _ _ _ _ _ E). exact B.
Qed.

(* ------------------------------------------------------------------ *)
(* N6: challenge tokens                                                *)
(* ------------------------------------------------------------------ *)

Theorem challenge_roundtrip : forall id user cseq ckey td,
  len user = NC_USER_DATA_BYTES -> id < U64 ->
  generate_challenge id user cseq ckey = PChallenge cseq td ->
  challenge_decode td cseq ckey = Ok (id, user) /\ len td = NC_CHALLENGE_BYTES.
Proof.
  intros id user cseq ckey td Hu Hid H.
  unfold generate_challenge in H. injection H as <-.
  assert (Lb : len (le64 id ++ user) = 8 + NC_USER_DATA_BYTES) by (rewrite len_app, len_le64, Hu; reflexivity).
  assert (Lp : len (challenge_plain id user) = NC_CHALLENGE_BYTES - NC_MAC_BYTES).
  { unfold challenge_plain. cbv zeta. rewrite len_app, len_zeros, Lb.
    rewrite user_data_bytes_val, challenge_bytes_val, mac_bytes_val. reflexivity. }
  split.
  - unfold challenge_decode. rewrite aead_open_seal.
    assert (E : (len (challenge_plain id user) <? 8 + NC_USER_DATA_BYTES) = false).
    { rewrite Lp, user_data_bytes_val, challenge_bytes_val, mac_bytes_val. reflexivity. }
    rewrite E. unfold challenge_plain. cbv zeta. rewrite <- !app_assoc.
    rewrite (takeN_app_exact 8) by apply len_le64. rewrite (dropN_app_exact 8) by apply len_le64.
    rewrite (takeN_app_exact NC_USER_DATA_BYTES) by exact Hu.
    rewrite le_val_le64 by exact Hid. reflexivity.
  - rewrite aead_seal_len', Lp, challenge_bytes_val, mac_bytes_val. reflexivity.
Qed.

(* and a challenge token opens only if it is the seal, under the challenge key and its own
   sequence number, of a plaintext that starts with this id and user data *)
Theorem challenge_decode_sound : forall td tseq ckey id user,
  challenge_decode td tseq ckey = Ok (id, user) ->
  exists plain, td = aead_seal ckey (nonce_of tseq) [] plain /\
                8 + NC_USER_DATA_BYTES <= len plain /\
                id = le_val (takeN 8 plain) /\ user = takeN NC_USER_DATA_BYTES (dropN 8 plain).
Proof.
  intros td tseq ckey id user H. unfold challenge_decode in H.
  destruct (aead_open ckey (nonce_of tseq) [] td) as [plain|] eqn:Eo; [|discriminate].
  destruct (len plain <? 8 + NC_USER_DATA_BYTES) eqn:El; [discriminate|].
  injection H as <- <-. exists plain. apply aead_open_iff in Eo.
  split; [exact Eo|]. split; [lia|]. split; reflexivity.
Qed.

(* ------------------------------------------------------------------ *)
(* N4: the header parsing is injective                                 *)
(* ------------------------------------------------------------------ *)

(* what decode cuts a datagram into: prefix byte, sequence bytes, sealed body *)
Definition dgram_parts (buf : list N) : option (N * list N * list N) :=
  match buf with
  | [] => None
  | prefix :: rest => Some (prefix, takeN (prefix / 16) rest, dropN (prefix / 16) rest)
  end.

Theorem dgram_parts_injective : forall b1 b2, dgram_parts b1 = dgram_parts b2 -> b1 = b2.
Proof.
  intros [|p1 r1] [|p2 r2] H; cbn [dgram_parts] in H; try discriminate; [reflexivity|].
  injection H as Hp Ht Hd. subst p2.
  rewrite <- (takeN_dropN (p1 / 16) r1), <- (takeN_dropN (p1 / 16) r2), Ht, Hd. reflexivity.
Qed.

Lemma nonce_of_inj s1 s2 : s1 < U64 -> s2 < U64 -> nonce_of s1 = nonce_of s2 -> s1 = s2.
Proof.
  intros H1 H2 E. unfold nonce_of in E. apply app_inv_head in E.
  rewrite <- (le_val_le64 s1 H1), <- (le_val_le64 s2 H2), E. reflexivity.
Qed.

Lemma packet_aad_inj p1 p2 pr1 pr2 : packet_aad p1 pr1 = packet_aad p2 pr2 -> p1 = p2 /\ le64 pr1 = le64 pr2.
Proof.
  unfold packet_aad. intro E. apply app_inv_head in E.
  assert (L : length (le64 pr1) = length (le64 pr2)) by (unfold le64; rewrite !le_bytes_length; reflexivity).
  destruct (app_inj_tail (le64 pr1) (le64 pr2) p1 p2) as [E1 E2].
  { exact E. }
  split; [exact E2 | exact E1].
Qed.

(* two datagrams made of bytes that pass the structural tests and hand the same
   nonce, associated data and sealed body to the cipher are the same datagram *)
Theorem aead_input_injective : forall b1 b2 p1 r1 p2 r2 protocol1 protocol2,
  b1 = p1 :: r1 -> b2 = p2 :: r2 -> bytes_ok b1 -> bytes_ok b2 ->
  header_ok p1 r1 -> header_ok p2 r2 ->
  nonce_of (dgram_seq b1) = nonce_of (dgram_seq b2) ->
  packet_aad p1 protocol1 = packet_aad p2 protocol2 ->
  dropN (p1 / 16) r1 = dropN (p2 / 16) r2 ->
  b1 = b2.
Proof.
  intros b1 b2 p1 r1 p2 r2 pr1 pr2 -> -> B1 B2 H1 H2 En Ea Eb.
  apply packet_aad_inj in Ea. destruct Ea as [<- _].
  apply dgram_parts_injective. cbn [dgram_parts]. rewrite Eb. f_equal. f_equal.
  cbn [dgram_seq] in En.
  apply bytes_ok_cons in B1. apply bytes_ok_cons in B2.
  destruct B1 as [_ B1]. destruct B2 as [_ B2].
  destruct H1 as (_ & _ & H13 & H14 & _). destruct H2 as (_ & _ & _ & H24 & _).
  assert (L1 : len (takeN (p1 / 16) r1) = p1 / 16) by (apply len_takeN_le; exact H14).
  assert (L2 : len (takeN (p1 / 16) r2) = p1 / 16) by (apply len_takeN_le; exact H24).
  assert (Bt1 : bytes_ok (takeN (p1 / 16) r1)) by (apply bytes_ok_takeN; exact B1).
  assert (Bt2 : bytes_ok (takeN (p1 / 16) r2)) by (apply bytes_ok_takeN; exact B2).
  assert (Bd : forall l, bytes_ok l -> len l = p1 / 16 -> le_val l < U64).
  { intros l Bl Ll. pose proof (le_val_lt l Bl) as Hlt.
    assert (Hm : 256 ^ N.of_nat (length l) <= 256 ^ 8).
    { apply N.pow_le_mono_r; [discriminate|]. unfold len in Ll. lia. }
    change (256 ^ 8) with U64 in Hm. lia. }
  f_equal. apply le_val_inj; try assumption.
  - unfold len in L1, L2. lia.
  - apply nonce_of_inj; [apply Bd; assumption | apply Bd; assumption | exact En].
Qed.

(* ------------------------------------------------------------------ *)
(* replaying an accepted datagram                                      *)
(* ------------------------------------------------------------------ *)

(* a replay protected datagram that was accepted is refused when presented again to the
   window that accepted it (sequence numbers below the EMPTY marker) *)
Theorem decode_replay_rejected : forall buf protocol key r s p,
  rp_wf r -> snd (decode buf protocol (Some key) (Some r)) = Ok (s, p) ->
  applies_replay (dgram_type buf) = true -> s < U64MAX ->
  exists r', fst (decode buf protocol (Some key) (Some r)) = Some r' /\ rp_wf r' /\
             decode buf protocol (Some key) (Some r') = (Some r', Err EDuplicatedSequence).
Proof.
  intros buf protocol key r s p W H Ha Hs.
  assert (Hty : dgram_type buf <> 0).
  { intro E. rewrite E in Ha. discriminate Ha. }
  destruct buf as [|prefix rest]; [rewrite decode_nil in H; discriminate|].
  cbn [dgram_type] in *.
  destruct (header_ok_dec prefix rest) as [Hh|Hh];
    [|destruct (decode_bad_header prefix rest protocol key (Some r) Hty Hh) as [_ [e He]]; congruence].
  pose proof (decode_sealed_eq prefix rest protocol key (Some r) Hh) as E. cbv zeta in E.
  rewrite E in H |- *.
  destruct (rp_dup (Some r) _ _) eqn:Ed; [discriminate|].
  destruct (aead_open key _ _ _) as [plain|] eqn:Eo; [|discriminate].
  cbn [snd fst] in *.
  destruct (read_packet (prefix mod 16) plain) as [p'|e|site]; try discriminate.
  cbn [bind] in H. injection H as Hs' _.
  cbn [rp_after]. rewrite Ha.
  eexists. split; [reflexivity|]. split; [apply advance_wf; exact W|].
  apply decode_duplicate; [exact Hh | exact Ha |].
  cbn [dgram_seq]. rewrite Hs'. apply advance_then_received; assumption.
Qed.

(* ------------------------------------------------------------------ *)
(* concrete runs through the cipher (non-vacuity)                      *)
(* ------------------------------------------------------------------ *)

Definition ex_key : list N := repeatN 7 32.

Definition ex_keepalive_dgram : list N :=
  match encode NC_MAX_PACKET_BYTES (PKeepAlive 3 64) 42 (Some (300, ex_key)) with
  | Ok out => out | _ => [] end.

Example ex_keepalive_roundtrip :
  len ex_keepalive_dgram = 27 /\
  decode ex_keepalive_dgram 42 (Some ex_key) (Some replay_new) =
    (Some (advance_sequence replay_new 300), Ok (300, PKeepAlive 3 64)).
Proof. split; vm_compute; reflexivity. Qed.

(* presented a second time *)
Example ex_keepalive_replayed :
  decode ex_keepalive_dgram 42 (Some ex_key) (Some (advance_sequence replay_new 300)) =
    (Some (advance_sequence replay_new 300), Err EDuplicatedSequence).
Proof. vm_compute. reflexivity. Qed.

(* another protocol id, another key, a flipped bit in the prefix, in the sequence, in the tag, a
   truncation: none of them opens, and the window does not move *)
Example ex_keepalive_tampered :
  decode ex_keepalive_dgram 43 (Some ex_key) (Some replay_new) = (Some replay_new, Err ECryptoError) /\
  decode ex_keepalive_dgram 42 (Some (repeatN 8 32)) (Some replay_new) = (Some replay_new, Err ECryptoError) /\
  decode (upd ex_keepalive_dgram 0 37) 42 (Some ex_key) (Some replay_new) = (Some replay_new, Err ECryptoError) /\
  decode (upd ex_keepalive_dgram 1 45) 42 (Some ex_key) (Some replay_new) = (Some replay_new, Err ECryptoError) /\
  decode (upd ex_keepalive_dgram 26 (nth 26 ex_keepalive_dgram 0 + 1)) 42 (Some ex_key) (Some replay_new)
    = (Some replay_new, Err ECryptoError) /\
  decode (takeN 26 ex_keepalive_dgram) 42 (Some ex_key) (Some replay_new) = (Some replay_new, Err ECryptoError).
Proof. repeat split; vm_compute; reflexivity. Qed.

Example ex_disconnect_seq0 :
  match encode NC_MAX_PACKET_BYTES PDisconnect 42 (Some (0, ex_key)) with
  | Ok out => len out = 17 /\ snd (decode out 42 (Some ex_key) None) = Err EPacketTooSmall
  | _ => False end.
Proof. vm_compute. split; reflexivity. Qed.

Example ex_disconnect_seq1 :
  match encode NC_MAX_PACKET_BYTES PDisconnect 42 (Some (1, ex_key)) with
  | Ok out => len out = 18 /\ snd (decode out 42 (Some ex_key) None) = Ok (1, PDisconnect)
  | _ => False end.
Proof. vm_compute. split; reflexivity. Qed.

Print Assumptions decode_no_panic.
Print Assumptions read_packet_no_panic.
Print Assumptions encode_no_panic.
Print Assumptions challenge_decode_no_panic.
Print Assumptions decode_keeps_replay_unless_opened.
Print Assumptions decode_unopened_keeps_replay.
Print Assumptions decode_unopened_err.
Print Assumptions decode_duplicate.
Print Assumptions decode_advances_before_parsing.
Print Assumptions decode_sound.
Print Assumptions decode_request_form.
Print Assumptions dgram_parts_injective.
Print Assumptions aead_input_injective.
Print Assumptions prefix_roundtrip.
Print Assumptions npacket_roundtrip_full.
Print Assumptions npacket_roundtrip.
Print Assumptions tiny_packet_refuted.
Print Assumptions tiny_denied_refuted.
Print Assumptions challenge_roundtrip.
Print Assumptions challenge_decode_sound.
Print Assumptions encode_length.
Print Assumptions netcode_datagrams_fit.
Print Assumptions decode_replay_rejected.
Print Assumptions ex_keepalive_roundtrip.
