(* RSysP.v - the two-endpoint system (Spec/RSysSpec.v): the system invariant holds after every
   run, whatever the network loses, duplicates, delays or reorders and however the calls of the
   two applications interleave; the end-to-end theorems C01 (ordered prefix), C02 (unordered,
   exactly once), C03 (unreliable: only submitted messages), C08 (release implies delivered,
   acknowledged only if received) are read off the invariant.
   Helper files: RSysBaseP.v (logs, executions, symmetry), RSysStepP.v (connection-level facts),
   RSysInvP.v (the eight transitions of one direction). *)
From RenetV Require Import Base Consts Varint Packet Channels Conn Server.
From RenetV Require Import CodecSpec RecvSpec SendSpec ConnSpec ConnInvSpec RSysSpec RSysInvSpec.
From RenetV Require Import SMapP ConnBaseP ConnProcP ConnFlushP ConnP RSysBaseP RSysStepP RSysInvP.
From RenetV Require AcksP VarintP PacketP RecvRelP RecvUnrelP SMapSendP SendRelP SendUnrelP DisconnectP ConnEncP SliceP.
Require Import Lia ZifyBool ZifyN ZifyNat.
Open Scope N_scope.

Arguments N.add : simpl never.
Arguments N.sub : simpl never.
Arguments N.mul : simpl never.
Arguments N.div : simpl never.
Arguments N.modulo : simpl never.
Arguments N.eqb : simpl never.
Arguments N.ltb : simpl never.
Arguments N.leb : simpl never.
Local Opaque SLICE_SIZE MAX_ACK_RANGES SER_BUFFER NC_MAX_PAYLOAD_BYTES DISCARD_PACKET_SECS VARINT_MAX MAX_NUM_SLICES.

(* ================================================================== *)
(* 1. one API call, seen from the direction in which the caller sends / receives *)

Definition outs_of (out : cout) : list (list N) := match out with OPkts p => p | _ => [] end.

Definition sent_upd (c c' : conn) (op : cop) (l : chan_log) : chan_log :=
  match op with
  | CSend ch m => if negb (is_disconnected c) && negb (is_disconnected c') then log_add l ch m else l
  | _ => l
  end.

Definition got_upd (op : cop) (out : cout) (l : chan_log) : chan_log :=
  match op, out with CRecv ch, OMsg (Some m) => log_add l ch m | _, _ => l end.

Lemma update_unfold c dt c' : update c dt = Ok c' ->
  exists ru sent, discard_all (c_now c + dt) (c_ru c) = Ok ru /\ drop_lost (c_now c + dt) (c_sent c) = Ok sent /\
                  c' = with_sent (with_ru (with_now c (c_now c + dt)) ru) sent.
Proof.
  unfold update. intros E.
  destruct (discard_all (c_now c + dt) (c_ru c)) as [ru| |]; cbn [bind] in E; try discriminate.
  destruct (drop_lost (c_now c + dt) (c_sent c)) as [sent| |]; cbn [bind] in E; try discriminate.
  injection E as <-. eauto.
Qed.

Lemma dinv_sender_api ordf c op c' out rr ru acks oa ob sent got dlv :
  conn_inv c -> chans_u8 c -> is_process op = false -> cstep c op = Ok (c', out) ->
  dinv ordf (c_sr c) (c_su c) (c_seq c) (c_sent c) rr ru acks oa ob sent got dlv ->
  dinv ordf (c_sr c') (c_su c') (c_seq c') (c_sent c') rr ru acks (oa ++ outs_of out) ob
       (sent_upd c c' op sent) got dlv.
Proof.
  intros Hi Hu8 Hnp E D.
  assert (Hsame : forall c2, c_sr c2 = c_sr c -> c_su c2 = c_su c -> c_seq c2 = c_seq c -> c_sent c2 = c_sent c ->
            dinv ordf (c_sr c2) (c_su c2) (c_seq c2) (c_sent c2) rr ru acks (oa ++ []) ob sent got dlv).
  { intros c2 -> -> -> ->. now rewrite app_nil_r. }
  assert (Hdw : forall r, dinv ordf (c_sr (disconnect_with c r)) (c_su (disconnect_with c r))
                               (c_seq (disconnect_with c r)) (c_sent (disconnect_with c r))
                               rr ru acks (oa ++ []) ob sent got dlv).
  { intros r. destruct (disconnect_with_fields c r) as (A1 & A2 & _ & _ & _ & A6 & A7 & _). now apply Hsame. }
  destruct op as [ch m|ch|dt|b| | | | |]; try discriminate; cbn [cstep] in E.
  - (* CSend *)
    destruct (send_message c ch m) as [c1| |] eqn:E1; cbn [bind] in E; try discriminate.
    injection E as <- <-. cbn [outs_of sent_upd]. unfold send_message in E1.
    destruct (is_disconnected c) eqn:Hd.
    { injection E1 as <-. cbn [negb andb]. now apply Hsame. }
    destruct (sm_find ch (c_sr c)) as [s|] eqn:Hs.
    + destruct (sr_send s m) as [s'| |] eqn:Es; try discriminate.
      * injection E1 as <-. cbn [with_sr c_sr c_su c_seq c_sent].
        assert (Hd' : is_disconnected (with_sr c (sm_insert ch s' (c_sr c))) = false) by exact Hd.
        rewrite Hd'. cbn [negb andb]. rewrite app_nil_r. eapply dinv_send_rel; eauto.
      * injection E1 as <-. rewrite DisconnectP.disconnect_with_is_disconnected. cbn [negb andb]. apply Hdw.
    + destruct (sm_find ch (c_su c)) as [s|] eqn:Hu; try discriminate.
      injection E1 as <-. cbn [with_su c_sr c_su c_seq c_sent].
      assert (Hd' : is_disconnected (with_su c (sm_insert ch (su_send s m) (c_su c))) = false) by exact Hd.
      rewrite Hd'. cbn [negb andb]. rewrite app_nil_r. eapply dinv_send_unrel; eauto.
  - (* CRecv *)
    destruct (receive_message c ch) as [[c1 mo]| |] eqn:E1; cbn [bind] in E; try discriminate.
    injection E as <- <-. cbn [outs_of sent_upd].
    destruct (channel_frame_receive c ch c1 mo E1) as (_ & A1 & A2 & _ & A4 & A5 & _). now apply Hsame.
  - (* CUpdate *)
    destruct (update c dt) as [c1| |] eqn:E1; cbn [bind] in E; try discriminate.
    injection E as <- <-. cbn [outs_of sent_upd]. rewrite app_nil_r.
    destruct (update_spec c dt Hi) as (c2 & E2 & _ & _ & _ & _ & _ & _ & _ & (pre & Hpre)).
    rewrite E1 in E2. injection E2 as <-.
    destruct (update_unfold c dt c1 E1) as (ru1 & sent1 & _ & _ & ->).
    cbn [with_sent with_ru with_now c_sr c_su c_seq c_sent] in *.
    eapply dinv_recs_sub; [|exact D]. intros k v Hf. rewrite Hpre. apply sm_find_suffix; [|exact Hf].
    rewrite <- Hpre. exact (ci_sent_sorted c Hi).
  - (* CFlush *)
    destruct (get_packets_to_send c) as [[c1 p]| |] eqn:E1; cbn [bind] in E; try discriminate.
    injection E as <- <-. cbn [outs_of sent_upd].
    destruct (is_disconnected c) eqn:Hd.
    + rewrite (DisconnectP.get_packets_to_send_disconnected_noop c Hd) in E1. injection E1 as <- <-. now apply Hsame.
    + eapply dinv_flush; eauto.
  - injection E as <- <-. cbn [outs_of sent_upd]. unfold set_connected. destruct (is_disconnected c); now apply Hsame.
  - injection E as <- <-. cbn [outs_of sent_upd]. unfold set_connecting. destruct (is_disconnected c); now apply Hsame.
  - injection E as <- <-. cbn [outs_of sent_upd]. apply Hdw.
  - injection E as <- <-. cbn [outs_of sent_upd]. apply Hdw.
Qed.

Lemma dinv_receiver_api ordf c op c' out sr su seq recs oa ob sent got dlv :
  conn_inv c -> chans_u8 c -> is_process op = false -> cstep c op = Ok (c', out) ->
  dinv ordf sr su seq recs (c_rr c) (c_ru c) (c_acks c) oa ob sent got dlv ->
  dinv ordf sr su seq recs (c_rr c') (c_ru c') (c_acks c') oa (ob ++ outs_of out) sent (got_upd op out got) dlv.
Proof.
  intros Hi Hu8 Hnp E D.
  assert (Hsame : forall c2, c_rr c2 = c_rr c -> c_ru c2 = c_ru c -> c_acks c2 = c_acks c ->
            dinv ordf sr su seq recs (c_rr c2) (c_ru c2) (c_acks c2) oa (ob ++ []) sent got dlv).
  { intros c2 -> -> ->. now rewrite app_nil_r. }
  assert (Hdw : forall r, dinv ordf sr su seq recs (c_rr (disconnect_with c r)) (c_ru (disconnect_with c r))
                               (c_acks (disconnect_with c r)) oa (ob ++ []) sent got dlv).
  { intros r. destruct (disconnect_with_fields c r) as (_ & _ & A3 & A4 & A5 & _). now apply Hsame. }
  destruct op as [ch m|ch|dt|b| | | | |]; try discriminate; cbn [cstep] in E.
  - (* CSend *)
    destruct (send_message c ch m) as [c1| |] eqn:E1; cbn [bind] in E; try discriminate.
    injection E as <- <-. cbn [outs_of got_upd].
    destruct (channel_frame_send c ch m c1 E1) as (_ & A1 & A2 & A3 & _). now apply Hsame.
  - (* CRecv *)
    destruct (receive_message c ch) as [[c1 mo]| |] eqn:E1; cbn [bind] in E; try discriminate.
    injection E as <- <-. cbn [outs_of got_upd]. rewrite app_nil_r. unfold receive_message in E1.
    change (match mo with Some m => log_add got ch m | None => got end) with (got_add got ch mo).
    destruct (is_disconnected c).
    { injection E1 as <- <-. exact D. }
    destruct (sm_find ch (c_rr c)) as [r|] eqn:Hr.
    + destruct (rr_receive r) as [[r' mo']| |] eqn:Er; try discriminate.
      injection E1 as <- <-. cbn [with_rr c_rr c_ru c_acks]. eapply dinv_recv_rel; eauto.
    + destruct (sm_find ch (c_ru c)) as [r|] eqn:Hu; try discriminate.
      destruct (ru_receive r) as [[r' mo']| |] eqn:Er; try discriminate.
      injection E1 as <- <-. cbn [with_ru c_rr c_ru c_acks]. eapply dinv_recv_unrel; eauto.
  - (* CUpdate *)
    destruct (update c dt) as [c1| |] eqn:E1; cbn [bind] in E; try discriminate.
    injection E as <- <-. cbn [outs_of got_upd]. rewrite app_nil_r.
    destruct (update_unfold c dt c1 E1) as (ru1 & sent1 & Hru & _ & ->).
    cbn [with_sent with_ru with_now c_rr c_ru c_acks].
    eapply dinv_ru_discard; [exact D|exact (ci_ru c Hi)| |exact Hru]. lia.
  - (* CFlush *)
    destruct (get_packets_to_send c) as [[c1 p]| |] eqn:E1; cbn [bind] in E; try discriminate.
    injection E as <- <-. cbn [outs_of got_upd].
    destruct (is_disconnected c) eqn:Hd.
    + rewrite (DisconnectP.get_packets_to_send_disconnected_noop c Hd) in E1. injection E1 as <- <-. now apply Hsame.
    + destruct (flush_pack c c1 p Hi Hu8 Hd E1)
        as (pk & f & _ & _ & _ & _ & _ & _ & Hem & Hrr & Hru & Hacks & _ & Hdec).
      rewrite Hrr, Hru, Hacks. apply dinv_ob_grow; [|exact D].
      intros b sq rs Hin Hp x Hx. destruct (Hdec b _ Hin Hp) as [Hpk _].
      rewrite Forall_forall in Hem. destruct (Hem _ Hpk) as [-> _]. exact Hx.
  - injection E as <- <-. cbn [outs_of got_upd]. unfold set_connected. destruct (is_disconnected c); now apply Hsame.
  - injection E as <- <-. cbn [outs_of got_upd]. unfold set_connecting. destruct (is_disconnected c); now apply Hsame.
  - injection E as <- <-. cbn [outs_of got_upd]. apply Hdw.
  - injection E as <- <-. cbn [outs_of got_upd]. apply Hdw.
Qed.

(* ================================================================== *)
(* 2. one system step keeps the invariant *)

Lemma chans_u8_same c c' : same_channels c c' -> chans_u8 c -> chans_u8 c'.
Proof. intros H Hu ch Hch. apply Hu. destruct (H ch) as (A1 & A2 & _). rewrite <- A1, <- A2. exact Hch. Qed.

Lemma out_wf_app out more : out_wf out -> out_wf more -> out_wf (out ++ more).
Proof. intros H1 H2 b p Hin Hp. apply in_app_or in Hin. destruct Hin; eauto. Qed.

Lemma out_wf_nil : out_wf [].
Proof. intros b p []. Qed.

Lemma api_outs_wf c op c' out :
  conn_inv c -> chans_u8 c -> is_process op = false -> cstep c op = Ok (c', out) -> out_wf (outs_of out).
Proof.
  intros Hi Hu8 Hnp E. destruct op as [ch m|ch|dt|b| | | | |]; try discriminate; cbn [cstep] in E.
  - destruct (send_message c ch m) as [c1| |]; cbn [bind] in E; try discriminate. injection E as <- <-. apply out_wf_nil.
  - destruct (receive_message c ch) as [[c1 mo]| |]; cbn [bind] in E; try discriminate. injection E as <- <-. apply out_wf_nil.
  - destruct (update c dt) as [c1| |]; cbn [bind] in E; try discriminate. injection E as <- <-. apply out_wf_nil.
  - destruct (get_packets_to_send c) as [[c1 p]| |] eqn:E1; cbn [bind] in E; try discriminate.
    injection E as <- <-. cbn [outs_of]. destruct (is_disconnected c) eqn:Hd.
    + rewrite (DisconnectP.get_packets_to_send_disconnected_noop c Hd) in E1. injection E1 as <- <-. apply out_wf_nil.
    + destruct (flush_pack c c1 p Hi Hu8 Hd E1) as (pk & f & _ & _ & _ & _ & _ & _ & _ & _ & _ & _ & _ & Hdec).
      intros b p' Hin Hp. now destruct (Hdec b p' Hin Hp).
  - injection E as <- <-. apply out_wf_nil.
  - injection E as <- <-. apply out_wf_nil.
  - injection E as <- <-. apply out_wf_nil.
  - injection E as <- <-. apply out_wf_nil.
Qed.

Lemma base_inv_flip s : base_inv s -> base_inv (flip s).
Proof. intros [A B C D E F]. constructor; assumption. Qed.

(* steps of side A *)
Lemma base_inv_step_a s o s' :
  (exists op, o = SysApi SA op) \/ (exists i, o = SysDeliver SA i) ->
  base_inv s -> sys_step s o = Ok s' -> base_inv s'.
Proof.
  intros Ho [Ha Hb Hua Hub Hwa Hwb] E. destruct Ho as [(op & ->)|(i & ->)]; cbn [sys_step] in E.
  - destruct (is_process op) eqn:Hnp; [injection E as <-; constructor; assumption|].
    cbn [conn_of] in E. destruct (cstep (ra s) op) as [[c' out]| |] eqn:Ec; cbn [bind] in E; try discriminate.
    injection E as <-. destruct (cstep_api_safe _ _ _ _ Ha Hnp Ec) as [Hi' Hsc].
    constructor; cbn [upd_side ra rb out_a out_b]; auto.
    + eapply chans_u8_same; eauto.
    + apply out_wf_app; [exact Hwa|]. exact (api_outs_wf _ _ _ _ Ha Hua Hnp Ec).
  - destruct (nth_error (out_b s) i) as [bytes|] eqn:En; [|injection E as <-; constructor; assumption].
    destruct (process_packet (ra s) bytes) as [c'| |] eqn:Ep; cbn [bind] in E; try discriminate.
    injection E as <-.
    destruct (process_packet_wf_safe (ra s) bytes Ha) as (c2 & E2 & Hi2 & Hsc2).
    { intros p Hp. eapply Hwb; [eapply nth_error_In; eauto|exact Hp]. }
    rewrite Ep in E2. injection E2 as <-.
    constructor; cbn [ra rb out_a out_b]; auto. eapply chans_u8_same; eauto.
Qed.

Lemma side_cases o :
  ((exists op, o = SysApi SA op) \/ (exists i, o = SysDeliver SA i)) \/
  ((exists op, flip_op o = SysApi SA op) \/ (exists i, flip_op o = SysDeliver SA i)).
Proof. destruct o as [[] op|[] i]; cbn [flip_op flip_side]; eauto. Qed.

Lemma base_inv_step s o s' : base_inv s -> sys_step s o = Ok s' -> base_inv s'.
Proof.
  intros Hb E. destruct (side_cases o) as [Ho|Ho].
  - eapply base_inv_step_a; eauto.
  - rewrite <- (flip_flip s'). apply base_inv_flip.
    eapply (base_inv_step_a (flip s) (flip_op o)); [exact Ho|now apply base_inv_flip|now apply sys_step_flip_ok].
Qed.

Lemma dir_inv_step ordf s o s' : base_inv s -> sys_step s o = Ok s' -> dir_inv ordf s -> dir_inv ordf s'.
Proof.
  intros [Ha Hb Hua Hub Hwa Hwb] E D. unfold dir_inv in *. destruct o as [x op|x i]; cbn [sys_step] in E.
  - destruct (is_process op) eqn:Hnp; [injection E as <-; exact D|].
    destruct x; cbn [conn_of] in E.
    + destruct (cstep (ra s) op) as [[c' out]| |] eqn:Ec; cbn [bind] in E; try discriminate.
      injection E as <-. cbn [upd_side ra rb out_a out_b sent_a got_b dlv_b].
      exact (dinv_sender_api ordf _ _ _ _ _ _ _ _ _ _ _ _ Ha Hua Hnp Ec D).
    + destruct (cstep (rb s) op) as [[c' out]| |] eqn:Ec; cbn [bind] in E; try discriminate.
      injection E as <-. cbn [upd_side ra rb out_a out_b sent_a got_b dlv_b].
      exact (dinv_receiver_api ordf _ _ _ _ _ _ _ _ _ _ _ _ _ Hb Hub Hnp Ec D).
  - destruct x.
    + (* A processes a packet of B *)
      destruct (nth_error (out_b s) i) as [bytes|] eqn:En; [|injection E as <-; exact D].
      destruct (process_packet (ra s) bytes) as [c'| |] eqn:Ep; cbn [bind] in E; try discriminate.
      injection E as <-. cbn [ra rb out_a out_b sent_a got_b dlv_b].
      assert (Hin : In bytes (out_b s)) by (eapply nth_error_In; eauto).
      destruct (process_packet_cases (ra s) bytes) as [(_ & E0)|[(_ & e & _ & E0)|(Hd & p & Hp & E0)]].
      * rewrite E0 in Ep. injection Ep as <-. exact D.
      * rewrite E0 in Ep. injection Ep as <-.
        destruct (disconnect_with_fields (ra s) (RPacketDeserialization e)) as (A1 & A2 & _ & _ & _ & A6 & A7 & _).
        rewrite A1, A2, A6, A7. exact D.
      * pose proof (Hwb bytes p Hin Hp) as Hwf.
        destruct (is_ack p) eqn:Hack.
        -- destruct p as [| | | |sq rs]; try discriminate.
           exact (dinv_ack ordf (ra s) bytes sq rs c' _ _ _ _ _ _ _ _ Ha Hd Hin Hp Hwf Ep D).
        -- rewrite E0 in Ep.
           set (c1 := with_acks (ra s) (add_pending_ack (c_acks (ra s)) (packet_seq p))) in *.
           assert (Hi1 : conn_inv c1) by (apply inv_add_pending_ack; [exact Ha|now apply packet_wf_seq]).
           destruct (process_data_spec c1 p Hi1 Hwf Hack) as (c2 & E2 & _ & Hfr).
           rewrite Ep in E2. injection E2 as <-.
           destruct Hfr as (F1 & _ & _ & F4 & F5 & F6 & _). rewrite F1, F4, F5, F6. exact D.
    + (* B processes a packet of A *)
      destruct (nth_error (out_a s) i) as [bytes|] eqn:En; [|injection E as <-; exact D].
      destruct (process_packet (rb s) bytes) as [c'| |] eqn:Ep; cbn [bind] in E; try discriminate.
      injection E as <-. cbn [ra rb out_a out_b sent_a got_b dlv_b].
      assert (Hin : In bytes (out_a s)) by (eapply nth_error_In; eauto).
      destruct (process_packet_cases (rb s) bytes) as [(Hd & E0)|[(Hd & e & _ & E0)|(Hd & p & Hp & E0)]]; rewrite Hd.
      * rewrite E0 in Ep. injection Ep as <-. exact D.
      * rewrite E0 in Ep. injection Ep as <-. now apply dinv_deliver_err.
      * pose proof (Hwa bytes p Hin Hp) as Hwf.
        exact (dinv_deliver ordf _ _ _ _ _ _ _ _ _ (rb s) bytes i p c' Hb Hd En Hp Hwf Ep D).
Qed.

Lemma sys_inv_step cfg_ab cfg_ba s o s' :
  sys_inv cfg_ab cfg_ba s -> sys_step s o = Ok s' -> sys_inv cfg_ab cfg_ba s'.
Proof.
  intros (Hb & Dab & Dba) E. split; [eapply base_inv_step; eauto|]. split.
  - eapply dir_inv_step; eauto.
  - eapply (dir_inv_step _ (flip s) (flip_op o)); [now apply base_inv_flip|now apply sys_step_flip_ok|exact Dba].
Qed.

Lemma sys_inv_run cfg_ab cfg_ba ops : forall s s',
  sys_inv cfg_ab cfg_ba s -> sys_run s ops = Ok s' -> sys_inv cfg_ab cfg_ba s'.
Proof.
  induction ops as [|o t IH]; intros s s' Hs E; cbn [sys_run] in E.
  - injection E as <-. exact Hs.
  - destruct (sys_step s o) as [s1| |] eqn:E1; cbn [bind] in E; try discriminate.
    eapply IH; [|exact E]. eapply sys_inv_step; eauto.
Qed.

(* ================================================================== *)
(* 3. the initial state *)

Definition sr_fresh (e : N * send_rel) : Prop := sr_next_id (snd e) = 0 /\ sr_unacked (snd e) = [].
Definition su_fresh (e : N * send_unrel) : Prop := su_queue (snd e) = [].
Definition ru_fresh (e : N * recv_unrel) : Prop := ru_messages (snd e) = [] /\ ru_slices (snd e) = [].

Lemma build_send_fresh cfgs : forall su sr ord su' sr' ord',
  build_send cfgs su sr ord = Ok (su', sr', ord') -> cfg_u8 cfgs ->
  Forall su_fresh su -> Forall sr_fresh sr ->
  (forall ch, sm_mem ch sr = true \/ sm_mem ch su = true -> ch < 256) ->
  Forall su_fresh su' /\ Forall sr_fresh sr' /\
  (forall ch, sm_mem ch sr' = true \/ sm_mem ch su' = true -> ch < 256).
Proof.
  induction cfgs as [|cfg t IH]; intros su sr ord su' sr' ord' E Hu8 Fsu Fsr Hlt; cbn [build_send] in E.
  - injection E as <- <- <-. auto.
  - inversion Hu8 as [|? ? Hid Hu8']; subst.
    assert (Hrel : forall rt, sm_mem (cc_id cfg) sr = false ->
      build_send t su (sm_insert (cc_id cfg) (send_rel_new (cc_id cfg) rt (cc_max cfg)) sr) (ord ++ [(true, cc_id cfg)])
        = Ok (su', sr', ord') ->
      Forall su_fresh su' /\ Forall sr_fresh sr' /\
      (forall ch, sm_mem ch sr' = true \/ sm_mem ch su' = true -> ch < 256)).
    { intros rt _ E'. eapply IH; [exact E'|exact Hu8'|exact Fsu| |].
      - apply Forall_sm_insert; [split; reflexivity|exact Fsr].
      - intros ch. rewrite sm_mem_insert. destruct (N.eqb_spec ch (cc_id cfg)) as [->|Hne]; [auto|].
        cbn [orb]. apply Hlt. }
    destruct (cc_type cfg) as [|rt|rt].
    + destruct (sm_mem (cc_id cfg) su); [discriminate|].
      eapply IH; [exact E|exact Hu8'| |exact Fsr|].
      * apply Forall_sm_insert; [reflexivity|exact Fsu].
      * intros ch. rewrite sm_mem_insert. destruct (N.eqb_spec ch (cc_id cfg)) as [->|Hne]; [auto|].
        cbn [orb]. apply Hlt.
    + destruct (sm_mem (cc_id cfg) sr) eqn:Hm; [discriminate|]. eapply Hrel; eauto.
    + destruct (sm_mem (cc_id cfg) sr) eqn:Hm; [discriminate|]. eapply Hrel; eauto.
Qed.

Lemma ordf_of_cons cfg t ch :
  ordf_of (cfg :: t) ch =
  if (cc_id cfg =? ch) && is_rel_cfg cfg
  then Some (match cc_type cfg with TReliableOrdered _ => true | _ => false end)
  else ordf_of t ch.
Proof. unfold ordf_of. cbn [find]. destruct ((cc_id cfg =? ch) && is_rel_cfg cfg); reflexivity. Qed.

Lemma build_recv_fresh cfgs : forall ru rr ru' rr',
  build_recv cfgs ru rr = Ok (ru', rr') -> Forall ru_fresh ru ->
  Forall ru_fresh ru' /\
  forall ch, match sm_find ch rr' with
             | Some r => sm_find ch rr = Some r \/
                         (sm_find ch rr = None /\ exists max o, ordf_of cfgs ch = Some o /\ r = recv_rel_new max o)
             | None => sm_find ch rr = None /\ ordf_of cfgs ch = None
             end.
Proof.
  induction cfgs as [|cfg t IH]; intros ru rr ru' rr' E Fru; cbn [build_recv] in E.
  - injection E as <- <-. split; [exact Fru|]. intros ch. destruct (sm_find ch rr); auto.
  - assert (Hrel : forall o, is_rel_cfg cfg = true ->
        (match cc_type cfg with TReliableOrdered _ => true | _ => false end) = o ->
        sm_mem (cc_id cfg) rr = false ->
        build_recv t ru (sm_insert (cc_id cfg) (recv_rel_new (cc_max cfg) o) rr) = Ok (ru', rr') ->
        Forall ru_fresh ru' /\
        forall ch, match sm_find ch rr' with
             | Some r => sm_find ch rr = Some r \/
                         (sm_find ch rr = None /\ exists max o, ordf_of (cfg :: t) ch = Some o /\ r = recv_rel_new max o)
             | None => sm_find ch rr = None /\ ordf_of (cfg :: t) ch = None
             end).
    { intros o Hrelc Ho Hm E'. destruct (IH _ _ _ _ E' Fru) as [A B]. split; [exact A|].
      intros ch. specialize (B ch). rewrite sm_find_insert in B. rewrite ordf_of_cons, Hrelc, andb_true_r, Ho.
      destruct (N.eqb_spec ch (cc_id cfg)) as [Heq|Hne]; [subst ch|].
      - rewrite N.eqb_refl. apply sm_find_none_mem in Hm.
        destruct (sm_find (cc_id cfg) rr') as [r|].
        + destruct B as [[= <-]|[[=] _]]. right. split; [exact Hm|]. eauto.
        + destruct B as [[=] _].
      - destruct (N.eqb_spec (cc_id cfg) ch); [congruence|]. exact B. }
    destruct (cc_type cfg) as [|rt|rt] eqn:Et.
    + destruct (sm_mem (cc_id cfg) ru); [discriminate|].
      destruct (IH _ _ _ _ E) as [A B]; [apply Forall_sm_insert; [split; reflexivity|exact Fru]|].
      split; [exact A|]. intros ch. specialize (B ch). rewrite ordf_of_cons.
      unfold is_rel_cfg. rewrite Et, andb_false_r. exact B.
    + destruct (sm_mem (cc_id cfg) rr) eqn:Hm; [discriminate|].
      apply (Hrel true); auto. unfold is_rel_cfg. now rewrite Et.
    + destruct (sm_mem (cc_id cfg) rr) eqn:Hm; [discriminate|].
      apply (Hrel false); auto. unfold is_rel_cfg. now rewrite Et.
Qed.

Lemma conn_new_fresh budget scfg rcfg c :
  conn_new budget scfg rcfg = Ok c -> cfg_u8 scfg ->
  conn_inv c /\ chans_u8 c /\
  Forall sr_fresh (c_sr c) /\ Forall su_fresh (c_su c) /\ Forall ru_fresh (c_ru c) /\
  (forall ch, match sm_find ch (c_rr c) with
              | Some r => exists max o, ordf_of rcfg ch = Some o /\ r = recv_rel_new max o
              | None => ordf_of rcfg ch = None
              end) /\
  c_acks c = [] /\ c_sent c = [] /\ c_seq c = 0.
Proof.
  intros E Hu8. pose proof (conn_new_cases budget scfg rcfg) as Hc. rewrite E in Hc.
  destruct Hc as (Hi & Hseq & _ & Hsent & Hacks & _).
  unfold conn_new in E.
  destruct (build_send scfg [] [] []) as [[[su sr] ord]| |] eqn:Es; cbn [bind] in E; try discriminate.
  destruct (build_recv rcfg [] []) as [[ru rr]| |] eqn:Er; cbn [bind] in E; try discriminate.
  injection E as <-. cbn [c_sr c_su c_ru c_rr c_acks c_sent c_seq] in *.
  destruct (build_send_fresh _ _ _ _ _ _ _ Es Hu8 (Forall_nil _) (Forall_nil _)) as (A1 & A2 & A3).
  { intros ch [H|H]; discriminate. }
  destruct (build_recv_fresh _ _ _ _ _ Er (Forall_nil _)) as (B1 & B2).
  split; [exact Hi|]. split; [exact A3|]. split; [exact A2|]. split; [exact A1|]. split; [exact B1|].
  split; [|auto].
  intros ch. specialize (B2 ch). destruct (sm_find ch rr) as [r|].
  - destruct B2 as [[=]|[_ H]]. exact H.
  - tauto.
Qed.

Lemma dinv_init ordf a b :
  Forall sr_fresh (c_sr a) -> Forall su_fresh (c_su a) -> Forall ru_fresh (c_ru b) ->
  (forall ch, match sm_find ch (c_rr b) with
              | Some r => exists max o, ordf ch = Some o /\ r = recv_rel_new max o
              | None => ordf ch = None
              end) ->
  c_acks b = [] ->
  dinv ordf (c_sr a) (c_su a) (c_seq a) (c_sent a) (c_rr b) (c_ru b) (c_acks b) [] [] [] [] [].
Proof.
  intros Fsr Fsu Fru Hrr Hacks. constructor.
  - intros ch sa Hs. destruct (Forall_sm_find _ _ _ _ Fsr Hs) as [A B]. cbn [snd] in A, B.
    split; [exact A|]. rewrite B. intros id u [=].
  - intros b0 p [].
  - intros ch. specialize (Hrr ch). destruct (sm_find ch (c_rr b)) as [r|]; [|exact Hrr].
    destruct Hrr as (max & o & Ho & ->). exists o. split; [exact Ho|].
    exists max, [], []. split; [constructor|]. split; reflexivity.
  - rewrite Hacks. split; [intros x []|intros b0 sq rs []].
  - intros b0 p [].
  - intros ch sa Hs id m Hat. cbn [log_get] in Hat. unfold msg_at in Hat. destruct (N.to_nat id); discriminate.
  - intros ch s Hs. pose proof (Forall_sm_find _ _ _ _ Fsu Hs) as A. unfold su_fresh in A. cbn [snd] in A.
    rewrite A. split; [constructor|intros b0 sq sl []].
  - intros b0 sq ch sl [].
  - intros ch r Hr. destruct (Forall_sm_find _ _ _ _ Fru Hr) as [A B]. cbn [snd] in A, B.
    rewrite A, B. split; [constructor|intros sid c0 [=]].
  - intros ch m [].
Qed.

Lemma sys_init_inv ba bb cfg_ab cfg_ba s0 :
  cfg_u8 cfg_ab -> cfg_u8 cfg_ba -> sys_init ba bb cfg_ab cfg_ba = Ok s0 -> sys_inv cfg_ab cfg_ba s0.
Proof.
  intros Hab Hba E. unfold sys_init in E.
  destruct (conn_new ba cfg_ab cfg_ba) as [a| |] eqn:Ea; cbn [bind] in E; try discriminate.
  destruct (conn_new bb cfg_ba cfg_ab) as [b| |] eqn:Eb; cbn [bind] in E; try discriminate.
  injection E as <-.
  destruct (conn_new_fresh _ _ _ _ Ea Hab) as (Ia & Ua & A1 & A2 & A3 & A4 & A5 & _).
  destruct (conn_new_fresh _ _ _ _ Eb Hba) as (Ib & Ub & B1 & B2 & B3 & B4 & B5 & _).
  split; [constructor; cbn [ra rb out_a out_b]; auto using out_wf_nil|].
  split; unfold dir_inv; cbn [flip ra rb out_a out_b sent_a got_b dlv_b sent_b got_a dlv_a]; now apply dinv_init.
Qed.

(* ================================================================== *)
(* 4. the theorems *)

Section Run.
  Variables (ba bb : N) (cfg_ab cfg_ba : list chan_config) (s0 s : rsys) (ops : list sysop).
  Hypothesis Hu8ab : cfg_u8 cfg_ab.
  Hypothesis Hu8ba : cfg_u8 cfg_ba.
  Hypothesis Hinit : sys_init ba bb cfg_ab cfg_ba = Ok s0.
  Hypothesis Hrun : sys_run s0 ops = Ok s.
  Hypothesis Hops : Forall (sysop_ok cfg_ab cfg_ba) ops.

  (* 1. the system invariant *)
  Theorem run_inv : sys_inv cfg_ab cfg_ba s.
  Proof. eapply sys_inv_run; [|exact Hrun]. eapply sys_init_inv; eauto. Qed.

  (* the invariant, spelled out for the direction A -> B *)
  Theorem run_invariant :
    conn_inv (ra s) /\ conn_inv (rb s) /\
    (* sender consistency *)
    (forall ch sa, sm_find ch (c_sr (ra s)) = Some sa ->
       sr_next_id sa = len (log_get (sent_a s) ch) /\
       forall id u, sm_find id (sr_unacked sa) = Some u ->
                    msg_at (log_get (sent_a s) ch) id = Some (unacked_msg u)) /\
    (* every packet A ever emitted carries logged messages only *)
    (forall bytes sq ch ms, In bytes (out_a s) -> from_bytes bytes = Ok (SmallReliable sq ch ms) ->
       Forall (fun im => msg_at (log_get (sent_a s) ch) (fst im) = Some (snd im) /\ len (snd im) <= SLICE_SIZE) ms) /\
    (forall bytes sq ch sl, In bytes (out_a s) -> from_bytes bytes = Ok (ReliableSlice sq ch sl) ->
       exists m, msg_at (log_get (sent_a s) ch) (sl_id sl) = Some m /\ SLICE_SIZE < len m /\
                 sl = slice_of m (sl_id sl) (sl_index sl) /\ sl_index sl < num_slices_of m) /\
    (* receiver refinement *)
    (forall ch r, sm_find ch (c_rr (rb s)) = Some r ->
       exists o max evs outs,
         ordf_of cfg_ab ch = Some o /\
         Forall (rev_ok (log_get (sent_a s) ch)) evs /\
         rr_exec (log_get (sent_a s) ch) (recv_rel_new max o) evs [] = (r, outs, false) /\
         map snd outs = log_get (got_b s) ch).
  Proof.
    destruct run_inv as (Hb & D & _). destruct Hb as [Ha Hb _ _ _ _]. destruct D as [D1 D2 D3 _ _ _ _ _ _ _].
    split; [exact Ha|]. split; [exact Hb|]. split; [exact D1|]. split; [|split].
    - intros bytes sq ch ms Hin Hp. exact (D2 bytes _ Hin Hp).
    - intros bytes sq ch sl Hin Hp. exact (D2 bytes _ Hin Hp).
    - intros ch r Hr. specialize (D3 ch). rewrite Hr in D3.
      destruct D3 as (o & Ho & max & evs & outs & A & B & C). exists o, max, evs, outs. auto.
  Qed.

  Lemma chan_kind_ordf ch ty : chan_kind cfg_ab ch = Some ty -> ty <> TUnreliable ->
    ordf_of cfg_ab ch = Some (match ty with TReliableOrdered _ => true | _ => false end).
  Proof.
    unfold chan_kind. clear. induction cfg_ab as [|cfg t IH]; cbn [find]; [discriminate|].
    rewrite ordf_of_cons. destruct (N.eqb_spec (cc_id cfg) ch) as [_|Hne]; cbn [andb].
    - intros [= <-] Hty. unfold is_rel_cfg. destruct (cc_type cfg); [contradiction|reflexivity|reflexivity].
    - exact IH.
  Qed.

  Lemma rel_channel_refined ch ty : chan_kind cfg_ab ch = Some ty -> ty <> TUnreliable ->
    exists r, sm_find ch (c_rr (rb s)) = Some r /\
      rr_refines (log_get (sent_a s) ch) (log_get (got_b s) ch)
                 (match ty with TReliableOrdered _ => true | _ => false end) r.
  Proof.
    intros Hk Hty. pose proof (chan_kind_ordf ch ty Hk Hty) as Ho.
    destruct run_inv as (_ & D & _). pose proof (di_receiver _ _ _ _ _ _ _ _ _ _ _ _ _ D ch) as D3.
    destruct (sm_find ch (c_rr (rb s))) as [r|]; [|congruence].
    destruct D3 as (o & Ho' & Hre). exists r. split; [reflexivity|]. congruence.
  Qed.

  (* 2. C01 *)
  Theorem run_ordered_prefix : forall ch resend,
    chan_kind cfg_ab ch = Some (TReliableOrdered resend) ->
    exists k, log_get (got_b s) ch = firstn k (log_get (sent_a s) ch).
  Proof.
    intros ch resend Hk. destruct (rel_channel_refined ch _ Hk ltac:(discriminate)) as (r & _ & max & evs & outs & F & E & G).
    destruct (RecvRelP.ordered_prefix _ max evs r outs false F E) as [H _].
    exists (length outs). congruence.
  Qed.

  (* 3. C02 *)
  Theorem run_unordered_exactly_once : forall ch resend,
    chan_kind cfg_ab ch = Some (TReliableUnordered resend) ->
    exists ids, NoDup ids /\
      log_get (got_b s) ch = map (fun id => nth (N.to_nat id) (log_get (sent_a s) ch) []) ids /\
      Forall (fun id => id < len (log_get (sent_a s) ch)) ids.
  Proof.
    intros ch resend Hk. destruct (rel_channel_refined ch _ Hk ltac:(discriminate)) as (r & _ & max & evs & outs & F & E & G).
    destruct (RecvRelP.unordered_exactly_once _ max evs r outs false F E) as [Hnd Hok].
    exists (map fst outs). split; [exact Hnd|]. split.
    - rewrite <- G, map_map. apply map_ext_in. intros [id m] Hin. rewrite Forall_forall in Hok.
      specialize (Hok _ Hin). cbn [fst snd] in *. unfold msg_at in Hok. symmetry. now apply nth_error_nth.
    - apply Forall_map. eapply Forall_impl; [|exact Hok]. intros [id m] Hat. cbn [fst snd] in *.
      eapply msg_at_lt; eauto.
  Qed.

  (* 5. C08 *)
  Theorem run_release_implies_delivered : forall ch sa,
    sm_find ch (c_sr (ra s)) = Some sa -> is_disconnected (ra s) = false ->
    forall id m, msg_at (log_get (sent_a s) ch) id = Some m -> kind_of sa id = None ->
      if len m <=? SLICE_SIZE
      then exists i bytes, In i (dlv_b s) /\ nth_error (out_a s) i = Some bytes /\ carries_small bytes ch id
      else forall idx, idx < num_slices_of m ->
             exists i bytes, In i (dlv_b s) /\ nth_error (out_a s) i = Some bytes /\ carries_slice bytes ch id idx.
  Proof.
    intros ch sa Hs _ id m Hat Hk. destruct run_inv as (_ & D & _).
    destruct (di_release _ _ _ _ _ _ _ _ _ _ _ _ _ D ch sa Hs id m Hat) as [A _].
    specialize (A Hk). unfold all_delivered, part_delivered in A. exact A.
  Qed.

  (* the fact the induction needs for a partially acknowledged sliced message *)
  Theorem run_acked_slice_delivered : forall ch sa,
    sm_find ch (c_sr (ra s)) = Some sa ->
    forall id m idx, msg_at (log_get (sent_a s) ch) id = Some m -> slice_acked sa id idx = Some true ->
      exists i bytes, In i (dlv_b s) /\ nth_error (out_a s) i = Some bytes /\ carries_slice bytes ch id idx.
  Proof.
    intros ch sa Hs id m idx Hat Hk. destruct run_inv as (_ & D & _).
    destruct (di_release _ _ _ _ _ _ _ _ _ _ _ _ _ D ch sa Hs id m Hat) as [_ B]. exact (B idx Hk).
  Qed.

  (* 6. C08 *)
  Theorem run_acks_only_received : forall x, in_ranges x (c_acks (rb s)) ->
    exists i bytes p, In i (dlv_b s) /\ nth_error (out_a s) i = Some bytes /\
                      from_bytes bytes = Ok p /\ packet_seq p = x.
  Proof.
    intros x Hx. destruct run_inv as (_ & D & _).
    destruct (di_acks _ _ _ _ _ _ _ _ _ _ _ _ _ D) as [A _]. exact (A x Hx).
  Qed.

  (* ... and every range B ever put into an Ack packet covers received sequence numbers only *)
  Theorem run_ack_packets_only_received : forall bytes sq rs x,
    In bytes (out_b s) -> from_bytes bytes = Ok (Ack sq rs) -> in_ranges x rs ->
    exists i b p, In i (dlv_b s) /\ nth_error (out_a s) i = Some b /\ from_bytes b = Ok p /\ packet_seq p = x.
  Proof.
    intros bytes sq rs x Hin Hp Hx. destruct run_inv as (_ & D & _).
    destruct (di_acks _ _ _ _ _ _ _ _ _ _ _ _ _ D) as [_ B]. exact (B bytes sq rs Hin Hp x Hx).
  Qed.

  (* 4. C03, for every kind of channel: whatever B's application obtained, A's application submitted *)
  Theorem run_got_logged : forall ch m, In m (log_get (got_b s) ch) -> In m (log_get (sent_a s) ch).
  Proof. intros ch m. destruct run_inv as (_ & D & _). apply (di_got _ _ _ _ _ _ _ _ _ _ _ _ _ D). Qed.
End Run.

(* ---------- the statements, with every hypothesis spelled out ---------- *)
(* sysop_ok (the calls name configured channels) is not needed: a call naming an unknown channel
   panics, so that sys_run does not return Ok; cfg_u8 is needed, see channel_ids_must_be_u8 below *)

(* 1 *)
Theorem sys_inv_holds : forall ba bb cfg_ab cfg_ba s0 ops s,
  cfg_u8 cfg_ab -> cfg_u8 cfg_ba ->
  sys_init ba bb cfg_ab cfg_ba = Ok s0 -> sys_run s0 ops = Ok s -> Forall (sysop_ok cfg_ab cfg_ba) ops ->
  sys_inv cfg_ab cfg_ba s.
Proof. intros ba bb cfg_ab cfg_ba s0 ops s Hab Hba Hinit Hrun _. exact (run_inv ba bb cfg_ab cfg_ba s0 s ops Hab Hba Hinit Hrun). Qed.

Theorem sys_invariant : forall ba bb cfg_ab cfg_ba s0 ops s,
  cfg_u8 cfg_ab -> cfg_u8 cfg_ba ->
  sys_init ba bb cfg_ab cfg_ba = Ok s0 -> sys_run s0 ops = Ok s -> Forall (sysop_ok cfg_ab cfg_ba) ops ->
  conn_inv (ra s) /\ conn_inv (rb s) /\
  (forall ch sa, sm_find ch (c_sr (ra s)) = Some sa ->
     sr_next_id sa = len (log_get (sent_a s) ch) /\
     forall id u, sm_find id (sr_unacked sa) = Some u ->
                  msg_at (log_get (sent_a s) ch) id = Some (unacked_msg u)) /\
  (forall bytes sq ch ms, In bytes (out_a s) -> from_bytes bytes = Ok (SmallReliable sq ch ms) ->
     Forall (fun im => msg_at (log_get (sent_a s) ch) (fst im) = Some (snd im) /\ len (snd im) <= SLICE_SIZE) ms) /\
  (forall bytes sq ch sl, In bytes (out_a s) -> from_bytes bytes = Ok (ReliableSlice sq ch sl) ->
     exists m, msg_at (log_get (sent_a s) ch) (sl_id sl) = Some m /\ SLICE_SIZE < len m /\
               sl = slice_of m (sl_id sl) (sl_index sl) /\ sl_index sl < num_slices_of m) /\
  (forall ch r, sm_find ch (c_rr (rb s)) = Some r ->
     exists o max evs outs,
       ordf_of cfg_ab ch = Some o /\
       Forall (rev_ok (log_get (sent_a s) ch)) evs /\
       rr_exec (log_get (sent_a s) ch) (recv_rel_new max o) evs [] = (r, outs, false) /\
       map snd outs = log_get (got_b s) ch).
Proof. intros ba bb cfg_ab cfg_ba s0 ops s Hab Hba Hinit Hrun _. exact (run_invariant ba bb cfg_ab cfg_ba s0 s ops Hab Hba Hinit Hrun). Qed.

(* 2. C01 *)
Theorem sys_ordered_prefix : forall ba bb cfg_ab cfg_ba s0 ops s,
  cfg_u8 cfg_ab -> cfg_u8 cfg_ba ->
  sys_init ba bb cfg_ab cfg_ba = Ok s0 -> sys_run s0 ops = Ok s -> Forall (sysop_ok cfg_ab cfg_ba) ops ->
  forall ch resend, chan_kind cfg_ab ch = Some (TReliableOrdered resend) ->
  exists k, log_get (got_b s) ch = firstn k (log_get (sent_a s) ch).
Proof. intros ba bb cfg_ab cfg_ba s0 ops s Hab Hba Hinit Hrun _. exact (run_ordered_prefix ba bb cfg_ab cfg_ba s0 s ops Hab Hba Hinit Hrun). Qed.

(* 3. C02 *)
Theorem sys_unordered_exactly_once : forall ba bb cfg_ab cfg_ba s0 ops s,
  cfg_u8 cfg_ab -> cfg_u8 cfg_ba ->
  sys_init ba bb cfg_ab cfg_ba = Ok s0 -> sys_run s0 ops = Ok s -> Forall (sysop_ok cfg_ab cfg_ba) ops ->
  forall ch resend, chan_kind cfg_ab ch = Some (TReliableUnordered resend) ->
  exists ids, NoDup ids /\
    log_get (got_b s) ch = map (fun id => nth (N.to_nat id) (log_get (sent_a s) ch) []) ids /\
    Forall (fun id => id < len (log_get (sent_a s) ch)) ids.
Proof. intros ba bb cfg_ab cfg_ba s0 ops s Hab Hba Hinit Hrun _. exact (run_unordered_exactly_once ba bb cfg_ab cfg_ba s0 s ops Hab Hba Hinit Hrun). Qed.

(* 5. C08 *)
Theorem release_implies_delivered : forall ba bb cfg_ab cfg_ba s0 ops s,
  cfg_u8 cfg_ab -> cfg_u8 cfg_ba ->
  sys_init ba bb cfg_ab cfg_ba = Ok s0 -> sys_run s0 ops = Ok s -> Forall (sysop_ok cfg_ab cfg_ba) ops ->
  forall ch sa, sm_find ch (c_sr (ra s)) = Some sa -> is_disconnected (ra s) = false ->
  forall id m, msg_at (log_get (sent_a s) ch) id = Some m -> kind_of sa id = None ->
    if len m <=? SLICE_SIZE
    then exists i bytes, In i (dlv_b s) /\ nth_error (out_a s) i = Some bytes /\ carries_small bytes ch id
    else forall idx, idx < num_slices_of m ->
           exists i bytes, In i (dlv_b s) /\ nth_error (out_a s) i = Some bytes /\ carries_slice bytes ch id idx.
Proof. intros ba bb cfg_ab cfg_ba s0 ops s Hab Hba Hinit Hrun _. exact (run_release_implies_delivered ba bb cfg_ab cfg_ba s0 s ops Hab Hba Hinit Hrun). Qed.

Theorem acked_slice_delivered : forall ba bb cfg_ab cfg_ba s0 ops s,
  cfg_u8 cfg_ab -> cfg_u8 cfg_ba ->
  sys_init ba bb cfg_ab cfg_ba = Ok s0 -> sys_run s0 ops = Ok s -> Forall (sysop_ok cfg_ab cfg_ba) ops ->
  forall ch sa, sm_find ch (c_sr (ra s)) = Some sa ->
  forall id m idx, msg_at (log_get (sent_a s) ch) id = Some m -> slice_acked sa id idx = Some true ->
    exists i bytes, In i (dlv_b s) /\ nth_error (out_a s) i = Some bytes /\ carries_slice bytes ch id idx.
Proof. intros ba bb cfg_ab cfg_ba s0 ops s Hab Hba Hinit Hrun _. exact (run_acked_slice_delivered ba bb cfg_ab cfg_ba s0 s ops Hab Hba Hinit Hrun). Qed.

(* 6. C08 *)
Theorem acks_only_received : forall ba bb cfg_ab cfg_ba s0 ops s,
  cfg_u8 cfg_ab -> cfg_u8 cfg_ba ->
  sys_init ba bb cfg_ab cfg_ba = Ok s0 -> sys_run s0 ops = Ok s -> Forall (sysop_ok cfg_ab cfg_ba) ops ->
  forall x, in_ranges x (c_acks (rb s)) ->
  exists i bytes p, In i (dlv_b s) /\ nth_error (out_a s) i = Some bytes /\
                    from_bytes bytes = Ok p /\ packet_seq p = x.
Proof. intros ba bb cfg_ab cfg_ba s0 ops s Hab Hba Hinit Hrun _. exact (run_acks_only_received ba bb cfg_ab cfg_ba s0 s ops Hab Hba Hinit Hrun). Qed.

Theorem ack_packets_only_received : forall ba bb cfg_ab cfg_ba s0 ops s,
  cfg_u8 cfg_ab -> cfg_u8 cfg_ba ->
  sys_init ba bb cfg_ab cfg_ba = Ok s0 -> sys_run s0 ops = Ok s -> Forall (sysop_ok cfg_ab cfg_ba) ops ->
  forall bytes sq rs x, In bytes (out_b s) -> from_bytes bytes = Ok (Ack sq rs) -> in_ranges x rs ->
  exists i b p, In i (dlv_b s) /\ nth_error (out_a s) i = Some b /\ from_bytes b = Ok p /\ packet_seq p = x.
Proof. intros ba bb cfg_ab cfg_ba s0 ops s Hab Hba Hinit Hrun _. exact (run_ack_packets_only_received ba bb cfg_ab cfg_ba s0 s ops Hab Hba Hinit Hrun). Qed.

(* C03 for every kind of channel, against the log *)
Theorem sys_got_logged : forall ba bb cfg_ab cfg_ba s0 ops s,
  cfg_u8 cfg_ab -> cfg_u8 cfg_ba ->
  sys_init ba bb cfg_ab cfg_ba = Ok s0 -> sys_run s0 ops = Ok s -> Forall (sysop_ok cfg_ab cfg_ba) ops ->
  forall ch m, In m (log_get (got_b s) ch) -> In m (log_get (sent_a s) ch).
Proof. intros ba bb cfg_ab cfg_ba s0 ops s Hab Hba Hinit Hrun _. exact (run_got_logged ba bb cfg_ab cfg_ba s0 s ops Hab Hba Hinit Hrun). Qed.

(* ================================================================== *)
(* 5. C03 in terms of the calls: the log only holds messages passed to send_message *)

Definition side_eqb (x y : side) : bool := match x, y with SA, SA | SB, SB => true | _, _ => false end.

(* the messages side x passed to send_message on channel ch, in order *)
Fixpoint submitted (x : side) (ch : N) (ops : list sysop) : list (list N) :=
  match ops with
  | [] => []
  | SysApi y (CSend c m) :: t => if side_eqb x y && (c =? ch) then m :: submitted x ch t else submitted x ch t
  | _ :: t => submitted x ch t
  end.

Lemma sys_step_sent_a s o s' : sys_step s o = Ok s' ->
  sent_a s' = sent_a s \/ exists ch m, o = SysApi SA (CSend ch m) /\ sent_a s' = log_add (sent_a s) ch m.
Proof.
  destruct o as [x op|x i]; cbn [sys_step].
  - destruct (is_process op); [intros [= <-]; now left|].
    destruct (cstep (conn_of s x) op) as [[c' out]| |]; cbn [bind]; try discriminate.
    intros [= <-]. destruct x; cbn [upd_side sent_a]; [|now left].
    destruct op; try (now left).
    destruct (negb (is_disconnected (conn_of s SA)) && negb (is_disconnected c')); [right; eauto|now left].
  - destruct x.
    + destruct (nth_error (out_b s) i); [|intros [= <-]; now left].
      destruct (process_packet (ra s) l); cbn [bind]; try discriminate. intros [= <-]. now left.
    + destruct (nth_error (out_a s) i); [|intros [= <-]; now left].
      destruct (process_packet (rb s) l); cbn [bind]; try discriminate. intros [= <-]. now left.
Qed.

Lemma sent_a_submitted ops : forall s s' ch m,
  sys_run s ops = Ok s' -> In m (log_get (sent_a s') ch) ->
  In m (log_get (sent_a s) ch) \/ In m (submitted SA ch ops).
Proof.
  induction ops as [|o t IH]; intros s s' ch m E Hin; cbn [sys_run] in E.
  - injection E as <-. now left.
  - destruct (sys_step s o) as [s1| |] eqn:E1; cbn [bind] in E; try discriminate.
    destruct (IH s1 s' ch m E Hin) as [H|H].
    + destruct (sys_step_sent_a _ _ _ E1) as [Hs|(c & m0 & -> & Hs)]; rewrite Hs in H.
      * left. exact H.
      * cbn [submitted side_eqb andb]. rewrite log_get_add in H. destruct (N.eqb_spec ch c) as [->|Hne].
        -- rewrite N.eqb_refl. apply in_app_or in H. destruct H as [H|[<-|[]]]; [now left|right; now left].
        -- destruct (N.eqb_spec c ch); [congruence|]. now left.
    + right. destruct o as [y op|y i]; cbn [submitted]; [|exact H].
      destruct op; try exact H. destruct (side_eqb SA y && (ch0 =? ch)); [now right|exact H].
Qed.

(* 4. C03 *)
Theorem sys_unreliable_submitted : forall ba bb cfg_ab cfg_ba s0 ops s,
  cfg_u8 cfg_ab -> cfg_u8 cfg_ba ->
  sys_init ba bb cfg_ab cfg_ba = Ok s0 -> sys_run s0 ops = Ok s -> Forall (sysop_ok cfg_ab cfg_ba) ops ->
  forall ch, chan_kind cfg_ab ch = Some TUnreliable ->
  forall m, In m (log_get (got_b s) ch) -> In m (submitted SA ch ops).
Proof.
  intros ba bb cfg_ab cfg_ba s0 ops s Hab Hba Hinit Hrun Hops ch _ m Hin.
  pose proof (run_got_logged ba bb cfg_ab cfg_ba s0 s ops Hab Hba Hinit Hrun ch m Hin) as Hlog.
  destruct (sent_a_submitted ops s0 s ch m Hrun Hlog) as [H|H]; [|exact H].
  unfold sys_init in Hinit.
  destruct (conn_new ba cfg_ab cfg_ba); cbn [bind] in Hinit; try discriminate.
  destruct (conn_new bb cfg_ba cfg_ab); cbn [bind] in Hinit; try discriminate.
  injection Hinit as <-. destruct H.
Qed.

(* the same for every kind of channel *)
Theorem sys_got_submitted : forall ba bb cfg_ab cfg_ba s0 ops s,
  cfg_u8 cfg_ab -> cfg_u8 cfg_ba ->
  sys_init ba bb cfg_ab cfg_ba = Ok s0 -> sys_run s0 ops = Ok s ->
  forall ch m, In m (log_get (got_b s) ch) -> In m (submitted SA ch ops).
Proof.
  intros ba bb cfg_ab cfg_ba s0 ops s Hab Hba Hinit Hrun ch m Hin.
  pose proof (run_got_logged ba bb cfg_ab cfg_ba s0 s ops Hab Hba Hinit Hrun ch m Hin) as Hlog.
  destruct (sent_a_submitted ops s0 s ch m Hrun Hlog) as [H|H]; [|exact H].
  unfold sys_init in Hinit.
  destruct (conn_new ba cfg_ab cfg_ba); cbn [bind] in Hinit; try discriminate.
  destruct (conn_new bb cfg_ba cfg_ab); cbn [bind] in Hinit; try discriminate.
  injection Hinit as <-. destruct H.
Qed.

(* ================================================================== *)
(* 6. the direction B -> A, by symmetry *)

Lemma sys_run_flip ops : forall s s', sys_run s ops = Ok s' -> sys_run (flip s) (map flip_op ops) = Ok (flip s').
Proof.
  induction ops as [|o t IH]; intros s s' E; cbn [sys_run map] in *.
  - injection E as <-. reflexivity.
  - destruct (sys_step s o) as [s1| |] eqn:E1; cbn [bind] in E; try discriminate.
    rewrite (sys_step_flip_ok _ _ _ E1). cbn [bind]. now apply IH.
Qed.

Lemma sys_init_flip ba bb cfg_ab cfg_ba s0 :
  sys_init ba bb cfg_ab cfg_ba = Ok s0 -> sys_init bb ba cfg_ba cfg_ab = Ok (flip s0).
Proof.
  unfold sys_init. intros E.
  destruct (conn_new ba cfg_ab cfg_ba) as [a| |]; cbn [bind] in E; try discriminate.
  destruct (conn_new bb cfg_ba cfg_ab) as [b| |]; cbn [bind] in *; try discriminate.
  injection E as <-. reflexivity.
Qed.

Lemma sysop_ok_flip cfg_ab cfg_ba o : sysop_ok cfg_ab cfg_ba o -> sysop_ok cfg_ba cfg_ab (flip_op o).
Proof. destruct o as [[] []|[] i]; cbn [flip_op flip_side sysop_ok]; auto. Qed.

Section RunBA.
  Variables (ba bb : N) (cfg_ab cfg_ba : list chan_config) (s0 s : rsys) (ops : list sysop).
  Hypothesis Hu8ab : cfg_u8 cfg_ab.
  Hypothesis Hu8ba : cfg_u8 cfg_ba.
  Hypothesis Hinit : sys_init ba bb cfg_ab cfg_ba = Ok s0.
  Hypothesis Hrun : sys_run s0 ops = Ok s.
  Hypothesis Hops : Forall (sysop_ok cfg_ab cfg_ba) ops.

  Let Hinit' := sys_init_flip _ _ _ _ _ Hinit.
  Let Hrun' := sys_run_flip _ _ _ Hrun.

  Theorem sys_ordered_prefix_ba : forall ch resend,
    chan_kind cfg_ba ch = Some (TReliableOrdered resend) ->
    exists k, log_get (got_a s) ch = firstn k (log_get (sent_b s) ch).
  Proof. exact (run_ordered_prefix bb ba cfg_ba cfg_ab (flip s0) (flip s) (map flip_op ops) Hu8ba Hu8ab Hinit' Hrun'). Qed.

  Theorem sys_unordered_exactly_once_ba : forall ch resend,
    chan_kind cfg_ba ch = Some (TReliableUnordered resend) ->
    exists ids, NoDup ids /\
      log_get (got_a s) ch = map (fun id => nth (N.to_nat id) (log_get (sent_b s) ch) []) ids /\
      Forall (fun id => id < len (log_get (sent_b s) ch)) ids.
  Proof. exact (run_unordered_exactly_once bb ba cfg_ba cfg_ab (flip s0) (flip s) (map flip_op ops) Hu8ba Hu8ab Hinit' Hrun'). Qed.

  Theorem sys_got_logged_ba : forall ch m, In m (log_get (got_a s) ch) -> In m (log_get (sent_b s) ch).
  Proof. exact (run_got_logged bb ba cfg_ba cfg_ab (flip s0) (flip s) (map flip_op ops) Hu8ba Hu8ab Hinit' Hrun'). Qed.

  Theorem release_implies_delivered_ba : forall ch sb,
    sm_find ch (c_sr (rb s)) = Some sb -> is_disconnected (rb s) = false ->
    forall id m, msg_at (log_get (sent_b s) ch) id = Some m -> kind_of sb id = None ->
      if len m <=? SLICE_SIZE
      then exists i bytes, In i (dlv_a s) /\ nth_error (out_b s) i = Some bytes /\ carries_small bytes ch id
      else forall idx, idx < num_slices_of m ->
             exists i bytes, In i (dlv_a s) /\ nth_error (out_b s) i = Some bytes /\ carries_slice bytes ch id idx.
  Proof. exact (run_release_implies_delivered bb ba cfg_ba cfg_ab (flip s0) (flip s) (map flip_op ops) Hu8ba Hu8ab Hinit' Hrun'). Qed.

  Theorem acks_only_received_ba : forall x, in_ranges x (c_acks (ra s)) ->
    exists i bytes p, In i (dlv_a s) /\ nth_error (out_b s) i = Some bytes /\
                      from_bytes bytes = Ok p /\ packet_seq p = x.
  Proof. exact (run_acks_only_received bb ba cfg_ba cfg_ab (flip s0) (flip s) (map flip_op ops) Hu8ba Hu8ab Hinit' Hrun'). Qed.
End RunBA.

(* ================================================================== *)
(* 7. non-vacuity: one ordered channel, a small and a 2500-byte message, the four packets
   delivered out of order with a duplicate, B's application takes both, B's Ack releases both *)

Definition sx_cfg : list chan_config :=
  [ {| cc_id := 2; cc_max := 10000; cc_type := TReliableOrdered 300000000 |} ].
Definition sx_small : list N := [104; 105; 33].
Definition sx_big : list N := map (fun i => N.of_nat i mod 251) (seq 0 2500).

(* A's flush emits slice 0, slice 1, slice 2 of message 1 (sequence numbers 0, 1, 2) and then the
   SmallReliable packet with message 0 (sequence number 3) *)
Definition sx_ops1 : list sysop :=
  [ SysApi SA (CSend 2 sx_small); SysApi SA (CSend 2 sx_big); SysApi SA CFlush;
    SysDeliver SB 2; SysDeliver SB 3; SysDeliver SB 0; SysDeliver SB 2; SysDeliver SB 1;
    SysApi SB (CRecv 2); SysApi SB (CRecv 2); SysApi SB (CRecv 2); SysApi SB CFlush ].
Definition sx_ops : list sysop := sx_ops1 ++ [SysDeliver SA 0].

Definition run_from_init (cfg : list chan_config) (ops : list sysop) : pres rsys :=
  do s0 <- sys_init 60000 60000 cfg cfg; sys_run s0 ops.

Definition sx_summary (r : pres rsys) :=
  match r with
  | Ok s => Some (got_b s, sent_a s, dlv_b s, dlv_a s, pending_ids (ra s) 2,
                  map from_bytes (out_b s), c_acks (rb s), is_disconnected (ra s) || is_disconnected (rb s))
  | _ => None
  end.

Example sys_roundtrip :
  cfg_u8 sx_cfg /\ Forall (sysop_ok sx_cfg sx_cfg) sx_ops /\
  (* before A processes the Ack: both messages obtained, in order; both still pending at A *)
  sx_summary (run_from_init sx_cfg sx_ops1) =
    Some ([(2, [sx_small; sx_big])], [(2, [sx_small; sx_big])], [2; 3; 0; 2; 1]%nat, @nil nat,
          Some [0; 1], [Ok (Ack 0 [(0, 4)])], [(0, 4)], false) /\
  (* after: both released *)
  sx_summary (run_from_init sx_cfg sx_ops) =
    Some ([(2, [sx_small; sx_big])], [(2, [sx_small; sx_big])], [2; 3; 0; 2; 1]%nat, [0%nat],
          Some [], [Ok (Ack 0 [(0, 4)])], [(0, 4)], false) /\
  (* what A's four packets are *)
  match run_from_init sx_cfg sx_ops with
  | Ok s => map (fun b => match from_bytes b with
                          | Ok (ReliableSlice sq ch sl) => Some (sq, sl_id sl, Some (sl_index sl))
                          | Ok (SmallReliable sq ch ms) => Some (sq, len ms, None)
                          | _ => None
                          end) (out_a s)
  | _ => []
  end = [Some (0, 1, Some 0); Some (1, 1, Some 1); Some (2, 1, Some 2); Some (3, 1, None)].
Proof.
  split; [repeat constructor|].
  split; [repeat constructor; cbn [sysop_ok chan_kind sx_cfg find cc_id]; discriminate|].
  split; [vm_compute; reflexivity|]. split; vm_compute; reflexivity.
Qed.

(* the hypothesis cfg_u8 is needed: the model keeps channel ids in N while the encoder writes
   [ch mod 256] (in the library the id is a u8, so this cannot happen there).  With channels 0 and
   256 a message submitted on 256 is obtained on channel 0, on which nothing was submitted *)
Definition bad_cfg : list chan_config :=
  [ {| cc_id := 0; cc_max := 10000; cc_type := TReliableOrdered 300000000 |};
    {| cc_id := 256; cc_max := 10000; cc_type := TReliableOrdered 300000000 |} ].
Definition bad_ops : list sysop :=
  [ SysApi SA (CSend 256 sx_small); SysApi SA CFlush; SysDeliver SB 0; SysApi SB (CRecv 0) ].

Example channel_ids_must_be_u8 :
  Forall (sysop_ok bad_cfg bad_cfg) bad_ops /\
  match run_from_init bad_cfg bad_ops with
  | Ok s => Some (log_get (got_b s) 0, log_get (sent_a s) 0, log_get (sent_a s) 256)
  | _ => None
  end = Some ([sx_small], [], [sx_small]).
Proof.
  split; [repeat constructor; cbn [sysop_ok chan_kind bad_cfg find cc_id]; discriminate|].
  vm_compute. reflexivity.
Qed.

(* ================================================================== *)
(* 8. two observations on the model (and, as far as the model is faithful, on the library) *)

(* (a) an acknowledgement can be forgotten: when the peer acknowledges an Ack packet whose last
   range ended at L, acked_largest drops every pending acknowledgement <= L - also that of a packet
   which arrived after that Ack packet was built.  Below, A's packet 2 is handed to B (index 2 is in
   dlv_b) after B's first Ack [(0,2);(3,4)]; A's acknowledgement of that Ack makes B forget
   sequence number 2, B's next Ack is [(4,5)], and message 2 stays pending at A although B holds it:
   A has to retransmit it.  Safety is not affected (acks_only_received, release_implies_delivered). *)
Definition la_msg (i : N) : list N := [i].
Definition la_ops : list sysop :=
  [ SysApi SA (CSend 2 (la_msg 0)); SysApi SA CFlush; SysApi SA (CSend 2 (la_msg 1)); SysApi SA CFlush;
    SysApi SA (CSend 2 (la_msg 2)); SysApi SA CFlush; SysApi SA (CSend 2 (la_msg 3)); SysApi SA CFlush;
    SysDeliver SB 0; SysDeliver SB 1; SysDeliver SB 3;
    SysApi SB CFlush;            (* B's Ack, sequence 0, ranges [(0,2);(3,4)] *)
    SysDeliver SA 0;             (* A releases 0, 1, 3 and owes an acknowledgement for B's packet 0 *)
    SysDeliver SB 2;             (* A's packet 2 arrives late *)
    SysApi SA CFlush;            (* A's Ack packet (index 4 of out_a) *)
    SysDeliver SB 4;             (* B learns that its Ack arrived and forgets every pending ack <= 3 *)
    SysApi SB CFlush; SysDeliver SA 1 ].

Example late_ack_forgotten :
  match run_from_init sx_cfg la_ops with
  | Ok s => Some (map from_bytes (out_b s), c_acks (rb s), pending_ids (ra s) 2, dlv_b s)
  | _ => None
  end = Some ([Ok (Ack 0 [(0, 2); (3, 4)]); Ok (Ack 1 [(4, 5)])], [(4, 5)], Some [2], [0; 1; 3; 2; 4]%nat).
Proof. vm_compute. reflexivity. Qed.

(* (b) conn_new rejects a channel id configured twice only within one kind: the same id may be
   configured once as unreliable and once as reliable.  send_message and receive_message then use the
   reliable channel (it is looked up first), whatever the order of the configuration entries; here
   chan_kind says TUnreliable and the message travels in a SmallReliable packet.  The theorems above
   do not assume distinct ids. *)
Definition dup_cfg : list chan_config :=
  [ {| cc_id := 0; cc_max := 10000; cc_type := TUnreliable |};
    {| cc_id := 0; cc_max := 10000; cc_type := TReliableOrdered 300000000 |} ].

Example cross_kind_duplicate_id :
  match run_from_init dup_cfg [SysApi SA (CSend 0 (la_msg 7)); SysApi SA CFlush; SysDeliver SB 0; SysApi SB (CRecv 0)] with
  | Ok s => Some (chan_kind dup_cfg 0, map from_bytes (out_a s), got_b s)
  | _ => None
  end = Some (Some TUnreliable, [Ok (SmallReliable 0 0 [(0, [7])])], [(0, [[7]])]).
Proof. vm_compute. reflexivity. Qed.

(* ================================================================== *)
Print Assumptions sys_inv_holds.
Print Assumptions sys_invariant.
Print Assumptions sys_ordered_prefix.
Print Assumptions sys_unordered_exactly_once.
Print Assumptions sys_unreliable_submitted.
Print Assumptions sys_got_submitted.
Print Assumptions sys_got_logged.
Print Assumptions release_implies_delivered.
Print Assumptions acked_slice_delivered.
Print Assumptions acks_only_received.
Print Assumptions ack_packets_only_received.
Print Assumptions sys_ordered_prefix_ba.
Print Assumptions sys_unordered_exactly_once_ba.
Print Assumptions sys_got_logged_ba.
Print Assumptions release_implies_delivered_ba.
Print Assumptions acks_only_received_ba.
Print Assumptions sys_roundtrip.
Print Assumptions channel_ids_must_be_u8.
Print Assumptions late_ack_forgotten.
Print Assumptions cross_kind_duplicate_id.
Print Assumptions sys_unreliable_submitted.
