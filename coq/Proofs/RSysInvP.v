(* RSysInvP.v - the invariant of one direction (dinv, Spec/RSysInvSpec.v) is kept by each of the
   eight kinds of transition a system step can be for that direction:
   T1 the sender's application submits a message, T2 the sender forgets old sent-packet records,
   T3 the sender flushes, T4 the receiver's application takes a message, T5 the receiver discards
   stale partial messages, T6 the receiver flushes (its Ack packet), T7 a packet of the sender is
   handed to the receiver, T8 the sender processes an Ack packet of the receiver. *)
From RenetV Require Import Base Consts Varint Packet Channels Conn Server.
From RenetV Require Import CodecSpec RecvSpec SendSpec ConnSpec ConnInvSpec RSysSpec RSysInvSpec.
From RenetV Require Import SMapP ConnBaseP ConnProcP ConnFlushP ConnP RSysBaseP RSysStepP.
From RenetV Require AcksP VarintP PacketP RecvRelP RecvUnrelP SMapSendP SendRelP SendUnrelP DisconnectP ConnEncP SliceP.
Require Import Lia ZifyBool ZifyN ZifyNat.
Open Scope N_scope.

Arguments N.add : simpl never.
Arguments N.sub : simpl never.
Arguments N.mul : simpl never.
Arguments N.div : simpl never.
Arguments N.modulo : simpl never.
Arguments N.eqb : simpl never.
Arguments N.ltb : simpl never.
Arguments N.leb : simpl never.
Local Opaque SLICE_SIZE MAX_ACK_RANGES SER_BUFFER NC_MAX_PAYLOAD_BYTES DISCARD_PACKET_SECS VARINT_MAX MAX_NUM_SLICES.

Import SendRelP(st_of, static_of, pkt_ok, entry_ok, packed, part_acked).

(* ================================================================== *)
(* monotonicity of the components *)

Lemma log_ext_in l l' ch m : log_ext l l' -> In m (log_get l ch) -> In m (log_get l' ch).
Proof. intros H Hin. destruct (H ch) as (more & ->). apply in_or_app. now left. Qed.

Lemma log_ext_msg_at l l' ch id m : log_ext l l' -> msg_at (log_get l ch) id = Some m -> msg_at (log_get l' ch) id = Some m.
Proof. intros H Hat. destruct (H ch) as (more & ->). now apply msg_at_app. Qed.

Lemma receiver_ok_ext ordf rr sent sent' got :
  log_ext sent sent' -> receiver_ok ordf rr sent got -> receiver_ok ordf rr sent' got.
Proof.
  intros He H ch. specialize (H ch). destruct (sm_find ch rr) as [r|]; [|exact H].
  destruct H as (o & Ho & Hr). exists o. split; [exact Ho|].
  destruct (He ch) as (more & ->). now apply rr_refines_app.
Qed.

Lemma acks_ok_mono acks ob oa dlv oa' dlv' :
  acks_ok acks ob oa dlv -> acks_ok acks ob (oa ++ oa') (dlv ++ dlv').
Proof.
  intros [A B]. split.
  - intros x Hx. apply delivered_mono. auto.
  - intros bytes sq rs Hin Hp x Hx. apply delivered_mono. eauto.
Qed.

Lemma track_ok_sub oa seq seq' recs recs' :
  (forall k v, sm_find k recs' = Some v -> sm_find k recs = Some v) -> seq <= seq' ->
  track_ok oa seq recs -> track_ok oa seq' recs'.
Proof.
  intros Hsub Hle H bytes p Hin Hp. destruct (H bytes p Hin Hp) as [A B].
  split; [lia|]. intros t info Hf. apply B with t. now apply Hsub.
Qed.

Lemma release_ok_mono sr sent oa dlv oa' dlv' :
  release_ok sr sent oa dlv -> release_ok sr sent (oa ++ oa') (dlv ++ dlv').
Proof.
  intros H ch sa Hs id m Hat. destruct (H ch sa Hs id m Hat) as [A B]. split.
  - intros Hk. apply all_delivered_mono. auto.
  - intros idx Hidx. apply part_delivered_mono. auto.
Qed.

Lemma unrel_snd_ok_ext su oa sent sent' : log_ext sent sent' -> unrel_snd_ok su oa sent -> unrel_snd_ok su oa sent'.
Proof.
  intros He H ch s Hs. destruct (H ch s Hs) as [A B]. split; [|exact B].
  eapply Forall_impl; [|exact A]. intros m. now apply log_ext_in.
Qed.

Lemma unrel_out_ok_ext oa sent sent' : log_ext sent sent' -> unrel_out_ok oa sent -> unrel_out_ok oa sent'.
Proof.
  intros He H bytes sq ch sl Hin Hp. destruct (H bytes sq ch sl Hin Hp) as (m & A & B).
  exists m. split; [now apply (log_ext_in _ _ _ _ He)|exact B].
Qed.

Lemma unrel_rcv_ok_ext ru oa sent sent' : log_ext sent sent' -> unrel_rcv_ok ru oa sent -> unrel_rcv_ok ru oa sent'.
Proof.
  intros He H ch r Hr. destruct (H ch r Hr) as [A B]. split.
  - eapply Forall_impl; [|exact A]. intros m. now apply log_ext_in.
  - intros sid c Hc. destruct (B sid c Hc) as (m & C & D). exists m.
    split; [now apply (log_ext_in _ _ _ _ He)|exact D].
Qed.

Lemma got_ok_ext sent sent' got : log_ext sent sent' -> got_ok sent got -> got_ok sent' got.
Proof. intros He H ch m Hin. eapply log_ext_in; eauto. Qed.

(* ================================================================== *)
(* T1: the sender's application submits a message *)

Lemma unacked_msg_static u : unacked_msg u = fst (static_of u).
Proof. destruct u; reflexivity. Qed.

Lemma sr_send_shape s m s' : sr_send s m = Ok s' ->
  sr_next_id s' = sr_next_id s + 1 /\
  exists u, sr_unacked s' = sm_insert (sr_next_id s) u (sr_unacked s) /\ unacked_msg u = m /\
            forall idx, part_acked u (Some idx) <> Some true.
Proof.
  unfold sr_send. destruct (sr_max s <? sr_mem s + len m); [discriminate|]. intros [= <-].
  cbn [sr_next_id sr_unacked]. split; [reflexivity|].
  eexists. split; [reflexivity|]. destruct (SLICE_SIZE <? len m); cbn [unacked_msg part_acked].
  - split; [reflexivity|]. intros idx H. rewrite nth_opt_eq in H. apply nth_error_repeatN in H. discriminate.
  - split; [reflexivity|]. discriminate.
Qed.

Lemma slice_acked_part s id idx :
  slice_acked s id idx = match sm_find id (sr_unacked s) with Some u => part_acked u (Some idx) | None => None end.
Proof. unfold slice_acked. destruct (sm_find id (sr_unacked s)) as [[]|]; reflexivity. Qed.

Lemma dinv_send_rel ordf sr su seq recs rr ru acks oa ob sent got dlv ch s m s' :
  dinv ordf sr su seq recs rr ru acks oa ob sent got dlv ->
  sm_find ch sr = Some s -> sr_send s m = Ok s' ->
  dinv ordf (sm_insert ch s' sr) su seq recs rr ru acks oa ob (log_add sent ch m) got dlv.
Proof.
  intros [D1 D2 D3 D4 D5 D6 D7 D8 D9 D10] Hs E.
  pose proof (log_ext_add sent ch m) as He.
  destruct (sr_send_shape _ _ _ E) as (Hn & u & Hu & Hum & Hua).
  destruct (D1 ch s Hs) as [Hnext Hmsgs].
  constructor.
  - intros c0 sa. rewrite sm_find_insert. destruct (N.eqb_spec c0 ch) as [->|Hne].
    + intros [= <-]. rewrite log_get_add_same. split; [rewrite len_app, SMapSendP.len_one; lia|].
      intros id u0. rewrite Hu, sm_find_insert. destruct (N.eqb_spec id (sr_next_id s)) as [->|Hid].
      * intros [= <-]. rewrite Hum, Hnext. apply msg_at_snoc.
      * intros Hf. apply msg_at_app. eauto.
    + intros Hf. rewrite log_get_add_other by exact Hne. apply D1. exact Hf.
  - eapply out_ok_ext; eauto.
  - eapply receiver_ok_ext; eauto.
  - exact D4.
  - exact D5.
  - intros c0 sa. rewrite sm_find_insert. destruct (N.eqb_spec c0 ch) as [->|Hne].
    + intros [= <-] id m0. rewrite log_get_add_same. intros Hat.
      apply msg_at_snoc_inv in Hat. destruct Hat as [Hat|[-> ->]].
      * assert (Hid : id <> sr_next_id s) by (apply msg_at_lt in Hat; lia).
        assert (Hsame : sm_find id (sr_unacked s') = sm_find id (sr_unacked s))
          by (rewrite Hu; now apply sm_find_insert_other).
        destruct (find_same_props _ _ _ Hsame) as (K1 & _ & K3).
        destruct (D6 ch s Hs id m0 Hat) as [A B]. split; [rewrite K1; exact A|].
        intros idx. rewrite K3. apply B.
      * rewrite <- Hnext. split.
        -- intros Hk. apply kind_none_find in Hk. rewrite Hu, sm_find_insert_same in Hk. discriminate.
        -- intros idx Hidx. exfalso. rewrite slice_acked_part, Hu, sm_find_insert_same in Hidx.
           eapply Hua; eauto.
    + intros Hf id m0. rewrite log_get_add_other by exact Hne. apply D6. exact Hf.
  - eapply unrel_snd_ok_ext; eauto.
  - eapply unrel_out_ok_ext; eauto.
  - eapply unrel_rcv_ok_ext; eauto.
  - eapply got_ok_ext; eauto.
Qed.

Lemma dinv_send_unrel ordf sr su seq recs rr ru acks oa ob sent got dlv ch s m :
  dinv ordf sr su seq recs rr ru acks oa ob sent got dlv ->
  sm_find ch sr = None -> sm_find ch su = Some s ->
  dinv ordf sr (sm_insert ch (su_send s m) su) seq recs rr ru acks oa ob (log_add sent ch m) got dlv.
Proof.
  intros [D1 D2 D3 D4 D5 D6 D7 D8 D9 D10] Hnone Hs.
  pose proof (log_ext_add sent ch m) as He.
  constructor.
  - intros c0 sa Hf. assert (Hne : c0 <> ch) by congruence.
    rewrite log_get_add_other by exact Hne. now apply D1.
  - eapply out_ok_ext; eauto.
  - eapply receiver_ok_ext; eauto.
  - exact D4.
  - exact D5.
  - intros c0 sa Hf id m0. assert (Hne : c0 <> ch) by congruence.
    rewrite log_get_add_other by exact Hne. now apply D6.
  - intros c0 s0. rewrite sm_find_insert. destruct (N.eqb_spec c0 ch) as [->|Hne].
    + intros [= <-]. destruct (D7 ch s Hs) as [A B]. rewrite log_get_add_same. split.
      * unfold su_send. destruct (su_max s <? su_mem s + len m); cbn [su_queue].
        -- eapply Forall_impl; [|exact A]. intros x Hx. apply in_or_app. now left.
        -- apply Forall_app. split; [|constructor; [apply in_or_app; right; now left|constructor]].
           eapply Forall_impl; [|exact A]. intros x Hx. apply in_or_app. now left.
      * intros bytes sq sl Hin Hp. specialize (B bytes sq sl Hin Hp).
        unfold su_send. destruct (su_max s <? su_mem s + len m); exact B.
    + intros Hf. rewrite log_get_add_other by exact Hne. now apply D7.
  - eapply unrel_out_ok_ext; eauto.
  - eapply unrel_rcv_ok_ext; eauto.
  - eapply got_ok_ext; eauto.
Qed.

(* ================================================================== *)
(* T2 / T8 (part): the sender's records only shrink *)

Lemma dinv_recs_sub ordf sr su seq recs recs' rr ru acks oa ob sent got dlv :
  (forall k v, sm_find k recs' = Some v -> sm_find k recs = Some v) ->
  dinv ordf sr su seq recs rr ru acks oa ob sent got dlv ->
  dinv ordf sr su seq recs' rr ru acks oa ob sent got dlv.
Proof.
  intros Hsub [D1 D2 D3 D4 D5 D6 D7 D8 D9 D10]. constructor; auto.
  eapply track_ok_sub; eauto. lia.
Qed.

Lemma sm_find_suffix {V} (pre l : list (N * V)) k v :
  asc (map fst (pre ++ l)) -> sm_find k l = Some v -> sm_find k (pre ++ l) = Some v.
Proof.
  intros Ha Hf. apply sm_in_find; [exact Ha|]. apply in_or_app. right. now apply sm_find_in.
Qed.

(* ================================================================== *)
(* T3: the sender flushes *)

(* shape facts of the unreliable packets of a flush, for the decoder *)
Definition unrel_shape (su : list (N * send_unrel)) (p : packet) : Prop :=
  match p with
  | SmallUnreliable _ ch _ => sm_mem ch su = true
  | UnreliableSlice _ ch sl =>
      sm_mem ch su = true /\
      exists m, SLICE_SIZE < len m /\ sl_index sl < num_slices_of m /\ sl = slice_of m (sl_id sl) (sl_index sl)
  | _ => True
  end.

Lemma su_step_shape f su su' pk p : su_step_ok f su su' pk -> In p pk -> unrel_shape su p.
Proof.
  intros (_ & B & C) Hin. destruct p as [sq ch ms|sq ch ms|sq ch sl|sq ch sl|sq rs]; cbn [unrel_shape]; auto.
  - destruct (B _ _ _ Hin) as (s & Hs & _). eapply sm_find_some_mem; eauto.
  - destruct (C _ _ _ Hin) as (s & s' & Hs & _ & _ & _ & _ & H1 & H2 & H3).
    split; [eapply sm_find_some_mem; eauto|eauto].
Qed.

Lemma slice_of_wf rel m id idx :
  SLICE_SIZE < len m -> idx < num_slices_of m -> num_slices_of m <= MAX_NUM_SLICES ->
  ConnEncP.slice_vok (slice_of m id idx) -> slice_wf rel (slice_of m id idx).
Proof.
  intros Hl Hidx Hmax (V1 & V2 & V3 & V4). cbn [slice_of sl_id sl_index sl_num sl_payload] in *.
  destruct (SliceP.num_bounds m Hl) as (_ & _ & B3).
  pose proof (SMapSendP.plen_bounds m idx ltac:(lia) Hidx) as Hp. unfold SMapSendP.plen in Hp.
  unfold slice_wf. cbn [slice_of sl_id sl_index sl_num sl_payload].
  repeat split; try assumption; lia.
Qed.

Lemma emit_decode c p b p' :
  conn_inv c -> chans_u8 c -> to_bytes SER_BUFFER p = Ok b -> pkt_fits p -> ConnEncP.varints_ok p ->
  emit_ok c p -> unrel_shape (c_su c) p -> from_bytes b = Ok p' -> p' = p /\ packet_wf p.
Proof.
  intros Hi Hu8 Hb Hfit Hv Hem Hsh Hp'.
  assert (Hcases : packet_wf p \/
    exists (rel : bool) sq ch s, p = (if rel then ReliableSlice sq ch s else UnreliableSlice sq ch s) /\
      sq <= VARINT_MAX /\ ch < 256 /\ ConnEncP.slice_vok s /\ MAX_NUM_SLICES < sl_num s).
  { destruct p as [sq ch ms|sq ch ms|sq ch sl|sq ch sl|sq rs]; cbn [emit_ok unrel_shape ConnEncP.varints_ok] in *.
    - left. destruct (Hem eq_refl) as (ch0 & s & Hs & Hch & _). subst ch0.
      cbn [packet_wf]. destruct Hv as [Hv1 Hv2]. split; [exact Hv1|].
      split; [apply Hu8; left; eapply sm_find_some_mem; eauto|].
      split; [now apply (small_rel_count sq ch)|exact Hv2].
    - left. cbn [packet_wf]. destruct Hv as [Hv1 Hv2]. split; [exact Hv1|].
      split; [apply Hu8; now right|]. split; [now apply (small_unrel_count sq ch)|exact Hv2].
    - destruct (Hem eq_refl) as (ch0 & s & Hs & Hch & m & num & Hst & Hsl & Hidx). subst ch0.
      destruct Hv as [Hv1 Hv2].
      assert (Hch : ch < 256) by (apply Hu8; left; eapply sm_find_some_mem; eauto).
      unfold st_of in Hst. destruct (sm_find (sl_id sl) (sr_unacked s)) as [u|] eqn:Eu; [|discriminate].
      destruct (inv_find_sr _ _ _ Hi Hs) as [Hsi _].
      destruct (SendRelP.sr_inv_find _ _ _ _ Hsi Eu) as (_ & Hwf & _).
      destruct u as [m0 l|m0 num0 na nx ak ls]; cbn [static_of] in Hst; [discriminate|].
      injection Hst as -> ->. destruct Hwf as (W1 & W2 & _). subst num.
      destruct (N.le_gt_cases (num_slices_of m) MAX_NUM_SLICES) as [Hle|Hgt].
      + left. cbn [packet_wf]. split; [exact Hv1|]. split; [exact Hch|].
        rewrite Hsl in *. now apply slice_of_wf.
      + right. exists true, sq, ch, sl. split; [reflexivity|]. split; [exact Hv1|]. split; [exact Hch|].
        split; [exact Hv2|]. rewrite Hsl. exact Hgt.
    - destruct Hsh as (Hmem & m & Hl & Hidx & Hsl). destruct Hv as [Hv1 Hv2].
      assert (Hch : ch < 256) by (apply Hu8; now right).
      destruct (N.le_gt_cases (num_slices_of m) MAX_NUM_SLICES) as [Hle|Hgt].
      + left. cbn [packet_wf]. split; [exact Hv1|]. split; [exact Hch|].
        rewrite Hsl in *. now apply slice_of_wf.
      + right. exists false, sq, ch, sl. split; [reflexivity|]. split; [exact Hv1|]. split; [exact Hch|].
        split; [exact Hv2|]. rewrite Hsl. exact Hgt.
    - left. apply Hem. }
  destruct Hcases as [Hwf|(rel & sq & ch & s & -> & H1 & H2 & H3 & H4)].
  - rewrite (PacketP.packet_roundtrip' p SER_BUFFER b Hwf Hb) in Hp'. injection Hp' as <-. auto.
  - destruct (big_slice_undecodable SER_BUFFER rel sq ch s b H1 H2 H3 H4 Hb) as (e & He). congruence.
Qed.

Lemma Forall2_in_r {A B} (R : A -> B -> Prop) l l' y : Forall2 R l l' -> In y l' -> exists x, In x l /\ R x y.
Proof.
  induction 1 as [|x0 y0 l l' Hxy _ IH]; intros Hin; [destruct Hin|].
  destruct Hin as [->|Hin]; [exists x0; split; [now left|exact Hxy]|].
  destruct (IH Hin) as (x & Hx & Hr). exists x. split; [now right|exact Hr].
Qed.

(* everything the system proofs need to know about one flush *)
Lemma flush_pack c c' bytes :
  conn_inv c -> chans_u8 c -> is_disconnected c = false -> get_packets_to_send c = Ok (c', bytes) ->
  exists pk f,
    seqs_from (c_seq c) pk /\ c_seq c' = c_seq c + len pk /\
    (forall p, In p pk -> sm_find (packet_seq p) (c_sent c') = Some (c_now c, pkt_info p)) /\
    (forall k v, sm_find k (c_sent c') = Some v ->
       sm_find k (c_sent c) = Some v \/ exists p, In p pk /\ packet_seq p = k /\ v = (c_now c, pkt_info p)) /\
    sr_static (c_sr c) (c_sr c') /\
    su_step_ok f (c_su c) (c_su c') pk /\
    Forall (emit_ok c) pk /\
    c_rr c' = c_rr c /\ c_ru c' = c_ru c /\ c_acks c' = c_acks c /\ c_status c' = c_status c /\
    (forall b p', In b bytes -> from_bytes b = Ok p' -> In p' pk /\ packet_wf p').
Proof.
  intros Hi Hu8 Hd E.
  destruct (flush_emits c c' bytes Hi Hd E)
    as (pk & HF2 & Hfits & Hv & Hseqs & Hseq' & Hrec1 & Hrec2 & Hstat & (f & Hsu) & Hem & Hrr & Hru & Hacks & Hst).
  exists pk, f. repeat (split; [assumption|]).
  intros b p' Hin Hp'. destruct (Forall2_in_r _ _ _ _ HF2 Hin) as (p & Hp & Hb).
  rewrite Forall_forall in Hfits, Hv, Hem.
  destruct (emit_decode c p b p' Hi Hu8 Hb (Hfits p Hp) (Hv p Hp) (Hem p Hp)
              (su_step_shape _ _ _ _ _ Hsu Hp) Hp') as [-> Hwf]. auto.
Qed.

Lemma kind_of_st s id :
  kind_of s id = match st_of (sr_unacked s) id with
                 | None => None | Some (_, None) => Some None | Some (_, Some n) => Some (Some n) end.
Proof. unfold kind_of, st_of. destruct (sm_find id (sr_unacked s)) as [[]|]; reflexivity. Qed.

Lemma sender_ok_static sr sr' sent : sr_static sr sr' -> sender_ok sr sent -> sender_ok sr' sent.
Proof.
  intros Hst H ch sa' Hf'. specialize (Hst ch). destruct (sm_find ch sr) as [s|] eqn:Es; [|congruence].
  destruct Hst as (s' & E' & Hn & Hk & _). rewrite Hf' in E'. injection E' as <-.
  destruct (H ch s Es) as [A B]. split; [congruence|].
  intros id u' Hu'. specialize (Hk id). unfold st_of in Hk. rewrite Hu' in Hk.
  destruct (sm_find id (sr_unacked s)) as [u|] eqn:Eu; [|discriminate].
  injection Hk as Hk. rewrite (B id u Eu), !unacked_msg_static, Hk. reflexivity.
Qed.

Lemma release_ok_static sr sr' sent oa dlv : sr_static sr sr' -> release_ok sr sent oa dlv -> release_ok sr' sent oa dlv.
Proof.
  intros Hst H ch sa' Hf' id m Hat. specialize (Hst ch). destruct (sm_find ch sr) as [s|] eqn:Es; [|congruence].
  destruct Hst as (s' & E' & Hn & Hk & Hp). rewrite Hf' in E'. injection E' as <-.
  destruct (H ch s Es id m Hat) as [A B]. split.
  - intros Hkn. apply A. rewrite kind_of_st in *. now rewrite <- Hk.
  - intros idx Hidx. apply B. rewrite SendRelP.slice_acked_packed in *. now rewrite <- Hp.
Qed.

Lemma sid_used_mono oa oa' ch sid : sid_used oa ch sid -> sid_used (oa ++ oa') ch sid.
Proof. intros (b & sq & sl & A & B). exists b, sq, sl. split; [apply in_or_app; now left|exact B]. Qed.

Lemma dinv_flush ordf c c' bytes rr ru acks oa ob sent got dlv :
  conn_inv c -> chans_u8 c -> is_disconnected c = false -> get_packets_to_send c = Ok (c', bytes) ->
  dinv ordf (c_sr c) (c_su c) (c_seq c) (c_sent c) rr ru acks oa ob sent got dlv ->
  dinv ordf (c_sr c') (c_su c') (c_seq c') (c_sent c') rr ru acks (oa ++ bytes) ob sent got dlv.
Proof.
  intros Hi Hu8 Hd E [D1 D2 D3 D4 D5 D6 D7 D8 D9 D10].
  destruct (flush_pack c c' bytes Hi Hu8 Hd E)
    as (pk & f & Hseqs & Hseq' & Hrec1 & Hrec2 & Hstat & Hsu & Hem & _ & _ & _ & _ & Hdec).
  pose proof (seqs_from_bounds _ _ Hseqs) as Hbounds. rewrite Forall_forall in Hbounds, Hem.
  pose proof Hsu as (Hsu1 & Hsu2 & Hsu3).
  (* a new slice packet cannot reuse a sliced-message id seen on the wire before *)
  assert (Hfresh : forall b sq ch sl b2 sq2 sl2,
            In b oa -> from_bytes b = Ok (UnreliableSlice sq ch sl) ->
            In b2 bytes -> from_bytes b2 = Ok (UnreliableSlice sq2 ch sl2) -> sl_id sl2 = sl_id sl -> False).
  { intros b sq ch sl b2 sq2 sl2 Hb Hp Hb2 Hp2 Heq.
    destruct (Hdec b2 _ Hb2 Hp2) as [Hin2 _].
    destruct (Hsu3 _ _ _ Hin2) as (s0 & s0' & Hs0 & _ & Hlo & _).
    destruct (D7 ch s0 Hs0) as [_ Hold]. specialize (Hold b sq sl Hb Hp). lia. }
  assert (Hgrow : forall ch sid m, sid_is oa ch sid m -> sid_used oa ch sid -> sid_is (oa ++ bytes) ch sid m).
  { intros ch sid m Hsid (b0 & sq0 & sl0 & Hb0 & Hp0 & Hid0) b sq sl Hin Hp Hid.
    apply in_app_or in Hin. destruct Hin as [Hin|Hin]; [eauto|].
    exfalso. eapply (Hfresh b0 sq0 ch sl0 b sq sl); eauto. congruence. }
  constructor.
  - eapply sender_ok_static; eauto.
  - intros b p Hin Hp. apply in_app_or in Hin. destruct Hin as [Hin|Hin]; [eauto|].
    destruct (Hdec b p Hin Hp) as [Hpk _]. specialize (Hem p Hpk).
    destruct p as [sq ch ms|sq ch ms|sq ch sl|sq ch sl|sq rs]; cbn [emit_ok pkt_honest] in *.
    + destruct (Hem eq_refl) as (ch0 & s & Hs & Hch & Hent). subst ch0.
      destruct (D1 ch s Hs) as [_ Hmsgs]. destruct (inv_find_sr _ _ _ Hi Hs) as [Hsi _].
      eapply Forall_impl; [|exact Hent]. intros [id m] He. unfold entry_ok, st_of in He. cbn [fst snd] in He.
      destruct (sm_find id (sr_unacked s)) as [u|] eqn:Eu; [|discriminate].
      destruct (SendRelP.sr_inv_find _ _ _ _ Hsi Eu) as (_ & Hwf & _).
      specialize (Hmsgs id u Eu).
      destruct u as [m0 l|m0 num0 na nx ak ls]; cbn [static_of] in He; [|discriminate].
      injection He as ->. cbn [unacked_msg] in Hmsgs. destruct Hwf as [W1 _].
      split; [exact Hmsgs|exact W1].
    + destruct (Hsu2 _ _ _ Hpk) as (s & Hs & Hq). destruct (D7 ch s Hs) as [Hlog _].
      rewrite Forall_forall in *. auto.
    + destruct (Hem eq_refl) as (ch0 & s & Hs & Hch & m & num & Hst & Hsl & Hidx). subst ch0.
      destruct (D1 ch s Hs) as [_ Hmsgs]. destruct (inv_find_sr _ _ _ Hi Hs) as [Hsi _].
      unfold st_of in Hst. destruct (sm_find (sl_id sl) (sr_unacked s)) as [u|] eqn:Eu; [|discriminate].
      destruct (SendRelP.sr_inv_find _ _ _ _ Hsi Eu) as (_ & Hwf & _).
      specialize (Hmsgs _ u Eu).
      destruct u as [m0 l|m0 num0 na nx ak ls]; cbn [static_of] in Hst; [discriminate|].
      injection Hst as -> ->. cbn [unacked_msg] in Hmsgs. destruct Hwf as (W1 & W2 & _). subst num.
      exists m. auto.
    + destruct (Hsu3 _ _ _ Hpk) as (s & s' & Hs & _ & _ & _ & A1 & A2 & A3 & A4).
      destruct (D7 ch s Hs) as [Hlog _]. rewrite Forall_forall in Hlog.
      exists (f ch (sl_id sl)). auto.
    + exact I.
  - exact D3.
  - rewrite (app_nil_r' dlv). now apply acks_ok_mono.
  - intros b p Hin Hp. apply in_app_or in Hin. destruct Hin as [Hin|Hin].
    + destruct (D5 b p Hin Hp) as [A B]. split; [lia|].
      intros t info Hf. destruct (Hrec2 _ _ Hf) as [Hold|(p2 & Hp2 & Hsq & _)]; [eauto|].
      destruct (Hbounds p2 Hp2) as [Hlo _]. lia.
    + destruct (Hdec b p Hin Hp) as [Hpk _]. destruct (Hbounds p Hpk) as [_ Hhi]. split; [lia|].
      intros t info Hf. rewrite (Hrec1 p Hpk) in Hf. congruence.
  - rewrite (app_nil_r' dlv). apply release_ok_mono. eapply release_ok_static; eauto.
  - intros ch s' Hs'. specialize (Hsu1 ch). destruct (sm_find ch (c_su c)) as [s|] eqn:Es; [|congruence].
    destruct Hsu1 as (s2 & E2 & Hle & Hq). rewrite Hs' in E2. injection E2 as <-.
    destruct (D7 ch s Es) as [A B]. split.
    + rewrite Forall_forall in *. auto.
    + intros b sq sl Hin Hp. apply in_app_or in Hin. destruct Hin as [Hin|Hin].
      * specialize (B b sq sl Hin Hp). lia.
      * destruct (Hdec b _ Hin Hp) as [Hpk _].
        destruct (Hsu3 _ _ _ Hpk) as (s0 & s0' & Hs0 & Hs0' & _ & Hhi & _). congruence.
  - intros b sq ch sl Hin Hp. apply in_app_or in Hin. destruct Hin as [Hin|Hin].
    + destruct (D8 b sq ch sl Hin Hp) as (m & A1 & A2 & A3 & A4). exists m.
      split; [exact A1|]. split; [exact A2|]. split; [exact A3|].
      apply Hgrow; [exact A4|]. exists b, sq, sl. auto.
    + destruct (Hdec b _ Hin Hp) as [Hpk _].
      destruct (Hsu3 _ _ _ Hpk) as (s & s' & Hs & _ & _ & _ & A1 & A2 & A3 & A4).
      destruct (D7 ch s Hs) as [Hlog _]. rewrite Forall_forall in Hlog.
      exists (f ch (sl_id sl)). split; [auto|]. split; [exact A2|]. split; [exact A3|].
      intros b2 sq2 sl2 Hin2 Hp2 Hid2. apply in_app_or in Hin2. destruct Hin2 as [Hin2|Hin2].
      * exfalso. eapply (Hfresh b2 sq2 ch sl2 b sq sl); eauto.
      * destruct (Hdec b2 _ Hin2 Hp2) as [Hpk2 _].
        destruct (Hsu3 _ _ _ Hpk2) as (_ & _ & _ & _ & _ & _ & _ & _ & _ & B4).
        rewrite Hid2 in B4. exact B4.
  - intros ch r Hr. destruct (D9 ch r Hr) as [A B]. split; [exact A|].
    intros sid c0 Hc0. destruct (B sid c0 Hc0) as (m & B1 & B2 & B3 & B4 & B5).
    exists m. split; [exact B1|]. split; [exact B2|]. split; [exact B3|].
    split; [now apply Hgrow|now apply sid_used_mono].
  - exact D10.
Qed.

(* ================================================================== *)
(* T4: the receiver's application takes a message *)

Lemma rr_refines_ext0 sent got o r evs2 r' :
  rr_refines sent got o r -> Forall (rev_ok sent) evs2 ->
  (forall outs, rr_exec sent r evs2 outs = (r', outs, false)) ->
  rr_refines sent got o r'.
Proof.
  intros H F E. rewrite (app_nil_r' got). change (@nil (list N)) with (map snd (@nil (N * list N))).
  eapply rr_refines_ext; eauto. intros outs. rewrite app_nil_r. apply E.
Qed.

(* replacing the state of one reliable receive channel *)
Lemma receiver_ok_update ordf rr sent got got' ch r r' :
  receiver_ok ordf rr sent got -> sm_find ch rr = Some r ->
  (forall c0, c0 <> ch -> log_get got' c0 = log_get got c0) ->
  (forall o, rr_refines (log_get sent ch) (log_get got ch) o r ->
             rr_refines (log_get sent ch) (log_get got' ch) o r') ->
  receiver_ok ordf (sm_insert ch r' rr) sent got'.
Proof.
  intros H Hr Hother Hstep c0. rewrite sm_find_insert. destruct (N.eqb_spec c0 ch) as [->|Hne].
  - specialize (H ch). rewrite Hr in H. destruct H as (o & Ho & Hre). exists o. auto.
  - specialize (H c0). destruct (sm_find c0 rr) as [r0|]; [|exact H].
    destruct H as (o & Ho & Hre). exists o. split; [exact Ho|]. now rewrite Hother.
Qed.

Definition got_add (got : chan_log) (ch : N) (mo : option (list N)) : chan_log :=
  match mo with Some m => log_add got ch m | None => got end.

Lemma got_add_other got ch mo c0 : c0 <> ch -> log_get (got_add got ch mo) c0 = log_get got c0.
Proof. intros H. destruct mo; cbn [got_add]; [now apply log_get_add_other|reflexivity]. Qed.

Lemma got_add_same got ch mo :
  log_get (got_add got ch mo) ch = log_get got ch ++ match mo with Some m => [m] | None => [] end.
Proof. destruct mo; cbn [got_add]; [apply log_get_add_same|now rewrite app_nil_r]. Qed.

Lemma dinv_recv_rel ordf sr su seq recs rr ru acks oa ob sent got dlv ch r r' mo :
  dinv ordf sr su seq recs rr ru acks oa ob sent got dlv ->
  sm_find ch rr = Some r -> rr_receive r = Ok (r', mo) ->
  dinv ordf sr su seq recs (sm_insert ch r' rr) ru acks oa ob sent (got_add got ch mo) dlv.
Proof.
  intros [D1 D2 D3 D4 D5 D6 D7 D8 D9 D10] Hr E.
  assert (Hstep : forall o, rr_refines (log_get sent ch) (log_get got ch) o r ->
            rr_refines (log_get sent ch) (log_get (got_add got ch mo) ch) o r').
  { intros o Hre. rewrite got_add_same.
    destruct (rr_receive_exec (log_get sent ch) r r' mo E) as (outs2 & E2 & Hm). rewrite <- Hm.
    apply (rr_refines_ext _ _ _ r [RRecv] r' outs2); [exact Hre|constructor; [exact I|constructor]|exact E2]. }
  constructor; auto.
  - eapply receiver_ok_update; eauto. intros c0 Hne. now apply got_add_other.
  - intros c0 m Hin. destruct (N.eq_dec c0 ch) as [->|Hne].
    + specialize (D3 ch). rewrite Hr in D3. destruct D3 as (o & _ & Hre).
      pose proof (rr_refines_outs _ _ _ _ (Hstep o Hre)) as Hall.
      rewrite Forall_forall in Hall. auto.
    + rewrite got_add_other in Hin by exact Hne. auto.
Qed.

Lemma dinv_recv_unrel ordf sr su seq recs rr ru acks oa ob sent got dlv ch r r' mo :
  dinv ordf sr su seq recs rr ru acks oa ob sent got dlv ->
  sm_find ch rr = None -> sm_find ch ru = Some r -> ru_receive r = Ok (r', mo) ->
  dinv ordf sr su seq recs rr (sm_insert ch r' ru) acks oa ob sent (got_add got ch mo) dlv.
Proof.
  intros [D1 D2 D3 D4 D5 D6 D7 D8 D9 D10] Hnone Hr E.
  destruct (D9 ch r Hr) as [Hmsgs Hctors].
  assert (Hr' : (mo = None /\ r' = r) \/
                exists m t mem, ru_messages r = m :: t /\ mo = Some m /\
                                r' = ru_with r t (ru_slices r) (ru_last r) mem).
  { unfold ru_receive in E. destruct (ru_messages r) as [|m t] eqn:Em.
    - left. injection E as <- <-. auto.
    - destruct (sub_chk SITE_RECV_MEM_SUB (ru_mem r) (len m)) as [mem| |]; cbn [bind] in E; try discriminate.
      injection E as <- <-. right. exists m, t, mem. auto. }
  constructor; auto.
  - intros c0. specialize (D3 c0). destruct (sm_find c0 rr) as [r0|] eqn:E0; [|exact D3].
    assert (Hne : c0 <> ch) by congruence. now rewrite got_add_other.
  - intros c0 r0. rewrite sm_find_insert. destruct (N.eqb_spec c0 ch) as [->|Hne]; [|apply D9].
    intros [= <-]. destruct Hr' as [[_ ->]|(m & t & mem & Em & _ & ->)]; [auto|].
    cbn [ru_with ru_messages ru_slices]. split; [|exact Hctors].
    rewrite Em in Hmsgs. now inversion Hmsgs.
  - intros c0 m Hin. destruct (N.eq_dec c0 ch) as [->|Hne].
    + rewrite got_add_same in Hin. apply in_app_or in Hin. destruct Hin as [Hin|Hin]; [auto|].
      destruct Hr' as [[-> _]|(m0 & t & mem & Em & -> & _)]; [destruct Hin|].
      destruct Hin as [<-|[]]. rewrite Em in Hmsgs. now inversion Hmsgs.
    + rewrite got_add_other in Hin by exact Hne. auto.
Qed.

(* ================================================================== *)
(* T5: the receiver discards stale partial messages *)

Lemma discard_all_find now : forall l l', discard_all now l = Ok l' ->
  forall ch r', sm_find ch l' = Some r' -> exists r, sm_find ch l = Some r /\ ru_discard_old r now = Ok r'.
Proof.
  induction l as [|[c r] t IH]; intros l' E ch r' Hf; cbn [discard_all] in E.
  - injection E as <-. discriminate.
  - destruct (ru_discard_old r now) as [r1| |] eqn:Er; try discriminate.
    destruct (discard_all now t) as [t'| |] eqn:Et; cbn [bind] in E; try discriminate.
    injection E as <-. cbn [sm_find] in *. destruct (ch =? c); [injection Hf as <-; eauto|eauto].
Qed.

Lemma dinv_ru_discard ordf sr su seq recs rr ru ru' acks oa ob sent got dlv now0 now :
  dinv ordf sr su seq recs rr ru acks oa ob sent got dlv ->
  Forall (fun e : N * recv_unrel => ru_inv now0 (snd e)) ru -> now0 <= now ->
  discard_all now ru = Ok ru' ->
  dinv ordf sr su seq recs rr ru' acks oa ob sent got dlv.
Proof.
  intros [D1 D2 D3 D4 D5 D6 D7 D8 D9 D10] Hinv Hle E. constructor; auto.
  intros ch r' Hr'. destruct (discard_all_find now ru ru' E ch r' Hr') as (r & Hr & Ed).
  pose proof (Forall_sm_find _ _ _ _ Hinv Hr) as Hri. cbn [snd] in Hri.
  destruct (RecvUnrelP.discard_old_spec now0 now r Hri Hle) as (r2 & E2 & _ & _ & Hm & Hs & _).
  rewrite Ed in E2. injection E2 as <-.
  destruct (D9 ch r Hr) as [A B]. split; [now rewrite Hm|].
  intros sid c Hc. rewrite Hs in Hc. destruct (RecvUnrelP.stale_in now (ru_last r) sid); [discriminate|eauto].
Qed.

(* ================================================================== *)
(* T6: the receiver emits packets (only its Ack packets matter for this direction) *)

Lemma dinv_ob_grow ordf sr su seq recs rr ru acks oa ob sent got dlv bytes :
  (forall b sq rs, In b bytes -> from_bytes b = Ok (Ack sq rs) -> forall x, in_ranges x rs -> in_ranges x acks) ->
  dinv ordf sr su seq recs rr ru acks oa ob sent got dlv ->
  dinv ordf sr su seq recs rr ru acks oa (ob ++ bytes) sent got dlv.
Proof.
  intros H [D1 D2 D3 D4 D5 D6 D7 D8 D9 D10]. constructor; auto.
  destruct D4 as [A B]. split; [exact A|].
  intros b sq rs Hin Hp x Hx. apply in_app_or in Hin. destruct Hin as [Hin|Hin]; eauto.
Qed.

(* ================================================================== *)
(* T7: a packet of the sender is handed to the receiver *)

Lemma acks_ok_dlv acks ob oa dlv more : acks_ok acks ob oa dlv -> acks_ok acks ob oa (dlv ++ more).
Proof. intros H. pose proof (acks_ok_mono acks ob oa dlv [] more H) as H'. now rewrite app_nil_r in H'. Qed.

Lemma release_ok_dlv sr sent oa dlv more : release_ok sr sent oa dlv -> release_ok sr sent oa (dlv ++ more).
Proof. intros H. pose proof (release_ok_mono sr sent oa dlv [] more H) as H'. now rewrite app_nil_r in H'. Qed.

Lemma dinv_acks_dlv ordf sr su seq recs rr ru acks acks' oa ob sent got dlv more :
  dinv ordf sr su seq recs rr ru acks oa ob sent got dlv ->
  (forall x, in_ranges x acks' -> in_ranges x acks \/ delivered oa (dlv ++ more) x) ->
  dinv ordf sr su seq recs rr ru acks' oa ob sent got (dlv ++ more).
Proof.
  intros [D1 D2 D3 D4 D5 D6 D7 D8 D9 D10] H. constructor; auto.
  - apply (acks_ok_dlv _ _ _ _ more) in D4. destruct D4 as [A B]. split; [|exact B].
    intros x Hx. destruct (H x Hx); auto.
  - now apply release_ok_dlv.
Qed.

Lemma dinv_rr_update ordf sr su seq recs rr ru acks oa ob sent got dlv ch r r' :
  dinv ordf sr su seq recs rr ru acks oa ob sent got dlv -> sm_find ch rr = Some r ->
  (forall o, rr_refines (log_get sent ch) (log_get got ch) o r ->
             rr_refines (log_get sent ch) (log_get got ch) o r') ->
  dinv ordf sr su seq recs (sm_insert ch r' rr) ru acks oa ob sent got dlv.
Proof.
  intros [D1 D2 D3 D4 D5 D6 D7 D8 D9 D10] Hr Hstep. constructor; auto.
  eapply receiver_ok_update; eauto.
Qed.

(* the unreliable receive channel ch is consistent with the wire and the log *)
Definition ctor_good (oa : list (list N)) (sent : chan_log) (ch sid : N) (c : sctor) : Prop :=
  exists m, In m (log_get sent ch) /\ SLICE_SIZE < len m /\ ctor_ok' m c /\ sid_is oa ch sid m /\
            sid_used oa ch sid.

Definition ru_ok_one (oa : list (list N)) (sent : chan_log) (ch : N) (r : recv_unrel) : Prop :=
  Forall (fun m => In m (log_get sent ch)) (ru_messages r) /\
  forall sid c, sm_find sid (ru_slices r) = Some c -> ctor_good oa sent ch sid c.

Lemma dinv_ru_update ordf sr su seq recs rr ru acks oa ob sent got dlv ch r r' :
  dinv ordf sr su seq recs rr ru acks oa ob sent got dlv -> sm_find ch ru = Some r ->
  (ru_ok_one oa sent ch r -> ru_ok_one oa sent ch r') ->
  dinv ordf sr su seq recs rr (sm_insert ch r' ru) acks oa ob sent got dlv.
Proof.
  intros [D1 D2 D3 D4 D5 D6 D7 D8 D9 D10] Hr Hstep. constructor; auto.
  intros c0 r0. rewrite sm_find_insert. destruct (N.eqb_spec c0 ch) as [->|Hne]; [|apply D9].
  intros [= <-]. apply Hstep. exact (D9 ch r Hr).
Qed.

Lemma process_unrel_msgs_ok oa sent ch ms : forall r,
  Forall (fun m => In m (log_get sent ch)) ms -> ru_ok_one oa sent ch r ->
  ru_ok_one oa sent ch (process_unrel_msgs r ms).
Proof.
  induction ms as [|m t IH]; intros r F H; cbn [process_unrel_msgs]; [exact H|].
  inversion F as [|? ? Hm Ft]; subst. apply IH; [exact Ft|].
  unfold ru_process_message. destruct (ru_max r <? ru_mem r + len m); [exact H|].
  destruct H as [A B]. split; [|exact B]. cbn [ru_with ru_messages].
  apply Forall_app. split; [exact A|constructor; [exact Hm|constructor]].
Qed.

(* the common tail of ru_process_slice on a slice of m *)
Lemma ru_body_ok oa sent ch r1 sid idx m c now r' :
  asc (map fst (ru_slices r1)) ->
  Forall (fun m => In m (log_get sent ch)) (ru_messages r1) ->
  (forall k c0, k <> sid -> sm_find k (ru_slices r1) = Some c0 -> ctor_good oa sent ch k c0) ->
  sctor_wf c -> ctor_ok' m c -> SLICE_SIZE < len m -> idx < num_slices_of m ->
  In m (log_get sent ch) -> sid_is oa ch sid m -> sid_used oa ch sid ->
  RecvUnrelP.ru_body r1 sid idx (slice_payload m idx) now c = Ok r' ->
  ru_ok_one oa sent ch r'.
Proof.
  intros Hasc Hmsgs Hothers Hwf Hok Hl Hidx Hin Hsid Hused E. unfold RecvUnrelP.ru_body in E.
  pose proof (SliceP.sctor_process_honest m c idx Hl Hwf Hok Hidx) as P.
  destruct (sctor_process c idx (slice_payload m idx)) as [[c' [m'|]]|e|s]; try contradiction.
  - destruct P as [-> _].
    destruct (sub_chk SITE_RECV_MEM_SUB (ru_mem r1) (sc_num c * SLICE_SIZE)) as [mem| |]; cbn [bind] in E; try discriminate.
    injection E as <-. split; cbn [ru_with ru_messages ru_slices].
    + apply Forall_app. split; [exact Hmsgs|constructor; [exact Hin|constructor]].
    + intros k c0 Hk. apply (sm_find_remove_some _ _ _ _ Hasc) in Hk. destruct Hk as [Hne Hk]. eauto.
  - destruct P as (_ & Hok' & _). injection E as <-. split; cbn [ru_with ru_messages ru_slices]; [exact Hmsgs|].
    intros k c0. rewrite sm_find_insert. destruct (N.eqb_spec k sid) as [->|Hne]; [|eauto].
    intros [= <-]. exists m. auto 6.
Qed.

Lemma ru_process_slice_ok oa sent ch r now bytes sq sl r' :
  ru_inv now r -> ru_ok_one oa sent ch r -> unrel_out_ok oa sent ->
  In bytes oa -> from_bytes bytes = Ok (UnreliableSlice sq ch sl) ->
  ru_process_slice r sl now = Ok r' -> ru_ok_one oa sent ch r'.
Proof.
  intros Hinv [Hmsgs Hctors] Hout Hin Hp E.
  destruct (Hout bytes sq ch sl Hin Hp) as (m & Hm & Hl & Hidx & Hsid).
  pose proof (Hsid bytes sq sl Hin Hp eq_refl) as Hsl.
  assert (Hused : sid_used oa ch (sl_id sl)) by (exists bytes, sq, sl; auto).
  pose proof Hinv as (_ & _ & Hwfs & _ & _ & Hasc & _).
  rewrite RecvUnrelP.ru_process_slice_unfold in E.
  destruct (sm_find (sl_id sl) (ru_slices r)) as [c|] eqn:Ec.
  - rewrite Ec in E.
    destruct (Hctors _ _ Ec) as (m' & Hm' & Hl' & Hok' & Hsid' & _).
    pose proof (Hsid' bytes sq sl Hin Hp eq_refl) as Hsl'.
    assert (Hnum : num_slices_of m' = num_slices_of m).
    { rewrite Hsl in Hsl'. apply (f_equal sl_num) in Hsl'. cbn [slice_of sl_num] in Hsl'. congruence. }
    pose proof (Forall_sm_find _ _ _ _ Hwfs Ec) as Hwf. cbn [snd] in Hwf.
    replace (sl_payload sl) with (slice_payload m' (sl_index sl)) in E by (rewrite Hsl' at 2; reflexivity).
    eapply (ru_body_ok oa sent ch r (sl_id sl) (sl_index sl) m' c now r'); eauto.
    lia.
  - destruct (ru_max r <? ru_mem r + sl_num sl * SLICE_SIZE); [injection E as <-; split; assumption|].
    cbn [ru_with ru_slices] in E. rewrite sm_find_insert_same in E.
    assert (Hnum : sl_num sl = num_slices_of m) by (rewrite Hsl; reflexivity).
    destruct (SliceP.num_bounds m Hl) as (_ & _ & B3).
    replace (sl_payload sl) with (slice_payload m (sl_index sl)) in E by (rewrite Hsl at 2; reflexivity).
    refine (ru_body_ok oa sent ch _ (sl_id sl) (sl_index sl) m (sctor_new (sl_num sl)) now r'
              _ _ _ _ _ Hl Hidx Hm Hsid Hused E).
    + cbn [ru_with ru_slices]. now apply asc_sm_insert.
    + exact Hmsgs.
    + cbn [ru_with ru_slices]. intros k c0 Hne. rewrite sm_find_insert_other by exact Hne. apply Hctors.
    + apply SliceP.sctor_new_wf. lia.
    + rewrite Hnum. apply SliceP.ctor_ok_new.
Qed.

Lemma delivered_here oa dlv i bytes p :
  nth_error oa i = Some bytes -> from_bytes bytes = Ok p -> delivered oa (dlv ++ [i]) (packet_seq p).
Proof.
  intros Hn Hp. exists i, bytes, p. split; [apply in_or_app; right; now left|auto].
Qed.

Lemma dinv_deliver ordf sr su seq recs oa ob sent got dlv c bytes i p c' :
  conn_inv c -> is_disconnected c = false ->
  nth_error oa i = Some bytes -> from_bytes bytes = Ok p -> packet_wf p ->
  process_packet c bytes = Ok c' ->
  dinv ordf sr su seq recs (c_rr c) (c_ru c) (c_acks c) oa ob sent got dlv ->
  dinv ordf sr su seq recs (c_rr c') (c_ru c') (c_acks c') oa ob sent got (dlv ++ [i]).
Proof.
  intros Hi Hd Hn Hp Hwf E D.
  destruct (process_packet_cases c bytes) as [(Hd' & _)|[(_ & e & He & _)|(_ & p0 & Hp0 & E0)]]; try congruence.
  rewrite Hp in Hp0. injection Hp0 as <-. rewrite E0 in E. clear E0.
  set (c1 := with_acks c (add_pending_ack (c_acks c) (packet_seq p))) in *.
  assert (Hi1 : conn_inv c1) by (apply inv_add_pending_ack; [exact Hi|now apply packet_wf_seq]).
  pose proof (delivered_here oa dlv i bytes p Hn Hp) as Hdel.
  assert (Hin : In bytes oa) by (eapply nth_error_In; eauto).
  assert (Hsound : forall x, in_ranges x (c_acks c1) -> in_ranges x (c_acks c) \/ delivered oa (dlv ++ [i]) x).
  { intros x Hx. cbn [c1 with_acks c_acks] in Hx.
    apply (AcksP.add_pending_ack_sound _ _ _ (ci_acks_wf c Hi)) in Hx. destruct Hx as [->|Hx]; auto. }
  destruct (is_ack p) eqn:Ha.
  - destruct p as [| | | |sq rs]; try discriminate.
    destruct (process_ack_spec c1 sq rs Hi1 (packet_wf_ack_ranges _ _ Hwf))
      as (c2 & l & E2 & _ & Hfr & _ & _ & Hacks & _).
    rewrite E2 in E. injection E as <-.
    destruct Hfr as (_ & _ & _ & _ & F5 & F6 & _). rewrite F5, F6. cbn [c1 with_acks c_rr c_ru].
    eapply dinv_acks_dlv; [exact D|]. intros x Hx. auto.
  - assert (D0 : dinv ordf sr su seq recs (c_rr c) (c_ru c) (c_acks c1) oa ob sent got (dlv ++ [i]))
      by (eapply dinv_acks_dlv; eauto).
    pose proof (di_out _ _ _ _ _ _ _ _ _ _ _ _ _ D bytes p Hin Hp) as Hhon.
    assert (HD : forall r, dinv ordf sr su seq recs (c_rr (disconnect_with c1 r)) (c_ru (disconnect_with c1 r))
                                (c_acks (disconnect_with c1 r)) oa ob sent got (dlv ++ [i])).
    { intros r. destruct (disconnect_with_fields c1 r) as (_ & _ & A3 & A4 & A5 & _). rewrite A3, A4, A5. exact D0. }
    destruct p as [sq ch ms|sq ch ms|sq ch sl|sq ch sl|sq rs]; [| | | |discriminate];
      cbn [process_parsed pkt_honest] in *; change (c_rr c1) with (c_rr c) in E; change (c_ru c1) with (c_ru c) in E.
    + destruct (sm_find ch (c_rr c)) as [r|] eqn:Hr; [|injection E as <-; apply HD].
      destruct (process_rel_msgs r ms) as [r'| |] eqn:Epm; [|injection E as <-; apply HD|discriminate].
      injection E as <-. cbn [with_rr c_rr c_ru c_acks]. change (c_rr c1) with (c_rr c). change (c_ru c1) with (c_ru c).
      eapply dinv_rr_update; [exact D0|exact Hr|].
      intros o Hre. apply (rr_refines_ext0 _ _ _ r (map (fun im => RSmall (fst im)) ms) r');
        [exact Hre|apply small_events_ok; exact Hhon|].
      intros outs. apply process_rel_msgs_exec; [exact Hhon|exact Epm].
    + destruct (sm_find ch (c_ru c)) as [r|] eqn:Hr; [|injection E as <-; apply HD].
      injection E as <-. cbn [with_ru c_rr c_ru c_acks]. change (c_rr c1) with (c_rr c). change (c_ru c1) with (c_ru c).
      eapply dinv_ru_update; [exact D0|exact Hr|]. now apply process_unrel_msgs_ok.
    + destruct (sm_find ch (c_rr c)) as [r|] eqn:Hr; [|injection E as <-; apply HD].
      destruct (rr_process_slice r sl) as [r'| |] eqn:Eps; [|injection E as <-; apply HD|discriminate].
      injection E as <-. cbn [with_rr c_rr c_ru c_acks]. change (c_rr c1) with (c_rr c). change (c_ru c1) with (c_ru c).
      eapply dinv_rr_update; [exact D0|exact Hr|].
      intros o Hre. destruct (process_slice_exec (log_get sent ch) sl r r' [] Hhon Eps) as [_ Hev].
      eapply rr_refines_ext0; [exact Hre|constructor; [exact Hev|constructor]|].
      intros outs. now destruct (process_slice_exec (log_get sent ch) sl r r' outs Hhon Eps).
    + destruct (sm_find ch (c_ru c)) as [r|] eqn:Hr; [|injection E as <-; apply HD].
      destruct (ru_process_slice r sl (c_now c1)) as [r'| |] eqn:Eps; [|injection E as <-; apply HD|discriminate].
      injection E as <-. cbn [with_ru c_rr c_ru c_acks]. change (c_rr c1) with (c_rr c). change (c_ru c1) with (c_ru c).
      eapply dinv_ru_update; [exact D0|exact Hr|].
      intros Hone. eapply ru_process_slice_ok; eauto.
      * apply (inv_find_ru c1 ch r Hi1 Hr).
      * exact (di_uout _ _ _ _ _ _ _ _ _ _ _ _ _ D).
Qed.

(* a packet that does not decode only disconnects the receiver *)
Lemma dinv_deliver_err ordf sr su seq recs oa ob sent got dlv c r more :
  dinv ordf sr su seq recs (c_rr c) (c_ru c) (c_acks c) oa ob sent got dlv ->
  dinv ordf sr su seq recs (c_rr (disconnect_with c r)) (c_ru (disconnect_with c r))
       (c_acks (disconnect_with c r)) oa ob sent got (dlv ++ more).
Proof.
  intros D. destruct (disconnect_with_fields c r) as (_ & _ & A3 & A4 & A5 & _). rewrite A3, A4, A5.
  eapply dinv_acks_dlv; eauto.
Qed.

(* ================================================================== *)
(* T8: the sender processes an Ack packet of the receiver *)

(* the packet a sent-packet record describes was handed to the receiver *)
Definition rec_delivered (oa : list (list N)) (dlv : list nat) (sent : chan_log) (info : sent_info) : Prop :=
  exists i bytes p, In i dlv /\ nth_error oa i = Some bytes /\ from_bytes bytes = Ok p /\
                    pkt_info p = info /\ pkt_honest sent p.

Lemma ack_step_pres sr sr' now sent oa dlv info :
  Forall (fun e : N * send_rel => sr_inv now (snd e)) sr ->
  sr_acked sr sr' info -> rec_delivered oa dlv sent info ->
  sender_ok sr sent -> release_ok sr sent oa dlv ->
  sender_ok sr' sent /\ release_ok sr' sent oa dlv.
Proof.
  intros Hinv Hack (i & bytes & p & Hi & Hn & Hp & Hinfo & Hhon) D1 D6. split.
  - intros ch sa' Hf'. specialize (Hack ch). destruct (sm_find ch sr) as [s|] eqn:Es; [|congruence].
    destruct Hack as (s' & E' & Hnx & Hk). rewrite Hf' in E'. injection E' as <-.
    destruct (D1 ch s Es) as [A B]. split; [congruence|].
    intros id u' Hu'. destruct (Hk id) as ([K1|K1] & _); [congruence|].
    unfold st_of in K1. rewrite Hu' in K1.
    destruct (sm_find id (sr_unacked s)) as [u|] eqn:Eu; [|discriminate].
    injection K1 as K1. rewrite (B id u Eu), !unacked_msg_static, K1. reflexivity.
  - intros ch sa' Hf' id m Hat. specialize (Hack ch). destruct (sm_find ch sr) as [s|] eqn:Es; [|congruence].
    destruct Hack as (s' & E' & Hnx & Hk). rewrite Hf' in E'. injection E' as <-.
    destruct (D6 ch s Es id m Hat) as [A B]. destruct (D1 ch s Es) as [_ Hmsgs].
    pose proof (Forall_sm_find _ _ _ _ Hinv Es) as Hsi. cbn [snd] in Hsi.
    destruct (Hk id) as (_ & K2 & K3). split.
    + intros Hkn. destruct (kind_of s id) as [k|] eqn:Eks; [|auto].
      assert (Hrel : released_by s ch id info) by (apply K2; [discriminate|exact Hkn]).
      destruct info as [|c ids|c i0 idx|l]; cbn [released_by] in Hrel; try contradiction.
      * destruct Hrel as [-> Hin].
        destruct p as [sq ch0 ms|sq ch0 ms|sq ch0 sl|sq ch0 sl|sq rs]; cbn [pkt_info] in Hinfo; try discriminate.
        injection Hinfo as -> <-. cbn [pkt_honest] in Hhon.
        apply in_map_iff in Hin. destruct Hin as ([id' m'] & Hfst & Hin'). cbn [fst] in Hfst. subst id'.
        rewrite Forall_forall in Hhon. destruct (Hhon _ Hin') as [Hat' Hlen']. cbn [fst snd] in *.
        rewrite Hat in Hat'. injection Hat' as <-.
        unfold all_delivered. destruct (N.leb_spec (len m) SLICE_SIZE); [|lia].
        exists i, bytes. split; [exact Hi|]. split; [exact Hn|]. exists sq, ms. split; [exact Hp|].
        apply in_map_iff. exists (id, m). auto.
      * destruct Hrel as (-> & -> & num & Hknum & Hall).
        destruct p as [sq ch0 ms|sq ch0 ms|sq ch0 sl|sq ch0 sl|sq rs]; cbn [pkt_info] in Hinfo; try discriminate.
        injection Hinfo as -> Hid Hix. cbn [pkt_honest] in Hhon.
        destruct Hhon as (m' & Hat' & Hlen' & _). rewrite Hid, Hat in Hat'. injection Hat' as <-.
        assert (Hnum : num = num_slices_of m).
        { unfold kind_of in Hknum. destruct (sm_find id (sr_unacked s)) as [[m0 l0|m0 num0 na nx ak ls]|] eqn:Eu; try discriminate.
          injection Hknum as ->. destruct (SendRelP.sr_inv_find _ _ _ _ Hsi Eu) as (_ & Hwf & _).
          destruct Hwf as (_ & W2 & _). specialize (Hmsgs id _ Eu). cbn [unacked_msg] in Hmsgs. congruence. }
        unfold all_delivered. destruct (N.leb_spec (len m) SLICE_SIZE); [lia|].
        intros j Hj. destruct (N.eq_dec j idx) as [->|Hne].
        -- exists i, bytes. split; [exact Hi|]. split; [exact Hn|]. exists sq, sl. auto.
        -- apply B. apply Hall; [lia|exact Hne].
    + intros idx Hidx. destruct (K3 idx Hidx) as [Hold|Hnew]; [auto|]. rewrite Hnew in Hinfo.
      destruct p as [sq ch0 ms|sq ch0 ms|sq ch0 sl|sq ch0 sl|sq rs]; cbn [pkt_info] in Hinfo; try discriminate.
      injection Hinfo as -> Hid Hix.
      exists i, bytes. split; [exact Hi|]. split; [exact Hn|]. exists sq, sl. auto.
Qed.

Lemma apply_acks_pres sent oa dlv seqs : forall c c', conn_inv c -> NoDup seqs ->
  Forall (fun s => exists t info, sm_find s (c_sent c) = Some (t, info) /\ rec_delivered oa dlv sent info) seqs ->
  apply_acks c seqs = Ok c' ->
  sender_ok (c_sr c) sent -> release_ok (c_sr c) sent oa dlv ->
  sender_ok (c_sr c') sent /\ release_ok (c_sr c') sent oa dlv.
Proof.
  induction seqs as [|seq t IH]; intros c c' Hi Hnd Hall E D1 D6; cbn [apply_acks] in E.
  - injection E as <-. auto.
  - inversion Hnd as [|? ? Hnotin Hnd']; subst. inversion Hall as [|? ? (t0 & info & Hf & Hdel) Hall']; subst.
    destruct (apply_ack_fine c seq t0 info Hi Hf) as (c1 & E1 & Hi1 & Hsent1 & Hack1).
    rewrite E1 in E. cbn [bind] in E.
    assert (Hsr : Forall (fun e : N * send_rel => sr_inv (c_now c) (snd e)) (c_sr c)).
    { eapply Forall_impl; [|exact (ci_sr c Hi)]. intros e [A _]. exact A. }
    destruct (ack_step_pres _ _ _ _ _ _ _ Hsr Hack1 Hdel D1 D6) as [D1' D6'].
    apply (IH c1 c' Hi1 Hnd'); auto.
    rewrite Forall_forall in *. intros s Hs. destruct (Hall' s Hs) as (ts & is & Hfs & Hds).
    exists ts, is. split; [|exact Hds]. rewrite Hsent1.
    rewrite sm_find_remove_other; [exact Hfs|]. intros ->. contradiction.
Qed.

Lemma dinv_ack ordf c bytes sq rs c' rr ru acks oa ob sent got dlv :
  conn_inv c -> is_disconnected c = false ->
  In bytes ob -> from_bytes bytes = Ok (Ack sq rs) -> packet_wf (Ack sq rs) ->
  process_packet c bytes = Ok c' ->
  dinv ordf (c_sr c) (c_su c) (c_seq c) (c_sent c) rr ru acks oa ob sent got dlv ->
  dinv ordf (c_sr c') (c_su c') (c_seq c') (c_sent c') rr ru acks oa ob sent got dlv.
Proof.
  intros Hi Hd Hin Hp Hwf E [D1 D2 D3 D4 D5 D6 D7 D8 D9 D10].
  destruct (process_packet_cases c bytes) as [(Hd' & _)|[(_ & e & He & _)|(_ & p0 & Hp0 & E0)]]; try congruence.
  rewrite Hp in Hp0. injection Hp0 as <-. rewrite E0 in E. clear E0. cbn [packet_seq] in E.
  set (c1 := with_acks c (add_pending_ack (c_acks c) sq)) in *.
  assert (Hi1 : conn_inv c1) by (apply inv_add_pending_ack; [exact Hi|now apply (packet_wf_seq (Ack sq rs))]).
  destruct (process_ack_spec c1 sq rs Hi1 (packet_wf_ack_ranges _ _ Hwf))
    as (c2 & l & E2 & _ & Hfr & _ & Hsent & _ & _).
  rewrite E2 in E. injection E as <-.
  destruct Hfr as (F1 & _ & _ & F4 & _).
  cbn [process_parsed] in E2.
  destruct (collect_new_acks_spec (c_sent c1) (asc_NoDup _ (ci_sent_sorted c1 Hi1)) rs 0
              (packet_wf_ack_ranges _ _ Hwf)) as (l' & E' & Hnd & Hl').
  rewrite E' in E2. cbn [bind] in E2.
  assert (Hall : Forall (fun s => exists t info, sm_find s (c_sent c1) = Some (t, info) /\
                                   rec_delivered oa dlv sent info) l').
  { rewrite Forall_forall. intros s Hs. apply Hl' in Hs. destruct Hs as [Hmem Hrange].
    apply sm_mem_in in Hmem. destruct (sm_mem_find _ _ Hmem) as ([t info] & Hf).
    exists t, info. split; [exact Hf|].
    destruct D4 as [_ D4b]. destruct (D4b bytes sq rs Hin Hp s Hrange) as (i & b & p & Hi0 & Hn & Hpb & Hseq).
    assert (Hb : In b oa) by (eapply nth_error_In; eauto).
    destruct (D5 b p Hb Hpb) as [_ Hrec]. rewrite Hseq in Hrec.
    exists i, b, p. split; [exact Hi0|]. split; [exact Hn|]. split; [exact Hpb|].
    split; [symmetry; eapply Hrec; exact Hf|eauto]. }
  destruct (apply_acks_pres sent oa dlv l' c1 c2 Hi1 Hnd Hall E2 D1 D6) as [D1' D6'].
  rewrite F1, F4. cbn [c1 with_acks c_seq c_su].
  constructor; auto.
  eapply track_ok_sub; [|apply N.le_refl|exact D5]. exact Hsent.
Qed.
