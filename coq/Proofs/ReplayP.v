(* ReplayP.v - the anti-replay window of renetcode (replay_protection.rs):
   every sequence number below the EMPTY sentinel is accepted at most once,
   fresh numbers inside the window are accepted, old ones are refused. *)
From Coq Require Import NArith List Bool Lia ZifyBool ZifyN ZifyNat.
From RenetV Require Import Base Consts NPacket NetSpec.
Import ListNotations.
Open Scope N_scope.

Arguments N.add : simpl never.
Arguments N.sub : simpl never.
Arguments N.mul : simpl never.
Arguments N.div : simpl never.
Arguments N.modulo : simpl never.
Arguments N.pow : simpl never.
Arguments N.eqb : simpl never.
Arguments N.ltb : simpl never.
Arguments N.leb : simpl never.

(* ------------------------------------------------------------------ *)
(* list helpers                                                        *)
(* ------------------------------------------------------------------ *)

Lemma upd_length {A} (l : list A) i x : length (upd l i x) = length l.
Proof.
  revert i; induction l as [|y l IH]; intros [|i]; simpl; auto.
Qed.

Lemma nth_upd_same {A} (l : list A) i x d : (i < length l)%nat -> nth i (upd l i x) d = x.
Proof.
  revert i; induction l as [|y l IH]; intros [|i] H; simpl in *; try lia; auto.
  apply IH. lia.
Qed.

Lemma nth_upd_other {A} (l : list A) i j x d : i <> j -> nth j (upd l i x) d = nth j l d.
Proof.
  revert i j; induction l as [|y l IH]; intros [|i] [|j] H; simpl in *; auto; try congruence.
Qed.

Lemma repeatN_length {A} (x : A) n : length (repeatN x n) = n.
Proof. induction n; simpl; auto. Qed.

Lemma nth_repeatN {A} (x : A) n i : nth i (repeatN x n) x = x.
Proof. revert i; induction n; intros [|i]; simpl; auto. Qed.

(* ------------------------------------------------------------------ *)
(* the constant, and the arithmetic of residues                        *)
(* ------------------------------------------------------------------ *)

Lemma replay_size_val : NC_REPLAY_SIZE = 256.
Proof. reflexivity. Qed.

Lemma replay_size_nat : N.to_nat NC_REPLAY_SIZE = 256%nat.
Proof. reflexivity. Qed.

Lemma mod_size_lt s : (N.to_nat (s mod NC_REPLAY_SIZE) < 256)%nat.
Proof.
  rewrite replay_size_val.
  assert (s mod 256 < 256) by (apply N.mod_lt; discriminate). lia.
Qed.

(* two different numbers with the same residue differ by at least the window size *)
Local Ltac Zify.zify_post_hook ::= Z.div_mod_to_equations.
Lemma same_residue_far a b :
  a mod NC_REPLAY_SIZE = b mod NC_REPLAY_SIZE -> a < b -> a + NC_REPLAY_SIZE <= b.
Proof. rewrite replay_size_val. intros H L. lia. Qed.
Local Ltac Zify.zify_post_hook ::= idtac.

Lemma residue_index_eq a b :
  N.to_nat (a mod NC_REPLAY_SIZE) = N.to_nat (b mod NC_REPLAY_SIZE) ->
  a mod NC_REPLAY_SIZE = b mod NC_REPLAY_SIZE.
Proof. intro H. apply N2Nat.inj. exact H. Qed.

(* ------------------------------------------------------------------ *)
(* P1: well-formedness                                                 *)
(* ------------------------------------------------------------------ *)

Theorem replay_new_wf : rp_wf replay_new.
Proof. unfold rp_wf, replay_new. cbn [rp_slots]. apply repeatN_length. Qed.

Theorem advance_wf : forall r s, rp_wf r -> rp_wf (advance_sequence r s).
Proof.
  intros r s H. unfold rp_wf, advance_sequence in *. cbn [rp_slots].
  rewrite upd_length. exact H.
Qed.

(* ------------------------------------------------------------------ *)
(* P2: the invariant                                                   *)
(* ------------------------------------------------------------------ *)

(* r is a window that has accepted exactly the numbers of A *)
Definition rp_inv (r : replay) (A : list N) : Prop :=
  rp_wf r /\
  (forall s, In s A -> s < U64MAX /\ s <= rp_most_recent r /\ already_received r s = true) /\
  (forall i, (i < N.to_nat NC_REPLAY_SIZE)%nat ->
     let v := nth i (rp_slots r) U64MAX in
     v = U64MAX \/ (In v A /\ N.to_nat (v mod NC_REPLAY_SIZE) = i)).

(* already_received, as a proposition *)
Lemma already_received_true r s :
  already_received r s = true <->
  (NC_REPLAY_SIZE <= rp_most_recent r /\ s + NC_REPLAY_SIZE <= rp_most_recent r) \/
  (let v := nth (N.to_nat (s mod NC_REPLAY_SIZE)) (rp_slots r) U64MAX in v <> U64MAX /\ s <= v).
Proof.
  unfold already_received. cbv zeta.
  destruct (NC_REPLAY_SIZE <=? rp_most_recent r) eqn:E1; cbn [andb].
  - destruct (s <=? rp_most_recent r - NC_REPLAY_SIZE) eqn:E2.
    + split; auto. intros _. left. lia.
    + destruct (nth _ _ _ =? U64MAX) eqn:E3.
      * split; [discriminate|]. intros [[_ H]|[H _]]; lia.
      * split; intro H.
        -- right. lia.
        -- destruct H as [[_ H]|[_ H]]; lia.
  - destruct (nth _ _ _ =? U64MAX) eqn:E3.
    + split; [discriminate|]. intros [[H _]|[H _]]; lia.
    + split; intro H.
      * right. lia.
      * destruct H as [[H _]|[_ H]]; lia.
Qed.

Lemma already_received_false r s :
  already_received r s = false <->
  ~ (NC_REPLAY_SIZE <= rp_most_recent r /\ s + NC_REPLAY_SIZE <= rp_most_recent r) /\
  (let v := nth (N.to_nat (s mod NC_REPLAY_SIZE)) (rp_slots r) U64MAX in v = U64MAX \/ v < s).
Proof.
  pose proof (already_received_true r s) as T. cbv zeta in *.
  destruct (already_received r s).
  - split; [discriminate|]. intros [H1 H2].
    destruct T as [T _]. destruct (T eq_refl) as [X|[X Y]]; [tauto|]. lia.
  - split; auto. intros _. split.
    + intro H. destruct T as [_ T]. discriminate T. left. exact H.
    + destruct (N.eq_dec (nth (N.to_nat (s mod NC_REPLAY_SIZE)) (rp_slots r) U64MAX) U64MAX) as [E|E]; auto.
      right. destruct (N.lt_ge_cases (nth (N.to_nat (s mod NC_REPLAY_SIZE)) (rp_slots r) U64MAX) s) as [L|L]; auto.
      destruct T as [_ T]. discriminate T. right. split; assumption.
Qed.

Theorem replay_inv_init : rp_inv replay_new [].
Proof.
  split; [apply replay_new_wf|]. split.
  - intros s [].
  - intros i _. left. unfold replay_new. cbn [rp_slots]. apply nth_repeatN.
Qed.

Lemma advance_most_recent r s :
  rp_most_recent (advance_sequence r s) = N.max (rp_most_recent r) s.
Proof.
  unfold advance_sequence. cbn [rp_most_recent].
  destruct (rp_most_recent r <? s) eqn:E; lia.
Qed.

Lemma advance_slot_same r s : rp_wf r ->
  nth (N.to_nat (s mod NC_REPLAY_SIZE)) (rp_slots (advance_sequence r s)) U64MAX = s.
Proof.
  intro W. unfold advance_sequence. cbn [rp_slots].
  apply nth_upd_same. rewrite W, replay_size_nat. apply mod_size_lt.
Qed.

Lemma advance_slot_other r s i : N.to_nat (s mod NC_REPLAY_SIZE) <> i ->
  nth i (rp_slots (advance_sequence r s)) U64MAX = nth i (rp_slots r) U64MAX.
Proof.
  intro H. unfold advance_sequence. cbn [rp_slots]. apply nth_upd_other. exact H.
Qed.

Theorem replay_inv_step : forall r A s,
  rp_inv r A -> s < U64MAX -> already_received r s = false ->
  rp_inv (advance_sequence r s) (s :: A).
Proof.
  intros r A s (W & HA & HS) Hs Hnew.
  apply already_received_false in Hnew. cbv zeta in Hnew. destruct Hnew as [Hn1 Hn2].
  split; [apply advance_wf; exact W|]. split.
  - intros x [<-|Hx].
    + split; [exact Hs|]. split; [rewrite advance_most_recent; lia|].
      apply already_received_true. right. cbv zeta.
      rewrite advance_slot_same by exact W. lia.
    + destruct (HA x Hx) as (X1 & X2 & X3).
      split; [exact X1|]. split; [rewrite advance_most_recent; lia|].
      apply already_received_true. rewrite advance_most_recent. cbv zeta.
      apply already_received_true in X3. cbv zeta in X3.
      destruct (Nat.eq_dec (N.to_nat (s mod NC_REPLAY_SIZE)) (N.to_nat (x mod NC_REPLAY_SIZE))) as [E|E].
      * (* same slot: x is overwritten by s *)
        rewrite <- E, advance_slot_same by exact W.
        apply residue_index_eq in E.
        destruct (N.lt_trichotomy x s) as [L|[L|L]].
        -- right. lia.
        -- right. lia.
        -- (* s < x <= most_recent, same residue: s was too old *)
           exfalso. pose proof (same_residue_far s x E L) as F.
           apply Hn1. rewrite replay_size_val in *. lia.
      * rewrite advance_slot_other by exact E.
        destruct X3 as [X3|X3]; [left; lia | right; exact X3].
  - intros i Hi. cbv zeta.
    destruct (Nat.eq_dec (N.to_nat (s mod NC_REPLAY_SIZE)) i) as [E|E].
    + right. rewrite <- E, advance_slot_same by exact W. split; [left; reflexivity | reflexivity].
    + rewrite advance_slot_other by exact E.
      destruct (HS i Hi) as [X|[X Y]]; [left; exact X | right; split; [right; exact X | exact Y]].
Qed.

(* ------------------------------------------------------------------ *)
(* P3: at most once                                                    *)
(* ------------------------------------------------------------------ *)

Lemma rp_run_fresh : forall ss r A r' acc,
  rp_inv r A -> Forall (fun s => s < U64MAX) ss -> rp_run r ss = (r', acc) ->
  NoDup acc /\ (forall x, In x acc -> ~ In x A) /\ rp_inv r' (rev acc ++ A).
Proof.
  induction ss as [|s t IH]; intros r A r' acc I F R.
  - cbn [rp_run] in R. injection R as <- <-. split; [constructor|]. split; [intros x []|exact I].
  - cbn [rp_run] in R. unfold rp_accept in R.
    inversion F as [|? ? Fs Ft]; subst.
    destruct (already_received r s) eqn:E.
    + destruct (rp_run r t) as [r2 acc2] eqn:R2. injection R as <- <-.
      exact (IH _ _ _ _ I Ft R2).
    + destruct (rp_run (advance_sequence r s) t) as [r2 acc2] eqn:R2. injection R as <- <-.
      pose proof (replay_inv_step r A s I Fs E) as I2.
      destruct (IH _ _ _ _ I2 Ft R2) as (N2 & D2 & I3).
      split; [|split].
      * constructor; [|exact N2]. intro H. apply (D2 s H). left. reflexivity.
      * intros x [<-|Hx] HA.
        -- destruct I as (_ & HA' & _). destruct (HA' s HA) as (_ & _ & X). congruence.
        -- apply (D2 x Hx). right. exact HA.
      * cbn [rev]. rewrite <- app_assoc. exact I3.
Qed.

Theorem replay_at_most_once : forall ss r acc,
  Forall (fun s => s < U64MAX) ss -> rp_run replay_new ss = (r, acc) -> NoDup acc.
Proof.
  intros ss r acc F R.
  exact (proj1 (rp_run_fresh ss replay_new [] r acc replay_inv_init F R)).
Qed.

(* whatever was fed, the final window satisfies the invariant for the accepted numbers *)
Corollary rp_run_inv : forall ss r acc,
  Forall (fun s => s < U64MAX) ss -> rp_run replay_new ss = (r, acc) -> rp_inv r (rev acc).
Proof.
  intros ss r acc F R.
  pose proof (proj2 (proj2 (rp_run_fresh ss replay_new [] r acc replay_inv_init F R))) as H.
  rewrite app_nil_r in H. exact H.
Qed.

(* the bound is necessary: u64::MAX doubles as the EMPTY marker of a slot, so the
   window accepts that one sequence number as often as it is presented *)
Theorem replay_sentinel_refuted : exists ss, ~ NoDup (snd (rp_run replay_new ss)).
Proof.
  exists [U64MAX; U64MAX].
  assert (E : snd (rp_run replay_new [U64MAX; U64MAX]) = [U64MAX; U64MAX]) by (vm_compute; reflexivity).
  rewrite E. intro H. inversion H as [|? ? H1 _]. apply H1. left. reflexivity.
Qed.

(* ------------------------------------------------------------------ *)
(* P4 / P5                                                             *)
(* ------------------------------------------------------------------ *)

Theorem replay_fresh_accepted : forall r A s,
  rp_inv r A -> s < U64MAX -> ~ In s A -> rp_most_recent r < s + NC_REPLAY_SIZE ->
  already_received r s = false.
Proof.
  intros r A s (W & HA & HS) Hs Hn Hw.
  apply already_received_false. cbv zeta. split; [lia|].
  destruct (HS _ (mod_size_lt s)) as [X|[X Y]]; [left; exact X| ].
  right. cbv zeta in *.
  set (v := nth (N.to_nat (s mod NC_REPLAY_SIZE)) (rp_slots r) U64MAX) in *.
  destruct (HA v X) as (V1 & V2 & _).
  apply residue_index_eq in Y.
  destruct (N.lt_trichotomy v s) as [L|[L|L]]; [exact L| exfalso; apply Hn; rewrite <- L; exact X |].
  exfalso. pose proof (same_residue_far s v (eq_sym Y) L). lia.
Qed.

Theorem replay_old_rejected : forall r s,
  NC_REPLAY_SIZE <= rp_most_recent r -> s + NC_REPLAY_SIZE <= rp_most_recent r ->
  already_received r s = true.
Proof.
  intros r s H1 H2. apply already_received_true. left. split; assumption.
Qed.

(* immediately after a number is accepted it counts as received, and stays so *)
Theorem advance_then_received : forall r s, rp_wf r -> s < U64MAX ->
  already_received (advance_sequence r s) s = true.
Proof.
  intros r s W Hs. apply already_received_true. right. cbv zeta.
  rewrite advance_slot_same by exact W. lia.
Qed.

Theorem accepted_stays_received : forall r A s, rp_inv r A -> In s A -> already_received r s = true.
Proof. intros r A s (_ & HA & _) H. apply (HA s H). Qed.

Print Assumptions replay_new_wf.
Print Assumptions advance_wf.
Print Assumptions replay_inv_init.
Print Assumptions replay_inv_step.
Print Assumptions replay_at_most_once.
Print Assumptions replay_sentinel_refuted.
Print Assumptions replay_fresh_accepted.
Print Assumptions replay_old_rejected.
Print Assumptions advance_then_received.
