(* AcksP.v - theorems about the pending-ack range list
   (RenetClient::add_pending_ack / acked_largest as modelled in Renet/Conn.v).

   MAX_ACK_RANGES is used by name only; the single fact about its value that the
   proofs use is [MAX_ACK_RANGES_pos : 1 <= MAX_ACK_RANGES]. *)
From Coq Require Import NArith List Bool Lia ZifyBool ZifyN.
From RenetV Require Import Base Consts Varint Packet Channels Conn CodecSpec.
Import ListNotations.
Open Scope N_scope.

Arguments N.add : simpl never.
Arguments N.sub : simpl never.
Arguments N.mul : simpl never.
Arguments N.eqb : simpl never.
Arguments N.ltb : simpl never.
Arguments N.leb : simpl never.

(* the only fact about the generated constant that is used below *)
Lemma MAX_ACK_RANGES_pos : 1 <= MAX_ACK_RANGES.
Proof. unfold MAX_ACK_RANGES. lia. Qed.

Local Opaque MAX_ACK_RANGES.

(* ------------------------------------------------------------------ *)
(* len                                                                  *)
(* ------------------------------------------------------------------ *)
Lemma len_nil : forall A, len (@nil A) = 0.
Proof. reflexivity. Qed.

Lemma len_cons : forall A (x : A) l, len (x :: l) = len l + 1.
Proof. intros. unfold len. cbn [length]. lia. Qed.

Lemma len_app : forall A (l1 l2 : list A), len (l1 ++ l2) = len l1 + len l2.
Proof. intros. unfold len. rewrite app_length. lia. Qed.

Lemma len_tl : forall A (l : list A), len (tl l) = len l - 1.
Proof. intros A [|x l]; cbn [tl]; rewrite ?len_cons, ?len_nil; lia. Qed.

Lemma len_zero : forall A (l : list A), len l = 0 -> l = [].
Proof. intros A [|x l]; [reflexivity|]. rewrite len_cons. lia. Qed.

(* ------------------------------------------------------------------ *)
(* ranges_wf / in_ranges basics                                         *)
(* ------------------------------------------------------------------ *)
Lemma ranges_wf_weaken : forall l lo lo', lo' <= lo -> ranges_wf lo l -> ranges_wf lo' l.
Proof.
  intros [|[a b] t] lo lo' Hle H; cbn [ranges_wf] in *; [exact I|].
  intuition lia.
Qed.

Lemma ranges_wf_tl : forall l lo, ranges_wf lo l -> ranges_wf lo (tl l).
Proof.
  intros [|[a b] t] lo H; cbn [tl ranges_wf] in *; [exact I|].
  apply ranges_wf_weaken with (lo := b + 1); [lia | tauto].
Qed.

Lemma in_ranges_lo : forall l lo x, ranges_wf lo l -> in_ranges x l -> lo <= x.
Proof.
  induction l as [|[a b] t IH]; intros lo x Hwf Hin; cbn [ranges_wf in_ranges] in *.
  - contradiction.
  - destruct Hwf as (H1 & H2 & H3). destruct Hin as [Hin|Hin]; [lia|].
    specialize (IH _ _ H3 Hin). lia.
Qed.

Lemma in_ranges_tl : forall l x, in_ranges x (tl l) -> in_ranges x l.
Proof. intros [|[a b] t] x H; cbn [tl in_ranges] in *; auto. Qed.

Lemma in_ranges_app : forall l1 l2 x, in_ranges x (l1 ++ l2) <-> in_ranges x l1 \/ in_ranges x l2.
Proof.
  induction l1 as [|[a b] t IH]; intros l2 x; cbn [app in_ranges].
  - tauto.
  - rewrite IH. tauto.
Qed.

(* ------------------------------------------------------------------ *)
(* the insertion loop as a total function                               *)
(* ------------------------------------------------------------------ *)
(* [ins s l] is the list after the `for` loop plus the trailing push, BEFORE the
   MAX_ACK_RANGES limit is applied. *)
Fixpoint ins (s : N) (l : list (N * N)) : list (N * N) :=
  match l with
  | [] => [(s, s + 1)]
  | (a, b) :: t =>
      if (a <=? s) && (s <? b) then l
      else if a =? s + 1 then (s, b) :: t
      else if b =? s then
        match t with
        | (a2, b2) :: t2 => if s + 1 =? a2 then (a, b2) :: t2 else (a, s + 1) :: t
        | [] => [(a, s + 1)]
        end
      else if s + 1 <? a then (s, s + 1) :: l
      else (a, b) :: ins s t
  end.

Lemma ack_loop_ins : forall l s,
  ins s l = match ack_loop s l with Some l' => l' | None => l ++ [(s, s + 1)] end.
Proof.
  induction l as [|[a b] t IH]; intros s; cbn [ins ack_loop app]; [reflexivity|].
  destruct ((a <=? s) && (s <? b)); [reflexivity|].
  destruct (a =? s + 1); [reflexivity|].
  destruct (b =? s).
  { destruct t as [|[a2 b2] t2]; [reflexivity|]. destruct (s + 1 =? a2); reflexivity. }
  destruct (s + 1 <? a); [reflexivity|].
  rewrite IH. destruct (ack_loop s t); reflexivity.
Qed.

Lemma ack_loop_None_inserts : forall l s, ack_loop s l = None -> ack_inserts s l = true.
Proof.
  induction l as [|[a b] t IH]; intros s; cbn [ack_loop ack_inserts]; [reflexivity|].
  destruct ((a <=? s) && (s <? b)); [discriminate|].
  destruct (a =? s + 1); [discriminate|].
  destruct (b =? s).
  { destruct t as [|[a2 b2] t2]; [discriminate|]. destruct (s + 1 =? a2); discriminate. }
  destruct (s + 1 <? a); [reflexivity|].
  specialize (IH s). destruct (ack_loop s t); [discriminate|auto].
Qed.

(* add_pending_ack through [ins] *)
Lemma add_pending_ack_ins : forall l s,
  add_pending_ack l s =
    match l with
    | [] => [(s, s + 1)]
    | _ => if ack_inserts s l then limit_ranges (ins s l) else ins s l
    end.
Proof.
  intros [|[a b] t] s; [reflexivity|].
  unfold add_pending_ack. rewrite ack_loop_ins.
  destruct (ack_loop s ((a, b) :: t)) eqn:E; [reflexivity|].
  rewrite (ack_loop_None_inserts _ _ E). reflexivity.
Qed.

(* well-formedness and exact contents of the un-limited insertion *)
Lemma ins_spec : forall l lo s, ranges_wf lo l -> lo <= s ->
  ranges_wf lo (ins s l) /\ (forall x, in_ranges x (ins s l) <-> x = s \/ in_ranges x l).
Proof.
  induction l as [|[a b] t IH]; intros lo s Hwf Hlo.
  - cbn [ins ranges_wf in_ranges]. split; [lia|]. intros x. lia.
  - cbn [ins]. cbn [ranges_wf] in Hwf. destruct Hwf as (H1 & H2 & H3).
    destruct ((a <=? s) && (s <? b)) eqn:E1.
    { cbn [ranges_wf in_ranges]. split; [auto|]. intros x. intuition lia. }
    destruct (a =? s + 1) eqn:E2.
    { cbn [ranges_wf in_ranges]. split; [intuition lia|]. intros x. intuition lia. }
    destruct (b =? s) eqn:E3.
    { destruct t as [|[a2 b2] t2].
      - cbn [ranges_wf in_ranges]. split; [lia|]. intros x. lia.
      - cbn [ranges_wf] in H3. destruct H3 as (H4 & H5 & H6).
        destruct (s + 1 =? a2) eqn:E4; cbn [ranges_wf in_ranges].
        + split; [intuition lia|]. intros x. intuition lia.
        + split; [intuition lia|]. intros x. intuition lia. }
    destruct (s + 1 <? a) eqn:E4.
    { cbn [ranges_wf in_ranges]. split; [intuition lia|]. intros x. intuition lia. }
    assert (Hb : b + 1 <= s) by lia.
    destruct (IH (b + 1) s H3 Hb) as (IH1 & IH2).
    cbn [ranges_wf in_ranges]. split; [auto|].
    intros x. rewrite IH2. intuition lia.
Qed.

(* length of the un-limited insertion; no well-formedness needed *)
Lemma ins_len : forall l s,
  len (ins s l) <= len l + 1 /\
  (ack_inserts s l = false -> len (ins s l) <= len l) /\
  (ack_inserts s l = true -> len (ins s l) = len l + 1).
Proof.
  induction l as [|[a b] t IH]; intros s; cbn [ins ack_inserts].
  - rewrite !len_cons, !len_nil. repeat split; intros; try discriminate; lia.
  - destruct ((a <=? s) && (s <? b)).
    { repeat split; intros; try discriminate; lia. }
    destruct (a =? s + 1).
    { rewrite !len_cons. repeat split; intros; try discriminate; lia. }
    destruct (b =? s).
    { destruct t as [|[a2 b2] t2]; [|destruct (s + 1 =? a2)];
        rewrite ?len_cons, ?len_nil; repeat split; intros; try discriminate; lia. }
    destruct (s + 1 <? a).
    { rewrite !len_cons. repeat split; intros; try discriminate; lia. }
    destruct (IH s) as (I1 & I2 & I3). rewrite !len_cons.
    split; [lia|]. split; intros H; [specialize (I2 H)|specialize (I3 H)]; lia.
Qed.

Lemma ins_nonempty : forall l s, ins s l <> [].
Proof.
  intros [|[a b] t] s; cbn [ins]; [discriminate|].
  destruct ((a <=? s) && (s <? b)); [discriminate|].
  destruct (a =? s + 1); [discriminate|].
  destruct (b =? s).
  { destruct t as [|[a2 b2] t2]; [discriminate|]. destruct (s + 1 =? a2); discriminate. }
  destruct (s + 1 <? a); discriminate.
Qed.

(* ------------------------------------------------------------------ *)
(* limit_ranges                                                         *)
(* ------------------------------------------------------------------ *)
Lemma limit_ranges_cases : forall l,
  (len l <= MAX_ACK_RANGES /\ limit_ranges l = l) \/
  (MAX_ACK_RANGES < len l /\ limit_ranges l = tl l).
Proof.
  intros l. unfold limit_ranges.
  destruct (MAX_ACK_RANGES <? len l) eqn:E; [right|left]; split; auto; lia.
Qed.

(* the shape of add_pending_ack: the exact insertion, or its tail when the limit is exceeded *)
Lemma add_pending_ack_cases : forall l s,
  add_pending_ack l s = ins s l \/
  (ack_inserts s l = true /\ l <> [] /\ MAX_ACK_RANGES < len (ins s l) /\
   add_pending_ack l s = tl (ins s l)).
Proof.
  intros l s. rewrite add_pending_ack_ins.
  destruct l as [|[a b] t]; [left; reflexivity|].
  destruct (ack_inserts s ((a, b) :: t)) eqn:E; [|left; reflexivity].
  destruct (limit_ranges_cases (ins s ((a, b) :: t))) as [(_ & H)|(H1 & H2)]; rewrite ?H, ?H2.
  - left; reflexivity.
  - right. repeat split; auto. discriminate.
Qed.

(* ------------------------------------------------------------------ *)
(* 1-7: one step                                                        *)
(* ------------------------------------------------------------------ *)
Theorem add_pending_ack_wf_lo : forall l s lo,
  lo <= s -> ranges_wf lo l -> ranges_wf lo (add_pending_ack l s).
Proof.
  intros l s lo Hlo Hwf.
  destruct (ins_spec l lo s Hwf Hlo) as (H1 & _).
  destruct (add_pending_ack_cases l s) as [E|(_ & _ & _ & E)]; rewrite E; auto.
  apply ranges_wf_tl; auto.
Qed.

Theorem add_pending_ack_wf : forall l s, ranges_wf 0 l -> ranges_wf 0 (add_pending_ack l s).
Proof. intros l s H. apply add_pending_ack_wf_lo; [lia|auto]. Qed.

Theorem add_pending_ack_sound : forall l s x,
  ranges_wf 0 l -> in_ranges x (add_pending_ack l s) -> x = s \/ in_ranges x l.
Proof.
  intros l s x Hwf Hin.
  destruct (ins_spec l 0 s Hwf ltac:(lia)) as (_ & H2).
  apply H2.
  destruct (add_pending_ack_cases l s) as [E|(_ & _ & _ & E)]; rewrite E in Hin; auto.
  apply in_ranges_tl; auto.
Qed.

Theorem add_pending_ack_bound : forall l s,
  len l <= MAX_ACK_RANGES -> len (add_pending_ack l s) <= MAX_ACK_RANGES.
Proof.
  intros l s Hlen. pose proof MAX_ACK_RANGES_pos as Hpos.
  destruct (ins_len l s) as (I1 & I2 & I3).
  rewrite add_pending_ack_ins. destruct l as [|[a b] t].
  - rewrite len_cons, len_nil. lia.
  - destruct (ack_inserts s ((a, b) :: t)) eqn:E.
    + destruct (limit_ranges_cases (ins s ((a, b) :: t))) as [(H1 & H2)|(H1 & H2)]; rewrite H2; auto.
      rewrite len_tl. lia.
    + specialize (I2 eq_refl). lia.
Qed.

Theorem add_pending_ack_nonempty : forall l s, add_pending_ack l s <> [].
Proof.
  intros l s. pose proof MAX_ACK_RANGES_pos as Hpos.
  destruct (add_pending_ack_cases l s) as [E|(_ & _ & H & E)]; rewrite E.
  - apply ins_nonempty.
  - intros Hnil. apply (f_equal (@len _)) in Hnil. rewrite len_tl, len_nil in Hnil. lia.
Qed.

Theorem add_pending_ack_exact : forall l s, ranges_wf 0 l ->
  exists ins,
    ranges_wf 0 ins /\
    (forall x, in_ranges x ins <-> x = s \/ in_ranges x l) /\
    len ins <= len l + 1 /\
    (add_pending_ack l s = ins \/
     (MAX_ACK_RANGES < len ins /\ add_pending_ack l s = tl ins)).
Proof.
  intros l s Hwf. exists (ins s l).
  destruct (ins_spec l 0 s Hwf ltac:(lia)) as (H1 & H2).
  destruct (ins_len l s) as (I1 & _).
  repeat split; auto; try apply H2.
  destruct (add_pending_ack_cases l s) as [E|(_ & _ & H & E)]; [left|right]; auto.
Qed.

(* below the limit nothing is dropped: the result is exactly [ins] *)
Lemma add_pending_ack_below_limit : forall l s,
  len l < MAX_ACK_RANGES -> add_pending_ack l s = ins s l.
Proof.
  intros l s Hlen. destruct (ins_len l s) as (I1 & _).
  destruct (add_pending_ack_cases l s) as [E|(_ & _ & H & E)]; [auto|lia].
Qed.

Theorem add_pending_ack_complete : forall l s x,
  ranges_wf 0 l -> len l < MAX_ACK_RANGES ->
  (x = s \/ in_ranges x l) -> in_ranges x (add_pending_ack l s).
Proof.
  intros l s x Hwf Hlen Hx.
  rewrite add_pending_ack_below_limit by auto.
  apply (ins_spec l 0 s Hwf ltac:(lia)); auto.
Qed.

(* under the same hypothesis the step is the exact union *)
Theorem add_pending_ack_iff : forall l s x,
  ranges_wf 0 l -> len l < MAX_ACK_RANGES ->
  (in_ranges x (add_pending_ack l s) <-> x = s \/ in_ranges x l).
Proof.
  intros l s x Hwf Hlen. split.
  - apply add_pending_ack_sound; auto.
  - apply add_pending_ack_complete; auto.
Qed.

(* when the limit bites: s is still in the tail unless it became the new lowest range *)
Lemma ins_tl_keeps : forall l lo s, ranges_wf lo l -> lo <= s ->
  ack_inserts s l = true -> l <> [] ->
  in_ranges s (tl (ins s l)) \/ (exists a b t, l = (a, b) :: t /\ s + 1 < a).
Proof.
  intros [|[a b] t] lo s Hwf Hlo Hins Hne; [congruence|].
  cbn [ins ack_inserts] in *. cbn [ranges_wf] in Hwf. destruct Hwf as (H1 & H2 & H3).
  destruct ((a <=? s) && (s <? b)) eqn:E1; [discriminate|].
  destruct (a =? s + 1) eqn:E2; [discriminate|].
  destruct (b =? s) eqn:E3; [discriminate|].
  destruct (s + 1 <? a) eqn:E4.
  - right. exists a, b, t. split; [reflexivity|lia].
  - left. cbn [tl]. apply (ins_spec t (b + 1) s H3 ltac:(lia)). left; reflexivity.
Qed.

(* strongest form: no assumption on MAX_ACK_RANGES, and [len l] need not be within the limit *)
Theorem add_pending_ack_keeps_new_strong : forall l s, ranges_wf 0 l ->
  in_ranges s (add_pending_ack l s) \/
  (exists a b t, l = (a, b) :: t /\ s + 1 < a /\ MAX_ACK_RANGES <= len l).
Proof.
  intros l s Hwf.
  destruct (ins_spec l 0 s Hwf ltac:(lia)) as (_ & H2).
  destruct (ins_len l s) as (I1 & _).
  destruct (add_pending_ack_cases l s) as [E|(Hi & Hne & H & E)]; rewrite E.
  - left. apply H2. left; reflexivity.
  - destruct (ins_tl_keeps l 0 s Hwf ltac:(lia) Hi Hne) as [K|(a & b & t & K1 & K2)]; [left; auto|].
    right. exists a, b, t. repeat split; auto. lia.
Qed.

Theorem add_pending_ack_keeps_new : forall l s,
  ranges_wf 0 l -> len l <= MAX_ACK_RANGES -> 2 <= MAX_ACK_RANGES ->
  in_ranges s (add_pending_ack l s) \/
  (exists a b t, l = (a, b) :: t /\ s + 1 < a /\ len l = MAX_ACK_RANGES).
Proof.
  intros l s Hwf Hlen _.
  destruct (add_pending_ack_keeps_new_strong l s Hwf) as [K|(a & b & t & K1 & K2 & K3)]; [left; auto|].
  right. exists a, b, t. repeat split; auto. lia.
Qed.

(* the converse: in that situation the fresh number IS lost and the list is unchanged *)
Theorem add_pending_ack_drops_new : forall l s a b t,
  ranges_wf 0 l -> l = (a, b) :: t -> s + 1 < a -> MAX_ACK_RANGES <= len l ->
  add_pending_ack l s = l /\ ~ in_ranges s l.
Proof.
  intros l s a b t Hwf -> Hs Hlen. split.
  - rewrite add_pending_ack_ins. cbn [ack_inserts ins].
    destruct ((a <=? s) && (s <? b)) eqn:E1; [lia|].
    destruct (a =? s + 1) eqn:E2; [lia|].
    cbn [ranges_wf] in Hwf.
    destruct (b =? s) eqn:E3; [lia|].
    destruct (s + 1 <? a) eqn:E4; [|lia].
    unfold limit_ranges. rewrite len_cons.
    destruct (MAX_ACK_RANGES <? len ((a, b) :: t) + 1) eqn:E5; [reflexivity|lia].
  - intros Hin. pose proof (in_ranges_lo _ _ _ Hwf Hin) as H0.
    cbn [in_ranges ranges_wf] in *. destruct Hwf as (H1 & H2 & H3).
    destruct Hin as [Hin|Hin]; [lia|].
    pose proof (in_ranges_lo _ _ _ H3 Hin). lia.
Qed.

(* ------------------------------------------------------------------ *)
(* 8: histories                                                         *)
(* ------------------------------------------------------------------ *)
Lemma feed_nil : forall l, feed l [] = l.
Proof. reflexivity. Qed.

Lemma feed_cons : forall l s ss, feed l (s :: ss) = feed (add_pending_ack l s) ss.
Proof. reflexivity. Qed.

Lemma feed_app : forall l ss1 ss2, feed l (ss1 ++ ss2) = feed (feed l ss1) ss2.
Proof. intros. unfold feed. apply fold_left_app. Qed.

Lemma feed_snoc : forall l ss s, feed l (ss ++ [s]) = add_pending_ack (feed l ss) s.
Proof. intros. rewrite feed_app. reflexivity. Qed.

Theorem feed_wf_from : forall ss l, ranges_wf 0 l -> ranges_wf 0 (feed l ss).
Proof.
  induction ss as [|s ss IH]; intros l H; [exact H|].
  rewrite feed_cons. apply IH. apply add_pending_ack_wf; auto.
Qed.

Theorem feed_wf : forall ss, ranges_wf 0 (feed [] ss).
Proof. intros. apply feed_wf_from. exact I. Qed.

Theorem feed_bound_from : forall ss l,
  len l <= MAX_ACK_RANGES -> len (feed l ss) <= MAX_ACK_RANGES.
Proof.
  induction ss as [|s ss IH]; intros l H; [exact H|].
  rewrite feed_cons. apply IH. apply add_pending_ack_bound; auto.
Qed.

Theorem feed_bound : forall ss, len (feed [] ss) <= MAX_ACK_RANGES.
Proof. intros. apply feed_bound_from. rewrite len_nil. lia. Qed.

Theorem feed_nonempty_from : forall ss l, l <> [] \/ ss <> [] -> feed l ss <> [].
Proof.
  induction ss as [|s ss IH]; intros l H.
  - destruct H as [H|H]; [exact H|congruence].
  - rewrite feed_cons. apply IH. left. apply add_pending_ack_nonempty.
Qed.

Theorem feed_nonempty : forall ss, ss <> [] -> feed [] ss <> [].
Proof. intros. apply feed_nonempty_from. right; auto. Qed.

Theorem feed_sound_from : forall ss l x, ranges_wf 0 l ->
  in_ranges x (feed l ss) -> in_ranges x l \/ In x ss.
Proof.
  induction ss as [|s ss IH]; intros l x Hwf Hin; [left; exact Hin|].
  rewrite feed_cons in Hin.
  destruct (IH _ _ (add_pending_ack_wf l s Hwf) Hin) as [H|H].
  - destruct (add_pending_ack_sound l s x Hwf H) as [->|H']; [right; left; reflexivity|left; auto].
  - right; right; auto.
Qed.

Theorem feed_sound : forall ss x, in_ranges x (feed [] ss) -> In x ss.
Proof.
  intros ss x H. destruct (feed_sound_from ss [] x I H) as [H'|H']; [contradiction|auto].
Qed.

(* exactness as long as the list stays below the limit BEFORE each insertion
   (only proper prefixes matter) *)
Theorem feed_exact_from_strong : forall ss l, ranges_wf 0 l ->
  (forall k, (k < length ss)%nat -> len (feed l (firstn k ss)) < MAX_ACK_RANGES) ->
  forall x, in_ranges x (feed l ss) <-> in_ranges x l \/ In x ss.
Proof.
  induction ss as [|s ss IH]; intros l Hwf Hk x.
  - rewrite feed_nil. cbn [In]. tauto.
  - rewrite feed_cons.
    assert (Hl : len l < MAX_ACK_RANGES).
    { apply (Hk 0%nat). cbn [length]. apply Nat.lt_0_succ. }
    rewrite IH.
    + rewrite add_pending_ack_iff by auto. cbn [In]. intuition congruence.
    + apply add_pending_ack_wf; auto.
    + intros k Hlt. apply (Hk (S k)). cbn [length]. lia.
Qed.

Theorem feed_exact_from : forall ss l, ranges_wf 0 l ->
  (forall k, len (feed l (firstn k ss)) < MAX_ACK_RANGES) ->
  forall x, in_ranges x (feed l ss) <-> in_ranges x l \/ In x ss.
Proof. intros ss l Hwf Hk. apply feed_exact_from_strong; auto. Qed.

Theorem feed_exact_strong : forall ss,
  (forall k, (k < length ss)%nat -> len (feed [] (firstn k ss)) < MAX_ACK_RANGES) ->
  forall x, in_ranges x (feed [] ss) <-> In x ss.
Proof.
  intros ss Hk x. rewrite (feed_exact_from_strong ss [] I Hk). cbn [in_ranges]. tauto.
Qed.

Theorem feed_exact : forall ss,
  (forall k, len (feed [] (firstn k ss)) < MAX_ACK_RANGES) ->
  forall x, in_ranges x (feed [] ss) <-> In x ss.
Proof. intros ss Hk. apply feed_exact_strong; auto. Qed.

(* the most recently received number is acknowledged unless it opened a new lowest
   range of a full list *)
Theorem feed_keeps_last : forall ss s,
  in_ranges s (feed [] (ss ++ [s])) \/
  (exists a b t, feed [] ss = (a, b) :: t /\ s + 1 < a /\ len (feed [] ss) = MAX_ACK_RANGES).
Proof.
  intros ss s. rewrite feed_snoc.
  destruct (add_pending_ack_keeps_new_strong (feed [] ss) s (feed_wf ss))
    as [K|(a & b & t & K1 & K2 & K3)]; [left; auto|].
  right. exists a, b, t. repeat split; auto. pose proof (feed_bound ss). lia.
Qed.

(* ------------------------------------------------------------------ *)
(* 9: acked_largest                                                     *)
(* ------------------------------------------------------------------ *)
Theorem acked_largest_wf_lo : forall l k lo, ranges_wf lo l -> ranges_wf lo (acked_largest l k).
Proof.
  induction l as [|[a b] t IH]; intros k lo Hwf; cbn [acked_largest]; [exact I|].
  cbn [ranges_wf] in Hwf. destruct Hwf as (H1 & H2 & H3).
  destruct (k <? a) eqn:E1.
  { cbn [ranges_wf]; auto. }
  destruct (b <=? k) eqn:E2.
  { apply ranges_wf_weaken with (lo := b + 1); [lia|]. apply IH; auto. }
  destruct (b <=? k + 1) eqn:E3.
  { apply ranges_wf_weaken with (lo := b + 1); [lia|auto]. }
  cbn [ranges_wf]. repeat split; auto; lia.
Qed.

Theorem acked_largest_wf : forall l k, ranges_wf 0 l -> ranges_wf 0 (acked_largest l k).
Proof. intros. apply acked_largest_wf_lo; auto. Qed.

Theorem acked_largest_spec_lo : forall l k lo x, ranges_wf lo l ->
  (in_ranges x (acked_largest l k) <-> in_ranges x l /\ k < x).
Proof.
  induction l as [|[a b] t IH]; intros k lo x Hwf; cbn [acked_largest].
  - cbn [in_ranges]. tauto.
  - cbn [ranges_wf] in Hwf. destruct Hwf as (H1 & H2 & H3).
    assert (Ht : in_ranges x t -> b + 1 <= x) by (apply in_ranges_lo; auto).
    destruct (k <? a) eqn:E1.
    { cbn [in_ranges]. intuition lia. }
    destruct (b <=? k) eqn:E2.
    { rewrite (IH k (b + 1) x H3). cbn [in_ranges]. intuition lia. }
    destruct (b <=? k + 1) eqn:E3.
    { cbn [in_ranges]. intuition lia. }
    cbn [in_ranges]. intuition lia.
Qed.

Theorem acked_largest_spec : forall l k x, ranges_wf 0 l ->
  (in_ranges x (acked_largest l k) <-> in_ranges x l /\ k < x).
Proof. intros. apply acked_largest_spec_lo with (lo := 0); auto. Qed.

Theorem acked_largest_len : forall l k, len (acked_largest l k) <= len l.
Proof.
  induction l as [|[a b] t IH]; intros k; cbn [acked_largest]; [lia|].
  destruct (k <? a); [lia|].
  destruct (b <=? k). { specialize (IH k). rewrite len_cons. lia. }
  destruct (b <=? k + 1); rewrite !len_cons; lia.
Qed.

(* ------------------------------------------------------------------ *)
(* 10: the last range bounds everything                                 *)
(* ------------------------------------------------------------------ *)
Lemma ranges_last_end_lo : forall l lo a b, ranges_wf lo l -> l <> [] -> last l (0, 0) = (a, b) ->
  lo <= a /\ a < b /\ In (a, b) l /\ (forall x, in_ranges x l -> x < b) /\ in_ranges (b - 1) l.
Proof.
  induction l as [|[a0 b0] t IH]; intros lo a b Hwf Hne Hlast; [congruence|].
  cbn [ranges_wf] in Hwf. destruct Hwf as (H1 & H2 & H3).
  destruct t as [|p t'].
  - cbn [last] in Hlast. inversion Hlast; subst. cbn [in_ranges In].
    repeat split; auto; try lia.
  - assert (Hne' : p :: t' <> []) by discriminate.
    change (last ((a0, b0) :: p :: t') (0, 0)) with (last (p :: t') (0, 0)) in Hlast.
    destruct (IH (b0 + 1) a b H3 Hne' Hlast) as (I1 & I2 & I3 & I4 & I5).
    change (in_ranges (b - 1) ((a0, b0) :: p :: t'))
      with ((a0 <= b - 1 /\ b - 1 < b0) \/ in_ranges (b - 1) (p :: t')).
    repeat split; auto; try lia.
    + right; auto.
    + intros x Hx.
      change (in_ranges x ((a0, b0) :: p :: t'))
        with ((a0 <= x /\ x < b0) \/ in_ranges x (p :: t')) in Hx.
      destruct Hx as [Hx|Hx]; [lia|auto].
Qed.

Theorem ranges_last_end : forall l a b, ranges_wf 0 l -> l <> [] -> last l (0, 0) = (a, b) ->
  (forall x, in_ranges x l -> x < b) /\ 1 <= b.
Proof.
  intros l a b Hwf Hne Hlast.
  destruct (ranges_last_end_lo l 0 a b Hwf Hne Hlast) as (I1 & I2 & I3 & I4 & I5).
  split; [auto|lia].
Qed.

(* the same, without mentioning [last]'s default *)
Theorem ranges_last_end_ex : forall l, ranges_wf 0 l -> l <> [] ->
  exists l0 a b, l = l0 ++ [(a, b)] /\ a < b /\ 1 <= b /\
    (forall x, in_ranges x l -> x < b) /\ in_ranges (b - 1) l.
Proof.
  intros l Hwf Hne.
  destruct (exists_last Hne) as (l0 & [a b] & ->).
  assert (Hlast : last (l0 ++ [(a, b)]) (0, 0) = (a, b)) by apply last_last.
  destruct (ranges_last_end_lo _ 0 a b Hwf Hne Hlast) as (I1 & I2 & I3 & I4 & I5).
  exists l0, a, b. repeat split; auto. lia.
Qed.

(* the pending-ack list after any non-empty history: its last range ends above every
   acknowledged number *)
Corollary feed_last_end : forall ss a b, ss <> [] -> last (feed [] ss) (0, 0) = (a, b) ->
  (forall x, in_ranges x (feed [] ss) -> x < b) /\ 1 <= b.
Proof.
  intros ss a b Hne Hlast.
  apply ranges_last_end with (a := a); auto using feed_wf, feed_nonempty.
Qed.

(* ------------------------------------------------------------------ *)
(* upper bound on range ends (for packet_wf of the Ack packet)          *)
(* ------------------------------------------------------------------ *)
Lemma ranges_below_tl : forall B l, ranges_below B l -> ranges_below B (tl l).
Proof. intros B [|p t] H; cbn [tl]; [exact H|]. inversion H; auto. Qed.

Lemma ins_below : forall B l s, ranges_below B l -> s + 1 <= B -> ranges_below B (ins s l).
Proof.
  unfold ranges_below.
  induction l as [|[a b] t IH]; intros s H Hs; cbn [ins].
  - constructor; [exact Hs|constructor].
  - inversion H as [|? ? Hb Ht]; subst. cbn [snd] in Hb.
    destruct ((a <=? s) && (s <? b)); [exact H|].
    destruct (a =? s + 1); [constructor; auto|].
    destruct (b =? s).
    { destruct t as [|[a2 b2] t2]; [constructor; auto|].
      inversion Ht as [|? ? Hb2 Ht2]; subst.
      destruct (s + 1 =? a2); constructor; auto. }
    destruct (s + 1 <? a); [constructor; auto|].
    constructor; auto.
Qed.

Theorem add_pending_ack_below : forall B l s,
  ranges_below B l -> s + 1 <= B -> ranges_below B (add_pending_ack l s).
Proof.
  intros B l s H Hs. pose proof (ins_below B l s H Hs) as Hi.
  destruct (add_pending_ack_cases l s) as [E|(_ & _ & _ & E)]; rewrite E; auto.
  apply ranges_below_tl; auto.
Qed.

Theorem feed_below_from : forall B ss l,
  ranges_below B l -> Forall (fun s => s + 1 <= B) ss -> ranges_below B (feed l ss).
Proof.
  induction ss as [|s ss IH]; intros l H Hss; [exact H|].
  inversion Hss; subst. rewrite feed_cons. apply IH; auto. apply add_pending_ack_below; auto.
Qed.

Theorem feed_below : forall B ss,
  Forall (fun s => s + 1 <= B) ss -> ranges_below B (feed [] ss).
Proof. intros. apply feed_below_from; auto. constructor. Qed.

Theorem acked_largest_below : forall B l k, ranges_below B l -> ranges_below B (acked_largest l k).
Proof.
  unfold ranges_below.
  induction l as [|[a b] t IH]; intros k H; cbn [acked_largest]; [constructor|].
  inversion H as [|? ? Hb Ht]; subst.
  destruct (k <? a); [exact H|].
  destruct (b <=? k); [apply IH; auto|].
  destruct (b <=? k + 1); [exact Ht|]. constructor; auto.
Qed.

(* ------------------------------------------------------------------ *)
(* 11: non-vacuity and the Rust unit test `pending_acks`                *)
(* ------------------------------------------------------------------ *)
Example ranges_wf_example : ranges_wf 0 [(0, 1); (2, 5); (7, 8)].
Proof. cbn [ranges_wf]. lia. Qed.

Example in_ranges_example : in_ranges 4 [(0, 1); (2, 5); (7, 8)] /\ ~ in_ranges 5 [(0, 1); (2, 5); (7, 8)].
Proof. cbn [in_ranges]. lia. Qed.

(* adjacent ranges are NOT well-formed (they must have been merged) *)
Example ranges_wf_not_adjacent : ~ ranges_wf 0 [(0, 2); (2, 5)].
Proof. cbn [ranges_wf]. lia. Qed.

Example rust_test_1 : feed [] [3] = [(3, 4)].
Proof. vm_compute. reflexivity. Qed.
Example rust_test_2 : feed [] [3; 4] = [(3, 5)].
Proof. vm_compute. reflexivity. Qed.
Example rust_test_3 : feed [] [3; 4; 2] = [(2, 5)].
Proof. vm_compute. reflexivity. Qed.
Example rust_test_4 : feed [] [3; 4; 2; 0] = [(0, 1); (2, 5)].
Proof. vm_compute. reflexivity. Qed.
Example rust_test_5 : feed [] [3; 4; 2; 0; 7] = [(0, 1); (2, 5); (7, 8)].
Proof. vm_compute. reflexivity. Qed.
Example rust_test_6 : feed [] [3; 4; 2; 0; 7; 1] = [(0, 5); (7, 8)].
Proof. vm_compute. reflexivity. Qed.
Example rust_test_7 : feed [] [3; 4; 2; 0; 7; 1; 5] = [(0, 6); (7, 8)].
Proof. vm_compute. reflexivity. Qed.
Example rust_test_8 : feed [] [3; 4; 2; 0; 7; 1; 5; 6] = [(0, 8)].
Proof. vm_compute. reflexivity. Qed.

(* step by step, as in the Rust test *)
Example rust_test_steps :
  add_pending_ack [] 3 = [(3, 4)] /\
  add_pending_ack [(3, 4)] 4 = [(3, 5)] /\
  add_pending_ack [(3, 5)] 2 = [(2, 5)] /\
  add_pending_ack [(2, 5)] 0 = [(0, 1); (2, 5)] /\
  add_pending_ack [(0, 1); (2, 5)] 7 = [(0, 1); (2, 5); (7, 8)] /\
  add_pending_ack [(0, 1); (2, 5); (7, 8)] 1 = [(0, 5); (7, 8)] /\
  add_pending_ack [(0, 5); (7, 8)] 5 = [(0, 6); (7, 8)] /\
  add_pending_ack [(0, 6); (7, 8)] 6 = [(0, 8)].
Proof. vm_compute. repeat split; reflexivity. Qed.

Example acked_largest_examples :
  acked_largest [(0, 1); (2, 5); (7, 8)] 3 = [(4, 5); (7, 8)] /\
  acked_largest [(0, 1); (2, 5); (7, 8)] 4 = [(7, 8)] /\
  acked_largest [(0, 1); (2, 5); (7, 8)] 5 = [(7, 8)] /\
  acked_largest [(2, 5); (7, 8)] 1 = [(2, 5); (7, 8)] /\
  acked_largest [(0, 1); (2, 5); (7, 8)] 100 = [].
Proof. vm_compute. repeat split; reflexivity. Qed.

(* the limit in action (these depend on the VALUE of MAX_ACK_RANGES, by computation only):
   a full list of MAX_ACK_RANGES isolated ranges 10,13,16,... *)
Definition full_list : list (N * N) :=
  map (fun i => let a := 10 + 3 * N.of_nat i in (a, a + 1)) (seq 0 (N.to_nat MAX_ACK_RANGES)).

Example full_list_wf : ranges_wf 0 full_list /\ len full_list = MAX_ACK_RANGES.
Proof.
  split; [|vm_compute; reflexivity].
  vm_compute. repeat split; discriminate.
Qed.

(* a new LOWEST range on a full list is dropped at once: the received number 0 is lost,
   so the hypothesis of add_pending_ack_complete cannot be removed *)
Example full_list_drops_new_lowest :
  add_pending_ack full_list 0 = full_list /\ ~ in_ranges 0 full_list.
Proof.
  split; [vm_compute; reflexivity|].
  assert (Hwf : ranges_wf 10 full_list) by (vm_compute; repeat split; discriminate).
  intros Hin. pose proof (in_ranges_lo _ _ _ Hwf Hin). lia.
Qed.

(* a new HIGHEST range on a full list evicts the lowest range *)
Example full_list_evicts_lowest :
  add_pending_ack full_list 1000 = tl full_list ++ [(1000, 1001)].
Proof. vm_compute. reflexivity. Qed.

(* an extension never triggers the limit *)
Example full_list_extend : add_pending_ack full_list 11 = (10, 12) :: tl full_list.
Proof. vm_compute. reflexivity. Qed.

(* ------------------------------------------------------------------ *)
Print Assumptions MAX_ACK_RANGES_pos.
Print Assumptions add_pending_ack_wf.
Print Assumptions add_pending_ack_sound.
Print Assumptions add_pending_ack_bound.
Print Assumptions add_pending_ack_nonempty.
Print Assumptions add_pending_ack_exact.
Print Assumptions add_pending_ack_complete.
Print Assumptions add_pending_ack_iff.
Print Assumptions add_pending_ack_keeps_new_strong.
Print Assumptions add_pending_ack_keeps_new.
Print Assumptions add_pending_ack_drops_new.
Print Assumptions feed_wf.
Print Assumptions feed_wf_from.
Print Assumptions feed_bound.
Print Assumptions feed_bound_from.
Print Assumptions feed_nonempty.
Print Assumptions feed_sound.
Print Assumptions feed_sound_from.
Print Assumptions feed_exact.
Print Assumptions feed_exact_strong.
Print Assumptions feed_exact_from.
Print Assumptions feed_exact_from_strong.
Print Assumptions feed_keeps_last.
Print Assumptions acked_largest_wf.
Print Assumptions acked_largest_spec.
Print Assumptions acked_largest_len.
Print Assumptions ranges_last_end.
Print Assumptions ranges_last_end_ex.
Print Assumptions feed_last_end.
Print Assumptions add_pending_ack_below.
Print Assumptions feed_below.
Print Assumptions acked_largest_below.
Print Assumptions rust_test_8.
Print Assumptions rust_test_steps.
Print Assumptions full_list_drops_new_lowest.
