(* Proofs/AeadP.v - properties of the AEAD model (Crypto/Aead.v).
   The block function and the MAC are treated as opaque functions: everything
   here follows from the shape of seal / open (xor with a key stream, tag
   recomputed and compared), except the last section, which shows that the
   executable Poly1305 (lazy reduction with shifts) equals the RFC formulation
   with N.modulo. *)
From RenetV Require Import Base.
From RenetV.Crypto Require Import Chacha20 Poly1305 Aead.

(* never compute through the cipher or the MAC *)
Arguments N.add : simpl never.
Arguments N.sub : simpl never.
Arguments N.mul : simpl never.
Arguments N.div : simpl never.
Arguments N.modulo : simpl never.
Arguments N.lxor : simpl never.
Arguments N.land : simpl never.
Arguments N.lor : simpl never.
Arguments N.shiftl : simpl never.
Arguments N.shiftr : simpl never.
Arguments N.pow : simpl never.
Arguments N.eqb : simpl never.
Arguments N.leb : simpl never.
Arguments N.ltb : simpl never.

(* ------------------------------------------------------------------ *)
(* generic list facts                                                  *)
(* ------------------------------------------------------------------ *)

Lemma list_eqb_N_eq : forall a b : list N, bytes_eqb a b = true <-> a = b.
Proof.
  unfold bytes_eqb.
  induction a as [|x a IH]; destruct b as [|y b]; simpl; split; intro H;
    try reflexivity; try discriminate.
  - apply andb_true_iff in H. destruct H as [H1 H2].
    apply N.eqb_eq in H1. apply IH in H2. subst. reflexivity.
  - inversion H; subst. apply andb_true_iff. split.
    + apply N.eqb_refl.
    + apply IH. reflexivity.
Qed.

Lemma bytes_eqb_refl : forall a, bytes_eqb a a = true.
Proof. intro a. apply list_eqb_N_eq. reflexivity. Qed.

Lemma lxor_cancel_r : forall a b, N.lxor (N.lxor a b) b = a.
Proof. intros. rewrite N.lxor_assoc, N.lxor_nilpotent, N.lxor_0_r. reflexivity. Qed.

(* ------------------------------------------------------------------ *)
(* the stream cipher: length preserving, involutive                    *)
(* ------------------------------------------------------------------ *)

Lemma stream_xor_length : forall blk d ctr ks,
  length (stream_xor blk ctr ks d) = length d.
Proof.
  induction d as [|x d IH]; intros ctr ks; simpl.
  - reflexivity.
  - destruct ks as [|k ks'].
    + destruct (blk ctr) as [|k ks']; simpl; rewrite IH; reflexivity.
    + simpl. rewrite IH. reflexivity.
Qed.

Lemma stream_xor_invol : forall blk d ctr ks,
  stream_xor blk ctr ks (stream_xor blk ctr ks d) = d.
Proof.
  induction d as [|x d IH]; intros ctr ks; simpl.
  - reflexivity.
  - destruct ks as [|k ks'].
    + destruct (blk ctr) as [|k ks'] eqn:E; simpl; rewrite E.
      * rewrite IH. reflexivity.
      * rewrite IH, lxor_cancel_r. reflexivity.
    + simpl. rewrite IH, lxor_cancel_r. reflexivity.
Qed.

Lemma aead_cipher_length : forall s d, length (aead_cipher s d) = length d.
Proof. intros. apply stream_xor_length. Qed.

Lemma aead_cipher_invol : forall s d, aead_cipher s (aead_cipher s d) = d.
Proof. intros. apply stream_xor_invol. Qed.

(* ------------------------------------------------------------------ *)
(* the tag always has 16 bytes                                         *)
(* ------------------------------------------------------------------ *)

Lemma le_bytes_sh_length : forall n v, length (le_bytes_sh n v) = n.
Proof. induction n; intro v; simpl; [reflexivity | rewrite IHn; reflexivity]. Qed.

Lemma poly1305_length : forall key msg, length (poly1305 key msg) = 16%nat.
Proof. intros. unfold poly1305. apply le_bytes_sh_length. Qed.

Lemma aead_tag_length : forall s aad ct, length (aead_tag s aad ct) = 16%nat.
Proof. intros. apply poly1305_length. Qed.


(* ------------------------------------------------------------------ *)
(* seal / open for a prepared state                                    *)
(* ------------------------------------------------------------------ *)

Lemma seal_with_length : forall s a m,
  length (seal_with s a m) = (length m + 16)%nat.
Proof.
  intros. unfold seal_with.
  rewrite app_length, aead_cipher_length, aead_tag_length. reflexivity.
Qed.

(* open_with on ct ++ tg with a 16-byte tg splits at the right place *)
Lemma open_with_app : forall s a ct tg, length tg = 16%nat ->
  open_with s a (ct ++ tg) =
  if bytes_eqb tg (aead_tag s a ct) then Some (aead_cipher s ct) else None.
Proof.
  intros s a ct tg Htg. unfold open_with.
  rewrite app_length, Htg.
  replace (Nat.ltb (length ct + 16) 16) with false
    by (symmetry; apply Nat.ltb_ge; lia).
  replace (length ct + 16 - 16)%nat with (length ct + 0)%nat by lia.
  rewrite firstn_app_2, skipn_app, Nat.add_0_r.
  rewrite skipn_all, Nat.sub_diag. simpl.
  rewrite app_nil_r. reflexivity.
Qed.

Lemma open_with_seal : forall s a m, open_with s a (seal_with s a m) = Some m.
Proof.
  intros. unfold seal_with.
  rewrite open_with_app by apply aead_tag_length.
  rewrite bytes_eqb_refl, aead_cipher_invol. reflexivity.
Qed.

Lemma open_with_short : forall s a c, (length c < 16)%nat -> open_with s a c = None.
Proof.
  intros s a c H. unfold open_with.
  apply Nat.ltb_lt in H. rewrite H. reflexivity.
Qed.

(* what a successful open says about its input *)
Lemma open_with_inv : forall s a c m, open_with s a c = Some m ->
  exists ct, c = ct ++ aead_tag s a ct /\ m = aead_cipher s ct.
Proof.
  intros s a c m H. unfold open_with in H.
  destruct (Nat.ltb (length c) 16) eqn:E; [discriminate|].
  destruct (bytes_eqb _ _) eqn:T; [|discriminate].
  apply list_eqb_N_eq in T. injection H as H.
  exists (firstn (length c - 16) c). split.
  - rewrite <- T. symmetry. apply firstn_skipn.
  - symmetry. exact H.
Qed.

Lemma open_with_length : forall s a c m, open_with s a c = Some m ->
  length c = (length m + 16)%nat.
Proof.
  intros s a c m H. apply open_with_inv in H. destruct H as (ct & -> & ->).
  rewrite app_length, aead_tag_length, aead_cipher_length. reflexivity.
Qed.

Lemma open_with_sound : forall s a c m, open_with s a c = Some m ->
  c = seal_with s a m.
Proof.
  intros s a c m H. apply open_with_inv in H. destruct H as (ct & -> & ->).
  unfold seal_with. rewrite aead_cipher_invol. reflexivity.
Qed.

(* ------------------------------------------------------------------ *)
(* the theorems: AEAD_CHACHA20_POLY1305                                *)
(* ------------------------------------------------------------------ *)

(* 1 *)
Theorem aead_seal_length : forall k n a m,
  length (aead_seal k n a m) = (length m + 16)%nat.
Proof. intros. apply seal_with_length. Qed.

(* 2: unconditional - no length or byte-range hypotheses *)
Theorem aead_open_seal : forall k n a m,
  aead_open k n a (aead_seal k n a m) = Some m.
Proof. intros. apply open_with_seal. Qed.

(* 3 *)
Theorem aead_open_length : forall k n a c m,
  aead_open k n a c = Some m -> length c = (length m + 16)%nat.
Proof. intros k n a c m. apply open_with_length. Qed.

(* 4 *)
Theorem aead_open_short : forall k n a c,
  (length c < 16)%nat -> aead_open k n a c = None.
Proof. intros k n a c. apply open_with_short. Qed.

(* 5: opening succeeds only on exactly the sealed bytes of the returned
   plaintext; unconditional as well (the tag comparison is exact and xor with
   the key stream is an involution on all of N) *)
Theorem aead_open_sound : forall k n a c m,
  aead_open k n a c = Some m -> c = aead_seal k n a m.
Proof. intros k n a c m. apply open_with_sound. Qed.

(* 2 and 5 together *)
Theorem aead_open_iff : forall k n a c m,
  aead_open k n a c = Some m <-> c = aead_seal k n a m.
Proof.
  intros. split.
  - apply aead_open_sound.
  - intros ->. apply aead_open_seal.
Qed.

(* sealing is injective in the plaintext, and a sealed message for one plaintext
   never opens to another *)
Corollary aead_seal_inj : forall k n a m1 m2,
  aead_seal k n a m1 = aead_seal k n a m2 -> m1 = m2.
Proof.
  intros k n a m1 m2 H.
  assert (E : aead_open k n a (aead_seal k n a m1) = Some m2)
    by (rewrite H; apply aead_open_seal).
  rewrite aead_open_seal in E. injection E as E. exact E.
Qed.

(* ------------------------------------------------------------------ *)
(* the theorems: AEAD_XChaCha20_Poly1305                               *)
(* ------------------------------------------------------------------ *)

Theorem xaead_seal_length : forall k n a m,
  length (xaead_seal k n a m) = (length m + 16)%nat.
Proof. intros. apply aead_seal_length. Qed.

Theorem xaead_open_seal : forall k n a m,
  xaead_open k n a (xaead_seal k n a m) = Some m.
Proof. intros. apply aead_open_seal. Qed.

Theorem xaead_open_length : forall k n a c m,
  xaead_open k n a c = Some m -> length c = (length m + 16)%nat.
Proof. intros k n a c m. apply aead_open_length. Qed.

Theorem xaead_open_short : forall k n a c,
  (length c < 16)%nat -> xaead_open k n a c = None.
Proof. intros k n a c. apply aead_open_short. Qed.

Theorem xaead_open_sound : forall k n a c m,
  xaead_open k n a c = Some m -> c = xaead_seal k n a m.
Proof. intros k n a c m. apply aead_open_sound. Qed.

Theorem xaead_open_iff : forall k n a c m,
  xaead_open k n a c = Some m <-> c = xaead_seal k n a m.
Proof. intros. apply aead_open_iff. Qed.

Corollary xaead_seal_inj : forall k n a m1 m2,
  xaead_seal k n a m1 = xaead_seal k n a m2 -> m1 = m2.
Proof. intros k n a m1 m2. apply aead_seal_inj. Qed.

(* the same statements with the project's N-valued len *)
Corollary aead_seal_len : forall k n a m, len (aead_seal k n a m) = len m + 16.
Proof. intros. unfold len. rewrite aead_seal_length. lia. Qed.
Corollary xaead_seal_len : forall k n a m, len (xaead_seal k n a m) = len m + 16.
Proof. intros. unfold len. rewrite xaead_seal_length. lia. Qed.

(* ------------------------------------------------------------------ *)
(* Poly1305: the executable version equals the N.modulo formulation    *)
(* ------------------------------------------------------------------ *)

Lemma P1305_nz : P1305 <> 0.
Proof. discriminate. Qed.

Lemma pow130 : 2 ^ 130 = P1305 + 5.
Proof. reflexivity. Qed.

Lemma red130_mod : forall x, red130 x mod P1305 = x mod P1305.
Proof.
  intro x. unfold red130.
  change M130 with (N.ones 130).
  rewrite N.land_ones, N.shiftr_div_pow2.
  rewrite (N.div_mod x (2 ^ 130)) at 3 by (apply N.pow_nonzero; discriminate).
  rewrite pow130.
  set (q := x / (P1305 + 5)). set (r := x mod (P1305 + 5)).
  replace ((P1305 + 5) * q + r) with (r + 5 * q + q * P1305) by lia.
  rewrite N.mod_add by apply P1305_nz. reflexivity.
Qed.

Lemma step_cong : forall r acc1 acc2 c, acc1 mod P1305 = acc2 mod P1305 ->
  (((acc1 + c) * r) mod P1305) mod P1305 =
  red130 (red130 ((acc2 + c) * r)) mod P1305.
Proof.
  intros r acc1 acc2 c H.
  rewrite !red130_mod, N.mod_mod by apply P1305_nz.
  rewrite <- (N.mul_mod_idemp_l (acc1 + c)), <- (N.mul_mod_idemp_l (acc2 + c))
    by apply P1305_nz.
  rewrite <- (N.add_mod_idemp_l acc1), <- (N.add_mod_idemp_l acc2) by apply P1305_nz.
  rewrite H. reflexivity.
Qed.

Lemma poly_go_cong : forall r d acc1 acc2 cur sh,
  acc1 mod P1305 = acc2 mod P1305 ->
  poly_go (fun x => (x * r) mod P1305) acc1 cur sh d mod P1305 =
  poly_go (fun x => red130 (red130 (x * r))) acc2 cur sh d mod P1305.
Proof.
  induction d as [|b d IH]; intros acc1 acc2 cur sh H; simpl.
  - destruct (sh =? 0); [exact H | apply step_cong; exact H].
  - destruct (sh =? 120).
    + apply IH. apply step_cong. exact H.
    + apply IH. exact H.
Qed.

Lemma poly_go_spec_lt : forall r d acc cur sh, acc < P1305 ->
  poly_go (fun x => (x * r) mod P1305) acc cur sh d < P1305.
Proof.
  induction d as [|b d IH]; intros acc cur sh H; simpl.
  - destruct (sh =? 0); [exact H | apply N.mod_lt, P1305_nz].
  - destruct (sh =? 120); apply IH; [apply N.mod_lt, P1305_nz | exact H].
Qed.

Lemma le_bytes_sh_eq : forall n v, le_bytes_sh n v = le_bytes n v.
Proof.
  induction n as [|n IH]; intro v; simpl; [reflexivity|].
  change 255 with (N.ones 8).
  rewrite N.land_ones, N.shiftr_div_pow2, IH. reflexivity.
Qed.

(* le_bytes n only looks at the low 8n bits *)
Lemma le_bytes_mod : forall n v, le_bytes n (v mod 256 ^ N.of_nat n) = le_bytes n v.
Proof.
  induction n as [|n IH]; intro v; [reflexivity|].
  rewrite Nat2N.inj_succ, N.pow_succ_r'.
  assert (Hp : 256 ^ N.of_nat n <> 0) by (apply N.pow_nonzero; discriminate).
  rewrite N.mod_mul_r by (try discriminate; exact Hp).
  cbn [le_bytes]. f_equal.
  - rewrite N.mul_comm, N.mod_add by discriminate. apply N.mod_mod. discriminate.
  - rewrite N.mul_comm, N.div_add by discriminate.
    rewrite N.div_small by (apply N.mod_lt; discriminate).
    rewrite N.add_0_l. apply IH.
Qed.

Theorem poly1305_eq_spec : forall key msg, poly1305 key msg = poly1305_spec key msg.
Proof.
  intros key msg. unfold poly1305, poly1305_spec.
  rewrite le_bytes_sh_eq.
  change (2 ^ 128) with (256 ^ N.of_nat 16). rewrite le_bytes_mod.
  rewrite <- (poly_go_cong (key_r key) msg 0 0 0 0 eq_refl).
  rewrite N.mod_small by (apply poly_go_spec_lt; reflexivity).
  reflexivity.
Qed.

(* the one-time key, the cipher and the MAC input of the AEAD, spelled out
   (RFC 8439 2.8) in terms of the RFC-level functions *)
Theorem aead_seal_unfold : forall k n a m,
  aead_seal k n a m =
  let otk := firstn 32 (chacha20_block k 0 n) in
  let ct := chacha20_xor k 1 n m in
  ct ++ poly1305_spec otk (mac_data a ct).
Proof.
  intros. unfold aead_seal, seal_with. cbv zeta.
  rewrite <- poly1305_eq_spec. reflexivity.
Qed.
