(* SendRelP.v - SendChannelReliable: invariant, send, get_packets_to_send, acknowledgements. *)
From RenetV Require Import Base Consts Varint Packet Channels RecvSpec SendSpec SMapSendP.
Require Import Lia ZifyBool ZifyN ZifyNat Permutation.
Open Scope N_scope.

Arguments N.add : simpl never.
Arguments N.sub : simpl never.
Arguments N.mul : simpl never.
Arguments N.div : simpl never.
Arguments N.modulo : simpl never.
Arguments N.eqb : simpl never.
Arguments N.ltb : simpl never.
Arguments N.leb : simpl never.
Local Opaque SLICE_SIZE.

(* ================================================================== *)
(* D1: the invariant holds initially and is monotone in the clock *)

Lemma opt_le_mono o now now' : opt_le o now -> now <= now' -> opt_le o now'.
Proof. destruct o; cbn; lia. Qed.

Lemma unacked_wf_mono now now' u : unacked_wf now u -> now <= now' -> unacked_wf now' u.
Proof.
  intros H Hle. destruct u as [m l|m num nacked next acked ls]; cbn in *.
  - destruct H; split; eauto using opt_le_mono.
  - destruct H as (H1 & H2 & H3 & H4 & H5 & H6 & H7). repeat split; auto.
    eapply Forall_impl; [|exact H7]. intros o Ho. exact (opt_le_mono _ _ _ Ho Hle).
Qed.

Theorem sr_inv_init : forall ch resend max now, sr_inv now (send_rel_new ch resend max).
Proof.
  intros. unfold sr_inv, send_rel_new; cbn. repeat split; auto. lia.
Qed.

Theorem sr_inv_mono : forall now now' s, sr_inv now s -> now <= now' -> sr_inv now' s.
Proof.
  intros now now' s (H1 & H2 & H3 & H4) Hle. repeat split; auto.
  eapply Forall_impl; [|exact H2]. intros [id u] [Ha Hb]. split; eauto using unacked_wf_mono.
Qed.

(* ================================================================== *)
(* D2: send_message *)

Lemma kind_of_find s id :
  kind_of s id = match sm_find id (sr_unacked s) with
                 | None => None
                 | Some (USmall _ _) => Some None
                 | Some (USliced _ num _ _ _ _) => Some (Some num)
                 end.
Proof. reflexivity. Qed.

Lemma new_unacked_wf now m :
  unacked_wf now
    (if SLICE_SIZE <? len m
     then USliced m (div_ceil (len m) SLICE_SIZE) 0 0
            (repeatN false (N.to_nat (div_ceil (len m) SLICE_SIZE)))
            (repeatN None (N.to_nat (div_ceil (len m) SLICE_SIZE)))
     else USmall m None).
Proof.
  destruct (N.ltb_spec SLICE_SIZE (len m)) as [H|H]; cbn.
  - pose proof SS_pos. pose proof (div_ceil_ge2 (len m) SLICE_SIZE SS_pos H).
    repeat split; auto using repeatN_length.
    + symmetry. apply count_true_repeat_false.
    + lia.
    + apply Forall_repeatN. exact I.
  - split; auto.
Qed.

Theorem sr_send_safe : forall now s m, sr_inv now s ->
  match sr_send s m with
  | Ok s' => sr_inv now s' /\ sr_next_id s' = sr_next_id s + 1 /\ sr_mem s' = sr_mem s + len m /\
             (forall id, id <> sr_next_id s -> sm_find id (sr_unacked s') = sm_find id (sr_unacked s)) /\
             kind_of s' (sr_next_id s) = Some (if SLICE_SIZE <? len m then Some (num_slices_of m) else None)
  | Err e => e = ReliableChannelMaxMemoryReached /\ sr_max s < sr_mem s + len m
  | Panic _ => False
  end.
Proof.
  intros now s m (H1 & H2 & H3 & H4). unfold sr_send.
  destruct (N.ltb_spec (sr_max s) (sr_mem s + len m)) as [Hfull|Hfit]; [split; [reflexivity|lia]|].
  set (u := if SLICE_SIZE <? len m then _ else _).
  assert (Hu : unacked_wf now u) by apply new_unacked_wf.
  assert (Hlt : Forall (fun kv : N * unacked => fst kv < sr_next_id s) (sr_unacked s)).
  { eapply Forall_impl; [|exact H2]. intros a [Ha _]. exact Ha. }
  repeat split; cbn [sr_unacked sr_next_id sr_mem sr_max].
  - rewrite sm_insert_last by exact Hlt. apply keys_asc_app_last; auto. lia.
  - apply Forall_sm_insert.
    + cbn [fst snd]. split; [lia|exact Hu].
    + eapply Forall_impl; [|exact H2]. intros a [Ha Hb]. split; [lia|exact Hb].
  - rewrite sm_insert_last by exact Hlt. rewrite map_app, sum_app. cbn [map snd]. rewrite sum_one.
    rewrite H3. f_equal. subst u. destruct (SLICE_SIZE <? len m); reflexivity.
  - lia.
  - intros id Hid. apply sm_find_insert_other. exact Hid.
  - rewrite kind_of_find. cbn [sr_unacked]. rewrite sm_find_insert_same. subst u.
    destruct (SLICE_SIZE <? len m); reflexivity.
Qed.

(* ================================================================== *)
(* D7: accounting when drained *)

Theorem drained_send : forall now s, sr_inv now s -> sr_unacked s = [] -> sr_mem s = 0.
Proof. intros now s (H1 & H2 & H3 & H4) E. rewrite H3, E. reflexivity. Qed.

Theorem sr_available_ok : forall now s, sr_inv now s -> sr_available s = Ok (sr_max s - sr_mem s).
Proof. intros now s (H1 & H2 & H3 & H4). unfold sr_available. now apply sub_chk_ok. Qed.

(* ================================================================== *)
(* D6: acknowledgements *)

Lemma sr_inv_find now s id u :
  sr_inv now s -> sm_find id (sr_unacked s) = Some u ->
  id < sr_next_id s /\ unacked_wf now u /\ unacked_len u <= sr_mem s.
Proof.
  intros (H1 & H2 & H3 & H4) E.
  pose proof (sm_find_Forall _ _ _ _ H2 E) as [Ha Hb]. cbn [fst snd] in *.
  repeat split; auto.
  pose proof (sum_sm_remove (fun iu => unacked_len (snd iu)) _ _ _ E) as S. cbn [snd] in S. lia.
Qed.

Lemma sr_inv_remove now s id u :
  sr_inv now s -> sm_find id (sr_unacked s) = Some u ->
  sr_inv now (sr_set s (sm_remove id (sr_unacked s)) (sr_mem s - unacked_len u)).
Proof.
  intros Hinv E. pose proof (sr_inv_find _ _ _ _ Hinv E) as (Ha & Hb & Hc).
  destruct Hinv as (H1 & H2 & H3 & H4).
  pose proof (sum_sm_remove (fun iu => unacked_len (snd iu)) _ _ _ E) as S. cbn [snd] in S.
  unfold sr_inv, sr_set; cbn [sr_unacked sr_next_id sr_mem sr_max]. repeat split.
  - now apply keys_asc_remove.
  - now apply Forall_sm_remove.
  - lia.
  - lia.
Qed.

Theorem sr_ack_message_safe : forall now s id, sr_inv now s ->
  (kind_of s id = None \/ kind_of s id = Some None) ->
  exists s', sr_ack_message s id = Ok s' /\ sr_inv now s' /\ kind_of s' id = None /\
    (forall j, j <> id -> sm_find j (sr_unacked s') = sm_find j (sr_unacked s)) /\
    sr_mem s' + (match sm_find id (sr_unacked s) with Some u => unacked_len u | None => 0 end) = sr_mem s /\
    sr_next_id s' = sr_next_id s.
Proof.
  intros now s id Hinv Hk. unfold sr_ack_message. rewrite kind_of_find in Hk.
  destruct (sm_find id (sr_unacked s)) as [[m l|m num na nx ak ls]|] eqn:E.
  - pose proof (sr_inv_find _ _ _ _ Hinv E) as (Ha & Hb & Hc). cbn [unacked_len] in *.
    rewrite sub_chk_ok by exact Hc. cbn [bind].
    eexists; split; [reflexivity|].
    split; [exact (sr_inv_remove _ _ _ _ Hinv E)|]. repeat split.
    + rewrite kind_of_find. cbn [sr_set sr_unacked].
      destruct Hinv as (H1 & _). now rewrite (sm_find_remove_same _ _ _ H1).
    + intros j Hj. cbn [sr_set sr_unacked]. now apply sm_find_remove_other.
    + cbn [sr_set sr_mem]. lia.
  - destruct Hk; discriminate.
  - exists s. split; [reflexivity|]. split; [exact Hinv|]. repeat split; auto.
    + rewrite kind_of_find, E. reflexivity.
    + lia.
Qed.

(* acknowledging slice idx of message id, three outcomes *)
Definition ack_slice_noop (s s' : send_rel) (id idx : N) : Prop :=
  (kind_of s id = None \/ slice_acked s id idx = Some true) /\ s' = s.

Definition ack_slice_partial (s s' : send_rel) (id idx : N) : Prop :=
  slice_acked s id idx = Some false /\
  (exists j, j <> idx /\ slice_acked s id j = Some false) /\
  kind_of s' id = kind_of s id /\
  slice_acked s' id idx = Some true /\
  (forall j, j <> idx -> slice_acked s' id j = slice_acked s id j) /\
  (forall j, slice_last s' id j = slice_last s id j) /\
  sr_mem s' = sr_mem s.

Definition ack_slice_final (s s' : send_rel) (id idx : N) : Prop :=
  slice_acked s id idx = Some false /\
  (forall j num, kind_of s id = Some (Some num) -> j < num -> j <> idx -> slice_acked s id j = Some true) /\
  kind_of s' id = None /\
  sr_mem s' + (match sm_find id (sr_unacked s) with Some u => unacked_len u | None => 0 end) = sr_mem s.

Lemma count_true_upd_full l i :
  nth_opt l i = Some false -> count_true l + 1 = len l ->
  forall j, (j < length l)%nat -> j <> i -> nth_opt l j = Some true.
Proof.
  intros Hi Hc j Hj Hne.
  pose proof (count_true_upd l i Hi) as Hu.
  assert (Hfull : count_true (upd l i true) = len (upd l i true)).
  { rewrite Hu. unfold len. rewrite upd_length. exact Hc. }
  pose proof (count_true_full _ Hfull j) as Hj'. rewrite upd_length in Hj'.
  rewrite nth_opt_upd_other in Hj' by auto. auto.
Qed.

Lemma count_true_upd_not_full l i :
  nth_opt l i = Some false -> count_true l + 1 <> len l ->
  exists j, j <> i /\ nth_opt l j = Some false.
Proof.
  intros Hi Hc.
  pose proof (count_true_upd l i Hi) as Hu.
  pose proof (count_true_le (upd l i true)) as Hle.
  assert (Hlt : count_true (upd l i true) < len (upd l i true)).
  { unfold len in *. rewrite upd_length in *. lia. }
  destruct (count_true_not_full _ Hlt) as (j & Hj).
  exists j. destruct (Nat.eq_dec j i) as [->|Hne].
  - rewrite nth_opt_upd_same in Hj by (eapply nth_opt_some_lt; eauto). discriminate.
  - split; auto. now rewrite nth_opt_upd_other in Hj by auto.
Qed.

Theorem sr_ack_slice_safe : forall now s id idx, sr_inv now s ->
  (kind_of s id = None \/ exists num, kind_of s id = Some (Some num) /\ idx < num) ->
  exists s', sr_ack_slice s id idx = Ok s' /\ sr_inv now s' /\
    sr_next_id s' = sr_next_id s /\
    (forall j, j <> id -> sm_find j (sr_unacked s') = sm_find j (sr_unacked s)) /\
    (ack_slice_noop s s' id idx \/ ack_slice_partial s s' id idx \/ ack_slice_final s s' id idx).
Proof.
  intros now s id idx Hinv Hk. unfold sr_ack_slice.
  unfold ack_slice_noop, ack_slice_partial, ack_slice_final, slice_acked, slice_last.
  rewrite !kind_of_find in *.
  destruct (sm_find id (sr_unacked s)) as [[m l|m num na nx ak ls]|] eqn:E.
  - destruct Hk as [Hk|(n & Hk & _)]; discriminate.
  - destruct Hk as [Hk|(n & Hk & Hidx)]; [discriminate|]. inversion Hk; subst n; clear Hk.
    pose proof (sr_inv_find _ _ _ _ Hinv E) as (Ha & Hb & Hc). cbn [unacked_len] in Hc.
    destruct Hb as (W1 & W2 & W3 & W4 & W5 & W6 & W7). fold (count_true ak) in W5.
    destruct (nth_opt_lt ak (N.to_nat idx) ltac:(lia)) as (b & Eb). rewrite Eb.
    destruct b.
    { exists s. split; [reflexivity|]. split; [exact Hinv|]. repeat split; auto. }
    destruct (N.eqb_spec (na + 1) num) as [Hlast|Hmore].
    + rewrite sub_chk_ok by exact Hc. cbn [bind].
      eexists; split; [reflexivity|].
      split; [exact (sr_inv_remove _ _ _ _ Hinv E)|].
      split; [reflexivity|].
      split; [intros j Hj; cbn [sr_set sr_unacked]; now apply sm_find_remove_other|].
      right; right.
      split; [reflexivity|].
      split.
      { intros j n Hn Hj Hne. inversion Hn; subst n.
        apply (count_true_upd_full ak (N.to_nat idx)); auto; unfold len; lia. }
      split.
      { rewrite kind_of_find. cbn [sr_set sr_unacked]. destruct Hinv as (H1 & _).
        now rewrite (sm_find_remove_same _ _ _ H1). }
      cbn [sr_set sr_mem unacked_len]. lia.
    + eexists; split; [reflexivity|].
      set (u' := USliced m num (na + 1) nx (upd ak (N.to_nat idx) true) ls).
      destruct Hinv as (H1 & H2 & H3 & H4).
      assert (Hu' : unacked_wf now u').
      { cbn. repeat split; auto.
        - now rewrite upd_length.
        - fold (count_true (upd ak (N.to_nat idx) true)). rewrite count_true_upd by auto. lia.
        - lia. }
      split.
      { unfold sr_inv. cbn [sr_set sr_unacked sr_next_id sr_mem sr_max].
        split; [erewrite sm_insert_keys_same; eauto|].
        split; [apply Forall_sm_insert; auto; cbn [fst snd]; split; auto|].
        split; [|exact H4].
        pose proof (sum_sm_insert_same (fun iu => unacked_len (snd iu)) _ _ _ u' _ H1 E) as S.
        cbn [snd unacked_len u'] in S. lia. }
      split; [reflexivity|].
      split; [intros j Hj; cbn [sr_set sr_unacked]; now apply sm_find_insert_other|].
      right; left. rewrite kind_of_find. cbn [sr_set sr_unacked sr_mem].
      rewrite sm_find_insert_same. subst u'. cbn beta iota.
      split; [reflexivity|].
      split.
      { destruct (count_true_upd_not_full ak (N.to_nat idx) Eb) as (j & Hj & Hj').
        { unfold len. lia. }
        exists (N.of_nat j). split; [lia|]. now rewrite Nat2N.id. }
      split; [reflexivity|].
      split; [apply nth_opt_upd_same; lia|].
      split; [intros j Hj; apply nth_opt_upd_other; lia|].
      split; [reflexivity|reflexivity].
  - exists s. split; [reflexivity|]. split; [exact Hinv|]. repeat split; auto.
Qed.

(* ================================================================== *)
(* get_packets_to_send: preliminaries *)

(* ---------- due ---------- *)
Definition due_b (now resend : N) (last : option N) : bool :=
  match last with None => true | Some t => negb (now - t <? resend) end.

Lemma due_ok now resend last : opt_le last now -> due now resend last = Ok (due_b now resend last).
Proof.
  destruct last as [t|]; cbn [opt_le due due_b]; intros H; [|reflexivity].
  rewrite sub_chk_ok by exact H. reflexivity.
Qed.

Lemma due_b_true now resend last : due_b now resend last = true <-> is_due now resend last.
Proof.
  destruct last as [t|]; cbn [due_b is_due]; [|tauto].
  destruct (N.ltb_spec (now - t) resend); cbn [negb]; split; intros; try lia; try discriminate; auto.
Qed.

Lemma due_b_false now resend last : due_b now resend last = false -> ~ is_due now resend last.
Proof. intros H D. apply due_b_true in D. congruence. Qed.

(* ---------- what a message is, independently of its transmission state ---------- *)
Definition static_of (u : unacked) : list N * option N :=
  match u with USmall m _ => (m, None) | USliced m num _ _ _ _ => (m, Some num) end.

Definition st_of (us : list (N * unacked)) (id : N) : option (list N * option N) :=
  match sm_find id us with Some u => Some (static_of u) | None => None end.

Definition same_static (u u' : unacked) : Prop :=
  match u, u' with
  | USmall m _, USmall m' _ => m = m'
  | USliced m num na _ ak _, USliced m' num' na' _ ak' _ => m = m' /\ num = num' /\ na = na' /\ ak = ak'
  | _, _ => False
  end.

Lemma same_static_of u u' : same_static u u' -> static_of u' = static_of u.
Proof.
  destruct u, u'; cbn; try tauto; intros; try congruence.
  destruct H as (-> & -> & _). reflexivity.
Qed.

Lemma same_static_len u u' : same_static u u' -> unacked_len u' = unacked_len u.
Proof.
  destruct u, u'; cbn; try tauto; intros; try congruence.
  destruct H as (-> & _). reflexivity.
Qed.

(* transmission state of one part: None = the small message, Some i = slice i *)
Definition part_last (u : unacked) (p : option N) : option (option N) :=
  match u, p with
  | USmall _ l, None => Some l
  | USliced _ _ _ _ _ ls, Some i => nth_opt ls (N.to_nat i)
  | _, _ => None
  end.

Definition part_acked (u : unacked) (p : option N) : option bool :=
  match u, p with
  | USmall _ _, None => Some false
  | USliced _ _ _ _ acked _, Some i => nth_opt acked (N.to_nat i)
  | _, _ => None
  end.

(* ---------- packets relative to the static view ---------- *)
Definition stat := N -> option (list N * option N).

Definition entry_ok (st : stat) (im : N * list N) : Prop := st (fst im) = Some (snd im, None).

Definition pkt_ok (ch : N) (st : stat) (p : packet) : Prop :=
  match p with
  | SmallReliable _ c ms => c = ch /\ Forall (entry_ok st) ms
  | ReliableSlice _ c sl =>
      c = ch /\ exists m num, st (sl_id sl) = Some (m, Some num) /\
                              sl = slice_of m (sl_id sl) (sl_index sl) /\ sl_index sl < num
  | _ => False
  end.

Definition small_size_ok (ms : list (N * list N)) : Prop :=
  sum (map rel_entry_size ms) <= SLICE_SIZE \/ exists im, ms = [im].

(* [fit]: every pending small message fits a packet body on its own *)
Definition pkt_size_ok (fit : Prop) (p : packet) : Prop :=
  match p with
  | SmallReliable _ _ ms => small_size_ok ms /\ (fit -> ms <> [])
  | _ => True
  end.

Definition part := (N * option N)%type.
Definition small_parts (ms : list (N * list N)) : list part := map (fun im => (fst im, None)) ms.
Definition acc_parts (a : sacc) : list part := parts_of (a_pkts a) ++ small_parts (a_small a).

Lemma parts_of_app p q : parts_of (p ++ q) = parts_of p ++ parts_of q.
Proof.
  induction p as [|x p IH]; [reflexivity|].
  destruct x; cbn [app parts_of]; rewrite IH; auto using app_assoc.
Qed.

Lemma payload_total_small_one seq ch ms : payload_total [SmallReliable seq ch ms] = msgs_bytes ms.
Proof. unfold payload_total, msgs_bytes. cbn [map payload_bytes]. now rewrite sum_one. Qed.

Lemma sacc_eq a b :
  a_pkts a = a_pkts b -> a_small a = a_small b -> a_small_bytes a = a_small_bytes b ->
  a_seq a = a_seq b -> a_avail a = a_avail b -> a = b.
Proof. destruct a, b; cbn; intros; subst; reflexivity. Qed.

(* ---------- the bodies of the SmallReliable packets, for the empty-packet quirk ---------- *)
Definition bodies (ps : list packet) : list (list (N * list N)) :=
  flat_map (fun p => match p with SmallReliable _ _ ms => [ms] | _ => [] end) ps.

(* the bodies the tick will have produced if it stopped now *)
Definition Fseq (a : sacc) : list (list (N * list N)) :=
  bodies (a_pkts a) ++ match a_small a with [] => [] | sm => [sm] end.

Definition oversize (im : N * list N) : Prop := SLICE_SIZE < rel_entry_size im.

(* only the first body can be empty, and it is empty exactly when the entry that follows it
   (the first small message transmitted in the tick) does not fit a body on its own *)
Definition shape (F : list (list (N * list N))) : Prop :=
  match F with
  | [] => True
  | [] :: F' => match F' with
                | (im :: _) :: more => oversize im /\ Forall (fun b => b <> []) more
                | _ => False
                end
  | (im :: _) :: more => ~ oversize im /\ Forall (fun b => b <> []) more
  end.

Lemma bodies_app p q : bodies (p ++ q) = bodies p ++ bodies q.
Proof. unfold bodies. apply flat_map_app. Qed.

Lemma shape_snoc F b : shape F -> F <> [] -> b <> [] -> shape (F ++ [b]).
Proof.
  intros H HF Hb. destruct F as [|[|im r] F']; [contradiction| |].
  - cbn [app shape] in *. destruct F' as [|[|im r] more]; try contradiction.
    cbn [app]. destruct H as [H1 H2]. split; [exact H1|].
    apply Forall_app. split; [exact H2|constructor; [exact Hb|constructor]].
  - cbn [app shape] in *. destruct H as [H1 H2]. split; [exact H1|].
    apply Forall_app. split; [exact H2|constructor; [exact Hb|constructor]].
Qed.

Lemma shape_extend_last B x xs e : shape (B ++ [x :: xs]) -> shape (B ++ [x :: xs ++ [e]]).
Proof.
  assert (HF : forall more, Forall (fun b : list (N * list N) => b <> []) (more ++ [x :: xs]) ->
                            Forall (fun b : list (N * list N) => b <> []) (more ++ [x :: xs ++ [e]])).
  { intros more H. apply Forall_app in H. destruct H as [H _]. apply Forall_app.
    split; [exact H|constructor; [discriminate|constructor]]. }
  intros H. destruct B as [|[|im r] B1]; cbn [app shape] in *.
  - destruct H as [H1 _]. split; [exact H1|constructor].
  - destruct B1 as [|[|im r] B2]; cbn [app] in *; try contradiction.
    + destruct H as [H1 _]. split; [exact H1|constructor].
    + destruct H as [H1 H2]. split; [exact H1|auto].
  - destruct H as [H1 H2]. split; [exact H1|auto].
Qed.

Record acc_wf (ch : N) (st : stat) (fit : Prop) (seq0 avail0 : N) (a : sacc) : Prop := {
  aw_pkts : Forall (pkt_ok ch st) (a_pkts a);
  aw_small : Forall (entry_ok st) (a_small a);
  aw_sizes : Forall (pkt_size_ok fit) (a_pkts a);
  aw_bytes : a_small_bytes a = sum (map rel_entry_size (a_small a));
  aw_ssize : small_size_ok (a_small a);
  aw_seqs : seqs_from seq0 (a_pkts a);
  aw_seq : a_seq a = seq0 + len (a_pkts a);
  aw_avail : a_avail a + payload_total (a_pkts a) + msgs_bytes (a_small a) = avail0;
  aw_shape : shape (Fseq a) /\ (a_small a = [] -> bodies (a_pkts a) = []) }.

(* ================================================================== *)
(* the inner loop over the slices of one message *)

Fixpoint slice_pkts (ch id : N) (m : list N) (seq : N) (sent : list N) : list packet :=
  match sent with
  | [] => []
  | i :: t => ReliableSlice seq ch (slice_of m id i) :: slice_pkts ch id m (seq + 1) t
  end.

Lemma len_slice_pkts ch id m seq sent : len (slice_pkts ch id m seq sent) = len sent.
Proof.
  revert seq; induction sent as [|i t IH]; intros seq; cbn [slice_pkts]; [reflexivity|].
  now rewrite !len_cons, IH.
Qed.

Lemma seqs_slice_pkts ch id m seq sent : seqs_from seq (slice_pkts ch id m seq sent).
Proof.
  revert seq; induction sent as [|i t IH]; intros seq; cbn [slice_pkts seqs_from packet_seq]; auto.
Qed.

Lemma payload_slice_pkts ch id m seq sent :
  payload_total (slice_pkts ch id m seq sent) = sum (map (plen m) sent).
Proof.
  revert seq; induction sent as [|i t IH]; intros seq; cbn [slice_pkts map]; [reflexivity|].
  unfold payload_total in *. cbn [map payload_bytes]. rewrite !sum_cons, IH. reflexivity.
Qed.

Lemma parts_slice_pkts ch id m seq sent :
  parts_of (slice_pkts ch id m seq sent) = map (fun i => (id, Some i)) sent.
Proof.
  revert seq; induction sent as [|i t IH]; intros seq; cbn [slice_pkts map parts_of]; [reflexivity|].
  now rewrite IH.
Qed.

Lemma bodies_slice_pkts ch id m seq sent : bodies (slice_pkts ch id m seq sent) = [].
Proof.
  revert seq; induction sent as [|i t IH]; intros seq; cbn [slice_pkts]; [reflexivity|].
  unfold bodies in *. cbn [flat_map app]. apply IH.
Qed.

Lemma rot_neq num start k j :
  0 < num -> k < j -> j < num -> (start + j) mod num <> (start + k) mod num.
Proof. intros Hn Hk Hj E. apply rot_inj in E; lia. Qed.

Section SlicesLoop.
  Variables (ch id now resend : N) (m : list N) (start : N) (acked : list bool).
  Let num := num_slices_of m.
  Hypothesis Hm : SLICE_SIZE < len m.
  Hypothesis Hack : length acked = N.to_nat num.

  Lemma num_ge2 : 2 <= num.
  Proof. apply div_ceil_ge2; [exact SS_pos|exact Hm]. Qed.

  Definition emit (a : sacc) (sent : list N) : sacc :=
    {| a_pkts := a_pkts a ++ slice_pkts ch id m (a_seq a) sent;
       a_small := a_small a; a_small_bytes := a_small_bytes a;
       a_seq := a_seq a + len sent;
       a_avail := a_avail a - sum (map (plen m) sent) |}.

  Lemma emit_nil a : emit a [] = a.
  Proof.
    apply sacc_eq; cbn [emit a_pkts a_small a_small_bytes a_seq a_avail slice_pkts map]; auto.
    - now rewrite app_nil_r.
    - rewrite len_nil. lia.
    - rewrite sum_nil. lia.
  Qed.

  (* the facts the loop establishes about the slices it transmits, from position k on *)
  Definition sent_props (k : N) (ls ls' : list (option N)) (sent : list N) : Prop :=
    (forall i, In i sent -> exists j, k <= j < num /\ i = (start + j) mod num) /\
    NoDup sent /\
    (forall i, In i sent -> nth_opt acked (N.to_nat i) = Some false /\
                            exists l, nth_opt ls (N.to_nat i) = Some l /\ is_due now resend l) /\
    (forall i, In i sent -> nth_opt ls' (N.to_nat i) = Some (Some now)) /\
    (forall i, ~ In i sent -> nth_opt ls' (N.to_nat i) = nth_opt ls (N.to_nat i)).

  (* if the budget never ran below SLICE_SIZE, every unacknowledged due slice was transmitted *)
  Definition sent_complete (k : N) (ls : list (option N)) (sent : list N) : Prop :=
    forall j, k <= j < num ->
      nth_opt acked (N.to_nat ((start + j) mod num)) = Some false ->
      (forall l, nth_opt ls (N.to_nat ((start + j) mod num)) = Some l -> is_due now resend l) ->
      In ((start + j) mod num) sent.

  Lemma sent_props_nil k ls : sent_props k ls ls [].
  Proof.
    unfold sent_props.
    split; [intros i []|]. split; [constructor|]. split; [intros i []|]. split; [intros i []|].
    intros; reflexivity.
  Qed.

  Lemma sent_props_weaken k k' ls ls' sent :
    k <= k' -> sent_props k' ls ls' sent -> sent_props k ls ls' sent.
  Proof.
    intros Hk (P1 & P2). split; [|exact P2].
    intros x Hx. destruct (P1 x Hx) as (j & Hj & ->). exists j. split; [lia|auto].
  Qed.

  Lemma slices_loop_S f k ls next a :
    slices_loop (S f) k ch id now resend m num start acked ls next a =
      if a_avail a <? SLICE_SIZE then Ok (ls, next, a)
      else
        let i := (start + k) mod num in
        match nth_opt acked (N.to_nat i), nth_opt ls (N.to_nat i) with
        | Some ak, Some last =>
            if ak then slices_loop f (k + 1) ch id now resend m num start acked ls next a else
            do d <- due now resend last;
            if negb d then slices_loop f (k + 1) ch id now resend m num start acked ls next a else
            let s := i * SLICE_SIZE in
            let e := if i =? num - 1 then len m else (i + 1) * SLICE_SIZE in
            if (e <? s) || (len m <? e) then Panic SITE_SLICE_RANGE else
            let payload := takeN (e - s) (dropN s m) in
            do av <- sub_chk SITE_AVAIL_SUB (a_avail a) (len payload);
            let p := ReliableSlice (a_seq a) ch
                       {| sl_id := id; sl_index := i; sl_num := num; sl_payload := payload |} in
            let a' := {| a_pkts := a_pkts a ++ [p]; a_small := a_small a; a_small_bytes := a_small_bytes a;
                         a_seq := a_seq a + 1; a_avail := av |} in
            slices_loop f (k + 1) ch id now resend m num start acked
                        (upd ls (N.to_nat i) (Some now)) (i + 1 mod num) a'
        | _, _ => Panic SITE_ACKED_INDEX
        end.
  Proof. reflexivity. Qed.

  Lemma slices_loop_spec : forall fuel k ls next a,
    N.of_nat fuel + k = num ->
    length ls = N.to_nat num -> Forall (fun o => opt_le o now) ls ->
    exists ls' next' sent,
      slices_loop fuel k ch id now resend m num start acked ls next a = Ok (ls', next', emit a sent) /\
      sum (map (plen m) sent) <= a_avail a /\
      length ls' = N.to_nat num /\ Forall (fun o => opt_le o now) ls' /\
      sent_props k ls ls' sent /\
      (SLICE_SIZE <= a_avail (emit a sent) -> sent_complete k ls sent).
  Proof.
    pose proof num_ge2 as Hn2. pose proof SS_pos as Hss.
    induction fuel as [|f IH]; intros k ls next a Hk Hlen Hle.
    - exists ls, next, []. cbn [slices_loop]. rewrite emit_nil.
      split; [reflexivity|]. split; [cbn [map]; rewrite sum_nil; lia|].
      split; [exact Hlen|]. split; [exact Hle|]. split.
      + apply sent_props_nil.
      + intros _ j Hj. lia.
    - rewrite slices_loop_S.
      destruct (N.ltb_spec (a_avail a) SLICE_SIZE) as [Hlow|Hav].
      { exists ls, next, []. rewrite emit_nil.
        split; [reflexivity|]. split; [cbn [map]; rewrite sum_nil; lia|].
        split; [exact Hlen|]. split; [exact Hle|]. split.
        + apply sent_props_nil.
        + intros Hc. lia. }
      cbv zeta. set (i := (start + k) mod num).
      assert (Hi : i < num) by (apply N.mod_lt; lia).
      destruct (nth_opt_lt acked (N.to_nat i) ltac:(lia)) as (ak & Eak).
      destruct (nth_opt_lt ls (N.to_nat i) ltac:(lia)) as (last & Els).
      rewrite Eak, Els.
      pose proof (Forall_nth_opt _ _ _ _ Hle Els) as Hlast. cbv beta in Hlast.
      assert (Hk1 : N.of_nat f + (k + 1) = num) by lia.
      destruct ak.
      { (* already acknowledged *)
        destruct (IH (k + 1) ls next a Hk1 Hlen Hle) as (ls' & next' & sent & E & Hsum & Hl' & Hle' & Hp & Hc).
        exists ls', next', sent. split; [exact E|]. split; [exact Hsum|].
        split; [exact Hl'|]. split; [exact Hle'|].
        split.
        - apply (sent_props_weaken k (k + 1)); [lia|exact Hp].
        - intros Hge j Hj Hak Hdue. destruct (N.eq_dec j k) as [->|Hne].
          + fold i in Hak. congruence.
          + apply (Hc Hge j); auto. lia. }
      rewrite (due_ok _ _ _ Hlast). cbn [bind].
      destruct (due_b now resend last) eqn:Ed; cbn [negb].
      2:{ (* not due *)
        destruct (IH (k + 1) ls next a Hk1 Hlen Hle) as (ls' & next' & sent & E & Hsum & Hl' & Hle' & Hp & Hc).
        exists ls', next', sent. split; [exact E|]. split; [exact Hsum|].
        split; [exact Hl'|]. split; [exact Hle'|].
        split.
        - apply (sent_props_weaken k (k + 1)); [lia|exact Hp].
        - intros Hge j Hj Hak Hdue. destruct (N.eq_dec j k) as [->|Hne].
          + fold i in Hdue. specialize (Hdue _ Els). apply due_b_false in Ed. contradiction.
          + apply (Hc Hge j); auto. lia. }
      (* transmit slice i *)
      assert (H0 : 0 < len m) by lia.
      pose proof (slice_range_test m i H0 Hi) as Hrt. cbv zeta in Hrt. fold num in Hrt. rewrite Hrt.
      change (takeN ((if i =? num - 1 then len m else (i + 1) * SLICE_SIZE) - i * SLICE_SIZE)
                    (dropN (i * SLICE_SIZE) m)) with (slice_payload m i).
      fold (plen m i).
      pose proof (plen_bounds m i H0 Hi) as Hpl.
      rewrite sub_chk_ok by lia. cbn [bind].
      set (a1 := {| a_pkts := _; a_small := _; a_small_bytes := _; a_seq := _; a_avail := _ |}).
      set (ls1 := upd ls (N.to_nat i) (Some now)).
      assert (Hlen1 : length ls1 = N.to_nat num) by (unfold ls1; now rewrite upd_length).
      assert (Hle1 : Forall (fun o => opt_le o now) ls1).
      { unfold ls1. apply Forall_upd; auto. cbn. lia. }
      destruct (IH (k + 1) ls1 (i + 1 mod num) a1 Hk1 Hlen1 Hle1)
        as (ls' & next' & rest & E & Hsum & Hl' & Hle' & Hp & Hc).
      destruct Hp as (P1 & P2 & P3 & P4 & P5).
      assert (Hnotin : ~ In i rest).
      { intros Hin. destruct (P1 i Hin) as (j & Hj & Hij). unfold i in Hij.
        symmetry in Hij. apply rot_neq in Hij; auto; lia. }
      assert (Hother : forall x, In x rest -> x <> i) by (intros x Hx ->; contradiction).
      exists ls', next', (i :: rest).
      assert (Eemit : emit a1 rest = emit a (i :: rest)).
      { apply sacc_eq; cbn [emit a1 a_pkts a_small a_small_bytes a_seq a_avail slice_pkts map]; auto.
        - rewrite <- app_assoc. reflexivity.
        - rewrite len_cons. lia.
        - rewrite sum_cons. lia. }
      rewrite <- Eemit. split; [exact E|].
      cbn [a1 a_avail] in Hsum.
      split; [cbn [map]; rewrite sum_cons; lia|].
      split; [exact Hl'|]. split; [exact Hle'|]. split.
      + unfold sent_props. split; [|split; [|split; [|split]]].
        * intros x [<-|Hx]; [exists k; split; [lia|reflexivity]|].
          destruct (P1 x Hx) as (j & Hj & ->). exists j. split; [lia|auto].
        * constructor; auto.
        * intros x [<-|Hx].
          -- split; [exact Eak|]. exists last. split; [exact Els|]. now apply due_b_true.
          -- destruct (P3 x Hx) as (Q1 & l & Q2 & Q3). split; [exact Q1|]. exists l. split; [|exact Q3].
             unfold ls1 in Q2. rewrite nth_opt_upd_other in Q2; auto.
             specialize (Hother x Hx). lia.
        * intros x [<-|Hx]; [|auto].
          rewrite (P5 i Hnotin). unfold ls1. apply nth_opt_upd_same. lia.
        * intros x Hx. assert (x <> i /\ ~ In x rest) as [Hxi Hxr] by (split; [intros ->; apply Hx; now left|intros HH; apply Hx; now right]).
          rewrite (P5 x Hxr). unfold ls1. apply nth_opt_upd_other. lia.
      + intros Hge j Hj Hak Hdue. destruct (N.eq_dec j k) as [->|Hne]; [now left|].
        right. apply (Hc Hge j); auto; [lia|].
        intros l Hl. apply Hdue. unfold ls1 in Hl. rewrite nth_opt_upd_other in Hl; auto.
        assert ((start + j) mod num <> i) by (apply rot_neq; lia). lia.
  Qed.
End SlicesLoop.

Lemma rot_surj num start i : 0 < num -> i < num -> exists j, j < num /\ (start + j) mod num = i.
Proof.
  intros Hn Hi. exists ((i + num - start mod num) mod num).
  pose proof (N.mod_lt start num ltac:(lia)) as Hs.
  split; [apply N.mod_lt; lia|].
  rewrite N.add_mod_idemp_r by lia. rewrite <- N.add_mod_idemp_l by lia.
  replace (start mod num + (i + num - start mod num)) with (i + 1 * num) by lia.
  rewrite N.mod_add by lia. apply N.mod_small. exact Hi.
Qed.

Lemma NoDup_map_inj {A B} (f : A -> B) l :
  (forall x y, f x = f y -> x = y) -> NoDup l -> NoDup (map f l).
Proof.
  intros Hinj. induction 1 as [|x l Hx ND IH]; cbn [map]; constructor; auto.
  intros Hin. apply in_map_iff in Hin. destruct Hin as (y & E & Hy). apply Hinj in E. subst. contradiction.
Qed.

(* ================================================================== *)
(* one message of the outer loop *)
Section Visit.
  Variables (ch now resend : N) (st : stat) (fit : Prop) (seq0 avail0 : N).
  Notation acc_wf := (acc_wf ch st fit seq0 avail0).

  Definition sent_fact (u u' : unacked) (p : option N) : Prop :=
    exists l, part_last u p = Some l /\ is_due now resend l /\ part_acked u p = Some false /\
              part_last u' p = Some (Some now).

  Definition complete_for (u : unacked) (new1 : list (option N)) : Prop :=
    forall p l, part_last u p = Some l -> is_due now resend l -> part_acked u p = Some false -> In p new1.

  Lemma acc_wf_emit id m a sent :
    acc_wf a -> SLICE_SIZE < len m -> st id = Some (m, Some (num_slices_of m)) ->
    (forall i, In i sent -> i < num_slices_of m) ->
    sum (map (plen m) sent) <= a_avail a ->
    acc_wf (emit ch id m a sent).
  Proof.
    intros [W1 W2 W3 W4 W5 W6 W7 W8 W9] Hm Hst Hlt Hsum.
    constructor; cbn [emit a_pkts a_small a_small_bytes a_seq a_avail]; auto.
    - apply Forall_app. split; [exact W1|].
      clear Hsum. generalize (a_seq a). induction sent as [|i t IH]; intros sq; cbn [slice_pkts]; constructor.
      + cbn [pkt_ok]. split; [reflexivity|]. exists m, (num_slices_of m). cbn [slice_of sl_id sl_index].
        split; [exact Hst|]. split; [reflexivity|]. apply Hlt. now left.
      + apply IH. intros j Hj. apply Hlt. now right.
    - apply Forall_app. split; [exact W3|].
      generalize (a_seq a). clear. induction sent as [|i t IH]; intros sq; cbn [slice_pkts]; constructor; auto.
      exact I.
    - apply seqs_from_app. split; [exact W6|]. rewrite <- W7. apply seqs_slice_pkts.
    - rewrite len_app, len_slice_pkts. lia.
    - rewrite payload_total_app, payload_slice_pkts. lia.
    - unfold Fseq in *. cbn [emit a_pkts a_small]. rewrite bodies_app, bodies_slice_pkts, app_nil_r. exact W9.
  Qed.

  Definition visit_post (id : N) (u : unacked) (a : sacc) (r : cres (N * unacked * sacc)) : Prop :=
    exists u' a' new1,
      r = Ok (id, u', a') /\
      acc_wf a' /\ a_avail a' <= a_avail a /\ a_avail a <= a_avail a' + unacked_len u /\
      Permutation (acc_parts a') (acc_parts a ++ map (pair id) new1) /\ NoDup new1 /\
      unacked_wf now u' /\ same_static u u' /\
      (forall p, In p new1 -> sent_fact u u' p) /\
      (forall p, ~ In p new1 -> part_last u' p = part_last u p) /\
      (SLICE_SIZE <= a_avail a' -> complete_for u new1) /\
      (unacked_len u <= a_avail a ->
       forall l, part_last u None = Some l -> is_due now resend l -> In None new1).

  Lemma visit_spec id u a :
    unacked_wf now u -> st id = Some (static_of u) ->
    (fit -> forall m l, u = USmall m l -> rel_entry_size (id, m) <= SLICE_SIZE) ->
    acc_wf a ->
    visit_post id u a (visit ch now resend (id, u) a).
  Proof.
    intros Hwf Hst Hfit Ha. pose proof SS_pos as Hss.
    assert (Hskip : forall (Hno : SLICE_SIZE <= a_avail a -> complete_for u [])
                           (Hno2 : unacked_len u <= a_avail a ->
                                   forall l, part_last u None = Some l -> is_due now resend l -> False),
              visit_post id u a (Ok (id, u, a))).
    { intros Hno Hno2. exists u, a, []. split; [reflexivity|]. split; [exact Ha|].
      split; [lia|]. split; [lia|]. split; [cbn [map]; rewrite app_nil_r; apply Permutation_refl|].
      split; [constructor|]. split; [exact Hwf|].
      split; [destruct u; cbn; auto|]. split; [intros p []|]. split; [reflexivity|].
      split; [exact Hno|]. intros H1 l H2 H3. exfalso. eauto. }
    destruct u as [m last|m num na nx ak ls].
    - (* small message *)
      destruct Hwf as [Hlen Hlast]. cbn [visit].
      destruct (N.ltb_spec (a_avail a) (len m)) as [Hlow|Hav].
      { apply Hskip; [intros Hge; lia|cbn [unacked_len]; intros; lia]. }
      rewrite (due_ok _ _ _ Hlast). cbn [bind].
      destruct (due_b now resend last) eqn:Ed; cbn [negb].
      2:{ apply due_b_false in Ed. apply Hskip.
          - intros _ p l Hp Hd _. destruct p; cbn in Hp; [discriminate|].
            inversion Hp; subst. contradiction.
          - intros _ l Hp Hd. cbn in Hp. inversion Hp; subst. contradiction. }
      apply due_b_true in Ed.
      rewrite sub_chk_ok by exact Hav. cbn [bind].
      set (ssize := len m + varint_len (len m) + varint_len id).
      assert (Ess : rel_entry_size (id, m) = ssize) by reflexivity.
      cbn [static_of] in Hst.
      eexists (USmall m (Some now)), _, [None]. split; [reflexivity|].
      destruct Ha as [W1 W2 W3 W4 W5 W6 W7 W8 [W9 W10]].
      split.
      { (* the accumulator stays well formed *)
        destruct (N.ltb_spec SLICE_SIZE (a_small_bytes a + ssize)) as [Hflush|Hfits];
          constructor; cbn [a_pkts a_small a_small_bytes a_seq a_avail app].
        - apply Forall_app. split; [exact W1|]. constructor; [|constructor]. split; [reflexivity|exact W2].
        - constructor; [exact Hst|constructor].
        - apply Forall_app. split; [exact W3|]. constructor; [|constructor]. split; [exact W5|].
          intros Hf E. specialize (Hfit Hf m last eq_refl). rewrite Ess in Hfit.
          rewrite W4, E in Hflush. cbn [map] in Hflush. rewrite sum_nil in Hflush. lia.
        - cbn [map]. rewrite sum_one, Ess. lia.
        - right. now exists (id, m).
        - apply seqs_from_app. split; [exact W6|]. cbn [seqs_from packet_seq]. split; [exact W7|exact I].
        - rewrite len_app, len_one. lia.
        - rewrite payload_total_app. unfold payload_total at 2. cbn [map payload_bytes].
          rewrite sum_one. fold (msgs_bytes (a_small a)). unfold msgs_bytes at 2. cbn [map snd].
          rewrite sum_one. lia.
        - split; [|discriminate]. unfold Fseq in *. cbn [a_pkts a_small].
          rewrite bodies_app. cbn [bodies flat_map app].
          destruct (a_small a) as [|x xs] eqn:Esm.
          + rewrite (W10 eq_refl). cbn [app shape]. split; [|constructor].
            unfold oversize. rewrite Ess. rewrite W4 in Hflush. cbn [map] in Hflush.
            rewrite sum_nil in Hflush. lia.
          + rewrite <- app_assoc. cbn [app]. change (bodies (a_pkts a) ++ [x :: xs; [(id, m)]])
              with (bodies (a_pkts a) ++ [x :: xs] ++ [[(id, m)]]). rewrite app_assoc.
            apply shape_snoc; [exact W9| |discriminate].
            intros E. apply app_eq_nil in E. destruct E; discriminate.
        - exact W1.
        - apply Forall_app. split; [exact W2|]. constructor; [exact Hst|constructor].
        - exact W3.
        - rewrite map_app, sum_app. cbn [map]. rewrite sum_one, Ess. lia.
        - left. rewrite map_app, sum_app. cbn [map]. rewrite sum_one, Ess. lia.
        - exact W6.
        - exact W7.
        - rewrite msgs_bytes_app. unfold msgs_bytes at 2. cbn [map snd]. rewrite sum_one. lia.
        - unfold Fseq in *. cbn [a_pkts a_small].
          destruct (a_small a) as [|x xs] eqn:Esm; cbn [app].
          + split; [|discriminate]. rewrite (W10 eq_refl). cbn [app shape]. split; [|constructor].
            unfold oversize. rewrite Ess. rewrite W4 in Hfits. cbn [map] in Hfits.
            rewrite sum_nil in Hfits. lia.
          + split; [|discriminate]. apply shape_extend_last. exact W9. }
      split; [destruct (SLICE_SIZE <? a_small_bytes a + ssize); cbn [a_avail]; lia|].
      split; [destruct (SLICE_SIZE <? a_small_bytes a + ssize); cbn [a_avail unacked_len]; lia|].
      split.
      { assert (E : forall x y : list part, x = y -> Permutation x y) by (intros; subst; apply Permutation_refl).
        apply E. unfold acc_parts, small_parts.
        destruct (SLICE_SIZE <? a_small_bytes a + ssize); cbn [a_pkts a_small app map].
        - rewrite parts_of_app. cbn [parts_of]. rewrite app_nil_r. cbn [fst]. now rewrite <- !app_assoc.
        - rewrite map_app. cbn [map fst]. now rewrite <- !app_assoc. }
      split; [constructor; [intros []|constructor]|].
      split; [split; [exact Hlen|cbn; lia]|].
      split; [reflexivity|].
      split.
      { intros p [<-|[]]. exists last. cbn [part_last part_acked]. auto. }
      split.
      { intros [i|] Hp; [reflexivity|]. exfalso. apply Hp. now left. }
      split; [intros _ p l Hp _ _; destruct p; cbn in Hp; [discriminate|now left]|].
      intros _ l _ _. now left.
    - (* sliced message *)
      destruct Hwf as (Hm & -> & Hack & Hls & Hna & Hlt & Hle).
      cbn [visit static_of] in *.
      destruct (slices_loop_spec ch id now resend m nx ak Hm Hack (N.to_nat (num_slices_of m)) 0 ls nx a
                  ltac:(lia) Hls Hle) as (ls' & next' & sent & E & Hsum & Hl' & Hle' & Hp & Hc).
      rewrite E. cbn [bind].
      destruct Hp as (P1 & P2 & P3 & P4 & P5).
      pose proof (num_ge2 m Hm) as Hn2.
      assert (Hin : forall i, In i sent -> i < num_slices_of m).
      { intros i Hi. destruct (P1 i Hi) as (j & _ & ->). apply N.mod_lt. lia. }
      exists (USliced m (num_slices_of m) na next' ak ls'), (emit ch id m a sent), (map Some sent).
      split; [reflexivity|].
      split; [apply acc_wf_emit; auto|].
      split; [cbn [emit a_avail]; lia|].
      split.
      { cbn [emit a_avail unacked_len].
        pose proof (sum_plen_sent m sent ltac:(lia) P2 Hin). lia. }
      split.
      { unfold acc_parts. cbn [emit a_pkts a_small]. rewrite parts_of_app, parts_slice_pkts, map_map.
        rewrite <- !app_assoc. apply Permutation_app_head. apply Permutation_app_comm. }
      split; [apply NoDup_map_inj; auto; intros x y H; now inversion H|].
      split; [cbn; repeat split; auto|].
      split; [cbn; auto|].
      split.
      { intros p Hp. apply in_map_iff in Hp. destruct Hp as (i & <- & Hi).
        destruct (P3 i Hi) as (Q1 & l & Q2 & Q3). exists l. cbn [part_last part_acked]. auto. }
      split.
      { intros [i|] Hp; [|reflexivity]. cbn [part_last]. apply P5. intros Hi. apply Hp. now apply in_map. }
      split; [|intros _ l Hl; cbn in Hl; discriminate].
      intros Hge [i|] l Hl Hd Hk; cbn [part_last part_acked] in *; [|discriminate].
      apply in_map. assert (Hi : i < num_slices_of m) by (apply nth_opt_some_lt in Hl; lia).
      destruct (rot_surj (num_slices_of m) nx i ltac:(lia) Hi) as (j & Hj & <-).
      apply (Hc Hge j); auto; [lia|]. intros l2 Hl2. congruence.
  Qed.
End Visit.

Lemma NoDup_app_intro {A} (l1 l2 : list A) :
  NoDup l1 -> NoDup l2 -> (forall x, In x l1 -> ~ In x l2) -> NoDup (l1 ++ l2).
Proof.
  induction 1 as [|x l1 Hx ND IH]; intros ND2 Hd; cbn [app]; auto.
  constructor.
  - intros Hin. apply in_app_or in Hin. destruct Hin as [?|Hin]; [contradiction|].
    apply (Hd x); [now left|exact Hin].
  - apply IH; auto. intros y Hy. apply Hd. now right.
Qed.

Lemma Forall2_impl_in {A B} (R R' : A -> B -> Prop) l l' :
  (forall x y, In x l -> R x y -> R' x y) -> Forall2 R l l' -> Forall2 R' l l'.
Proof.
  intros H F. induction F as [|x y l l' Hxy F IH]; constructor.
  - apply H; [now left|exact Hxy].
  - apply IH. intros x' y' Hin. apply H. now right.
Qed.

(* ================================================================== *)
(* the outer loop *)
Section VisitAll.
  Variables (ch now resend : N) (st : stat) (fit : Prop) (seq0 avail0 : N).
  Notation acc_wf := (acc_wf ch st fit seq0 avail0).

  (* relation between an entry before and after the tick; [new] = all parts transmitted *)
  Definition vrel (new : list part) (af : N) (full : Prop) (x y : N * unacked) : Prop :=
    fst y = fst x /\ unacked_wf now (snd y) /\ same_static (snd x) (snd y) /\
    (forall p, In (fst x, p) new -> sent_fact now resend (snd x) (snd y) p) /\
    (forall p, ~ In (fst x, p) new -> part_last (snd y) p = part_last (snd x) p) /\
    (SLICE_SIZE <= af -> forall p l, part_last (snd x) p = Some l -> is_due now resend l ->
                                     part_acked (snd x) p = Some false -> In (fst x, p) new) /\
    (full -> forall l, part_last (snd x) None = Some l -> is_due now resend l -> In (fst x, None) new).

  Lemma vrel_ext new new' af (full full' : Prop) x y :
    (forall p, In (fst x, p) new <-> In (fst x, p) new') -> (full' -> full) ->
    vrel new af full x y -> vrel new' af full' x y.
  Proof.
    intros H Hf (V1 & V2 & V3 & V4 & V5 & V6 & V7).
    split; [exact V1|]. split; [exact V2|]. split; [exact V3|].
    split; [intros p Hp; apply V4, H, Hp|].
    split; [intros p Hp; apply V5; intros Hq; apply Hp, H, Hq|].
    split; [intros Hge p l H1 H2 H3; apply H; eapply V6; eauto|].
    intros Hfull l H1 H2. apply H. eapply V7; eauto.
  Qed.

  Definition elem_pre (x : N * unacked) : Prop :=
    unacked_wf now (snd x) /\ st (fst x) = Some (static_of (snd x)) /\
    (fit -> forall m l, snd x = USmall m l -> rel_entry_size (fst x, m) <= SLICE_SIZE).

  Definition mem_of (t : list (N * unacked)) : N := sum (map (fun iu => unacked_len (snd iu)) t).

  Lemma visit_all_spec : forall t lo a,
    keys_ascending lo (map fst t) -> Forall elem_pre t -> acc_wf a ->
    exists t' a' new,
      visit_all ch now resend t a = Ok (t', a') /\ acc_wf a' /\
      a_avail a' <= a_avail a /\ a_avail a <= a_avail a' + mem_of t /\
      Permutation (acc_parts a') (acc_parts a ++ new) /\ NoDup new /\
      (forall id p, In (id, p) new -> In id (map fst t)) /\
      Forall2 (vrel new (a_avail a') (mem_of t <= a_avail a)) t t'.
  Proof.
    induction t as [|[id u] t IH]; intros lo a Hk Hpre Ha.
    - exists [], a, []. cbn [visit_all]. split; [reflexivity|]. split; [exact Ha|].
      split; [lia|]. split; [lia|]. split; [rewrite app_nil_r; apply Permutation_refl|].
      split; [constructor|]. split; [intros id p []|constructor].
    - inversion Hpre as [|x l' (Hwf & Hst & Hfit) Hpre']; subst. cbn [fst snd] in *.
      cbn [map fst keys_ascending] in Hk. destruct Hk as [Hlo Hk].
      destruct (visit_spec ch now resend st fit seq0 avail0 id u a Hwf Hst Hfit Ha)
        as (u' & a1 & new1 & E1 & Ha1 & Hle1 & Hge1 & Hperm1 & Hnd1 & Hwf' & Hss & Hsent & Hkeep & Hcomp & Hfull).
      destruct (IH (id + 1) a1 Hk Hpre' Ha1)
        as (t' & a2 & new2 & E2 & Ha2 & Hle2 & Hge2 & Hperm2 & Hnd2 & Hids & HF).
      cbn [visit_all]. rewrite E1. cbn [bind]. rewrite E2. cbn [bind].
      exists ((id, u') :: t'), a2, (map (pair id) new1 ++ new2).
      assert (Hfresh : forall x, In x t -> fst x <> id).
      { intros x Hx E. apply keys_asc_lb in Hk. rewrite Forall_forall in Hk.
        specialize (Hk (fst x) (in_map fst _ _ Hx)). lia. }
      assert (Hno2 : forall p, ~ In (id, p) new2).
      { intros p Hp. apply Hids in Hp. apply in_map_iff in Hp. destruct Hp as (x & Ex & Hx).
        exact (Hfresh x Hx Ex). }
      assert (Hhead : forall p, In (id, p) (map (pair id) new1 ++ new2) <-> In p new1).
      { intros p. rewrite in_app_iff, in_map_iff. split.
        - intros [(q & Eq & Hq)|Hp]; [inversion Eq; subst; exact Hq|]. exfalso. exact (Hno2 p Hp).
        - intros Hp. left. now exists p. }
      split; [reflexivity|]. split; [exact Ha2|]. split; [lia|].
      split; [unfold mem_of in *; cbn [map snd]; rewrite sum_cons; lia|].
      split.
      { rewrite app_assoc. eapply perm_trans; [exact Hperm2|]. apply Permutation_app_tail. exact Hperm1. }
      split.
      { apply NoDup_app_intro; auto.
        - apply NoDup_map_inj; auto. intros x y H. now inversion H.
        - intros x Hx Hx2. apply in_map_iff in Hx. destruct Hx as (p & <- & _). exact (Hno2 p Hx2). }
      split.
      { intros id' p Hp. apply in_app_or in Hp. cbn [map fst]. destruct Hp as [Hp|Hp].
        - apply in_map_iff in Hp. destruct Hp as (q & Eq & _). inversion Eq. now left.
        - right. eapply Hids. exact Hp. }
      constructor.
      + unfold vrel. cbn [fst snd].
        split; [reflexivity|]. split; [exact Hwf'|]. split; [exact Hss|].
        split; [intros p Hp; apply Hsent, Hhead, Hp|].
        split; [intros p Hp; apply Hkeep; intros Hq; apply Hp, Hhead, Hq|].
        split; [intros Hge p l H1 H2 H3; apply Hhead; apply (Hcomp ltac:(lia) p l); auto|].
        unfold mem_of. cbn [map snd]. rewrite sum_cons.
        intros Hm l H1 H2. apply Hhead. apply (Hfull ltac:(lia) l); auto.
      + eapply Forall2_impl_in; [|exact HF]. intros x y Hx Hv.
        eapply vrel_ext; [| |exact Hv].
        2:{ unfold mem_of. cbn [map snd]. rewrite sum_cons. fold (mem_of t). lia. }
        intros p. rewrite in_app_iff, in_map_iff. split; [auto|].
        intros [(q & Eq & _)|Hp]; [|exact Hp]. inversion Eq. exfalso. apply (Hfresh x Hx). congruence.
  Qed.
End VisitAll.

(* ================================================================== *)
(* get_packets_to_send as a whole *)

Lemma Forall2_fst {A} (R : N * A -> N * A -> Prop) t t' :
  (forall x y, R x y -> fst y = fst x) -> Forall2 R t t' -> map fst t' = map fst t.
Proof.
  intros H F. induction F as [|x y l l' Hxy F IH]; cbn [map]; [reflexivity|].
  now rewrite IH, (H _ _ Hxy).
Qed.

Lemma Forall2_sm_find {A} (R : N * A -> N * A -> Prop) t t' :
  (forall x y, R x y -> fst y = fst x) -> Forall2 R t t' ->
  forall id, match sm_find id t with
             | None => sm_find id t' = None
             | Some u => exists u', sm_find id t' = Some u' /\ R (id, u) (id, u')
             end.
Proof.
  intros H F id. induction F as [|[k v] [k' v'] l l' Hxy F IH]; cbn [sm_find]; [reflexivity|].
  pose proof (H _ _ Hxy) as E. cbn [fst] in E. subst k'.
  destruct (N.eqb_spec id k) as [->|Hne]; [|exact IH].
  exists v'. split; [reflexivity|exact Hxy].
Qed.

(* every pending small message fits a SmallReliable body on its own *)
Definition fit_all (us : list (N * unacked)) : Prop :=
  forall id m l, sm_find id us = Some (USmall m l) -> rel_entry_size (id, m) <= SLICE_SIZE.

Record tick_facts (now : N) (s s' : send_rel) (seq avail : N) (pkts : list packet) (avail' : N)
       (new : list part) : Prop := {
  tf_ch : sr_ch s' = sr_ch s;
  tf_next : sr_next_id s' = sr_next_id s;
  tf_resend : sr_resend s' = sr_resend s;
  tf_max : sr_max s' = sr_max s;
  tf_mem : sr_mem s' = sr_mem s;
  tf_rel : Forall2 (vrel now (sr_resend s) new avail' (sr_mem s <= avail)) (sr_unacked s) (sr_unacked s');
  tf_pkts : Forall (pkt_ok (sr_ch s) (st_of (sr_unacked s))) pkts;
  tf_sizes : Forall (pkt_size_ok (fit_all (sr_unacked s))) pkts;
  tf_seqs : seqs_from seq pkts;
  tf_avail : avail' + payload_total pkts = avail;
  tf_bound : avail <= avail' + sr_mem s;
  tf_perm : Permutation (parts_of pkts) new;
  tf_nodup : NoDup new;
  tf_ids : forall id p, In (id, p) new -> In id (map fst (sr_unacked s));
  tf_shape : shape (bodies pkts) }.

Lemma sr_get_packets_master now s seq avail :
  sr_inv now s ->
  exists s' pkts avail' new,
    sr_get_packets s seq avail now = Ok (s', pkts, seq + len pkts, avail') /\
    tick_facts now s s' seq avail pkts avail' new.
Proof.
  intros (H1 & H2 & H3 & H4). unfold sr_get_packets.
  destruct (sr_unacked s) as [|x0 us0] eqn:Eus.
  { exists s, [], avail, []. split; [rewrite len_nil, N.add_0_r; reflexivity|].
    constructor; auto; try rewrite Eus; try constructor.
    - unfold payload_total. cbn [map]. rewrite sum_nil. lia.
    - lia.
    - intros id p []. }
  rewrite <- Eus in *. clear Eus x0 us0.
  set (us := sr_unacked s) in *.
  set (a0 := {| a_pkts := []; a_small := []; a_small_bytes := 0; a_seq := seq; a_avail := avail |}).
  assert (Ha0 : acc_wf (sr_ch s) (st_of us) (fit_all us) seq avail a0).
  { constructor; cbn [a0 a_pkts a_small a_small_bytes a_seq a_avail]; auto; try constructor.
    - cbn [map]. rewrite sum_nil. pose proof SS_pos. lia.
    - rewrite len_nil. lia.
    - unfold payload_total, msgs_bytes. cbn [map]. rewrite sum_nil. lia.
    - exact I.
    - reflexivity. }
  assert (Hpre : Forall (elem_pre now (st_of us) (fit_all us)) us).
  { rewrite Forall_forall. intros [id u] Hx. rewrite Forall_forall in H2.
    destruct (H2 _ Hx) as [_ Hwf]. cbn [fst snd] in *.
    pose proof (sm_find_in _ _ _ _ H1 Hx) as Ef.
    split; [exact Hwf|]. cbn [fst snd]. split; [unfold st_of; now rewrite Ef|].
    intros Hfit m l ->. eapply Hfit. exact Ef. }
  destruct (visit_all_spec (sr_ch s) now (sr_resend s) (st_of us) (fit_all us) seq avail us 0 a0 H1 Hpre Ha0)
    as (us' & a & new & E & Ha & Hle & Hge & Hperm & Hnd & Hids & HF).
  rewrite E. cbn [bind].
  destruct Ha as [W1 W2 W3 W4 W5 W6 W7 W8 [W9 W10]].
  cbn [a0 a_avail] in Hle, Hge. change (acc_parts a0) with (@nil part) in Hperm. cbn [app] in Hperm.
  fold (mem_of us) in H3. rewrite <- H3 in Hge.
  change (a_avail a0) with avail in HF. rewrite <- H3 in HF.
  destruct (a_small a) as [|im sm] eqn:Esm.
  - eexists _, (a_pkts a), (a_avail a), new. rewrite W7. split; [reflexivity|].
    constructor; cbn [sr_ch sr_unacked sr_next_id sr_resend sr_max sr_mem]; auto.
    + unfold msgs_bytes in W8. cbn [map] in W8. rewrite sum_nil in W8. lia.
    + unfold acc_parts in Hperm. rewrite Esm in Hperm. cbn [small_parts map] in Hperm.
      now rewrite app_nil_r in Hperm.
    + unfold Fseq in W9. rewrite Esm, app_nil_r in W9. exact W9.
  - eexists _, (a_pkts a ++ [SmallReliable (a_seq a) (sr_ch s) (im :: sm)]), (a_avail a), new.
    split; [rewrite len_app, len_one, W7, N.add_assoc; reflexivity|].
    constructor; cbn [sr_ch sr_unacked sr_next_id sr_resend sr_max sr_mem]; auto.
    + apply Forall_app. split; [exact W1|]. constructor; [|constructor]. split; [reflexivity|exact W2].
    + apply Forall_app. split; [exact W3|]. constructor; [|constructor]. split; [exact W5|].
      intros _. discriminate.
    + apply seqs_from_app. split; [exact W6|]. cbn [seqs_from packet_seq]. split; [exact W7|exact I].
    + rewrite payload_total_app, payload_total_small_one. lia.
    + unfold acc_parts in Hperm. rewrite Esm in Hperm.
      rewrite parts_of_app. cbn [parts_of]. rewrite app_nil_r. exact Hperm.
    + unfold Fseq in W9. rewrite Esm in W9. rewrite bodies_app. exact W9.
Qed.

(* ---------- consequences of [tick_facts] ---------- *)
Lemma Forall2_Forall_r {A B} (R : A -> B -> Prop) (P : A -> Prop) (Q : B -> Prop) l l' :
  (forall x y, P x -> R x y -> Q y) -> Forall2 R l l' -> Forall P l -> Forall Q l'.
Proof.
  intros H F. induction F as [|x y l l' Hxy F IH]; intros HP; constructor; inversion HP; subst; eauto.
Qed.

Lemma Forall2_sum_eq {A B} (R : A -> B -> Prop) (f : A -> N) (g : B -> N) l l' :
  (forall x y, R x y -> g y = f x) -> Forall2 R l l' -> sum (map g l') = sum (map f l).
Proof.
  intros H F. induction F as [|x y l l' Hxy F IH]; cbn [map]; [reflexivity|].
  now rewrite !sum_cons, IH, (H _ _ Hxy).
Qed.

Lemma vrel_fst now resend new af full x y : vrel now resend new af full x y -> fst y = fst x.
Proof. intros (V1 & _). exact V1. Qed.

(* transmission state of part p of message id *)
Definition plast (s : send_rel) (id : N) (p : option N) : option (option N) :=
  match sm_find id (sr_unacked s) with Some u => part_last u p | None => None end.
Definition packed (s : send_rel) (id : N) (p : option N) : option bool :=
  match sm_find id (sr_unacked s) with Some u => part_acked u p | None => None end.

Lemma small_last_plast s id : small_last s id = plast s id None.
Proof. unfold small_last, plast. destruct (sm_find id (sr_unacked s)) as [[]|]; reflexivity. Qed.

Lemma slice_last_plast s id idx : slice_last s id idx = plast s id (Some idx).
Proof. unfold slice_last, plast. destruct (sm_find id (sr_unacked s)) as [[]|]; reflexivity. Qed.

Lemma slice_acked_packed s id idx : slice_acked s id idx = packed s id (Some idx).
Proof. unfold slice_acked, packed. destruct (sm_find id (sr_unacked s)) as [[]|]; reflexivity. Qed.

Section TickFacts.
  Variables (now : N) (s s' : send_rel) (seq avail : N) (pkts : list packet) (avail' : N) (new : list part).
  Hypothesis Hinv : sr_inv now s.
  Hypothesis T : tick_facts now s s' seq avail pkts avail' new.

  Lemma tick_find id :
    match sm_find id (sr_unacked s) with
    | None => sm_find id (sr_unacked s') = None
    | Some u => exists u', sm_find id (sr_unacked s') = Some u' /\
                           vrel now (sr_resend s) new avail' (sr_mem s <= avail) (id, u) (id, u')
    end.
  Proof.
    apply (Forall2_sm_find (vrel now (sr_resend s) new avail' (sr_mem s <= avail))).
    - intros x y. apply vrel_fst.
    - exact (tf_rel _ _ _ _ _ _ _ _ T).
  Qed.

  Lemma tick_inv : sr_inv now s'.
  Proof.
    destruct Hinv as (H1 & H2 & H3 & H4). destruct T.
    unfold sr_inv. rewrite tf_next0, tf_max0, tf_mem0.
    split; [|split; [|split]]; auto.
    - erewrite Forall2_fst; [exact H1| |exact tf_rel0]. intros x y. apply vrel_fst.
    - eapply Forall2_Forall_r; [|exact tf_rel0|exact H2].
      intros x y [Hx _] (V1 & V2 & _). cbv beta. rewrite V1. split; auto.
    - rewrite H3. symmetry. eapply Forall2_sum_eq; [|exact tf_rel0].
      intros x y (_ & _ & V3 & _). cbv beta. now apply same_static_len.
  Qed.

  Lemma tick_st id : st_of (sr_unacked s') id = st_of (sr_unacked s) id.
  Proof.
    unfold st_of. pose proof (tick_find id) as H.
    destruct (sm_find id (sr_unacked s)) as [u|].
    - destruct H as (u' & -> & (_ & _ & V3 & _)). cbn [snd] in V3. now rewrite (same_static_of _ _ V3).
    - now rewrite H.
  Qed.

  Lemma tick_kind id : kind_of s' id = kind_of s id.
  Proof.
    pose proof (tick_st id) as H. unfold st_of in H. unfold kind_of.
    destruct (sm_find id (sr_unacked s')) as [[]|], (sm_find id (sr_unacked s)) as [[]|];
      cbn [static_of] in H; congruence.
  Qed.

  Lemma tick_packed id p : packed s' id p = packed s id p.
  Proof.
    unfold packed. pose proof (tick_find id) as H.
    destruct (sm_find id (sr_unacked s)) as [u|]; [|now rewrite H].
    destruct H as (u' & -> & (_ & _ & V3 & _)). cbn [snd] in V3.
    destruct u, u'; cbn [same_static] in V3; try contradiction; [reflexivity|].
    destruct V3 as (_ & _ & _ & ->). reflexivity.
  Qed.

  Lemma tick_in_new id p : In (id, p) (parts_of pkts) <-> In (id, p) new.
  Proof.
    pose proof (tf_perm _ _ _ _ _ _ _ _ T) as HP. split; intros H.
    - eapply Permutation_in; eauto.
    - eapply Permutation_in; [apply Permutation_sym|]; eauto.
  Qed.

  (* D5a / D5b for transmitted parts *)
  Lemma tick_sent id p :
    In (id, p) (parts_of pkts) ->
    exists l, plast s id p = Some l /\ is_due now (sr_resend s) l /\ packed s id p = Some false /\
              plast s' id p = Some (Some now).
  Proof.
    intros Hin. apply tick_in_new in Hin.
    pose proof (tf_ids _ _ _ _ _ _ _ _ T _ _ Hin) as Hid.
    pose proof (tick_find id) as H. unfold plast, packed.
    destruct (sm_find id (sr_unacked s)) as [u|] eqn:E.
    - destruct H as (u' & -> & (_ & _ & _ & V4 & _)). cbn [fst snd] in V4.
      destruct (V4 p Hin) as (l & Q1 & Q2 & Q3 & Q4). exists l. auto.
    - exfalso. apply sm_find_none_notin in E. contradiction.
  Qed.

  (* D5b for the parts that were not transmitted *)
  Lemma tick_not_sent id p : ~ In (id, p) (parts_of pkts) -> plast s' id p = plast s id p.
  Proof.
    intros Hin. rewrite tick_in_new in Hin.
    pose proof (tick_find id) as H. unfold plast.
    destruct (sm_find id (sr_unacked s)) as [u|] eqn:E; [|now rewrite H].
    destruct H as (u' & -> & (_ & _ & _ & _ & V5 & _)). cbn [fst snd] in V5. auto.
  Qed.

  (* D5c *)
  Lemma tick_prompt id p l :
    SLICE_SIZE <= avail' ->
    plast s id p = Some l -> is_due now (sr_resend s) l -> packed s id p = Some false ->
    In (id, p) (parts_of pkts).
  Proof.
    intros Hge Hl Hd Hk. apply tick_in_new.
    pose proof (tick_find id) as H. unfold plast, packed in *.
    destruct (sm_find id (sr_unacked s)) as [u|] eqn:E; [|discriminate].
    destruct H as (u' & _ & (_ & _ & _ & _ & _ & V6 & _)). cbn [fst snd] in V6. eauto.
  Qed.

  (* D5c for small messages: enough that the budget covers everything pending *)
  Lemma tick_prompt_small id l :
    sr_mem s <= avail ->
    plast s id None = Some l -> is_due now (sr_resend s) l -> In (id, None) (parts_of pkts).
  Proof.
    intros Hge Hl Hd. apply tick_in_new.
    pose proof (tick_find id) as H. unfold plast in *.
    destruct (sm_find id (sr_unacked s)) as [u|] eqn:E; [|discriminate].
    destruct H as (u' & _ & (_ & _ & _ & _ & _ & _ & V7)). cbn [fst snd] in V7. eauto.
  Qed.

  Lemma tick_nodup : NoDup (parts_of pkts).
  Proof.
    eapply Permutation_NoDup; [apply Permutation_sym; exact (tf_perm _ _ _ _ _ _ _ _ T)|].
    exact (tf_nodup _ _ _ _ _ _ _ _ T).
  Qed.
End TickFacts.

Lemma pkt_ok_rel ch s' p : pkt_ok ch (st_of (sr_unacked s')) p -> rel_packet_ok ch s' p.
Proof.
  destruct p as [sq c ms|sq c ms|sq c sl|sq c sl|sq r]; cbn [pkt_ok rel_packet_ok]; auto.
  - intros [-> H]. split; [reflexivity|]. eapply Forall_impl; [|exact H].
    intros [id m] He. unfold entry_ok, st_of in He. cbn [fst snd] in *.
    destruct (sm_find id (sr_unacked s')) as [[m' l|]|]; cbn [static_of] in He; try discriminate.
    inversion He; subst. split; [discriminate|]. now exists l.
  - intros [-> (m & num & He & Hsl & Hlt)]. split; [reflexivity|].
    unfold st_of in He.
    destruct (sm_find (sl_id sl) (sr_unacked s')) as [[|m' num' na nx ak ls]|]; cbn [static_of] in He;
      try discriminate.
    inversion He; subst. exists m, num, na, nx, ak, ls. auto.
Qed.

Lemma pkt_ok_ext ch st st' p : (forall id, st' id = st id) -> pkt_ok ch st p -> pkt_ok ch st' p.
Proof.
  intros H. destruct p as [sq c ms|sq c ms|sq c sl|sq c sl|sq r]; cbn [pkt_ok]; auto.
  - intros [-> HF]. split; [reflexivity|]. eapply Forall_impl; [|exact HF].
    intros im. unfold entry_ok. now rewrite H.
  - intros [-> (m & num & He & Hsl)]. split; [reflexivity|]. exists m, num. now rewrite H.
Qed.

(* ================================================================== *)
(* D3 *)
Theorem sr_get_packets_safe : forall now s seq avail, sr_inv now s ->
  exists s' pkts avail',
    sr_get_packets s seq avail now = Ok (s', pkts, seq + len pkts, avail') /\
    sr_inv now s' /\ sr_mem s' = sr_mem s /\ sr_next_id s' = sr_next_id s /\
    (forall id, kind_of s' id = kind_of s id) /\
    avail' + payload_total pkts = avail /\ seqs_from seq pkts /\
    Forall (rel_packet_ok (sr_ch s) s') pkts.
Proof.
  intros now s seq avail Hinv.
  destruct (sr_get_packets_master now s seq avail Hinv) as (s' & pkts & avail' & new & E & T).
  exists s', pkts, avail'. split; [exact E|].
  split; [eapply tick_inv; eauto|].
  split; [exact (tf_mem _ _ _ _ _ _ _ _ T)|].
  split; [exact (tf_next _ _ _ _ _ _ _ _ T)|].
  split; [intros id; eapply tick_kind; eauto|].
  split; [exact (tf_avail _ _ _ _ _ _ _ _ T)|].
  split; [exact (tf_seqs _ _ _ _ _ _ _ _ T)|].
  eapply Forall_impl; [|exact (tf_pkts _ _ _ _ _ _ _ _ T)].
  intros p Hp. apply pkt_ok_rel. eapply pkt_ok_ext; [|exact Hp].
  intros id. eapply tick_st; eauto.
Qed.

(* the same facts for any successful run (there is no other kind) *)
Lemma sr_get_packets_facts now s seq avail s' pkts seq' avail' :
  sr_inv now s -> sr_get_packets s seq avail now = Ok (s', pkts, seq', avail') ->
  exists new, tick_facts now s s' seq avail pkts avail' new.
Proof.
  intros Hinv E.
  destruct (sr_get_packets_master now s seq avail Hinv) as (s1 & pkts1 & avail1 & new & E1 & T).
  rewrite E in E1. inversion E1; subst. now exists new.
Qed.

(* ================================================================== *)
(* D4: sizes (C13) *)

Definition rel_size_ok (s' : send_rel) (p : packet) : Prop :=
  match p with
  | SmallReliable _ _ ms =>
      (sum (map rel_entry_size ms) <= SLICE_SIZE \/ exists im, ms = [im]) /\
      sum (map rel_entry_size ms) <= SLICE_SIZE + 16 /\
      len ms < 65536 /\
      Forall (fun im => len (snd im) <= SLICE_SIZE) ms
  | ReliableSlice _ _ sl =>
      1 <= len (sl_payload sl) <= SLICE_SIZE /\ sl_index sl < sl_num sl /\
      exists m num nacked next acked ls,
        sm_find (sl_id sl) (sr_unacked s') = Some (USliced m num nacked next acked ls) /\
        sl_num sl = num_slices_of m
  | _ => False
  end.

Lemma entry_size_ge2 (ms : list (N * list N)) : 2 * len ms <= sum (map rel_entry_size ms).
Proof.
  induction ms as [|[id m] t IH]; [cbn [map]; rewrite sum_nil; cbn; lia|].
  cbn [map]. rewrite sum_cons, len_cons. unfold rel_entry_size at 1. cbn [fst snd].
  pose proof (varint_len_bounds (len m)). pose proof (varint_len_bounds id). lia.
Qed.

Lemma SS_lt_u16 : SLICE_SIZE < 65536.
Proof. rewrite SS_value. reflexivity. Qed.

Theorem sr_get_packets_sizes : forall now s seq avail s' pkts seq' avail',
  sr_inv now s -> sr_get_packets s seq avail now = Ok (s', pkts, seq', avail') ->
  Forall (rel_size_ok s') pkts.
Proof.
  intros now s seq avail s' pkts seq' avail' Hinv E.
  destruct (sr_get_packets_facts _ _ _ _ _ _ _ _ Hinv E) as (new & T).
  pose proof (tick_inv _ _ _ _ _ _ _ _ Hinv T) as Hinv'.
  pose proof (tf_pkts _ _ _ _ _ _ _ _ T) as HP. pose proof (tf_sizes _ _ _ _ _ _ _ _ T) as HS.
  rewrite Forall_forall in *. intros p Hp. specialize (HP p Hp). specialize (HS p Hp).
  assert (HR : rel_packet_ok (sr_ch s) s' p).
  { apply pkt_ok_rel. eapply pkt_ok_ext; [|exact HP]. intros id. eapply tick_st; eauto. }
  pose proof SS_lt_u16 as Hu16.
  destruct p as [sq c ms|sq c ms|sq c sl|sq c sl|sq r]; cbn [pkt_size_ok rel_packet_ok rel_size_ok] in *;
    try contradiction.
  - destruct HS as [HS _]. destruct HR as [_ HR].
    assert (HL : Forall (fun im : N * list N => len (snd im) <= SLICE_SIZE) ms).
    { eapply Forall_impl; [|exact HR]. intros im (_ & l & Hf).
      destruct (sr_inv_find _ _ _ _ Hinv' Hf) as (_ & [Hw _] & _). exact Hw. }
    split; [exact HS|].
    pose proof (entry_size_ge2 ms) as H2.
    destruct HS as [HS|([id m] & ->)].
    + split; [lia|]. split; [lia|exact HL].
    + inversion HL; subst. cbn [snd] in *. cbn [map]. rewrite sum_one, len_one.
      unfold rel_entry_size. cbn [fst snd].
      pose proof (varint_len_bounds (len m)). pose proof (varint_len_bounds id).
      split; [lia|]. split; [lia|exact HL].
  - destruct HR as (_ & m & num & na & nx & ak & ls & Hf & Hsl & Hlt).
    destruct (sr_inv_find _ _ _ _ Hinv' Hf) as (_ & (Hm & -> & _) & _).
    pose proof (f_equal sl_payload Hsl) as Hpay. pose proof (f_equal sl_num Hsl) as Hnum.
    cbn [slice_of sl_payload sl_num] in Hpay, Hnum.
    pose proof (plen_bounds m (sl_index sl) ltac:(lia) Hlt) as Hb. unfold plen in Hb.
    rewrite Hpay, Hnum. split; [exact Hb|]. split; [exact Hlt|].
    exists m, (num_slices_of m), na, nx, ak, ls. auto.
Qed.

(* the empty-packet quirk cannot occur when every pending small message fits a body on its own *)
Theorem no_empty_packet : forall now s seq avail s' pkts seq' avail',
  sr_inv now s -> sr_get_packets s seq avail now = Ok (s', pkts, seq', avail') ->
  fit_all (sr_unacked s) -> forall sq c, ~ In (SmallReliable sq c []) pkts.
Proof.
  intros now s seq avail s' pkts seq' avail' Hinv E Hfit sq c Hin.
  destruct (sr_get_packets_facts _ _ _ _ _ _ _ _ Hinv E) as (new & T).
  pose proof (tf_sizes _ _ _ _ _ _ _ _ T) as HS. rewrite Forall_forall in HS.
  destruct (HS _ Hin) as [_ H]. now apply H.
Qed.

Lemma in_bodies b pkts : In b (bodies pkts) <-> exists sq c, In (SmallReliable sq c b) pkts.
Proof.
  unfold bodies. rewrite in_flat_map. split.
  - intros (p & Hp & Hb). destruct p; cbn in Hb; try contradiction.
    destruct Hb as [<-|[]]. eauto.
  - intros (sq & c & H). exists (SmallReliable sq c b). split; [exact H|now left].
Qed.

(* at most one SmallReliable packet of a tick is empty, it is the first of them, and it is there
   exactly when the first small message transmitted in the tick does not fit a body on its own *)
Theorem small_bodies_shape : forall now s seq avail s' pkts seq' avail',
  sr_inv now s -> sr_get_packets s seq avail now = Ok (s', pkts, seq', avail') ->
  shape (bodies pkts).
Proof.
  intros now s seq avail s' pkts seq' avail' Hinv E.
  destruct (sr_get_packets_facts _ _ _ _ _ _ _ _ Hinv E) as (new & T).
  exact (tf_shape _ _ _ _ _ _ _ _ T).
Qed.

Theorem empty_packet_iff : forall now s seq avail s' pkts seq' avail',
  sr_inv now s -> sr_get_packets s seq avail now = Ok (s', pkts, seq', avail') ->
  ((exists sq c, In (SmallReliable sq c []) pkts) <->
   (exists im rest, concat (bodies pkts) = im :: rest /\ SLICE_SIZE < rel_entry_size im)).
Proof.
  intros now s seq avail s' pkts seq' avail' Hinv E.
  pose proof (small_bodies_shape _ _ _ _ _ _ _ _ Hinv E) as H.
  rewrite <- in_bodies. destruct (bodies pkts) as [|[|im r] F']; cbn [shape] in H.
  - split; [intros []|intros (im & rest & Hc & _); discriminate].
  - destruct F' as [|[|im r] more]; try contradiction. destruct H as [H1 H2]. split.
    + intros _. exists im, (r ++ concat more). split; [reflexivity|exact H1].
    + intros _. now left.
  - destruct H as [H1 H2]. split.
    + intros [Hin|Hin]; [discriminate|]. rewrite Forall_forall in H2. exfalso. now apply (H2 [] Hin).
    + intros (im' & rest & Hc & Ho). cbn [concat app] in Hc. inversion Hc; subst. contradiction.
Qed.

Lemma fit_all_suff us :
  (forall id m l, sm_find id us = Some (USmall m l) -> len m + 10 <= SLICE_SIZE) -> fit_all us.
Proof.
  intros H id m l Hf. specialize (H id m l Hf). unfold rel_entry_size. cbn [fst snd].
  pose proof (varint_len_bounds id). rewrite SS_value in *.
  assert (varint_len (len m) <= 2).
  { unfold varint_len. destruct (len m <=? 63); [lia|]. destruct (N.leb_spec (len m) 16383); lia. }
  lia.
Qed.

(* ================================================================== *)
(* D5: retransmission timing (C15) *)
Section Timing.
  Variables (now : N) (s : send_rel) (seq avail : N) (s' : send_rel) (pkts : list packet) (seq' avail' : N).
  Hypothesis Hinv : sr_inv now s.
  Hypothesis Hrun : sr_get_packets s seq avail now = Ok (s', pkts, seq', avail').

  (* (a) nothing is transmitted before it is due *)
  Theorem no_early_resend : forall id,
    In (id, None) (parts_of pkts) ->
    exists l, small_last s id = Some l /\ is_due now (sr_resend s) l.
  Proof.
    intros id Hin. destruct (sr_get_packets_facts _ _ _ _ _ _ _ _ Hinv Hrun) as (new & T).
    destruct (tick_sent _ _ _ _ _ _ _ _ T id None Hin) as (l & H1 & H2 & _).
    exists l. rewrite small_last_plast. auto.
  Qed.

  Theorem no_early_resend_slice : forall id idx,
    In (id, Some idx) (parts_of pkts) ->
    exists l, slice_last s id idx = Some l /\ is_due now (sr_resend s) l /\
              slice_acked s id idx = Some false.
  Proof.
    intros id idx Hin. destruct (sr_get_packets_facts _ _ _ _ _ _ _ _ Hinv Hrun) as (new & T).
    destruct (tick_sent _ _ _ _ _ _ _ _ T id (Some idx) Hin) as (l & H1 & H2 & H3 & _).
    exists l. rewrite slice_last_plast, slice_acked_packed. auto.
  Qed.

  (* (b) what is transmitted is stamped with the current time; the rest keeps its stamp *)
  Theorem transmission_stamps : forall id,
    In (id, None) (parts_of pkts) -> small_last s' id = Some (Some now).
  Proof.
    intros id Hin. destruct (sr_get_packets_facts _ _ _ _ _ _ _ _ Hinv Hrun) as (new & T).
    destruct (tick_sent _ _ _ _ _ _ _ _ T id None Hin) as (l & _ & _ & _ & H4).
    now rewrite small_last_plast.
  Qed.

  Theorem transmission_stamps_slice : forall id idx,
    In (id, Some idx) (parts_of pkts) -> slice_last s' id idx = Some (Some now).
  Proof.
    intros id idx Hin. destruct (sr_get_packets_facts _ _ _ _ _ _ _ _ Hinv Hrun) as (new & T).
    destruct (tick_sent _ _ _ _ _ _ _ _ T id (Some idx) Hin) as (l & _ & _ & _ & H4).
    now rewrite slice_last_plast.
  Qed.

  Theorem untransmitted_keep_stamp : forall id,
    ~ In (id, None) (parts_of pkts) -> small_last s' id = small_last s id.
  Proof.
    intros id Hin. destruct (sr_get_packets_facts _ _ _ _ _ _ _ _ Hinv Hrun) as (new & T).
    rewrite !small_last_plast. eapply tick_not_sent; eauto.
  Qed.

  Theorem untransmitted_keep_stamp_slice : forall id idx,
    ~ In (id, Some idx) (parts_of pkts) -> slice_last s' id idx = slice_last s id idx.
  Proof.
    intros id idx Hin. destruct (sr_get_packets_facts _ _ _ _ _ _ _ _ Hinv Hrun) as (new & T).
    rewrite !slice_last_plast. eapply tick_not_sent; eauto.
  Qed.

  Theorem acked_flags_kept : forall id idx, slice_acked s' id idx = slice_acked s id idx.
  Proof.
    intros id idx. destruct (sr_get_packets_facts _ _ _ _ _ _ _ _ Hinv Hrun) as (new & T).
    rewrite !slice_acked_packed. eapply tick_packed; eauto.
  Qed.

  (* the bytes carried never exceed what is pending *)
  Theorem budget_consumed_le_pending : payload_total pkts <= sr_mem s.
  Proof.
    destruct (sr_get_packets_facts _ _ _ _ _ _ _ _ Hinv Hrun) as (new & T).
    pose proof (tf_avail _ _ _ _ _ _ _ _ T). pose proof (tf_bound _ _ _ _ _ _ _ _ T). lia.
  Qed.

  Lemma small_packed id l : small_last s id = Some l -> packed s id None = Some false.
  Proof.
    unfold small_last, packed. destruct (sm_find id (sr_unacked s)) as [[]|]; try discriminate. reflexivity.
  Qed.

  (* (c) promptness, general form: if at least SLICE_SIZE bytes of budget are left at the end of
     the tick, then everything that was due has been transmitted *)
  Theorem prompt_if_budget_left :
    SLICE_SIZE <= avail' ->
    (forall id l, small_last s id = Some l -> is_due now (sr_resend s) l -> In (id, None) (parts_of pkts)) /\
    (forall id idx l, slice_last s id idx = Some l -> is_due now (sr_resend s) l ->
                      slice_acked s id idx = Some false -> In (id, Some idx) (parts_of pkts)).
  Proof.
    intros Hge. destruct (sr_get_packets_facts _ _ _ _ _ _ _ _ Hinv Hrun) as (new & T). split.
    - intros id l Hl Hd. apply (tick_prompt _ _ _ _ _ _ _ _ T id None l Hge).
      + now rewrite <- small_last_plast.
      + exact Hd.
      + eapply small_packed; eauto.
    - intros id idx l Hl Hd Hk. apply (tick_prompt _ _ _ _ _ _ _ _ T id (Some idx) l Hge).
      + now rewrite <- slice_last_plast.
      + exact Hd.
      + now rewrite <- slice_acked_packed.
  Qed.

  (* a budget covering everything pending is enough for the small messages ... *)
  Theorem prompt_small : forall id l,
    sr_mem s <= avail ->
    small_last s id = Some l -> is_due now (sr_resend s) l -> In (id, None) (parts_of pkts).
  Proof.
    intros id l Hge Hl Hd. destruct (sr_get_packets_facts _ _ _ _ _ _ _ _ Hinv Hrun) as (new & T).
    apply (tick_prompt_small _ _ _ _ _ _ _ _ T id l Hge); [|exact Hd]. now rewrite <- small_last_plast.
  Qed.

  (* ... and SLICE_SIZE more is enough for the slices as well *)
  Theorem prompt_all :
    sr_mem s + SLICE_SIZE <= avail ->
    (forall id l, small_last s id = Some l -> is_due now (sr_resend s) l -> In (id, None) (parts_of pkts)) /\
    (forall id idx l, slice_last s id idx = Some l -> is_due now (sr_resend s) l ->
                      slice_acked s id idx = Some false -> In (id, Some idx) (parts_of pkts)).
  Proof.
    intros Hge. apply prompt_if_budget_left.
    destruct (sr_get_packets_facts _ _ _ _ _ _ _ _ Hinv Hrun) as (new & T).
    pose proof (tf_bound _ _ _ _ _ _ _ _ T). lia.
  Qed.

  (* (d) *)
  Theorem no_duplicates_in_tick : NoDup (parts_of pkts).
  Proof.
    destruct (sr_get_packets_facts _ _ _ _ _ _ _ _ Hinv Hrun) as (new & T). eapply tick_nodup; eauto.
  Qed.

  (* D6: what has been acknowledged is never transmitted again *)
  Theorem acked_slice_not_resent : forall id idx,
    slice_acked s id idx = Some true -> ~ In (id, Some idx) (parts_of pkts).
  Proof.
    intros id idx Hk Hin. destruct (no_early_resend_slice id idx Hin) as (l & _ & _ & H). congruence.
  Qed.

  Theorem acked_message_not_resent : forall id p,
    kind_of s id = None -> ~ In (id, p) (parts_of pkts).
  Proof.
    intros id p Hk Hin. destruct (sr_get_packets_facts _ _ _ _ _ _ _ _ Hinv Hrun) as (new & T).
    destruct (tick_sent _ _ _ _ _ _ _ _ T id p Hin) as (l & H1 & _).
    unfold plast in H1. unfold kind_of in Hk.
    destruct (sm_find id (sr_unacked s)) as [[]|]; discriminate.
  Qed.
End Timing.

(* ================================================================== *)
(* frame: the configuration fields never change *)
Definition same_config (s s' : send_rel) : Prop :=
  sr_ch s' = sr_ch s /\ sr_resend s' = sr_resend s /\ sr_max s' = sr_max s.

Lemma sr_send_config s m s' : sr_send s m = Ok s' -> same_config s s'.
Proof.
  unfold sr_send. destruct (sr_max s <? sr_mem s + len m); [discriminate|].
  intros E. inversion E; subst. repeat split.
Qed.

Lemma sr_ack_message_config s id s' : sr_ack_message s id = Ok s' -> same_config s s'.
Proof.
  unfold sr_ack_message. destruct (sm_find id (sr_unacked s)) as [[m l|]|]; try discriminate.
  - unfold sub_chk. destruct (len m <=? sr_mem s); cbn [bind]; [|discriminate].
    intros E. inversion E; subst. repeat split.
  - intros E. inversion E; subst. repeat split.
Qed.

Lemma sr_ack_slice_config s id idx s' : sr_ack_slice s id idx = Ok s' -> same_config s s'.
Proof.
  unfold sr_ack_slice. destruct (sm_find id (sr_unacked s)) as [[|m num na nx ak ls]|]; try discriminate.
  - destruct (nth_opt ak (N.to_nat idx)) as [[|]|]; try discriminate.
    + intros E. inversion E; subst. repeat split.
    + destruct (na + 1 =? num).
      * unfold sub_chk. destruct (len m <=? sr_mem s); cbn [bind]; [|discriminate].
        intros E. inversion E; subst. repeat split.
      * intros E. inversion E; subst. repeat split.
  - intros E. inversion E; subst. repeat split.
Qed.

Lemma sr_get_packets_config now s seq avail s' pkts seq' avail' :
  sr_inv now s -> sr_get_packets s seq avail now = Ok (s', pkts, seq', avail') -> same_config s s'.
Proof.
  intros Hinv E. destruct (sr_get_packets_facts _ _ _ _ _ _ _ _ Hinv E) as (new & T).
  destruct T. repeat split; assumption.
Qed.

(* ================================================================== *)
(* concrete witnesses of the two quirks (computed on the model) *)

Definition demo_state (n : nat) : send_rel :=
  match sr_send (send_rel_new 0 100 100000) (repeatN 7 n) with Ok s => s | _ => send_rel_new 0 0 0 end.

(* a single message of 1198 bytes with id 0 has entry size 1198 + 2 + 1 = 1201 > SLICE_SIZE:
   an EMPTY SmallReliable packet is emitted first, then the packet holding the message *)
Example empty_packet_quirk :
  match sr_get_packets (demo_state 1198) 0 60000 0 with
  | Ok (_, pkts, seq', _) =>
      pkts = [SmallReliable 0 0 []; SmallReliable 1 0 [(0, repeatN 7 1198)]] /\ seq' = 2
  | _ => False
  end.
Proof. vm_compute. split; reflexivity. Qed.

(* one byte less and the entry fits: a single packet *)
Example no_empty_packet_1197 :
  match sr_get_packets (demo_state 1197) 0 60000 0 with
  | Ok (_, pkts, seq', _) => pkts = [SmallReliable 0 0 [(0, repeatN 7 1197)]] /\ seq' = 1
  | _ => False
  end.
Proof. vm_compute. split; reflexivity. Qed.

(* promptness needs slack: one message of SLICE_SIZE + 1 bytes (slices of 1200 and 1 bytes), budget
   2399 = sr_mem + SLICE_SIZE - 2: the 1-byte slice is NOT sent because 1199 < SLICE_SIZE remain *)
Example slice_starvation :
  sr_mem (demo_state 1201) = 1201 /\
  match sr_get_packets (demo_state 1201) 0 2399 0 with
  | Ok (_, pkts, _, avail') => parts_of pkts = [(0, Some 0)] /\ avail' = 1199
  | _ => False
  end.
Proof. vm_compute. repeat split; reflexivity. Qed.

Example slice_no_starvation :
  match sr_get_packets (demo_state 1201) 0 2400 0 with
  | Ok (_, pkts, _, avail') => parts_of pkts = [(0, Some 0); (0, Some 1)] /\ avail' = 1199
  | _ => False
  end.
Proof. vm_compute. split; reflexivity. Qed.

(* ================================================================== *)
Print Assumptions sr_inv_init.
Print Assumptions sr_inv_mono.
Print Assumptions sr_send_safe.
Print Assumptions sr_get_packets_safe.
Print Assumptions sr_get_packets_sizes.
Print Assumptions no_empty_packet.
Print Assumptions small_bodies_shape.
Print Assumptions empty_packet_iff.
Print Assumptions no_early_resend.
Print Assumptions no_early_resend_slice.
Print Assumptions transmission_stamps.
Print Assumptions transmission_stamps_slice.
Print Assumptions untransmitted_keep_stamp.
Print Assumptions untransmitted_keep_stamp_slice.
Print Assumptions acked_flags_kept.
Print Assumptions budget_consumed_le_pending.
Print Assumptions prompt_if_budget_left.
Print Assumptions prompt_small.
Print Assumptions prompt_all.
Print Assumptions no_duplicates_in_tick.
Print Assumptions sr_ack_message_safe.
Print Assumptions sr_ack_slice_safe.
Print Assumptions acked_slice_not_resent.
Print Assumptions acked_message_not_resent.
Print Assumptions drained_send.
Print Assumptions sr_available_ok.
