(* PacketP.v - proofs about the packet codec: canonical encoding, totality of
   to_bytes, round trip, decoder soundness, length closed forms. *)
From RenetV Require Import Base Consts Varint Packet.
From RenetV Require Import Spec.CodecSpec Proofs.VarintP.
Require Import Lia ZifyBool ZifyN.
Arguments N.add : simpl never.
Arguments N.sub : simpl never.
Arguments N.mul : simpl never.
Arguments N.div : simpl never.
Arguments N.modulo : simpl never.
Arguments N.pow : simpl never.
Arguments N.eqb : simpl never.
Arguments N.ltb : simpl never.
Arguments N.leb : simpl never.
Open Scope N_scope.

(* ------------------------------------------------------------------ *)
(* facts about the generated constants (the only place they are unfolded) *)
(* ------------------------------------------------------------------ *)
Lemma MAX_NUM_SLICES_le_VARINT_MAX : MAX_NUM_SLICES <= VARINT_MAX.
Proof. unfold MAX_NUM_SLICES, VARINT_MAX. lia. Qed.

Lemma SLICE_SIZE_le_VARINT_MAX : SLICE_SIZE <= VARINT_MAX.
Proof. unfold SLICE_SIZE, VARINT_MAX. lia. Qed.

(* ------------------------------------------------------------------ *)
(* the canonical encoding                                              *)
(* ------------------------------------------------------------------ *)
Definition enc_rel_msg (im : N * list N) : list N :=
  varint_bytes (fst im) ++ varint_bytes (len (snd im)) ++ snd im.
Definition enc_unrel_msg (m : list N) : list N := varint_bytes (len m) ++ m.

Fixpoint enc_rel_msgs (ms : list (N * list N)) : list N :=
  match ms with [] => [] | im :: t => enc_rel_msg im ++ enc_rel_msgs t end.
Fixpoint enc_unrel_msgs (ms : list (list N)) : list N :=
  match ms with [] => [] | m :: t => enc_unrel_msg m ++ enc_unrel_msgs t end.

Definition enc_slice (s : slice) : list N :=
  varint_bytes (sl_id s) ++ varint_bytes (sl_index s) ++ varint_bytes (sl_num s) ++
  varint_bytes (len (sl_payload s)) ++ sl_payload s.

(* [rest] is in descending order, as in put_ranges *)
Fixpoint enc_ranges (prev_start : N) (rest : list (N * N)) : list N :=
  match rest with
  | [] => []
  | (a, b) :: t =>
      varint_bytes (prev_start - b - 1) ++ varint_bytes (b - 1 - a) ++ enc_ranges a t
  end.

Definition enc_ack_body (rrs : list (N * N)) : list N :=
  match rrs with
  | [] => []
  | (a, b) :: rest =>
      varint_bytes (b - 1) ++ varint_bytes (b - 1 - a) ++ varint_bytes (len rest) ++
      enc_ranges a rest
  end.

Definition enc_packet (p : packet) : list N :=
  match p with
  | SmallReliable seq ch ms =>
      [0] ++ varint_bytes seq ++ [ch] ++ be_bytes 2 (len ms) ++ enc_rel_msgs ms
  | SmallUnreliable seq ch ms =>
      [1] ++ varint_bytes seq ++ [ch] ++ be_bytes 2 (len ms) ++ enc_unrel_msgs ms
  | ReliableSlice seq ch s => [2] ++ varint_bytes seq ++ [ch] ++ enc_slice s
  | UnreliableSlice seq ch s => [3] ++ varint_bytes seq ++ [ch] ++ enc_slice s
  | Ack seq rs => [4] ++ varint_bytes seq ++ enc_ack_body (rev rs)
  end.

(* ------------------------------------------------------------------ *)
(* ack ranges: ascending (ranges_wf) versus descending (desc_wf) view    *)
(* ------------------------------------------------------------------ *)
Fixpoint desc_wf (lo prev : N) (l : list (N * N)) : Prop :=
  match l with
  | [] => True
  | (a, b) :: t => lo <= a /\ a < b /\ b + 1 <= prev /\ desc_wf lo a t
  end.

Lemma ranges_wf_mono lo lo' l : lo' <= lo -> ranges_wf lo l -> ranges_wf lo' l.
Proof.
  destruct l as [|[a b] t]; cbn [ranges_wf]; [auto|].
  intros H (H1 & H2 & H3). repeat split; [lia | exact H2 | exact H3].
Qed.

Lemma desc_wf_snoc lo lo' p l c d :
  desc_wf lo' p l -> lo' <= p -> lo <= c -> c < d -> d + 1 <= lo' ->
  desc_wf lo p (l ++ [(c, d)]).
Proof.
  revert p. induction l as [|[a b] t IH]; intros p Hd Hp Hc Hcd Hlo; cbn [app desc_wf].
  - repeat split; lia.
  - cbn [desc_wf] in Hd. destruct Hd as (H1 & H2 & H3 & H4).
    repeat split; [lia | exact H2 | exact H3 |].
    apply IH; [exact H4 | exact H1 | exact Hc | exact Hcd | exact Hlo].
Qed.

Lemma ranges_wf_desc lo l a b :
  ranges_wf lo (l ++ [(a, b)]) -> desc_wf lo a (rev l) /\ lo <= a /\ a < b.
Proof.
  revert lo. induction l as [|[c d] t IH]; intros lo H.
  - cbn [app ranges_wf] in H. cbn [rev desc_wf]. destruct H as (H1 & H2 & _). auto.
  - cbn [app ranges_wf] in H. destruct H as (H1 & H2 & H3).
    apply IH in H3. destruct H3 as (H3 & H4 & H5).
    split; [|split; [lia | exact H5]].
    cbn [rev]. apply (desc_wf_snoc lo (d + 1)); [exact H3 | exact H4 | exact H1 | exact H2 | lia].
Qed.

Lemma ranges_wf_snoc2 lo l c d a b :
  ranges_wf lo (l ++ [(c, d)]) -> d + 1 <= a -> a < b ->
  ranges_wf lo (l ++ [(c, d); (a, b)]).
Proof.
  revert lo. induction l as [|[x y] t IH]; intros lo H Ha Hab.
  - cbn [app ranges_wf] in *. destruct H as (H1 & H2 & _). repeat split; assumption.
  - cbn [app ranges_wf] in *. destruct H as (H1 & H2 & H3).
    repeat split; [exact H1 | exact H2 |]. apply IH; assumption.
Qed.

Lemma desc_ranges_wf lo l a b :
  desc_wf lo a l -> lo <= a -> a < b -> ranges_wf lo (rev l ++ [(a, b)]).
Proof.
  revert a b. induction l as [|[c d] t IH]; intros a b Hd Ha Hab.
  - cbn [rev app ranges_wf]. auto.
  - cbn [desc_wf] in Hd. destruct Hd as (H1 & H2 & H3 & H4).
    cbn [rev]. rewrite <- app_assoc. cbn [app].
    apply ranges_wf_snoc2; [|exact H3 | exact Hab].
    apply IH; assumption.
Qed.

Lemma desc_wf_ends lo prev l :
  desc_wf lo prev l -> Forall (fun ab => snd ab + 1 <= prev) l.
Proof.
  revert prev. induction l as [|[a b] t IH]; intros prev H; [constructor|].
  cbn [desc_wf] in H. destruct H as (H1 & H2 & H3 & H4).
  constructor; [exact H3|].
  apply IH in H4. revert H4. apply Forall_impl. intros [x y]. cbn [snd]. lia.
Qed.

(* wf ranges below a bound are few: each takes an element and a gap *)
Lemma ranges_wf_count lo B l :
  ranges_wf lo l -> ranges_below B l -> l = [] \/ lo + 2 * len l <= B + 1.
Proof.
  revert lo. induction l as [|[a b] t IH]; intros lo Hw Hb; [left; reflexivity|right].
  cbn [ranges_wf] in Hw. destruct Hw as (H1 & H2 & H3).
  unfold ranges_below in Hb. apply Forall_cons_iff in Hb. destruct Hb as [Hb1 Hb2].
  cbn [snd] in Hb1. rewrite len_cons.
  destruct (IH (b + 1) H3 Hb2) as [->|H]; [rewrite len_nil|]; lia.
Qed.

Lemma rev_snoc_inv {A} (l : list A) x t : rev l = x :: t -> l = rev t ++ [x].
Proof. intros H. rewrite <- (rev_involutive l), H. reflexivity. Qed.

(* ------------------------------------------------------------------ *)
(* encoder = one write of the canonical encoding                       *)
(* ------------------------------------------------------------------ *)
Definition rel_msg_wf (im : N * list N) : Prop := fst im <= VARINT_MAX /\ len (snd im) <= VARINT_MAX.
Definition unrel_msg_wf (m : list N) : Prop := len m <= VARINT_MAX.

Lemma sub_chk_ok {E} site a b : b <= a -> @sub_chk E site a b = Ok (a - b).
Proof. intros H. unfold sub_chk. destruct (b <=? a) eqn:Hc; [reflexivity | lia]. Qed.

(* one step: rewrite the head write into put_bytes and peel it off *)
Ltac wput :=
  first [ rewrite put_varint_ok by (assumption || lia)
        | rewrite put_u8_ok by lia
        | rewrite put_u16_ok by lia
        | idtac ];
  apply put_bytes_then; intros ?w.

Lemma put_rel_msgs_enc w ms :
  Forall rel_msg_wf ms -> put_rel_msgs w ms = put_bytes w (enc_rel_msgs ms).
Proof.
  revert w. induction ms as [|[id m] t IH]; intros w H.
  - cbn [put_rel_msgs enc_rel_msgs]. symmetry. apply put_bytes_nil.
  - apply Forall_cons_iff in H. destruct H as [[H1 H2] Ht]. cbn [fst snd] in H1, H2.
    cbn [put_rel_msgs enc_rel_msgs]. unfold enc_rel_msg. cbn [fst snd].
    rewrite <- !app_assoc.
    wput. wput. wput. apply IH. exact Ht.
Qed.

Lemma put_unrel_msgs_enc w ms :
  Forall unrel_msg_wf ms -> put_unrel_msgs w ms = put_bytes w (enc_unrel_msgs ms).
Proof.
  revert w. induction ms as [|m t IH]; intros w H.
  - cbn [put_unrel_msgs enc_unrel_msgs]. symmetry. apply put_bytes_nil.
  - apply Forall_cons_iff in H. destruct H as [H1 Ht]. unfold unrel_msg_wf in H1.
    cbn [put_unrel_msgs enc_unrel_msgs]. unfold enc_unrel_msg.
    rewrite <- !app_assoc.
    wput. wput. apply IH. exact Ht.
Qed.

Lemma put_slice_enc w r s : slice_wf r s -> put_slice w s = put_bytes w (enc_slice s).
Proof.
  intros (H1 & H2 & H3 & H4 & H5 & _).
  pose proof MAX_NUM_SLICES_le_VARINT_MAX as HM.
  unfold put_slice, enc_slice.
  wput. wput. wput. wput. reflexivity.
Qed.

Lemma put_ranges_enc w lo prev rest :
  desc_wf lo prev rest -> prev <= VARINT_MAX + 1 ->
  put_ranges w prev rest = put_bytes w (enc_ranges prev rest).
Proof.
  revert w prev. induction rest as [|[a b] t IH]; intros w prev Hd Hp.
  - cbn [put_ranges enc_ranges]. symmetry. apply put_bytes_nil.
  - cbn [desc_wf] in Hd. destruct Hd as (H1 & H2 & H3 & H4).
    cbn [put_ranges enc_ranges].
    rewrite (sub_chk_ok _ prev b) by lia. cbn [bind].
    rewrite (sub_chk_ok _ (prev - b) 1) by lia. cbn [bind].
    rewrite (sub_chk_ok _ b 1) by lia. cbn [bind].
    rewrite (sub_chk_ok _ (b - 1) a) by lia. cbn [bind].
    wput. wput. apply (IH _ _ H4). lia.
Qed.

Lemma ack_rev_wf rs a b rest :
  rs <> [] -> ranges_wf 0 rs -> ranges_below (VARINT_MAX + 1) rs -> rev rs = (a, b) :: rest ->
  desc_wf 0 a rest /\ a < b /\ b <= VARINT_MAX + 1 /\ len rest <= VARINT_MAX /\ len rs = 1 + len rest.
Proof.
  intros Hne Hw Hb Hr.
  apply rev_snoc_inv in Hr. cbn [rev app] in Hr.
  assert (Hlen : len rs = 1 + len rest).
  { rewrite Hr, len_app, len_rev, len_cons, len_nil. lia. }
  pose proof (ranges_wf_count 0 _ rs Hw Hb) as Hc.
  destruct Hc as [Hc|Hc]; [contradiction|].
  subst rs. apply ranges_wf_desc in Hw. rewrite rev_involutive in Hw.
  destruct Hw as (Hw1 & Hw2 & Hw3).
  unfold ranges_below in Hb. apply Forall_app in Hb. destruct Hb as [_ Hb].
  apply Forall_cons_iff in Hb. destruct Hb as [Hb _]. cbn [snd] in Hb.
  repeat split; try assumption. lia.
Qed.

Lemma to_bytes_w_enc w p : packet_wf p -> to_bytes_w w p = put_bytes w (enc_packet p).
Proof.
  destruct p as [seq ch ms|seq ch ms|seq ch s|seq ch s|seq rs]; cbn [packet_wf].
  - intros (H1 & H2 & H3 & H4). unfold to_bytes_w, enc_packet.
    wput. wput. wput. wput. apply put_rel_msgs_enc. exact H4.
  - intros (H1 & H2 & H3 & H4). unfold to_bytes_w, enc_packet.
    wput. wput. wput. wput. apply put_unrel_msgs_enc. exact H4.
  - intros (H1 & H2 & H3). unfold to_bytes_w, enc_packet.
    wput. wput. wput. apply (put_slice_enc _ true). exact H3.
  - intros (H1 & H2 & H3). unfold to_bytes_w, enc_packet.
    wput. wput. wput. apply (put_slice_enc _ false). exact H3.
  - intros (H1 & H2 & H3 & H4). unfold to_bytes_w, enc_packet.
    wput. wput.
    destruct (rev rs) as [|[a b] rest] eqn:Hr.
    { exfalso. apply H2. rewrite <- (rev_involutive rs), Hr. reflexivity. }
    destruct (ack_rev_wf rs a b rest H2 H3 H4 Hr) as (Hd & Hab & Hb & Hl & _).
    unfold enc_ack_body.
    rewrite (sub_chk_ok _ b 1) by lia. cbn [bind].
    rewrite (sub_chk_ok _ (b - 1) a) by lia. cbn [bind].
    wput. wput. wput. apply (put_ranges_enc _ 0); [exact Hd | lia].
Qed.

Theorem to_bytes_enc : forall cap p, packet_wf p ->
  to_bytes cap p = if len (enc_packet p) <=? cap then Ok (enc_packet p) else Err BufferTooShort.
Proof.
  intros cap p Hwf. unfold to_bytes. rewrite (to_bytes_w_enc _ p Hwf), put_bytes_spec.
  cbn [w_cap w_out].
  destruct (len (enc_packet p) <=? cap) eqn:Hc; reflexivity.
Qed.

Theorem to_bytes_total : forall cap p, packet_wf p ->
  (exists b, to_bytes cap p = Ok b) \/ to_bytes cap p = Err BufferTooShort.
Proof.
  intros cap p Hwf. rewrite (to_bytes_enc cap p Hwf).
  destruct (len (enc_packet p) <=? cap); [left; eauto | right; reflexivity].
Qed.

Theorem to_bytes_fits : forall p, packet_wf p ->
  exists b, forall cap, len b <= cap -> to_bytes cap p = Ok b.
Proof.
  intros p Hwf. exists (enc_packet p). intros cap Hc. rewrite (to_bytes_enc cap p Hwf).
  destruct (len (enc_packet p) <=? cap) eqn:E; [reflexivity | lia].
Qed.

Lemma to_bytes_ok_enc cap p b : packet_wf p -> to_bytes cap p = Ok b -> b = enc_packet p /\ len b <= cap.
Proof.
  intros Hwf. rewrite (to_bytes_enc cap p Hwf).
  destruct (len (enc_packet p) <=? cap) eqn:E; [|discriminate].
  intros H; injection H as <-. split; [reflexivity | lia].
Qed.

(* ------------------------------------------------------------------ *)
(* decoder on canonical encodings (round trip)                         *)
(* ------------------------------------------------------------------ *)
Lemma get_rel_msgs_0 fuel l acc : get_rel_msgs fuel 0 l acc = Ok (rev acc, l).
Proof. destruct fuel; reflexivity. Qed.
Lemma get_unrel_msgs_0 fuel l acc : get_unrel_msgs fuel 0 l acc = Ok (rev acc, l).
Proof. destruct fuel; reflexivity. Qed.
Lemma get_ranges_0 fuel prev l acc : get_ranges fuel 0 prev l acc = Ok (acc, l).
Proof. destruct fuel; reflexivity. Qed.

Lemma len_le_length {A B} (a : list A) (b : list B) : len a <= len b -> (length a <= length b)%nat.
Proof. unfold len. lia. Qed.

Lemma get_rel_msgs_enc fuel ms rest acc :
  Forall rel_msg_wf ms -> (length ms <= fuel)%nat ->
  get_rel_msgs fuel (len ms) (enc_rel_msgs ms ++ rest) acc = Ok (rev acc ++ ms, rest).
Proof.
  revert fuel acc. induction ms as [|[id m] t IH]; intros fuel acc Hwf Hf.
  - rewrite len_nil, get_rel_msgs_0, app_nil_r. reflexivity.
  - apply Forall_cons_iff in Hwf. destruct Hwf as [[H1 H2] Ht]. cbn [fst snd] in H1, H2.
    destruct fuel as [|f]; [cbn [length] in Hf; lia|].
    cbn [length] in Hf.
    cbn [get_rel_msgs]. rewrite len_cons.
    destruct (1 + len t =? 0) eqn:Hc; [lia|].
    cbn [enc_rel_msgs]. unfold enc_rel_msg. cbn [fst snd]. rewrite <- !app_assoc.
    rewrite varint_roundtrip by exact H1. cbn [bind].
    rewrite get_bwvl_app by exact H2. cbn [bind].
    replace (1 + len t - 1) with (len t) by lia.
    rewrite IH; [|exact Ht | lia].
    cbn [rev]. rewrite <- app_assoc. reflexivity.
Qed.

Lemma get_unrel_msgs_enc fuel ms rest acc :
  Forall unrel_msg_wf ms -> (length ms <= fuel)%nat ->
  get_unrel_msgs fuel (len ms) (enc_unrel_msgs ms ++ rest) acc = Ok (rev acc ++ ms, rest).
Proof.
  revert fuel acc. induction ms as [|m t IH]; intros fuel acc Hwf Hf.
  - rewrite len_nil, get_unrel_msgs_0, app_nil_r. reflexivity.
  - apply Forall_cons_iff in Hwf. destruct Hwf as [H1 Ht]. unfold unrel_msg_wf in H1.
    destruct fuel as [|f]; [cbn [length] in Hf; lia|].
    cbn [length] in Hf.
    cbn [get_unrel_msgs]. rewrite len_cons.
    destruct (1 + len t =? 0) eqn:Hc; [lia|].
    cbn [enc_unrel_msgs]. unfold enc_unrel_msg. rewrite <- !app_assoc.
    rewrite get_bwvl_app by exact H1. cbn [bind].
    replace (1 + len t - 1) with (len t) by lia.
    rewrite IH; [|exact Ht | lia].
    cbn [rev]. rewrite <- app_assoc. reflexivity.
Qed.

Lemma get_ranges_enc fuel lo prev rest tail acc :
  desc_wf lo prev rest -> prev <= VARINT_MAX + 1 -> (length rest <= fuel)%nat ->
  get_ranges fuel (len rest) prev (enc_ranges prev rest ++ tail) acc = Ok (rev rest ++ acc, tail).
Proof.
  revert fuel prev acc. induction rest as [|[a b] t IH]; intros fuel prev acc Hd Hp Hf.
  - rewrite len_nil, get_ranges_0. reflexivity.
  - cbn [desc_wf] in Hd. destruct Hd as (H1 & H2 & H3 & H4).
    destruct fuel as [|f]; [cbn [length] in Hf; lia|].
    cbn [length] in Hf.
    cbn [get_ranges]. rewrite len_cons.
    destruct (1 + len t =? 0) eqn:Hc; [lia|].
    cbn [enc_ranges]. rewrite <- !app_assoc.
    rewrite varint_roundtrip by lia. cbn [bind].
    destruct (prev <? 2 + (prev - b - 1)) eqn:Hg; [lia|].
    rewrite varint_roundtrip by lia. cbn [bind].
    replace (prev - (prev - b - 1) - 2) with (b - 1) by lia.
    destruct (b - 1 <? b - 1 - a) eqn:Hs; [lia|].
    replace (b - 1 - (b - 1 - a)) with a by lia.
    replace (b - 1 + 1) with b by lia.
    replace (1 + len t - 1) with (len t) by lia.
    rewrite (IH f a _ H4); [|lia|lia].
    cbn [rev]. rewrite <- app_assoc. reflexivity.
Qed.

Lemma enc_rel_msgs_count ms : len ms <= len (enc_rel_msgs ms).
Proof.
  induction ms as [|im t IH]; [rewrite !len_nil; lia|].
  cbn [enc_rel_msgs]. unfold enc_rel_msg. rewrite len_cons, !len_app, varint_bytes_len_gen.
  pose proof (varint_len_ge1 (fst im)). lia.
Qed.

Lemma enc_unrel_msgs_count ms : len ms <= len (enc_unrel_msgs ms).
Proof.
  induction ms as [|m t IH]; [rewrite !len_nil; lia|].
  cbn [enc_unrel_msgs]. unfold enc_unrel_msg. rewrite len_cons, !len_app, varint_bytes_len_gen.
  pose proof (varint_len_ge1 (len m)). lia.
Qed.

Lemma enc_ranges_count prev rest : len rest <= len (enc_ranges prev rest).
Proof.
  revert prev. induction rest as [|[a b] t IH]; intros prev; [rewrite !len_nil; lia|].
  cbn [enc_ranges]. rewrite len_cons, !len_app, varint_bytes_len_gen.
  pose proof (varint_len_ge1 (prev - b - 1)). specialize (IH a). lia.
Qed.

Lemma get_slice_enc r s rest :
  slice_wf r s -> get_slice r (enc_slice s ++ rest) = Ok (s, rest).
Proof.
  intros (H1 & H2 & H3 & H4 & H5 & H6).
  pose proof MAX_NUM_SLICES_le_VARINT_MAX as HM.
  unfold get_slice, enc_slice. rewrite <- !app_assoc.
  rewrite varint_roundtrip by exact H1. cbn [bind].
  rewrite varint_roundtrip by exact H2. cbn [bind].
  rewrite varint_roundtrip by lia. cbn [bind].
  destruct (sl_num s =? 0) eqn:Hz; [lia|].
  destruct (MAX_NUM_SLICES <? sl_num s) eqn:Hm; [lia|].
  cbn [orb].
  rewrite get_bwvl_app by exact H5. cbn [bind].
  destruct s as [id idx num payload]. cbn [sl_id sl_index sl_num sl_payload] in *.
  destruct r; cbn [andb]; [|reflexivity].
  destruct (H6 eq_refl) as [H7 H8].
  destruct (len payload =? 0) eqn:Hp; [lia|].
  destruct (SLICE_SIZE <? len payload) eqn:Hq; [lia|].
  reflexivity.
Qed.

Lemma from_bytes_rest_enc p rest :
  packet_wf p -> from_bytes_rest (enc_packet p ++ rest) = Ok (p, rest).
Proof.
  destruct p as [seq ch ms|seq ch ms|seq ch s|seq ch s|seq rs]; cbn [packet_wf].
  - intros (H1 & H2 & H3 & H4). unfold from_bytes_rest, enc_packet.
    rewrite <- !app_assoc. cbn [app get_u8 bind].
    rewrite varint_roundtrip by exact H1. cbn [bind get_u8].
    rewrite get_u16_be by exact H3. cbn [bind].
    rewrite get_rel_msgs_enc; [reflexivity | exact H4 |].
    apply len_le_length. rewrite len_app. pose proof (enc_rel_msgs_count ms). lia.
  - intros (H1 & H2 & H3 & H4). unfold from_bytes_rest, enc_packet.
    rewrite <- !app_assoc. cbn [app get_u8 bind].
    rewrite varint_roundtrip by exact H1. cbn [bind get_u8].
    rewrite get_u16_be by exact H3. cbn [bind].
    rewrite get_unrel_msgs_enc; [reflexivity | exact H4 |].
    apply len_le_length. rewrite len_app. pose proof (enc_unrel_msgs_count ms). lia.
  - intros (H1 & H2 & H3). unfold from_bytes_rest, enc_packet.
    rewrite <- !app_assoc. cbn [app get_u8 bind].
    rewrite varint_roundtrip by exact H1. cbn [bind get_u8].
    rewrite (get_slice_enc true) by exact H3. reflexivity.
  - intros (H1 & H2 & H3). unfold from_bytes_rest, enc_packet.
    rewrite <- !app_assoc. cbn [app get_u8 bind].
    rewrite varint_roundtrip by exact H1. cbn [bind get_u8].
    rewrite (get_slice_enc false) by exact H3. reflexivity.
  - intros (H1 & H2 & H3 & H4). unfold from_bytes_rest, enc_packet.
    destruct (rev rs) as [|[a b] rs'] eqn:Hr.
    { exfalso. apply H2. rewrite <- (rev_involutive rs), Hr. reflexivity. }
    destruct (ack_rev_wf rs a b rs' H2 H3 H4 Hr) as (Hd & Hab & Hb & Hl & _).
    unfold enc_ack_body.
    rewrite <- !app_assoc. cbn [app get_u8 bind].
    rewrite varint_roundtrip by exact H1. cbn [bind].
    rewrite varint_roundtrip by lia. cbn [bind].
    rewrite varint_roundtrip by lia. cbn [bind].
    rewrite varint_roundtrip by exact Hl. cbn [bind].
    destruct (b - 1 <? b - 1 - a) eqn:Hs; [lia|].
    replace (b - 1 - (b - 1 - a)) with a by lia.
    replace (b - 1 + 1) with b by lia.
    rewrite (get_ranges_enc _ 0); [|exact Hd | lia |].
    + cbn [bind]. apply rev_snoc_inv in Hr. cbn [rev app] in Hr. rewrite <- Hr. reflexivity.
    + apply len_le_length. rewrite len_app. pose proof (enc_ranges_count a rs'). lia.
Qed.

Theorem packet_roundtrip : forall p cap b rest,
  packet_wf p -> to_bytes cap p = Ok b -> from_bytes_rest (b ++ rest) = Ok (p, rest).
Proof.
  intros p cap b rest Hwf Hb. apply (to_bytes_ok_enc cap p b Hwf) in Hb.
  destruct Hb as [-> _]. apply from_bytes_rest_enc. exact Hwf.
Qed.

Theorem packet_roundtrip' : forall p cap b,
  packet_wf p -> to_bytes cap p = Ok b -> from_bytes b = Ok p.
Proof.
  intros p cap b Hwf Hb. unfold from_bytes.
  pose proof (packet_roundtrip p cap b [] Hwf Hb) as H. rewrite app_nil_r in H.
  rewrite H. reflexivity.
Qed.

(* ------------------------------------------------------------------ *)
(* the decoder never panics                                            *)
(* ------------------------------------------------------------------ *)
Lemma get_rel_msgs_no_panic fuel n l acc : is_panic (get_rel_msgs fuel n l acc) = false.
Proof.
  revert n l acc. induction fuel as [|f IH]; intros n l acc; cbn [get_rel_msgs];
    destruct (n =? 0) eqn:Hn; try reflexivity.
  apply bind_no_panic; [apply get_varint_no_panic|]. intros [id l1].
  apply bind_no_panic; [apply get_bytes_with_varint_length_no_panic|]. intros [m l2].
  apply IH.
Qed.

Lemma get_unrel_msgs_no_panic fuel n l acc : is_panic (get_unrel_msgs fuel n l acc) = false.
Proof.
  revert n l acc. induction fuel as [|f IH]; intros n l acc; cbn [get_unrel_msgs];
    destruct (n =? 0) eqn:Hn; try reflexivity.
  apply bind_no_panic; [apply get_bytes_with_varint_length_no_panic|]. intros [m l2].
  apply IH.
Qed.

Lemma get_ranges_no_panic fuel n prev l acc : is_panic (get_ranges fuel n prev l acc) = false.
Proof.
  revert n prev l acc. induction fuel as [|f IH]; intros n prev l acc; cbn [get_ranges];
    destruct (n =? 0) eqn:Hn; try reflexivity.
  apply bind_no_panic; [apply get_varint_no_panic|]. intros [gap l1].
  destruct (prev <? 2 + gap) eqn:Hg; [reflexivity|].
  apply bind_no_panic; [apply get_varint_no_panic|]. intros [size l2].
  destruct (prev - gap - 2 <? size) eqn:Hs; [reflexivity|].
  apply IH.
Qed.

Lemma get_slice_no_panic r l : is_panic (get_slice r l) = false.
Proof.
  unfold get_slice.
  apply bind_no_panic; [apply get_varint_no_panic|]. intros [id l1].
  apply bind_no_panic; [apply get_varint_no_panic|]. intros [idx l2].
  apply bind_no_panic; [apply get_varint_no_panic|]. intros [n l3].
  destruct ((n =? 0) || (MAX_NUM_SLICES <? n)) eqn:Hn; [reflexivity|].
  apply bind_no_panic; [apply get_bytes_with_varint_length_no_panic|]. intros [payload l4].
  destruct (r && (len payload =? 0)) eqn:H1; [reflexivity|].
  destruct (r && (SLICE_SIZE <? len payload)) eqn:H2; reflexivity.
Qed.

Ltac np_step :=
  match goal with
  | |- is_panic (Ok _) = false => reflexivity
  | |- is_panic (Err _) = false => reflexivity
  | |- is_panic (if ?c then _ else _) = false => destruct c eqn:?
  | |- is_panic (bind _ _) = false =>
      apply bind_no_panic;
      [ first [ apply get_varint_no_panic | apply get_u8_no_panic | apply get_u16_no_panic
              | apply get_slice_no_panic | apply get_rel_msgs_no_panic
              | apply get_unrel_msgs_no_panic | apply get_ranges_no_panic ]
      | intros [? ?] ]
  end.

Lemma from_bytes_rest_no_panic b : is_panic (from_bytes_rest b) = false.
Proof.
  unfold from_bytes_rest.
  apply bind_no_panic; [apply get_u8_no_panic|]. intros [ty l0].
  destruct ty as [|[[[q|q|]|[q|q|]|]|[[q|q|]|[q|q|]|]|]]; try reflexivity; repeat np_step.
Qed.

Theorem from_bytes_no_panic : forall b, is_panic (from_bytes b) = false.
Proof.
  intros b. unfold from_bytes.
  apply bind_no_panic; [apply from_bytes_rest_no_panic|]. intros [p r]. reflexivity.
Qed.

(* ------------------------------------------------------------------ *)
(* decoder soundness: whatever it returns is wf, and its canonical      *)
(* encoding is no longer than the bytes consumed                       *)
(* ------------------------------------------------------------------ *)
Tactic Notation "bind_inv" hyp(H) ident(x) ident(y) ident(Hx) :=
  apply bind_ok_inv in H; destruct H as ([x y] & Hx & H); cbv beta iota in H.

Lemma get_rel_msgs_inv fuel n l acc ms r :
  get_rel_msgs fuel n l acc = Ok (ms, r) ->
  exists new, ms = rev acc ++ new /\ len new = n /\ Forall rel_msg_wf new /\
              len (enc_rel_msgs new) + len r <= len l.
Proof.
  revert n l acc. induction fuel as [|f IH]; intros n l acc H; cbn [get_rel_msgs] in H;
    destruct (n =? 0) eqn:Hn; try discriminate.
  - injection H as <- <-. exists []. rewrite app_nil_r, len_nil. cbn [enc_rel_msgs].
    rewrite (@len_nil N). repeat split; [lia | constructor | lia].
  - injection H as <- <-. exists []. rewrite app_nil_r, len_nil. cbn [enc_rel_msgs].
    rewrite (@len_nil N). repeat split; [lia | constructor | lia].
  - bind_inv H id l1 Hid. bind_inv H m l2 Hm.
    apply IH in H. destruct H as (new & E & Hl & Hwf & Hlen).
    apply get_varint_inv in Hid. destruct Hid as (pre1 & E1 & _ & Hv1 & Hl1).
    apply get_bwvl_inv in Hm. destruct Hm as (pre2 & E2 & _ & Hv2 & Hl2).
    exists ((id, m) :: new). split; [|split; [|split]].
    + rewrite E. cbn [rev]. rewrite <- app_assoc. reflexivity.
    + rewrite len_cons. lia.
    + constructor; [split; assumption | exact Hwf].
    + cbn [enc_rel_msgs]. unfold enc_rel_msg. cbn [fst snd].
      rewrite E1, E2, !len_app, !varint_bytes_len_gen. lia.
Qed.

Lemma get_unrel_msgs_inv fuel n l acc ms r :
  get_unrel_msgs fuel n l acc = Ok (ms, r) ->
  exists new, ms = rev acc ++ new /\ len new = n /\ Forall unrel_msg_wf new /\
              len (enc_unrel_msgs new) + len r <= len l.
Proof.
  revert n l acc. induction fuel as [|f IH]; intros n l acc H; cbn [get_unrel_msgs] in H;
    destruct (n =? 0) eqn:Hn; try discriminate.
  - injection H as <- <-. exists []. rewrite app_nil_r, len_nil. cbn [enc_unrel_msgs].
    rewrite (@len_nil N). repeat split; [lia | constructor | lia].
  - injection H as <- <-. exists []. rewrite app_nil_r, len_nil. cbn [enc_unrel_msgs].
    rewrite (@len_nil N). repeat split; [lia | constructor | lia].
  - bind_inv H m l2 Hm.
    apply IH in H. destruct H as (new & E & Hl & Hwf & Hlen).
    apply get_bwvl_inv in Hm. destruct Hm as (pre2 & E2 & _ & Hv2 & Hl2).
    exists (m :: new). split; [|split; [|split]].
    + rewrite E. cbn [rev]. rewrite <- app_assoc. reflexivity.
    + rewrite len_cons. lia.
    + constructor; [exact Hv2 | exact Hwf].
    + cbn [enc_unrel_msgs]. unfold enc_unrel_msg.
      rewrite E2, !len_app, !varint_bytes_len_gen. lia.
Qed.

Lemma get_ranges_inv fuel n prev l acc rs r :
  get_ranges fuel n prev l acc = Ok (rs, r) ->
  exists new, rs = rev new ++ acc /\ len new = n /\ desc_wf 0 prev new /\
              len (enc_ranges prev new) + len r <= len l.
Proof.
  revert n prev l acc. induction fuel as [|f IH]; intros n prev l acc H; cbn [get_ranges] in H;
    destruct (n =? 0) eqn:Hn; try discriminate.
  - injection H as <- <-. exists []. rewrite len_nil. cbn [rev app enc_ranges desc_wf].
    rewrite (@len_nil N). repeat split; lia.
  - injection H as <- <-. exists []. rewrite len_nil. cbn [rev app enc_ranges desc_wf].
    rewrite (@len_nil N). repeat split; lia.
  - bind_inv H gap l1 Hgap.
    destruct (prev <? 2 + gap) eqn:Hg; [discriminate|].
    bind_inv H size l2 Hsize.
    destruct (prev - gap - 2 <? size) eqn:Hs; [discriminate|].
    apply IH in H. destruct H as (new & E & Hl & Hd & Hlen).
    apply get_varint_inv in Hgap. destruct Hgap as (pre1 & E1 & _ & Hv1 & Hl1).
    apply get_varint_inv in Hsize. destruct Hsize as (pre2 & E2 & _ & Hv2 & Hl2).
    exists ((prev - gap - 2 - size, prev - gap - 2 + 1) :: new). split; [|split; [|split]].
    + rewrite E. cbn [rev]. rewrite <- app_assoc. reflexivity.
    + rewrite len_cons. lia.
    + cbn [desc_wf]. repeat split; [lia | lia | lia | exact Hd].
    + cbn [enc_ranges].
      replace (prev - (prev - gap - 2 + 1) - 1) with gap by lia.
      replace (prev - gap - 2 + 1 - 1 - (prev - gap - 2 - size)) with size by lia.
      rewrite E1, E2, !len_app, !varint_bytes_len_gen. lia.
Qed.

Lemma get_slice_inv rl l s rest :
  get_slice rl l = Ok (s, rest) -> slice_wf rl s /\ len (enc_slice s) + len rest <= len l.
Proof.
  unfold get_slice. intros H.
  bind_inv H id l1 Hid. bind_inv H idx l2 Hidx. bind_inv H n l3 Hn.
  destruct (n =? 0) eqn:Hz; [discriminate|].
  destruct (MAX_NUM_SLICES <? n) eqn:Hm; [discriminate|].
  cbn [orb] in H.
  bind_inv H payload l4 Hp.
  apply get_varint_inv in Hid. destruct Hid as (pre1 & E1 & _ & Hv1 & Hl1).
  apply get_varint_inv in Hidx. destruct Hidx as (pre2 & E2 & _ & Hv2 & Hl2).
  apply get_varint_inv in Hn. destruct Hn as (pre3 & E3 & _ & Hv3 & Hl3).
  apply get_bwvl_inv in Hp. destruct Hp as (pre4 & E4 & _ & Hv4 & Hl4).
  assert (Hlen : len (varint_bytes id ++ varint_bytes idx ++ varint_bytes n ++
                      varint_bytes (len payload) ++ payload) + len l4 <= len l).
  { rewrite E1, E2, E3, E4, !len_app, !varint_bytes_len_gen. lia. }
  destruct rl; cbn [andb] in H.
  - destruct (len payload =? 0) eqn:Hp0; [discriminate|].
    destruct (SLICE_SIZE <? len payload) eqn:Hp1; [discriminate|].
    injection H as <- <-. unfold slice_wf, enc_slice. cbn [sl_id sl_index sl_num sl_payload].
    split; [|exact Hlen].
    repeat split; try assumption; lia.
  - injection H as <- <-. unfold slice_wf, enc_slice. cbn [sl_id sl_index sl_num sl_payload].
    split; [|exact Hlen].
    repeat split; try assumption; try lia; discriminate.
Qed.

Ltac lens :=
  repeat first [ rewrite len_app | rewrite len_cons | rewrite (@len_nil N)
               | rewrite varint_bytes_len_gen | rewrite len_be_bytes ].

Lemma packet_type_cases (ty : N) :
  ty = 0 \/ ty = 1 \/ ty = 2 \/ ty = 3 \/ ty = 4 \/ 5 <= ty.
Proof. lia. Qed.

Lemma from_bytes_rest_inv b p r :
  bytes_ok b -> from_bytes_rest b = Ok (p, r) ->
  packet_wf p /\ len (enc_packet p) + len r <= len b.
Proof.
  intros Hb H. unfold from_bytes_rest in H.
  bind_inv H ty l0 Hty. apply get_u8_inv in Hty. subst b.
  apply bytes_ok_cons in Hb. destruct Hb as [_ Hb0].
  rewrite len_cons.
  destruct (packet_type_cases ty) as [->|[->|[->|[->|[->|Hty]]]]].
  - bind_inv H seq l1 Hseq. bind_inv H ch l2 Hch. bind_inv H n l3 Hn. bind_inv H ms l4 Hms.
    injection H as <- <-.
    apply get_varint_inv in Hseq. destruct Hseq as (pre1 & E1 & _ & Hv1 & Hl1).
    apply get_u8_inv in Hch. apply get_u16_inv in Hn. destruct Hn as (pre3 & E3 & Hl3 & Hv3).
    apply get_rel_msgs_inv in Hms. destruct Hms as (new & E & Hl & Hwf & Hlen).
    cbn [rev app] in E. subst ms.
    subst l0. apply bytes_ok_app in Hb0. destruct Hb0 as [_ Hb1].
    subst l1. apply bytes_ok_cons in Hb1. destruct Hb1 as [Hc Hb2].
    subst l2. apply bytes_ok_app in Hb2. destruct Hb2 as [Hb3 _].
    apply be_val_lt in Hb3. rewrite Hl3 in Hb3. change (256 ^ 2) with 65536 in Hb3.
    cbn [packet_wf enc_packet]. split.
    + repeat split; [exact Hv1 | exact Hc | lia | exact Hwf].
    + lens. lia.
  - bind_inv H seq l1 Hseq. bind_inv H ch l2 Hch. bind_inv H n l3 Hn. bind_inv H ms l4 Hms.
    injection H as <- <-.
    apply get_varint_inv in Hseq. destruct Hseq as (pre1 & E1 & _ & Hv1 & Hl1).
    apply get_u8_inv in Hch. apply get_u16_inv in Hn. destruct Hn as (pre3 & E3 & Hl3 & Hv3).
    apply get_unrel_msgs_inv in Hms. destruct Hms as (new & E & Hl & Hwf & Hlen).
    cbn [rev app] in E. subst ms.
    subst l0. apply bytes_ok_app in Hb0. destruct Hb0 as [_ Hb1].
    subst l1. apply bytes_ok_cons in Hb1. destruct Hb1 as [Hc Hb2].
    subst l2. apply bytes_ok_app in Hb2. destruct Hb2 as [Hb3 _].
    apply be_val_lt in Hb3. rewrite Hl3 in Hb3. change (256 ^ 2) with 65536 in Hb3.
    cbn [packet_wf enc_packet]. split.
    + repeat split; [exact Hv1 | exact Hc | lia | exact Hwf].
    + lens. lia.
  - bind_inv H seq l1 Hseq. bind_inv H ch l2 Hch. bind_inv H s l3 Hs.
    injection H as <- <-.
    apply get_varint_inv in Hseq. destruct Hseq as (pre1 & E1 & _ & Hv1 & Hl1).
    apply get_u8_inv in Hch.
    apply get_slice_inv in Hs. destruct Hs as [Hwf Hlen].
    subst l0. apply bytes_ok_app in Hb0. destruct Hb0 as [_ Hb1].
    subst l1. apply bytes_ok_cons in Hb1. destruct Hb1 as [Hc Hb2].
    cbn [packet_wf enc_packet]. split.
    + split; [exact Hv1 | split; [exact Hc | exact Hwf]].
    + lens. lia.
  - bind_inv H seq l1 Hseq. bind_inv H ch l2 Hch. bind_inv H s l3 Hs.
    injection H as <- <-.
    apply get_varint_inv in Hseq. destruct Hseq as (pre1 & E1 & _ & Hv1 & Hl1).
    apply get_u8_inv in Hch.
    apply get_slice_inv in Hs. destruct Hs as [Hwf Hlen].
    subst l0. apply bytes_ok_app in Hb0. destruct Hb0 as [_ Hb1].
    subst l1. apply bytes_ok_cons in Hb1. destruct Hb1 as [Hc Hb2].
    cbn [packet_wf enc_packet]. split.
    + split; [exact Hv1 | split; [exact Hc | exact Hwf]].
    + lens. lia.
  - bind_inv H seq l1 Hseq. bind_inv H fe l2 Hfe. bind_inv H fs l3 Hfs. bind_inv H nrem l4 Hnrem.
    destruct (fe <? fs) eqn:Hc; [discriminate|].
    bind_inv H rs l5 Hrs. injection H as <- <-.
    apply get_varint_inv in Hseq. destruct Hseq as (pre1 & E1 & _ & Hv1 & Hl1).
    apply get_varint_inv in Hfe. destruct Hfe as (pre2 & E2 & _ & Hv2 & Hl2).
    apply get_varint_inv in Hfs. destruct Hfs as (pre3 & E3 & _ & Hv3 & Hl3).
    apply get_varint_inv in Hnrem. destruct Hnrem as (pre4 & E4 & _ & Hv4 & Hl4).
    apply get_ranges_inv in Hrs. destruct Hrs as (new & E & Hl & Hd & Hlen).
    cbn [packet_wf enc_packet]. split.
    + split; [exact Hv1|]. split; [|split].
      * rewrite E. intros E0. apply app_eq_nil in E0. destruct E0 as [_ E0]. discriminate.
      * rewrite E. apply desc_ranges_wf; [exact Hd | lia | lia].
      * rewrite E. unfold ranges_below. apply Forall_app. split.
        -- apply Forall_rev. apply desc_wf_ends in Hd. revert Hd. apply Forall_impl.
           intros [x y]. cbn [snd]. lia.
        -- constructor; [cbn [snd]; lia | constructor].
    + rewrite E, rev_app_distr, rev_involutive. cbn [rev app enc_ack_body].
      replace (fe + 1 - 1) with fe by lia.
      replace (fe - (fe - fs)) with fs by lia.
      rewrite Hl.
      rewrite E1, E2, E3, E4. lens. lia.
  - exfalso.
    destruct ty as [|[[[q|q|]|[q|q|]|]|[[q|q|]|[q|q|]|]|]]; try discriminate; lia.
Qed.

Theorem from_bytes_wf : forall b p, bytes_ok b -> from_bytes b = Ok p -> packet_wf p.
Proof.
  intros b p Hb H. unfold from_bytes in H. bind_inv H p' r Hp. injection H as <-.
  apply (from_bytes_rest_inv b p' r Hb Hp).
Qed.

(* the canonical re-encoding of a decoded packet is never longer than the input *)
Theorem from_bytes_enc_len : forall b p, bytes_ok b -> from_bytes b = Ok p ->
  len (enc_packet p) <= len b.
Proof.
  intros b p Hb H. unfold from_bytes in H. bind_inv H p' r Hp. injection H as <-.
  pose proof (from_bytes_rest_inv b p' r Hb Hp) as [_ Hl]. lia.
Qed.

(* STRETCH form: the re-encoding fits in a buffer of the size of the input *)
Theorem reencode_len : forall b p, bytes_ok b -> from_bytes b = Ok p ->
  exists b', to_bytes (len b) p = Ok b' /\ from_bytes b' = Ok p /\ len b' <= len b.
Proof.
  intros b p Hb H.
  pose proof (from_bytes_wf b p Hb H) as Hwf.
  pose proof (from_bytes_enc_len b p Hb H) as Hl.
  exists (enc_packet p).
  assert (Ht : to_bytes (len b) p = Ok (enc_packet p)).
  { rewrite (to_bytes_enc _ p Hwf). destruct (len (enc_packet p) <=? len b) eqn:E; [reflexivity | lia]. }
  split; [exact Ht|]. split; [|exact Hl].
  apply (packet_roundtrip' p (len b)); assumption.
Qed.

Theorem reencode : forall b p, bytes_ok b -> from_bytes b = Ok p ->
  exists cap b', to_bytes cap p = Ok b' /\ from_bytes b' = Ok p.
Proof.
  intros b p Hb H. destruct (reencode_len b p Hb H) as (b' & H1 & H2 & _).
  exists (len b), b'. auto.
Qed.

(* ------------------------------------------------------------------ *)
(* length closed forms (hold for every packet, wf or not)               *)
(* ------------------------------------------------------------------ *)
Definition rel_msgs_size (ms : list (N * list N)) : N :=
  sum (map (fun im => varint_len (fst im) + varint_len (len (snd im)) + len (snd im)) ms).
Definition unrel_msgs_size (ms : list (list N)) : N :=
  sum (map (fun m => varint_len (len m) + len m) ms).

Lemma enc_rel_msgs_len ms : len (enc_rel_msgs ms) = rel_msgs_size ms.
Proof.
  unfold rel_msgs_size. induction ms as [|im t IH]; [reflexivity|].
  cbn [enc_rel_msgs map sum fold_right]. fold (sum (map (fun im => varint_len (fst im) + varint_len (len (snd im)) + len (snd im)) t)).
  unfold enc_rel_msg. lens. rewrite IH. lia.
Qed.

Lemma enc_unrel_msgs_len ms : len (enc_unrel_msgs ms) = unrel_msgs_size ms.
Proof.
  unfold unrel_msgs_size. induction ms as [|m t IH]; [reflexivity|].
  cbn [enc_unrel_msgs map sum fold_right]. fold (sum (map (fun m => varint_len (len m) + len m) t)).
  unfold enc_unrel_msg. lens. rewrite IH. lia.
Qed.

Lemma enc_slice_len s :
  len (enc_slice s) =
  varint_len (sl_id s) + varint_len (sl_index s) + varint_len (sl_num s) +
  varint_len (len (sl_payload s)) + len (sl_payload s).
Proof. unfold enc_slice. lens. lia. Qed.

Lemma enc_ranges_len_le prev rest : len (enc_ranges prev rest) <= 16 * len rest.
Proof.
  revert prev. induction rest as [|[a b] t IH]; intros prev.
  - cbn [enc_ranges]. rewrite (@len_nil N). lia.
  - cbn [enc_ranges]. lens. specialize (IH a).
    pose proof (varint_len_le8 (prev - b - 1)). pose proof (varint_len_le8 (b - 1 - a)). lia.
Qed.

Theorem enc_len_small_reliable : forall seq ch ms,
  len (enc_packet (SmallReliable seq ch ms)) = 1 + varint_len seq + 1 + 2 + rel_msgs_size ms.
Proof.
  intros. cbn [enc_packet]. lens. rewrite enc_rel_msgs_len. change (N.of_nat 2) with 2. lia.
Qed.

Theorem enc_len_small_unreliable : forall seq ch ms,
  len (enc_packet (SmallUnreliable seq ch ms)) = 1 + varint_len seq + 1 + 2 + unrel_msgs_size ms.
Proof.
  intros. cbn [enc_packet]. lens. rewrite enc_unrel_msgs_len. change (N.of_nat 2) with 2. lia.
Qed.

Theorem enc_len_reliable_slice : forall seq ch s,
  len (enc_packet (ReliableSlice seq ch s)) =
  1 + varint_len seq + 1 + varint_len (sl_id s) + varint_len (sl_index s) + varint_len (sl_num s) +
  varint_len (len (sl_payload s)) + len (sl_payload s).
Proof. intros. cbn [enc_packet]. lens. rewrite enc_slice_len. lia. Qed.

Theorem enc_len_unreliable_slice : forall seq ch s,
  len (enc_packet (UnreliableSlice seq ch s)) =
  1 + varint_len seq + 1 + varint_len (sl_id s) + varint_len (sl_index s) + varint_len (sl_num s) +
  varint_len (len (sl_payload s)) + len (sl_payload s).
Proof. intros. cbn [enc_packet]. lens. rewrite enc_slice_len. lia. Qed.

Theorem enc_len_ack : forall seq rs,
  len (enc_packet (Ack seq rs)) <= 1 + 8 + 8 + 8 + 8 + 16 * (len rs - 1).
Proof.
  intros seq rs. cbn [enc_packet]. lens.
  pose proof (varint_len_le8 seq) as H0.
  pose proof (len_rev rs) as Hr.
  destruct (rev rs) as [|[a b] rest]; cbn [enc_ack_body].
  - rewrite (@len_nil N). lia.
  - rewrite len_cons in Hr. lens.
    pose proof (varint_len_le8 (b - 1)). pose proof (varint_len_le8 (b - 1 - a)).
    pose proof (varint_len_le8 (len rest)). pose proof (enc_ranges_len_le a rest). lia.
Qed.

(* exact form for acks, in terms of the reversed (descending) range list *)
Fixpoint ranges_size (prev_start : N) (rest : list (N * N)) : N :=
  match rest with
  | [] => 0
  | (a, b) :: t => varint_len (prev_start - b - 1) + varint_len (b - 1 - a) + ranges_size a t
  end.

Lemma enc_ranges_len prev rest : len (enc_ranges prev rest) = ranges_size prev rest.
Proof.
  revert prev. induction rest as [|[a b] t IH]; intros prev; [reflexivity|].
  cbn [enc_ranges ranges_size]. lens. rewrite IH. lia.
Qed.

(* the successful result of to_bytes has these lengths *)
Corollary to_bytes_len : forall cap p b, packet_wf p -> to_bytes cap p = Ok b ->
  len b = len (enc_packet p) /\ len b <= cap.
Proof.
  intros cap p b Hwf H. apply (to_bytes_ok_enc cap p b Hwf) in H. destruct H as [-> H]. auto.
Qed.

(* ------------------------------------------------------------------ *)
(* fuel irrelevance: any fuel >= the input length gives the same result *)
(* ------------------------------------------------------------------ *)
Lemma app_length_lt {A} (pre r : list A) : pre <> [] -> (length r < length (pre ++ r))%nat.
Proof. intros H. rewrite app_length. destruct pre; [contradiction | cbn [length]; lia]. Qed.

Lemma get_varint_shrinks l v r : get_varint l = Ok (v, r) -> (length r < length l)%nat.
Proof.
  intros H. apply get_varint_inv in H. destruct H as (pre & -> & Hne & _). apply app_length_lt, Hne.
Qed.

Lemma get_bwvl_shrinks l m r :
  get_bytes_with_varint_length l = Ok (m, r) -> (length r < length l)%nat.
Proof.
  intros H. apply get_bwvl_inv in H. destruct H as (pre & -> & Hne & _).
  rewrite !app_length. destruct pre; [contradiction | cbn [length]; lia].
Qed.

Lemma get_varint_nil : get_varint [] = Err BufferTooShort.
Proof. reflexivity. Qed.

Lemma get_bwvl_nil : get_bytes_with_varint_length [] = Err BufferTooShort.
Proof. reflexivity. Qed.

Lemma length_le0_nil {A} (l : list A) : (length l <= 0)%nat -> l = [].
Proof. destruct l; [reflexivity | cbn [length]; lia]. Qed.

Lemma get_rel_msgs_fuel f1 f2 n l acc :
  (length l <= f1)%nat -> (length l <= f2)%nat ->
  get_rel_msgs f1 n l acc = get_rel_msgs f2 n l acc.
Proof.
  revert f2 n l acc. induction f1 as [|f1 IH]; intros f2 n l acc H1 H2.
  - apply length_le0_nil in H1. subst l.
    destruct f2 as [|f2]; [reflexivity|]. cbn [get_rel_msgs].
    destruct (n =? 0) eqn:Hn; [reflexivity|]. rewrite get_varint_nil. reflexivity.
  - destruct f2 as [|f2].
    + apply length_le0_nil in H2. subst l. cbn [get_rel_msgs].
      destruct (n =? 0) eqn:Hn; [reflexivity|]. rewrite get_varint_nil. reflexivity.
    + cbn [get_rel_msgs]. destruct (n =? 0) eqn:Hn; [reflexivity|].
      destruct (get_varint l) as [[id l1]|e|s] eqn:Hv; cbn [bind]; try reflexivity.
      destruct (get_bytes_with_varint_length l1) as [[m l2]|e|s] eqn:Hm; cbn [bind]; try reflexivity.
      apply get_varint_shrinks in Hv. apply get_bwvl_shrinks in Hm. apply IH; lia.
Qed.

Lemma get_unrel_msgs_fuel f1 f2 n l acc :
  (length l <= f1)%nat -> (length l <= f2)%nat ->
  get_unrel_msgs f1 n l acc = get_unrel_msgs f2 n l acc.
Proof.
  revert f2 n l acc. induction f1 as [|f1 IH]; intros f2 n l acc H1 H2.
  - apply length_le0_nil in H1. subst l.
    destruct f2 as [|f2]; [reflexivity|]. cbn [get_unrel_msgs].
    destruct (n =? 0) eqn:Hn; [reflexivity|]. rewrite get_bwvl_nil. reflexivity.
  - destruct f2 as [|f2].
    + apply length_le0_nil in H2. subst l. cbn [get_unrel_msgs].
      destruct (n =? 0) eqn:Hn; [reflexivity|]. rewrite get_bwvl_nil. reflexivity.
    + cbn [get_unrel_msgs]. destruct (n =? 0) eqn:Hn; [reflexivity|].
      destruct (get_bytes_with_varint_length l) as [[m l2]|e|s] eqn:Hm; cbn [bind]; try reflexivity.
      apply get_bwvl_shrinks in Hm. apply IH; lia.
Qed.

Lemma get_ranges_fuel f1 f2 n prev l acc :
  (length l <= f1)%nat -> (length l <= f2)%nat ->
  get_ranges f1 n prev l acc = get_ranges f2 n prev l acc.
Proof.
  revert f2 n prev l acc. induction f1 as [|f1 IH]; intros f2 n prev l acc H1 H2.
  - apply length_le0_nil in H1. subst l.
    destruct f2 as [|f2]; [reflexivity|]. cbn [get_ranges].
    destruct (n =? 0) eqn:Hn; [reflexivity|]. rewrite get_varint_nil. reflexivity.
  - destruct f2 as [|f2].
    + apply length_le0_nil in H2. subst l. cbn [get_ranges].
      destruct (n =? 0) eqn:Hn; [reflexivity|]. rewrite get_varint_nil. reflexivity.
    + cbn [get_ranges]. destruct (n =? 0) eqn:Hn; [reflexivity|].
      destruct (get_varint l) as [[gap l1]|e|s] eqn:Hv; cbn [bind]; try reflexivity.
      destruct (prev <? 2 + gap) eqn:Hg; [reflexivity|].
      destruct (get_varint l1) as [[size l2]|e|s] eqn:Hs; cbn [bind]; try reflexivity.
      destruct (prev - gap - 2 <? size) eqn:Hz; [reflexivity|].
      apply get_varint_shrinks in Hv. apply get_varint_shrinks in Hs. apply IH; lia.
Qed.

(* ------------------------------------------------------------------ *)
(* the hypotheses are needed: concrete witnesses                        *)
(* ------------------------------------------------------------------ *)
(* encoder panics outside packet_wf *)
Example to_bytes_panics_empty_ack : to_bytes 100 (Ack 0 []) = Panic SITE_ACK_EMPTY_RANGES.
Proof. vm_compute. reflexivity. Qed.
Example to_bytes_panics_adjacent_ranges : to_bytes 100 (Ack 0 [(0, 1); (1, 2)]) = Panic SITE_ACK_ENCODE_SUB.
Proof. vm_compute. reflexivity. Qed.
Example to_bytes_panics_empty_range : to_bytes 100 (Ack 0 [(0, 0)]) = Panic SITE_ACK_ENCODE_SUB.
Proof. vm_compute. reflexivity. Qed.
Example to_bytes_panics_unsorted_ranges : to_bytes 100 (Ack 0 [(5, 6); (0, 1)]) = Panic SITE_ACK_ENCODE_SUB.
Proof. vm_compute. reflexivity. Qed.
Example to_bytes_panics_big_seq : to_bytes 100 (Ack (VARINT_MAX + 1) [(0, 1)]) = Panic SITE_VARINT_TOO_LARGE.
Proof. vm_compute. reflexivity. Qed.
(* encoder silently truncates the channel id; encoder accepts what the decoder rejects *)
Example roundtrip_fails_big_channel :
  to_bytes 100 (SmallReliable 0 256 []) = Ok [0; 0; 0; 0; 0] /\
  from_bytes [0; 0; 0; 0; 0] = Ok (SmallReliable 0 0 []).
Proof. vm_compute. auto. Qed.
Example roundtrip_fails_zero_slices :
  to_bytes 100 (UnreliableSlice 0 0 {| sl_id := 0; sl_index := 5; sl_num := 0; sl_payload := [] |})
    = Ok [3; 0; 0; 0; 5; 0; 0] /\
  from_bytes [3; 0; 0; 0; 5; 0; 0] = Err InvalidNumSlices.
Proof. vm_compute. auto. Qed.
(* from_bytes_wf needs bytes_ok: the channel byte is returned as is *)
Example from_bytes_wf_needs_bytes_ok :
  from_bytes [2; 0; 300; 0; 0; 1; 1; 7] =
  Ok (ReliableSlice 0 300 {| sl_id := 0; sl_index := 0; sl_num := 1; sl_payload := [7] |}).
Proof. vm_compute. reflexivity. Qed.
(* decoding is not injective: non-minimal varints and trailing bytes are accepted *)
Example from_bytes_not_injective :
  from_bytes [4; 0; 0; 0; 0] = Ok (Ack 0 [(0, 1)]) /\
  from_bytes [4; 64; 0; 0; 0; 0; 99] = Ok (Ack 0 [(0, 1)]).
Proof. vm_compute. auto. Qed.
(* the decoder (and packet_wf) accept a slice index beyond the slice count *)
Example from_bytes_accepts_index_beyond_count :
  from_bytes [3; 0; 0; 0; 5; 1; 0] =
  Ok (UnreliableSlice 0 0 {| sl_id := 0; sl_index := 5; sl_num := 1; sl_payload := [] |}).
Proof. vm_compute. reflexivity. Qed.

Print Assumptions to_bytes_enc.
Print Assumptions to_bytes_total.
Print Assumptions to_bytes_fits.
Print Assumptions packet_roundtrip.
Print Assumptions packet_roundtrip'.
Print Assumptions from_bytes_no_panic.
Print Assumptions from_bytes_wf.
Print Assumptions from_bytes_enc_len.
Print Assumptions reencode.
Print Assumptions reencode_len.
Print Assumptions enc_len_small_reliable.
Print Assumptions enc_len_small_unreliable.
Print Assumptions enc_len_reliable_slice.
Print Assumptions enc_len_unreliable_slice.
Print Assumptions enc_len_ack.
Print Assumptions to_bytes_len.
Print Assumptions get_rel_msgs_fuel.
Print Assumptions get_unrel_msgs_fuel.
Print Assumptions get_ranges_fuel.
