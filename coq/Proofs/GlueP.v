(* GlueP.v - the glue between the message layer (RenetServer / RenetClient) and the handshake layer
   (NetcodeServer / NetcodeClient), Glue/Transport.v:
   the connection objects of the message layer are exactly the clients whose netcode handshake completed
   and has not ended (lockstep), events are pushed up / disconnects pushed down within one update, the
   client transport mirrors the netcode status, and the message layers are only ever handed payloads the
   netcode layer surfaced. *)
From RenetV Require Import Base Consts Varint Packet Channels Conn Server.
From RenetV Require Import Aead NPacket Token NServer NClient Transport.
From RenetV Require Import Spec.ConnSpec Spec.NetSpec Spec.GlueSpec.
From RenetV.Proofs Require Import SMapSrvP DisconnectP ServerP NSlotsP NServerP.
Require Import Lia ZifyBool ZifyN ZifyNat.
Arguments N.add : simpl never.
Arguments N.sub : simpl never.
Arguments N.mul : simpl never.
Arguments N.div : simpl never.
Arguments N.modulo : simpl never.
Arguments N.eqb : simpl never.
Arguments N.ltb : simpl never.
Arguments N.leb : simpl never.
Open Scope N_scope.

(* ------------------------------------------------------------------ *)
(* 0. small facts                                                      *)
(* ------------------------------------------------------------------ *)
Lemma of_pres_ok {A} (r : pres A) a : of_pres r = Ok a -> r = Ok a.
Proof. destruct r; cbn [of_pres]; intros H; try discriminate. injection H as <-. reflexivity. Qed.

Lemma of_nres_ok {A} (r : nres A) a : of_nres r = Ok a -> r = Ok a.
Proof. destruct r; cbn [of_nres]; intros H; try discriminate. injection H as <-. reflexivity. Qed.

Lemma bind_ok {E A B} (r : res E A) (f : A -> res E B) b :
  bind r f = Ok b -> exists a, r = Ok a /\ f a = Ok b.
Proof. destruct r; cbn [bind]; intros H; try discriminate. eauto. Qed.

(* the ids in slot order *)
Lemma clients_id_connected s : NServer.clients_id s = map nc_id (connected s).
Proof.
  unfold NServer.clients_id, connected.
  induction (ns_clients s) as [|[c|] t IH]; cbn [flat_map some_list map app]; [reflexivity | f_equal; exact IH | exact IH].
Qed.

Lemma find_by_id_none_ids s id : find_by_id s id = None <-> ~ In id (NServer.clients_id s).
Proof. rewrite clients_id_connected. apply find_by_id_none_iff. Qed.

Lemma find_by_id_some_ids s id slot c : find_by_id s id = Some (slot, c) -> In id (NServer.clients_id s) /\ nc_id c = id.
Proof.
  intros H. destruct (lookup_nth _ _ _ _ H) as [_ Hf]. apply N.eqb_eq in Hf. split; [|exact Hf].
  destruct (in_dec N.eq_dec id (NServer.clients_id s)) as [Hin|Hn]; [exact Hin|].
  apply find_by_id_none_ids in Hn. congruence.
Qed.

(* a slot is cleared: exactly that id leaves *)
Lemma ids_after_clear f s slot c :
  table_inv s -> find_slot_by f (ns_clients s) 0 = Some (slot, c) ->
  In (nc_id c) (NServer.clients_id s) /\
  forall x, In x (NServer.clients_id (set_slot s slot None)) <-> x <> nc_id c /\ In x (NServer.clients_id s).
Proof.
  intros T H. apply table_inv_tbl in T. destruct T as (H1 & _).
  destruct (lookup_split _ _ _ _ H) as [l1 [l2 [E1 [E2 [E3 [E4 E5]]]]]].
  rewrite !clients_id_connected. unfold connected in *. rewrite E5. rewrite E1 in *.
  rewrite !connected_split, !map_app in *. cbn [map] in *.
  pose proof (NoDup_remove_2 _ _ _ H1) as Hn.
  split.
  - apply in_or_app. right. left. reflexivity.
  - intros x. rewrite !in_app_iff. cbn [In]. rewrite in_app_iff in Hn. split.
    + intros Hx. split; [intros ->; tauto | tauto].
    + intros [Hne [Hx|[Hx|Hx]]]; [tauto | congruence | tauto].
Qed.

(* a free slot is filled: exactly that id arrives *)
Lemma ids_after_fill s idx c :
  first_free (ns_clients s) 0 = Some idx ->
  forall x, In x (NServer.clients_id (set_slot s idx (Some c))) <-> x = nc_id c \/ In x (NServer.clients_id s).
Proof.
  intros H x. destruct (free_split _ _ H) as [l1 [l2 [E1 [E2 E5]]]].
  rewrite !clients_id_connected. unfold connected. rewrite E5, E1.
  rewrite !connected_split, !map_app. cbn [map]. rewrite !in_app_iff. cbn [In]. split.
  - intros [Hx|[Hx|Hx]]; [tauto | left; congruence | tauto].
  - intros [Hx|[Hx|Hx]]; [right; left; congruence | tauto | tauto].
Qed.

Definition quiet_result (r : sresult) : Prop :=
  match r with SRConnected _ _ _ _ | SRDisconnected _ _ _ => False | _ => True end.

Lemma ids_step_same s s' r :
  map nc_id (connected s') = map nc_id (connected s) -> quiet_result r -> ids_step s s' r.
Proof.
  intros E Q. destruct r; cbn [quiet_result] in Q; try contradiction; cbn [ids_step];
    rewrite !clients_id_connected; exact E.
Qed.

(* process_packet *)
Lemma ppi_spec_ids s a buf s' r0 : table_inv s -> ppi_spec s a buf s' r0 -> ids_step s s' (res_of r0).
Proof.
  intros T H. pose proof (ppi_spec_events _ _ _ _ _ T H) as EV. destruct H.
  - apply ids_step_same; [reflexivity | exact I].
  - destruct H2 as [[e ->]|[->|[p ->]]]; (apply ids_step_same; [exact EV | exact I]).
  - cbn [res_of ids_step]. apply (ids_after_clear _ _ _ _ T H).
  - destruct H2 as [->|[e ->]]; (apply ids_step_same; [reflexivity | exact I]).
  - destruct (hr_spec_result _ _ _ _ _ _ _ H3) as [E|[out ->]].
    + destruct r as [r| |]; cbn [res_of] in *; [subst r| |]; (apply ids_step_same; [exact EV | exact I]).
    + apply ids_step_same; [exact EV | exact I].
  - apply ids_step_same; [reflexivity | exact I].
  - subst s'. apply ids_step_same; [reflexivity | exact I].
  - subst s'. cbn [res_of ids_step]. split.
    + apply find_by_id_none_ids. exact H3.
    + intros x.
      exact (ids_after_fill (set_pending s (pend_remove a (pend_put a (nc_with_replay pc rp) (ns_pending s)))) idx
               (promote (nc_with_replay pc rp) cuser (ns_now s)) H4 x).
  - destruct (hr_spec_result _ _ _ _ _ _ _ H2) as [E|[out ->]].
    + destruct r as [r| |]; cbn [res_of] in *; [subst r| |]; (apply ids_step_same; [exact EV | exact I]).
    + apply ids_step_same; [exact EV | exact I].
Qed.

Lemma uc_spec_ids s id s' r : table_inv s -> uc_spec s id s' r -> ids_step s s' r.
Proof.
  intros T H. destruct H.
  - reflexivity.
  - cbn [ids_step]. destruct (lookup_nth _ _ _ _ H) as [_ Hf]. apply N.eqb_eq in Hf. subst id.
    apply (ids_after_clear _ _ _ _ T H).
  - apply ids_step_same; [|exact I]. apply (ids_slot_update _ _ _ _ _ H). reflexivity.
Qed.

Lemma dc_spec_ids s id s' r : table_inv s -> dc_spec s id s' r -> ids_step s s' r.
Proof.
  intros T H. destruct H.
  - reflexivity.
  - cbn [ids_step]. destruct (lookup_nth _ _ _ _ H) as [_ Hf]. apply N.eqb_eq in Hf. subst id.
    apply (ids_after_clear _ _ _ _ T H).
Qed.

(* every netcode call that returns a ServerResult *)
Theorem nsstep_ids_step s o s' r : table_inv s -> nsstep s o = Ok (s', NOResult r) -> ids_step s s' r.
Proof.
  intros T. destruct o as [a buf|dt|id|id|id p|m]; cbn [nsstep].
  - destruct (NServer.process_packet s a buf) as [[s1 r1]|e|site] eqn:E; cbn [bind]; intros H; try discriminate.
    injection H as <- <-. cbn [fst snd]. apply process_packet_inv in E. destruct E as [r0 [E ->]].
    apply (ppi_spec_ids _ _ _ _ _ T E).
  - discriminate.
  - destruct (update_client s id) as [[s1 r1]|e|site] eqn:E; cbn [bind]; intros H; try discriminate.
    injection H as <- <-. cbn [fst snd]. apply update_client_spec in E. apply (uc_spec_ids _ _ _ _ T E).
  - destruct (nserver_disconnect s id) as [[s1 r1]|e|site] eqn:E; cbn [bind]; intros H; try discriminate.
    injection H as <- <-. cbn [fst snd]. apply nserver_disconnect_spec in E. apply (dc_spec_ids _ _ _ _ T E).
  - destruct (generate_payload_packet s id p) as [s1 r1]. destruct r1; discriminate.
  - discriminate.
Qed.

(* ------------------------------------------------------------------ *)
(* 1. one netcode result, handled                                      *)
(* ------------------------------------------------------------------ *)
Lemma sm_mem_keys_in {V} k (m : list (N * V)) : sm_mem k m = true <-> In k (map fst m).
Proof.
  rewrite sm_mem_existsb. rewrite existsb_exists. split.
  - intros [x [Hx E]]. apply N.eqb_eq in E. subst x. exact Hx.
  - intros H. exists k. split; [exact H | apply N.eqb_refl].
Qed.

Lemma sm_find_in_ {V} k (v : V) m : sm_find k m = Some v -> In (k, v) m.
Proof.
  induction m as [|[k' v'] t IH]; cbn [sm_find]; [discriminate|].
  destruct (k =? k') eqn:E.
  - apply N.eqb_eq in E. subst k'. intros H. injection H as <-. left. reflexivity.
  - intros H. right. auto.
Qed.

Lemma sm_in_find {V} k (v : V) m : sm_sorted m -> In (k, v) m -> sm_find k m = Some v.
Proof.
  unfold sm_sorted. induction m as [|[k' v'] t IH]; cbn [map fst asc sm_find In]; [tauto|].
  intros [Hlt Hs] [H|H].
  - injection H as -> ->. rewrite N.eqb_refl. reflexivity.
  - destruct (k =? k') eqn:E; [|auto].
    apply N.eqb_eq in E. subst k'. exfalso.
    rewrite Forall_forall in Hlt. assert (k < k) by (apply Hlt; apply (in_map fst _ _ H)). lia.
Qed.

(* what one result does to the membership of every id, to sortedness and to the event queue *)
Definition mem_step (rs rs' : server) (r : sresult) : Prop :=
  match r with
  | SRConnected id _ _ _ =>
      sm_mem id (s_conns rs) = false /\ forall x, sm_mem x (s_conns rs') = (x =? id) || sm_mem x (s_conns rs)
  | SRDisconnected id _ _ =>
      sm_mem id (s_conns rs) = true /\ forall x, sm_mem x (s_conns rs') = negb (x =? id) && sm_mem x (s_conns rs)
  | _ => forall x, sm_mem x (s_conns rs') = sm_mem x (s_conns rs)
  end.

Lemma handle_payload_sstep rs id p outs rs' outs' :
  handle_server_result (SRPayload id p) rs outs = Ok (rs', outs') ->
  sstep rs (SProcess id p) = Ok (rs', SONone) /\ outs' = outs.
Proof.
  cbn [handle_server_result]. intros H. apply bind_ok in H. destruct H as [[rs1 b] [E H]].
  apply of_pres_ok in E. injection H as <- <-. cbn [sstep fst]. rewrite E. cbn [bind]. auto.
Qed.

Lemma handle_result_mem net r rs outs rs' outs' :
  conns_sorted rs -> lockstep_n net rs ->
  (match r with
   | SRConnected id _ _ _ => ~ In id (NServer.clients_id net)
   | SRDisconnected id _ _ => In id (NServer.clients_id net)
   | _ => True end) ->
  handle_server_result r rs outs = Ok (rs', outs') ->
  mem_step rs rs' r /\ conns_sorted rs' /\ new_events rs rs' (result_events rs r) /\ outs' = outs ++ result_dgrams r.
Proof.
  intros Hs L Hr H. destruct r as [|a p|id p|id a u p|id a p].
  - injection H as <- <-. cbn [mem_step result_events result_dgrams]. unfold new_events. rewrite !app_nil_r. auto.
  - injection H as <- <-. cbn [mem_step result_events result_dgrams]. unfold new_events. rewrite !app_nil_r. auto.
  - destruct (handle_payload_sstep _ _ _ _ _ _ H) as [S ->]. cbn [mem_step result_events result_dgrams].
    unfold new_events. rewrite !app_nil_r. split; [|split; [|split]].
    + apply (sstep_mem_same _ _ _ _ S). intros x. reflexivity.
    + apply (sstep_sorted _ _ _ _ Hs S).
    + apply (sstep_events_same _ _ _ _ S).
    + reflexivity.
  - cbn [handle_server_result] in H. apply bind_ok in H. destruct H as [rs1 [E H]]. injection H as <- <-.
    apply of_pres_ok in E.
    assert (Em : sm_mem id (s_conns rs) = false).
    { destruct (sm_mem id (s_conns rs)) eqn:Em; [|reflexivity]. exfalso. apply Hr. apply L. exact Em. }
    pose proof (sstep_sorted rs (SAdd id) rs1 SONone Hs) as Hs1. cbn [sstep] in Hs1. rewrite E in Hs1. cbn [bind] in Hs1.
    unfold add_connection in E. rewrite Em in E.
    destruct (new_from_server rs) as [c0|e|site]; cbn [bind] in E; try discriminate. injection E as <-.
    cbn [mem_step result_events result_dgrams s_conns s_events with_events with_conns]. unfold new_events.
    split; [split; [exact Em | intros x; apply sm_mem_insert] |]. split; [apply Hs1; reflexivity|].
    split; reflexivity.
  - cbn [handle_server_result] in H. injection H as <- <-.
    assert (Em : sm_mem id (s_conns rs) = true) by (apply L; exact Hr).
    destruct (sm_mem_true _ _ Em) as [c Ef].
    cbn [mem_step result_events result_dgrams]. unfold new_events, srv_disconnect_reason. rewrite Ef.
    split; [|split; [|split]].
    + split; [exact Em|]. intros x. unfold remove_connection. rewrite Ef.
      cbn [s_conns with_events with_conns]. apply sm_mem_remove. exact Hs.
    + apply (sstep_sorted rs (SRemove id) _ SONone Hs). reflexivity.
    + apply (removal_reports_first_reason _ _ _ Hs Ef).
    + destruct p; cbn [result_dgrams]; [reflexivity | rewrite app_nil_r; reflexivity].
Qed.

Lemma ids_step_pre net net' r :
  ids_step net net' r ->
  match r with
  | SRConnected id _ _ _ => ~ In id (NServer.clients_id net)
  | SRDisconnected id _ _ => In id (NServer.clients_id net)
  | _ => True end.
Proof. destruct r; cbn [ids_step]; tauto. Qed.

Lemma mem_ids_lockstep net net' r rs rs' :
  lockstep_n net rs -> ids_step net net' r -> mem_step rs rs' r -> lockstep_n net' rs'.
Proof.
  intros L I M x. specialize (L x).
  destruct r as [|a p|id p|id a u p|id a p]; cbn [ids_step mem_step] in I, M;
    try (rewrite M, I; exact L).
  - destruct I as [_ I]. destruct M as [_ M]. rewrite M, I.
    destruct (x =? id) eqn:E; cbn [orb].
    + split; intros; [left; lia | reflexivity].
    + split; intros H; [right; tauto | destruct H; [lia | tauto]].
  - destruct I as [_ I]. destruct M as [_ M]. rewrite M, I.
    destruct (x =? id) eqn:E; cbn [negb andb].
    + split; intros H; [discriminate | lia].
    + split; intros H; [split; [lia | tauto] | tauto].
Qed.

(* THEOREM 1 *)
Theorem handle_result_lockstep net net' r rs outs rs' outs' :
  ids_step net net' r -> conns_sorted rs -> lockstep_n net rs ->
  handle_server_result r rs outs = Ok (rs', outs') ->
  lockstep_n net' rs' /\ conns_sorted rs' /\ new_events rs rs' (result_events rs r) /\
  outs' = outs ++ result_dgrams r.
Proof.
  intros I Hs L H.
  destruct (handle_result_mem net r rs outs rs' outs' Hs L (ids_step_pre _ _ _ I) H) as (M & Hs' & Ev & Eo).
  split; [apply (mem_ids_lockstep _ _ _ _ _ L I M) | auto].
Qed.

(* the same, with the netcode step named instead of its effect on the ids *)
Corollary handle_result_lockstep_step net o net' r rs outs rs' outs' :
  table_inv net -> nsstep net o = Ok (net', NOResult r) ->
  conns_sorted rs -> lockstep_n net rs ->
  handle_server_result r rs outs = Ok (rs', outs') ->
  table_inv net' /\ lockstep_n net' rs' /\ conns_sorted rs' /\ new_events rs rs' (result_events rs r) /\
  outs' = outs ++ result_dgrams r.
Proof.
  intros T S Hs L H. split; [apply (table_inv_step _ _ _ _ T S)|].
  apply (handle_result_lockstep net net' r rs outs rs' outs' (nsstep_ids_step _ _ _ _ T S) Hs L H).
Qed.

(* the reason reported for a disconnect is the connection's own first reason, RTransport if it was healthy *)
Lemma result_events_disconnect rs id a p c :
  sm_find id (s_conns rs) = Some c ->
  result_events rs (SRDisconnected id a p) =
  [EvDisconnected id (match Conn.disconnect_reason c with Some x => x | None => RTransport end)].
Proof. intros E. cbn [result_events]. unfold srv_disconnect_reason. rewrite E. reflexivity. Qed.

(* ------------------------------------------------------------------ *)
(* 2. events of a chain of results                                     *)
(* ------------------------------------------------------------------ *)
Lemma last_is_connect_app id l1 l2 cur :
  last_is_connect id (l1 ++ l2) cur = last_is_connect id l2 (last_is_connect id l1 cur).
Proof. revert cur. induction l1 as [|e l1 IH]; intros cur; cbn [app last_is_connect]; [reflexivity | apply IH]. Qed.

Lemma alternates_app id l1 l2 b :
  alternates id b l1 -> alternates id (negb (last_is_connect id l1 (negb b))) l2 -> alternates id b (l1 ++ l2).
Proof.
  revert b. induction l1 as [|e l1 IH]; intros b; cbn [app alternates last_is_connect].
  - rewrite negb_involutive. auto.
  - destruct (ev_id e =? id).
    + intros [E A1] A2. split; [exact E|]. apply IH; [exact A1|]. rewrite negb_involutive. rewrite E in A2. exact A2.
    + apply IH.
Qed.

Lemma ev_rel_refl rs : ev_rel rs rs [].
Proof. split; [unfold new_events; rewrite app_nil_r; reflexivity|]. intros id. split; [exact I | reflexivity]. Qed.

Lemma ev_rel_trans a b c e1 e2 : ev_rel a b e1 -> ev_rel b c e2 -> ev_rel a c (e1 ++ e2).
Proof.
  unfold ev_rel, new_events. intros [E1 R1] [E2 R2]. split; [rewrite E2, E1, app_assoc; reflexivity|].
  intros id. destruct (R1 id) as [A1 M1]. destruct (R2 id) as [A2 M2]. split.
  - apply alternates_app; [exact A1|]. rewrite negb_involutive, <- M1. exact A2.
  - rewrite last_is_connect_app, <- M1. exact M2.
Qed.

Lemma ev_rel_step rs rs' r :
  mem_step rs rs' r -> new_events rs rs' (result_events rs r) -> ev_rel rs rs' (result_events rs r).
Proof.
  intros M E. split; [exact E|]. intros id.
  destruct r as [|a p|x p|x a u p|x a p]; cbn [mem_step result_events] in *;
    try (split; [exact I | cbn [last_is_connect]; apply M]).
  - destruct M as [M0 M]. cbn [alternates last_is_connect ev_id ev_is_connect]. rewrite M, (N.eqb_sym x id).
    destruct (id =? x) eqn:Ex; cbn [orb].
    + apply N.eqb_eq in Ex. subst x. rewrite M0. auto.
    + auto.
  - destruct M as [M0 M]. cbn [alternates last_is_connect ev_id ev_is_connect]. rewrite M, (N.eqb_sym x id).
    destruct (id =? x) eqn:Ex; cbn [negb andb].
    + apply N.eqb_eq in Ex. subst x. rewrite M0. auto.
    + auto.
Qed.

Lemma result_events_explained rs r e : In e (result_events rs r) -> ev_of_result r e.
Proof.
  destruct r; cbn [result_events In]; try tauto; intros [<-|[]]; reflexivity.
Qed.

Lemma nsrun_results_cons s o t s' rl :
  nsrun s (o :: t) = Ok (s', map NOResult rl) ->
  exists s1 r rl', rl = r :: rl' /\ nsstep s o = Ok (s1, NOResult r) /\ nsrun s1 t = Ok (s', map NOResult rl').
Proof.
  cbn [nsrun]. intros H. apply bind_ok in H. destruct H as [[s1 out] [E1 H]].
  apply bind_ok in H. destruct H as [[s2 outs] [E2 H]]. injection H as <- H.
  destruct rl as [|r rl']; cbn [map] in H; [discriminate|]. injection H as -> ->.
  exists s1, r, rl'. auto.
Qed.

(* the invariant of all three loops of the server transport, over any sequence of netcode calls *)
Lemma chain_lockstep : forall ops net rl net' rs outs rs' outs',
  table_inv net -> conns_sorted rs -> lockstep_n net rs ->
  nsrun net ops = Ok (net', map NOResult rl) -> apply_results rs outs rl = Ok (rs', outs') ->
  table_inv net' /\ conns_sorted rs' /\ lockstep_n net' rs' /\
  outs' = outs ++ flat_map result_dgrams rl /\
  exists evs, ev_rel rs rs' evs /\ (forall e, In e evs -> exists r, In r rl /\ ev_of_result r e) /\
              (forall r, In r rl -> result_reported r evs).
Proof.
  induction ops as [|o t IH]; intros net rl net' rs outs rs' outs' T Hs L N A.
  - cbn [nsrun] in N. injection N as <- N. destruct rl; [|discriminate].
    cbn [apply_results] in A. injection A as <- <-. cbn [flat_map]. rewrite app_nil_r.
    split; [exact T|]. split; [exact Hs|]. split; [exact L|]. split; [reflexivity|].
    exists []. split; [apply ev_rel_refl|]. split; [intros e [] | intros r []].
  - apply nsrun_results_cons in N. destruct N as (net1 & r & rl' & -> & S & N).
    cbn [apply_results] in A. apply bind_ok in A. destruct A as [[rs1 outs1] [H A]].
    pose proof (nsstep_ids_step _ _ _ _ T S) as I.
    destruct (handle_result_mem net r rs outs rs1 outs1 Hs L (ids_step_pre _ _ _ I) H) as (M & Hs1 & Ev & Eo).
    pose proof (mem_ids_lockstep _ _ _ _ _ L I M) as L1.
    destruct (IH _ _ _ _ _ _ _ (table_inv_step _ _ _ _ T S) Hs1 L1 N A) as (T' & Hs' & L' & Eo' & evs & R & X & Y).
    split; [exact T'|]. split; [exact Hs'|]. split; [exact L'|]. split.
    + rewrite Eo', Eo. cbn [flat_map]. rewrite app_assoc. reflexivity.
    + exists (result_events rs r ++ evs). split; [|split].
      * apply (ev_rel_trans _ rs1); [apply ev_rel_step; assumption | exact R].
      * intros e He. apply in_app_or in He. destruct He as [He|He].
        -- exists r. split; [left; reflexivity | apply (result_events_explained _ _ _ He)].
        -- destruct (X e He) as [r' [Hr' Hx]]. exists r'. split; [right; exact Hr' | exact Hx].
      * intros r0 [<-|Hr0].
        -- destruct r; cbn [result_reported result_events]; try exact Logic.I.
           ++ apply in_or_app. left. left. reflexivity.
           ++ eexists. apply in_or_app. left. left. reflexivity.
        -- specialize (Y r0 Hr0). destruct r0; cbn [result_reported] in *; try exact Logic.I.
           ++ apply in_or_app. right. exact Y.
           ++ destruct Y as [x Y]. exists x. apply in_or_app. right. exact Y.
Qed.

(* and as calls of the message layer's own API (Spec/ConnSpec.v): only add / remove / process *)
Lemma apply_results_srun : forall rl rs outs rs' outs',
  apply_results rs outs rl = Ok (rs', outs') ->
  exists souts, srun rs (flat_map result_sops rl) = Ok (rs', souts) /\ taken_events souts = [].
Proof.
  induction rl as [|r t IH]; intros rs outs rs' outs' A; cbn [apply_results] in A.
  - injection A as <- <-. exists []. split; reflexivity.
  - apply bind_ok in A. destruct A as [[rs1 outs1] [H A]]. destruct (IH _ _ _ _ A) as [souts [R Tk]].
    cbn [flat_map]. destruct r as [|a p|id p|id a u p|id a p]; cbn [result_sops app].
    + injection H as <- <-. eauto.
    + injection H as <- <-. eauto.
    + destruct (handle_payload_sstep _ _ _ _ _ _ H) as [S _]. exists (SONone :: souts).
      cbn [srun]. rewrite S. cbn [bind]. rewrite R. cbn [bind taken_events]. auto.
    + cbn [handle_server_result] in H. apply bind_ok in H. destruct H as [rs2 [E H]]. injection H as <- <-.
      apply of_pres_ok in E. exists (SONone :: souts).
      cbn [srun sstep]. rewrite E. cbn [bind]. rewrite R. cbn [bind taken_events]. auto.
    + cbn [handle_server_result] in H. injection H as <- <-. exists (SONone :: souts).
      cbn [srun sstep bind]. rewrite R. cbn [bind taken_events]. auto.
Qed.

Lemma process_ops_results rl : process_ops (flat_map result_sops rl) = payloads_of rl.
Proof.
  induction rl as [|r t IH]; [reflexivity|].
  unfold process_ops, payloads_of in *. cbn [flat_map]. rewrite flat_map_app, IH.
  destruct r; reflexivity.
Qed.

(* ------------------------------------------------------------------ *)
(* 3. the loops as chains                                              *)
(* ------------------------------------------------------------------ *)
(* THEOREM 6 (server side) *)
Theorem recv_loop_spec : forall q net rs outs net' rs' outs',
  recv_loop net rs q outs = Ok (net', rs', outs') ->
  nsrun net (recv_ops q) = Ok (net', map NOResult (server_results net q)) /\
  apply_results rs outs (server_results net q) = Ok (rs', outs').
Proof.
  induction q as [|[a b] t IH]; intros net rs outs net' rs' outs' H; cbn [recv_loop] in H.
  - injection H as <- <- <-. split; reflexivity.
  - apply bind_ok in H. destruct H as [[net1 r] [E H]]. apply of_nres_ok in E.
    apply bind_ok in H. destruct H as [[rs1 outs1] [Hh H]]. destruct (IH _ _ _ _ _ _ H) as [N A].
    cbn [recv_ops map fst snd server_results nsrun nsstep]. rewrite E. cbn [bind fst snd apply_results map].
    fold (recv_ops t). rewrite N. cbn [bind]. rewrite Hh. cbn [bind]. split; [reflexivity | exact A].
Qed.

(* in words: during the receive loop the message layer sees add / remove / process calls only, and the
   process_packet_from calls are exactly the (id, payload) pairs of the SRPayload results of
   NetcodeServer::process_packet on the queued datagrams, in order *)
Corollary recv_loop_surfaced q net rs outs net' rs' outs' :
  recv_loop net rs q outs = Ok (net', rs', outs') ->
  exists souts, srun rs (flat_map result_sops (server_results net q)) = Ok (rs', souts) /\
                process_ops (flat_map result_sops (server_results net q)) = server_surfaced net q.
Proof.
  intros H. destruct (recv_loop_spec _ _ _ _ _ _ _ H) as [_ A].
  destruct (apply_results_srun _ _ _ _ _ A) as [souts [R _]]. exists souts. split; [exact R|].
  apply process_ops_results.
Qed.

Lemma update_clients_trace : forall ids net rs outs net' rs' outs',
  update_clients ids net rs outs = Ok (net', rs', outs') ->
  exists rl, nsrun net (map NSUpdateClient ids) = Ok (net', map NOResult rl) /\
             apply_results rs outs rl = Ok (rs', outs').
Proof.
  induction ids as [|id t IH]; intros net rs outs net' rs' outs' H; cbn [update_clients] in H.
  - injection H as <- <- <-. exists []. split; reflexivity.
  - apply bind_ok in H. destruct H as [[net1 r] [E H]]. apply of_nres_ok in E.
    apply bind_ok in H. destruct H as [[rs1 outs1] [Hh H]]. destruct (IH _ _ _ _ _ _ H) as [rl [N A]].
    exists (r :: rl). cbn [map nsrun nsstep]. rewrite E. cbn [bind fst snd apply_results].
    rewrite N. cbn [bind]. rewrite Hh. cbn [bind]. split; [reflexivity | exact A].
Qed.

Lemma disconnect_clients_trace : forall ids net rs outs net' rs' outs',
  disconnect_clients ids net rs outs = Ok (net', rs', outs') ->
  exists rl, nsrun net (map NSDisconnect ids) = Ok (net', map NOResult rl) /\
             apply_results rs outs rl = Ok (rs', outs').
Proof.
  induction ids as [|id t IH]; intros net rs outs net' rs' outs' H; cbn [disconnect_clients] in H.
  - injection H as <- <- <-. exists []. split; reflexivity.
  - apply bind_ok in H. destruct H as [[net1 r] [E H]]. apply of_nres_ok in E.
    apply bind_ok in H. destruct H as [[rs1 outs1] [Hh H]]. destruct (IH _ _ _ _ _ _ H) as [rl [N A]].
    exists (r :: rl). cbn [map nsrun nsstep]. rewrite E. cbn [bind fst snd apply_results].
    rewrite N. cbn [bind]. rewrite Hh. cbn [bind]. split; [reflexivity | exact A].
Qed.

Lemma nsrun_app : forall a b s s1 o1 s2 o2,
  nsrun s a = Ok (s1, o1) -> nsrun s1 b = Ok (s2, o2) -> nsrun s (a ++ b) = Ok (s2, o1 ++ o2).
Proof.
  induction a as [|o a IH]; intros b s s1 o1 s2 o2 H1 H2.
  - cbn [nsrun] in H1. injection H1 as <- <-. exact H2.
  - cbn [nsrun] in H1. apply bind_ok in H1. destruct H1 as [[s0 out] [E H1]].
    apply bind_ok in H1. destruct H1 as [[s0' outs0] [R H1]]. injection H1 as <- <-.
    cbn [app nsrun]. rewrite E. cbn [bind]. rewrite (IH _ _ _ _ _ _ R H2). reflexivity.
Qed.

Lemma apply_results_app : forall l1 l2 rs outs rs1 outs1 x,
  apply_results rs outs l1 = Ok (rs1, outs1) -> apply_results rs1 outs1 l2 = Ok x ->
  apply_results rs outs (l1 ++ l2) = Ok x.
Proof.
  induction l1 as [|r l1 IH]; intros l2 rs outs rs1 outs1 x H1 H2.
  - cbn [apply_results] in H1. injection H1 as <- <-. exact H2.
  - cbn [apply_results] in H1. apply bind_ok in H1. destruct H1 as [[rs0 outs0] [E H1]].
    cbn [app apply_results]. rewrite E. cbn [bind]. apply (IH _ _ _ _ _ _ H1 H2).
Qed.

(* the disconnect loop: exactly the listed ids leave the netcode table, and the connection objects
   that remain in the message layer are untouched *)
Lemma disconnect_clients_spec : forall ids net rs outs net' rs' outs',
  table_inv net -> conns_sorted rs -> lockstep_n net rs ->
  disconnect_clients ids net rs outs = Ok (net', rs', outs') ->
  (forall x, In x (NServer.clients_id net') <-> In x (NServer.clients_id net) /\ ~ In x ids) /\
  (forall x c, sm_find x (s_conns rs') = Some c -> sm_find x (s_conns rs) = Some c).
Proof.
  induction ids as [|id t IH]; intros net rs outs net' rs' outs' T Hs L H; cbn [disconnect_clients] in H.
  - injection H as <- <- <-. split; [|auto]. intros x. cbn [In]. tauto.
  - apply bind_ok in H. destruct H as [[net1 r] [E H]]. apply of_nres_ok in E.
    apply bind_ok in H. destruct H as [[rs1 outs1] [Hh H]].
    assert (S : nsstep net (NSDisconnect id) = Ok (net1, NOResult r)) by (cbn [nsstep]; rewrite E; reflexivity).
    pose proof (nsstep_ids_step _ _ _ _ T S) as I.
    destruct (handle_result_lockstep_step _ _ _ _ _ _ _ _ T S Hs L Hh) as (T1 & L1 & Hs1 & _ & _).
    destruct (IH _ _ _ _ _ _ T1 Hs1 L1 H) as [A B].
    apply nserver_disconnect_spec in E. destruct E as [Hn | slot c p Hf _].
    + injection Hh as <- <-. apply find_by_id_none_ids in Hn. split; [|exact B].
      intros x. rewrite A. cbn [In]. split; [|tauto]. intros [Hx Ht]. split; [exact Hx|].
      intros [Heq|Hx']; [subst; contradiction | contradiction].
    + cbn [handle_server_result] in Hh. injection Hh as <- _. cbn [ids_step] in I. destruct I as [_ I]. split.
      * intros x. rewrite A, I. cbn [In]. split.
        -- intros [[Hne Hx] Ht]. split; [exact Hx|]. intros [Heq|Hx']; [subst; congruence | contradiction].
        -- intros [Hx Hn]. split; [split; [intros ->; apply Hn; left; reflexivity | exact Hx] | tauto].
      * intros x c0 Hx. apply B in Hx. unfold remove_connection in Hx.
        destruct (sm_find id (s_conns rs)) as [cx|] eqn:Ex; [|exact Hx].
        cbn [s_conns with_events with_conns] in Hx. rewrite sm_find_remove in Hx by exact Hs.
        destruct (x =? id); [discriminate | exact Hx].
Qed.

Lemma disconnections_in rs x :
  In x (Server.disconnections_id rs) <-> exists c, In (x, c) (s_conns rs) /\ Conn.is_disconnected c = true.
Proof.
  unfold Server.disconnections_id. rewrite in_map_iff. split.
  - intros [[k c] [E Hin]]. cbn [fst] in E. subst k. apply filter_In in Hin. cbn [snd] in Hin. eauto.
  - intros [c [Hin Hd]]. exists (x, c). split; [reflexivity|]. apply filter_In. auto.
Qed.

Lemma nserver_update_ids s dt : NServer.clients_id (nserver_update s dt) = NServer.clients_id s.
Proof. reflexivity. Qed.

(* ------------------------------------------------------------------ *)
(* 4. NetcodeServerTransport::update                                   *)
(* ------------------------------------------------------------------ *)
Lemma tserver_update_full t rs dt t' rs' outs :
  table_inv (ts_net t) -> conns_sorted rs -> lockstep t rs ->
  tserver_update t rs dt = Ok (t', rs', outs) ->
  (lockstep t' rs' /\ conns_sorted rs' /\ table_inv (ts_net t') /\ Server.disconnections_id rs' = [] /\ ts_in t' = []) /\
  exists ops rl evs,
    nsrun (ts_net t) (NSUpdate dt :: ops) = Ok (ts_net t', NONothing :: map NOResult rl) /\
    apply_results rs [] rl = Ok (rs', outs) /\
    outs = flat_map result_dgrams rl /\
    ev_rel rs rs' evs /\ (forall e, In e evs -> exists r, In r rl /\ ev_of_result r e) /\
    (forall r, In r rl -> result_reported r evs).
Proof.
  intros T Hs L H. unfold tserver_update in H.
  apply bind_ok in H. destruct H as [[[net1 rs1] o1] [H1 H]].
  apply bind_ok in H. destruct H as [[[net2 rs2] o2] [H2 H]].
  apply bind_ok in H. destruct H as [[[net3 rs3] o3] [H3 H]]. injection H as <- <- <-. cbn [ts_net ts_in].
  pose proof (table_inv_update _ dt T) as T0.
  assert (L0 : lockstep_n (nserver_update (ts_net t) dt) rs) by exact L.
  destruct (recv_loop_spec _ _ _ _ _ _ _ H1) as [N1 A1].
  destruct (update_clients_trace _ _ _ _ _ _ _ H2) as [rl2 [N2 A2]].
  destruct (disconnect_clients_trace _ _ _ _ _ _ _ H3) as [rl3 [N3 A3]].
  pose proof (nsrun_app _ _ _ _ _ _ _ N1 N2) as N12. rewrite <- map_app in N12.
  pose proof (apply_results_app _ _ _ _ _ _ _ A1 A2) as A12.
  destruct (chain_lockstep _ _ _ _ _ _ _ _ T0 Hs L0 N12 A12) as (T2 & Hs2 & L2 & _ & _).
  pose proof (nsrun_app _ _ _ _ _ _ _ N12 N3) as N. rewrite <- map_app in N.
  pose proof (apply_results_app _ _ _ _ _ _ _ A12 A3) as A.
  destruct (chain_lockstep _ _ _ _ _ _ _ _ T0 Hs L0 N A) as (T3 & Hs3 & L3 & Eo & evs & R & X & Y).
  split.
  - split; [exact L3|]. split; [exact Hs3|]. split; [exact T3|]. split; [|reflexivity].
    destruct (disconnect_clients_spec _ _ _ _ _ _ _ T2 Hs2 L2 H3) as [D1 D2].
    destruct (Server.disconnections_id rs3) as [|x l] eqn:Ed; [reflexivity|]. exfalso.
    assert (Hx : In x (Server.disconnections_id rs3)) by (rewrite Ed; left; reflexivity).
    apply disconnections_in in Hx. destruct Hx as [c [Hin Hd]].
    pose proof (sm_in_find _ _ _ Hs3 Hin) as Hf.
    assert (Hm : In x (NServer.clients_id net3)) by (apply L3; apply (sm_mem_find_some _ _ _ Hf)).
    apply D1 in Hm. destruct Hm as [_ Hm]. apply Hm. apply disconnections_in. exists c.
    split; [apply sm_find_in_; apply D2; exact Hf | exact Hd].
  - eexists _, _, evs. split; [|split; [exact A | split; [exact Eo | split; [exact R | split; [exact X | exact Y]]]]].
    cbn [nsrun nsstep bind]. rewrite N. reflexivity.
Qed.

(* THEOREM 2 *)
Theorem tserver_update_lockstep t rs dt t' rs' outs :
  table_inv (ts_net t) -> conns_sorted rs -> lockstep t rs ->
  tserver_update t rs dt = Ok (t', rs', outs) ->
  lockstep t' rs' /\ conns_sorted rs' /\ table_inv (ts_net t') /\ Server.disconnections_id rs' = [].
Proof.
  intros T Hs L H. destruct (tserver_update_full _ _ _ _ _ _ T Hs L H) as [(A & B & C & D & _) _]. auto.
Qed.

(* ts_in plays no part: the queue is consumed *)
Lemma tserver_update_queue t rs dt t' rs' outs : tserver_update t rs dt = Ok (t', rs', outs) -> ts_in t' = [].
Proof.
  unfold tserver_update. intros H.
  apply bind_ok in H. destruct H as [[[net1 rs1] o1] [H1 H]].
  apply bind_ok in H. destruct H as [[[net2 rs2] o2] [H2 H]].
  apply bind_ok in H. destruct H as [[[net3 rs3] o3] [H3 H]]. injection H as <- <- <-. reflexivity.
Qed.

(* ------------------------------------------------------------------ *)
(* 5. application calls, send_packets, disconnect_all                  *)
(* ------------------------------------------------------------------ *)
Lemma app_step_sstep rs o rs' : app_step rs o = Ok rs' -> exists out, sstep rs (app_sop o) = Ok (rs', out).
Proof.
  destruct o as [id ch m|ch m|id ch m|id ch|id| | |dt]; cbn [app_step app_sop sstep]; intros H.
  - rewrite H. cbn [bind]. eauto.
  - rewrite H. cbn [bind]. eauto.
  - rewrite H. cbn [bind]. eauto.
  - apply bind_ok in H. destruct H as [[rs1 m] [E H]]. injection H as <-. rewrite E. cbn [bind fst]. eauto.
  - injection H as <-. eauto.
  - injection H as <-. eauto.
  - injection H as <-. destruct (get_event rs) as [rs1 e]. cbn [fst]. eauto.
  - rewrite H. cbn [bind]. eauto.
Qed.

Lemma app_sop_presence o id : touches_presence (app_sop o) id = false.
Proof. destruct o; reflexivity. Qed.

(* THEOREM 4a: application calls never add or remove connection objects *)
Theorem app_step_lockstep t rs o rs' :
  lockstep t rs -> conns_sorted rs -> app_step rs o = Ok rs' -> lockstep t rs' /\ conns_sorted rs'.
Proof.
  intros L Hs H. destruct (app_step_sstep _ _ _ H) as [out S]. split.
  - intros id. rewrite (sstep_mem_same _ _ _ _ S (app_sop_presence o) id). apply L.
  - apply (sstep_sorted _ _ _ _ Hs S).
Qed.

(* they do not append events either (get_event takes the front one out) *)
Lemma app_step_events rs o rs' :
  app_step rs o = Ok rs' ->
  match o with AGetEvent => s_events rs' = tl (s_events rs) | _ => s_events rs' = s_events rs end.
Proof.
  intros H. destruct (app_step_sstep _ _ _ H) as [out S]. pose proof (sstep_events_same _ _ _ _ S) as E.
  destruct o; cbn [app_sop] in E; try apply E.
  cbn [app_step] in H. injection H as <-. unfold get_event.
  destruct (s_events rs) eqn:E0; cbn [fst s_events with_events tl]; [exact E0 | reflexivity].
Qed.

(* per client: sealing keeps the table *)
Lemma seal_all_spec : forall pk net id outs net' outs',
  table_inv net -> seal_all net id pk outs = Ok (net', outs') ->
  table_inv net' /\ NServer.clients_id net' = NServer.clients_id net /\ exists sent, outs' = outs ++ sent.
Proof.
  induction pk as [|p t IH]; intros net id outs net' outs' T H; cbn [seal_all] in H.
  - injection H as <- <-. split; [exact T|]. split; [reflexivity|]. exists []. rewrite app_nil_r. reflexivity.
  - destruct (generate_payload_packet net id p) as [net1 r] eqn:E. apply generate_payload_spec in E.
    assert (K : table_inv net1 /\ NServer.clients_id net1 = NServer.clients_id net).
    { destruct E as [e | slot c out Hf He]; [auto|]. split.
      - apply (table_inv_slot_update _ _ _ _ _ T Hf); reflexivity.
      - rewrite !clients_id_connected. apply (ids_slot_update _ _ _ _ _ Hf). reflexivity. }
    destruct K as [T1 I1]. destruct r as [[a d]|e|site]; [| |discriminate].
    + destruct (IH _ _ _ _ _ T1 H) as (T' & I' & sent & ->). split; [exact T'|]. split; [congruence|].
      exists ((a, d) :: sent). rewrite <- app_assoc. reflexivity.
    + injection H as <- <-. split; [exact T1|]. split; [exact I1|]. exists []. rewrite app_nil_r. reflexivity.
Qed.

Lemma send_clients_spec : forall ids net rs outs net' rs' outs',
  table_inv net -> conns_sorted rs -> send_clients ids net rs outs = Ok (net', rs', outs') ->
  table_inv net' /\ NServer.clients_id net' = NServer.clients_id net /\ conns_sorted rs' /\
  (forall x, sm_mem x (s_conns rs') = sm_mem x (s_conns rs)) /\ s_events rs' = s_events rs.
Proof.
  induction ids as [|id t IH]; intros net rs outs net' rs' outs' T Hs H; cbn [send_clients] in H.
  - injection H as <- <- <-. auto.
  - apply bind_ok in H. destruct H as [[rs1 pk] [E H]]. apply of_pres_ok in E.
    destruct pk as [pk|]; [|discriminate].
    apply bind_ok in H. destruct H as [[net1 outs1] [Hs1 H]].
    assert (S : sstep rs (SFlush id) = Ok (rs1, SOPkts (Some pk))) by (cbn [sstep]; rewrite E; reflexivity).
    destruct (seal_all_spec _ _ _ _ _ _ T Hs1) as (T1 & I1 & _).
    destruct (IH _ _ _ _ _ _ T1 (sstep_sorted _ _ _ _ Hs S) H) as (T' & I' & Hs' & M' & Ev').
    split; [exact T'|]. split; [congruence|]. split; [exact Hs'|]. split.
    + intros x. rewrite M'. apply (sstep_mem_same _ _ _ _ S). intros y. reflexivity.
    + rewrite Ev'. apply (sstep_events_same _ _ _ _ S).
Qed.

(* THEOREM 4b *)
Theorem tserver_send_lockstep t rs t' rs' outs :
  table_inv (ts_net t) -> conns_sorted rs -> lockstep t rs ->
  tserver_send t rs = Ok (t', rs', outs) ->
  lockstep t' rs' /\ conns_sorted rs' /\ table_inv (ts_net t') /\ ts_in t' = ts_in t /\ s_events rs' = s_events rs.
Proof.
  intros T Hs L H. unfold tserver_send in H. apply bind_ok in H. destruct H as [[[net1 rs1] o1] [H1 H]].
  injection H as <- <- <-. cbn [ts_net ts_in].
  destruct (send_clients_spec _ _ _ _ _ _ _ T Hs H1) as (T' & I' & Hs' & M' & Ev').
  split; [|auto]. intros id. unfold lockstep in L. cbn [ts_net]. rewrite M', I'. apply L.
Qed.

Lemma no_members_nil {A} (l : list A) : (forall x, ~ In x l) -> l = [].
Proof. destruct l as [|a l]; [reflexivity|]. intros H. exfalso. apply (H a). left. reflexivity. Qed.

(* THEOREM 4c *)
Theorem tserver_disconnect_all_lockstep t rs t' rs' outs :
  table_inv (ts_net t) -> conns_sorted rs -> lockstep t rs ->
  tserver_disconnect_all t rs = Ok (t', rs', outs) ->
  lockstep t' rs' /\ conns_sorted rs' /\ table_inv (ts_net t') /\
  NServer.clients_id (ts_net t') = [] /\ s_conns rs' = [] /\ ts_in t' = ts_in t /\
  exists evs, ev_rel rs rs' evs.
Proof.
  intros T Hs L H. unfold tserver_disconnect_all in H. apply bind_ok in H. destruct H as [[[net1 rs1] o1] [H1 H]].
  injection H as <- <- <-. cbn [ts_net ts_in].
  destruct (disconnect_clients_trace _ _ _ _ _ _ _ H1) as [rl [N A]].
  destruct (chain_lockstep _ _ _ _ _ _ _ _ T Hs L N A) as (T' & Hs' & L' & _ & evs & R & _ & _).
  destruct (disconnect_clients_spec _ _ _ _ _ _ _ T Hs L H1) as [D _].
  assert (E1 : NServer.clients_id net1 = []).
  { apply no_members_nil. intros x Hx. apply D in Hx. tauto. }
  split; [exact L'|]. split; [exact Hs'|]. split; [exact T'|]. split; [exact E1|]. split; [|split; [reflexivity | eauto]].
  destruct (s_conns rs1) as [|[k c] l] eqn:Ec; [reflexivity|]. exfalso.
  assert (Hk : In k (NServer.clients_id net1)).
  { apply L'. rewrite Ec. unfold sm_mem. cbn [sm_find]. rewrite N.eqb_refl. reflexivity. }
  rewrite E1 in Hk. exact Hk.
Qed.

(* ------------------------------------------------------------------ *)
(* 6. the client transport                                             *)
(* ------------------------------------------------------------------ *)
(* the receive loop IS: feed the surfaced payloads, in order, to the message layer *)
Lemma client_recv_loop_eq : forall q net rc,
  client_recv_loop net rc q =
  (do rc' <- of_pres (process_all rc (surfaced_payloads net q)); Ok (client_after net q, rc')).
Proof.
  induction q as [|[a b] t IH]; intros net rc; cbn [client_recv_loop surfaced_payloads client_after].
  - reflexivity.
  - destruct (negb (addr_eqb a (cl_server_addr net))); [apply IH|].
    destruct (nclient_process_packet net (recv_trunc b)) as [net1 o]. cbn [fst].
    destruct o as [p|]; [|apply IH].
    cbn [process_all]. destruct (Conn.process_packet rc p) as [rc1|e|site]; cbn [bind of_pres];
      [apply IH | reflexivity | reflexivity].
Qed.

(* THEOREM 6 (client side) *)
Theorem client_recv_loop_spec q net rc net' rc' :
  client_recv_loop net rc q = Ok (net', rc') ->
  process_all rc (surfaced_payloads net q) = Ok rc' /\ net' = client_after net q.
Proof.
  rewrite client_recv_loop_eq. intros H. apply bind_ok in H. destruct H as [rc1 [E H]].
  apply of_pres_ok in E. injection H as <- <-. auto.
Qed.

(* process_all is a run of CProcess calls of Spec/ConnSpec.v *)
Lemma process_all_crun : forall ps rc rc',
  process_all rc ps = Ok rc' -> exists outs, crun rc (map CProcess ps) = Ok (rc', outs).
Proof.
  induction ps as [|p t IH]; intros rc rc' H; cbn [process_all] in H.
  - injection H as <-. exists []. reflexivity.
  - apply bind_ok in H. destruct H as [rc1 [E H]]. destruct (IH _ _ H) as [outs R].
    exists (ONone :: outs). cbn [map crun cstep]. rewrite E. cbn [bind]. rewrite R. reflexivity.
Qed.

(* NetcodeClient::disconnect always produces its datagram *)
Lemma nclient_disconnect_spec c :
  exists d, nclient_disconnect c =
              (cl_set c (CDisconnected CRByClient) (cl_last_send c) (cl_last_recv c) (cl_seq c), Ok (cl_server_addr c, d)) /\
            encode CL_CAP PDisconnect (protocol_of c) (Some (cl_seq c, c2s_key c)) = Ok d.
Proof.
  destruct (disconnect_encodes (protocol_of c) (cl_seq c) (c2s_key c)) as [d E].
  change OUT_CAP with CL_CAP in E. exists d. split; [|exact E].
  unfold nclient_disconnect.
  change (protocol_of (cl_set c (CDisconnected CRByClient) (cl_last_send c) (cl_last_recv c) (cl_seq c))) with (protocol_of c).
  change (c2s_key (cl_set c (CDisconnected CRByClient) (cl_last_send c) (cl_last_recv c) (cl_seq c))) with (c2s_key c).
  cbn [cl_seq cl_set cl_server_addr]. rewrite E. reflexivity.
Qed.

Lemma mirror_status_live net rc :
  NClient.disconnect_reason net = None ->
  mirror_status net rc = if NClient.is_connected net then set_connected rc else set_connecting rc.
Proof.
  unfold mirror_status, NClient.disconnect_reason, NClient.is_connected, NClient.is_connecting.
  destruct (cl_state net); intros H; try reflexivity. discriminate.
Qed.

(* THEOREM 5 *)
Theorem tclient_update_mirrors t rc dt t' rc' outs e :
  tclient_update t rc dt = Ok (t', rc', outs, e) ->
  match NClient.disconnect_reason (tc_net t), Conn.disconnect_reason rc with
  | Some r, _ =>
      (* (a) the netcode client is dead: pushed up, nothing else happens *)
      e = Some (TENetcodeDisconnected r) /\ rc' = disconnect_transport rc /\ outs = [] /\ t' = t
  | None, Some x =>
      (* (b) the message layer is dead: pushed down, one disconnect datagram to the server *)
      e = Some (TERenet x) /\ rc' = rc /\ cl_state (tc_net t') = CDisconnected CRByClient /\ tc_in t' = tc_in t /\
      exists d, outs = [(cl_server_addr (tc_net t), d)] /\
                encode CL_CAP PDisconnect (protocol_of (tc_net t)) (Some (cl_seq (tc_net t), c2s_key (tc_net t))) = Ok d
  | None, None =>
      (* (c) both alive: the status is mirrored BEFORE the queue is processed *)
      e = None /\ tc_in t' = [] /\
      exists o,
        process_all (mirror_status (tc_net t) rc) (surfaced_payloads (tc_net t) (tc_in t)) = Ok rc' /\
        nclient_update (client_after (tc_net t) (tc_in t)) dt = Ok (tc_net t', o) /\
        outs = match o with Some (d, a) => [(a, d)] | None => [] end /\ (length outs <= 1)%nat
  end.
Proof.
  unfold tclient_update. destruct (NClient.disconnect_reason (tc_net t)) as [r|] eqn:Er.
  { intros H. injection H as <- <- <- <-. auto. }
  destruct (Conn.disconnect_reason rc) as [x|] eqn:Ex.
  { destruct (nclient_disconnect_spec (tc_net t)) as [d [-> Ed]]. intros H. injection H as <- <- <- <-.
    cbn [tc_net tc_in cl_state cl_set]. repeat (split; [reflexivity|]). exists d. auto. }
  fold (mirror_status (tc_net t) rc). intros H.
  apply bind_ok in H. destruct H as [[net1 rc2] [H1 H]]. apply client_recv_loop_spec in H1. destruct H1 as [P ->].
  apply bind_ok in H. destruct H as [[net2 o] [H2 H]]. apply of_nres_ok in H2. injection H as <- <- <- <-.
  cbn [tc_net tc_in]. split; [reflexivity|]. split; [reflexivity|]. exists o.
  split; [exact P|]. split; [exact H2|]. split; [reflexivity|]. destruct o as [[d a]|]; cbn [length]; lia.
Qed.

(* the three cases are exhaustive and the mirrored status is the netcode one *)
Corollary tclient_update_status t rc dt t' rc' outs :
  tclient_update t rc dt = Ok (t', rc', outs, None) ->
  NClient.disconnect_reason (tc_net t) = None /\ Conn.disconnect_reason rc = None /\
  mirror_status (tc_net t) rc = (if NClient.is_connected (tc_net t) then set_connected rc else set_connecting rc).
Proof.
  intros H. pose proof (tclient_update_mirrors _ _ _ _ _ _ _ H) as M.
  destruct (NClient.disconnect_reason (tc_net t)) as [r|] eqn:Er; [destruct M as [M _]; discriminate|].
  destruct (Conn.disconnect_reason rc) as [x|] eqn:Ex; [destruct M as [M _]; discriminate|].
  split; [reflexivity|]. split; [reflexivity|]. apply mirror_status_live. exact Er.
Qed.

Theorem tclient_disconnect_spec t t' outs :
  tclient_disconnect t = Ok (t', outs) ->
  if NClient.is_disconnected (tc_net t) then t' = t /\ outs = []
  else cl_state (tc_net t') = CDisconnected CRByClient /\ tc_in t' = tc_in t /\
       exists d, outs = [(cl_server_addr (tc_net t), d)] /\
                 encode CL_CAP PDisconnect (protocol_of (tc_net t)) (Some (cl_seq (tc_net t), c2s_key (tc_net t))) = Ok d.
Proof.
  unfold tclient_disconnect. destruct (NClient.is_disconnected (tc_net t)).
  - intros H. injection H as <- <-. auto.
  - destruct (nclient_disconnect_spec (tc_net t)) as [d [-> Ed]]. intros H. injection H as <- <-.
    cbn [tc_net tc_in cl_state cl_set]. repeat (split; [reflexivity|]). exists d. auto.
Qed.

(* send_packets on a dead netcode client: reported, nothing sent, nothing changed *)
Lemma client_seal_all_spec : forall pk net outs net' outs' e,
  client_seal_all net pk outs = Ok (net', outs', e) -> exists sent, outs' = outs ++ sent /\ (length sent <= length pk)%nat.
Proof.
  induction pk as [|p t IH]; intros net outs net' outs' e H; cbn [client_seal_all] in H.
  - injection H as <- <- <-. exists []. rewrite app_nil_r. auto.
  - destruct (nclient_generate_payload net p) as [net1 r]. destruct r as [[a d]|x|site]; [| |discriminate].
    + destruct (IH _ _ _ _ _ H) as [sent [-> Hl]]. exists ((a, d) :: sent). rewrite <- app_assoc.
      split; [reflexivity | cbn [length]; lia].
    + injection H as <- <- <-. exists []. rewrite app_nil_r. split; [reflexivity | cbn [length]; lia].
Qed.

Theorem tclient_send_spec t rc t' rc' outs e :
  tclient_send t rc = Ok (t', rc', outs, e) ->
  match NClient.disconnect_reason (tc_net t) with
  | Some r => e = Some (TENetcodeDisconnected r) /\ t' = t /\ rc' = rc /\ outs = []
  | None => tc_in t' = tc_in t /\ exists pk, get_packets_to_send rc = Ok (rc', pk) /\ (length outs <= length pk)%nat
  end.
Proof.
  unfold tclient_send. destruct (NClient.disconnect_reason (tc_net t)) as [r|].
  - intros H. injection H as <- <- <- <-. auto.
  - intros H. apply bind_ok in H. destruct H as [[rc1 pk] [E H]]. apply of_pres_ok in E.
    apply bind_ok in H. destruct H as [[[net1 o1] e1] [S H]]. injection H as <- <- <- <-.
    cbn [tc_in]. split; [reflexivity|]. exists pk. split; [exact E|].
    destruct (client_seal_all_spec _ _ _ _ _ _ S) as [sent [-> Hl]]. exact Hl.
Qed.

(* ------------------------------------------------------------------ *)
(* 7. events of one update                                             *)
(* ------------------------------------------------------------------ *)
Lemma last_is_connect_change id : forall evs cur b,
  last_is_connect id evs cur = b -> cur <> b -> exists e, In e evs /\ ev_id e = id /\ ev_is_connect e = b.
Proof.
  induction evs as [|a t IH]; intros cur b; cbn [last_is_connect].
  - intros -> H. contradiction.
  - intros H Hne. destruct (ev_id a =? id) eqn:E.
    + destruct (bool_dec (ev_is_connect a) b) as [Eb|Eb].
      * exists a. split; [left; reflexivity|]. split; [apply N.eqb_eq; exact E | exact Eb].
      * destruct (IH _ _ H Eb) as [e [Hin He]]. exists e. split; [right; exact Hin | exact He].
    + destruct (IH _ _ H Hne) as [e [Hin He]]. exists e. split; [right; exact Hin | exact He].
Qed.

Lemma ev_rel_connect rs rs' evs id :
  ev_rel rs rs' evs -> sm_mem id (s_conns rs) = false -> sm_mem id (s_conns rs') = true -> In (EvConnected id) evs.
Proof.
  intros [_ R] Hb Ha. destruct (R id) as [_ M]. rewrite Hb, Ha in M. symmetry in M.
  destruct (last_is_connect_change _ _ _ _ M) as [e [Hin [Hid Hc]]]; [discriminate|].
  destruct e as [x|x r]; cbn [ev_id ev_is_connect] in *; [subst x; exact Hin | discriminate].
Qed.

Lemma ev_rel_disconnect rs rs' evs id :
  ev_rel rs rs' evs -> sm_mem id (s_conns rs) = true -> sm_mem id (s_conns rs') = false ->
  exists r, In (EvDisconnected id r) evs.
Proof.
  intros [_ R] Hb Ha. destruct (R id) as [_ M]. rewrite Hb, Ha in M. symmetry in M.
  destruct (last_is_connect_change _ _ _ _ M) as [e [Hin [Hid Hc]]]; [discriminate|].
  destruct e as [x|x r]; cbn [ev_id ev_is_connect] in *; [discriminate | subst x; eauto].
Qed.

(* #Connected and #Disconnected about one id differ by at most one, as the presence changes *)
Lemma alternates_counts id : forall evs p,
  alternates id (negb p) evs ->
  (count_connects id evs + Nat.b2n p = count_disconnects id evs + Nat.b2n (last_is_connect id evs p))%nat.
Proof.
  unfold count_connects, count_disconnects.
  induction evs as [|a t IH]; intros p; cbn [alternates last_is_connect filter length].
  - reflexivity.
  - destruct (ev_id a =? id) eqn:E; cbn [andb].
    + intros [Ec A]. rewrite negb_involutive in A.
      assert (A' : alternates id (negb (ev_is_connect a)) t) by (rewrite Ec, negb_involutive; exact A).
      specialize (IH _ A').
      destruct (ev_is_connect a), p; cbn [negb] in *; try discriminate; cbn [length Nat.b2n] in *; lia.
    + intros A. apply (IH _ A).
Qed.

Lemma result_sops_shape rl :
  Forall (fun o => match o with SAdd _ | SRemove _ | SProcess _ _ => True | _ => False end) (flat_map result_sops rl).
Proof.
  induction rl as [|r t IH]; cbn [flat_map]; [constructor|].
  apply Forall_app. split; [|exact IH]. destruct r; cbn [result_sops]; repeat constructor.
Qed.

(* THEOREM 3 *)
Theorem tserver_update_events t rs dt t' rs' outs :
  table_inv (ts_net t) -> conns_sorted rs -> lockstep t rs ->
  tserver_update t rs dt = Ok (t', rs', outs) ->
  exists evs ops rl,
    new_events rs rs' evs /\
    (* the netcode results of this very update explain every event *)
    nsrun (ts_net t) (NSUpdate dt :: ops) = Ok (ts_net t', NONothing :: map NOResult rl) /\
    (forall e, In e evs -> exists r, In r rl /\ ev_of_result r e) /\
    (* and every connect / disconnect the netcode layer reported is pushed up as an event *)
    (forall r, In r rl -> result_reported r evs) /\
    (* the message layer saw add_connection / remove_connection / process_packet_from calls only *)
    (exists souts, srun rs (flat_map result_sops rl) = Ok (rs', souts) /\ taken_events souts = []) /\
    forall id,
      let before := sm_mem id (s_conns rs) in
      let after := sm_mem id (s_conns rs') in
      alternates id (negb before) evs /\ after = last_is_connect id evs before /\
      (count_connects id evs + Nat.b2n before = count_disconnects id evs + Nat.b2n after)%nat /\
      (before = false -> after = true -> In (EvConnected id) evs) /\
      (before = true -> after = false -> exists r, In (EvDisconnected id r) evs).
Proof.
  intros T Hs L H. destruct (tserver_update_full _ _ _ _ _ _ T Hs L H) as [_ (ops & rl & evs & N & A & _ & R & X & Y)].
  exists evs, ops, rl. split; [apply R|]. split; [exact N|]. split; [exact X|]. split; [exact Y|].
  split; [apply (apply_results_srun _ _ _ _ _ A)|].
  intros id before after. destruct R as [E R0]. destruct (R0 id) as [Al M]. fold before after in Al, M.
  split; [exact Al|]. split; [exact M|]. split; [rewrite M; apply alternates_counts; exact Al|].
  split; intros Hb Ha.
  - apply (ev_rel_connect rs rs' evs id (conj E R0)); assumption.
  - apply (ev_rel_disconnect rs rs' evs id (conj E R0)); assumption.
Qed.

(* over whole runs: a transport update is a call sequence of the message layer's API, so
   ServerP.events_alternate covers any interleaving of application calls and transport updates *)
Corollary tserver_update_ev_inv T t rs dt t' rs' outs :
  table_inv (ts_net t) -> conns_sorted rs -> lockstep t rs -> ev_inv T rs ->
  tserver_update t rs dt = Ok (t', rs', outs) -> ev_inv T rs'.
Proof.
  intros Tb Hs L Hi H.
  destruct (tserver_update_events _ _ _ _ _ _ Tb Hs L H) as (evs & ops & rl & _ & _ & _ & _ & [souts [R Tk]] & _).
  pose proof (srun_ev_inv _ _ _ _ _ Hs Hi R) as K. rewrite Tk, app_nil_r in K. exact K.
Qed.

(* ------------------------------------------------------------------ *)
(* 7b. pushed down, with the message layer's own reason; payloads find their connection *)
(* ------------------------------------------------------------------ *)
Definition reason_of (c : conn) : reason := match Conn.disconnect_reason c with Some x => x | None => RTransport end.

Lemma handle_result_events_extend r rs outs rs' outs' :
  handle_server_result r rs outs = Ok (rs', outs') -> exists evs, s_events rs' = s_events rs ++ evs.
Proof.
  destruct r as [|a p|x p|x a u p|x a p]; cbn [handle_server_result]; intros H.
  - injection H as <- <-. exists []. rewrite app_nil_r. reflexivity.
  - injection H as <- <-. exists []. rewrite app_nil_r. reflexivity.
  - destruct (handle_payload_sstep _ _ _ _ _ _ H) as [S _]. exists []. rewrite app_nil_r.
    apply (sstep_events_same _ _ _ _ S).
  - apply bind_ok in H. destruct H as [rs1 [E H]]. injection H as <- <-. apply of_pres_ok in E.
    unfold add_connection in E. destruct (sm_mem x (s_conns rs)).
    + injection E as <-. exists []. rewrite app_nil_r. reflexivity.
    + destruct (new_from_server rs); cbn [bind] in E; try discriminate. injection E as <-. eexists. reflexivity.
  - injection H as <- <-. unfold remove_connection. destruct (sm_find x (s_conns rs)).
    + eexists. reflexivity.
    + exists []. rewrite app_nil_r. reflexivity.
Qed.

Lemma apply_results_events_extend : forall rl rs outs rs' outs',
  apply_results rs outs rl = Ok (rs', outs') -> exists evs, s_events rs' = s_events rs ++ evs.
Proof.
  induction rl as [|r t IH]; intros rs outs rs' outs' A; cbn [apply_results] in A.
  - injection A as <- <-. exists []. rewrite app_nil_r. reflexivity.
  - apply bind_ok in A. destruct A as [[rs1 outs1] [H A]].
    destruct (handle_result_events_extend _ _ _ _ _ H) as [e1 E1]. destruct (IH _ _ _ _ A) as [e2 E2].
    exists (e1 ++ e2). rewrite E2, E1, app_assoc. reflexivity.
Qed.

(* a disconnected connection object is either still there, untouched, after any chain of results, or its
   removal was reported with its own reason *)
Lemma chain_disconnected_object id c : forall rl rs outs rs' outs',
  conns_sorted rs -> sm_find id (s_conns rs) = Some c -> Conn.is_disconnected c = true ->
  apply_results rs outs rl = Ok (rs', outs') ->
  exists evs, s_events rs' = s_events rs ++ evs /\
              (sm_find id (s_conns rs') = Some c \/ In (EvDisconnected id (reason_of c)) evs).
Proof.
  induction rl as [|r t IH]; intros rs outs rs' outs' Hs Hf Hd A; cbn [apply_results] in A.
  - injection A as <- <-. exists []. rewrite app_nil_r. auto.
  - apply bind_ok in A. destruct A as [[rs1 outs1] [H A]].
    assert (Go : sm_find id (s_conns rs1) = Some c -> conns_sorted rs1 ->
                 exists evs, s_events rs' = s_events rs ++ evs /\
                   (sm_find id (s_conns rs') = Some c \/ In (EvDisconnected id (reason_of c)) evs)).
    { intros Hf1 Hs1. destruct (handle_result_events_extend _ _ _ _ _ H) as [e1 E1].
      destruct (IH _ _ _ _ Hs1 Hf1 Hd A) as [e2 [E2 D]]. exists (e1 ++ e2). split.
      - rewrite E2, E1, app_assoc. reflexivity.
      - destruct D as [D|D]; [left; exact D | right; apply in_or_app; right; exact D]. }
    destruct r as [|a p|x p|x a u p|x a p].
    + injection H as <- <-. apply Go; assumption.
    + injection H as <- <-. apply Go; assumption.
    + destruct (handle_payload_sstep _ _ _ _ _ _ H) as [S _]. apply Go; [|apply (sstep_sorted _ _ _ _ Hs S)].
      cbn [sstep] in S. apply bind_ok in S. destruct S as [[rs2 ok] [E S]]. injection S as <-.
      destruct (N.eq_dec x id) as [->|Hne].
      * destruct (process_packet_from_self _ _ _ _ _ E) as [_ K]. rewrite Hf in K.
        destruct K as [_ [c' [P K]]]. rewrite process_packet_disconnected_noop in P by exact Hd.
        injection P as <-. exact K.
      * rewrite (process_packet_from_others _ _ _ _ _ E id) by congruence. exact Hf.
    + cbn [handle_server_result] in H. apply bind_ok in H. destruct H as [rs2 [E H]]. injection H as <- <-.
      apply of_pres_ok in E.
      pose proof (sstep_sorted rs (SAdd x) rs2 SONone Hs) as Hs2. cbn [sstep] in Hs2. rewrite E in Hs2.
      apply Go; [|apply Hs2; reflexivity].
      unfold add_connection in E. destruct (sm_mem x (s_conns rs)) eqn:Em.
      * injection E as <-. exact Hf.
      * destruct (new_from_server rs); cbn [bind] in E; try discriminate. injection E as <-.
        cbn [s_conns with_events with_conns]. rewrite sm_find_insert_neq; [exact Hf|].
        intros ->. rewrite (sm_mem_find_some _ _ _ Hf) in Em. discriminate.
    + cbn [handle_server_result] in H. injection H as <- <-.
      destruct (N.eq_dec x id) as [->|Hne].
      * destruct (removal_reports_first_reason _ _ _ Hs Hf) as [E1 _].
        destruct (apply_results_events_extend _ _ _ _ _ A) as [e2 E2].
        exists ([EvDisconnected id (reason_of c)] ++ e2). split.
        -- rewrite E2, E1, app_assoc. reflexivity.
        -- right. left. reflexivity.
      * apply Go.
        -- rewrite remove_connection_others by congruence. exact Hf.
        -- apply (sstep_sorted rs (SRemove x) _ SONone Hs). reflexivity.
Qed.

(* a disconnect decided by the message layer (application call or a bad packet) is pushed down within the
   next update and reported with the message layer's reason *)
Theorem tserver_update_pushes_down t rs dt t' rs' outs id c x :
  table_inv (ts_net t) -> conns_sorted rs -> lockstep t rs ->
  sm_find id (s_conns rs) = Some c -> Conn.disconnect_reason c = Some x ->
  tserver_update t rs dt = Ok (t', rs', outs) ->
  exists evs, new_events rs rs' evs /\ In (EvDisconnected id x) evs.
Proof.
  intros T Hs L Hf Hx H.
  destruct (tserver_update_full _ _ _ _ _ _ T Hs L H) as [(_ & Hs' & _ & D & _) (ops & rl & evs0 & _ & A & _)].
  assert (Hd : Conn.is_disconnected c = true).
  { unfold Conn.disconnect_reason in Hx. unfold Conn.is_disconnected. destruct (c_status c); try discriminate. reflexivity. }
  destruct (chain_disconnected_object id c _ _ _ _ _ Hs Hf Hd A) as [evs [E K]].
  exists evs. split; [exact E|]. unfold reason_of in K. rewrite Hx in K. destruct K as [K|K]; [|exact K].
  exfalso. assert (Hin : In id (Server.disconnections_id rs')).
  { apply disconnections_in. exists c. split; [apply sm_find_in_; exact K | exact Hd]. }
  rewrite D in Hin. exact Hin.
Qed.

(* a payload result names a connected client ... *)
Lemma ppi_spec_payload s a buf s' r0 id p :
  ppi_spec s a buf s' r0 -> res_of r0 = SRPayload id p -> In id (NServer.clients_id s).
Proof.
  intros H E. destruct H; cbn [res_of] in E; try discriminate.
  - destruct H2 as [[e ->]|[->|[p0 ->]]]; cbn [res_of] in E; try discriminate. injection E as <- _.
    rewrite clients_id_connected. apply in_map. unfold find_by_addr in H. apply (find_slot_by_In _ _ _ _ _ H).
  - destruct H2 as [->|[e ->]]; discriminate.
  - destruct (hr_spec_result _ _ _ _ _ _ _ H3) as [E'|[out ->]]; [rewrite E' in E|]; discriminate.
  - destruct (hr_spec_result _ _ _ _ _ _ _ H2) as [E'|[out ->]]; [rewrite E' in E|]; discriminate.
Qed.

Lemma nsstep_payload_connected s o s' id p :
  nsstep s o = Ok (s', NOResult (SRPayload id p)) -> In id (NServer.clients_id s).
Proof.
  destruct o as [a buf|dt|x|x|x q|m]; cbn [nsstep].
  - destruct (NServer.process_packet s a buf) as [[s1 r1]|e|site] eqn:E; cbn [bind]; intros H; try discriminate.
    injection H as <- Hr. cbn [snd] in Hr. apply process_packet_inv in E. destruct E as [r0 [E ->]].
    apply (ppi_spec_payload _ _ _ _ _ _ _ E Hr).
  - discriminate.
  - destruct (update_client s x) as [[s1 r1]|e|site] eqn:E; cbn [bind]; intros H; try discriminate.
    injection H as <- Hr. cbn [snd] in Hr. apply update_client_spec in E. destruct E; discriminate.
  - destruct (nserver_disconnect s x) as [[s1 r1]|e|site] eqn:E; cbn [bind]; intros H; try discriminate.
    injection H as <- Hr. cbn [snd] in Hr. apply nserver_disconnect_spec in E. destruct E; discriminate.
  - destruct (generate_payload_packet s x q) as [s1 r1]. destruct r1; discriminate.
  - discriminate.
Qed.

(* ... so under lockstep the message layer always has the connection object: process_packet_from never
   answers "client not found", and the payload is processed by that client's connection *)
Theorem payload_finds_connection net o net' id p rs rs' ok :
  lockstep_n net rs -> nsstep net o = Ok (net', NOResult (SRPayload id p)) ->
  process_packet_from rs p id = Ok (rs', ok) ->
  ok = true /\ exists c c', sm_find id (s_conns rs) = Some c /\ Conn.process_packet c p = Ok c' /\
                             sm_find id (s_conns rs') = Some c'.
Proof.
  intros L S H. pose proof (nsstep_payload_connected _ _ _ _ _ S) as Hin. apply L in Hin.
  destruct (sm_mem_true _ _ Hin) as [c Hf].
  destruct (process_packet_from_self _ _ _ _ _ H) as [_ K]. rewrite Hf in K. destruct K as [-> [c' [P K]]].
  split; [reflexivity|]. exists c, c'. auto.
Qed.

(* ------------------------------------------------------------------ *)
(* 8. non-vacuity                                                      *)
(* ------------------------------------------------------------------ *)
Definition glue_key : list N := repeatN 7 32.
Definition glue_chal : list N := repeatN 9 32.
Definition glue_addr : addr := AddrV4 [10; 0; 0; 1] 5000.
Definition glue_cfg : list chan_config := [ {| cc_id := 0; cc_max := 10000; cc_type := TReliableOrdered 300 |} ].
Definition glue_rs : server := server_new 60000 glue_cfg glue_cfg.

Example glue_initial :
  exists net, nserver_new 0 2 7 [glue_addr] (Some glue_key) glue_chal = Ok net /\
    let t := {| ts_net := net; ts_in := [] |} in
    table_inv net /\ conns_sorted glue_rs /\ lockstep t glue_rs /\
    exists t', tserver_update t glue_rs 16000000 = Ok (t', glue_rs, []) /\ lockstep t' glue_rs /\
    (* a runt datagram from a stranger is dropped without an answer *)
    exists t'', tserver_update {| ts_net := net; ts_in := [(AddrV4 [10; 0; 0; 9] 4000, [1; 2; 3])] |} glue_rs 16000000
                = Ok (t'', glue_rs, []) /\ lockstep t'' glue_rs.
Proof.
  destruct (nserver_new 0 2 7 [glue_addr] (Some glue_key) glue_chal) as [net|e|site] eqn:E;
    [|vm_compute in E; discriminate | vm_compute in E; discriminate].
  exists net. split; [reflexivity|]. cbv zeta.
  assert (T : table_inv net).
  { assert (Hm : 2 <= NC_MAX_CLIENTS) by (unfold NC_MAX_CLIENTS; lia). apply (table_inv_init _ _ _ _ _ _ _ Hm E). }
  assert (L : forall q, lockstep {| ts_net := net; ts_in := q |} glue_rs).
  { intros q id. vm_compute in E. injection E as <-. split; [discriminate | intros []]. }
  split; [exact T|]. split; [exact I|]. split; [apply L|].
  destruct (tserver_update {| ts_net := net; ts_in := [] |} glue_rs 16000000) as [[[t' rs'] o']|e|site] eqn:E1;
    [|vm_compute in E; injection E as <-; vm_compute in E1; discriminate ..].
  destruct (tserver_update {| ts_net := net; ts_in := [(AddrV4 [10; 0; 0; 9] 4000, [1; 2; 3])] |} glue_rs 16000000)
    as [[[t'' rs''] o'']|e|site] eqn:E2;
    [|vm_compute in E; injection E as <-; vm_compute in E2; discriminate ..].
  pose proof (tserver_update_lockstep {| ts_net := net; ts_in := [] |} glue_rs _ _ _ _ T (conns_sorted_new _ _ _) (L _) E1) as [L1 _].
  pose proof (tserver_update_lockstep {| ts_net := net; ts_in := [(AddrV4 [10; 0; 0; 9] 4000, [1; 2; 3])] |}
                glue_rs _ _ _ _ T (conns_sorted_new _ _ _) (L _) E2) as [L2 _].
  assert (R1 : rs' = glue_rs /\ o' = []).
  { vm_compute in E. injection E as <-. vm_compute in E1. injection E1 as _ <- <-. split; reflexivity. }
  assert (R2 : rs'' = glue_rs /\ o'' = []).
  { vm_compute in E. injection E as <-. vm_compute in E2. injection E2 as _ <- <-. split; reflexivity. }
  destruct R1 as [-> ->]. destruct R2 as [-> ->].
  exists t'. split; [reflexivity|]. split; [exact L1|]. exists t''. split; [reflexivity | exact L2].
Qed.

(* ------------------------------------------------------------------ *)
(* 9. whole runs: application calls and transport calls interleaved    *)
(* ------------------------------------------------------------------ *)
Definition glue_inv (w : tserver * server) : Prop :=
  table_inv (ts_net (fst w)) /\ conns_sorted (snd w) /\ lockstep (fst w) (snd w).

Lemma flat_map_repeat_none n :
  flat_map (fun o : option nconn => match o with Some c => [nc_id c] | None => [] end) (repeatN None n) = [].
Proof. induction n as [|n IH]; cbn [repeatN flat_map app]; [reflexivity | exact IH]. Qed.

Lemma set_max_ids s m : NServer.clients_id (set_max_clients s m) = NServer.clients_id s.
Proof.
  destruct (set_max_clients_clients s m) as [n E]. unfold NServer.clients_id.
  rewrite E, flat_map_app, flat_map_repeat_none, app_nil_r. reflexivity.
Qed.

Theorem wstep_inv w o t' rs' out : glue_inv w -> wstep w o = Ok (t', rs', out) -> glue_inv (t', rs').
Proof.
  destruct w as [t rs]. unfold glue_inv. cbn [fst snd]. intros (T & Hs & L) H.
  destruct o as [a|dt| | |d|m]; cbn [wstep] in H.
  - apply bind_ok in H. destruct H as [rs1 [E H]]. apply of_pres_ok in E. injection H as <- <- <-.
    destruct (app_step_lockstep _ _ _ _ L Hs E) as [L' Hs']. auto.
  - destruct (tserver_update_lockstep _ _ _ _ _ _ T Hs L H) as (L' & Hs' & T' & _). auto.
  - destruct (tserver_send_lockstep _ _ _ _ _ T Hs L H) as (L' & Hs' & T' & _). auto.
  - destruct (tserver_disconnect_all_lockstep _ _ _ _ _ T Hs L H) as (L' & Hs' & T' & _). auto.
  - injection H as <- <- <-. cbn [ts_net]. auto.
  - injection H as <- <- <-. cbn [ts_net]. split; [apply table_inv_set_max; exact T|]. split; [exact Hs|].
    intros id. unfold lockstep in L. cbn [ts_net]. rewrite set_max_ids. apply L.
Qed.

Lemma wrun_cons w o rest t' rs' outs :
  wrun w (o :: rest) = Ok (t', rs', outs) ->
  exists t1 rs1 out outs1, wstep w o = Ok (t1, rs1, out) /\ wrun (t1, rs1) rest = Ok (t', rs', outs1) /\ outs = out :: outs1.
Proof.
  cbn [wrun]. intros H. apply bind_ok in H. destruct H as [[[t1 rs1] out] [E H]].
  apply bind_ok in H. destruct H as [[[t2 rs2] outs1] [R H]]. injection H as <- <- <-.
  exists t1, rs1, out, outs1. auto.
Qed.

(* lockstep (and the two structural invariants) hold after every call sequence *)
Theorem wrun_inv : forall ops w t' rs' outs, glue_inv w -> wrun w ops = Ok (t', rs', outs) -> glue_inv (t', rs').
Proof.
  induction ops as [|o rest IH]; intros w t' rs' outs G H.
  - cbn [wrun] in H. injection H as <- <- _. destruct w; exact G.
  - apply wrun_cons in H. destruct H as (t1 & rs1 & out & outs1 & S & R & _).
    apply (IH _ _ _ _ (wstep_inv _ _ _ _ _ G S) R).
Qed.

Lemma apply_results_ev_inv T rs outs rl rs' outs' :
  conns_sorted rs -> ev_inv T rs -> apply_results rs outs rl = Ok (rs', outs') -> ev_inv T rs'.
Proof.
  intros Hs Hi A. destruct (apply_results_srun _ _ _ _ _ A) as [souts [R Tk]].
  pose proof (srun_ev_inv _ _ _ _ _ Hs Hi R) as K. rewrite Tk, app_nil_r in K. exact K.
Qed.

Definition step_taken (w : tserver * server) (o : wop) : list event :=
  match o with
  | WApp AGetEvent => match s_events (snd w) with e :: _ => [e] | [] => [] end
  | _ => []
  end.

Lemma wstep_ev_inv T w o t' rs' out :
  glue_inv w -> ev_inv T (snd w) -> wstep w o = Ok (t', rs', out) -> ev_inv (T ++ step_taken w o) rs'.
Proof.
  destruct w as [t rs]. unfold glue_inv. cbn [fst snd]. intros (Tb & Hs & L) Hi H.
  destruct o as [a|dt| | |d|m]; cbn [wstep] in H.
  - apply bind_ok in H. destruct H as [rs1 [E H]]. apply of_pres_ok in E. injection H as <- <- <-.
    destruct a as [id ch m|ch m|id ch m|id ch|id| | |dt];
      try (destruct (app_step_sstep _ _ _ E) as [so S];
           pose proof (sstep_ev_inv T _ _ _ _ Hs Hi S) as K;
           pose proof (sstep_events_same _ _ _ _ S) as [_ Tk]; cbn [app_sop] in Tk;
           rewrite Tk in K; exact K).
    cbn [app_step] in E. injection E as <-. unfold step_taken, get_event. cbn [snd].
    destruct (s_events rs) as [|e l] eqn:Ee; cbn [fst].
    + rewrite app_nil_r. exact Hi.
    + apply (ev_inv_take T rs _ e l Hi Ee); reflexivity.
  - cbn [step_taken]. rewrite app_nil_r. apply (tserver_update_ev_inv _ _ _ _ _ _ _ Tb Hs L Hi H).
  - cbn [step_taken]. rewrite app_nil_r. unfold tserver_send in H.
    apply bind_ok in H. destruct H as [[[net1 rs1] o1] [H1 H]]. injection H as <- <- <-.
    destruct (send_clients_spec _ _ _ _ _ _ _ Tb Hs H1) as (_ & _ & _ & M' & Ev').
    apply (ev_inv_same T rs rs1 Hi Ev' M').
  - cbn [step_taken]. rewrite app_nil_r. unfold tserver_disconnect_all in H.
    apply bind_ok in H. destruct H as [[[net1 rs1] o1] [H1 H]]. injection H as <- <- <-.
    destruct (disconnect_clients_trace _ _ _ _ _ _ _ H1) as [rl [_ A]].
    apply (apply_results_ev_inv _ _ _ _ _ _ Hs Hi A).
  - injection H as <- <- <-. cbn [step_taken]. rewrite app_nil_r. exact Hi.
  - injection H as <- <- <-. cbn [step_taken]. rewrite app_nil_r. exact Hi.
Qed.

Lemma wtaken_cons w o rest t1 rs1 out :
  wstep w o = Ok (t1, rs1, out) -> wtaken w (o :: rest) = step_taken w o ++ wtaken (t1, rs1) rest.
Proof. intros S. cbn [wtaken]. rewrite S. reflexivity. Qed.

Lemma wrun_ev_inv : forall ops T w t' rs' outs,
  glue_inv w -> ev_inv T (snd w) -> wrun w ops = Ok (t', rs', outs) -> ev_inv (T ++ wtaken w ops) rs'.
Proof.
  induction ops as [|o rest IH]; intros T w t' rs' outs G Hi H.
  - cbn [wrun] in H. injection H as _ <- _. cbn [wtaken]. rewrite app_nil_r. exact Hi.
  - apply wrun_cons in H. destruct H as (t1 & rs1 & out & outs1 & S & R & _).
    rewrite (wtaken_cons _ _ _ _ _ _ S), app_assoc.
    apply (IH _ (t1, rs1) t' rs' outs1 (wstep_inv _ _ _ _ _ G S)); [|exact R].
    cbn [snd]. apply (wstep_ev_inv _ _ _ _ _ _ G Hi S).
Qed.

Lemma glue_inv_init now max protocol addrs key chal net budget scfg ccfg :
  nserver_new now max protocol addrs key chal = Ok net ->
  glue_inv ({| ts_net := net; ts_in := [] |}, server_new budget scfg ccfg).
Proof.
  intros E. unfold glue_inv. cbn [fst snd ts_net]. split; [|split; [exact I|]].
  - assert (Hm : max <= NC_MAX_CLIENTS).
    { unfold nserver_new in E. destruct (NC_MAX_CLIENTS <? max) eqn:Em; [discriminate | lia]. }
    apply (table_inv_init _ _ _ _ _ _ _ Hm E).
  - intros id. unfold nserver_new in E. destruct (NC_MAX_CLIENTS <? max); [discriminate|]. injection E as <-.
    unfold lockstep, NServer.clients_id. cbn [ts_net ns_clients server_new s_conns].
    rewrite flat_map_repeat_none. split; [discriminate | intros []].
Qed.

(* end to end: after any interleaving of application calls and transport calls, the message layer holds
   exactly the clients the netcode layer has connected, the events reported so far (taken out or still
   queued) alternate Connected / Disconnected per client, starting with Connected, and a client is connected
   at the netcode layer iff the last event reported about it is Connected *)
Theorem world_events_alternate now max protocol addrs key chal net budget scfg ccfg ops t' rs' outs :
  nserver_new now max protocol addrs key chal = Ok net ->
  let w0 := ({| ts_net := net; ts_in := [] |}, server_new budget scfg ccfg) in
  wrun w0 ops = Ok (t', rs', outs) ->
  let reported := wtaken w0 ops ++ s_events rs' in
  lockstep t' rs' /\ table_inv (ts_net t') /\ conns_sorted rs' /\
  forall id, alternates id true reported /\
             (In id (NServer.clients_id (ts_net t')) <-> last_is_connect id reported false = true).
Proof.
  intros E w0 H reported.
  pose proof (glue_inv_init _ _ _ _ _ _ _ budget scfg ccfg E) as G. fold w0 in G.
  destruct (wrun_inv _ _ _ _ _ G H) as (T' & Hs' & L'). cbn [fst snd] in T', Hs', L'.
  pose proof (wrun_ev_inv _ [] _ _ _ _ G (ev_inv_new budget scfg ccfg) H) as K. cbn [app] in K.
  split; [exact L'|]. split; [exact T'|]. split; [exact Hs'|]. intros id. destruct (K id) as [A M].
  split; [exact A|]. fold reported in M. rewrite <- M. symmetry. apply L'.
Qed.

(* ------------------------------------------------------------------ *)
(* 10. non-vacuity: a whole handshake through both transports          *)
(* ------------------------------------------------------------------ *)
Definition hs_caddr : addr := AddrV4 [10; 0; 0; 7] 4000.
Definition hs_token : nres connect_token :=
  token_generate 0 7 300 42 15%Z [glue_addr] (zeros NC_USER_DATA_BYTES) glue_key (repeatN 3 24) (repeatN 1 32) (repeatN 2 32).

(* both ends, and the log of what happened to the server side as a wop list *)
Record hworld := { hw_ts : tserver; hw_rs : server; hw_tc : tclient; hw_rc : conn; hw_log : list wop;
                   hw_err : list (option terr) }.

Definition hs_w0 (net : nserver) : tserver * server := ({| ts_net := net; ts_in := [] |}, glue_rs).

Definition hs_init : option hworld :=
  match nserver_new 0 2 7 [glue_addr] (Some glue_key) glue_chal, hs_token with
  | Ok net, Ok tok =>
      match nclient_new 0 tok, conn_new 60000 glue_cfg glue_cfg with
      | Ok nc, Ok rc => Some {| hw_ts := fst (hs_w0 net); hw_rs := glue_rs; hw_tc := {| tc_net := nc; tc_in := [] |};
                                hw_rc := rc; hw_log := []; hw_err := [] |}
      | _, _ => None
      end
  | _, _ => None
  end.

(* NetcodeClientTransport::update; what it sends reaches the server's socket *)
Definition hs_client (dt : N) (w : hworld) : option hworld :=
  match tclient_update (hw_tc w) (hw_rc w) dt with
  | Ok (tc', rc', outs, e) =>
      let arr := map (fun d : dgram => (hs_caddr, snd d)) outs in
      Some {| hw_ts := {| ts_net := ts_net (hw_ts w); ts_in := ts_in (hw_ts w) ++ arr |}; hw_rs := hw_rs w;
              hw_tc := tc'; hw_rc := rc'; hw_log := hw_log w ++ map WArrive arr; hw_err := hw_err w ++ [e] |}
  | _ => None
  end.

(* a server-side call; what it sends reaches the client's socket *)
Definition hs_server (o : wop) (w : hworld) : option hworld :=
  match wstep (hw_ts w, hw_rs w) o with
  | Ok (ts', rs', outs) =>
      Some {| hw_ts := ts'; hw_rs := rs';
              hw_tc := {| tc_net := tc_net (hw_tc w); tc_in := tc_in (hw_tc w) ++ map (fun d : dgram => (glue_addr, snd d)) outs |};
              hw_rc := hw_rc w; hw_log := hw_log w ++ [o]; hw_err := hw_err w |}
  | _ => None
  end.

Fixpoint hs_script (l : list (hworld -> option hworld)) (w : hworld) : option hworld :=
  match l with [] => Some w | f :: t => match f w with Some w' => hs_script t w' | None => None end end.

Definition hs_go (l : list (hworld -> option hworld)) : option hworld :=
  match hs_init with Some w => hs_script l w | None => None end.

Definition MS : N := 1000000.
(* request -> challenge -> response -> connected + keep-alive -> the client sees it *)
Definition hs_connect : list (hworld -> option hworld) :=
  [hs_client MS; hs_server (WUpdate MS); hs_client MS; hs_server (WUpdate MS); hs_client MS; hs_client MS].
(* then: a message each way, the application disconnects the client, the transports carry it through *)
Definition hs_rest : list (hworld -> option hworld) :=
  [hs_server (WApp (ASend 42 0 [1; 2; 3])); hs_server WSend; hs_client MS;
   hs_server (WApp AGetEvent); hs_server (WApp (ADisconnect 42)); hs_server (WUpdate MS);
   hs_client MS; hs_client MS].

Definition hs_view (o : option hworld) :=
  match o with
  | Some w => Some (NServer.clients_id (ts_net (hw_ts w)), map fst (s_conns (hw_rs w)), s_events (hw_rs w),
                    cl_state (tc_net (hw_tc w)), c_status (hw_rc w), hw_err w)
  | None => None
  end.

(* after the handshake both layers of the server hold client 42; the client's message layer follows its
   netcode client one update late (the status is mirrored before the queue is read) *)
Example handshake_connects :
  hs_view (hs_go (firstn 5 hs_connect)) =
    Some ([42], [42], [EvConnected 42], CConnected, Connecting, [None; None; None]) /\
  hs_view (hs_go hs_connect) =
    Some ([42], [42], [EvConnected 42], CConnected, Connected, [None; None; None; None]).
Proof. split; vm_compute; reflexivity. Qed.

(* a message goes down, then the application disconnects 42: the disconnect is pushed down to the netcode
   layer within the next update (which removes the connection object and reports the event), the client's
   netcode layer learns it from the datagram, and its message layer one update later *)
Example handshake_then_disconnect :
  (match hs_go (hs_connect ++ firstn 3 hs_rest) with
   | Some w => match receive_message (hw_rc w) 0 with Ok (_, m) => m | _ => None end
   | None => None
   end = Some [1; 2; 3]) /\
  hs_view (hs_go (hs_connect ++ hs_rest)) =
    Some ([], [], [EvDisconnected 42 RDisconnectedByServer], CDisconnected CRByServer, Disconnected RTransport,
          [None; None; None; None; None; None; Some (TENetcodeDisconnected CRByServer)]).
Proof. split; vm_compute; reflexivity. Qed.

(* the server side of that exchange is a wrun, so the end-to-end theorem applies to it; its conclusion,
   read off: the reported events are Connected 42, Disconnected 42 *)
Example handshake_is_a_world_run :
  exists net w t' rs' outs,
    nserver_new 0 2 7 [glue_addr] (Some glue_key) glue_chal = Ok net /\
    hs_go (hs_connect ++ hs_rest) = Some w /\
    wrun (hs_w0 net) (hw_log w) = Ok (t', rs', outs) /\ t' = hw_ts w /\ rs' = hw_rs w /\
    wtaken (hs_w0 net) (hw_log w) ++ s_events rs' = [EvConnected 42; EvDisconnected 42 RDisconnectedByServer] /\
    lockstep t' rs' /\ alternates 42 true (wtaken (hs_w0 net) (hw_log w) ++ s_events rs') /\
    ~ In 42 (NServer.clients_id (ts_net t')).
Proof.
  destruct (nserver_new 0 2 7 [glue_addr] (Some glue_key) glue_chal) as [net|e|site] eqn:E;
    [|vm_compute in E; discriminate ..].
  destruct (hs_go (hs_connect ++ hs_rest)) as [w|] eqn:Ew; [|vm_compute in Ew; discriminate].
  destruct (wrun (hs_w0 net) (hw_log w)) as [[[t' rs'] outs]|e|site] eqn:Er;
    [|vm_compute in E; injection E as <-; vm_compute in Ew; injection Ew as <-; vm_compute in Er; discriminate ..].
  exists net, w, t', rs', outs. split; [reflexivity|]. split; [reflexivity|]. split; [exact Er|].
  destruct (world_events_alternate _ _ _ _ _ _ _ _ _ _ _ _ _ _ E Er) as (L & _ & _ & A).
  fold glue_rs in A. fold (hs_w0 net) in A.
  assert (K : t' = hw_ts w /\ rs' = hw_rs w /\
              wtaken (hs_w0 net) (hw_log w) ++ s_events rs' = [EvConnected 42; EvDisconnected 42 RDisconnectedByServer]).
  { vm_compute in E. injection E as <-. vm_compute in Ew. injection Ew as <-.
    vm_compute in Er. injection Er as <- <- _. repeat split; vm_compute; reflexivity. }
  destruct K as (K1 & K2 & K3). split; [exact K1|]. split; [exact K2|]. split; [exact K3|]. split; [exact L|].
  destruct (A 42) as [A1 A2]. split; [exact A1|]. rewrite A2, K3. vm_compute. discriminate.
Qed.

(* ------------------------------------------------------------------ *)
(* 11. why the hypotheses are what they are                            *)
(* ------------------------------------------------------------------ *)
Definition mk_conn (id : N) (a : addr) : nconn :=
  {| nc_confirmed := true; nc_id := id; nc_send_key := glue_key; nc_recv_key := glue_key; nc_user := [];
     nc_addr := a; nc_last_recv := 0; nc_last_send := 0; nc_timeout := 15%Z; nc_seq := 0; nc_expire := 100;
     nc_replay := replay_new; nc_chal_floor := 0 |}.
Definition mk_net (cl : list (option nconn)) : nserver :=
  {| ns_clients := cl; ns_pending := []; ns_entries := []; ns_protocol := 7; ns_connect_key := glue_key;
     ns_max := 2; ns_chal_seq := 0; ns_chal_key := glue_chal; ns_addrs := [glue_addr]; ns_now := 0;
     ns_global_seq := NC_GLOBAL_SEQUENCE_INIT; ns_secure := true |}.

(* the conclusion of NServerP.events_matched alone does not give item 1: for a connect / disconnect result it
   is silent about the other ids.  Two states related by that conclusion for SRConnected 7, a message
   layer in lockstep with the first, and lockstep lost after handle_server_result.  (Real netcode steps
   satisfy the stronger ids_step: nsstep_ids_step.) *)
Example events_matched_conclusion_too_weak :
  let a5 := AddrV4 [10; 0; 0; 5] 4000 in
  let a7 := AddrV4 [10; 0; 0; 7] 4000 in
  let net := mk_net [Some (mk_conn 5 a5); None] in
  let net' := mk_net [Some (mk_conn 7 a7); None] in
  (find_by_id net 7 = None /\ find_by_addr net a7 = None /\
   exists slot c, find_by_id net' 7 = Some (slot, c) /\ nc_addr c = a7) /\
  exists rs rs' outs', add_connection glue_rs 5 = Ok rs /\ conns_sorted rs /\ lockstep_n net rs /\
    handle_server_result (SRConnected 7 a7 [] []) rs [] = Ok (rs', outs') /\ ~ lockstep_n net' rs'.
Proof.
  cbv zeta. split.
  - split; [reflexivity|]. split; [reflexivity|]. eexists _, _. split; reflexivity.
  - destruct (add_connection glue_rs 5) as [rs|e|site] eqn:E; [|vm_compute in E; discriminate ..].
    destruct (handle_server_result (SRConnected 7 (AddrV4 [10; 0; 0; 7] 4000) [] []) rs []) as [[rs' outs']|e|site] eqn:H;
      [|vm_compute in E; injection E as <-; vm_compute in H; discriminate ..].
    exists rs, rs', outs'. split; [reflexivity|].
    assert (Hs : conns_sorted rs).
    { pose proof (sstep_sorted glue_rs (SAdd 5) rs SONone (conns_sorted_new _ _ _)) as K. cbn [sstep] in K.
      rewrite E in K. apply K. reflexivity. }
    split; [exact Hs|]. split.
    + intros id. vm_compute in E. injection E as <-. unfold sm_mem. cbn [s_conns sm_find].
      destruct (id =? 5) eqn:E5.
      * apply N.eqb_eq in E5. subst id. split; [intros _; left; reflexivity | reflexivity].
      * split; [discriminate|]. intros [H5|[]]. cbn [mk_conn nc_id] in H5. lia.
    + split; [exact H|]. intros L. specialize (L 5).
      assert (M : sm_mem 5 (s_conns rs') = true).
      { vm_compute in E. injection E as <-. vm_compute in H. injection H as <- _. reflexivity. }
      apply L in M. destruct M as [M|[]]. discriminate.
Qed.

(* lockstep is a real hypothesis: RenetServer::new_local_client creates a connection object the netcode
   layer knows nothing about.  Then send_packets takes that client's packets out of the message layer and
   drops them (generate_payload_packet: ClientNotFound), and a disconnected local client object is never
   removed by update. *)
Definition glue_cfg_u : list chan_config := [ {| cc_id := 0; cc_max := 10000; cc_type := TUnreliable |} ].
Definition pk_count (r : pres (server * option (list (list N)))) : option nat :=
  match r with Ok (_, Some l) => Some (length l) | _ => None end.

Example local_client_breaks_lockstep :
  match nserver_new 0 2 7 [glue_addr] (Some glue_key) glue_chal, new_local_client (server_new 60000 glue_cfg_u glue_cfg_u) 5 with
  | Ok net, Ok (rs1, _) =>
      let t := {| ts_net := net; ts_in := [] |} in
      ~ lockstep t rs1 /\
      match srv_send_message rs1 5 0 [1; 2; 3] with
      | Ok rs2 =>
          match tserver_send t rs2 with
          | Ok (_, rs3, outs) =>
              pk_count (srv_get_packets_to_send rs2 5) = Some 1%nat /\      (* one packet was waiting *)
              outs = [] /\ pk_count (srv_get_packets_to_send rs3 5) = Some 0%nat /\   (* gone, nothing sent *)
              match tserver_update t (srv_disconnect rs3 5) MS with
              | Ok (_, rs4, _) => Server.disconnections_id rs4 = [5] /\ s_events rs4 = [EvConnected 5]
              | _ => False
              end
          | _ => False
          end
      | _ => False
      end
  | _, _ => False
  end.
Proof.
  vm_compute. split; [|repeat split; reflexivity].
  intros L. specialize (L 5). destruct L as [L _]. destruct (L eq_refl).
Qed.

(* ------------------------------------------------------------------ *)
Print Assumptions nsstep_ids_step.
Print Assumptions handle_result_lockstep.
Print Assumptions handle_result_lockstep_step.
Print Assumptions chain_lockstep.
Print Assumptions recv_loop_spec.
Print Assumptions recv_loop_surfaced.
Print Assumptions update_clients_trace.
Print Assumptions disconnect_clients_trace.
Print Assumptions disconnect_clients_spec.
Print Assumptions tserver_update_full.
Print Assumptions tserver_update_lockstep.
Print Assumptions tserver_update_events.
Print Assumptions tserver_update_ev_inv.
Print Assumptions tserver_update_pushes_down.
Print Assumptions payload_finds_connection.
Print Assumptions app_step_lockstep.
Print Assumptions seal_all_spec.
Print Assumptions send_clients_spec.
Print Assumptions tserver_send_lockstep.
Print Assumptions tserver_disconnect_all_lockstep.
Print Assumptions client_recv_loop_eq.
Print Assumptions client_recv_loop_spec.
Print Assumptions client_seal_all_spec.
Print Assumptions tclient_update_mirrors.
Print Assumptions tclient_update_status.
Print Assumptions tclient_disconnect_spec.
Print Assumptions tclient_send_spec.
Print Assumptions wstep_inv.
Print Assumptions wrun_inv.
Print Assumptions world_events_alternate.
Print Assumptions glue_initial.
Print Assumptions handshake_connects.
Print Assumptions handshake_then_disconnect.
Print Assumptions handshake_is_a_world_run.
Print Assumptions events_matched_conclusion_too_weak.
Print Assumptions local_client_breaks_lockstep.
