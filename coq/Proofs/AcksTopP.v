(* AcksTopP.v - the newest received sequence number is always acknowledged.

   Overflow of the MAX_ACK_RANGES pending ranges drops the OLDEST range (the head of the sorted
   list); the range that holds the largest number ever fed is the last one, so it survives every
   overflow: for every arrival order, every ack packet built from the pending ranges names the
   largest sequence number received so far.  (A number that is not the largest can be lost:
   AcksP.add_pending_ack_drops_new.) *)
From Coq Require Import NArith List Bool Lia ZifyBool ZifyN.
From RenetV Require Import Base Consts Varint Packet Channels Conn CodecSpec AcksP.
Import ListNotations.
Open Scope N_scope.

Arguments N.add : simpl never.
Arguments N.sub : simpl never.
Arguments N.mul : simpl never.
Arguments N.eqb : simpl never.
Arguments N.ltb : simpl never.
Arguments N.leb : simpl never.

(* m is in the ranges and nothing in them is larger *)
Definition top (l : list (N * N)) (m : N) : Prop :=
  in_ranges m l /\ forall y, in_ranges y l -> y <= m.

Lemma top_not_in_head : forall a b r t lo m,
  ranges_wf lo ((a, b) :: r :: t) -> top ((a, b) :: r :: t) m -> in_ranges m (r :: t).
Proof.
  intros a b [a2 b2] t lo m Hwf [Hin Hmax].
  cbn [in_ranges] in Hin. destruct Hin as [Hin|Hin]; [|exact Hin].
  exfalso.
  cbn [ranges_wf] in Hwf. destruct Hwf as (_ & _ & H2 & H3 & _).
  assert (Ha2 : in_ranges a2 ((a, b) :: (a2, b2) :: t)).
  { cbn [in_ranges]. right. left. lia. }
  specialize (Hmax _ Ha2). lia.
Qed.

Lemma top_tl : forall l m, ranges_wf 0 l -> 2 <= len l -> top l m -> top (tl l) m.
Proof.
  intros l m Hwf Hlen Ht.
  destruct l as [|[a b] [|r t]].
  - rewrite len_nil in Hlen. lia.
  - rewrite len_cons, len_nil in Hlen. lia.
  - cbn [tl]. split.
    + eapply top_not_in_head; eauto.
    + intros y Hy. destruct Ht as [_ Hmax]. apply Hmax. cbn [in_ranges]. right. exact Hy.
Qed.

Lemma add_top_nil : forall s, top (add_pending_ack [] s) s.
Proof.
  intros s. cbn [add_pending_ack]. split.
  - cbn [in_ranges]. left. lia.
  - intros y Hy. cbn [in_ranges] in Hy. destruct Hy as [Hy|[]]. lia.
Qed.

Lemma add_top : forall l s m, ranges_wf 0 l -> top l m -> top (add_pending_ack l s) (N.max m s).
Proof.
  intros l s m Hwf [Hin Hmax].
  destruct (add_pending_ack_exact l s Hwf) as (ins & Hiwf & Hiff & Hlen & Hcase).
  assert (Htop : top ins (N.max m s)).
  { split.
    - apply Hiff. destruct (N.max_spec m s) as [[_ E]|[_ E]]; rewrite E; [left; reflexivity|right; exact Hin].
    - intros y Hy. apply Hiff in Hy. destruct Hy as [->|Hy]; [lia|]. specialize (Hmax _ Hy). lia. }
  destruct Hcase as [E|[Hbig E]]; rewrite E; [exact Htop|].
  apply top_tl; [exact Hiwf| |exact Htop].
  pose proof MAX_ACK_RANGES_pos. lia.
Qed.

Theorem feed_keeps_max_from : forall ss l m x,
  ranges_wf 0 l -> top l m ->
  (x = m \/ In x ss) -> m <= x -> (forall y, In y ss -> y <= x) ->
  in_ranges x (feed l ss).
Proof.
  induction ss as [|s t IH]; intros l m x Hwf Ht Hx Hm Hall.
  - rewrite feed_nil. destruct Hx as [->|[]]. exact (proj1 Ht).
  - rewrite feed_cons.
    assert (Hs : s <= x) by (apply Hall; left; reflexivity).
    apply (IH (add_pending_ack l s) (N.max m s) x).
    + apply add_pending_ack_wf; exact Hwf.
    + apply add_top; assumption.
    + destruct Hx as [->|[->|Hx]]; [left; lia|left; lia|right; exact Hx].
    + lia.
    + intros y Hy. apply Hall. right. exact Hy.
Qed.

(* for every arrival order (with repetitions, gaps, any number of ranges): the largest sequence
   number fed so far is named by the pending ranges *)
Theorem feed_keeps_max : forall ss x,
  In x ss -> (forall y, In y ss -> y <= x) -> in_ranges x (feed [] ss).
Proof.
  intros [|s t] x Hin Hall; [destruct Hin|].
  rewrite feed_cons.
  assert (Hs : s <= x) by (apply Hall; left; reflexivity).
  apply (feed_keeps_max_from t (add_pending_ack [] s) s x).
  - apply add_pending_ack_wf. exact I.
  - apply add_top_nil.
  - destruct Hin as [->|Hin]; [left; reflexivity|right; exact Hin].
  - exact Hs.
  - intros y Hy. apply Hall. right. exact Hy.
Qed.

(* non-vacuity: 66 isolated numbers fed in ascending order overflow the ranges, the largest stays *)
Example keeps_max_after_overflow :
  let ss := map (fun k => 2 * N.of_nat k) (seq 0 66) in
  in_ranges 130 (feed [] ss) /\ len (feed [] ss) = MAX_ACK_RANGES /\ hd (0, 0) (feed [] ss) = (4, 5).
Proof.
  cbv zeta. split; [|vm_compute; split; reflexivity].
  apply feed_keeps_max.
  - vm_compute. do 65 right. left. reflexivity.
  - intros y Hy. apply in_map_iff in Hy. destruct Hy as (k & <- & Hk). apply in_seq in Hk. lia.
Qed.
