(* RecvRelP.v - ReceiveChannelReliable: safety under hostile input, memory accounting,
   and functional correctness under an honest sender and any network schedule. *)
From RenetV Require Import Base Consts Varint Packet Channels RecvSpec SMapP SliceP.
Require Import Lia ZifyBool ZifyN ZifyNat.
Arguments N.add : simpl never.
Arguments N.sub : simpl never.
Arguments N.mul : simpl never.
Arguments N.div : simpl never.
Arguments N.modulo : simpl never.
Arguments N.eqb : simpl never.
Arguments N.ltb : simpl never.
Arguments N.leb : simpl never.
Open Scope N_scope.

Notation MaxMem := ReliableChannelMaxMemoryReached.

(* ------------------------------------------------------------------ *)
(* accounting lemmas *)

Notation cb := (fun c : sctor => sc_num c * SLICE_SIZE).
Notation mb := (fun m : list N => len m).

Lemma cb_insert id c sl : asc (map fst sl) ->
  ctors_bytes (sm_insert id c sl) + fopt cb (sm_find id sl) = ctors_bytes sl + sc_num c * SLICE_SIZE.
Proof. exact (vsum_insert cb id c sl). Qed.
Lemma cb_remove id sl : ctors_bytes (sm_remove id sl) + fopt cb (sm_find id sl) = ctors_bytes sl.
Proof. exact (vsum_remove cb id sl). Qed.
Lemma mb_insert id m ms : asc (map fst ms) ->
  msgs_bytes (sm_insert id m ms) + fopt mb (sm_find id ms) = msgs_bytes ms + len m.
Proof. exact (vsum_insert mb id m ms). Qed.
Lemma mb_remove id ms : msgs_bytes (sm_remove id ms) + fopt mb (sm_find id ms) = msgs_bytes ms.
Proof. exact (vsum_remove mb id ms). Qed.

Lemma ctors_bytes_insert_new id c sl : asc (map fst sl) -> sm_find id sl = None ->
  ctors_bytes (sm_insert id c sl) = ctors_bytes sl + sc_num c * SLICE_SIZE.
Proof.
  intros A F. pose proof (cb_insert id c sl A) as E. rewrite F in E. cbn [fopt] in E. lia.
Qed.

Lemma ctors_bytes_insert_same id c c0 sl : asc (map fst sl) -> sm_find id sl = Some c0 ->
  sc_num c = sc_num c0 -> ctors_bytes (sm_insert id c sl) = ctors_bytes sl.
Proof.
  intros A F E0. pose proof (cb_insert id c sl A) as E.
  rewrite F in E. cbn [fopt] in E. rewrite E0 in E. lia.
Qed.

Lemma ctors_bytes_remove id c0 sl : sm_find id sl = Some c0 ->
  ctors_bytes (sm_remove id sl) + sc_num c0 * SLICE_SIZE = ctors_bytes sl.
Proof.
  intros F. pose proof (cb_remove id sl) as E. rewrite F in E. exact E.
Qed.

Lemma ctors_bytes_remove_none id sl : sm_find id sl = None ->
  ctors_bytes (sm_remove id sl) = ctors_bytes sl.
Proof.
  intros F. pose proof (cb_remove id sl) as E. rewrite F in E. cbn [fopt] in E. lia.
Qed.

Lemma msgs_bytes_insert_new id m ms : asc (map fst ms) -> sm_mem id ms = false ->
  msgs_bytes (sm_insert id m ms) = msgs_bytes ms + len m.
Proof.
  intros A F. apply sm_find_none_mem in F.
  pose proof (mb_insert id m ms A) as E. rewrite F in E. cbn [fopt] in E. lia.
Qed.

Lemma msgs_bytes_remove id m ms : sm_find id ms = Some m ->
  msgs_bytes (sm_remove id ms) + len m = msgs_bytes ms.
Proof.
  intros F. pose proof (mb_remove id ms) as E. rewrite F in E. exact E.
Qed.

Lemma msgs_bytes_cons id m ms : msgs_bytes ((id, m) :: ms) = len m + msgs_bytes ms.
Proof. reflexivity. Qed.

(* ------------------------------------------------------------------ *)
(* views: the invariants do not depend on the `most_recent` field *)

Definition ord_rcv (o : rorder) : option (list N) :=
  match o with Ordered => None | Unordered _ rcv => Some rcv end.

Definition rr_view (r : recv_rel) :=
  (rr_slices r, rr_messages r, rr_oldest r, ord_rcv (rr_order r), rr_mem r, rr_max r).

Lemma rr_view_inv r r' : rr_view r' = rr_view r ->
  rr_slices r' = rr_slices r /\ rr_messages r' = rr_messages r /\ rr_oldest r' = rr_oldest r /\
  ord_rcv (rr_order r') = ord_rcv (rr_order r) /\ rr_mem r' = rr_mem r /\ rr_max r' = rr_max r.
Proof. unfold rr_view. intros [= -> -> -> -> -> ->]. repeat split. Qed.

Lemma rr_seen_view r r' id : rr_view r' = rr_view r -> rr_seen r' id = rr_seen r id.
Proof.
  intros H. apply rr_view_inv in H. destruct H as (E1 & E2 & E3 & E4 & E5 & E6).
  unfold rr_seen. rewrite E2, E3.
  destruct (rr_order r'), (rr_order r); cbn [ord_rcv] in E4; try discriminate; [reflexivity|].
  injection E4 as ->. reflexivity.
Qed.

Lemma rr_inv_view r r' : rr_view r' = rr_view r -> rr_inv r -> rr_inv r'.
Proof.
  intros H. pose proof (rr_seen_view r r') as S. specialize (fun id => S id H).
  apply rr_view_inv in H. destruct H as (E1 & E2 & E3 & E4 & E5 & E6).
  unfold rr_inv. rewrite E1, E2, E5, E6.
  intros (I1 & I2 & I3 & I4 & I5 & I6). repeat (split; [assumption|]).
  destruct (rr_order r'), (rr_order r); cbn [ord_rcv] in E4; try discriminate; [exact I|].
  injection E4 as ->. destruct I6 as [A B]. split; [exact A|].
  intros id Hm. rewrite S. auto.
Qed.

(* ------------------------------------------------------------------ *)
(* R1 *)

Theorem rr_inv_init : forall max ordered, rr_inv (recv_rel_new max ordered).
Proof.
  intros max ordered. unfold rr_inv, recv_rel_new.
  cbn [rr_slices rr_messages rr_oldest rr_order rr_mem rr_max map].
  split; [reflexivity|]. split; [lia|]. split; [constructor|]. split; [exact I|]. split; [exact I|].
  destruct ordered; [exact I|]. split; [exact I|]. intros id H. discriminate.
Qed.

(* ------------------------------------------------------------------ *)
(* rr_process_message *)

Definition ord_add (o : rorder) (id : N) : rorder :=
  match o with
  | Ordered => Ordered
  | Unordered mr rcv => Unordered (if mr <? id then id else mr) (ss_insert id rcv)
  end.

Definition rr_accept (r : recv_rel) (m : list N) (id : N) : recv_rel :=
  rr_with r (rr_slices r) (sm_insert id m (rr_messages r)) (rr_oldest r)
          (ord_add (rr_order r) id) (rr_mem r + len m).

Lemma rr_pm_unseen r m id : rr_seen r id = false ->
  rr_process_message r m id =
    if rr_max r <? rr_mem r + len m then Err MaxMem else Ok (rr_accept r m id).
Proof.
  unfold rr_seen, rr_process_message, rr_accept. intros H.
  apply orb_false_iff in H. destruct H as [H1 H2]. rewrite H1.
  destruct (rr_order r); cbn [ord_add]; rewrite H2; reflexivity.
Qed.

Lemma rr_pm_seen r m id : rr_seen r id = true ->
  exists r', rr_process_message r m id = Ok r' /\ rr_view r' = rr_view r.
Proof.
  unfold rr_seen, rr_process_message. intros H.
  destruct (id <? rr_oldest r); [exists r; split; reflexivity|].
  cbn [orb] in H. destruct (rr_order r) as [|mr rcv] eqn:Eo; rewrite H.
  - exists r. split; reflexivity.
  - eexists. split; [reflexivity|]. unfold rr_view, rr_with.
    cbn [rr_slices rr_messages rr_oldest rr_order rr_mem rr_max ord_rcv]. rewrite Eo. reflexivity.
Qed.

Lemma unseen_not_msg r id : rr_inv r -> rr_seen r id = false -> sm_mem id (rr_messages r) = false.
Proof.
  intros (_ & _ & _ & _ & _ & I6) H.
  destruct (sm_mem id (rr_messages r)) eqn:E; [|reflexivity].
  unfold rr_seen in *. destruct (rr_order r).
  - rewrite E, orb_true_r in H. discriminate.
  - destruct I6 as [_ B]. specialize (B id E). congruence.
Qed.

Lemma rr_seen_accept r m id k : rr_seen (rr_accept r m id) k = (k =? id) || rr_seen r k.
Proof.
  unfold rr_seen, rr_accept, rr_with. cbn [rr_oldest rr_order rr_messages].
  destruct (rr_order r); cbn [ord_add].
  - rewrite sm_mem_insert. destruct (k <? rr_oldest r), (k =? id); reflexivity.
  - rewrite ss_mem_insert. destruct (k <? rr_oldest r), (k =? id); reflexivity.
Qed.

Lemma rr_inv_accept r m id : rr_inv r -> rr_seen r id = false -> rr_mem r + len m <= rr_max r ->
  rr_inv (rr_accept r m id).
Proof.
  intros Hinv Hs Hmax. pose proof (unseen_not_msg r id Hinv Hs) as Hnm.
  pose proof (rr_seen_accept r m id) as Hseen.
  destruct Hinv as (I1 & I2 & I3 & I4 & I5 & I6).
  unfold rr_inv. unfold rr_accept, rr_with in *.
  cbn [rr_slices rr_messages rr_oldest rr_order rr_mem rr_max] in *.
  split; [rewrite msgs_bytes_insert_new by auto; lia|].
  split; [exact Hmax|]. split; [exact I3|]. split; [exact I4|].
  split; [apply asc_sm_insert; exact I5|].
  destruct (rr_order r) as [|mr rcv]; cbn [ord_add] in *; [exact I|].
  destruct I6 as [A B]. split; [apply asc_ss_insert; exact A|].
  intros k Hk. rewrite Hseen. rewrite sm_mem_insert in Hk.
  destruct (k =? id); [reflexivity|]. cbn [orb] in *. auto.
Qed.

Theorem rr_process_message_safe : forall r m id, rr_inv r ->
  match rr_process_message r m id with
  | Ok r' => rr_inv r' /\ rr_max r' = rr_max r
  | Err e => e = ReliableChannelMaxMemoryReached
  | Panic _ => False
  end.
Proof.
  intros r m id Hinv. destruct (rr_seen r id) eqn:Hs.
  - destruct (rr_pm_seen r m id Hs) as (r' & -> & Hv). split.
    + eapply rr_inv_view; eauto.
    + apply rr_view_inv in Hv. tauto.
  - rewrite rr_pm_unseen by auto.
    destruct (N.ltb_spec (rr_max r) (rr_mem r + len m)); [reflexivity|].
    split; [apply rr_inv_accept; auto|reflexivity].
Qed.

(* ------------------------------------------------------------------ *)
(* rr_process_slice: normal form *)

Definition ctor0 (r : recv_rel) (s : slice) : sctor :=
  match sm_find (sl_id s) (rr_slices r) with Some c => c | None => sctor_new (sl_num s) end.

Definition extra (r : recv_rel) (s : slice) : N :=
  match sm_find (sl_id s) (rr_slices r) with Some _ => 0 | None => sl_num s * SLICE_SIZE end.

(* the constructor for id is dropped and its reservation released *)
Definition rr_close (r : recv_rel) (id mem : N) : recv_rel :=
  rr_with r (sm_remove id (rr_slices r)) (rr_messages r) (rr_oldest r) (rr_order r) mem.

Definition rr_put (r : recv_rel) (id : N) (c : sctor) (mem : N) : recv_rel :=
  rr_with r (sm_insert id c (rr_slices r)) (rr_messages r) (rr_oldest r) (rr_order r) mem.

Lemma rr_seen_with_slices r sl mem k :
  rr_seen (rr_with r sl (rr_messages r) (rr_oldest r) (rr_order r) mem) k = rr_seen r k.
Proof. reflexivity. Qed.

Lemma rr_ps_tail r id c' mem m : asc (map fst (rr_slices r)) -> rr_seen r id = false ->
  (do r3 <- rr_process_message
              (rr_with r (sm_insert id c' (rr_slices r)) (rr_messages r) (rr_oldest r) (rr_order r) mem) m id;
   Ok (rr_with r3 (sm_remove id (rr_slices r3)) (rr_messages r3) (rr_oldest r3) (rr_order r3) (rr_mem r3)))
  = rr_process_message (rr_close r id mem) m id.
Proof.
  intros A Hs. unfold rr_close.
  rewrite !rr_pm_unseen by (rewrite rr_seen_with_slices; exact Hs).
  unfold rr_accept.
  cbn [rr_with rr_slices rr_messages rr_oldest rr_order rr_mem rr_max].
  destruct (rr_max r <? mem + len m); cbn [bind]; [reflexivity|].
  cbn [rr_with rr_slices rr_messages rr_oldest rr_order rr_mem rr_max].
  rewrite sm_remove_insert by exact A. reflexivity.
Qed.

Lemma rr_ps_spec r s : asc (map fst (rr_slices r)) -> rr_mem r <= rr_max r ->
  rr_process_slice r s =
  if sm_mem (sl_id s) (rr_messages r) || rr_seen r (sl_id s) then Ok r else
  if rr_max r <? rr_mem r + extra r s then Err MaxMem else
  match sctor_process (ctor0 r s) (sl_index s) (sl_payload s) with
  | Panic p => Panic p
  | Err e => Err e
  | Ok (c', None) => Ok (rr_put r (sl_id s) c' (rr_mem r + extra r s))
  | Ok (c', Some m) =>
      let mem1 := rr_mem r + extra r s in
      let reserved := sc_num (ctor0 r s) * SLICE_SIZE in
      if reserved <=? mem1
      then rr_process_message (rr_close r (sl_id s) (mem1 - reserved)) m (sl_id s)
      else Panic SITE_RECV_MEM_SUB
  end.
Proof.
  intros A Hmm. unfold rr_process_slice, rr_already_delivered, ctor0, extra.
  set (id := sl_id s).
  assert (Hseen : sm_mem id (rr_messages r) || rr_seen r id =
            (sm_mem id (rr_messages r) || (id <? rr_oldest r)) ||
            match rr_order r with Ordered => false | Unordered _ rcv => ss_mem id rcv end).
  { unfold rr_seen. destruct (rr_order r), (sm_mem id (rr_messages r)), (id <? rr_oldest r);
      cbn [orb]; reflexivity. }
  rewrite Hseen.
  destruct (sm_mem id (rr_messages r) || (id <? rr_oldest r)) eqn:E1; [reflexivity|].
  cbn [orb] in *.
  destruct (match rr_order r with Ordered => false | Unordered _ rcv => ss_mem id rcv end) eqn:E2;
    [reflexivity|].
  assert (Hs : rr_seen r id = false).
  { apply orb_false_iff in Hseen. tauto. }
  destruct (sm_find id (rr_slices r)) as [c|] eqn:Ef.
  - cbn [bind]. rewrite Ef. rewrite N.add_0_r.
    destruct (N.ltb_spec (rr_max r) (rr_mem r)); [lia|].
    destruct (sctor_process c (sl_index s) (sl_payload s)) as [[c' [m|]]|e|p]; cbn [bind];
      try reflexivity.
    unfold sub_chk. cbv zeta. destruct (sc_num c * SLICE_SIZE <=? rr_mem r); cbn [bind]; [|reflexivity].
    apply rr_ps_tail; auto.
  - destruct (rr_max r <? rr_mem r + sl_num s * SLICE_SIZE); cbn [bind]; [reflexivity|].
    unfold rr_with at 1. cbn [rr_slices]. rewrite sm_find_insert_same.
    destruct (sctor_process (sctor_new (sl_num s)) (sl_index s) (sl_payload s)) as [[c' [m|]]|e|p];
      cbn [bind]; try reflexivity.
    + unfold sub_chk. cbv zeta. unfold rr_with at 1. cbn [rr_mem].
      destruct (sc_num (sctor_new (sl_num s)) * SLICE_SIZE <=? rr_mem r + sl_num s * SLICE_SIZE);
        cbn [bind]; [|reflexivity].
      set (r1 := rr_with r (sm_insert id (sctor_new (sl_num s)) (rr_slices r)) (rr_messages r)
                         (rr_oldest r) (rr_order r) (rr_mem r + sl_num s * SLICE_SIZE)).
      change (rr_with r1 (sm_insert id c' (rr_slices r1)) (rr_messages r1) (rr_oldest r1) (rr_order r1))
        with (rr_with r1 (sm_insert id c' (rr_slices r1)) (rr_messages r1) (rr_oldest r1) (rr_order r1)).
      rewrite (rr_ps_tail r1 id c').
      * unfold rr_close, r1, rr_with. cbn [rr_slices rr_messages rr_oldest rr_order rr_mem rr_max].
        rewrite sm_remove_insert by exact A. reflexivity.
      * unfold r1, rr_with. cbn [rr_slices]. apply asc_sm_insert. exact A.
      * exact Hs.
    + unfold rr_put, rr_with. cbn [rr_slices rr_messages rr_oldest rr_order rr_mem rr_max].
      rewrite sm_insert_insert. reflexivity.
Qed.

(* ------------------------------------------------------------------ *)
(* R3 *)

Lemma rr_inv_slices r sl mem : rr_inv r ->
  mem = msgs_bytes (rr_messages r) + ctors_bytes sl -> mem <= rr_max r ->
  Forall (fun ic => sctor_wf (snd ic)) sl -> asc (map fst sl) ->
  rr_inv (rr_with r sl (rr_messages r) (rr_oldest r) (rr_order r) mem).
Proof.
  intros (I1 & I2 & I3 & I4 & I5 & I6) H1 H2 H3 H4. unfold rr_inv.
  cbn [rr_with rr_slices rr_messages rr_oldest rr_order rr_mem rr_max].
  repeat (split; [assumption|]). exact I6.
Qed.

Lemma ctor0_wf r s : rr_inv r -> 1 <= sl_num s -> sctor_wf (ctor0 r s).
Proof.
  intros (_ & _ & I3 & _) H. unfold ctor0.
  destruct (sm_find (sl_id s) (rr_slices r)) as [c|] eqn:E.
  - apply (Forall_sm_find _ _ _ _ I3 E).
  - apply sctor_new_wf. exact H.
Qed.

Lemma rr_inv_put r s c' : rr_inv r -> rr_mem r + extra r s <= rr_max r ->
  sctor_wf c' -> sc_num c' = sc_num (ctor0 r s) ->
  rr_inv (rr_put r (sl_id s) c' (rr_mem r + extra r s)).
Proof.
  intros Hinv Hmax W En. pose proof Hinv as (I1 & I2 & I3 & I4 & I5 & I6).
  unfold rr_put. apply rr_inv_slices; auto.
  - unfold extra, ctor0 in *. destruct (sm_find (sl_id s) (rr_slices r)) as [c|] eqn:E.
    + rewrite (ctors_bytes_insert_same _ _ c) by auto. lia.
    + rewrite ctors_bytes_insert_new by auto. rewrite En. cbn [sctor_new sc_num]. lia.
  - apply Forall_sm_insert; auto.
  - apply asc_sm_insert; auto.
Qed.

Lemma rr_inv_close r s : rr_inv r -> rr_mem r + extra r s <= rr_max r ->
  sc_num (ctor0 r s) * SLICE_SIZE <= rr_mem r + extra r s /\
  rr_inv (rr_close r (sl_id s) (rr_mem r + extra r s - sc_num (ctor0 r s) * SLICE_SIZE)).
Proof.
  intros Hinv Hmax. pose proof Hinv as (I1 & I2 & I3 & I4 & I5 & I6).
  unfold extra, ctor0 in *. destruct (sm_find (sl_id s) (rr_slices r)) as [c|] eqn:E.
  - pose proof (ctors_bytes_remove _ _ _ E) as R. split; [lia|].
    unfold rr_close. apply rr_inv_slices; auto.
    + lia.
    + lia.
    + apply Forall_sm_remove; auto.
    + apply asc_sm_remove; auto.
  - cbn [sctor_new sc_num]. split; [lia|].
    unfold rr_close. apply rr_inv_slices; auto.
    + rewrite ctors_bytes_remove_none by auto. lia.
    + lia.
    + apply Forall_sm_remove; auto.
    + apply asc_sm_remove; auto.
Qed.

Lemma rr_process_slice_safe' r s : rr_inv r -> 1 <= sl_num s ->
  match rr_process_slice r s with
  | Ok r' => rr_inv r' /\ rr_max r' = rr_max r
  | Err _ => True
  | Panic _ => False
  end.
Proof.
  intros Hinv Hn. pose proof Hinv as (I1 & I2 & I3 & I4 & I5 & I6).
  rewrite rr_ps_spec by auto.
  destruct (sm_mem (sl_id s) (rr_messages r) || rr_seen r (sl_id s)); [auto|].
  destruct (N.ltb_spec (rr_max r) (rr_mem r + extra r s)) as [Hx|Hx]; [exact I|].
  pose proof (sctor_process_safe (ctor0 r s) (sl_index s) (sl_payload s) (ctor0_wf r s Hinv Hn)) as P.
  destruct (sctor_process (ctor0 r s) (sl_index s) (sl_payload s)) as [[c' [m|]]|e|p]; auto.
  - cbv zeta. destruct (rr_inv_close r s Hinv Hx) as [Hr Hc].
    destruct (N.leb_spec (sc_num (ctor0 r s) * SLICE_SIZE) (rr_mem r + extra r s)); [|lia].
    pose proof (rr_process_message_safe _ m (sl_id s) Hc) as Q.
    destruct (rr_process_message _ m (sl_id s)); auto.
  - destruct P as [W En]. split; [apply rr_inv_put; auto|reflexivity].
Qed.

Theorem rr_process_slice_safe : forall r s, rr_inv r -> slice_decoded s ->
  match rr_process_slice r s with
  | Ok r' => rr_inv r' /\ rr_max r' = rr_max r
  | Err _ => True
  | Panic _ => False
  end.
Proof. intros r s Hinv [H _]. apply rr_process_slice_safe'; auto. Qed.

(* ------------------------------------------------------------------ *)
(* R4: rr_receive *)

Lemma advance_spec fuel : forall old rcv, asc rcv ->
  asc (snd (advance_oldest fuel old rcv)) /\ old <= fst (advance_oldest fuel old rcv) /\
  forall k, (k <? fst (advance_oldest fuel old rcv)) || ss_mem k (snd (advance_oldest fuel old rcv))
            = (k <? old) || ss_mem k rcv.
Proof.
  induction fuel as [|f IH]; intros old rcv A; cbn [advance_oldest fst snd].
  - split; [auto|split; [lia|auto]].
  - destruct (ss_mem old rcv) eqn:E; cbn [fst snd]; [|split; [auto|split; [lia|auto]]].
    destruct (IH (old + 1) (ss_remove old rcv) (asc_ss_remove _ _ A)) as (A' & L & S).
    split; [exact A'|split; [lia|]]. intros k. rewrite S. rewrite ss_mem_remove by auto.
    destruct (N.eqb_spec k old) as [->|Hne]; cbn [negb andb].
    + rewrite E. destruct (N.ltb_spec old (old + 1)); [|lia]. rewrite orb_true_r. reflexivity.
    + destruct (N.ltb_spec k (old + 1)), (N.ltb_spec k old); try lia; reflexivity.
Qed.

(* the cursor / received set after popping message id in Unordered mode *)
Definition adv (r : recv_rel) (rcv : list N) (id : N) : N * list N :=
  if rr_oldest r =? id then advance_oldest (length rcv) (rr_oldest r) rcv else (rr_oldest r, rcv).

Lemma adv_spec r rcv id : asc rcv ->
  asc (snd (adv r rcv id)) /\ rr_oldest r <= fst (adv r rcv id) /\
  forall k, (k <? fst (adv r rcv id)) || ss_mem k (snd (adv r rcv id))
            = (k <? rr_oldest r) || ss_mem k rcv.
Proof.
  intros A. unfold adv. destruct (rr_oldest r =? id).
  - apply advance_spec; auto.
  - cbn [fst snd]. split; [auto|split; [lia|auto]].
Qed.

Definition rr_pop_ordered (r : recv_rel) (m : list N) : recv_rel :=
  rr_with r (rr_slices r) (sm_remove (rr_oldest r) (rr_messages r)) (rr_oldest r + 1) Ordered
          (rr_mem r - len m).

Definition rr_pop_unordered (r : recv_rel) (mr : N) (rcv : list N) (id : N) (m : list N)
           (rest : list (N * list N)) : recv_rel :=
  rr_with r (rr_slices r) rest (fst (adv r rcv id)) (Unordered mr (snd (adv r rcv id)))
          (rr_mem r - len m).

Lemma rr_receive_ordered r : rr_inv r -> rr_order r = Ordered ->
  rr_receive r = match sm_find (rr_oldest r) (rr_messages r) with
                 | None => Ok (r, None)
                 | Some m => Ok (rr_pop_ordered r m, Some m)
                 end.
Proof.
  intros (I1 & _) Eo. unfold rr_receive. rewrite Eo.
  destruct (sm_find (rr_oldest r) (rr_messages r)) as [m|] eqn:E; [|reflexivity].
  pose proof (msgs_bytes_remove _ _ _ E). unfold sub_chk.
  destruct (N.leb_spec (len m) (rr_mem r)); [|lia]. reflexivity.
Qed.

Lemma rr_receive_unordered r mr rcv : rr_inv r -> rr_order r = Unordered mr rcv ->
  rr_receive r = match rr_messages r with
                 | [] => Ok (r, None)
                 | (id, m) :: rest => Ok (rr_pop_unordered r mr rcv id m rest, Some m)
                 end.
Proof.
  intros (I1 & _) Eo. unfold rr_receive. rewrite Eo.
  destruct (rr_messages r) as [|[id m] rest] eqn:E; [reflexivity|].
  rewrite msgs_bytes_cons in I1. unfold rr_pop_unordered, adv.
  destruct (if rr_oldest r =? id then advance_oldest (length rcv) (rr_oldest r) rcv else (rr_oldest r, rcv))
    as [old' rcv'].
  unfold sub_chk. destruct (N.leb_spec (len m) (rr_mem r)); [|lia]. reflexivity.
Qed.

Lemma rr_inv_pop_ordered r m : rr_inv r -> rr_order r = Ordered ->
  sm_find (rr_oldest r) (rr_messages r) = Some m -> rr_inv (rr_pop_ordered r m).
Proof.
  intros (I1 & I2 & I3 & I4 & I5 & I6) Eo E. pose proof (msgs_bytes_remove _ _ _ E).
  unfold rr_inv, rr_pop_ordered. cbn [rr_with rr_slices rr_messages rr_oldest rr_order rr_mem rr_max].
  split; [lia|]. split; [lia|]. split; [auto|]. split; [auto|]. split; [apply asc_sm_remove; auto|exact I].
Qed.

Lemma rr_seen_pop_unordered r mr rcv id m rest k : rr_order r = Unordered mr rcv -> asc rcv ->
  rr_seen (rr_pop_unordered r mr rcv id m rest) k = rr_seen r k.
Proof.
  intros Eo A. unfold rr_seen, rr_pop_unordered.
  cbn [rr_with rr_oldest rr_order]. rewrite Eo.
  destruct (adv_spec r rcv id A) as (_ & _ & S). apply S.
Qed.

Lemma rr_inv_pop_unordered r mr rcv id m rest : rr_inv r -> rr_order r = Unordered mr rcv ->
  rr_messages r = (id, m) :: rest -> rr_inv (rr_pop_unordered r mr rcv id m rest).
Proof.
  intros (I1 & I2 & I3 & I4 & I5 & I6) Eo E. rewrite Eo in I6. destruct I6 as [A B].
  pose proof (rr_seen_pop_unordered r mr rcv id m rest) as Hseen.
  unfold rr_inv. unfold rr_pop_unordered in *.
  cbn [rr_with rr_slices rr_messages rr_oldest rr_order rr_mem rr_max] in *.
  rewrite E in *. rewrite msgs_bytes_cons in I1. cbn [map fst] in I5. destruct I5 as [F5 A5].
  split; [lia|]. split; [lia|]. split; [auto|]. split; [auto|]. split; [auto|].
  destruct (adv_spec r rcv id A) as (A' & _ & _). split; [exact A'|].
  intros k Hk. rewrite Hseen by auto. apply B.
  unfold sm_mem in *. cbn [sm_find]. destruct (k =? id); auto.
Qed.

Theorem rr_receive_safe : forall r, rr_inv r ->
  match rr_receive r with
  | Ok (r', _) => rr_inv r' /\ rr_max r' = rr_max r
  | _ => False
  end.
Proof.
  intros r Hinv. destruct (rr_order r) as [|mr rcv] eqn:Eo.
  - rewrite rr_receive_ordered by auto.
    destruct (sm_find (rr_oldest r) (rr_messages r)) as [m|] eqn:E; [|auto].
    split; [apply rr_inv_pop_ordered; auto|reflexivity].
  - rewrite (rr_receive_unordered r mr rcv) by auto.
    destruct (rr_messages r) as [|[id m] rest] eqn:E; [auto|].
    split; [apply rr_inv_pop_unordered; auto|reflexivity].
Qed.

(* ================================================================== *)
(* functional correctness under an honest sender *)

Definition outs_ok (sent : list (list N)) (outs : list (N * list N)) : Prop :=
  Forall (fun im => msg_at sent (fst im) = Some (snd im)) outs.

(* how the ids handed to the application relate to the channel state *)
Definition outs_rel (r : recv_rel) (outs : list (N * list N)) : Prop :=
  match rr_order r with
  | Ordered =>
      map fst outs = iota (rr_oldest r) /\
      (forall id, sm_mem id (rr_messages r) = true -> rr_oldest r <= id)
  | Unordered _ _ =>
      NoDup (map fst outs) /\
      (forall id, In id (map fst outs) <-> rr_seen r id = true /\ sm_mem id (rr_messages r) = false)
  end.

Record hcore (sent : list (list N)) (r : recv_rel) (outs : list (N * list N)) : Prop := {
  hc_inv : rr_inv r;
  hc_msgs : forall id m, sm_find id (rr_messages r) = Some m -> msg_at sent id = Some m;
  hc_ctors : forall id c, sm_find id (rr_slices r) = Some c ->
      rr_seen r id = false /\
      exists m, msg_at sent id = Some m /\ SLICE_SIZE < len m /\ ctor_ok m c;
  hc_outs_ok : outs_ok sent outs;
  hc_outs : outs_rel r outs;
}.

Lemma msg_seen r id : rr_inv r -> sm_mem id (rr_messages r) = true -> rr_seen r id = true.
Proof.
  intros Hinv H. destruct (rr_seen r id) eqn:E; [reflexivity|].
  rewrite (unseen_not_msg r id Hinv E) in H. discriminate.
Qed.

Lemma outs_rel_view r r' outs : rr_view r' = rr_view r -> outs_rel r outs -> outs_rel r' outs.
Proof.
  intros H. pose proof (rr_seen_view r r') as S. specialize (fun id => S id H).
  apply rr_view_inv in H. destruct H as (E1 & E2 & E3 & E4 & E5 & E6).
  unfold outs_rel. rewrite E2, E3.
  destruct (rr_order r'), (rr_order r); cbn [ord_rcv] in E4; try discriminate; [auto|].
  intros [A B]. split; [exact A|]. intros id. rewrite S. apply B.
Qed.

Lemma hcore_view sent r r' outs : rr_view r' = rr_view r -> hcore sent r outs -> hcore sent r' outs.
Proof.
  intros H [Hinv Hm Hc Hok Ho]. pose proof (rr_seen_view r r') as S. specialize (fun id => S id H).
  pose proof (rr_view_inv _ _ H) as (E1 & E2 & E3 & E4 & E5 & E6).
  constructor.
  - eapply rr_inv_view; eauto.
  - rewrite E2. exact Hm.
  - rewrite E1. intros id c Hf. rewrite S. eauto.
  - exact Hok.
  - eapply outs_rel_view; eauto.
Qed.

Lemma hcore_accept sent r outs m id : hcore sent r outs -> msg_at sent id = Some m ->
  rr_seen r id = false -> sm_find id (rr_slices r) = None -> rr_mem r + len m <= rr_max r ->
  hcore sent (rr_accept r m id) outs.
Proof.
  intros [Hinv Hm Hc Hok Ho] Hat Hs Hnc Hmax.
  pose proof (rr_seen_accept r m id) as Hseen.
  pose proof (unseen_not_msg r id Hinv Hs) as Hnm.
  constructor.
  - apply rr_inv_accept; auto.
  - intros k mk. unfold rr_accept. cbn [rr_with rr_messages]. rewrite sm_find_insert.
    destruct (N.eqb_spec k id) as [->|Hne]; [intros [= <-]; exact Hat|apply Hm].
  - intros k c Hf. unfold rr_accept in Hf. cbn [rr_with rr_slices] in Hf.
    destruct (Hc k c Hf) as [Hk Hr]. split; [|exact Hr]. rewrite Hseen.
    destruct (N.eqb_spec k id) as [->|Hne]; [congruence|exact Hk].
  - exact Hok.
  - unfold outs_rel in *. unfold rr_seen in Hs. apply orb_false_iff in Hs. destruct Hs as [Hs1 Hs2].
    assert (Hord : rr_order (rr_accept r m id) = ord_add (rr_order r) id) by reflexivity.
    assert (Hmsgs : rr_messages (rr_accept r m id) = sm_insert id m (rr_messages r)) by reflexivity.
    assert (Hold : rr_oldest (rr_accept r m id) = rr_oldest r) by reflexivity.
    rewrite Hord, Hmsgs, Hold. destruct (rr_order r) as [|mr rcv] eqn:Eo; cbn [ord_add].
    + destruct Ho as [A B]. split; [exact A|]. intros k. rewrite sm_mem_insert.
      destruct (N.eqb_spec k id) as [->|Hne]; cbn [orb]; [intros _; lia|apply B].
    + destruct Ho as [A B]. split; [exact A|]. intros k. rewrite Hseen, sm_mem_insert, B.
      destruct (N.eqb_spec k id) as [->|Hne]; cbn [orb]; [|reflexivity].
      unfold rr_seen. rewrite Eo, Hs1, Hs2. cbn [orb]. split; intros [? ?]; discriminate.
Qed.

Lemma hcore_pm sent r outs m id r' : hcore sent r outs -> msg_at sent id = Some m ->
  (rr_seen r id = false -> sm_find id (rr_slices r) = None) ->
  rr_process_message r m id = Ok r' ->
  hcore sent r' outs /\ rr_seen r' id = true /\
  (forall k, rr_seen r k = true -> rr_seen r' k = true) /\ rr_slices r' = rr_slices r.
Proof.
  intros H Hat Hnc Hpm. destruct (rr_seen r id) eqn:Hs.
  - destruct (rr_pm_seen r m id Hs) as (r'' & E & Hv). rewrite E in Hpm. injection Hpm as <-.
    split; [eapply hcore_view; eauto|]. split; [rewrite (rr_seen_view _ _ _ Hv); exact Hs|].
    split; [intros k; rewrite (rr_seen_view _ _ _ Hv); auto|]. apply rr_view_inv in Hv. tauto.
  - rewrite rr_pm_unseen in Hpm by auto.
    destruct (N.ltb_spec (rr_max r) (rr_mem r + len m)); [discriminate|]. injection Hpm as <-.
    split; [apply hcore_accept; auto|]. split; [rewrite rr_seen_accept, N.eqb_refl; reflexivity|].
    split; [|reflexivity]. intros k Hk. rewrite rr_seen_accept, Hk. apply orb_true_r.
Qed.

Lemma hcore_slices sent r outs sl mem :
  hcore sent r outs ->
  rr_inv (rr_with r sl (rr_messages r) (rr_oldest r) (rr_order r) mem) ->
  (forall id c, sm_find id sl = Some c ->
      rr_seen r id = false /\ exists m, msg_at sent id = Some m /\ SLICE_SIZE < len m /\ ctor_ok m c) ->
  hcore sent (rr_with r sl (rr_messages r) (rr_oldest r) (rr_order r) mem) outs.
Proof.
  intros [Hinv Hm Hc Hok Ho] Hinv' Hc'. constructor; auto.
Qed.

(* ---------- progress: what the processed events guarantee ---------- *)

Definition ev_prog (sent : list (list N)) (r : recv_rel) (e : rev) : Prop :=
  match e with
  | RSmall id => msg_at sent id <> None -> rr_seen r id = true
  | RSlice id idx =>
      msg_at sent id <> None ->
      rr_seen r id = true \/ exists c, sm_find id (rr_slices r) = Some c /\ has c idx
  | RRecv => True
  end.

Definition hprog (sent : list (list N)) (done : list rev) (r : recv_rel) : Prop :=
  Forall (ev_prog sent r) done.

Definition prog_le (r r' : recv_rel) : Prop :=
  (forall k, rr_seen r k = true -> rr_seen r' k = true) /\
  (forall k c i, sm_find k (rr_slices r) = Some c -> has c i ->
     rr_seen r' k = true \/ exists c', sm_find k (rr_slices r') = Some c' /\ has c' i).

Lemma prog_le_refl r : prog_le r r.
Proof. split; [auto|]. intros k c i Hf Hh. right. eauto. Qed.

Lemma prog_le_same_slices r r' : (forall k, rr_seen r k = true -> rr_seen r' k = true) ->
  rr_slices r' = rr_slices r -> prog_le r r'.
Proof. intros H E. split; [auto|]. intros k c i Hf Hh. right. rewrite E. eauto. Qed.

Lemma hprog_mono sent done r r' : prog_le r r' -> hprog sent done r -> hprog sent done r'.
Proof.
  intros [L1 L2] H. unfold hprog in *. eapply Forall_impl; [|exact H].
  intros [id|id idx|]; cbn [ev_prog]; auto.
  intros P Hn. destruct (P Hn) as [Hs|(c & Hf & Hh)]; [left; auto|]. eapply L2; eauto.
Qed.

Lemma hprog_snoc sent done r e : hprog sent done r -> ev_prog sent r e -> hprog sent (done ++ [e]) r.
Proof. intros H He. unfold hprog. apply Forall_app. split; [exact H|constructor; auto]. Qed.

(* ---------- one honest event ---------- *)

Lemma step_small sent r outs done id m :
  hcore sent r outs -> hprog sent done r -> msg_at sent id = Some m -> len m <= SLICE_SIZE ->
  match rr_process_message r m id with
  | Ok r' => hcore sent r' outs /\ hprog sent (done ++ [RSmall id]) r'
  | Err e => e = MaxMem
  | Panic _ => False
  end.
Proof.
  intros H P Hat Hl. pose proof (rr_process_message_safe r m id (hc_inv _ _ _ H)) as S.
  destruct (rr_process_message r m id) as [r'|e|p] eqn:E; auto.
  destruct (hcore_pm sent r outs m id r' H Hat) as (H' & Hs & Hmono & Hsl); auto.
  { intros Hu. destruct (sm_find id (rr_slices r)) as [c|] eqn:Ef; [|reflexivity].
    destruct (hc_ctors _ _ _ H id c Ef) as (_ & m' & Hat' & Hlen & _).
    rewrite Hat in Hat'. injection Hat' as <-. lia. }
  split; auto. apply hprog_snoc.
  - eapply hprog_mono; [|exact P]. apply prog_le_same_slices; auto.
  - cbn [ev_prog]. intros _. exact Hs.
Qed.

Lemma step_slice sent r outs done id idx m :
  hcore sent r outs -> hprog sent done r -> msg_at sent id = Some m ->
  SLICE_SIZE < len m -> idx < num_slices_of m ->
  match rr_process_slice r (slice_of m id idx) with
  | Ok r' => hcore sent r' outs /\ hprog sent (done ++ [RSlice id idx]) r'
  | Err e => e = MaxMem
  | Panic _ => False
  end.
Proof.
  intros H P Hat Hl Hi. pose proof (hc_inv _ _ _ H) as Hinv.
  pose proof Hinv as (I1 & I2 & I3 & I4 & I5 & I6).
  set (s := slice_of m id idx).
  rewrite rr_ps_spec by auto.
  change (sl_id s) with id. change (sl_index s) with idx.
  change (sl_payload s) with (slice_payload m idx).
  destruct (sm_mem id (rr_messages r) || rr_seen r id) eqn:E.
  - split; auto. apply hprog_snoc; auto. cbn [ev_prog]. intros _. left.
    apply orb_true_iff in E. destruct E; [apply msg_seen; auto|auto].
  - apply orb_false_iff in E. destruct E as [Enm Es].
    destruct (N.ltb_spec (rr_max r) (rr_mem r + extra r s)) as [Hx|Hx]; [reflexivity|].
    assert (W0 : sctor_wf (ctor0 r s)).
    { apply ctor0_wf; auto. change (sl_num s) with (num_slices_of m).
      pose proof (num_bounds m Hl). lia. }
    assert (O0 : ctor_ok m (ctor0 r s)).
    { unfold ctor0. change (sl_id s) with id. change (sl_num s) with (num_slices_of m).
      destruct (sm_find id (rr_slices r)) as [c|] eqn:Ef.
      - destruct (hc_ctors _ _ _ H id c Ef) as (_ & m' & Hat' & _ & Ok').
        rewrite Hat in Hat'. injection Hat' as <-. exact Ok'.
      - apply ctor_ok_new. }
    pose proof (sctor_process_honest m (ctor0 r s) idx Hl W0 O0 Hi) as Q.
    destruct (sctor_process (ctor0 r s) idx (slice_payload m idx)) as [[c' [m'|]]|e|p];
      try contradiction.
    + destruct Q as [-> Hall]. cbv zeta. destruct (rr_inv_close r s Hinv Hx) as [Hr Hc].
      change (sl_id s) with id in Hc.
      destruct (N.leb_spec (sc_num (ctor0 r s) * SLICE_SIZE) (rr_mem r + extra r s)); [|lia].
      set (rc := rr_close r id (rr_mem r + extra r s - sc_num (ctor0 r s) * SLICE_SIZE)) in *.
      pose proof (rr_process_message_safe rc m id Hc) as S.
      destruct (rr_process_message rc m id) as [r'|e|p] eqn:Epm; auto.
      assert (Hcc : hcore sent rc outs).
      { apply hcore_slices; auto. intros k c Hf. destruct (N.eq_dec k id) as [->|Hne].
        - rewrite sm_find_remove in Hf by auto. rewrite N.eqb_refl in Hf. discriminate.
        - rewrite sm_find_remove_other in Hf by auto. eapply hc_ctors; eauto. }
      destruct (hcore_pm sent rc outs m id r' Hcc Hat) as (H' & Hs' & Hmono & Hsl); auto.
      { intros _. unfold rc, rr_close. cbn [rr_with rr_slices].
        rewrite sm_find_remove by auto. rewrite N.eqb_refl. reflexivity. }
      split; auto. apply hprog_snoc.
      * eapply hprog_mono; [|exact P]. split.
        -- intros k Hk. apply Hmono. exact Hk.
        -- intros k c i Hf Hh. destruct (N.eq_dec k id) as [->|Hne]; [left; auto|]. right.
           rewrite Hsl. unfold rc, rr_close. cbn [rr_with rr_slices].
           rewrite sm_find_remove_other by auto. eauto.
      * cbn [ev_prog]. intros _. left. exact Hs'.
    + destruct Q as (W' & O' & En & Hhas).
      assert (Hinv' : rr_inv (rr_put r id c' (rr_mem r + extra r s)))
        by (apply (rr_inv_put r s c'); auto).
      split.
      * apply hcore_slices; auto. intros k c Hf. rewrite sm_find_insert in Hf.
        destruct (N.eqb_spec k id) as [->|Hne].
        -- injection Hf as <-. split; [exact Es|]. exists m. auto.
        -- eapply hc_ctors; eauto.
      * apply hprog_snoc.
        -- eapply hprog_mono; [|exact P]. split; [auto|]. intros k c i Hf Hh. right.
           unfold rr_put. cbn [rr_with rr_slices]. rewrite sm_find_insert.
           destruct (N.eqb_spec k id) as [->|Hne]; [|eauto].
           exists c'. split; [reflexivity|]. apply Hhas. left.
           unfold ctor0. change (sl_id s) with id. rewrite Hf. exact Hh.
        -- cbn [ev_prog]. intros _. right. exists c'. split.
           ++ unfold rr_put. cbn [rr_with rr_slices]. apply sm_find_insert_same.
           ++ apply Hhas. right. reflexivity.
Qed.

Lemma NoDup_snoc {A} (l : list A) x : NoDup l -> ~ In x l -> NoDup (l ++ [x]).
Proof.
  induction l as [|y l IH]; intros Hn Hx; cbn [app].
  - constructor; [intros []|constructor].
  - inversion Hn; subst. constructor.
    + rewrite in_app_iff. cbn [In]. intros [?|[?|[]]]; [auto|]. subst. apply Hx. left. reflexivity.
    + apply IH; auto. intros Hi. apply Hx. right. exact Hi.
Qed.

Lemma hcore_pop_ordered sent r outs m : hcore sent r outs -> rr_order r = Ordered ->
  sm_find (rr_oldest r) (rr_messages r) = Some m ->
  hcore sent (rr_pop_ordered r m) (outs ++ [(rr_oldest r, m)]) /\ prog_le r (rr_pop_ordered r m).
Proof.
  intros [Hinv Hm Hc Hok Ho] Eo Ef. pose proof Hinv as (I1 & I2 & I3 & I4 & I5 & I6).
  pose proof (sm_find_some_mem _ _ _ Ef) as Hmem.
  assert (Hseen : forall k, rr_seen (rr_pop_ordered r m) k =
                   (k <? rr_oldest r + 1) || sm_mem k (sm_remove (rr_oldest r) (rr_messages r)))
    by reflexivity.
  assert (Hseen0 : forall k, rr_seen r k = (k <? rr_oldest r) || sm_mem k (rr_messages r)).
  { intros k. unfold rr_seen. rewrite Eo. reflexivity. }
  unfold outs_rel in Ho. rewrite Eo in Ho. destruct Ho as [A B].
  split; [constructor|].
  - apply rr_inv_pop_ordered; auto.
  - intros k mk. unfold rr_pop_ordered. cbn [rr_with rr_messages].
    rewrite sm_find_remove by auto. destruct (k =? rr_oldest r); [discriminate|apply Hm].
  - intros k c Hf. unfold rr_pop_ordered in Hf. cbn [rr_with rr_slices] in Hf.
    destruct (Hc k c Hf) as [Hk Hr]. split; [|exact Hr].
    rewrite Hseen. rewrite Hseen0 in Hk. apply orb_false_iff in Hk. destruct Hk as [K1 K2].
    rewrite sm_mem_remove by auto. rewrite K2, andb_false_r, orb_false_r.
    destruct (N.eq_dec k (rr_oldest r)) as [->|Hne]; [congruence|].
    destruct (N.ltb_spec k (rr_oldest r)); [discriminate|].
    destruct (N.ltb_spec k (rr_oldest r + 1)); [lia|reflexivity].
  - apply Forall_app. split; [exact Hok|]. constructor; [|constructor]. cbn [fst snd]. auto.
  - unfold outs_rel. unfold rr_pop_ordered at 1. cbn [rr_with rr_order].
    unfold rr_pop_ordered. cbn [rr_with rr_oldest rr_messages]. split.
    + rewrite map_app, A, iota_succ. reflexivity.
    + intros k. rewrite sm_mem_remove by auto. intros Hk. apply andb_true_iff in Hk.
      destruct Hk as [K1 K2]. specialize (B k K2).
      destruct (N.eqb_spec k (rr_oldest r)); [discriminate|lia].
  - apply prog_le_same_slices; [|reflexivity]. intros k. rewrite Hseen, Hseen0.
    rewrite sm_mem_remove by auto. intros Hk.
    destruct (N.eqb_spec k (rr_oldest r)) as [->|Hne]; cbn [negb andb].
    + destruct (N.ltb_spec (rr_oldest r) (rr_oldest r + 1)); [reflexivity|lia].
    + apply orb_true_iff in Hk. destruct Hk as [Hk|Hk]; [|rewrite Hk; apply orb_true_r].
      destruct (N.ltb_spec k (rr_oldest r)); [|discriminate].
      destruct (N.ltb_spec k (rr_oldest r + 1)); [reflexivity|lia].
Qed.

Lemma hcore_pop_unordered sent r outs mr rcv id m rest :
  hcore sent r outs -> rr_order r = Unordered mr rcv -> rr_messages r = (id, m) :: rest ->
  hcore sent (rr_pop_unordered r mr rcv id m rest) (outs ++ [(id, m)]) /\
  prog_le r (rr_pop_unordered r mr rcv id m rest).
Proof.
  intros [Hinv Hm Hc Hok Ho] Eo Em. pose proof Hinv as (I1 & I2 & I3 & I4 & I5 & I6).
  rewrite Eo in I6. destruct I6 as [Arcv Bsub].
  pose proof (rr_seen_pop_unordered r mr rcv id m rest) as Hseen.
  specialize (fun k => Hseen k Eo Arcv).
  rewrite Em in I5. cbn [map fst] in I5. destruct I5 as [F5 A5].
  assert (Hrest : forall k, k <> id -> sm_find k rest = sm_find k (rr_messages r)).
  { intros k Hne. rewrite Em. cbn [sm_find]. destruct (N.eqb_spec k id); [congruence|reflexivity]. }
  assert (Hidrest : sm_find id rest = None) by (apply sm_find_lt_none; exact F5).
  assert (Hidm : sm_find id (rr_messages r) = Some m).
  { rewrite Em. cbn [sm_find]. rewrite N.eqb_refl. reflexivity. }
  unfold outs_rel in Ho. rewrite Eo in Ho. destruct Ho as [A B].
  split; [constructor|].
  - apply rr_inv_pop_unordered; auto.
  - intros k mk. unfold rr_pop_unordered. cbn [rr_with rr_messages]. intros Hf.
    destruct (N.eq_dec k id) as [->|Hne]; [congruence|]. apply Hm. rewrite <- Hrest; auto.
  - intros k c Hf. unfold rr_pop_unordered in Hf. cbn [rr_with rr_slices] in Hf.
    rewrite Hseen. eauto.
  - apply Forall_app. split; [exact Hok|]. constructor; [|constructor]. cbn [fst snd]. auto.
  - unfold outs_rel. unfold rr_pop_unordered at 1. cbn [rr_with rr_order].
    rewrite map_app. cbn [map fst]. split.
    + apply NoDup_snoc; [exact A|]. intros Hin. apply B in Hin. destruct Hin as [_ Hin].
      apply sm_find_some_mem in Hidm. congruence.
    + intros k. rewrite Hseen. unfold rr_pop_unordered at 1. cbn [rr_with rr_messages].
      rewrite in_app_iff. cbn [In]. destruct (N.eq_dec k id) as [->|Hne].
      * split; [intros _|auto]. split; [apply msg_seen; auto; eapply sm_find_some_mem; eauto|].
        apply sm_find_none_mem. exact Hidrest.
      * rewrite B. unfold sm_mem. rewrite Hrest by auto. split; [|tauto].
        intros [?|[?|[]]]; [auto|congruence].
  - apply prog_le_same_slices; [|reflexivity]. intros k. rewrite Hseen. auto.
Qed.

Definition app_opt {A} (l : list A) (o : option A) : list A :=
  match o with Some x => l ++ [x] | None => l end.

Lemma step_recv sent r outs done : hcore sent r outs -> hprog sent done r ->
  match rr_step sent r RRecv with
  | Ok (r', o) => hcore sent r' (app_opt outs o) /\ hprog sent (done ++ [RRecv]) r'
  | _ => False
  end.
Proof.
  intros H P. pose proof (hc_inv _ _ _ H) as Hinv. cbn [rr_step]. unfold next_id.
  destruct (rr_order r) as [|mr rcv] eqn:Eo.
  - rewrite rr_receive_ordered by auto.
    destruct (sm_find (rr_oldest r) (rr_messages r)) as [m|] eqn:Ef; cbn [bind].
    + rewrite (sm_find_some_mem _ _ _ Ef). cbn [app_opt].
      destruct (hcore_pop_ordered sent r outs m H Eo Ef) as [H' L]. split; [exact H'|].
      apply hprog_snoc; [|exact I]. eapply hprog_mono; eauto.
    + cbn [app_opt]. split; [exact H|]. apply hprog_snoc; [exact P|exact I].
  - rewrite (rr_receive_unordered r mr rcv) by auto.
    destruct (rr_messages r) as [|[id m] rest] eqn:Em; cbn [bind].
    + cbn [app_opt]. split; [exact H|]. apply hprog_snoc; [exact P|exact I].
    + cbn [app_opt].
      destruct (hcore_pop_unordered sent r outs mr rcv id m rest H Eo Em) as [H' L].
      split; [exact H'|]. apply hprog_snoc; [|exact I]. eapply hprog_mono; eauto.
Qed.

Lemma step_inv sent r outs done e : rev_ok sent e -> hcore sent r outs -> hprog sent done r ->
  match rr_step sent r e with
  | Ok (r', o) => hcore sent r' (app_opt outs o) /\ hprog sent (done ++ [e]) r'
  | Err x => x = MaxMem
  | Panic _ => False
  end.
Proof.
  intros He H P. destruct e as [id|id idx|].
  - destruct He as (m & Hat & Hl). cbn [rr_step]. rewrite Hat.
    pose proof (step_small sent r outs done id m H P Hat Hl) as S.
    destruct (rr_process_message r m id); cbn [bind app_opt]; auto.
  - destruct He as (m & Hat & Hl & Hi). cbn [rr_step]. rewrite Hat.
    pose proof (step_slice sent r outs done id idx m H P Hat Hl Hi) as S.
    destruct (rr_process_slice r (slice_of m id idx)); cbn [bind app_opt]; auto.
  - pose proof (step_recv sent r outs done H P) as S.
    destruct (rr_step sent r RRecv) as [[r' o]|x|p]; auto; contradiction.
Qed.

(* ---------- executions ---------- *)

Definition mode (r : recv_rel) : bool :=
  match rr_order r with Ordered => true | Unordered _ _ => false end.

Lemma mode_pm r m id r' : rr_process_message r m id = Ok r' -> mode r' = mode r.
Proof.
  unfold rr_process_message, mode.
  destruct (id <? rr_oldest r); [intros [= <-]; reflexivity|].
  destruct (rr_order r) as [|mr rcv] eqn:Eo.
  - destruct (sm_mem id (rr_messages r)); [intros [= <-]; rewrite Eo; reflexivity|].
    destruct (rr_max r <? rr_mem r + len m); [discriminate|]. intros [= <-]. reflexivity.
  - destruct (ss_mem id rcv); [intros [= <-]; reflexivity|].
    destruct (rr_max r <? rr_mem r + len m); [discriminate|]. intros [= <-]. reflexivity.
Qed.

Lemma mode_ps r s r' : rr_inv r -> rr_process_slice r s = Ok r' -> mode r' = mode r.
Proof.
  intros (I1 & I2 & I3 & I4 & I5 & I6). rewrite rr_ps_spec by auto.
  destruct (sm_mem (sl_id s) (rr_messages r) || rr_seen r (sl_id s)); [intros [= <-]; reflexivity|].
  destruct (rr_max r <? rr_mem r + extra r s); [discriminate|].
  destruct (sctor_process (ctor0 r s) (sl_index s) (sl_payload s)) as [[c' [m|]]|e|p];
    try discriminate.
  - cbv zeta. destruct (sc_num (ctor0 r s) * SLICE_SIZE <=? rr_mem r + extra r s); [|discriminate].
    intros H. apply mode_pm in H. exact H.
  - intros [= <-]. reflexivity.
Qed.

Lemma mode_recv r r' o : rr_inv r -> rr_receive r = Ok (r', o) -> mode r' = mode r.
Proof.
  intros Hinv. destruct (rr_order r) as [|mr rcv] eqn:Eo.
  - rewrite rr_receive_ordered by auto. unfold mode at 2. rewrite Eo.
    destruct (sm_find (rr_oldest r) (rr_messages r)); intros [= <- _]; [reflexivity|].
    unfold mode. rewrite Eo. reflexivity.
  - rewrite (rr_receive_unordered r mr rcv) by auto. unfold mode at 2. rewrite Eo.
    destruct (rr_messages r) as [|[id m] rest]; intros [= <- _]; [|reflexivity].
    unfold mode. rewrite Eo. reflexivity.
Qed.

Lemma mode_step sent r e r' o : rr_inv r -> rr_step sent r e = Ok (r', o) -> mode r' = mode r.
Proof.
  intros Hinv. destruct e as [id|id idx|]; cbn [rr_step].
  - destruct (msg_at sent id) as [m|]; [|intros [= <- _]; reflexivity].
    destruct (rr_process_message r m id) as [r1| |] eqn:E; cbn [bind]; try discriminate.
    intros [= <- _]. eapply mode_pm; eauto.
  - destruct (msg_at sent id) as [m|]; [|intros [= <- _]; reflexivity].
    destruct (rr_process_slice r (slice_of m id idx)) as [r1| |] eqn:E; cbn [bind]; try discriminate.
    intros [= <- _]. eapply mode_ps; eauto.
  - destruct (rr_receive r) as [[r1 o1]| |] eqn:E; cbn [bind]; try discriminate.
    intros [= <- _]. eapply mode_recv; eauto.
Qed.

Lemma exec_inv sent : forall evs r outs done r' outs' stopped,
  Forall (rev_ok sent) evs -> hcore sent r outs -> hprog sent done r ->
  rr_exec sent r evs outs = (r', outs', stopped) ->
  hcore sent r' outs' /\ mode r' = mode r /\
  (stopped = false -> hprog sent (done ++ evs) r') /\
  (stopped = true -> exists pre e post, evs = pre ++ e :: post /\
      rr_exec sent r pre outs = (r', outs', false) /\ rr_step sent r' e = Err MaxMem).
Proof.
  induction evs as [|e t IH]; intros r outs done r' outs' stopped F H P E.
  - cbn [rr_exec] in E. injection E as <- <- <-. rewrite app_nil_r.
    split; [auto|split; [reflexivity|split; [auto|discriminate]]].
  - inversion F as [|? ? He Ft]; subst. cbn [rr_exec] in E.
    pose proof (step_inv sent r outs done e He H P) as S.
    destruct (rr_step sent r e) as [[r1 o]|x|p] eqn:Es; [| |contradiction].
    + destruct S as [H1 P1].
      pose proof (mode_step sent r e r1 o (hc_inv _ _ _ H) Es) as M1.
      destruct (IH r1 _ (done ++ [e]) r' outs' stopped Ft H1 P1 E) as (A & M & B & C).
      split; [exact A|]. split; [congruence|]. split.
      * intros Hs. rewrite <- app_assoc in B. auto.
      * intros Hs. destruct (C Hs) as (pre & e' & post & -> & Ex & Est).
        exists (e :: pre), e', post. split; [reflexivity|]. split; [|exact Est].
        cbn [rr_exec]. rewrite Es. exact Ex.
    + subst x. injection E as <- <- <-. split; [exact H|]. split; [reflexivity|].
      split; [discriminate|]. intros _. exists [], e, t. repeat split; auto.
Qed.

Lemma hcore_init sent max ordered : hcore sent (recv_rel_new max ordered) [].
Proof.
  constructor.
  - apply rr_inv_init.
  - intros id m H. discriminate.
  - intros id c H. discriminate.
  - constructor.
  - unfold outs_rel, recv_rel_new. cbn [rr_order rr_oldest rr_messages]. destruct ordered.
    + split; [reflexivity|]. intros id H. discriminate.
    + split; [constructor|]. intros id. cbn [map In]. split; [tauto|].
      unfold rr_seen. cbn [rr_oldest rr_order ss_mem]. intros [Hs _].
      destruct (N.ltb_spec id 0); [lia|discriminate].
Qed.

Lemma exec_from_init sent max ordered evs r outs stopped :
  Forall (rev_ok sent) evs ->
  rr_exec sent (recv_rel_new max ordered) evs [] = (r, outs, stopped) ->
  hcore sent r outs /\ mode r = ordered /\
  (stopped = false -> hprog sent evs r) /\
  (stopped = true -> exists pre e post, evs = pre ++ e :: post /\
      rr_exec sent (recv_rel_new max ordered) pre [] = (r, outs, false) /\
      rr_step sent r e = Err MaxMem).
Proof.
  intros F E.
  destruct (exec_inv sent evs _ [] [] r outs stopped F (hcore_init sent max ordered)
              (Forall_nil _) E) as (A & M & B & C).
  split; [exact A|]. split; [|split; auto].
  rewrite M. destruct ordered; reflexivity.
Qed.

(* ---------- R5 ---------- *)

Lemma firstn_snoc {A} (l : list A) n y : nth_error l n = Some y -> firstn (S n) l = firstn n l ++ [y].
Proof.
  revert n. induction l as [|x l IH]; intros [|n]; cbn [nth_error firstn app]; try discriminate.
  - intros [= ->]. reflexivity.
  - intros H. f_equal. apply IH. exact H.
Qed.

Lemma prefix_of_iota sent : forall outs n, map fst outs = iota n -> outs_ok sent outs ->
  map snd outs = firstn (length outs) sent.
Proof.
  induction outs as [|x l IH] using List.rev_ind; intros n E Hok.
  - reflexivity.
  - assert (Hn : n = len l + 1).
    { apply (f_equal (@length N)) in E. rewrite map_length, app_length, iota_length in E.
      cbn [length] in E. unfold len. lia. }
    subst n. rewrite iota_succ, map_app in E. cbn [map] in E. apply app_inj_tail in E.
    destruct E as [E1 E2]. apply Forall_app in Hok. destruct Hok as [Hok1 Hok2].
    inversion Hok2 as [|? ? Hx _]; subst. rewrite E2 in Hx.
    rewrite map_app, app_length. cbn [map length]. rewrite (IH _ E1 Hok1).
    replace (length l + 1)%nat with (S (length l)) by lia.
    unfold msg_at, len in Hx. rewrite Nat2N.id in Hx. rewrite (firstn_snoc _ _ _ Hx). reflexivity.
Qed.

Theorem ordered_prefix : forall sent max evs r outs stopped,
  Forall (rev_ok sent) evs ->
  rr_exec sent (recv_rel_new max true) evs [] = (r, outs, stopped) ->
  map snd outs = firstn (length outs) sent /\ map fst outs = iota (len outs).
Proof.
  intros sent max evs r outs stopped F E.
  destruct (exec_from_init sent max true evs r outs stopped F E) as ([Hinv Hm Hc Hok Ho] & M & _).
  unfold mode in M. unfold outs_rel in Ho. destruct (rr_order r); [|discriminate].
  destruct Ho as [A _]. split; [eapply prefix_of_iota; eauto|].
  rewrite A. f_equal. apply (f_equal (@length N)) in A. rewrite map_length, iota_length in A.
  unfold len. lia.
Qed.

(* ---------- R6 ---------- *)

Theorem unordered_exactly_once : forall sent max evs r outs stopped,
  Forall (rev_ok sent) evs ->
  rr_exec sent (recv_rel_new max false) evs [] = (r, outs, stopped) ->
  NoDup (map fst outs) /\ Forall (fun im => msg_at sent (fst im) = Some (snd im)) outs.
Proof.
  intros sent max evs r outs stopped F E.
  destruct (exec_from_init sent max false evs r outs stopped F E) as ([Hinv Hm Hc Hok Ho] & M & _).
  unfold mode in M. unfold outs_rel in Ho. destruct (rr_order r); [discriminate|].
  destruct Ho as [A _]. split; [exact A|exact Hok].
Qed.

(* ---------- R7 ---------- *)

(* states reachable by an honest run *)
Definition honest_reachable (sent : list (list N)) (r : recv_rel) : Prop :=
  exists max ordered evs outs,
    Forall (rev_ok sent) evs /\ rr_exec sent (recv_rel_new max ordered) evs [] = (r, outs, false).

Theorem honest_step_ok_or_memory : forall sent r e,
  honest_reachable sent r -> rev_ok sent e ->
  match rr_step sent r e with
  | Ok _ => True
  | Err x => x = ReliableChannelMaxMemoryReached
  | Panic _ => False
  end.
Proof.
  intros sent r e (max & ordered & evs & outs & F & E) He.
  destruct (exec_from_init sent max ordered evs r outs false F E) as (H & _ & P & _).
  pose proof (step_inv sent r outs evs e He H (P eq_refl)) as S.
  destruct (rr_step sent r e) as [[r' o]|x|p]; auto.
Qed.

Theorem exec_stops_only_on_memory : forall sent max ordered evs r outs,
  Forall (rev_ok sent) evs ->
  rr_exec sent (recv_rel_new max ordered) evs [] = (r, outs, true) ->
  exists pre e post, evs = pre ++ e :: post /\
    rr_exec sent (recv_rel_new max ordered) pre [] = (r, outs, false) /\
    rr_step sent r e = Err ReliableChannelMaxMemoryReached.
Proof.
  intros sent max ordered evs r outs F E.
  destruct (exec_from_init sent max ordered evs r outs true F E) as (_ & _ & _ & C). auto.
Qed.

(* ---------- R8: eager hand-over ---------- *)

Lemma complete_seen sent evs r outs id :
  hcore sent r outs -> hprog sent evs r -> complete_in sent evs id -> rr_seen r id = true.
Proof.
  intros H P C. unfold complete_in in C. destruct (msg_at sent id) as [m|] eqn:Hat; [|contradiction].
  unfold hprog in P. rewrite Forall_forall in P.
  destruct (N.leb_spec (len m) SLICE_SIZE) as [Hl|Hl].
  - specialize (P _ C). cbn [ev_prog] in P. apply P. congruence.
  - destruct (rr_seen r id) eqn:Es; [reflexivity|exfalso].
    assert (Hn : msg_at sent id <> None) by congruence.
    pose proof (num_bounds m Hl) as (_ & _ & B2).
    assert (Hc : exists c, sm_find id (rr_slices r) = Some c).
    { specialize (P _ (C 0 ltac:(lia))). cbn [ev_prog] in P.
      destruct (P Hn) as [?|(c & Hf & _)]; [congruence|eauto]. }
    destruct Hc as [c Hf].
    destruct (hc_ctors _ _ _ H id c Hf) as (_ & m' & Hat' & _ & [On _]).
    rewrite Hat in Hat'. injection Hat' as <-.
    pose proof (hc_inv _ _ _ H) as (_ & _ & I3 & _).
    pose proof (Forall_sm_find _ _ _ _ I3 Hf) as W. cbn [snd] in W.
    apply (wf_not_full c W). rewrite On. intros i Hi.
    specialize (P _ (C i Hi)). cbn [ev_prog] in P.
    destruct (P Hn) as [?|(c' & Hf' & Hh)]; [congruence|]. rewrite Hf in Hf'. injection Hf' as <-.
    exact Hh.
Qed.

Theorem unordered_eager : forall sent max evs r outs,
  Forall (rev_ok sent) evs ->
  rr_exec sent (recv_rel_new max false) evs [] = (r, outs, false) ->
  forall id, complete_in sent evs id ->
    In id (map fst outs) \/ sm_mem id (rr_messages r) = true.
Proof.
  intros sent max evs r outs F E id C.
  destruct (exec_from_init sent max false evs r outs false F E) as (H & M & P & _).
  pose proof (complete_seen sent evs r outs id H (P eq_refl) C) as Hs.
  pose proof (hc_outs _ _ _ H) as Ho. unfold outs_rel in Ho. unfold mode in M.
  destruct (rr_order r); [discriminate|]. destruct Ho as [_ B].
  destruct (sm_mem id (rr_messages r)) eqn:Em; [right; reflexivity|left]. apply B. auto.
Qed.

Theorem ordered_complete_buffered : forall sent max evs r outs,
  Forall (rev_ok sent) evs ->
  rr_exec sent (recv_rel_new max true) evs [] = (r, outs, false) ->
  forall id, complete_in sent evs id ->
    id < rr_oldest r \/ sm_mem id (rr_messages r) = true.
Proof.
  intros sent max evs r outs F E id C.
  destruct (exec_from_init sent max true evs r outs false F E) as (H & M & P & _).
  pose proof (complete_seen sent evs r outs id H (P eq_refl) C) as Hs.
  unfold mode in M. unfold rr_seen in Hs. destruct (rr_order r); [|discriminate].
  apply orb_true_iff in Hs. destruct Hs as [Hs|Hs]; [left; lia|right; exact Hs].
Qed.

Theorem unordered_receive_available : forall r mr rcv,
  rr_inv r -> rr_order r = Unordered mr rcv -> rr_messages r <> [] ->
  exists r' m, rr_receive r = Ok (r', Some m).
Proof.
  intros r mr rcv Hinv Eo Hne. rewrite (rr_receive_unordered r mr rcv) by auto.
  destruct (rr_messages r) as [|[id m] rest]; [congruence|]. eauto.
Qed.

Theorem ordered_receive_available : forall r,
  rr_inv r -> rr_order r = Ordered -> sm_mem (rr_oldest r) (rr_messages r) = true ->
  exists r' m, rr_receive r = Ok (r', Some m).
Proof.
  intros r Hinv Eo Hm. rewrite rr_receive_ordered by auto.
  apply sm_mem_find in Hm. destruct Hm as [m ->]. eauto.
Qed.

(* ---------- R9: no leak ---------- *)

Lemma msg_at_lt sent id m : msg_at sent id = Some m -> id < len sent.
Proof.
  unfold msg_at, len. intros H.
  assert (nth_error sent (N.to_nat id) <> None) as Hn by congruence.
  apply nth_error_Some in Hn. lia.
Qed.

Theorem drained_is_empty : forall sent max ordered evs r outs,
  Forall (rev_ok sent) evs ->
  rr_exec sent (recv_rel_new max ordered) evs [] = (r, outs, false) ->
  len outs = len sent ->
  rr_mem r = 0 /\ rr_slices r = [] /\ rr_messages r = [].
Proof.
  intros sent max ordered evs r outs F E L.
  destruct (exec_from_init sent max ordered evs r outs false F E) as ([Hinv Hm Hc Hok Ho] & M & _).
  assert (Hall : forall k, k < len sent -> rr_seen r k = true /\
                                           (rr_seen r k = true -> sm_mem k (rr_messages r) = false)).
  { unfold outs_rel in Ho. unfold mode in M. unfold rr_seen.
    destruct (rr_order r) as [|mr rcv] eqn:Eo.
    - destruct Ho as [A B]. assert (len outs = rr_oldest r).
      { apply (f_equal (@length N)) in A. rewrite map_length, iota_length in A. unfold len. lia. }
      intros k Hk. destruct (N.ltb_spec k (rr_oldest r)); [|lia]. split; [reflexivity|].
      intros _. destruct (sm_mem k (rr_messages r)) eqn:Ek; [|reflexivity].
      specialize (B k Ek). lia.
    - destruct Ho as [A B].
      assert (Hincl : incl (iota (len sent)) (map fst outs)).
      { apply NoDup_length_incl; [exact A| |].
        - rewrite iota_length, map_length. unfold len in *. lia.
        - intros k Hk. apply in_map_iff in Hk. destruct Hk as ([k' mk] & <- & Hin).
          unfold outs_ok in Hok. rewrite Forall_forall in Hok. specialize (Hok _ Hin).
          cbn [fst snd] in *. apply in_iota. eapply msg_at_lt; eauto. }
      intros k Hk. assert (Hin : In k (map fst outs)) by (apply Hincl, in_iota; exact Hk).
      apply B in Hin. unfold rr_seen in Hin. rewrite Eo in Hin. destruct Hin as [S1 S2].
      split; [exact S1|intros _; exact S2]. }
  assert (Hmsgs : rr_messages r = []).
  { apply sm_no_mem_nil. intros k. destruct (sm_mem k (rr_messages r)) eqn:Ek; [|reflexivity].
    destruct (sm_mem_find _ _ Ek) as [mk Hf]. pose proof (msg_at_lt _ _ _ (Hm _ _ Hf)) as Hlt.
    destruct (Hall k Hlt) as [S1 S2]. rewrite (S2 S1) in Ek. discriminate. }
  assert (Hsl : rr_slices r = []).
  { apply sm_no_mem_nil. intros k. destruct (sm_mem k (rr_slices r)) eqn:Ek; [|reflexivity].
    destruct (sm_mem_find _ _ Ek) as [c Hf]. destruct (Hc k c Hf) as (Hs & m & Hat & _).
    pose proof (msg_at_lt _ _ _ Hat) as Hlt. destruct (Hall k Hlt) as [S1 _]. congruence. }
  destruct Hinv as (I1 & _). rewrite Hmsgs, Hsl in I1. split; [|auto]. rewrite I1. reflexivity.
Qed.

(* ---------- oddities of the modelled code, exhibited on concrete runs ---------- *)

(* (a) Hostile or buggy sender only: a slice opens a reassembly for id 0 (3 slices reserved), then a
   small message with the same id is accepted and handed over.  The constructor and its reservation
   of 3 * SLICE_SIZE bytes stay in the channel for good: later slices for id 0 are ignored because
   0 < oldest.  rr_inv (the accounting equality) still holds, and drained_is_empty shows that this
   cannot happen with an honest sender. *)
Example hostile_reservation_leak :
  let pay := repeatN 7 (N.to_nat SLICE_SIZE) in
  let s i := {| sl_id := 0; sl_index := i; sl_num := 3; sl_payload := pay |} in
  (do r1 <- rr_process_slice (recv_rel_new 100000 true) (s 0);
   do r2 <- rr_process_message r1 [1] 0;
   do x <- rr_receive r2;
   do r4 <- rr_process_slice (fst x) (s 1);
   Ok (snd x, rr_oldest r4, rr_mem r4, map fst (rr_slices r4), rr_messages r4))
  = Ok (Some [1], 1, 3 * SLICE_SIZE, [0], []).
Proof. vm_compute. reflexivity. Qed.

(* (b) Unordered mode: the cursor rr_oldest advances past id 1 although message 1 is still waiting
   in rr_messages (hence "id < rr_oldest" does not mean "handed to the application"). *)
Example unordered_cursor_passes_waiting_id :
  (do r1 <- rr_process_message (recv_rel_new 1000 false) [9] 1;
   do r2 <- rr_process_message r1 [8] 0;
   do x <- rr_receive r2;
   Ok (snd x, rr_oldest (fst x), map fst (rr_messages (fst x))))
  = Ok (Some [8], 2, [1]).
Proof. vm_compute. reflexivity. Qed.

Print Assumptions rr_inv_init.
Print Assumptions rr_process_message_safe.
Print Assumptions rr_process_slice_safe.
Print Assumptions rr_receive_safe.
Print Assumptions ordered_prefix.
Print Assumptions unordered_exactly_once.
Print Assumptions honest_step_ok_or_memory.
Print Assumptions exec_stops_only_on_memory.
Print Assumptions unordered_eager.
Print Assumptions unordered_receive_available.
Print Assumptions ordered_complete_buffered.
Print Assumptions ordered_receive_available.
Print Assumptions drained_is_empty.
