(* ConnFlushP.v - get_packets_to_send: the loops gather, record_sent, serialize_all, and a
   case analysis of the whole call from which the flush theorems of ConnP.v are read off. *)
From RenetV Require Import Base Consts Varint Packet Channels Conn Server.
From RenetV Require Import CodecSpec RecvSpec SendSpec ConnSpec ConnInvSpec.
From RenetV Require Import SMapP ConnBaseP ConnProcP.
From RenetV Require AcksP VarintP PacketP RecvRelP RecvUnrelP SMapSendP SendRelP SendUnrelP DisconnectP ConnEncP.
Require Import Lia ZifyBool ZifyN ZifyNat.
Open Scope N_scope.

Arguments N.add : simpl never.
Arguments N.sub : simpl never.
Arguments N.mul : simpl never.
Arguments N.div : simpl never.
Arguments N.modulo : simpl never.
Arguments N.eqb : simpl never.
Arguments N.ltb : simpl never.
Arguments N.leb : simpl never.
Local Opaque SLICE_SIZE MAX_ACK_RANGES SER_BUFFER NC_MAX_PAYLOAD_BYTES DISCARD_PACKET_SECS VARINT_MAX.

(* ================================================================== *)
(* gather: the accumulator, and the relational specification *)

Lemma gather_acc ord : forall c avail acc,
  gather ord c avail acc =
  match gather ord c avail [] with
  | Ok (c1, av, pk) => Ok (c1, av, acc ++ pk)
  | Err e => Err e
  | Panic s => Panic s
  end.
Proof.
  induction ord as [|[b ch] t IH]; intros c avail acc; cbn [gather].
  - rewrite app_nil_r. reflexivity.
  - destruct b.
    + destruct (sm_find ch (c_sr c)) as [s|]; [|reflexivity].
      destruct (lift (sr_get_packets s (c_seq c) avail (c_now c))) as [[[[s' pk] seq'] avail']|e|st];
        cbn [bind app]; [|reflexivity|reflexivity].
      rewrite (IH _ _ (acc ++ pk)), (IH _ _ pk).
      destruct (gather t _ avail' []) as [[[c1 av] pk2]|e|st]; try reflexivity.
      rewrite app_assoc. reflexivity.
    + destruct (sm_find ch (c_su c)) as [s|]; [|reflexivity].
      destruct (lift (su_get_packets s (c_seq c) avail)) as [[[[s' pk] seq'] avail']|e|st];
        cbn [bind app]; [|reflexivity|reflexivity].
      rewrite (IH _ _ (acc ++ pk)), (IH _ _ pk).
      destruct (gather t _ avail' []) as [[[c1 av] pk2]|e|st]; try reflexivity.
      rewrite app_assoc. reflexivity.
Qed.

Lemma gather_rel_complete ord : forall c avail c1 av pk,
  gather ord c avail [] = Ok (c1, av, pk) -> gather_rel ord c avail c1 av pk.
Proof.
  induction ord as [|[b ch] t IH]; intros c avail c1 av pk E; cbn [gather] in E.
  - inversion E; subst. constructor.
  - destruct b.
    + destruct (sm_find ch (c_sr c)) as [s|] eqn:Hs; [|discriminate].
      destruct (sr_get_packets s (c_seq c) avail (c_now c)) as [[[[s' pk1] seq'] avail1]|e|st] eqn:Eg;
        cbn [lift bind app] in E; try discriminate.
      rewrite gather_acc in E.
      destruct (gather t _ avail1 []) as [[[c2 av2] pk2]|e|st] eqn:Et; try discriminate.
      inversion E; subst. eapply GRel; eauto.
    + destruct (sm_find ch (c_su c)) as [s|] eqn:Hs; [|discriminate].
      destruct (su_get_packets s (c_seq c) avail) as [[[[s' pk1] seq'] avail1]|e|st] eqn:Eg;
        cbn [lift bind app] in E; try discriminate.
      rewrite gather_acc in E.
      destruct (gather t _ avail1 []) as [[[c2 av2] pk2]|e|st] eqn:Et; try discriminate.
      inversion E; subst. eapply GUnrel; eauto.
Qed.

Lemma gather_rel_sound ord c avail c1 av pk :
  gather_rel ord c avail c1 av pk -> gather ord c avail [] = Ok (c1, av, pk).
Proof.
  induction 1 as [c avail|ch t c avail s s' pk seq' avail1 c2 avail2 pk2 Hs Eg _ IH
                         |ch t c avail s s' pk seq' avail1 c2 avail2 pk2 Hs Eg _ IH]; cbn [gather].
  - reflexivity.
  - rewrite Hs, Eg. cbn [lift bind app]. rewrite gather_acc, IH. reflexivity.
  - rewrite Hs, Eg. cbn [lift bind app]. rewrite gather_acc, IH. reflexivity.
Qed.

(* ================================================================== *)
(* sequence numbers *)

Lemma seqs_from_bounds pk : forall seq, seqs_from seq pk ->
  Forall (fun p => seq <= packet_seq p /\ packet_seq p < seq + len pk) pk.
Proof.
  induction pk as [|p t IH]; intros seq H; [constructor|].
  cbn [seqs_from] in H. destruct H as [H1 H2]. rewrite len_cons. constructor; [lia|].
  eapply Forall_impl; [|apply (IH _ H2)]. cbn beta. intros q. lia.
Qed.

Lemma seqs_from_nodup pk : forall seq, seqs_from seq pk -> NoDup (map packet_seq pk).
Proof.
  induction pk as [|p t IH]; intros seq H; cbn [map]; [constructor|].
  cbn [seqs_from] in H. destruct H as [H1 H2]. constructor; [|eauto].
  intros Hin. apply in_map_iff in Hin. destruct Hin as (q & Hq & Hin).
  pose proof (seqs_from_bounds _ _ H2) as HB. rewrite Forall_forall in HB. specialize (HB _ Hin). lia.
Qed.

(* ================================================================== *)
(* sizes of the packets the channels build (C13) *)

Definition pkt_fits (p : packet) : Prop := len (PacketP.enc_packet p) <= NC_MAX_PAYLOAD_BYTES.

Lemma rel_msgs_size_entry ms : PacketP.rel_msgs_size ms = sum (map rel_entry_size ms).
Proof.
  unfold PacketP.rel_msgs_size. induction ms as [|im t IH]; [reflexivity|].
  cbn [map]. rewrite !sum_cons, IH. unfold rel_entry_size. lia.
Qed.

Lemma unrel_msgs_size_entry ms : PacketP.unrel_msgs_size ms = sum (map unrel_entry_size ms).
Proof.
  unfold PacketP.unrel_msgs_size. induction ms as [|m t IH]; [reflexivity|].
  cbn [map]. rewrite !sum_cons, IH. unfold unrel_entry_size. lia.
Qed.

Lemma rel_size_fits s' p : SendRelP.rel_size_ok s' p -> pkt_fits p.
Proof.
  unfold pkt_fits. destruct p as [sq ch ms|sq ch ms|sq ch sl|sq ch sl|sq rs];
    cbn [SendRelP.rel_size_ok]; try contradiction.
  - intros (_ & H & _). rewrite PacketP.enc_len_small_reliable, rel_msgs_size_entry.
    pose proof (VarintP.varint_len_le8 sq). pose proof small_reliable_fits. lia.
  - intros ((_ & H) & _). rewrite PacketP.enc_len_reliable_slice.
    pose proof (VarintP.varint_len_le8 sq). pose proof (VarintP.varint_len_le8 (sl_id sl)).
    pose proof (VarintP.varint_len_le8 (sl_index sl)). pose proof (VarintP.varint_len_le8 (sl_num sl)).
    pose proof (VarintP.varint_len_le8 (len (sl_payload sl))). pose proof slice_fits. lia.
Qed.

Lemma unrel_size_fits p : SendUnrelP.unrel_size_ok p -> pkt_fits p.
Proof.
  unfold pkt_fits. destruct p as [sq ch ms|sq ch ms|sq ch sl|sq ch sl|sq rs];
    cbn [SendUnrelP.unrel_size_ok]; try contradiction.
  - intros (_ & H & _). rewrite PacketP.enc_len_small_unreliable, unrel_msgs_size_entry.
    pose proof (VarintP.varint_len_le8 sq). pose proof small_unreliable_fits. lia.
  - intros ((_ & H) & _). rewrite PacketP.enc_len_unreliable_slice.
    pose proof (VarintP.varint_len_le8 sq). pose proof (VarintP.varint_len_le8 (sl_id sl)).
    pose proof (VarintP.varint_len_le8 (sl_index sl)). pose proof (VarintP.varint_len_le8 (sl_num sl)).
    pose proof (VarintP.varint_len_le8 (len (sl_payload sl))). pose proof slice_fits. lia.
Qed.

Lemma ack_pkt_fits sq rs : len rs <= MAX_ACK_RANGES -> pkt_fits (Ack sq rs).
Proof.
  intros H. unfold pkt_fits. pose proof (PacketP.enc_len_ack sq rs). pose proof ack_fits. lia.
Qed.

Lemma unrel_size_not_ack p : SendUnrelP.unrel_size_ok p -> is_ack p = false /\ pkt_info p = SINone.
Proof. destruct p; cbn [SendUnrelP.unrel_size_ok]; try contradiction; auto. Qed.

(* ================================================================== *)
(* the record of a packet a reliable channel has just built is consistent with that channel *)

Lemma rel_packet_info_ok now ch s' sr p :
  sr_inv now s' -> sm_find ch sr = Some s' -> rel_packet_ok ch s' p ->
  sent_info_ok sr (pkt_info p) /\ is_ack p = false.
Proof.
  intros Hinv Hf. destruct p as [sq c ms|sq c ms|sq c sl|sq c sl|sq rs];
    cbn [rel_packet_ok]; try contradiction.
  - intros [-> HF]. split; [|reflexivity]. cbn [pkt_info sent_info_ok].
    exists s'. split; [exact Hf|]. rewrite Forall_forall in *. intros id Hid.
    apply in_map_iff in Hid. destruct Hid as (im & <- & Him).
    destruct (HF _ Him) as (_ & l & Hl).
    destruct (SendRelP.sr_inv_find _ _ _ _ Hinv Hl) as (Hlt & _).
    split; [exact Hlt|]. right. unfold kind_of. rewrite Hl. reflexivity.
  - intros [-> (m & num & na & nx & ak & ls & Hl & _ & Hidx)]. split; [|reflexivity].
    cbn [pkt_info sent_info_ok]. exists s'. split; [exact Hf|].
    destruct (SendRelP.sr_inv_find _ _ _ _ Hinv Hl) as (Hlt & _).
    split; [exact Hlt|]. right. exists num. split; [|exact Hidx]. unfold kind_of. rewrite Hl. reflexivity.
Qed.

(* ================================================================== *)
(* one channel's turn *)

(* what a packet in the output of the gathering loop satisfies, relative to the send channels *)
Definition gathered_ok (sr : list (N * send_rel)) (p : packet) : Prop :=
  sent_info_ok sr (pkt_info p) /\ is_ack p = false /\ pkt_fits p.

(* the reliable channels after some turns: all still there, same kinds, same counters *)
Definition sr_same_kinds (sr sr' : list (N * send_rel)) : Prop :=
  forall ch, match sm_find ch sr with
             | None => sm_find ch sr' = None
             | Some s => exists s', sm_find ch sr' = Some s' /\ sr_next_id s' = sr_next_id s /\
                                    forall id, kind_of s' id = kind_of s id
             end.

Lemma sr_same_kinds_refl sr : sr_same_kinds sr sr.
Proof. intros ch. destruct (sm_find ch sr) as [s|]; [|reflexivity]. exists s. auto. Qed.

Lemma sr_same_kinds_trans a b c : sr_same_kinds a b -> sr_same_kinds b c -> sr_same_kinds a c.
Proof.
  intros H1 H2 ch. specialize (H1 ch). specialize (H2 ch).
  destruct (sm_find ch a) as [s|].
  - destruct H1 as (s1 & E1 & N1 & K1). rewrite E1 in H2. destruct H2 as (s2 & E2 & N2 & K2).
    exists s2. split; [exact E2|]. split; [congruence|]. intros id. now rewrite K2, K1.
  - now rewrite H1 in H2.
Qed.

Lemma sr_same_kinds_info sr sr' i : sr_same_kinds sr sr' -> sent_info_ok sr i -> sent_info_ok sr' i.
Proof.
  intros H. destruct i as [|ch ids|ch id idx|l]; cbn [sent_info_ok]; auto.
  - intros (s & Hs & Hids). specialize (H ch). rewrite Hs in H. destruct H as (s' & Hs' & Hn & Hk).
    exists s'. split; [exact Hs'|]. eapply Forall_impl; [|exact Hids].
    intros id [A B]. split; [lia|]. now rewrite Hk.
  - intros (s & Hs & A & B). specialize (H ch). rewrite Hs in H. destruct H as (s' & Hs' & Hn & Hk).
    exists s'. split; [exact Hs'|]. split; [lia|]. now rewrite Hk.
Qed.

Lemma gather_step_rel c ch s avail s' pk seq' avail1 :
  conn_inv c -> sm_find ch (c_sr c) = Some s ->
  sr_get_packets s (c_seq c) avail (c_now c) = Ok (s', pk, seq', avail1) ->
  let c' := with_seq (with_sr c (sm_insert ch s' (c_sr c))) seq' in
  conn_inv c' /\ seq' = c_seq c + len pk /\ seqs_from (c_seq c) pk /\
  avail1 + payload_total pk = avail /\
  sr_same_kinds (c_sr c) (c_sr c') /\
  Forall (gathered_ok (c_sr c')) pk /\
  sr_next_id s' = sr_next_id s /\ SendRelP.same_config s s' /\
  Forall (rel_packet_ok ch s') pk.
Proof.
  intros Hi Hs Eg c'.
  destruct (inv_find_sr _ _ _ Hi Hs) as [Hsi Hch].
  destruct (SendRelP.sr_get_packets_safe (c_now c) s (c_seq c) avail Hsi)
    as (s1 & pk1 & av1 & E1 & Hs1 & _ & Hn1 & Hk1 & Hav & Hseqs & Hpk).
  rewrite Eg in E1. inversion E1; subst s1 pk1 seq' av1. clear E1.
  pose proof (SendRelP.sr_get_packets_config _ _ _ _ _ _ _ _ Hsi Eg) as Hcfg.
  pose proof (SendRelP.sr_get_packets_sizes _ _ _ _ _ _ _ _ Hsi Eg) as Hsz.
  assert (Hch' : sr_ch s' = ch) by (destruct Hcfg as (A & _); congruence).
  assert (Hi' : conn_inv c').
  { apply inv_with_seq; [|cbn [with_sr c_seq]; lia].
    apply (inv_with_sr c ch s s'); auto. split; [lia|]. intros id _. left. apply Hk1. }
  split; [exact Hi'|]. split; [reflexivity|]. split; [exact Hseqs|]. split; [exact Hav|].
  assert (Hfind' : sm_find ch (c_sr c') = Some s').
  { cbn [c' with_seq with_sr c_sr]. apply sm_find_insert_same. }
  split.
  { intros c0. cbn [c' with_seq with_sr c_sr]. rewrite sm_find_insert.
    destruct (N.eqb_spec c0 ch) as [->|Hne].
    - rewrite Hs. exists s'. auto.
    - destruct (sm_find c0 (c_sr c)) as [s0|]; [|reflexivity]. exists s0. auto. }
  rewrite Hch in Hpk.
  split; [|auto].
  rewrite Forall_forall in *. intros p Hp.
  destruct (rel_packet_info_ok (c_now c) ch s' (c_sr c') p Hs1 Hfind' (Hpk p Hp)) as [A B].
  split; [exact A|]. split; [exact B|]. eapply rel_size_fits. apply Hsz. exact Hp.
Qed.

Lemma gather_step_unrel c ch s avail s' pk seq' avail1 :
  conn_inv c -> sm_find ch (c_su c) = Some s ->
  su_get_packets s (c_seq c) avail = Ok (s', pk, seq', avail1) ->
  let c' := with_seq (with_su c (sm_insert ch s' (c_su c))) seq' in
  conn_inv c' /\ seq' = c_seq c + len pk /\ seqs_from (c_seq c) pk /\
  avail1 + payload_total pk = avail /\
  Forall (gathered_ok (c_sr c')) pk.
Proof.
  intros Hi Hs Eg c'.
  destruct (inv_find_su _ _ _ Hi Hs) as [Hsi Hch].
  destruct (SendUnrelP.su_get_packets_safe s (c_seq c) avail Hsi)
    as (s1 & pk1 & av1 & E1 & Hs1 & _ & _ & Hav & Hseqs).
  rewrite Eg in E1. inversion E1; subst s1 pk1 seq' av1. clear E1.
  pose proof (SendUnrelP.su_get_packets_sizes _ _ _ _ _ _ _ Hsi Eg) as Hsz.
  assert (Hch' : su_ch s' = ch).
  { rewrite <- Hch. rewrite (SendUnrelP.su_get_packets_spec s (c_seq c) avail Hsi) in Eg.
    unfold SendUnrelP.su_spec in Eg. inversion Eg. reflexivity. }
  split.
  { apply inv_with_seq; [|cbn [with_su c_seq]; lia]. apply inv_with_su; auto. }
  split; [reflexivity|]. split; [exact Hseqs|]. split; [exact Hav|].
  eapply Forall_impl; [|exact Hsz]. intros p Hp.
  destruct (unrel_size_not_ack p Hp) as [A B]. split; [rewrite B; exact I|].
  split; [exact A|]. now apply unrel_size_fits.
Qed.

(* ================================================================== *)
(* the whole loop *)

(* everything the loop leaves alone *)
Definition frame_gather (c c' : conn) : Prop :=
  c_now c' = c_now c /\ c_sent c' = c_sent c /\ c_acks c' = c_acks c /\ c_order c' = c_order c /\
  c_rr c' = c_rr c /\ c_ru c' = c_ru c /\ c_budget c' = c_budget c /\ c_status c' = c_status c.

Lemma gather_facts ord c avail c1 av pk :
  gather_rel ord c avail c1 av pk -> conn_inv c ->
  conn_inv c1 /\ c_seq c1 = c_seq c + len pk /\ seqs_from (c_seq c) pk /\
  av + payload_total pk = avail /\ frame_gather c c1 /\
  sr_same_kinds (c_sr c) (c_sr c1) /\ Forall (gathered_ok (c_sr c1)) pk.
Proof.
  induction 1 as [c avail|ch t c avail s s' pk seq' avail1 c2 avail2 pk2 Hs Eg Hrel IH
                         |ch t c avail s s' pk seq' avail1 c2 avail2 pk2 Hs Eg Hrel IH]; intros Hi.
  - split; [exact Hi|]. split; [rewrite len_nil; lia|]. split; [exact I|].
    split; [unfold payload_total; cbn [map]; rewrite sum_nil; lia|].
    split; [repeat split|]. split; [apply sr_same_kinds_refl|constructor].
  - destruct (gather_step_rel c ch s avail s' pk seq' avail1 Hi Hs Eg)
      as (Hi' & Hseq & Hseqs & Hav & Hsk & Hpk & _).
    destruct (IH Hi') as (Hi2 & Hseq2 & Hseqs2 & Hav2 & Hfr2 & Hsk2 & Hpk2).
    cbn [with_seq with_sr c_seq c_sr c_now c_sent c_acks c_order c_rr c_ru c_budget c_status] in *.
    split; [exact Hi2|]. split; [rewrite len_app; lia|].
    split; [apply SMapSendP.seqs_from_app; split; [exact Hseqs|]; rewrite <- Hseq; exact Hseqs2|].
    split; [rewrite SMapSendP.payload_total_app; lia|].
    split; [exact Hfr2|]. split; [eapply sr_same_kinds_trans; eauto|].
    apply Forall_app. split; [|exact Hpk2].
    eapply Forall_impl; [|exact Hpk]. intros p (A & B & C). split; [|auto].
    eapply sr_same_kinds_info; eauto.
  - destruct (gather_step_unrel c ch s avail s' pk seq' avail1 Hi Hs Eg)
      as (Hi' & Hseq & Hseqs & Hav & Hpk).
    destruct (IH Hi') as (Hi2 & Hseq2 & Hseqs2 & Hav2 & Hfr2 & Hsk2 & Hpk2).
    cbn [with_seq with_su c_seq c_sr c_now c_sent c_acks c_order c_rr c_ru c_budget c_status] in *.
    split; [exact Hi2|]. split; [rewrite len_app; lia|].
    split; [apply SMapSendP.seqs_from_app; split; [exact Hseqs|]; rewrite <- Hseq; exact Hseqs2|].
    split; [rewrite SMapSendP.payload_total_app; lia|].
    split; [exact Hfr2|]. split; [exact Hsk2|].
    apply Forall_app. split; [|exact Hpk2].
    eapply Forall_impl; [|exact Hpk]. intros p (A & B & C). split; [|auto].
    eapply sr_same_kinds_info; eauto.
Qed.

(* the loop never panics *)
Lemma gather_total ord : forall c avail, conn_inv c -> Forall (order_ok (c_sr c) (c_su c)) ord ->
  exists c1 av pk, gather_rel ord c avail c1 av pk.
Proof.
  induction ord as [|[b ch] t IH]; intros c avail Hi Hord.
  - exists c, avail, []. constructor.
  - inversion Hord as [|? ? Hhd Htl]; subst. unfold order_ok in Hhd. cbn [fst snd] in Hhd. destruct b.
    + destruct (sm_mem_find _ _ Hhd) as (s & Hs).
      destruct (inv_find_sr _ _ _ Hi Hs) as [Hsi Hch].
      destruct (SendRelP.sr_get_packets_safe (c_now c) s (c_seq c) avail Hsi)
        as (s' & pk & av1 & E1 & _).
      destruct (gather_step_rel c ch s avail s' pk _ av1 Hi Hs E1) as (Hi' & _).
      destruct (IH _ av1 Hi') as (c1 & av & pk2 & Hrel).
      { cbn [with_seq with_sr c_sr c_su]. eapply Forall_impl; [|exact Htl].
        intros e. apply order_ok_insert_sr. }
      exists c1, av, (pk ++ pk2). eapply GRel; eauto.
    + destruct (sm_mem_find _ _ Hhd) as (s & Hs).
      destruct (inv_find_su _ _ _ Hi Hs) as [Hsi Hch].
      destruct (SendUnrelP.su_get_packets_safe s (c_seq c) avail Hsi)
        as (s' & pk & av1 & E1 & _).
      destruct (gather_step_unrel c ch s avail s' pk _ av1 Hi Hs E1) as (Hi' & _).
      destruct (IH _ av1 Hi') as (c1 & av & pk2 & Hrel).
      { cbn [with_seq with_su c_sr c_su]. eapply Forall_impl; [|exact Htl].
        intros e. apply order_ok_insert_su. }
      exists c1, av, (pk ++ pk2). eapply GUnrel; eauto.
Qed.

(* ================================================================== *)
(* record_sent *)

Definition rec_sent (now : N) (pk : list packet) (sent : list (N * (N * sent_info))) :=
  fold_left (fun acc p => sm_insert (packet_seq p) (now, pkt_info p) acc) pk sent.

Lemma info_of_data p : is_ack p = false -> info_of p = Ok (pkt_info p).
Proof. destruct p; cbn [is_ack]; try discriminate; reflexivity. Qed.

Lemma info_of_ack sq rs : rs <> [] -> ranges_wf 0 rs -> info_of (Ack sq rs) = Ok (pkt_info (Ack sq rs)).
Proof.
  intros Hne Hwf. destruct (AcksP.ranges_last_end_ex rs Hwf Hne) as (l0 & a & b & -> & _ & Hb & _).
  cbn [info_of pkt_info]. rewrite rev_app_distr. cbn [List.rev app]. rewrite last_last. cbn [snd].
  unfold sub_chk. destruct (N.leb_spec 1 b); [reflexivity|lia].
Qed.

Lemma record_sent_spec now pk : forall sent,
  Forall (fun p => info_of p = Ok (pkt_info p)) pk ->
  record_sent now pk sent = Ok (rec_sent now pk sent).
Proof.
  induction pk as [|p t IH]; intros sent H; cbn [record_sent rec_sent fold_left]; [reflexivity|].
  inversion H as [|? ? Hp Ht]; subst. rewrite Hp. cbn [bind]. now apply IH.
Qed.

Lemma rec_sent_sorted now pk : forall sent, sorted_keys sent -> sorted_keys (rec_sent now pk sent).
Proof.
  induction pk as [|p t IH]; intros sent H; cbn [rec_sent fold_left]; [exact H|].
  apply IH. apply asc_sm_insert. exact H.
Qed.

Lemma rec_sent_Forall (P : N * (N * sent_info) -> Prop) now pk : forall sent,
  Forall P sent -> Forall (fun p => P (packet_seq p, (now, pkt_info p))) pk ->
  Forall P (rec_sent now pk sent).
Proof.
  induction pk as [|p t IH]; intros sent H1 H2; cbn [rec_sent fold_left]; [exact H1|].
  inversion H2; subst. apply IH; [|assumption]. apply Forall_sm_insert; assumption.
Qed.

Lemma rec_sent_find_old now pk : forall sent k,
  ~ In k (map packet_seq pk) -> sm_find k (rec_sent now pk sent) = sm_find k sent.
Proof.
  induction pk as [|p t IH]; intros sent k Hk; cbn [rec_sent fold_left]; [reflexivity|].
  cbn [map In] in Hk. fold (rec_sent now t (sm_insert (packet_seq p) (now, pkt_info p) sent)).
  rewrite IH by tauto. apply sm_find_insert_other. intros ->. tauto.
Qed.

Lemma rec_sent_find_new now pk : forall sent, NoDup (map packet_seq pk) ->
  forall p, In p pk -> sm_find (packet_seq p) (rec_sent now pk sent) = Some (now, pkt_info p).
Proof.
  induction pk as [|q t IH]; intros sent Hnd p Hin; [inversion Hin|].
  cbn [map] in Hnd. inversion Hnd as [|? ? Hq Hnd']; subst.
  cbn [rec_sent fold_left]. fold (rec_sent now t (sm_insert (packet_seq q) (now, pkt_info q) sent)).
  destruct Hin as [->|Hin]; [|now apply IH].
  rewrite rec_sent_find_old by exact Hq. apply sm_find_insert_same.
Qed.

Lemma rec_sent_find_inv now pk : forall sent k v,
  sm_find k (rec_sent now pk sent) = Some v ->
  sm_find k sent = Some v \/ exists p, In p pk /\ packet_seq p = k /\ v = (now, pkt_info p).
Proof.
  induction pk as [|q t IH]; intros sent k v H; cbn [rec_sent fold_left] in H; [now left|].
  apply IH in H. destruct H as [H|(p & Hp & Hk & Hv)].
  - rewrite sm_find_insert in H. destruct (N.eqb_spec k (packet_seq q)) as [->|Hne]; [|now left].
    right. exists q. split; [now left|]. split; [reflexivity|]. congruence.
  - right. exists p. split; [now right|]. auto.
Qed.

(* ================================================================== *)
(* serialize_all *)

Lemma serialize_all_cases pk : Forall ConnEncP.ack_ok pk ->
  match serialize_all pk with
  | Ok bs => Forall2 (fun p b => to_bytes SER_BUFFER p = Ok b) pk bs /\ Forall ConnEncP.varints_ok pk
  | Err e => e = BufferTooShort /\ exists p, In p pk /\ SER_BUFFER < len (PacketP.enc_packet p)
  | Panic s => s = SITE_VARINT_TOO_LARGE /\ ~ Forall ConnEncP.varints_ok pk
  end.
Proof.
  induction pk as [|p t IH]; intros Hack; cbn [serialize_all].
  - split; constructor.
  - inversion Hack as [|? ? Hp Ht]; subst. specialize (IH Ht).
    pose proof (ConnEncP.to_bytes_cases SER_BUFFER p Hp) as H.
    destruct (to_bytes SER_BUFFER p) as [b|e|s] eqn:Eb; cbn [bind].
    + destruct (serialize_all t) as [bs|e|s]; cbn [bind].
      * destruct IH as [I1 I2]. destruct H as (H1 & _). split; constructor; auto.
      * destruct IH as (-> & q & Hq & Hlen). split; [reflexivity|]. exists q. split; [now right|exact Hlen].
      * destruct IH as (-> & Hn). split; [reflexivity|]. intros HF. inversion HF; auto.
    + destruct H as (-> & Hlen). split; [reflexivity|]. exists p. split; [now left|exact Hlen].
    + destruct H as (-> & Hn). split; [reflexivity|]. intros HF. inversion HF; auto.
Qed.

Lemma serialize_all_ok_iff pk bs :
  serialize_all pk = Ok bs <-> Forall2 (fun p b => to_bytes SER_BUFFER p = Ok b) pk bs.
Proof.
  revert bs. induction pk as [|p t IH]; intros bs; cbn [serialize_all].
  - split; [intros E; inversion E; constructor|intros H; inversion H; reflexivity].
  - split.
    + intros E. destruct (to_bytes SER_BUFFER p) as [b| |] eqn:Eb; cbn [bind] in E; try discriminate.
      destruct (serialize_all t) as [bs'| |] eqn:Et; cbn [bind] in E; try discriminate.
      inversion E; subst. constructor; [exact Eb|]. now apply IH.
    + intros H. inversion H as [|? b ? bs' Hb Ht]; subst. rewrite Hb. cbn [bind].
      apply IH in Ht. rewrite Ht. reflexivity.
Qed.

(* ================================================================== *)
(* get_packets_to_send as a whole *)

Definition flush_pkts (c1 : conn) (pk : list packet) : list packet :=
  pk ++ ack_part (c_seq c1) (c_acks c1).
Definition flush_c2 (c1 : conn) : conn :=
  match c_acks c1 with [] => c1 | _ => with_seq c1 (c_seq c1 + 1) end.
Definition flush_state (c1 : conn) (pk : list packet) : conn :=
  with_sent (flush_c2 c1) (rec_sent (c_now c1) (flush_pkts c1 pk) (c_sent c1)).

Lemma flush_unfold c c1 av pk :
  is_disconnected c = false -> gather (c_order c) c (c_budget c) [] = Ok (c1, av, pk) ->
  get_packets_to_send c =
  do sent <- record_sent (c_now c1) (flush_pkts c1 pk) (c_sent c1);
  let c3 := with_sent (flush_c2 c1) sent in
  match serialize_all (flush_pkts c1 pk) with
  | Ok bs => Ok (c3, bs)
  | Err e => Ok (disconnect_with c3 (RPacketSerialization e), [])
  | Panic s => Panic s
  end.
Proof.
  intros Hd E. unfold get_packets_to_send, flush_pkts, flush_c2. rewrite Hd, E. cbn [bind].
  destruct (c_acks c1); cbn [ack_part]; [rewrite app_nil_r|]; reflexivity.
Qed.

Lemma flush_c2_seq c1 : c_seq (flush_c2 c1) = c_seq c1 + len (ack_part (c_seq c1) (c_acks c1)).
Proof.
  unfold flush_c2. destruct (c_acks c1); cbn [ack_part with_seq c_seq].
  - rewrite len_nil. lia.
  - reflexivity.
Qed.

Lemma flush_c2_frame c1 :
  c_now (flush_c2 c1) = c_now c1 /\ c_sent (flush_c2 c1) = c_sent c1 /\ c_acks (flush_c2 c1) = c_acks c1 /\
  c_order (flush_c2 c1) = c_order c1 /\ c_sr (flush_c2 c1) = c_sr c1 /\ c_su (flush_c2 c1) = c_su c1 /\
  c_rr (flush_c2 c1) = c_rr c1 /\ c_ru (flush_c2 c1) = c_ru c1 /\ c_budget (flush_c2 c1) = c_budget c1 /\
  c_status (flush_c2 c1) = c_status c1.
Proof. unfold flush_c2. destruct (c_acks c1) eqn:E; cbn [with_seq c_acks]; rewrite ?E; repeat split. Qed.

Lemma inv_flush_c2 c1 : conn_inv c1 -> conn_inv (flush_c2 c1).
Proof.
  intros Hi. unfold flush_c2. destruct (c_acks c1); [exact Hi|]. apply inv_with_seq; [exact Hi|lia].
Qed.

Lemma ack_part_ok c1 : conn_inv c1 ->
  Forall ConnEncP.ack_ok (ack_part (c_seq c1) (c_acks c1)) /\
  Forall pkt_fits (ack_part (c_seq c1) (c_acks c1)) /\
  Forall (fun p => info_of p = Ok (pkt_info p)) (ack_part (c_seq c1) (c_acks c1)).
Proof.
  intros Hi. pose proof (ci_acks_wf c1 Hi) as H1. pose proof (ci_acks_len c1 Hi) as H2.
  pose proof (ci_acks_below c1 Hi) as H3.
  destruct (c_acks c1) as [|ab t] eqn:Ea; cbn [ack_part]; [repeat split; constructor|].
  assert (Hne : ab :: t <> []) by discriminate.
  repeat split; (constructor; [|constructor]).
  - cbn [ConnEncP.ack_ok]. auto.
  - now apply ack_pkt_fits.
  - now apply info_of_ack.
Qed.

Lemma flush_cases c : conn_inv c -> is_disconnected c = false ->
  exists c1 av pk,
    gather_rel (c_order c) c (c_budget c) c1 av pk /\
    conn_inv (flush_state c1 pk) /\
    Forall ConnEncP.ack_ok (flush_pkts c1 pk) /\
    Forall pkt_fits (flush_pkts c1 pk) /\
    get_packets_to_send c =
      match serialize_all (flush_pkts c1 pk) with
      | Ok bs => Ok (flush_state c1 pk, bs)
      | Err e => Ok (disconnect_with (flush_state c1 pk) (RPacketSerialization e), [])
      | Panic s => Panic s
      end.
Proof.
  intros Hi Hd.
  destruct (gather_total (c_order c) c (c_budget c) Hi (ci_order c Hi)) as (c1 & av & pk & Hrel).
  exists c1, av, pk. split; [exact Hrel|].
  destruct (gather_facts _ _ _ _ _ _ Hrel Hi) as (Hi1 & Hseq & Hseqs & Hav & Hfr & Hsk & Hpk).
  destruct (ack_part_ok c1 Hi1) as (Ha1 & Ha2 & Ha3).
  assert (Hinfo : Forall (fun p => info_of p = Ok (pkt_info p)) (flush_pkts c1 pk)).
  { apply Forall_app. split; [|exact Ha3]. eapply Forall_impl; [|exact Hpk].
    intros p (_ & B & _). now apply info_of_data. }
  assert (Hack : Forall ConnEncP.ack_ok (flush_pkts c1 pk)).
  { apply Forall_app. split; [|exact Ha1]. eapply Forall_impl; [|exact Hpk].
    intros p (_ & B & _). destruct p; try discriminate; exact I. }
  assert (Hfits : Forall pkt_fits (flush_pkts c1 pk)).
  { apply Forall_app. split; [|exact Ha2]. eapply Forall_impl; [|exact Hpk]. intros p (_ & _ & C). exact C. }
  split.
  { unfold flush_state. destruct (flush_c2_frame c1) as (F1 & F2 & F3 & F4 & F5 & _).
    pose proof (inv_flush_c2 c1 Hi1) as Hi2.
    apply inv_with_sent; [exact Hi2| |].
    - apply rec_sent_sorted. exact (ci_sent_sorted c1 Hi1).
    - rewrite F1, F5, flush_c2_seq. apply rec_sent_Forall.
      + eapply Forall_impl; [|exact (ci_sent c1 Hi1)]. intros e (A & B). split; [lia|exact B].
      + unfold flush_pkts. apply Forall_app. split.
        * pose proof (seqs_from_bounds _ _ Hseqs) as HB. rewrite Forall_forall in *.
          intros p Hp. cbn [fst snd]. destruct (HB p Hp) as [_ B]. destruct (Hpk p Hp) as (A & _).
          split; [lia|]. split; [lia|exact A].
        * destruct (c_acks c1); cbn [ack_part]; constructor; [|constructor].
          cbn [fst snd packet_seq pkt_info sent_info_ok]. rewrite len_cons, len_nil.
          split; [lia|]. split; [lia|exact I]. }
  split; [exact Hack|]. split; [exact Hfits|].
  rewrite (flush_unfold c c1 av pk Hd (gather_rel_sound _ _ _ _ _ _ Hrel)).
  rewrite (record_sent_spec _ _ _ Hinfo). cbn [bind]. reflexivity.
Qed.
