(* HooksP.v - the operations added to the executable model for the test harness (RenetClient::verif_warp,
   RenetServer::process_local_client / connected_clients / has_connections, the synthetic connect token
   entries, the unsecure client construction) stay inside the invariants the theorems are stated over,
   and are panic free. *)
From RenetV Require Import Base Consts Varint Packet Channels Conn Server RDriver.
From RenetV Require Import CodecSpec RecvSpec SendSpec ConnSpec ConnInvSpec RSysSpec RSysInvSpec.
From RenetV Require Import SMapP ConnBaseP ConnProcP ConnFlushP ConnP RSysStepP RSysInvP RSysP.
From RenetV Require SMapSrvP ServerP DisconnectP.
Require Import Lia ZifyBool ZifyN ZifyNat.
Open Scope N_scope.

Arguments N.add : simpl never.
Arguments N.sub : simpl never.
Arguments N.mul : simpl never.
Arguments N.div : simpl never.
Arguments N.modulo : simpl never.
Arguments N.eqb : simpl never.
Arguments N.ltb : simpl never.
Arguments N.leb : simpl never.
Local Opaque SLICE_SIZE MAX_ACK_RANGES SER_BUFFER NC_MAX_PAYLOAD_BYTES DISCARD_PACKET_SECS VARINT_MAX MAX_NUM_SLICES.

(* ================================================================== *)
(* H1. warp *)

Lemma warp_noop c seq id : c_sent c <> [] \/ c_acks c <> [] -> warp c seq id = c.
Proof.
  intros H. unfold warp. destruct (c_sent c) as [|x t]; [|reflexivity].
  destruct (c_acks c) as [|y u]; [|reflexivity]. destruct H as [H|H]; congruence.
Qed.

Lemma map_fst_map_snd {V W} (f : V -> W) (m : list (N * V)) :
  map fst (map (fun e => (fst e, f (snd e))) m) = map fst m.
Proof. rewrite map_map. apply map_ext. intros [k v]. reflexivity. Qed.

Lemma sm_find_map_snd {V W} (f : V -> W) k (m : list (N * V)) :
  sm_find k (map (fun e => (fst e, f (snd e))) m) = option_map f (sm_find k m).
Proof.
  induction m as [|[k' v] t IH]; cbn [map sm_find fst snd option_map]; [reflexivity|].
  destruct (k =? k'); [reflexivity|exact IH].
Qed.

Lemma sm_mem_map_snd {V W} (f : V -> W) k (m : list (N * V)) :
  sm_mem k (map (fun e => (fst e, f (snd e))) m) = sm_mem k m.
Proof. unfold sm_mem. rewrite sm_find_map_snd. destruct (sm_find k m); reflexivity. Qed.

Lemma warp_sr_inv now id s : sr_inv now s -> sr_inv now (warp_sr id s).
Proof.
  intros H. unfold warp_sr. destruct (sr_unacked s) as [|u t] eqn:E; [|exact H].
  destruct H as (H1 & H2 & H3 & H4). rewrite E in H3. cbn [map sum fold_right] in H3.
  unfold sr_inv. cbn [sr_unacked sr_next_id sr_mem sr_max map]. repeat split; auto.
Qed.

Lemma warp_sr_ch id s : sr_ch (warp_sr id s) = sr_ch s.
Proof. unfold warp_sr. destruct (sr_unacked s); reflexivity. Qed.

Lemma warp_su_inv id s : su_inv s -> su_inv (warp_su id s).
Proof. intros H. exact H. Qed.

Lemma warp_rr_inv id r : rr_inv r -> rr_inv (warp_rr id r).
Proof.
  intros H. unfold warp_rr. destruct (rr_messages r) as [|m t] eqn:Em; [|exact H].
  destruct (rr_slices r) as [|sl u] eqn:Es; [|exact H].
  destruct H as (H1 & H2 & H3 & H4 & H5 & H6). rewrite Em, Es in H1.
  unfold rr_inv. cbn [rr_mem rr_messages rr_slices rr_max rr_order rr_oldest].
  split; [exact H1|]. split; [exact H2|]. split; [constructor|]. split; [exact I|]. split; [exact I|].
  destruct (rr_order r) as [|mr rcv]; [exact I|].
  destruct rcv as [|x rcv].
  - split; [exact I|]. intros k Hk. discriminate.
  - destruct H6 as [H6 _]. split; [exact H6|]. intros k Hk. discriminate.
Qed.

(* no bound on seq or id is needed: conn_inv does not bound the counters (the "counters are small" side
   condition is separate, see warp_counters_small below) *)
Theorem warp_inv_strong : forall c seq id, conn_inv c -> conn_inv (warp c seq id).
Proof.
  intros c seq id Hi. unfold warp.
  destruct (c_sent c) as [|x t] eqn:Esent; [|exact Hi].
  destruct (c_acks c) as [|y u] eqn:Eacks; [|exact Hi].
  destruct Hi as [S1 S2 S3 S4 S5 Isr Isu Irr Iru Iord A1 A2 A3 Isent].
  constructor; cbn [c_sr c_su c_rr c_ru c_sent c_now c_order c_acks c_seq]; unfold sorted_keys in *;
    rewrite ?map_fst_map_snd; auto.
  - exact I.
  - rewrite Forall_forall in *. intros e He. apply in_map_iff in He. destruct He as ([k s] & <- & He).
    cbn [fst snd]. destruct (Isr _ He) as [A B]. cbn [fst snd] in A, B.
    split; [now apply warp_sr_inv|]. now rewrite warp_sr_ch.
  - rewrite Forall_forall in *. intros e He. apply in_map_iff in He. destruct He as ([k s] & <- & He).
    cbn [fst snd]. exact (Isu _ He).
  - rewrite Forall_forall in *. intros e He. apply in_map_iff in He. destruct He as ([k s] & <- & He).
    cbn [fst snd]. apply warp_rr_inv. exact (Irr _ He).
  - eapply Forall_impl; [|exact Iord]. intros [b ch]. unfold order_ok. cbn [fst snd].
    rewrite !sm_mem_map_snd. auto.
  - exact I.
  - rewrite Eacks in A2. exact A2.
  - constructor.
Qed.

(* the statement as asked for *)
Theorem warp_inv : forall c seq id,
  conn_inv c -> seq < 2^62 -> id < 2^62 -> conn_inv (warp c seq id).
Proof. intros c seq id Hi _ _. now apply warp_inv_strong. Qed.

(* the channel sets are untouched, hence chans_u8 is kept *)
Lemma warp_channels c seq id : same_channels c (warp c seq id).
Proof.
  unfold warp. destruct (c_sent c); [|apply same_channels_refl]. destruct (c_acks c); [|apply same_channels_refl].
  intros ch. cbn [c_sr c_su c_rr c_ru]. rewrite !sm_mem_map_snd. auto.
Qed.

Lemma warp_u8 c seq id : chans_u8 c -> chans_u8 (warp c seq id).
Proof. apply chans_u8_same, warp_channels. Qed.

(* the side condition under which the encoder cannot reach unreachable!() (counters_small, the hypothesis of
   flush_no_overflow) after a warp: this one does need bounds, and more than seq < 2^62, id < 2^62:
   the packets one flush can emit are counted from seq, and each queued large unreliable message is
   about to consume one sliced-message id counted from id *)
Lemma warp_sr_pkt_bound id s : sr_pkt_bound (warp_sr id s) = sr_pkt_bound s.
Proof. unfold warp_sr. destruct (sr_unacked s) eqn:E; [|reflexivity]. unfold sr_pkt_bound. cbn [sr_unacked]. now rewrite E. Qed.

Lemma warp_flush_pkt_bound c seq id : flush_pkt_bound (warp c seq id) = flush_pkt_bound c.
Proof.
  unfold warp. destruct (c_sent c); [|reflexivity]. destruct (c_acks c); [|reflexivity].
  unfold flush_pkt_bound. cbn [c_order]. f_equal. f_equal. apply map_ext. intros [b ch].
  unfold chan_pkt_bound. cbn [fst snd c_sr c_su]. rewrite !sm_find_map_snd.
  destruct b.
  - destruct (sm_find ch (c_sr c)); cbn [option_map]; [apply warp_sr_pkt_bound|reflexivity].
  - destruct (sm_find ch (c_su c)); cbn [option_map]; reflexivity.
Qed.

Theorem warp_counters_small : forall c seq id,
  counters_small c ->
  seq + flush_pkt_bound c <= VARINT_MAX + 1 ->
  id <= VARINT_MAX + 1 ->
  Forall (fun e => id + su_large_count (snd e) <= VARINT_MAX + 1) (c_su c) ->
  counters_small (warp c seq id).
Proof.
  intros c seq id (Hs & Hsr & Hsu) Hseq Hid Hq. unfold counters_small.
  rewrite warp_flush_pkt_bound. unfold warp.
  destruct (c_sent c); [|repeat split; assumption]. destruct (c_acks c); [|repeat split; assumption].
  cbn [c_seq c_sr c_su]. split; [exact Hseq|]. split.
  - rewrite Forall_forall in *. intros e He. apply in_map_iff in He. destruct He as ([k s] & <- & He).
    cbn [fst snd]. specialize (Hsr _ He). cbn [snd] in Hsr. unfold warp_sr.
    destruct (sr_unacked s); [|exact Hsr]. destruct Hsr as [A B]. split; cbn [sr_next_id sr_max]; assumption.
  - rewrite Forall_forall in *. intros e He. apply in_map_iff in He. destruct He as ([k s] & <- & He).
    cbn [fst snd]. specialize (Hsu _ He). specialize (Hq _ He). cbn [snd] in Hsu, Hq.
    destruct Hsu as [A B]. split; [exact Hq|exact B].
Qed.

(* ================================================================== *)
(* H2. process_local_client *)

(* what the two-endpoint theorems (base_inv of Spec/RSysInvSpec.v) ask of a connection: the invariant, and
   send-channel ids that fit the u8 the wire format gives them (in Rust the type of a channel id) *)
Definition conn_ok (c : conn) : Prop := conn_inv c /\ chans_u8 c.

(* the server: the key-sorted connection map of Proofs/ServerP.v, every connection as above *)
Definition srv_ok (s : server) : Prop :=
  ServerP.conns_sorted s /\ Forall (fun e => conn_ok (snd e)) (s_conns s).

Lemma srv_ok_find s id c : srv_ok s -> sm_find id (s_conns s) = Some c -> conn_ok c.
Proof. intros [_ H] Hf. exact (Forall_sm_find _ _ _ _ H Hf). Qed.

Lemma srv_ok_insert s id c :
  srv_ok s -> conn_ok c -> srv_ok (with_conns s (sm_insert id c (s_conns s))).
Proof.
  intros [Hs Hf] Hc. split.
  - unfold ServerP.conns_sorted. cbn [with_conns s_conns]. now apply SMapSrvP.sm_sorted_insert.
  - cbn [with_conns s_conns]. apply Forall_sm_insert; [exact Hc|exact Hf].
Qed.

(* one flush of a good connection: the only panic is the varint site, the packets decode to well-formed
   packets only *)
Lemma flush_ok c :
  conn_ok c ->
  match get_packets_to_send c with
  | Ok (c', pk) => conn_ok c' /\ out_wf pk
  | Err _ => False
  | Panic site => site = SITE_VARINT_TOO_LARGE
  end.
Proof.
  intros [Hi Hu]. pose proof (flush_safe c Hi) as H.
  destruct (get_packets_to_send c) as [[c' pk]|e|st] eqn:E; [|exact H|exact H].
  destruct (is_disconnected c) eqn:Hd.
  - rewrite (DisconnectP.get_packets_to_send_disconnected_noop c Hd) in E. injection E as <- <-.
    split; [split; assumption|apply out_wf_nil].
  - split; [split; [exact H|]|].
    + eapply chans_u8_same; [|exact Hu]. eapply flush_channels; eauto.
    + destruct (flush_pack c c' pk Hi Hu Hd E) as (pk0 & f & _ & _ & _ & _ & _ & _ & _ & _ & _ & _ & _ & Hdec).
      intros b p Hin Hp. now destruct (Hdec b p Hin Hp).
Qed.

Lemma process_packet_ok c b :
  conn_ok c -> (forall p, from_bytes b = Ok p -> packet_wf p) ->
  exists c', process_packet c b = Ok c' /\ conn_ok c'.
Proof.
  intros [Hi Hu] Hb. destruct (process_packet_wf_safe c b Hi Hb) as (c' & E & Hi' & Hsc).
  exists c'. split; [exact E|]. split; [exact Hi'|]. eapply chans_u8_same; eauto.
Qed.

Lemma out_wf_cons b pk : out_wf (b :: pk) -> (forall p, from_bytes b = Ok p -> packet_wf p) /\ out_wf pk.
Proof.
  intros H. split.
  - intros p Hp. apply (H b p); [now left|exact Hp].
  - intros b' p Hin Hp. apply (H b' p); [now right|exact Hp].
Qed.

Lemma conn_process_all_ok pk : forall c,
  conn_ok c -> out_wf pk -> exists c', conn_process_all c pk = Ok c' /\ conn_ok c'.
Proof.
  induction pk as [|b pk IH]; intros c Hc Hw; cbn [conn_process_all].
  - exists c. split; [reflexivity|exact Hc].
  - apply out_wf_cons in Hw. destruct Hw as [Hb Hw].
    destruct (process_packet_ok c b Hc Hb) as (c1 & E1 & Hc1). rewrite E1. cbn [bind].
    exact (IH c1 Hc1 Hw).
Qed.

Lemma srv_process_all_ok pk : forall s id c,
  srv_ok s -> sm_find id (s_conns s) = Some c -> out_wf pk ->
  exists s', srv_process_all s id pk = Ok (s', true) /\ srv_ok s' /\
    map fst (s_conns s') = map fst (s_conns s) /\
    (forall j, j <> id -> sm_find j (s_conns s') = sm_find j (s_conns s)) /\
    s_events s' = s_events s /\ s_budget s' = s_budget s /\
    s_send_cfg s' = s_send_cfg s /\ s_recv_cfg s' = s_recv_cfg s.
Proof.
  induction pk as [|b pk IH]; intros s id c Hs Hf Hw; cbn [srv_process_all].
  - exists s. split; [reflexivity|]. split; [exact Hs|]. repeat split; reflexivity.
  - apply out_wf_cons in Hw. destruct Hw as [Hb Hw].
    unfold process_packet_from. rewrite Hf.
    destruct (process_packet_ok c b (srv_ok_find _ _ _ Hs Hf) Hb) as (c1 & E1 & Hc1). rewrite E1. cbn [bind].
    set (s1 := with_conns s (sm_insert id c1 (s_conns s))).
    assert (Hs1 : srv_ok s1) by (apply srv_ok_insert; assumption).
    assert (Hf1 : sm_find id (s_conns s1) = Some c1) by (cbn [s1 with_conns s_conns]; apply sm_find_insert_same).
    destruct (IH s1 id c1 Hs1 Hf1 Hw) as (s' & E' & Hs' & Hk & Hfr & Hev & Hb' & Hsc & Hrc).
    exists s'. split; [exact E'|]. split; [exact Hs'|]. split.
    { rewrite Hk. cbn [s1 with_conns s_conns]. eapply SMapSrvP.sm_insert_present_keys; [apply Hs|exact Hf]. }
    split.
    { intros j Hj. rewrite (Hfr j Hj). cbn [s1 with_conns s_conns]. now apply sm_find_insert_other. }
    repeat split; assumption.
Qed.

Theorem process_local_client_safe : forall s id client,
  srv_ok s -> conn_ok client ->
  match process_local_client s id client with
  | Ok (s', c', ok) =>
      conn_ok c' /\ srv_ok s' /\
      map fst (s_conns s') = map fst (s_conns s) /\
      (forall j, j <> id -> sm_find j (s_conns s') = sm_find j (s_conns s)) /\
      s_events s' = s_events s /\
      (ok = false <-> sm_find id (s_conns s) = None) /\
      (ok = false -> s' = s /\ c' = client)
  | Err _ => False
  | Panic site => site = SITE_VARINT_TOO_LARGE
  end.
Proof.
  intros s id client Hs Hc. unfold process_local_client, srv_get_packets_to_send.
  destruct (sm_find id (s_conns s)) as [c|] eqn:Hf; cbn [bind].
  2:{ split; [exact Hc|]. split; [exact Hs|]. repeat split; auto. }
  pose proof (flush_ok c (srv_ok_find _ _ _ Hs Hf)) as H1.
  destruct (get_packets_to_send c) as [[c1 pk]|e|st]; cbn [bind]; [|exact H1|exact H1].
  destruct H1 as [Hc1 Hw].
  set (s1 := with_conns s (sm_insert id c1 (s_conns s))).
  destruct (conn_process_all_ok pk client Hc Hw) as (cl1 & E2 & Hcl1). rewrite E2. cbn [bind].
  pose proof (flush_ok cl1 Hcl1) as H3.
  destruct (get_packets_to_send cl1) as [[cl2 pk2]|e|st]; cbn [bind]; [|exact H3|exact H3].
  destruct H3 as [Hcl2 Hw2].
  assert (Hs1 : srv_ok s1) by (apply srv_ok_insert; assumption).
  assert (Hf1 : sm_find id (s_conns s1) = Some c1) by (cbn [s1 with_conns s_conns]; apply sm_find_insert_same).
  destruct (srv_process_all_ok pk2 s1 id c1 Hs1 Hf1 Hw2) as (s' & E' & Hs' & Hk & Hfr & Hev & _).
  rewrite E'. cbn [bind].
  split; [exact Hcl2|]. split; [exact Hs'|]. split.
  { rewrite Hk. cbn [s1 with_conns s_conns]. eapply SMapSrvP.sm_insert_present_keys; [apply Hs|exact Hf]. }
  split.
  { intros j Hj. rewrite (Hfr j Hj). cbn [s1 with_conns s_conns]. now apply sm_find_insert_other. }
  split; [exact Hev|]. split; [split; discriminate|discriminate].
Qed.

(* srv_ok is what the public constructors establish (channel ids are u8 in Rust: cfg_u8) *)
Lemma srv_ok_new budget scfg ccfg : srv_ok (server_new budget scfg ccfg).
Proof. split; [exact I|constructor]. Qed.

Lemma conn_ok_set_connected c : conn_ok c -> conn_ok (set_connected c).
Proof.
  intros [Hi Hu]. split; [now apply inv_set_connected|].
  unfold set_connected. destruct (is_disconnected c); exact Hu.
Qed.

Lemma new_from_server_ok s c : cfg_u8 (s_send_cfg s) -> new_from_server s = Ok c -> conn_ok c.
Proof.
  intros Hu E. unfold new_from_server in E.
  destruct (conn_new_fresh _ _ _ _ E Hu) as (Hi & Hu8 & _). split; assumption.
Qed.

Lemma add_connection_ok s id s' :
  cfg_u8 (s_send_cfg s) -> srv_ok s -> add_connection s id = Ok s' -> srv_ok s' /\ s_send_cfg s' = s_send_cfg s.
Proof.
  intros Hu Hs E. unfold add_connection in E. destruct (sm_mem id (s_conns s)); [injection E as <-; auto|].
  destruct (new_from_server s) as [c| |] eqn:En; cbn [bind] in E; try discriminate. injection E as <-.
  split; [|reflexivity]. pose proof (conn_ok_set_connected c (new_from_server_ok s c Hu En)) as Hc.
  destruct (srv_ok_insert s id _ Hs Hc) as [A B]. split; [exact A|exact B].
Qed.

Lemma new_local_client_ok s id s' c :
  cfg_u8 (s_send_cfg s) -> srv_ok s -> new_local_client s id = Ok (s', c) -> srv_ok s' /\ conn_ok c.
Proof.
  intros Hu Hs E. unfold new_local_client in E.
  destruct (new_from_server s) as [c0| |] eqn:En; cbn [bind] in E; try discriminate.
  destruct (add_connection s id) as [s1| |] eqn:Ea; cbn [bind] in E; try discriminate. injection E as <- <-.
  split; [exact (proj1 (add_connection_ok s id s1 Hu Hs Ea))|].
  apply conn_ok_set_connected. exact (new_from_server_ok s c0 Hu En).
Qed.

(* ================================================================== *)
(* H3. connected_clients / has_connections *)

Lemma len_filter_le {A} (f : A -> bool) (l : list A) : len (filter f l) <= len l.
Proof.
  induction l as [|x t IH]; cbn [filter]; [lia|]. destruct (f x); rewrite ?len_cons; lia.
Qed.

Theorem connected_clients_spec : forall s,
  connected_clients s = len (clients_id s) /\ connected_clients s <= len (s_conns s).
Proof.
  intros s. split; [reflexivity|]. unfold connected_clients, clients_id, len. rewrite map_length.
  apply (len_filter_le (fun ic => is_connected_st (snd ic)) (s_conns s)).
Qed.

(* it counts exactly the connections whose status is Connected *)
Theorem connected_clients_count : forall s,
  connected_clients s = len (filter (fun ic => is_connected_st (snd ic)) (s_conns s)) /\
  (forall id, In id (clients_id s) -> ServerP.conns_sorted s -> srv_is_connected s id = true).
Proof.
  intros s. split; [unfold connected_clients, clients_id, len; now rewrite map_length|].
  intros id Hin Hs. unfold clients_id in Hin. apply in_map_iff in Hin. destruct Hin as ([k c] & <- & Hin).
  apply filter_In in Hin. destruct Hin as [Hin Hc]. cbn [fst snd] in *. unfold srv_is_connected.
  revert Hs Hin. unfold ServerP.conns_sorted, SMapSrvP.sm_sorted. generalize (s_conns s) as m.
  induction m as [|[k' c'] t IH]; cbn [map fst SMapSrvP.asc sm_find]; intros Hs Hin; [destruct Hin|].
  destruct Hs as [Hlt Hs]. destruct Hin as [Hin|Hin].
  - injection Hin as -> ->. rewrite N.eqb_refl. exact Hc.
  - destruct (N.eqb_spec k k') as [->|Hne]; [|exact (IH Hs Hin)].
    exfalso. rewrite Forall_forall in Hlt. specialize (Hlt k' (in_map fst _ _ Hin)). cbn [fst] in Hlt. lia.
Qed.

Theorem has_connections_spec : forall s, has_connections s = true <-> s_conns s <> [].
Proof.
  intros s. unfold has_connections. destruct (s_conns s); split; intros H; try discriminate; try reflexivity.
  congruence.
Qed.

(* conn_ok / srv_ok are also kept by the sending calls used in the examples *)
Lemma send_message_ok c ch m c' : conn_ok c -> send_message c ch m = Ok c' -> conn_ok c'.
Proof.
  intros [Hi Hu] E.
  assert (Ec : cstep c (CSend ch m) = Ok (c', ONone)) by (cbn [cstep]; rewrite E; reflexivity).
  destruct (cstep_api_safe c (CSend ch m) c' ONone Hi eq_refl Ec) as [Hi' Hsc].
  split; [exact Hi'|]. eapply chans_u8_same; eauto.
Qed.

Lemma srv_send_message_ok s id ch m s' : srv_ok s -> srv_send_message s id ch m = Ok s' -> srv_ok s'.
Proof.
  intros Hs E. unfold srv_send_message in E. destruct (sm_find id (s_conns s)) as [c|] eqn:Hf; [|now injection E as <-].
  destruct (send_message c ch m) as [c'| |] eqn:Es; cbn [bind] in E; try discriminate. injection E as <-.
  apply srv_ok_insert; [exact Hs|]. eapply send_message_ok; [|exact Es]. eapply srv_ok_find; eauto.
Qed.

(* ================================================================== *)
(* E. non-vacuity, renet *)

Definition hx_cfg : list chan_config := ConnP.ex_cfg.
Definition hx_msg : list N := [104; 105; 33].

Lemma hx_cfg_u8 : cfg_u8 hx_cfg.
Proof. repeat constructor. Qed.

(* a fresh connection is warped to packet sequence 1000 and message id 77: the invariant holds, the next
   message travels under these numbers, and from then on (something is tracked) warp is the identity *)
Example warp_example :
  exists c w w1,
    conn_new 60000 hx_cfg hx_cfg = Ok c /\ conn_inv c /\ w = warp c 1000 77 /\ conn_inv w /\ c_seq w = 1000 /\
    crun w [CSend 2 hx_msg; CFlush] =
      Ok (w1, [ONone; OPkts [[0; 67; 232; 2; 0; 1; 64; 77; 3; 104; 105; 33]]]) /\
    c_sent w1 = [(1000, (0, SIReliableMessages 2 [77]))] /\ c_seq w1 = 1001 /\
    warp w1 5 5 = w1.
Proof.
  destruct (conn_new 60000 hx_cfg hx_cfg) as [c| |] eqn:Ec; try (vm_compute in Ec; discriminate).
  pose proof (conn_inv_init _ _ _ _ Ec) as Hi.
  assert (Hw : conn_inv (warp c 1000 77)) by (apply warp_inv; [exact Hi|reflexivity|reflexivity]).
  vm_compute in Ec. injection Ec as Ec.
  destruct (crun (warp c 1000 77) [CSend 2 hx_msg; CFlush]) as [[w1 o]| |] eqn:E1;
    try (subst c; vm_compute in E1; discriminate).
  exists c, (warp c 1000 77), w1. split; [reflexivity|]. split; [exact Hi|]. split; [reflexivity|].
  split; [exact Hw|]. subst c. vm_compute in E1. injection E1 as <- <-.
  split; [reflexivity|]. split; [reflexivity|]. split; [reflexivity|]. split; [reflexivity|].
  apply warp_noop. left. discriminate.
Qed.

(* the bounds seq < 2^62 and id < 2^62 of warp_inv do not make the next flush safe: the counters may be
   moved to the edge, and then the encoder's unreachable!() is one message away (this is the panic
   cstep_safe leaves open, and why warp_counters_small asks for more) *)
Example warp_then_overflow :
  exists c, conn_new 60000 hx_cfg hx_cfg = Ok c /\
    2^62 - 1 < 2^62 /\
    crun (warp c 0 (2^62 - 1)) [CSend 2 hx_msg; CSend 2 hx_msg; CFlush] = Panic SITE_VARINT_TOO_LARGE /\
    crun (warp c (2^62 - 1) 0) [CSend 2 hx_msg; CSend 1 hx_msg; CFlush] = Panic SITE_VARINT_TOO_LARGE.
Proof.
  destruct (conn_new 60000 hx_cfg hx_cfg) as [c| |] eqn:Ec; try (vm_compute in Ec; discriminate).
  vm_compute in Ec. injection Ec as Ec. exists c. split; [reflexivity|]. split; [reflexivity|].
  subst c. split; vm_compute; reflexivity.
Qed.

(* a server with one local client; one message queued in each direction; process_local_client carries
   both across.  The hypotheses of process_local_client_safe hold of this state. *)
Definition hx_setup : option (server * conn) :=
  match new_local_client (server_new 60000 hx_cfg hx_cfg) 7 with
  | Ok (s1, cl) =>
      match srv_send_message s1 7 2 hx_msg, send_message cl 1 [1; 2] with
      | Ok s2, Ok cl1 => Some (s2, cl1)
      | _, _ => None
      end
  | _ => None
  end.

Example process_local_client_example :
  exists s cl s' cl' s1 cl1 s2 cl2,
    hx_setup = Some (s, cl) /\ srv_ok s /\ conn_ok cl /\
    process_local_client s 7 cl = Ok (s', cl', true) /\ srv_ok s' /\ conn_ok cl' /\
    map fst (s_conns s') = [7] /\
    receive_message cl' 2 = Ok (cl1, Some hx_msg) /\
    srv_receive_message s' 7 1 = Ok (s1, Some [1; 2]) /\
    (* an id the server does not know: nothing happens *)
    process_local_client s 8 cl = Ok (s2, cl2, false) /\ s2 = s /\ cl2 = cl.
Proof.
  set (s0 := server_new 60000 hx_cfg hx_cfg).
  assert (H0 : srv_ok s0) by apply srv_ok_new.
  destruct hx_setup as [[s cl]|] eqn:E; [|vm_compute in E; discriminate].
  unfold hx_setup in E. fold s0 in E.
  destruct (new_local_client s0 7) as [[sa ca]| |] eqn:E1; try discriminate.
  destruct (new_local_client_ok s0 7 sa ca hx_cfg_u8 H0 E1) as [Hsa Hca].
  destruct (srv_send_message sa 7 2 hx_msg) as [sb| |] eqn:E2; try discriminate.
  destruct (send_message ca 1 [1; 2]) as [cb| |] eqn:E3; try discriminate.
  injection E as <- <-.
  pose proof (srv_send_message_ok _ _ _ _ _ Hsa E2) as Hs.
  pose proof (send_message_ok _ _ _ _ Hca E3) as Hc.
  pose proof (process_local_client_safe sb 7 cb Hs Hc) as P7.
  pose proof (process_local_client_safe sb 8 cb Hs Hc) as P8.
  destruct (process_local_client sb 7 cb) as [[[s' cl'] ok]| |] eqn:E7; [| destruct P7 |].
  2:{ exfalso. clear -E1 E2 E3 E7. vm_compute in E1. injection E1 as <- <-. vm_compute in E2. injection E2 as <-.
      vm_compute in E3. injection E3 as <-. vm_compute in E7. discriminate. }
  destruct (process_local_client sb 8 cb) as [[[s2 cl2] ok2]| |] eqn:E8; [| destruct P8 |].
  2:{ exfalso. clear -E1 E2 E3 E8. vm_compute in E1. injection E1 as <- <-. vm_compute in E2. injection E2 as <-.
      vm_compute in E3. injection E3 as <-. vm_compute in E8. discriminate. }
  destruct P7 as (Q1 & Q2 & Q3 & _). destruct P8 as (_ & _ & _ & _ & _ & R6 & R7).
  vm_compute in E1. injection E1 as <- <-. vm_compute in E2. injection E2 as <-. vm_compute in E3. injection E3 as <-.
  pose proof E7 as E7'. vm_compute in E7'. injection E7' as E7a E7b E7c.
  pose proof E8 as E8'. vm_compute in E8'. injection E8' as _ _ E8c.
  symmetry in E7c, E8c. subst ok ok2.
  destruct (R7 eq_refl) as [R7a R7b].
  destruct (receive_message cl' 2) as [[cl1 m1]| |] eqn:Er1; try (subst cl'; vm_compute in Er1; discriminate Er1).
  destruct (srv_receive_message s' 7 1) as [[s1 m2]| |] eqn:Er2; try (subst s'; vm_compute in Er2; discriminate Er2).
  eexists _, _, s', cl', s1, cl1, s2, cl2.
  split; [reflexivity|]. split; [exact Hs|]. split; [exact Hc|].
  split; [exact E7|]. split; [exact Q2|]. split; [exact Q1|].
  split; [subst s'; reflexivity|].
  split; [subst cl'; vm_compute in Er1; injection Er1 as <- <-; reflexivity|].
  split; [subst s'; vm_compute in Er2; injection Er2 as <- <-; reflexivity|].
  split; [exact E8|]. split; assumption.
Qed.

(* ================================================================== *)
(* renetcode                                                           *)
(* ================================================================== *)
From RenetV Require Import Aead NPacket Token NServer NClient NDriver.
From RenetV Require Import Spec.NetSpec Spec.NSysSpec.
From RenetV Require Proofs.AeadP Proofs.NPacketP Proofs.TokenP Proofs.NSlotsP Proofs.NServerP Proofs.NAuthP Proofs.NClientP.

(* ================================================================== *)
(* H4. fill_entries *)

(* the synthetic entry of slot i *)
Definition synth_entry (base i : N) (a : addr) : token_entry :=
  {| te_time := base + i; te_addr := a; te_mac := le64 i ++ repeat 0 (N.to_nat (NC_MAC_BYTES - 8)) |}.

Lemma fill_entries_length : forall es i count base a,
  length (fill_entries es i count base a) = length es.
Proof.
  induction es as [|e t IH]; intros i count base a; cbn [fill_entries length]; [reflexivity|].
  now rewrite IH.
Qed.

Lemma fill_entries_len es i count base a : len (fill_entries es i count base a) = len es.
Proof. unfold len. now rewrite fill_entries_length. Qed.

(* slot k of the result, for a scan that starts at index i *)
Lemma fill_entries_nth : forall es i count base a k,
  nth_error (fill_entries es i count base a) k =
  match nth_error es k with
  | None => None
  | Some e => Some (if i + N.of_nat k <? count then Some (synth_entry base (i + N.of_nat k) a) else e)
  end.
Proof.
  induction es as [|e t IH]; intros i count base a k; cbn [fill_entries].
  - destruct k; reflexivity.
  - destruct k as [|k]; cbn [nth_error].
    + replace (i + N.of_nat 0) with i by lia. reflexivity.
    + rewrite IH. replace (i + 1 + N.of_nat k) with (i + N.of_nat (S k)) by lia. reflexivity.
Qed.

(* the lookup lemma of the hook: the first count slots are synthetic, the others are unchanged *)
Theorem fill_entries_lookup : forall es count base a i,
  (i < count -> i < len es ->
     nth_opt (fill_entries es 0 count base a) (N.to_nat i) = Some (Some (synth_entry base i a))) /\
  (count <= i -> nth_opt (fill_entries es 0 count base a) (N.to_nat i) = nth_opt es (N.to_nat i)).
Proof.
  intros es count base a i. rewrite !nth_opt_eq, fill_entries_nth.
  replace (0 + N.of_nat (N.to_nat i)) with i by lia. split.
  - intros Hc Hl. destruct (nth_error es (N.to_nat i)) as [e|] eqn:E.
    + destruct (N.ltb_spec i count); [reflexivity|lia].
    + apply nth_error_None in E. unfold len in Hl. lia.
  - intros Hc. destruct (nth_error es (N.to_nat i)) as [e|]; [|reflexivity].
    destruct (N.ltb_spec i count); [lia|reflexivity].
Qed.

(* table_inv (Spec/NetSpec.v) does not mention the connect token table at all: it talks about the client
   slots and the pending map only.  So it is kept whatever the entries are, and so is every other field
   and server_sizes; addr_wf a is not needed. *)
Theorem fill_entries_inv : forall s count base a,
  table_inv s -> addr_wf a -> table_inv (set_entries s (fill_entries (ns_entries s) 0 count base a)).
Proof. intros s count base a H _. exact H. Qed.

Theorem fill_entries_frame : forall s count base a,
  let s' := set_entries s (fill_entries (ns_entries s) 0 count base a) in
  ns_clients s' = ns_clients s /\ ns_pending s' = ns_pending s /\ ns_protocol s' = ns_protocol s /\
  ns_connect_key s' = ns_connect_key s /\ ns_max s' = ns_max s /\ ns_chal_seq s' = ns_chal_seq s /\
  ns_chal_key s' = ns_chal_key s /\ ns_addrs s' = ns_addrs s /\ ns_now s' = ns_now s /\
  ns_global_seq s' = ns_global_seq s /\ ns_secure s' = ns_secure s /\
  len (ns_entries s') = len (ns_entries s) /\
  (server_sizes s -> server_sizes s') /\
  (forall a0, find_by_addr s' a0 = find_by_addr s a0) /\ (forall id, find_by_id s' id = find_by_id s id).
Proof.
  intros s count base a s'. subst s'. cbn [set_entries ns_clients ns_pending ns_entries ns_protocol ns_connect_key
    ns_max ns_chal_seq ns_chal_key ns_addrs ns_now ns_global_seq ns_secure].
  repeat split; try reflexivity; try (intros; reflexivity); try apply fill_entries_len.
  all: match goal with H : server_sizes _ |- _ => apply H end.
Qed.

(* what the theorems of NAuthP that talk about ns_entries need: the table keeps its length through
   find_or_add_entry (on any table, hence on the filled one) *)
Lemma find_or_add_entry_length es e : length (fst (find_or_add_entry es e)) = length es.
Proof.
  rewrite NAuthP.find_or_add_entry_eq. destruct (last_match es (te_mac e)); cbn [fst]; [reflexivity|].
  apply SMapP.upd_length.
Qed.

Corollary fill_then_find_or_add_length es count base a e :
  length (fst (find_or_add_entry (fill_entries es 0 count base a) e)) = length es.
Proof. now rewrite find_or_add_entry_length, fill_entries_length. Qed.

(* a table filled completely has no free entry: the hypothesis of NAuthP.token_rebinding_refuted *)
Lemma fill_entries_full : forall es i count base a,
  i + len es <= count -> Forall NAuthP.is_some (fill_entries es i count base a).
Proof.
  induction es as [|e t IH]; intros i count base a H; cbn [fill_entries]; [constructor|].
  rewrite SMapP.len_cons in H. constructor.
  - destruct (N.ltb_spec i count); [exact I|lia].
  - apply IH. lia.
Qed.

(* the synthetic tags are pairwise different *)
Lemma le64_inj i j : i < U64 -> j < U64 -> le64 i = le64 j -> i = j.
Proof.
  intros Hi Hj E. apply (f_equal le_val) in E. unfold le64 in E.
  rewrite !NPacketP.le_val_le_bytes in E. change (256 ^ N.of_nat 8) with U64 in E.
  rewrite !N.mod_small in E by assumption. exact E.
Qed.

Lemma synth_mac_inj base base' a a' i j :
  i < U64 -> j < U64 -> te_mac (synth_entry base i a) = te_mac (synth_entry base' j a') -> i = j.
Proof.
  intros Hi Hj E. cbn [synth_entry te_mac] in E. apply app_inv_tail in E. now apply le64_inj.
Qed.

(* on a completely filled table the tag of slot i is found exactly in slot i, a foreign tag nowhere *)
Lemma last_match_fill : forall es i0 count base a mac,
  i0 + len es <= count ->
  last_match (fill_entries es i0 count base a) mac =
  match find (fun k => bytes_eqb (te_mac (synth_entry base k a)) mac)
             (List.rev (map (fun k => i0 + N.of_nat k) (List.seq 0 (length es)))) with
  | Some k => Some (synth_entry base k a)
  | None => None
  end.
Proof.
  induction es as [|e t IH]; intros i0 count base a mac H; cbn [fill_entries last_match length List.seq map List.rev];
    [reflexivity|].
  rewrite SMapP.len_cons in H. destruct (N.ltb_spec i0 count) as [_|]; [|lia].
  cbn [last_match]. rewrite IH by lia. rewrite <- seq_shift, map_map.
  replace (map (fun k => i0 + N.of_nat (S k)) (List.seq 0 (length t)))
    with (map (fun k => i0 + 1 + N.of_nat k) (List.seq 0 (length t))) by (apply map_ext; intros; lia).
  replace (i0 + N.of_nat 0) with i0 by lia.
  set (l := List.rev (map (fun k => i0 + 1 + N.of_nat k) (List.seq 0 (length t)))).
  fold (synth_entry base i0 a).
  assert (Hf : forall (f : N -> bool) (l : list N) x, find f (l ++ [x]) =
                 match find f l with Some y => Some y | None => if f x then Some x else None end).
  { intros f l0 x. induction l0 as [|y l0 IHl]; cbn [app find]; [destruct (f x); reflexivity|].
    destruct (f y); [reflexivity|exact IHl]. }
  rewrite Hf. destruct (find _ l); [reflexivity|].
  destruct (bytes_eqb (te_mac (synth_entry base i0 a)) mac); reflexivity.
Qed.

Theorem fill_entries_bound_to_address : forall es count base a i,
  len es <= count -> len es <= U64 -> i < len es ->
  last_match (fill_entries es 0 count base a) (te_mac (synth_entry base i a)) = Some (synth_entry base i a).
Proof.
  intros es count base a i Hc Hu Hi. rewrite last_match_fill by lia.
  set (f := fun k => bytes_eqb (te_mac (synth_entry base k a)) (te_mac (synth_entry base i a))).
  set (l := List.rev (map (fun k => 0 + N.of_nat k) (List.seq 0 (length es)))).
  assert (Hin : In i l).
  { unfold l. rewrite <- in_rev. apply in_map_iff. exists (N.to_nat i). split; [lia|].
    apply in_seq. unfold len in Hi. lia. }
  assert (Hl : forall k, In k l -> k < U64).
  { intros k Hk. unfold l in Hk. rewrite <- in_rev in Hk. apply in_map_iff in Hk. destruct Hk as (n & <- & Hn).
    apply in_seq in Hn. unfold len in Hu. lia. }
  destruct (find f l) as [k|] eqn:E.
  - apply find_some in E. destruct E as [Hk Hfk]. unfold f in Hfk. apply AeadP.list_eqb_N_eq in Hfk.
    apply synth_mac_inj in Hfk; [now subst k|now apply Hl|now apply Hl].
  - exfalso. pose proof (find_none _ _ E i Hin) as Hn. unfold f in Hn. now rewrite AeadP.bytes_eqb_refl in Hn.
Qed.

(* a request whose tag is not one of the synthetic ones, on a completely filled (non-empty) table: the
   times base, base+1, ... ascend, so it is slot 0 that is evicted, and the request is allowed *)
Theorem fill_entries_evicts_first : forall es count base a e,
  es <> [] -> len es <= count ->
  last_match (fill_entries es 0 count base a) (te_mac e) = None ->
  find_or_add_entry (fill_entries es 0 count base a) e = (upd (fill_entries es 0 count base a) 0 (Some e), true).
Proof.
  intros es count base a e Hne Hc Hm.
  set (fe := fill_entries es 0 count base a) in *.
  assert (Hfull : Forall NAuthP.is_some fe) by (apply fill_entries_full; lia).
  assert (Hne' : fe <> []).
  { intros E. apply (f_equal (@length _)) in E. unfold fe in E. rewrite fill_entries_length in E.
    destruct es; [congruence|discriminate]. }
  destruct (NAuthP.token_rebinding_refuted fe e Hfull Hne' Hm) as (i & old & Hi & Hmin & E).
  rewrite E. f_equal. f_equal.
  (* the oldest entry is the one of slot 0 *)
  assert (H0 : In (Some (synth_entry base 0 a)) fe).
  { destruct es as [|x t]; [congruence|]. unfold fe. cbn [fill_entries].
    rewrite SMapP.len_cons in Hc. destruct (N.ltb_spec 0 count); [now left|lia]. }
  specialize (Hmin _ H0). cbn [synth_entry te_time] in Hmin.
  rewrite SMapP.nth_opt_eq in Hi. unfold fe in Hi. rewrite fill_entries_nth in Hi.
  destruct (nth_error es i) as [x|] eqn:Ex; [|discriminate].
  assert (Hil : (i < length es)%nat) by (apply nth_error_Some; congruence).
  destruct (N.ltb_spec (0 + N.of_nat i) count) as [_|Hge]; [|unfold len in Hc; lia].
  injection Hi as <-. cbn [synth_entry te_time] in Hmin. lia.
Qed.

(* ================================================================== *)
(* H5. the unsecure client construction (op 128) *)

Lemma repeat_zeros n : repeat 0 (N.to_nat n) = zeros n.
Proof. unfold zeros. induction (N.to_nat n) as [|k IH]; cbn [repeat repeatN]; [reflexivity|now rewrite IH]. Qed.

Definition unsecure_token (now protocol cid : N) (sa : addr) (user xnonce c2s s2c : list N) : nres connect_token :=
  token_generate now protocol NC_UNSECURE_EXPIRE_SECS cid (Z.of_N NC_UNSECURE_TIMEOUT_SECS) [sa] user
                 (repeat 0 (N.to_nat NC_KEY_BYTES)) xnonce c2s s2c.

(* `now` in range: the expiry second as_secs now + 300 fits a u64 (true of every now < 2^64 ns, see
   unsecure_now_range).  No bound on the bytes of user / xnonce / the keys is needed: token_wf and
   client_inv only talk about lengths. *)
Theorem unsecure_client_ok : forall now protocol cid sa user xnonce c2s s2c,
  addr_wf sa -> cid < U64 -> protocol < U64 -> as_secs now + NC_UNSECURE_EXPIRE_SECS < U64 ->
  len user = NC_USER_DATA_BYTES -> len xnonce = NC_XNONCE_BYTES ->
  len c2s = NC_KEY_BYTES -> len s2c = NC_KEY_BYTES ->
  exists t c,
    unsecure_token now protocol cid sa user xnonce c2s s2c = Ok t /\ token_wf t /\
    nclient_new now t = Ok c /\ NClientP.client_inv c /\
    cl_state c = CSendingRequest /\ cl_server_addr c = sa /\ cl_token c = t /\ cl_id c = cid /\
    ct_timeout t = 15%Z /\ ct_expire t = as_secs now + 300 /\ ct_create t = as_secs now /\
    ct_protocol t = protocol /\ ct_client_id t = cid /\
    (* the private part is sealed under the all-zero key, the connect key of a server built without a key *)
    exists pt, private_wf pt /\
      private_decode (ct_private t) protocol (ct_expire t) xnonce (zeros NC_KEY_BYTES) = Ok pt /\
      pt_client_id pt = cid /\ pt_addrs pt = ct_addrs t /\ pt_c2s pt = c2s /\ pt_s2c pt = s2c /\
      pt_user pt = user /\ pt_timeout pt = 15%Z.
Proof.
  intros now protocol cid sa user xnonce c2s s2c Ha Hcid Hp Hnow Hu Hx Hc Hs.
  set (key := repeat 0 (N.to_nat NC_KEY_BYTES)).
  set (expire := as_secs now + NC_UNSECURE_EXPIRE_SECS).
  set (slots := pad_slots (map Some [sa])).
  set (pt0 := {| pt_client_id := cid; pt_timeout := Z.of_N NC_UNSECURE_TIMEOUT_SECS; pt_addrs := slots;
                 pt_c2s := c2s; pt_s2c := s2c; pt_user := user |}).
  set (t := {| ct_client_id := cid; ct_version := NC_VERSION_INFO; ct_protocol := protocol;
               ct_create := as_secs now; ct_expire := expire; ct_xnonce := xnonce; ct_addrs := slots;
               ct_c2s := c2s; ct_s2c := s2c; ct_private := private_encode pt0 protocol expire xnonce key;
               ct_timeout := Z.of_N NC_UNSECURE_TIMEOUT_SECS |}).
  assert (E : unsecure_token now protocol cid sa user xnonce c2s s2c = Ok t) by reflexivity.
  pose proof E as E0. unfold unsecure_token in E0.
  destruct (TokenP.token_generate_wf _ _ _ _ _ _ _ _ _ _ _ _ E0 Hcid Hp Hnow ltac:(cbn; lia)
              ltac:(constructor; [exact Ha|constructor]) Hu Hx Hc Hs)
    as (Hwf & pt & Hpt & Hdec & P1 & P2 & P3 & P4 & P5 & P6).
  set (c := {| cl_state := CSendingRequest; cl_id := cid; cl_connect_start := now; cl_last_send := None;
               cl_last_recv := now; cl_now := now; cl_seq := 0; cl_server_addr := sa; cl_addr_index := 0;
               cl_token := t; cl_chal_seq := 0; cl_chal_data := zeros NC_CHALLENGE_BYTES;
               cl_max_clients := 0; cl_client_index := 0; cl_replay := replay_new |}).
  assert (En : nclient_new now t = Ok c) by reflexivity.
  exists t, c. split; [exact E|]. split; [exact Hwf|]. split; [exact En|]. split.
  { apply (NClientP.client_inv_init now t c); [reflexivity|exact En]. }
  split; [reflexivity|]. split; [reflexivity|]. split; [reflexivity|]. split; [reflexivity|].
  split; [reflexivity|]. split; [reflexivity|]. split; [reflexivity|]. split; [reflexivity|].
  split; [reflexivity|].
  exists pt. split; [exact Hpt|]. unfold key in Hdec. rewrite repeat_zeros in Hdec.
  split; [exact Hdec|]. repeat split; assumption.
Qed.

Lemma unsecure_now_range now : now < U64 -> as_secs now + NC_UNSECURE_EXPIRE_SECS < U64.
Proof.
  intros H. unfold as_secs.
  assert (now / NS_PER_SEC <= now / 1) by (apply N.div_le_compat_l; unfold NS_PER_SEC; lia).
  rewrite N.div_1_r in *.
  assert (now / NS_PER_SEC * NS_PER_SEC <= now) by (rewrite N.mul_comm; apply N.mul_div_le; discriminate).
  unfold NS_PER_SEC, NC_UNSECURE_EXPIRE_SECS, U64 in *. lia.
Qed.

(* the range of `now` is needed: the model adds without a check (Rust would overflow), and a token whose
   expiry second does not fit a u64 is not well formed *)
Lemma unsecure_client_late_refuted :
  let now := (U64 - 300) * NS_PER_SEC in
  let sa := AddrV4 [127; 0; 0; 1] 5000 in
  exists t, unsecure_token now 7 1 sa (zeros NC_USER_DATA_BYTES) (zeros NC_XNONCE_BYTES)
                           (zeros NC_KEY_BYTES) (zeros NC_KEY_BYTES) = Ok t /\ ~ token_wf t.
Proof.
  cbv zeta. eexists. split; [reflexivity|]. unfold token_wf. cbn [ct_expire].
  intros (_ & _ & _ & _ & H & _). revert H. vm_compute. intros H. discriminate H.
Qed.

(* ================================================================== *)
(* E. non-vacuity, renetcode *)

Definition hx_addr : addr := AddrV4 [10; 0; 0; 9] 4000.
Definition hx_entries : list (option token_entry) :=
  [None; Some {| te_time := 5; te_addr := hx_addr; te_mac := [9] |}; None; None].

Example fill_entries_example :
  let fe := fill_entries hx_entries 0 3 100 hx_addr in
  length fe = 4%nat /\
  map (option_map te_time) fe = [Some 100; Some 101; Some 102; None] /\
  nth_opt fe 1 = Some (Some (synth_entry 100 1 hx_addr)) /\
  nth_opt fe 3 = nth_opt hx_entries 3 /\
  te_mac (synth_entry 100 1 hx_addr) = [1; 0; 0; 0; 0; 0; 0; 0; 0; 0; 0; 0; 0; 0; 0; 0] /\
  (* a completely filled table: slot 1's tag is bound to hx_addr, a new tag evicts slot 0 *)
  let full := fill_entries hx_entries 0 4 100 hx_addr in
  find_or_add_entry full {| te_time := 500; te_addr := AddrV4 [10; 0; 0; 8] 1; te_mac := te_mac (synth_entry 100 1 hx_addr) |}
    = (full, false) /\
  find_or_add_entry full {| te_time := 500; te_addr := hx_addr; te_mac := [7] |}
    = (upd full 0 (Some {| te_time := 500; te_addr := hx_addr; te_mac := [7] |}), true).
Proof. vm_compute. repeat split; reflexivity. Qed.

(* the instance of fill_entries_inv on a real server state *)
Example fill_entries_inv_example :
  exists s, nserver_new 0 2 42 [hx_addr] None (zeros NC_KEY_BYTES) = Ok s /\ table_inv s /\
    table_inv (set_entries s (fill_entries (ns_entries s) 0 2048 1000 hx_addr)) /\
    len (ns_entries (set_entries s (fill_entries (ns_entries s) 0 2048 1000 hx_addr))) = 2048.
Proof.
  eexists. split; [reflexivity|].
  assert (H : table_inv {| ns_clients := repeatN None 2; ns_pending := []; ns_entries := repeatN None 2048;
     ns_protocol := 42; ns_connect_key := zeros NC_KEY_BYTES; ns_max := 2; ns_chal_seq := 0;
     ns_chal_key := zeros NC_KEY_BYTES; ns_addrs := [hx_addr]; ns_now := 0;
     ns_global_seq := NC_GLOBAL_SEQUENCE_INIT; ns_secure := false |}).
  { unfold table_inv, connected. cbn [ns_clients ns_pending repeatN some_list map distinct_by].
    repeat split; try constructor; try (intros ? ? []); try contradiction. }
  split; [exact H|]. split.
  - apply fill_entries_inv; [exact H|]. unfold addr_wf, hx_addr. split; [reflexivity|].
    split; [apply TokenP.bytes_ok_dec_true; reflexivity|reflexivity].
  - cbn [set_entries ns_entries]. rewrite fill_entries_len. reflexivity.
Qed.

Example unsecure_client_example :
  match unsecure_token 5000000000 7 99 hx_addr (zeros NC_USER_DATA_BYTES) (zeros NC_XNONCE_BYTES)
                       (zeros NC_KEY_BYTES) (zeros NC_KEY_BYTES) with
  | Ok t => match nclient_new 5000000000 t with
            | Ok c => Some (cl_state c, cl_server_addr c, ct_timeout t, ct_expire t, cl_id c)
            | _ => None
            end
  | _ => None
  end = Some (CSendingRequest, hx_addr, 15%Z, 305, 99).
Proof. vm_compute. reflexivity. Qed.

(* ================================================================== *)
Print Assumptions warp_inv.
Print Assumptions warp_inv_strong.
Print Assumptions warp_noop.
Print Assumptions warp_u8.
Print Assumptions warp_counters_small.
Print Assumptions process_local_client_safe.
Print Assumptions new_local_client_ok.
Print Assumptions connected_clients_spec.
Print Assumptions connected_clients_count.
Print Assumptions has_connections_spec.
Print Assumptions fill_entries_length.
Print Assumptions fill_entries_lookup.
Print Assumptions fill_entries_inv.
Print Assumptions fill_entries_frame.
Print Assumptions fill_then_find_or_add_length.
Print Assumptions fill_entries_full.
Print Assumptions fill_entries_bound_to_address.
Print Assumptions fill_entries_evicts_first.
Print Assumptions unsecure_client_ok.
Print Assumptions unsecure_now_range.
Print Assumptions unsecure_client_late_refuted.
Print Assumptions warp_example.
Print Assumptions warp_then_overflow.
Print Assumptions process_local_client_example.
Print Assumptions fill_entries_example.
Print Assumptions fill_entries_inv_example.
Print Assumptions unsecure_client_example.
