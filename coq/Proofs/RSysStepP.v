(* RSysStepP.v - connection-level facts the system proofs need beyond ConnP.v:
   A. what exactly a flush emits (relative to the static contents of the send channels) and that
      an emitted packet decodes to itself or not at all;
   B. a finer specification of apply_ack (which slice flags are set, that stored messages never change);
   C. process_packet on a packet known to be well formed (no assumption on the payload bytes). *)
From RenetV Require Import Base Consts Varint Packet Channels Conn Server.
From RenetV Require Import CodecSpec RecvSpec SendSpec ConnSpec ConnInvSpec RSysSpec RSysInvSpec.
From RenetV Require Import SMapP ConnBaseP ConnProcP ConnFlushP ConnP RSysBaseP.
From RenetV Require AcksP VarintP PacketP RecvRelP RecvUnrelP SMapSendP SendRelP SendUnrelP DisconnectP ConnEncP SliceP.
Require Import Lia ZifyBool ZifyN ZifyNat.
Open Scope N_scope.

Arguments N.add : simpl never.
Arguments N.sub : simpl never.
Arguments N.mul : simpl never.
Arguments N.div : simpl never.
Arguments N.modulo : simpl never.
Arguments N.eqb : simpl never.
Arguments N.ltb : simpl never.
Arguments N.leb : simpl never.
Local Opaque SLICE_SIZE MAX_ACK_RANGES SER_BUFFER NC_MAX_PAYLOAD_BYTES DISCARD_PACKET_SECS VARINT_MAX MAX_NUM_SLICES.

Import SendRelP(st_of, static_of, pkt_ok, entry_ok, packed, part_acked).

(* ================================================================== *)
(* A. what a flush emits *)

(* the reliable send channels keep their static contents: ids, messages, kinds, acked flags *)
Definition sr_static (sr sr' : list (N * send_rel)) : Prop :=
  forall ch, match sm_find ch sr with
             | None => sm_find ch sr' = None
             | Some s => exists s', sm_find ch sr' = Some s' /\ sr_next_id s' = sr_next_id s /\
                           (forall id, st_of (sr_unacked s') id = st_of (sr_unacked s) id) /\
                           (forall id p, packed s' id p = packed s id p)
             end.

Lemma sr_static_refl sr : sr_static sr sr.
Proof. intros ch. destruct (sm_find ch sr) as [s|]; [|reflexivity]. exists s. auto. Qed.

Lemma sr_static_trans a b c : sr_static a b -> sr_static b c -> sr_static a c.
Proof.
  intros H1 H2 ch. specialize (H1 ch). specialize (H2 ch).
  destruct (sm_find ch a) as [s|].
  - destruct H1 as (s1 & E1 & N1 & K1 & P1). rewrite E1 in H2. destruct H2 as (s2 & E2 & N2 & K2 & P2).
    exists s2. split; [exact E2|]. split; [congruence|].
    split; [intros id; now rewrite K2, K1|intros id p; now rewrite P2, P1].
  - now rewrite H1 in H2.
Qed.

Lemma sr_static_eq sr sr' : sr' = sr -> sr_static sr sr'.
Proof. intros ->. apply sr_static_refl. Qed.

(* a reliable packet consistent with the static view of some channel *)
Definition emitted_rel (sr : list (N * send_rel)) (p : packet) : Prop :=
  exists ch s, sm_find ch sr = Some s /\ pkt_ok ch (st_of (sr_unacked s)) p.

Lemma emitted_rel_static sr sr' p : sr_static sr sr' -> emitted_rel sr' p -> emitted_rel sr p.
Proof.
  intros H (ch & s' & Hs' & Hp). specialize (H ch).
  destruct (sm_find ch sr) as [s|] eqn:Es; [|congruence].
  destruct H as (s2 & E2 & _ & K & _). rewrite Hs' in E2. injection E2 as <-.
  exists ch, s. split; [exact Es|]. eapply SendRelP.pkt_ok_ext; [|exact Hp]. intros id. symmetry. apply K.
Qed.

(* the unreliable channels during a flush: f ch sid = the message sliced under sliced-message id sid *)
Definition su_step_ok (f : N -> N -> list N) (su su' : list (N * send_unrel)) (pk : list packet) : Prop :=
  (forall ch, match sm_find ch su with
              | None => sm_find ch su' = None
              | Some s => exists s', sm_find ch su' = Some s' /\ su_sliced_id s <= su_sliced_id s' /\
                                     (forall m, In m (su_queue s') -> In m (su_queue s))
              end) /\
  (forall sq ch ms, In (SmallUnreliable sq ch ms) pk ->
     exists s, sm_find ch su = Some s /\ Forall (fun m => In m (su_queue s)) ms) /\
  (forall sq ch sl, In (UnreliableSlice sq ch sl) pk ->
     exists s s', sm_find ch su = Some s /\ sm_find ch su' = Some s' /\
       su_sliced_id s <= sl_id sl /\ sl_id sl < su_sliced_id s' /\
       In (f ch (sl_id sl)) (su_queue s) /\ SLICE_SIZE < len (f ch (sl_id sl)) /\
       sl_index sl < num_slices_of (f ch (sl_id sl)) /\
       sl = slice_of (f ch (sl_id sl)) (sl_id sl) (sl_index sl)).

Lemma su_step_ok_nil f su : su_step_ok f su su [].
Proof.
  split; [|split].
  - intros ch. destruct (sm_find ch su) as [s|]; [|reflexivity]. exists s. split; [reflexivity|]. split; [lia|auto].
  - intros sq ch ms [].
  - intros sq ch sl [].
Qed.

(* no unreliable packets, same channels *)
Lemma su_step_ok_rel f su pk pk2 :
  Forall (fun p => is_rel_packet p = true) pk -> su_step_ok f su su [] -> forall su2,
  su_step_ok f su su2 pk2 -> su_step_ok f su su2 (pk ++ pk2).
Proof.
  intros Hrel _ su2 (A & B & C). split; [exact A|]. split.
  - intros sq ch ms Hin. apply in_app_or in Hin. destruct Hin as [Hin|Hin]; [|eauto].
    rewrite Forall_forall in Hrel. specialize (Hrel _ Hin). discriminate.
  - intros sq ch sl Hin. apply in_app_or in Hin. destruct Hin as [Hin|Hin]; [|eauto].
    rewrite Forall_forall in Hrel. specialize (Hrel _ Hin). discriminate.
Qed.

Lemma pkt_ok_is_rel ch st p : pkt_ok ch st p -> is_rel_packet p = true.
Proof. destruct p; cbn [pkt_ok is_rel_packet]; tauto. Qed.

Lemma unrel_pkt_not_rel ch p : SendUnrelP.unrel_pkt_ch ch p -> is_rel_packet p = false.
Proof. destruct p; cbn [SendUnrelP.unrel_pkt_ch is_rel_packet]; tauto. Qed.

(* the slices of a list of large messages *)
Lemma in_all_slices larges : forall sid sl, In sl (SendUnrelP.all_slices sid larges) ->
  exists k m, nth_error larges k = Some m /\ sl_id sl = sid + N.of_nat k /\
              sl = slice_of m (sl_id sl) (sl_index sl) /\ sl_index sl < num_slices_of m.
Proof.
  induction larges as [|m t IH]; intros sid sl Hin; cbn [SendUnrelP.all_slices] in Hin; [destruct Hin|].
  apply in_app_or in Hin. destruct Hin as [Hin|Hin].
  - apply in_map_iff in Hin. destruct Hin as (i & <- & Hi). apply in_iota in Hi.
    exists 0%nat, m. cbn [nth_error slice_of sl_id sl_index]. split; [reflexivity|]. split; [lia|]. split; [reflexivity|exact Hi].
  - destruct (IH _ _ Hin) as (k & m' & Hk & Hid & Hsl & Hidx).
    exists (S k), m'. cbn [nth_error]. split; [exact Hk|]. split; [lia|]. auto.
Qed.

Lemma in_filter_large m l : In m (filter SendUnrelP.is_large l) -> In m l /\ SLICE_SIZE < len m.
Proof.
  intros H. apply filter_In in H. destruct H as [H1 H2]. split; [exact H1|].
  unfold SendUnrelP.is_large in H2. lia.
Qed.

(* one unreliable channel's turn *)
Lemma su_turn_ok s seq avail s' pk seq' avail' :
  su_inv s -> su_get_packets s seq avail = Ok (s', pk, seq', avail') ->
  su_queue s' = [] /\ su_sliced_id s <= su_sliced_id s' /\ su_ch s' = su_ch s /\
  Forall (SendUnrelP.unrel_pkt_ch (su_ch s)) pk /\
  (forall sq ch ms, In (SmallUnreliable sq ch ms) pk -> Forall (fun m => In m (su_queue s)) ms) /\
  exists f1 : N -> list N,
    forall sq ch sl, In (UnreliableSlice sq ch sl) pk ->
      su_sliced_id s <= sl_id sl /\ sl_id sl < su_sliced_id s' /\
      In (f1 (sl_id sl)) (su_queue s) /\ SLICE_SIZE < len (f1 (sl_id sl)) /\
      sl_index sl < num_slices_of (f1 (sl_id sl)) /\
      sl = slice_of (f1 (sl_id sl)) (sl_id sl) (sl_index sl).
Proof.
  intros Hinv E.
  destruct (SendUnrelP.su_carried s seq avail s' pk seq' avail' Hinv E) as (_ & Hsm & Hsl & Hsid & Hch & _).
  set (kept := SendUnrelP.su_kept avail (su_queue s)) in *.
  assert (Hs' : su_queue s' = [] /\ su_ch s' = su_ch s).
  { rewrite (SendUnrelP.su_get_packets_spec s seq avail Hinv) in E. unfold SendUnrelP.su_spec in E.
    inversion E; subst. split; reflexivity. }
  destruct Hs' as [Hq Hc].
  split; [exact Hq|]. split; [lia|]. split; [exact Hc|]. split; [exact Hch|]. split.
  - intros sq ch ms Hin. rewrite Forall_forall. intros m Hm.
    assert (Hm' : In m (SendUnrelP.small_msgs_of pk)).
    { unfold SendUnrelP.small_msgs_of. apply in_flat_map. exists (SmallUnreliable sq ch ms). auto. }
    rewrite Hsm in Hm'. apply filter_In in Hm'. destruct Hm' as [Hm' _].
    eapply SendUnrelP.su_kept_in. exact Hm'.
  - exists (fun sid => nth (N.to_nat (sid - su_sliced_id s)) (filter SendUnrelP.is_large kept) []).
    intros sq ch sl Hin.
    assert (Hsl' : In sl (SendUnrelP.slices_of pk)).
    { unfold SendUnrelP.slices_of. apply in_flat_map. exists (UnreliableSlice sq ch sl). split; [exact Hin|now left]. }
    rewrite Hsl in Hsl'. destruct (in_all_slices _ _ _ Hsl') as (k & m & Hk & Hid & Heq & Hidx).
    assert (Hklt : (k < length (filter SendUnrelP.is_large kept))%nat) by (apply nth_error_Some; congruence).
    replace (N.to_nat (sl_id sl - su_sliced_id s)) with k by lia.
    rewrite (nth_error_nth _ _ _ Hk).
    destruct (in_filter_large _ _ (nth_error_In _ _ Hk)) as [Hin' Hlarge].
    split; [lia|]. split; [unfold len in Hsid; lia|].
    split; [eapply SendUnrelP.su_kept_in; exact Hin'|]. auto.
Qed.

Lemma gather_emits ord c avail c1 av pk :
  gather_rel ord c avail c1 av pk -> conn_inv c ->
  sr_static (c_sr c) (c_sr c1) /\
  Forall (fun p => is_rel_packet p = true -> emitted_rel (c_sr c) p) pk /\
  (exists f, su_step_ok f (c_su c) (c_su c1) pk).
Proof.
  induction 1 as [c avail|ch t c avail s s' pk seq' avail1 c2 avail2 pk2 Hs Eg Hrel IH
                         |ch t c avail s s' pk seq' avail1 c2 avail2 pk2 Hs Eg Hrel IH]; intros Hi.
  - split; [apply sr_static_refl|]. split; [constructor|]. exists (fun _ _ => []). apply su_step_ok_nil.
  - destruct (gather_step_rel c ch s avail s' pk seq' avail1 Hi Hs Eg) as (Hi' & _).
    destruct (inv_find_sr _ _ _ Hi Hs) as [Hsi Hch].
    destruct (SendRelP.sr_get_packets_facts _ _ _ _ _ _ _ _ Hsi Eg) as (new & T).
    destruct (IH Hi') as (S2 & P2 & f & U2).
    cbn [with_seq with_sr c_sr c_su] in *.
    assert (S1 : sr_static (c_sr c) (sm_insert ch s' (c_sr c))).
    { intros c0. rewrite sm_find_insert. destruct (N.eqb_spec c0 ch) as [->|Hne].
      - rewrite Hs. exists s'. split; [reflexivity|].
        split; [exact (SendRelP.tf_next _ _ _ _ _ _ _ _ T)|].
        split; [intros id; eapply SendRelP.tick_st; eauto|intros id p; eapply SendRelP.tick_packed; eauto].
      - destruct (sm_find c0 (c_sr c)) as [s0|]; [|reflexivity]. exists s0. auto. }
    assert (P1 : Forall (fun p => emitted_rel (c_sr c) p) pk).
    { eapply Forall_impl; [|exact (SendRelP.tf_pkts _ _ _ _ _ _ _ _ T)].
      intros p Hp. exists ch, s. split; [exact Hs|]. now rewrite <- Hch. }
    split; [eapply sr_static_trans; eauto|]. split.
    + apply Forall_app. split.
      * eapply Forall_impl; [|exact P1]. auto.
      * eapply Forall_impl; [|exact P2]. intros p Hp Hr. eapply emitted_rel_static; eauto.
    + exists f. apply su_step_ok_rel; [|apply su_step_ok_nil|exact U2].
      eapply Forall_impl; [|exact (SendRelP.tf_pkts _ _ _ _ _ _ _ _ T)]. intros p. apply pkt_ok_is_rel.
  - destruct (gather_step_unrel c ch s avail s' pk seq' avail1 Hi Hs Eg) as (Hi' & _).
    destruct (inv_find_su _ _ _ Hi Hs) as [Hsi Hch].
    destruct (su_turn_ok _ _ _ _ _ _ _ Hsi Eg) as (Hq & Hsid & Hch' & Hpc & Hsm & f1 & Hsl).
    rewrite Hch in Hpc.
    destruct (IH Hi') as (S2 & P2 & f2 & (U2a & U2b & U2c)).
    cbn [with_seq with_su c_sr c_su] in *.
    split; [exact S2|]. split.
    + apply Forall_app. split; [|exact P2].
      eapply Forall_impl; [|exact Hpc]. intros p Hp Hr. rewrite (unrel_pkt_not_rel _ _ Hp) in Hr. discriminate.
    + exists (fun c0 sid => if (c0 =? ch) && (sid <? su_sliced_id s') then f1 sid else f2 c0 sid).
      split; [|split].
      * intros c0. specialize (U2a c0). rewrite sm_find_insert in U2a.
        destruct (N.eqb_spec c0 ch) as [Heq|Hne]; [subst c0|].
        -- rewrite Hs. destruct U2a as (s2 & E2 & L2 & Q2). exists s2. split; [exact E2|]. split; [lia|].
           intros m Hm. apply Q2 in Hm. rewrite Hq in Hm. destruct Hm.
        -- exact U2a.
      * intros sq c0 ms Hin. apply in_app_or in Hin. destruct Hin as [Hin|Hin].
        -- rewrite Forall_forall in Hpc. pose proof (Hpc _ Hin) as Hc0. cbn [SendUnrelP.unrel_pkt_ch] in Hc0. subst c0.
           exists s. split; [exact Hs|eauto].
        -- destruct (U2b _ _ _ Hin) as (s1 & E1 & F1). rewrite sm_find_insert in E1.
           destruct (N.eqb_spec c0 ch) as [->|Hne].
           ++ injection E1 as <-. exists s. split; [exact Hs|]. rewrite Hq in F1.
              destruct ms as [|m ms]; [constructor|]. inversion F1 as [|? ? []].
           ++ eauto.
      * intros sq c0 sl Hin. apply in_app_or in Hin. destruct Hin as [Hin|Hin].
        -- rewrite Forall_forall in Hpc. pose proof (Hpc _ Hin) as Hc0. cbn [SendUnrelP.unrel_pkt_ch] in Hc0. subst c0.
           destruct (Hsl _ _ _ Hin) as (A1 & A2 & A3 & A4 & A5 & A6).
           specialize (U2a ch). rewrite sm_find_insert_same in U2a. destruct U2a as (s2 & E2 & L2 & _).
           exists s, s2. rewrite N.eqb_refl. destruct (N.ltb_spec (sl_id sl) (su_sliced_id s')); [|lia].
           cbn [andb]. split; [exact Hs|]. split; [exact E2|]. split; [exact A1|]. split; [lia|]. auto.
        -- destruct (U2c _ _ _ Hin) as (s1 & s2 & E1 & E2 & B1 & B2 & B3 & B4 & B5 & B6).
           rewrite sm_find_insert in E1. destruct (N.eqb_spec c0 ch) as [->|Hne].
           ++ injection E1 as <-. rewrite Hq in B3. destruct B3.
           ++ cbn [andb]. exists s1, s2. auto 10.
Qed.

(* ---------- the whole flush ---------- *)
Definition emit_ok (c : conn) (p : packet) : Prop :=
  match p with
  | Ack sq rs => rs = c_acks c /\ packet_wf p
  | _ => is_rel_packet p = true -> emitted_rel (c_sr c) p
  end.

Lemma flush_emits c c' bytes :
  conn_inv c -> is_disconnected c = false -> get_packets_to_send c = Ok (c', bytes) ->
  exists pk,
    Forall2 (fun p b => to_bytes SER_BUFFER p = Ok b) pk bytes /\
    Forall pkt_fits pk /\ Forall ConnEncP.varints_ok pk /\
    seqs_from (c_seq c) pk /\ c_seq c' = c_seq c + len pk /\
    (forall p, In p pk -> sm_find (packet_seq p) (c_sent c') = Some (c_now c, pkt_info p)) /\
    (forall k v, sm_find k (c_sent c') = Some v ->
       sm_find k (c_sent c) = Some v \/ exists p, In p pk /\ packet_seq p = k /\ v = (c_now c, pkt_info p)) /\
    sr_static (c_sr c) (c_sr c') /\
    (exists f, su_step_ok f (c_su c) (c_su c') pk) /\
    Forall (emit_ok c) pk /\
    c_rr c' = c_rr c /\ c_ru c' = c_ru c /\ c_acks c' = c_acks c /\ c_status c' = c_status c.
Proof.
  intros Hi Hd E.
  destruct (flush_shape c c' bytes Hi E)
    as [(Hd' & _)|(_ & c1 & av & pk & Hrel & -> & HF2 & Hfits & Hv & Hack)]; [congruence|].
  destruct (gather_facts _ _ _ _ _ _ Hrel Hi) as (Hi1 & Hseq & Hseqs & _ & Hfr & _ & Hpk).
  destruct Hfr as (Hnow & Hsent & Hacks & _ & Hrr & Hru & _ & Hst).
  destruct (gather_emits _ _ _ _ _ _ Hrel Hi) as (Hstat & Hem & f & Hsu).
  destruct (flush_state_frame c1 pk) as (G1 & G2 & G3 & G4 & G5 & G6 & _ & _ & G9).
  exists (flush_pkts c1 pk). split; [exact HF2|]. split; [exact Hfits|]. split; [exact Hv|].
  assert (Hseqs2 : seqs_from (c_seq c) (flush_pkts c1 pk)).
  { unfold flush_pkts. apply SMapSendP.seqs_from_app. split; [exact Hseqs|].
    destruct (c_acks c1); cbn [ack_part seqs_from packet_seq]; [exact I|]. split; [lia|exact I]. }
  split; [exact Hseqs2|].
  split.
  { unfold flush_state, flush_pkts. cbn [with_sent c_seq]. rewrite flush_c2_seq, len_app. lia. }
  split.
  { intros p Hp. unfold flush_state. cbn [with_sent c_sent]. rewrite Hnow, Hsent.
    apply rec_sent_find_new; [|exact Hp]. eapply seqs_from_nodup; eauto. }
  split.
  { intros k v Hf. unfold flush_state in Hf. cbn [with_sent c_sent] in Hf. rewrite Hnow, Hsent in Hf.
    now apply rec_sent_find_inv in Hf. }
  split; [rewrite G1; exact Hstat|].
  split.
  { exists f. rewrite G2. destruct Hsu as (A & B & C). unfold flush_pkts. split; [exact A|]. split.
    - intros sq ch ms Hin. apply in_app_or in Hin. destruct Hin as [Hin|Hin]; [eauto|].
      destruct (c_acks c1); cbn [ack_part] in Hin; [destruct Hin|]. destruct Hin as [Hin|[]]. discriminate.
    - intros sq ch sl Hin. apply in_app_or in Hin. destruct Hin as [Hin|Hin]; [eauto|].
      destruct (c_acks c1); cbn [ack_part] in Hin; [destruct Hin|]. destruct Hin as [Hin|[]]. discriminate. }
  split.
  { unfold flush_pkts. apply Forall_app. split.
    - rewrite Forall_forall in *. intros p Hp. destruct (Hpk p Hp) as (_ & Hna & _).
      destruct p; try discriminate; cbn [emit_ok]; apply Hem; exact Hp.
    - apply Forall_app in Hv. destruct Hv as [_ Hv]. apply Forall_app in Hack. destruct Hack as [_ Hack].
      rewrite Hacks in *. destruct (c_acks c) as [|ab t] eqn:Ea; cbn [ack_part] in *; constructor; [|constructor].
      inversion Hv as [|? ? Hv1 _]; subst. inversion Hack as [|? ? Ha1 _]; subst.
      cbn [ConnEncP.varints_ok ConnEncP.ack_ok emit_ok packet_wf] in *. rewrite Ea. tauto. }
  rewrite G3, G4, G6, G9. auto.
Qed.

(* ---------- an emitted packet decodes to itself or not at all ---------- *)
Lemma entry_size_ge2' (ms : list (N * list N)) : 2 * len ms <= sum (map rel_entry_size ms).
Proof. apply SendRelP.entry_size_ge2. Qed.

Lemma small_rel_count sq ch ms : pkt_fits (SmallReliable sq ch ms) -> len ms < 65536.
Proof.
  unfold pkt_fits. rewrite PacketP.enc_len_small_reliable, rel_msgs_size_entry.
  pose proof (entry_size_ge2' ms). pose proof NC_MAX_PAYLOAD_BYTES_value. lia.
Qed.

Lemma small_unrel_count sq ch ms : pkt_fits (SmallUnreliable sq ch ms) -> len ms < 65536.
Proof.
  unfold pkt_fits. rewrite PacketP.enc_len_small_unreliable, unrel_msgs_size_entry.
  pose proof (SendUnrelP.unrel_entry_ge1 ms). pose proof NC_MAX_PAYLOAD_BYTES_value. lia.
Qed.

(* the encoder on a slice packet whose varints are in range (num_slices may exceed the decoder's limit) *)
Lemma put_slice_enc' w s : ConnEncP.slice_vok s -> put_slice w s = put_bytes w (PacketP.enc_slice s).
Proof.
  intros (H1 & H2 & H3 & H4). unfold put_slice, PacketP.enc_slice.
  PacketP.wput. PacketP.wput. PacketP.wput. PacketP.wput. reflexivity.
Qed.

Lemma slice_to_bytes_enc cap (rel : bool) sq ch s b :
  sq <= VARINT_MAX -> ch < 256 -> ConnEncP.slice_vok s ->
  to_bytes cap (if rel then ReliableSlice sq ch s else UnreliableSlice sq ch s) = Ok b ->
  b = (if rel then 2 else 3) :: varint_bytes sq ++ [ch] ++ PacketP.enc_slice s.
Proof.
  intros H1 H2 H3 E. unfold to_bytes in E.
  assert (Hw : forall w, to_bytes_w w (if rel then ReliableSlice sq ch s else UnreliableSlice sq ch s) =
                 put_bytes w ((if rel then 2 else 3) :: varint_bytes sq ++ [ch] ++ PacketP.enc_slice s)).
  { intros w. destruct rel; unfold to_bytes_w.
    - change (2 :: varint_bytes sq ++ [ch] ++ PacketP.enc_slice s)
        with ([2] ++ varint_bytes sq ++ [ch] ++ PacketP.enc_slice s).
      PacketP.wput. PacketP.wput. PacketP.wput. now apply put_slice_enc'.
    - change (3 :: varint_bytes sq ++ [ch] ++ PacketP.enc_slice s)
        with ([3] ++ varint_bytes sq ++ [ch] ++ PacketP.enc_slice s).
      PacketP.wput. PacketP.wput. PacketP.wput. now apply put_slice_enc'. }
  rewrite Hw, VarintP.put_bytes_spec in E. cbn [w_cap w_out] in E.
  destruct (len _ <=? cap); cbn [bind] in E; [|discriminate].
  unfold VarintP.w_push in E. cbn [w_out app] in E. injection E as <-. reflexivity.
Qed.

Lemma big_slice_undecodable cap (rel : bool) sq ch s b :
  sq <= VARINT_MAX -> ch < 256 -> ConnEncP.slice_vok s -> MAX_NUM_SLICES < sl_num s ->
  to_bytes cap (if rel then ReliableSlice sq ch s else UnreliableSlice sq ch s) = Ok b ->
  exists e, from_bytes b = Err e.
Proof.
  intros H1 H2 H3 Hbig E. pose proof H3 as (V1 & V2 & V3 & V4).
  rewrite (slice_to_bytes_enc cap rel sq ch s b H1 H2 H3 E).
  exists InvalidNumSlices. unfold from_bytes, from_bytes_rest.
  assert (Hg : forall r, get_slice r (PacketP.enc_slice s) = Err InvalidNumSlices).
  { intros r. unfold get_slice, PacketP.enc_slice.
    rewrite VarintP.varint_roundtrip by exact V1. cbn [bind].
    rewrite VarintP.varint_roundtrip by exact V2. cbn [bind].
    rewrite VarintP.varint_roundtrip by exact V3. cbn [bind].
    destruct (N.ltb_spec MAX_NUM_SLICES (sl_num s)); [|lia]. rewrite orb_true_r. reflexivity. }
  destruct rel; cbn [get_u8 bind].
  - rewrite VarintP.varint_roundtrip by exact H1. cbn [bind app get_u8]. rewrite Hg. reflexivity.
  - rewrite VarintP.varint_roundtrip by exact H1. cbn [bind app get_u8]. rewrite Hg. reflexivity.
Qed.

(* ================================================================== *)
(* B. a finer specification of apply_ack *)

Lemma find_same_props s s' id :
  sm_find id (sr_unacked s') = sm_find id (sr_unacked s) ->
  kind_of s' id = kind_of s id /\ st_of (sr_unacked s') id = st_of (sr_unacked s) id /\
  forall idx, slice_acked s' id idx = slice_acked s id idx.
Proof. unfold kind_of, st_of, slice_acked. intros ->. auto. Qed.

Lemma find_none_props s id :
  sm_find id (sr_unacked s) = None ->
  kind_of s id = None /\ st_of (sr_unacked s) id = None /\ forall idx, slice_acked s id idx = None.
Proof. unfold kind_of, st_of, slice_acked. intros ->. auto. Qed.

Lemma kind_none_find s id : kind_of s id = None -> sm_find id (sr_unacked s) = None.
Proof. unfold kind_of. destruct (sm_find id (sr_unacked s)) as [[]|]; [discriminate|discriminate|reflexivity]. Qed.

(* which message (id) of channel ch an acknowledged record releases, and why that is legitimate *)
Definition released_by (s : send_rel) (ch id : N) (info : sent_info) : Prop :=
  match info with
  | SIReliableMessages c ids => c = ch /\ In id ids
  | SIReliableSlice c i idx =>
      c = ch /\ i = id /\ exists num, kind_of s id = Some (Some num) /\
        forall j, j < num -> j <> idx -> slice_acked s id j = Some true
  | _ => False
  end.

Definition sr_acked (sr sr' : list (N * send_rel)) (info : sent_info) : Prop :=
  forall ch, match sm_find ch sr with
   | None => sm_find ch sr' = None
   | Some s => exists s', sm_find ch sr' = Some s' /\ sr_next_id s' = sr_next_id s /\
       forall id,
         (sm_find id (sr_unacked s') = None \/ st_of (sr_unacked s') id = st_of (sr_unacked s) id) /\
         (kind_of s id <> None -> kind_of s' id = None -> released_by s ch id info) /\
         (forall idx, slice_acked s' id idx = Some true ->
                      slice_acked s id idx = Some true \/ info = SIReliableSlice ch id idx)
   end.

Lemma sr_acked_same sr info : sr_acked sr sr info.
Proof.
  intros ch. destruct (sm_find ch sr) as [s|]; [|reflexivity]. exists s. split; [reflexivity|]. split; [reflexivity|].
  intros id. split; [now right|]. split; [congruence|auto].
Qed.

Lemma sr_acked_insert sr ch s s' info :
  sm_find ch sr = Some s -> sr_next_id s' = sr_next_id s ->
  (forall id,
     (sm_find id (sr_unacked s') = None \/ st_of (sr_unacked s') id = st_of (sr_unacked s) id) /\
     (kind_of s id <> None -> kind_of s' id = None -> released_by s ch id info) /\
     (forall idx, slice_acked s' id idx = Some true ->
                  slice_acked s id idx = Some true \/ info = SIReliableSlice ch id idx)) ->
  sr_acked sr (sm_insert ch s' sr) info.
Proof.
  intros Hf Hn Hk c. rewrite sm_find_insert. destruct (N.eqb_spec c ch) as [->|Hne].
  - rewrite Hf. exists s'. auto.
  - destruct (sm_find c sr) as [s0|]; [|reflexivity]. exists s0. split; [reflexivity|]. split; [reflexivity|].
    intros id. split; [now right|]. split; [congruence|auto].
Qed.

Lemma ack_ids_fine now ids : forall s, sr_inv now s -> Forall (id_small_ok s) ids ->
  forall s', ack_ids s ids = Ok s' ->
  forall j, sm_find j (sr_unacked s') = None \/ sm_find j (sr_unacked s') = sm_find j (sr_unacked s).
Proof.
  induction ids as [|id t IH]; intros s Hs Hids s' E j; cbn [ack_ids] in E.
  - injection E as <-. now right.
  - inversion Hids as [|? ? [Hlt Hk] Ht]; subst.
    destruct (SendRelP.sr_ack_message_safe now s id Hs Hk) as (s1 & E1 & Hs1 & Hnone & Hother & _ & Hnext).
    rewrite E1 in E. cbn [bind] in E.
    assert (Hst : kind_stable s s1).
    { split; [lia|]. intros k _. destruct (N.eq_dec k id) as [->|Hne]; [now right|].
      left. apply kind_of_ext. now apply Hother. }
    assert (Ht1 : Forall (id_small_ok s1) t).
    { eapply Forall_impl; [|exact Ht]. intros k. now apply id_small_ok_stable. }
    destruct (IH s1 Hs1 Ht1 s' E j) as [H|H]; [now left|].
    destruct (N.eq_dec j id) as [->|Hne].
    + left. rewrite H. now apply kind_none_find.
    + right. rewrite H. now apply Hother.
Qed.

Lemma sr_ack_slice_static now s id idx s' :
  sr_inv now s -> sr_ack_slice s id idx = Ok s' ->
  sm_find id (sr_unacked s') = None \/ st_of (sr_unacked s') id = st_of (sr_unacked s) id.
Proof.
  intros Hinv. unfold sr_ack_slice, st_of.
  destruct (sm_find id (sr_unacked s)) as [[m l|m num na nx ak ls]|] eqn:E; [discriminate| |].
  - destruct (nth_opt ak (N.to_nat idx)) as [[|]|]; [| |discriminate].
    + intros [= <-]. right. now rewrite E.
    + destruct (na + 1 =? num).
      * destruct (sub_chk SITE_SEND_MEM_SUB (sr_mem s) (len m)) as [mem| |]; cbn [bind]; try discriminate.
        intros [= <-]. left. cbn [sr_set sr_unacked]. destruct Hinv as (H1 & _).
        now rewrite (SMapSendP.sm_find_remove_same _ _ _ H1).
      * intros [= <-]. right. cbn [sr_set sr_unacked]. rewrite sm_find_insert_same. reflexivity.
  - intros [= <-]. left. exact E.
Qed.

Lemma apply_ack_fine c seq t info :
  conn_inv c -> sm_find seq (c_sent c) = Some (t, info) ->
  exists c', apply_ack c seq = Ok c' /\ conn_inv c' /\
    c_sent c' = sm_remove seq (c_sent c) /\ sr_acked (c_sr c) (c_sr c') info.
Proof.
  intros Hi Hf.
  destruct (apply_ack_spec c seq t info Hi Hf) as (c' & E & Hi' & _ & Hsent & _ & _).
  exists c'. split; [exact E|]. split; [exact Hi'|]. split; [exact Hsent|].
  unfold apply_ack in E. rewrite Hf in E.
  destruct (inv_find_sent _ _ _ _ Hi Hf) as (_ & _ & Hinfo).
  set (c1 := with_sent c (sm_remove seq (c_sent c))) in *.
  destruct info as [|ch ids|ch id idx|largest].
  - injection E as <-. apply sr_acked_same.
  - cbn [sent_info_ok] in Hinfo. destruct Hinfo as (s & Hs & Hids).
    change (c_sr c1) with (c_sr c) in E. rewrite Hs in E.
    destruct (inv_find_sr _ _ _ Hi Hs) as [Hsi Hch].
    destruct (ack_ids_safe _ ids s Hsi Hids) as (s' & E' & Hs' & Hn' & Hc' & Ho' & Hk').
    rewrite E' in E. cbn [lift bind] in E. injection E as <-. cbn [with_sr c_sr].
    apply (sr_acked_insert _ _ s); auto.
    intros id. destruct (ack_ids_fine _ ids s Hsi Hids s' E' id) as [Hnone|Hsame].
    + destruct (find_none_props _ _ Hnone) as (K1 & K2 & K3).
      split; [now left|]. split.
      * intros Hk _. cbn [released_by]. split; [reflexivity|].
        destruct (in_dec N.eq_dec id ids) as [Hin|Hnin]; [exact Hin|].
        exfalso. apply Hk. rewrite <- K1. symmetry. apply kind_of_ext. now apply Ho'.
      * intros idx. rewrite K3. discriminate.
    + destruct (find_same_props _ _ _ Hsame) as (K1 & K2 & K3).
      split; [now right|]. split; [congruence|]. intros idx. rewrite K3. auto.
  - cbn [sent_info_ok] in Hinfo. destruct Hinfo as (s & Hs & Hlt' & Hk).
    change (c_sr c1) with (c_sr c) in E. rewrite Hs in E.
    destruct (inv_find_sr _ _ _ Hi Hs) as [Hsi Hch].
    destruct (SendRelP.sr_ack_slice_safe _ s id idx Hsi Hk) as (s' & E' & Hs' & Hn' & Ho' & Hcases).
    rewrite E' in E. cbn [lift bind] in E. injection E as <-. cbn [with_sr c_sr].
    apply (sr_acked_insert _ _ s); auto.
    intros j. destruct (N.eq_dec j id) as [->|Hne].
    + split; [eapply sr_ack_slice_static; eauto|].
      destruct Hcases as [[_ ->]|[P|P]].
      * split; [congruence|auto].
      * destruct P as (P1 & _ & P3 & P4 & P5 & _). split; [congruence|].
        intros i Hi0. destruct (N.eq_dec i idx) as [->|Hni]; [now right|]. left. now rewrite <- P5.
      * destruct P as (P1 & P2 & P3 & _). split.
        -- intros Hkn _. cbn [released_by]. split; [reflexivity|]. split; [reflexivity|].
           destruct Hk as [Hk|(num & Hk & Hidx)]; [contradiction|].
           exists num. split; [exact Hk|]. intros i Hi0 Hni. eapply P2; eauto.
        -- intros i. unfold slice_acked. rewrite (kind_none_find _ _ P3). discriminate.
    + destruct (find_same_props _ _ _ (Ho' j Hne)) as (K1 & K2 & K3).
      split; [now right|]. split; [congruence|]. intros i. rewrite K3. auto.
  - injection E as <-. cbn [with_acks c_sr]. apply sr_acked_same.
Qed.

(* ================================================================== *)
(* C. process_packet on bytes whose decoding, if any, is well formed *)

Lemma process_parsed_channels c p c' :
  conn_inv c -> packet_wf p -> process_parsed c p = Ok c' -> same_channels c c'.
Proof.
  intros Hi Hwf E. destruct (is_ack p) eqn:Ha; [|now apply (process_data_channels c p)].
  destruct p; try discriminate.
  destruct (process_ack_spec c seq ranges Hi (packet_wf_ack_ranges _ _ Hwf))
    as (c2 & l & E2 & _ & Hfr & _ & _ & _ & Hrel).
  rewrite E2 in E. injection E as <-.
  destruct Hfr as (_ & _ & _ & F1 & F2 & F3 & _).
  intros ch. rewrite F1, F2, F3. split; [|auto]. eapply srs_released_mem; eauto.
Qed.

Lemma process_packet_wf_safe c bytes :
  conn_inv c -> (forall p, from_bytes bytes = Ok p -> packet_wf p) ->
  exists c', process_packet c bytes = Ok c' /\ conn_inv c' /\ same_channels c c'.
Proof.
  intros Hi Hb.
  destruct (process_packet_cases c bytes) as [(_ & E)|[(_ & e & _ & E)|(_ & p & Hp & E)]]; rewrite E.
  - exists c. split; [reflexivity|]. split; [exact Hi|apply same_channels_refl].
  - eexists; split; [reflexivity|]. split; [now apply inv_disconnect_with|apply sc_disconnect_with].
  - pose proof (Hb p Hp) as Hwf.
    set (c1 := with_acks c (add_pending_ack (c_acks c) (packet_seq p))) in *.
    assert (Hi1 : conn_inv c1) by (apply inv_add_pending_ack; [exact Hi|now apply packet_wf_seq]).
    destruct (process_parsed_total c1 p Hi1 Hwf) as (c' & E' & Hi').
    exists c'. split; [exact E'|]. split; [exact Hi'|].
    assert (H1 : same_channels c c1) by (intros ch; auto).
    eapply same_channels_trans; [exact H1|]. eapply process_parsed_channels; eauto.
Qed.

(* an API call that succeeded named existing channels, or the connection was already dead *)
Lemma cstep_ok_cop_ok c o c' out : cstep c o = Ok (c', out) -> cop_ok c o \/ c' = c.
Proof.
  intros H. destruct o as [ch m|ch|dt|b| | | | |]; cbn [cop_ok]; auto; cbn [cstep] in H.
  - destruct (is_disconnected c) eqn:Hd.
    + right. rewrite DisconnectP.send_message_disconnected_noop in H by exact Hd. cbn [bind] in H. congruence.
    + left. unfold send_message in H. rewrite Hd in H. unfold has_send_channel, sm_mem.
      destruct (sm_find ch (c_sr c)); [reflexivity|]. destruct (sm_find ch (c_su c)); [reflexivity|discriminate].
  - destruct (is_disconnected c) eqn:Hd.
    + right. rewrite DisconnectP.receive_message_disconnected_noop in H by exact Hd. cbn [bind] in H. congruence.
    + left. unfold receive_message in H. rewrite Hd in H. unfold has_recv_channel, sm_mem.
      destruct (sm_find ch (c_rr c)); [reflexivity|]. destruct (sm_find ch (c_ru c)); [reflexivity|discriminate].
Qed.

Lemma cstep_api_safe c o c' out :
  conn_inv c -> is_process o = false -> cstep c o = Ok (c', out) -> conn_inv c' /\ same_channels c c'.
Proof.
  intros Hi Hnp E.
  assert (Hb : forall b, o = CProcess b -> bytes_ok b) by (intros b ->; discriminate).
  split; [|eapply cstep_channels; eauto].
  destruct (cstep_ok_cop_ok _ _ _ _ E) as [Hok| ->]; [|exact Hi].
  pose proof (cstep_safe c o Hi Hok Hb) as H. rewrite E in H. exact H.
Qed.
