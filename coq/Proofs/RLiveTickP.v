(* RLiveTickP.v - what one good tick (Spec/RLiveSpec.v) does to the direction A -> B:
   whatever A transmits reaches B, is acknowledged by B's Ack packet of the same tick, and is
   released by A when that Ack packet arrives; B's application has taken everything available. *)
From RenetV Require Import Base Consts Varint Packet Channels Conn Server.
From RenetV Require Import CodecSpec RecvSpec SendSpec ConnSpec ConnInvSpec RSysSpec RSysInvSpec RLiveSpec.
From RenetV Require Import SMapP ConnBaseP ConnProcP ConnFlushP ConnP RSysBaseP RSysStepP RSysInvP RSysP RLiveBaseP RLiveInvP.
From RenetV Require AcksP VarintP PacketP RecvRelP RecvUnrelP SMapSendP SendRelP SendUnrelP DisconnectP ConnEncP SliceP.
Require Import Lia ZifyBool ZifyN ZifyNat Permutation.
Open Scope N_scope.

Arguments N.add : simpl never.
Arguments N.sub : simpl never.
Arguments N.mul : simpl never.
Arguments N.div : simpl never.
Arguments N.modulo : simpl never.
Arguments N.eqb : simpl never.
Arguments N.ltb : simpl never.
Arguments N.leb : simpl never.
Local Opaque SLICE_SIZE MAX_ACK_RANGES SER_BUFFER NC_MAX_PAYLOAD_BYTES DISCARD_PACKET_SECS VARINT_MAX MAX_NUM_SLICES.

Import SendRelP(st_of, static_of, pkt_ok, entry_ok, packed, part_acked).

(* ================================================================== *)
(* 1. acknowledging releases: the "if" direction of apply_ack *)

Lemma packed_none_kind s id : packed s id None = Some false <-> kind_of s id = Some None.
Proof.
  unfold packed, kind_of. destruct (sm_find id (sr_unacked s)) as [[]|]; cbn [part_acked]; split; intros; congruence.
Qed.

Lemma kind_none_packed s id p : kind_of s id = None -> packed s id p = None.
Proof. intros H. unfold packed. now rewrite (kind_none_find _ _ H). Qed.

Lemma packed_same_find s s' id p : sm_find id (sr_unacked s') = sm_find id (sr_unacked s) -> packed s' id p = packed s id p.
Proof. unfold packed. now intros ->. Qed.

Lemma packed_small_kind s id p : kind_of s id = Some None -> packed s id p = Some false -> p = None.
Proof.
  unfold packed, kind_of. destruct (sm_find id (sr_unacked s)) as [[]|]; try discriminate.
  destruct p; cbn [part_acked]; [discriminate|reflexivity].
Qed.

Lemma packed_sliced_kind s id p n : kind_of s id = Some (Some n) -> packed s id p = Some false -> exists i, p = Some i.
Proof.
  unfold packed, kind_of. destruct (sm_find id (sr_unacked s)) as [[]|]; try discriminate.
  destruct p; cbn [part_acked]; [eauto|discriminate].
Qed.

Lemma sr_ack_slice_pend now s id idx s' :
  sr_inv now s -> id_slice_ok s id idx -> sr_ack_slice s id idx = Ok s' ->
  (forall j p, packed s' j p = Some false -> packed s j p = Some false) /\
  packed s' id (Some idx) <> Some false.
Proof.
  intros Hinv [_ Hk] E.
  destruct (SendRelP.sr_ack_slice_safe now s id idx Hinv Hk) as (s1 & E1 & _ & _ & Ho & Hc).
  rewrite E in E1. injection E1 as <-.
  assert (Hoth : forall j p, j <> id -> packed s' j p = packed s j p)
    by (intros j p Hj; apply packed_same_find; now apply Ho).
  destruct Hc as [[Hn ->]|[P|P]].
  - split; [auto|]. destruct Hn as [Hn|Hn].
    + rewrite (kind_none_packed _ _ _ Hn). discriminate.
    + rewrite <- SendRelP.slice_acked_packed, Hn. discriminate.
  - destruct P as (P1 & _ & P3 & P4 & P5 & _). split.
    + intros j p Hp. destruct (N.eq_dec j id) as [->|Hj]; [|now rewrite <- Hoth].
      destruct p as [i|].
      * rewrite <- SendRelP.slice_acked_packed in *. destruct (N.eq_dec i idx) as [->|Hi]; [congruence|].
        now rewrite <- P5.
      * apply packed_none_kind in Hp. apply packed_none_kind. congruence.
    + rewrite <- SendRelP.slice_acked_packed, P4. discriminate.
  - destruct P as (_ & _ & P3 & _). split.
    + intros j p Hp. destruct (N.eq_dec j id) as [->|Hj]; [|now rewrite <- Hoth].
      rewrite (kind_none_packed _ _ _ P3) in Hp. discriminate.
    + rewrite (kind_none_packed _ _ _ P3). discriminate.
Qed.

Lemma ack_ids_pend now ids : forall s s', sr_inv now s -> Forall (id_small_ok s) ids -> ack_ids s ids = Ok s' ->
  (forall j p, packed s' j p = Some false -> packed s j p = Some false) /\
  (forall id p, In id ids -> packed s' id p <> Some false).
Proof.
  induction ids as [|id t IH]; intros s s' Hs Hids E; cbn [ack_ids] in E.
  - injection E as <-. split; [auto|intros id p []].
  - inversion Hids as [|? ? [Hlt Hk] Ht]; subst.
    destruct (SendRelP.sr_ack_message_safe now s id Hs Hk) as (s1 & E1 & Hs1 & Hnone & Hother & _ & Hnext).
    rewrite E1 in E. cbn [bind] in E.
    assert (Hst : kind_stable s s1).
    { split; [lia|]. intros k _. destruct (N.eq_dec k id) as [->|Hne]; [now right|].
      left. apply kind_of_ext. now apply Hother. }
    assert (Ht1 : Forall (id_small_ok s1) t).
    { eapply Forall_impl; [|exact Ht]. intros k. now apply id_small_ok_stable. }
    destruct (IH s1 s' Hs1 Ht1 E) as [M F].
    assert (M1 : forall j p, packed s1 j p = Some false -> packed s j p = Some false).
    { intros j p Hp. destruct (N.eq_dec j id) as [->|Hne].
      - rewrite (kind_none_packed _ _ _ Hnone) in Hp. discriminate.
      - rewrite <- Hp. symmetry. apply packed_same_find. now apply Hother. }
    split; [auto|].
    intros k p [<-|Hin]; [|now apply F].
    intros Hp. apply M in Hp. rewrite (kind_none_packed _ _ _ Hnone) in Hp. discriminate.
Qed.

(* the parts a sent-packet record lists *)
Definition info_parts (info : sent_info) : list cpart :=
  match info with
  | SIReliableMessages ch ids => map (fun id => (ch, (id, None))) ids
  | SIReliableSlice ch id idx => [(ch, (id, Some idx))]
  | _ => []
  end.

Lemma pend_with_sr c ch s s' x :
  sm_find ch (c_sr c) = Some s ->
  (forall j p, packed s' j p = Some false -> packed s j p = Some false) ->
  pend (with_sr c (sm_insert ch s' (c_sr c))) x -> pend c x.
Proof.
  intros Hs M. destruct x as [c0 [id p]]. cbn [pend with_sr c_sr]. intros (s0 & Hf & Hp).
  rewrite sm_find_insert in Hf. destruct (N.eqb_spec c0 ch) as [->|Hne]; [|eauto].
  injection Hf as <-. eauto.
Qed.

Lemma apply_ack_pend c x t info c' :
  conn_inv c -> sm_find x (c_sent c) = Some (t, info) -> apply_ack c x = Ok c' ->
  (forall y, pend c' y -> pend c y) /\ (forall y, In y (info_parts info) -> ~ pend c' y).
Proof.
  intros Hi Hf E. unfold apply_ack in E. rewrite Hf in E.
  destruct (inv_find_sent _ _ _ _ Hi Hf) as (_ & _ & Hinfo).
  set (c1 := with_sent c (sm_remove x (c_sent c))) in *.
  destruct info as [|ch ids|ch id idx|largest]; cbn [info_parts].
  - injection E as <-. split; [auto|intros y []].
  - cbn [sent_info_ok] in Hinfo. destruct Hinfo as (s & Hs & Hids).
    change (c_sr c1) with (c_sr c) in E. rewrite Hs in E.
    destruct (inv_find_sr _ _ _ Hi Hs) as [Hsi _].
    destruct (ack_ids s ids) as [s'| |] eqn:Ea; cbn [lift bind] in E; try discriminate. injection E as <-.
    destruct (ack_ids_pend _ ids s s' Hsi Hids Ea) as [M F]. split.
    + intros y Hy. apply (pend_with_sr c1 ch s s' y Hs M) in Hy. exact Hy.
    + intros y Hy. apply in_map_iff in Hy. destruct Hy as (id & <- & Hin).
      cbn [pend with_sr c_sr]. intros (s0 & Hf0 & Hp). rewrite sm_find_insert_same in Hf0. injection Hf0 as <-.
      exact (F id None Hin Hp).
  - cbn [sent_info_ok] in Hinfo. destruct Hinfo as (s & Hs & Hok).
    change (c_sr c1) with (c_sr c) in E. rewrite Hs in E.
    destruct (inv_find_sr _ _ _ Hi Hs) as [Hsi _].
    destruct (sr_ack_slice s id idx) as [s'| |] eqn:Ea; cbn [lift bind] in E; try discriminate. injection E as <-.
    destruct (sr_ack_slice_pend _ s id idx s' Hsi Hok Ea) as [M F]. split.
    + intros y Hy. apply (pend_with_sr c1 ch s s' y Hs M) in Hy. exact Hy.
    + intros y [<-|[]]. cbn [pend with_sr c_sr]. intros (s0 & Hf0 & Hp).
      rewrite sm_find_insert_same in Hf0. injection Hf0 as <-. exact (F Hp).
  - injection E as <-. split; [auto|intros y []].
Qed.

Lemma apply_acks_pend seqs : forall c c', conn_inv c -> NoDup seqs ->
  Forall (fun s => sm_mem s (c_sent c) = true) seqs -> apply_acks c seqs = Ok c' ->
  (forall y, pend c' y -> pend c y) /\
  (forall x t info y, In x seqs -> sm_find x (c_sent c) = Some (t, info) -> In y (info_parts info) -> ~ pend c' y).
Proof.
  induction seqs as [|seq t IH]; intros c c' Hi Hnd Hmem E; cbn [apply_acks] in E.
  - injection E as <-. split; [auto|intros x t info y []].
  - inversion Hnd as [|? ? Hnotin Hnd']; subst. inversion Hmem as [|? ? Hm Hmem']; subst.
    destruct (sm_mem_find _ _ Hm) as ([t0 info0] & Hf).
    destruct (apply_ack_fine c seq t0 info0 Hi Hf) as (c1 & E1 & Hi1 & Hsent1 & _).
    rewrite E1 in E. cbn [bind] in E.
    destruct (apply_ack_pend c seq t0 info0 c1 Hi Hf E1) as [M1 F1].
    pose proof (ci_sent_sorted c Hi) as Hsorted.
    assert (Hmem1 : Forall (fun s => sm_mem s (c_sent c1) = true) t).
    { rewrite Hsent1. rewrite Forall_forall in *. intros k Hk.
      rewrite sm_mem_remove by exact Hsorted. rewrite (Hmem' k Hk).
      destruct (N.eqb_spec k seq) as [->|]; [contradiction|reflexivity]. }
    destruct (IH c1 c' Hi1 Hnd' Hmem1 E) as [M F]. split; [auto|].
    intros x tx info y [<-|Hin] Hfx Hy.
    + rewrite Hf in Hfx. injection Hfx as <- <-. intros Hp. apply M in Hp. exact (F1 y Hy Hp).
    + apply (F x tx info y Hin); [|exact Hy]. rewrite Hsent1.
      rewrite sm_find_remove_other; [exact Hfx|]. intros ->. contradiction.
Qed.

(* an Ack packet releases every tracked packet whose sequence number it lists *)
Lemma process_ack_pend c sq rs c' :
  conn_inv c -> ranges_wf 0 rs -> process_parsed c (Ack sq rs) = Ok c' ->
  (forall y, pend c' y -> pend c y) /\
  (forall x t info y, in_ranges x rs -> sm_find x (c_sent c) = Some (t, info) -> In y (info_parts info) -> ~ pend c' y).
Proof.
  intros Hi Hwf E. cbn [process_parsed] in E.
  pose proof (ci_sent_sorted c Hi) as Hsorted.
  destruct (collect_new_acks_spec (c_sent c) (asc_NoDup _ Hsorted) rs 0 Hwf) as (l & El & Hnd & Hin).
  rewrite El in E. cbn [bind] in E.
  assert (Hmem : Forall (fun s => sm_mem s (c_sent c) = true) l).
  { rewrite Forall_forall. intros x Hx. apply sm_mem_in. now apply Hin. }
  destruct (apply_acks_pend l c c' Hi Hnd Hmem E) as [M F]. split; [exact M|].
  intros x t info y Hx Hf Hy. apply (F x t info y); auto. apply Hin. split; [|exact Hx].
  apply sm_mem_in. eapply sm_find_some_mem. exact Hf.
Qed.

(* ================================================================== *)
(* 2. the receiver's pending acknowledgements while a run of fresh packets arrives *)

Lemma apply_ack_acks c x t info c' :
  sm_find x (c_sent c) = Some (t, info) -> apply_ack c x = Ok c' ->
  c_acks c' = match info with SIAck lg => acked_largest (c_acks c) lg | _ => c_acks c end.
Proof.
  intros Hf E. unfold apply_ack in E. rewrite Hf in E. destruct info as [|ch ids|ch id idx|lg].
  - now injection E as <-.
  - cbn [with_sent c_sr] in E. destruct (sm_find ch (c_sr c)); [|discriminate].
    destruct (lift (ack_ids s ids)); cbn [bind] in E; try discriminate. now injection E as <-.
  - cbn [with_sent c_sr] in E. destruct (sm_find ch (c_sr c)); [|discriminate].
    destruct (lift (sr_ack_slice s id idx)); cbn [bind] in E; try discriminate. now injection E as <-.
  - now injection E as <-.
Qed.

Lemma acked_largest_ends_with : forall pre lo0 a lo hi lg,
  ranges_wf lo0 (pre ++ [(a, hi)]) -> a <= lo -> lo < hi -> lg < lo ->
  ends_with (acked_largest (pre ++ [(a, hi)]) lg) lo hi.
Proof.
  induction pre as [|[a' b'] t IH]; intros lo0 a lo hi lg Hwf Ha Hlo Hlg; cbn [app acked_largest].
  - destruct (N.ltb_spec lg a); [exists [], a; split; [reflexivity|lia]|].
    destruct (N.leb_spec hi lg); [lia|]. destruct (N.leb_spec hi (lg + 1)); [lia|].
    exists [], (lg + 1). split; [reflexivity|lia].
  - cbn [app ranges_wf] in Hwf. destruct Hwf as (H1 & H2 & H3).
    destruct (N.ltb_spec lg a'); [exists ((a', b') :: t), a; split; [reflexivity|lia]|].
    destruct (N.leb_spec b' lg); [eapply IH; eauto|].
    destruct (N.leb_spec b' (lg + 1)); [exists t, a; split; [reflexivity|lia]|].
    exists ((lg + 1, b') :: t), a. split; [reflexivity|lia].
Qed.

Lemma ends_with_pruned l lo hi lg : ranges_wf 0 l -> ends_with l lo hi -> lg < lo -> ends_with (acked_largest l lg) lo hi.
Proof. intros Hwf (pre & a & -> & Ha & Hlo) Hlg. eapply acked_largest_ends_with; eauto. Qed.

Definition ackrecs_below (recs : list (N * (N * sent_info))) (lo : N) : Prop :=
  forall k t lg, sm_find k recs = Some (t, SIAck lg) -> lg < lo.

Lemma apply_acks_ends lo hi seqs : forall c c', conn_inv c -> NoDup seqs ->
  Forall (fun s => sm_mem s (c_sent c) = true) seqs -> apply_acks c seqs = Ok c' ->
  ackrecs_below (c_sent c) lo -> ends_with (c_acks c) lo hi -> ends_with (c_acks c') lo hi.
Proof.
  induction seqs as [|seq t IH]; intros c c' Hi Hnd Hmem E Hb He; cbn [apply_acks] in E.
  - injection E as <-. exact He.
  - inversion Hnd as [|? ? Hnotin Hnd']; subst. inversion Hmem as [|? ? Hm Hmem']; subst.
    destruct (sm_mem_find _ _ Hm) as ([t0 info0] & Hf).
    destruct (apply_ack_fine c seq t0 info0 Hi Hf) as (c1 & E1 & Hi1 & Hsent1 & _).
    rewrite E1 in E. cbn [bind] in E.
    pose proof (ci_sent_sorted c Hi) as Hsorted.
    assert (Hmem1 : Forall (fun s => sm_mem s (c_sent c1) = true) t).
    { rewrite Hsent1. rewrite Forall_forall in *. intros k Hk.
      rewrite sm_mem_remove by exact Hsorted. rewrite (Hmem' k Hk).
      destruct (N.eqb_spec k seq) as [->|]; [contradiction|reflexivity]. }
    apply (IH c1 c' Hi1 Hnd' Hmem1 E).
    + intros k tk lg Hk. rewrite Hsent1 in Hk. apply (sm_find_remove_some _ _ _ _ Hsorted) in Hk. destruct Hk as [_ Hk]. eauto.
    + rewrite (apply_ack_acks c seq t0 info0 c1 Hf E1). destruct info0; auto.
      apply ends_with_pruned; [exact (ci_acks_wf c Hi)|exact He|eauto].
Qed.

(* the state of the pending acks after the packets lo, ..., hi-1 have arrived *)
Definition acks_upto (acks : list (N * N)) (lo hi : N) : Prop :=
  (hi = lo /\ forall x, in_ranges x acks -> x < lo) \/ (lo < hi /\ ends_with acks lo hi).

(* the (live) receiver processes the packet with sequence number hi *)
Lemma process_fresh_packet c bytes p c' lo hi :
  conn_inv c -> is_disconnected c = false -> from_bytes bytes = Ok p -> packet_wf p ->
  process_packet c bytes = Ok c' -> packet_seq p = hi ->
  ackrecs_below (c_sent c) lo -> acks_upto (c_acks c) lo hi ->
  conn_inv c' /\ ackrecs_below (c_sent c') lo /\ acks_upto (c_acks c') lo (hi + 1).
Proof.
  intros Hi Hd Hp Hwf E Hseq Hb Hu.
  destruct (process_packet_cases c bytes) as [(Hd' & _)|[(_ & e & He & _)|(_ & p0 & Hp0 & E0)]]; try congruence.
  rewrite Hp in Hp0. injection Hp0 as <-. rewrite E0 in E. clear E0. rewrite Hseq in E.
  set (c1 := with_acks c (add_pending_ack (c_acks c) hi)) in *.
  assert (Hi1 : conn_inv c1) by (apply inv_add_pending_ack; [exact Hi|rewrite <- Hseq; now apply packet_wf_seq]).
  assert (He1 : ends_with (c_acks c1) lo (hi + 1)).
  { cbn [c1 with_acks c_acks]. destruct Hu as [[-> Hlt]|[Hlt He]].
    - apply add_ack_fresh; [exact (ci_acks_wf c Hi)|exact Hlt].
    - apply add_ack_extend; [exact (ci_acks_wf c Hi)|exact He]. }
  assert (Hlo : lo < hi + 1) by (destruct Hu as [[-> _]|[Hlt _]]; lia).
  destruct (is_ack p) eqn:Ha.
  - destruct p as [| | | |sq rs]; try discriminate.
    pose proof E as E2. cbn [process_parsed] in E2.
    pose proof (ci_sent_sorted c1 Hi1) as Hsorted.
    destruct (collect_new_acks_spec (c_sent c1) (asc_NoDup _ Hsorted) rs 0 (packet_wf_ack_ranges _ _ Hwf)) as (l & El & Hnd & Hin).
    rewrite El in E2. cbn [bind] in E2.
    assert (Hmem : Forall (fun s => sm_mem s (c_sent c1) = true) l).
    { rewrite Forall_forall. intros x Hx. apply sm_mem_in. now apply Hin. }
    destruct (apply_acks_spec l c1 Hi1 Hnd Hmem) as (c2 & E' & Hi' & _ & Hs & _).
    rewrite E2 in E'. injection E' as <-.
    split; [exact Hi'|]. split.
    + intros k t lg Hk. apply Hs in Hk. eauto.
    + right. split; [exact Hlo|]. eapply (apply_acks_ends lo (hi + 1) l c1 c'); eauto.
  - destruct (process_data_spec c1 p Hi1 Hwf Ha) as (c2 & E2 & Hi2 & Hfr).
    rewrite E in E2. injection E2 as <-.
    destruct Hfr as (_ & _ & _ & _ & _ & F6 & F7 & _).
    split; [exact Hi2|]. split; [rewrite F6; exact Hb|]. right. split; [exact Hlo|]. rewrite F7. exact He1.
Qed.

(* ================================================================== *)
(* 3. what one flush transmits *)

(* the parts (channel, message id, part) a packet / a list of packets carries *)
Definition pkt_parts (p : packet) : list cpart := info_parts (pkt_info p).
Definition cparts (pk : list packet) : list cpart := flat_map pkt_parts pk.

Lemma cparts_app p q : cparts (p ++ q) = cparts p ++ cparts q.
Proof. unfold cparts. apply flat_map_app. Qed.

Lemma cparts_rel ch st pk : Forall (pkt_ok ch st) pk -> cparts pk = map (pair ch) (parts_of pk).
Proof.
  induction 1 as [|p t Hp _ IH]; [reflexivity|].
  change (cparts (p :: t)) with (pkt_parts p ++ cparts t). rewrite IH.
  destruct p as [sq c ms|sq c ms|sq c sl|sq c sl|sq rs]; cbn [pkt_ok] in Hp; try contradiction;
    destruct Hp as [-> _]; cbn [parts_of pkt_parts pkt_info info_parts].
  - rewrite map_app, !map_map. reflexivity.
  - reflexivity.
Qed.

Lemma cparts_unrel ch pk : Forall (SendUnrelP.unrel_pkt_ch ch) pk -> cparts pk = [].
Proof.
  induction 1 as [|p t Hp _ IH]; [reflexivity|].
  change (cparts (p :: t)) with (pkt_parts p ++ cparts t). rewrite IH.
  destruct p; cbn [SendUnrelP.unrel_pkt_ch] in Hp; try contradiction; reflexivity.
Qed.

(* everything pending on channel ch is due *)
Definition all_due (c : conn) (ch : N) : Prop :=
  forall s id p l, sm_find ch (c_sr c) = Some s -> SendRelP.plast s id p = Some l ->
                   is_due (c_now c) (sr_resend s) l.

Lemma packed_plast now s id p b : sr_inv now s -> packed s id p = Some b -> exists l, SendRelP.plast s id p = Some l.
Proof.
  intros Hinv. unfold packed, SendRelP.plast. destruct (sm_find id (sr_unacked s)) as [u|] eqn:E; [|discriminate].
  destruct (SendRelP.sr_inv_find _ _ _ _ Hinv E) as (_ & Hwf & _).
  destruct u as [m l|m num na nx ak ls]; destruct p as [i|]; cbn [part_acked SendRelP.part_last]; try discriminate; eauto.
  destruct Hwf as (_ & _ & W3 & W4 & _). intros H. apply SMapSendP.nth_opt_some_lt in H.
  apply SMapSendP.nth_opt_lt. lia.
Qed.

(* each transmitted part carries at most SLICE_SIZE bytes *)
Lemma payload_le_parts now ch s pk :
  sr_inv now s -> Forall (pkt_ok ch (st_of (sr_unacked s))) pk ->
  payload_total pk <= SLICE_SIZE * len (parts_of pk).
Proof.
  intros Hinv. induction 1 as [|p t Hp _ IH].
  - unfold payload_total. cbn [map parts_of]. rewrite SMapP.sum_nil. lia.
  - change (payload_total (p :: t)) with (sum (payload_bytes p :: map payload_bytes t)).
    rewrite SMapP.sum_cons. fold (payload_total t).
    destruct p as [sq c ms|sq c ms|sq c sl|sq c sl|sq rs]; cbn [pkt_ok] in Hp; try contradiction;
      cbn [parts_of payload_bytes].
    + destruct Hp as [_ He]. rewrite AcksP.len_app, SMapSendP.len_map.
      assert (Hs : sum (map (fun im : N * list N => len (snd im)) ms) <= SLICE_SIZE * len ms).
      { clear IH. induction He as [|im ms' Him _ IHe]; cbn [map].
        - rewrite SMapP.sum_nil. lia.
        - rewrite SMapP.sum_cons, AcksP.len_cons.
          unfold entry_ok, st_of in Him. destruct (sm_find (fst im) (sr_unacked s)) as [u|] eqn:Eu; [|discriminate].
          destruct (SendRelP.sr_inv_find _ _ _ _ Hinv Eu) as (_ & Hwf & _).
          destruct u as [m l|]; cbn [static_of] in Him; [|discriminate]. injection Him as <-.
          destruct Hwf as [Hl _]. lia. }
      lia.
    + destruct Hp as [_ (m & num & Hst & Hsl & Hidx)]. rewrite AcksP.len_cons.
      unfold st_of in Hst. destruct (sm_find (sl_id sl) (sr_unacked s)) as [u|] eqn:Eu; [|discriminate].
      destruct (SendRelP.sr_inv_find _ _ _ _ Hinv Eu) as (_ & Hwf & _).
      destruct u as [|m0 num0 na nx ak ls]; cbn [static_of] in Hst; [discriminate|]. injection Hst as -> ->.
      destruct Hwf as (W1 & W2 & _). subst num. rewrite Hsl. cbn [slice_of sl_payload].
      pose proof (SMapSendP.plen_bounds m (sl_index sl) ltac:(lia) Hidx) as Hb. unfold SMapSendP.plen in Hb. lia.
Qed.

Lemma su_left_ge avail q : avail <= SendUnrelP.su_left avail q + sum (map len q).
Proof.
  revert avail. induction q as [|m t IH]; intros avail; cbn [SendUnrelP.su_left map].
  - rewrite SMapP.sum_nil. lia.
  - rewrite SMapP.sum_cons. destruct (N.ltb_spec avail (len m)).
    + specialize (IH avail). lia.
    + specialize (IH (avail - len m)). lia.
Qed.

Lemma chan_bytes_rel c ch s : sm_find ch (c_sr c) = Some s -> chan_bytes c (true, ch) = sr_mem s.
Proof. unfold chan_bytes. cbn [fst snd]. now intros ->. Qed.

Lemma chan_bytes_unrel c ch s : sm_find ch (c_su c) = Some s -> chan_bytes c (false, ch) = su_mem s.
Proof. unfold chan_bytes. cbn [fst snd]. now intros ->. Qed.

Lemma map_ext_in' {A B} (f g : A -> B) l : (forall x, In x l -> f x = g x) -> map f l = map g l.
Proof. apply map_ext_in. Qed.

Lemma gather_live ord c avail c1 av pk :
  gather_rel ord c avail c1 av pk -> conn_inv c -> NoDup ord ->
  av <= avail /\
  (forall y, In y (cparts pk) -> pend c y /\ In (true, fst y) ord) /\
  NoDup (cparts pk) /\
  (SLICE_SIZE <= av -> forall ch id p, In (true, ch) ord -> all_due c ch ->
                       pend c (ch, (id, p)) -> In (ch, (id, p)) (cparts pk)) /\
  avail <= av + sum (map (chan_bytes c) ord) /\
  ((forall ch s, In (false, ch) ord -> sm_find ch (c_su c) = Some s -> su_queue s = []) ->
   avail = av + payload_total pk /\ payload_total pk <= SLICE_SIZE * len (cparts pk)).
Proof.
  induction 1 as [c avail|ch t c avail s s' pk seq' avail1 c2 avail2 pk2 Hs Eg Hrel IH
                         |ch t c avail s s' pk seq' avail1 c2 avail2 pk2 Hs Eg Hrel IH]; intros Hi Hnd.
  - split; [lia|]. split; [intros y []|]. split; [constructor|]. split; [intros _ ch id p []|].
    cbn [map]. rewrite SMapP.sum_nil. split; [lia|]. intros _. unfold payload_total. cbn [map cparts flat_map].
    rewrite SMapP.sum_nil, AcksP.len_nil. lia.
  - inversion Hnd as [|? ? Hnotin Hnd']; subst.
    destruct (gather_step_rel c ch s avail s' pk seq' avail1 Hi Hs Eg) as (Hi' & _).
    destruct (inv_find_sr _ _ _ Hi Hs) as [Hsi Hch].
    destruct (SendRelP.sr_get_packets_facts _ _ _ _ _ _ _ _ Hsi Eg) as (new & T).
    set (c' := with_seq (with_sr c (sm_insert ch s' (c_sr c))) seq') in *.
    destruct (IH Hi' Hnd') as (A1 & A2 & A3 & A4 & A5 & A6). clear IH.
    assert (Hother : forall ch0, ch0 <> ch -> sm_find ch0 (c_sr c') = sm_find ch0 (c_sr c)).
    { intros ch0 Hne. cbn [c' with_seq with_sr c_sr]. now apply sm_find_insert_other. }
    assert (Hpend : forall ch0 id p, ch0 <> ch -> (pend c' (ch0, (id, p)) <-> pend c (ch0, (id, p)))).
    { intros ch0 id p Hne. cbn [pend]. now rewrite (Hother ch0 Hne). }
    assert (Hint : forall ch0, In (true, ch0) t -> ch0 <> ch) by (intros ch0 Hin ->; contradiction).
    pose proof (SendRelP.tf_pkts _ _ _ _ _ _ _ _ T) as Hpk. rewrite Hch in Hpk.
    pose proof (cparts_rel _ _ _ Hpk) as Ecp.
    pose proof (SendRelP.tf_avail _ _ _ _ _ _ _ _ T) as Hav.
    pose proof (SendRelP.tf_bound _ _ _ _ _ _ _ _ T) as Hbd.
    split; [lia|]. rewrite cparts_app. split; [|split; [|split; [|split]]].
    + intros y Hy. apply in_app_or in Hy. destruct Hy as [Hy|Hy].
      * rewrite Ecp in Hy. apply in_map_iff in Hy. destruct Hy as ([id p] & <- & Hin).
        destruct (SendRelP.tick_sent _ _ _ _ _ _ _ _ T id p Hin) as (l & _ & _ & Hp & _).
        split; [cbn [pend]; eauto|now left].
      * destruct (A2 y Hy) as [Hp Hin]. destruct y as [ch0 [id p]]. cbn [fst] in *.
        split; [apply Hpend; auto|now right].
    + apply SendRelP.NoDup_app_intro; [|exact A3|].
      * rewrite Ecp. apply NoDup_map_pair. eapply SendRelP.tick_nodup; eauto.
      * intros y Hy Hy'. rewrite Ecp in Hy. apply in_map_iff in Hy. destruct Hy as (ip & <- & _).
        destruct (A2 _ Hy') as [_ Hin]. cbn [fst] in Hin. exact (Hint ch Hin eq_refl).
    + intros Hge ch0 id p Hin Hdue Hp. apply in_or_app. destruct Hin as [Heq|Hin].
      * injection Heq as <-. left. rewrite Ecp. apply in_map_iff. exists (id, p). split; [reflexivity|].
        cbn [pend] in Hp. destruct Hp as (s0 & Hs0 & Hp). rewrite Hs in Hs0. injection Hs0 as <-.
        destruct (packed_plast _ _ _ _ _ Hsi Hp) as (l & Hl).
        apply (SendRelP.tick_prompt _ _ _ _ _ _ _ _ T id p l); auto; [lia|]. eapply Hdue; eauto.
      * right. pose proof (Hint ch0 Hin) as Hne. apply A4; auto.
        -- intros s0 id0 p0 l0 Hs0 Hl0. rewrite (Hother ch0 Hne) in Hs0. cbn [c' with_seq with_sr c_now].
           eapply Hdue; eauto.
        -- now apply Hpend.
    + cbn [map]. rewrite SMapP.sum_cons, (chan_bytes_rel c ch s Hs).
      assert (Em : map (chan_bytes c') t = map (chan_bytes c) t).
      { apply map_ext_in. intros [b ch0] Hin. unfold chan_bytes. cbn [fst snd]. destruct b; [|reflexivity].
        now rewrite (Hother ch0 (Hint ch0 Hin)). }
      rewrite Em in A5. lia.
    + intros Hq. destruct A6 as [B1 B2].
      { intros ch0 s0 Hin Hs0. cbn [c' with_seq with_sr c_su] in Hs0. eapply Hq; eauto. now right. }
      rewrite SMapSendP.payload_total_app, AcksP.len_app. split; [lia|].
      rewrite Ecp, SMapSendP.len_map.
      pose proof (payload_le_parts _ ch s pk Hsi Hpk). lia.
  - inversion Hnd as [|? ? Hnotin Hnd']; subst.
    destruct (gather_step_unrel c ch s avail s' pk seq' avail1 Hi Hs Eg) as (Hi' & _).
    destruct (inv_find_su _ _ _ Hi Hs) as [Hsi Hch].
    set (c' := with_seq (with_su c (sm_insert ch s' (c_su c))) seq') in *.
    destruct (IH Hi' Hnd') as (A1 & A2 & A3 & A4 & A5 & A6). clear IH.
    pose proof Eg as Eg'. rewrite (SendUnrelP.su_get_packets_spec s (c_seq c) avail Hsi) in Eg'.
    unfold SendUnrelP.su_spec in Eg'. injection Eg' as _ Epk _ Eav.
    destruct (su_turn_ok _ _ _ _ _ _ _ Hsi Eg) as (_ & _ & _ & Hpc & _).
    pose proof (cparts_unrel _ _ Hpc) as Ecp.
    pose proof (su_left_ge avail (su_queue s)) as Hleft.
    pose proof (SendUnrelP.su_left_kept avail (su_queue s)) as Hkept.
    destruct Hsi as [Hmem _].
    assert (Hint : forall ch0, In (false, ch0) t -> ch0 <> ch) by (intros ch0 Hin ->; contradiction).
    split; [lia|]. rewrite cparts_app, Ecp. cbn [app]. split; [|split; [|split; [|split]]].
    + intros y Hy. destruct (A2 y Hy) as [Hp Hin]. split; [exact Hp|now right].
    + exact A3.
    + intros Hge ch0 id p Hin Hdue Hp. destruct Hin as [Heq|Hin]; [discriminate|]. apply A4; auto.
    + cbn [map]. rewrite SMapP.sum_cons, (chan_bytes_unrel c ch s Hs).
      assert (Em : map (chan_bytes c') t = map (chan_bytes c) t).
      { apply map_ext_in. intros [b ch0] Hin. unfold chan_bytes. cbn [fst snd]. destruct b; [reflexivity|].
        cbn [c' with_seq with_su c_su]. now rewrite sm_find_insert_other by (apply Hint; exact Hin). }
      rewrite Em in A5. lia.
    + intros Hq. destruct A6 as [B1 B2].
      { intros ch0 s0 Hin Hs0. cbn [c' with_seq with_su c_su] in Hs0.
        rewrite sm_find_insert_other in Hs0 by (apply Hint; exact Hin). eapply Hq; eauto. now right. }
      assert (Eq : su_queue s = []) by (eapply Hq; [now left|exact Hs]).
      rewrite Eq in Epk, Eav. cbn [SendUnrelP.su_kept SendUnrelP.su_pack SendUnrelP.su_left] in Epk, Eav.
      subst pk avail1. cbn [app]. split; [exact B1|exact B2].
Qed.

(* ---------- the whole flush of a live connection ---------- *)

Lemma cparts_ack_part seq acks : cparts (ack_part seq acks) = [].
Proof. destruct acks; reflexivity. Qed.

Lemma unrel_queued_false c : unrel_queued c = false ->
  forall ch s, sm_find ch (c_su c) = Some s -> su_queue s = [].
Proof.
  unfold unrel_queued. intros H ch s Hs. apply sm_find_in in Hs.
  destruct (su_queue s) as [|m q] eqn:Eq; [reflexivity|exfalso].
  assert (existsb (fun e : N * send_unrel => match su_queue (snd e) with [] => false | _ => true end) (c_su c) = true).
  { apply existsb_exists. exists (ch, s). split; [exact Hs|]. cbn [snd]. now rewrite Eq. }
  congruence.
Qed.

Lemma flush_live c c' bytes :
  conn_inv c -> chans_u8 c -> is_disconnected c = false -> order_inv c ->
  get_packets_to_send c = Ok (c', bytes) ->
  exists pk av,
    Forall2 (fun p b => forall p', from_bytes b = Ok p' -> p' = p /\ packet_wf p') pk bytes /\
    seqs_from (c_seq c) pk /\ c_seq c' = c_seq c + len pk /\
    (forall p, In p pk -> sm_find (packet_seq p) (c_sent c') = Some (c_now c, pkt_info p)) /\
    sr_static (c_sr c) (c_sr c') /\
    c_rr c' = c_rr c /\ c_ru c' = c_ru c /\ c_acks c' = c_acks c /\ c_status c' = c_status c /\
    c_now c' = c_now c /\ c_budget c' = c_budget c /\
    (forall ch s', sm_find ch (c_su c') = Some s' -> su_queue s' = []) /\
    (forall y, In y (cparts pk) -> pend c y) /\ NoDup (cparts pk) /\
    (SLICE_SIZE <= av -> (forall ch, all_due c ch) -> forall y, pend c y -> In y (cparts pk)) /\
    c_budget c <= av + pending_bytes c /\
    (unrel_queued c = false -> c_budget c <= av + SLICE_SIZE * len (cparts pk)) /\
    (c_acks c <> [] -> exists sq, In (Ack sq (c_acks c)) pk) /\
    (forall sq rs, In (Ack sq rs) pk -> rs = c_acks c).
Proof.
  intros Hi Hu8 Hd (Ond & Orel & Ounrel) E.
  destruct (flush_shape c c' bytes Hi E)
    as [(Hd' & _)|(_ & c1 & av & pk & Hrel & -> & HF2 & Hfits & Hv & Hack)]; [congruence|].
  destruct (gather_facts _ _ _ _ _ _ Hrel Hi) as (Hi1 & Hseq & Hseqs & _ & Hfr & _ & Hpk).
  destruct Hfr as (Hnow & Hsent & Hacks & _ & Hrr & Hru & Hbud & Hst).
  destruct (gather_emits _ _ _ _ _ _ Hrel Hi) as (Hstat & Hem & f & Hsu).
  destruct (flush_state_frame c1 pk) as (G1 & G2 & G3 & G4 & G5 & G6 & _ & G8 & G9).
  destruct (gather_live _ _ _ _ _ _ Hrel Hi Ond) as (L1 & L2 & L3 & L4 & L5 & L6).
  assert (Hseqs2 : seqs_from (c_seq c) (flush_pkts c1 pk)).
  { unfold flush_pkts. apply SMapSendP.seqs_from_app. split; [exact Hseqs|].
    destruct (c_acks c1); cbn [ack_part seqs_from packet_seq]; [exact I|]. split; [lia|exact I]. }
  assert (Hsu2 : su_step_ok f (c_su c) (c_su (flush_state c1 pk)) (flush_pkts c1 pk)).
  { rewrite G2. destruct Hsu as (A & B & C). unfold flush_pkts. split; [exact A|]. split.
    - intros sq ch ms Hin. apply in_app_or in Hin. destruct Hin as [Hin|Hin]; [eauto|].
      destruct (c_acks c1); cbn [ack_part] in Hin; [destruct Hin|]. destruct Hin as [Hin|[]]. discriminate.
    - intros sq ch sl Hin. apply in_app_or in Hin. destruct Hin as [Hin|Hin]; [eauto|].
      destruct (c_acks c1); cbn [ack_part] in Hin; [destruct Hin|]. destruct Hin as [Hin|[]]. discriminate. }
  assert (Hem2 : Forall (emit_ok c) (flush_pkts c1 pk)).
  { unfold flush_pkts. apply Forall_app. split.
    - rewrite Forall_forall in *. intros p Hp. destruct (Hpk p Hp) as (_ & Hna & _).
      destruct p; try discriminate; cbn [emit_ok]; apply Hem; exact Hp.
    - apply Forall_app in Hv. destruct Hv as [_ Hv]. apply Forall_app in Hack. destruct Hack as [_ Hack].
      rewrite Hacks in *. destruct (c_acks c) as [|ab t] eqn:Ea; cbn [ack_part] in *; constructor; [|constructor].
      inversion Hv as [|? ? Hv1 _]; subst. inversion Hack as [|? ? Ha1 _]; subst.
      cbn [ConnEncP.varints_ok ConnEncP.ack_ok emit_ok packet_wf] in *. rewrite Ea. tauto. }
  exists (flush_pkts c1 pk), av.
  split.
  { rewrite Forall_forall in Hfits, Hv, Hem2.
    eapply SendRelP.Forall2_impl_in; [|exact HF2]. intros p b Hp Hb p' Hp'.
    destruct (emit_decode c p b p' Hi Hu8 Hb (Hfits p Hp) (Hv p Hp) (Hem2 p Hp) (su_step_shape _ _ _ _ _ Hsu2 Hp) Hp')
      as [-> Hwf]. auto. }
  split; [exact Hseqs2|].
  split; [unfold flush_state, flush_pkts; cbn [with_sent c_seq]; rewrite flush_c2_seq, AcksP.len_app; lia|].
  split.
  { intros p Hp. unfold flush_state. cbn [with_sent c_sent]. rewrite Hnow, Hsent.
    apply rec_sent_find_new; [|exact Hp]. eapply seqs_from_nodup; eauto. }
  split; [rewrite G1; exact Hstat|].
  split; [congruence|]. split; [congruence|]. split; [congruence|]. split; [congruence|].
  split; [congruence|]. split; [congruence|].
  split.
  { intros ch s' Hs'. rewrite G2 in Hs'. destruct Hsu as (A & _).
    (* every unreliable channel had its turn: it is listed in the send order *)
    assert (Hin : In (false, ch) (c_order c)).
    { apply Ounrel. specialize (A ch). unfold sm_mem. destruct (sm_find ch (c_su c)); [reflexivity|congruence]. }
    clear - Hrel Hin Hs' Hi. revert Hin Hs'. induction Hrel as [c avail|ch0 t c avail s s1 pk seq' avail1 c2 avail2 pk2 Hs Eg Hrel IH
                         |ch0 t c avail s s1 pk seq' avail1 c2 avail2 pk2 Hs Eg Hrel IH]; intros Hin Hs'.
    - destruct Hin.
    - destruct (gather_step_rel c ch0 s avail s1 pk seq' avail1 Hi Hs Eg) as (Hi' & _).
      destruct Hin as [Heq|Hin]; [discriminate|]. apply (IH Hi' Hin Hs').
    - destruct (gather_step_unrel c ch0 s avail s1 pk seq' avail1 Hi Hs Eg) as (Hi' & _).
      destruct (inv_find_su _ _ _ Hi Hs) as [Hsi _].
      destruct (su_turn_ok _ _ _ _ _ _ _ Hsi Eg) as (Hq & _).
      destruct Hin as [Heq|Hin]; [|apply (IH Hi' Hin Hs')].
      injection Heq as <-.
      (* later turns do not refill a queue *)
      assert (Hkeep : forall ch1 s2, sm_find ch1 (c_su c2) = Some s2 ->
                exists s0, sm_find ch1 (c_su (with_seq (with_su c (sm_insert ch0 s1 (c_su c))) seq')) = Some s0 /\
                           (su_queue s0 = [] -> su_queue s2 = [])).
      { destruct (gather_emits _ _ _ _ _ _ Hrel Hi') as (_ & _ & f & (A & _)).
        intros ch1 s2 Hs2. specialize (A ch1).
        destruct (sm_find ch1 (c_su (with_seq (with_su c (sm_insert ch0 s1 (c_su c))) seq'))) as [s0|]; [|congruence].
        destruct A as (s3 & E3 & _ & Q3). rewrite Hs2 in E3. injection E3 as <-.
        exists s0. split; [reflexivity|]. intros E0. destruct (su_queue s2) as [|m q]; [reflexivity|].
        specialize (Q3 m (or_introl eq_refl)). rewrite E0 in Q3. destruct Q3. }
      destruct (Hkeep ch0 s' Hs') as (s0 & Hs0 & Himp). cbn [with_seq with_su c_su] in Hs0.
      rewrite sm_find_insert_same in Hs0. injection Hs0 as <-. now apply Himp. }
  unfold flush_pkts. rewrite cparts_app, cparts_ack_part, app_nil_r.
  split; [intros y Hy; now apply L2|]. split; [exact L3|].
  split.
  { intros Hge Hdue [ch [id p]] Hp. apply L4; auto. apply Orel.
    cbn [pend] in Hp. destruct Hp as (s & Hs & _). eapply sm_find_some_mem; eauto. }
  split; [exact L5|].
  split.
  { intros Hq. destruct L6 as [B1 B2].
    { intros ch s _ Hs. eapply unrel_queued_false; eauto. }
    lia. }
  split.
  { intros Hne. exists (c_seq c1). apply in_or_app. right. rewrite Hacks.
    destruct (c_acks c); [congruence|]. now left. }
  intros sq rs Hin. rewrite Forall_forall in Hem2.
  assert (Hin' : In (Ack sq rs) (flush_pkts c1 pk)) by exact Hin.
  now destruct (Hem2 _ Hin') as [-> _].
Qed.

(* ================================================================== *)
(* 4. system steps, seen from the side that acts *)

Lemma sys_api_step s x op s' : is_process op = false -> sys_step s (SysApi x op) = Ok s' ->
  exists c' out, cstep (conn_of s x) op = Ok (c', out) /\
    conn_of s' x = c' /\ conn_of s' (flip_side x) = conn_of s (flip_side x) /\
    out_of s' x = out_of s x ++ outs_of out /\ out_of s' (flip_side x) = out_of s (flip_side x) /\
    got_of s' x = got_upd op out (got_of s x) /\ got_of s' (flip_side x) = got_of s (flip_side x) /\
    ((forall ch m, op <> CSend ch m) -> sent_a s' = sent_a s /\ sent_b s' = sent_b s).
Proof.
  intros Hnp E. cbn [sys_step] in E. rewrite Hnp in E.
  destruct (cstep (conn_of s x) op) as [[c' out]| |] eqn:Ec; cbn [bind] in E; try discriminate.
  injection E as <-. exists c', out. split; [reflexivity|].
  destruct x; cbn [upd_side conn_of flip_side out_of got_of ra rb out_a out_b got_a got_b sent_a sent_b];
    repeat split; try reflexivity; destruct op; try reflexivity; exfalso; eapply H; reflexivity.
Qed.

Lemma sys_deliver_step s x i s' : sys_step s (SysDeliver x i) = Ok s' ->
  conn_of s' (flip_side x) = conn_of s (flip_side x) /\ out_a s' = out_a s /\ out_b s' = out_b s /\
  sent_a s' = sent_a s /\ sent_b s' = sent_b s /\ got_a s' = got_a s /\ got_b s' = got_b s /\
  match nth_error (out_of s (flip_side x)) i with
  | None => s' = s
  | Some b => process_packet (conn_of s x) b = Ok (conn_of s' x)
  end.
Proof.
  intros E. cbn [sys_step] in E. destruct x; cbn [flip_side out_of conn_of].
  - destruct (nth_error (out_b s) i) as [b|]; [|injection E as <-; repeat split].
    destruct (process_packet (ra s) b) as [c'| |]; cbn [bind] in E; try discriminate.
    injection E as <-. repeat split.
  - destruct (nth_error (out_a s) i) as [b|]; [|injection E as <-; repeat split].
    destruct (process_packet (rb s) b) as [c'| |]; cbn [bind] in E; try discriminate.
    injection E as <-. repeat split.
Qed.

Lemma deliver_from_dead x : forall n i s s', deliver_from x i n s = Ok s' ->
  is_disconnected (conn_of s x) = true -> is_disconnected (conn_of s' x) = true.
Proof.
  induction n as [|n IH]; intros i s s' E Hd; cbn [deliver_from] in E; [now injection E as <-|].
  destruct (sys_step s (SysDeliver x i)) as [s1| |] eqn:E1; cbn [bind] in E; try discriminate.
  apply (IH _ _ _ E). destruct (sys_deliver_step _ _ _ _ E1) as (_ & _ & _ & _ & _ & _ & _ & Hp).
  destruct (nth_error (out_of s (flip_side x)) i); [|now subst].
  rewrite (DisconnectP.process_packet_disconnected_noop _ _ Hd) in Hp. injection Hp as <-. exact Hd.
Qed.

(* ---------- the packets of A's flush reach B ---------- *)
Definition decodes_to (p : packet) (b : list N) : Prop := forall p', from_bytes b = Ok p' -> p' = p /\ packet_wf p'.

Lemma deliver_b_run cfg_ab cfg_ba lo : forall pk bs, Forall2 decodes_to pk bs -> forall i s s' hi,
  (forall j b, nth_error bs j = Some b -> nth_error (out_a s) (i + j) = Some b) ->
  seqs_from hi pk ->
  deliver_from SB i (length bs) s = Ok s' ->
  tick_inv cfg_ab cfg_ba s -> is_disconnected (rb s') = false ->
  ackrecs_below (c_sent (rb s)) lo -> acks_upto (c_acks (rb s)) lo hi ->
  ra s' = ra s /\ out_a s' = out_a s /\ out_b s' = out_b s /\ sent_a s' = sent_a s /\
  tick_inv cfg_ab cfg_ba s' /\
  ackrecs_below (c_sent (rb s')) lo /\ acks_upto (c_acks (rb s')) lo (hi + len bs).
Proof.
  induction 1 as [|p b pk bs Hpb _ IH]; intros i s s' hi Hpos Hseqs E Hinv Halive Hb Hu; cbn [length deliver_from] in E.
  - injection E as <-. rewrite AcksP.len_nil, N.add_0_r. auto 10.
  - destruct (sys_step s (SysDeliver SB i)) as [s1| |] eqn:E1; cbn [bind] in E; try discriminate.
    pose proof (tick_inv_step _ _ _ _ _ Hinv E1) as Hinv1.
    destruct (sys_deliver_step _ _ _ _ E1) as (A1 & A2 & A3 & A4 & _ & _ & _ & Hp).
    cbn [flip_side out_of conn_of] in A1, Hp.
    pose proof (Hpos 0%nat b eq_refl) as Hnth. replace (i + 0)%nat with i in Hnth by lia. rewrite Hnth in Hp.
    cbn [seqs_from] in Hseqs. destruct Hseqs as [Hsq Hseqs].
    assert (Hd1 : is_disconnected (rb s1) = false).
    { destruct (is_disconnected (rb s1)) eqn:Hd; [|reflexivity].
      pose proof (deliver_from_dead SB _ _ _ _ E Hd) as Hdd. cbn [conn_of] in Hdd. congruence. }
    assert (Hd0 : is_disconnected (rb s) = false).
    { destruct (is_disconnected (rb s)) eqn:Hd; [|reflexivity].
      rewrite (DisconnectP.process_packet_disconnected_noop _ _ Hd) in Hp. injection Hp as Hp. congruence. }
    destruct Hinv as ((Hbase & _) & _). destruct Hbase as [_ Hib _ _ _ _].
    destruct (process_packet_cases (rb s) b) as [(Hd' & _)|[(_ & e & He & E0)|(_ & p0 & Hp0 & _)]]; try congruence.
    { rewrite E0 in Hp. injection Hp as Hp. rewrite <- Hp, DisconnectP.disconnect_with_is_disconnected in Hd1. discriminate. }
    destruct (Hpb p0 Hp0) as [-> Hwf].
    destruct (process_fresh_packet (rb s) b p (rb s1) lo hi Hib Hd0 Hp0 Hwf Hp Hsq Hb Hu) as (_ & Hb1 & Hu1).
    destruct (IH (S i) s1 s' (hi + 1)) as (B1 & B2 & B3 & B4 & B5 & B6 & B7); auto.
    { intros j b0 Hj. rewrite A2. replace (S i + j)%nat with (i + S j)%nat by lia. apply Hpos. exact Hj. }
    rewrite AcksP.len_cons. replace (hi + (len bs + 1)) with (hi + 1 + len bs) by lia.
    split; [congruence|]. split; [congruence|]. split; [congruence|]. split; [congruence|]. auto.
Qed.

(* ---------- the packets of B's flush reach A ---------- *)
Definition frame_a (c c' : conn) : Prop :=
  c_su c' = c_su c /\ c_budget c' = c_budget c /\ c_now c' = c_now c /\ c_order c' = c_order c.

Lemma frame_a_refl c : frame_a c c.
Proof. repeat split. Qed.

Lemma frame_a_trans a b c : frame_a a b -> frame_a b c -> frame_a a c.
Proof. intros (A1 & A2 & A3 & A4) (B1 & B2 & B3 & B4). repeat split; congruence. Qed.

Lemma process_a_step c b p c' :
  conn_inv c -> is_disconnected c = false -> from_bytes b = Ok p -> packet_wf p -> process_packet c b = Ok c' ->
  frame_a c c' /\ (forall y, pend c' y -> pend c y) /\
  (is_ack p = false -> c_sent c' = c_sent c /\ c_sr c' = c_sr c) /\
  (forall sq rs, p = Ack sq rs -> forall x t info y, in_ranges x rs -> sm_find x (c_sent c) = Some (t, info) ->
                                   In y (info_parts info) -> ~ pend c' y).
Proof.
  intros Hi Hd Hp Hwf E.
  destruct (process_packet_cases c b) as [(Hd' & _)|[(_ & e & He & _)|(_ & p0 & Hp0 & E0)]]; try congruence.
  rewrite Hp in Hp0. injection Hp0 as <-. rewrite E0 in E. clear E0.
  set (c1 := with_acks c (add_pending_ack (c_acks c) (packet_seq p))) in *.
  assert (Hi1 : conn_inv c1) by (apply inv_add_pending_ack; [exact Hi|now apply packet_wf_seq]).
  destruct (is_ack p) eqn:Ha.
  - destruct p as [| | | |sq rs]; try discriminate.
    destruct (process_ack_spec c1 sq rs Hi1 (packet_wf_ack_ranges _ _ Hwf)) as (c2 & l & E2 & _ & Hfr & _).
    rewrite E in E2. injection E2 as <-.
    destruct Hfr as (_ & F2 & F3 & F4 & _ & _ & F7 & _).
    destruct (process_ack_pend c1 sq rs c' Hi1 (packet_wf_ack_ranges _ _ Hwf) E) as [M F].
    split; [repeat split; assumption|]. split; [exact M|]. split; [discriminate|].
    intros sq0 rs0 [= <- <-]. exact F.
  - destruct (process_data_spec c1 p Hi1 Hwf Ha) as (c2 & E2 & _ & Hfr).
    rewrite E in E2. injection E2 as <-.
    destruct Hfr as (_ & F2 & F3 & F4 & F5 & F6 & _ & F8).
    split; [repeat split; assumption|]. split.
    + intros [ch [id q]]. cbn [pend]. rewrite F5. auto.
    + split; [intros _; split; assumption|]. intros sq rs ->. discriminate.
Qed.

(* packet p of A's flush is still tracked by A, or what it carried has been released *)
Definition tracked_or_released (c : conn) (t0 : N) (p : packet) : Prop :=
  sm_find (packet_seq p) (c_sent c) = Some (t0, pkt_info p) \/ (forall y, In y (pkt_parts p) -> ~ pend c y).

Lemma deliver_a_run cfg_ab cfg_ba (pk : list packet) (t0 : N) : forall pkB bs, Forall2 decodes_to pkB bs -> forall i s s',
  (forall j b, nth_error bs j = Some b -> nth_error (out_b s) (i + j) = Some b) ->
  deliver_from SA i (length bs) s = Ok s' ->
  tick_inv cfg_ab cfg_ba s -> is_disconnected (ra s') = false ->
  Forall (fun q => forall sq rs, q = Ack sq rs -> forall p, In p pk -> in_ranges (packet_seq p) rs) pkB ->
  (forall p, In p pk -> tracked_or_released (ra s) t0 p) ->
  rb s' = rb s /\ out_a s' = out_a s /\ out_b s' = out_b s /\ sent_a s' = sent_a s /\
  tick_inv cfg_ab cfg_ba s' /\ frame_a (ra s) (ra s') /\
  (forall y, pend (ra s') y -> pend (ra s) y) /\
  (forall p, In p pk -> tracked_or_released (ra s') t0 p) /\
  (Exists (fun q => is_ack q = true) pkB -> forall p y, In p pk -> In y (pkt_parts p) -> ~ pend (ra s') y).
Proof.
  induction 1 as [|q b pkB bs Hqb _ IH]; intros i s s' Hpos E Hinv Halive Hacks Htr; cbn [length deliver_from] in E.
  - injection E as <-. split; [reflexivity|]. split; [reflexivity|]. split; [reflexivity|]. split; [reflexivity|].
    split; [exact Hinv|]. split; [apply frame_a_refl|]. split; [auto|]. split; [exact Htr|].
    intros Hex. inversion Hex.
  - destruct (sys_step s (SysDeliver SA i)) as [s1| |] eqn:E1; cbn [bind] in E; try discriminate.
    pose proof (tick_inv_step _ _ _ _ _ Hinv E1) as Hinv1.
    destruct (sys_deliver_step _ _ _ _ E1) as (A1 & A2 & A3 & A4 & _ & _ & _ & Hp).
    cbn [flip_side out_of conn_of] in A1, Hp.
    pose proof (Hpos 0%nat b eq_refl) as Hnth. replace (i + 0)%nat with i in Hnth by lia. rewrite Hnth in Hp.
    assert (Hd1 : is_disconnected (ra s1) = false).
    { destruct (is_disconnected (ra s1)) eqn:Hd; [|reflexivity].
      pose proof (deliver_from_dead SA _ _ _ _ E Hd) as Hdd. cbn [conn_of] in Hdd. congruence. }
    assert (Hd0 : is_disconnected (ra s) = false).
    { destruct (is_disconnected (ra s)) eqn:Hd; [|reflexivity].
      rewrite (DisconnectP.process_packet_disconnected_noop _ _ Hd) in Hp. injection Hp as Hp. congruence. }
    destruct Hinv as ((Hbase & _) & _). destruct Hbase as [Hia _ _ _ _ _].
    destruct (process_packet_cases (ra s) b) as [(Hd' & _)|[(_ & e & He & E0)|(_ & p0 & Hp0 & _)]]; try congruence.
    { rewrite E0 in Hp. injection Hp as Hp. rewrite <- Hp, DisconnectP.disconnect_with_is_disconnected in Hd1. discriminate. }
    destruct (Hqb p0 Hp0) as [-> Hwf].
    destruct (process_a_step (ra s) b q (ra s1) Hia Hd0 Hp0 Hwf Hp) as (F1 & M1 & D1 & K1).
    inversion Hacks as [|? ? Hq Hacks']; subst.
    assert (Htr1 : forall p, In p pk -> tracked_or_released (ra s1) t0 p).
    { intros p Hin. destruct (is_ack q) eqn:Ha.
      - destruct q as [| | | |sq rs]; try discriminate. right. intros y Hy.
        destruct (Htr p Hin) as [Hf|Hrel].
        + exact (K1 sq rs eq_refl _ _ _ y (Hq sq rs eq_refl p Hin) Hf Hy).
        + intros Hpend. exact (Hrel y Hy (M1 y Hpend)).
      - destruct (D1 eq_refl) as [Es Er]. destruct (Htr p Hin) as [Hf|Hrel]; [left; now rewrite Es|right].
        intros y Hy Hpend. exact (Hrel y Hy (M1 y Hpend)). }
    destruct (IH (S i) s1 s') as (B1 & B2 & B3 & B4 & B5 & B6 & B7 & B8 & B9); auto.
    { intros j b0 Hj. rewrite A3. replace (S i + j)%nat with (i + S j)%nat by lia. apply Hpos. exact Hj. }
    split; [congruence|]. split; [congruence|]. split; [congruence|]. split; [congruence|].
    split; [exact B5|]. split; [eapply frame_a_trans; eauto|]. split; [auto|]. split; [exact B8|].
    intros Hex p y Hin Hy. inversion Hex as [? ? Hack|? ? Hex']; subst; [|eapply B9; eauto].
    destruct q as [| | | |sq rs]; try discriminate.
    intros Hpend. apply B7 in Hpend. destruct (Htr1 p Hin) as [Hf|Hrel]; [|exact (Hrel y Hy Hpend)].
    (* the record cannot have survived its own acknowledgement *)
    destruct (Htr p Hin) as [Hf0|Hrel0].
    + exact (K1 sq rs eq_refl _ _ _ y (Hq sq rs eq_refl p Hin) Hf0 Hy Hpend).
    + exact (Hrel0 y Hy (M1 y Hpend)).
Qed.

(* ================================================================== *)
(* 5. polling a channel until it is empty *)

Lemma rr_receive_none r r' : rr_receive r = Ok (r', None) -> r' = r /\ next_id r = None.
Proof.
  unfold rr_receive, next_id, sm_mem. destruct (rr_order r) as [|mr rcv].
  - destruct (sm_find (rr_oldest r) (rr_messages r)) as [m|].
    + destruct (sub_chk SITE_RECV_MEM_SUB (rr_mem r) (len m)); cbn [bind]; discriminate.
    + intros [= <-]. auto.
  - destruct (rr_messages r) as [|[id m] rest]; [intros [= <-]; auto|].
    destruct (if rr_oldest r =? id then advance_oldest (length rcv) (rr_oldest r) rcv else (rr_oldest r, rcv)) as [old' rcv'].
    destruct (sub_chk SITE_RECV_MEM_SUB (rr_mem r) (len m)); cbn [bind]; discriminate.
Qed.

(* everything receive_message leaves alone *)
Definition frame_recv (c c' : conn) : Prop :=
  c_sr c' = c_sr c /\ c_su c' = c_su c /\ c_acks c' = c_acks c /\ c_sent c' = c_sent c /\ c_seq c' = c_seq c /\
  c_now c' = c_now c /\ c_status c' = c_status c /\ c_budget c' = c_budget c /\ c_order c' = c_order c.

Lemma frame_recv_refl c : frame_recv c c.
Proof. repeat split. Qed.

Lemma frame_recv_trans a b c : frame_recv a b -> frame_recv b c -> frame_recv a c.
Proof.
  intros (A1 & A2 & A3 & A4 & A5 & A6 & A7 & A8 & A9) (B1 & B2 & B3 & B4 & B5 & B6 & B7 & B8 & B9).
  repeat split; congruence.
Qed.

Lemma receive_message_frame c ch c' mo : receive_message c ch = Ok (c', mo) ->
  frame_recv c c' /\
  (forall ch', ch' <> ch -> sm_find ch' (c_rr c') = sm_find ch' (c_rr c)) /\
  (forall ch', sm_mem ch' (c_rr c') = true -> sm_mem ch' (c_rr c) = true) /\
  (mo = None -> is_disconnected c = false -> forall r, sm_find ch (c_rr c') = Some r -> next_id r = None).
Proof.
  unfold receive_message. destruct (is_disconnected c) eqn:Hd.
  { intros [= <- <-]. split; [apply frame_recv_refl|]. split; [auto|]. split; [auto|discriminate]. }
  destruct (sm_find ch (c_rr c)) as [r|] eqn:Hr.
  - destruct (rr_receive r) as [[r' m']| |] eqn:Er; try discriminate. intros [= <- <-].
    split; [repeat split|]. cbn [with_rr c_rr]. split; [intros ch' Hne; now apply sm_find_insert_other|].
    split.
    + intros ch'. rewrite sm_mem_insert. destruct (N.eqb_spec ch' ch) as [->|]; cbn [orb]; [|auto].
      intros _. eapply sm_find_some_mem; eauto.
    + intros -> _ r0. rewrite sm_find_insert_same. intros [= <-]. destruct (rr_receive_none _ _ Er) as [-> Hn]. exact Hn.
  - destruct (sm_find ch (c_ru c)) as [r|]; [|discriminate].
    destruct (ru_receive r) as [[r' m']| |]; try discriminate. intros [= <- <-].
    split; [repeat split|]. cbn [with_ru c_rr]. split; [auto|]. split; [auto|]. intros _ _ r0 Hr0. congruence.
Qed.

Lemma log_add_length l ch m : length (log_get (log_add l ch m) ch) = S (length (log_get l ch)).
Proof. rewrite log_get_add_same, app_length. cbn [length]. lia. Qed.

Lemma drain_chan_run cfg_ab cfg_ba x ch : forall fuel s s', drain_chan fuel x ch s = Ok s' ->
  tick_inv cfg_ab cfg_ba s ->
  tick_inv cfg_ab cfg_ba s' /\ conn_of s' (flip_side x) = conn_of s (flip_side x) /\
  out_a s' = out_a s /\ out_b s' = out_b s /\ sent_a s' = sent_a s /\ sent_b s' = sent_b s /\
  frame_recv (conn_of s x) (conn_of s' x) /\
  (forall ch', ch' <> ch -> sm_find ch' (c_rr (conn_of s' x)) = sm_find ch' (c_rr (conn_of s x))) /\
  (forall ch', sm_mem ch' (c_rr (conn_of s' x)) = true -> sm_mem ch' (c_rr (conn_of s x)) = true) /\
  (is_disconnected (conn_of s' x) = false -> forall r, sm_find ch (c_rr (conn_of s' x)) = Some r -> next_id r = None).
Proof.
  induction fuel as [|f IH]; intros s s' E Hinv; cbn [drain_chan] in E; [discriminate|].
  destruct (sys_step s (SysApi x (CRecv ch))) as [s1| |] eqn:E1; cbn [bind] in E; try discriminate.
  pose proof (tick_inv_step _ _ _ _ _ Hinv E1) as Hinv1.
  destruct (sys_api_step s x (CRecv ch) s1 eq_refl E1) as (c' & out & Ec & A1 & A2 & A3 & A4 & A5 & A6 & A7).
  destruct A7 as [A7 A8]; [intros c0 m0; discriminate|].
  cbn [cstep] in Ec. destruct (receive_message (conn_of s x) ch) as [[c1 mo]| |] eqn:Er; cbn [bind] in Ec; try discriminate.
  injection Ec as <- <-. cbn [outs_of] in A3. rewrite app_nil_r in A3.
  destruct (receive_message_frame _ _ _ _ Er) as (F1 & F2 & F3 & F4).
  assert (Hout : out_a s1 = out_a s /\ out_b s1 = out_b s).
  { destruct x; cbn [out_of flip_side] in A3, A4; auto. }
  destruct Hout as [Ha Hb].
  destruct (Nat.eqb (length (log_get (got_of s1 x) ch)) (length (log_get (got_of s x) ch))) eqn:El.
  - injection E as <-. rewrite A1. split; [exact Hinv1|]. split; [exact A2|].
    split; [exact Ha|]. split; [exact Hb|]. split; [exact A7|]. split; [exact A8|]. split; [exact F1|].
    split; [exact F2|]. split; [exact F3|].
    intros Hd. apply F4.
    + rewrite A5 in El. cbn [got_upd] in El. destruct mo as [m|]; [|reflexivity].
      rewrite log_add_length in El. apply Nat.eqb_eq in El. lia.
    + destruct F1 as (_ & _ & _ & _ & _ & _ & F & _). unfold is_disconnected in *. now rewrite <- F.
  - destruct (IH s1 s' E Hinv1) as (B1 & B2 & B3 & B4 & B5 & B6 & B7 & B8 & B9 & B10).
    rewrite A1 in B7, B8, B9. split; [exact B1|]. split; [congruence|].
    split; [congruence|]. split; [congruence|]. split; [congruence|]. split; [congruence|].
    split; [eapply frame_recv_trans; eauto|].
    split; [intros ch' Hne; rewrite (B8 ch' Hne); auto|]. split; [auto|exact B10].
Qed.

Lemma drain_chans_run cfg_ab cfg_ba x : forall chs s s', drain_chans x chs s = Ok s' ->
  tick_inv cfg_ab cfg_ba s ->
  tick_inv cfg_ab cfg_ba s' /\ conn_of s' (flip_side x) = conn_of s (flip_side x) /\
  out_a s' = out_a s /\ out_b s' = out_b s /\ sent_a s' = sent_a s /\ sent_b s' = sent_b s /\
  frame_recv (conn_of s x) (conn_of s' x) /\
  (forall ch', ~ In ch' chs -> sm_find ch' (c_rr (conn_of s' x)) = sm_find ch' (c_rr (conn_of s x))) /\
  (forall ch', sm_mem ch' (c_rr (conn_of s' x)) = true -> sm_mem ch' (c_rr (conn_of s x)) = true) /\
  (is_disconnected (conn_of s' x) = false ->
   forall ch r, In ch chs -> sm_find ch (c_rr (conn_of s' x)) = Some r -> next_id r = None).
Proof.
  induction chs as [|ch t IH]; intros s s' E Hinv; cbn [drain_chans] in E.
  - injection E as <-. split; [exact Hinv|]. do 5 (split; [reflexivity|]). split; [apply frame_recv_refl|].
    split; [auto|]. split; [auto|]. intros _ ch r [].
  - destruct (drain_chan (S (buffered (conn_of s x) ch)) x ch s) as [s1| |] eqn:E1; cbn [bind] in E; try discriminate.
    destruct (drain_chan_run cfg_ab cfg_ba x ch _ s s1 E1 Hinv) as (A1 & A2 & A3 & A4 & A5 & A6 & A7 & A8 & A9 & A10).
    destruct (IH s1 s' E A1) as (B1 & B2 & B3 & B4 & B5 & B6 & B7 & B8 & B9 & B10).
    split; [exact B1|]. split; [congruence|]. split; [congruence|]. split; [congruence|]. split; [congruence|].
    split; [congruence|]. split; [eapply frame_recv_trans; eauto|].
    split.
    { intros ch' Hn. rewrite B8 by (intros H; apply Hn; now right). apply A8. intros ->. apply Hn. now left. }
    split; [auto|].
    intros Hd ch0 r Hin Hr. destruct (in_dec N.eq_dec ch0 t) as [Ht|Hnt]; [eapply B10; eauto|].
    destruct Hin as [<-|Hin]; [|contradiction].
    rewrite (B8 ch Hnt) in Hr. eapply A10; eauto.
    destruct B7 as (_ & _ & _ & _ & _ & _ & F & _). unfold is_disconnected in *. now rewrite <- F.
Qed.

Definition drained (c : conn) : Prop := forall ch r, sm_find ch (c_rr c) = Some r -> next_id r = None.

Lemma drain_run cfg_ab cfg_ba x s s' : drain x s = Ok s' -> tick_inv cfg_ab cfg_ba s ->
  tick_inv cfg_ab cfg_ba s' /\ conn_of s' (flip_side x) = conn_of s (flip_side x) /\
  out_a s' = out_a s /\ out_b s' = out_b s /\ sent_a s' = sent_a s /\ sent_b s' = sent_b s /\
  frame_recv (conn_of s x) (conn_of s' x) /\
  (is_disconnected (conn_of s' x) = false -> drained (conn_of s' x)).
Proof.
  unfold drain. intros E Hinv.
  destruct (drain_chans_run cfg_ab cfg_ba x _ s s' E Hinv) as (A1 & A2 & A3 & A4 & A5 & A6 & A7 & A8 & A9 & A10).
  repeat (split; [assumption|]). intros Hd ch r Hr. apply (A10 Hd ch r); [|exact Hr].
  unfold recv_channels. apply in_or_app. left. apply sm_mem_in. apply A9. eapply sm_find_some_mem; eauto.
Qed.

(* ================================================================== *)
(* 6. the two transmission phases of a good tick *)

Lemma Forall2_len {A B} (R : A -> B -> Prop) l l' : Forall2 R l l' -> len l = len l'.
Proof. induction 1 as [|x y l l' _ _ IH]; [reflexivity|]. now rewrite !AcksP.len_cons, IH. Qed.

Lemma nth_error_app_off {A} (pre l : list A) j b : nth_error l j = Some b -> nth_error (pre ++ l) (length pre + j) = Some b.
Proof. intros H. rewrite nth_error_app2 by lia. replace (length pre + j - length pre)%nat with j by lia. exact H. Qed.

Lemma alive_split s : alive s = true <-> is_disconnected (ra s) = false /\ is_disconnected (rb s) = false.
Proof. unfold alive. destruct (is_disconnected (ra s)), (is_disconnected (rb s)); cbn; intuition congruence. Qed.

Lemma flush_step s x s1 : sys_step s (SysApi x CFlush) = Ok s1 ->
  exists c' bytes, get_packets_to_send (conn_of s x) = Ok (c', bytes) /\
    conn_of s1 x = c' /\ conn_of s1 (flip_side x) = conn_of s (flip_side x) /\
    out_of s1 x = out_of s x ++ bytes /\ out_of s1 (flip_side x) = out_of s (flip_side x) /\
    sent_a s1 = sent_a s /\ sent_b s1 = sent_b s.
Proof.
  intros E. destruct (sys_api_step s x CFlush s1 eq_refl E) as (c' & out & Ec & A1 & A2 & A3 & A4 & _ & _ & A7).
  destruct A7 as [A7 A8]; [intros c0 m0; discriminate|].
  cbn [cstep] in Ec. destruct (get_packets_to_send (conn_of s x)) as [[c1 p]| |]; cbn [bind] in Ec; try discriminate.
  injection Ec as <- <-. exists c1, p. cbn [outs_of] in A3. auto 10.
Qed.

(* A transmits; every packet reaches B, which acknowledges all of them *)
Lemma phase_a_to_b cfg_ab cfg_ba s s' :
  flush_deliver SA s = Ok s' -> tick_inv cfg_ab cfg_ba s -> alive s' = true ->
  exists pk av,
    seqs_from (c_seq (ra s)) pk /\
    (forall p, In p pk -> sm_find (packet_seq p) (c_sent (ra s')) = Some (c_now (ra s), pkt_info p)) /\
    sr_static (c_sr (ra s)) (c_sr (ra s')) /\
    c_budget (ra s') = c_budget (ra s) /\
    (forall ch q, sm_find ch (c_su (ra s')) = Some q -> su_queue q = []) /\
    (forall y, In y (cparts pk) -> pend (ra s) y) /\ NoDup (cparts pk) /\
    (SLICE_SIZE <= av -> (forall ch, all_due (ra s) ch) -> forall y, pend (ra s) y -> In y (cparts pk)) /\
    c_budget (ra s) <= av + pending_bytes (ra s) /\
    (unrel_queued (ra s) = false -> c_budget (ra s) <= av + SLICE_SIZE * len (cparts pk)) /\
    tick_inv cfg_ab cfg_ba s' /\ out_b s' = out_b s /\ sent_a s' = sent_a s /\
    (forall p, In p pk -> in_ranges (packet_seq p) (c_acks (rb s'))).
Proof.
  unfold flush_deliver. intros E Hinv Halive. cbn [out_of flip_side] in E.
  destruct (sys_step s (SysApi SA CFlush)) as [s1| |] eqn:E1; cbn [bind] in E; try discriminate.
  pose proof (tick_inv_step _ _ _ _ _ Hinv E1) as Hinv1.
  destruct (flush_step _ _ _ E1) as (c' & bytes & Eg & A1 & A2 & A3 & A4 & A5 & A6).
  cbn [conn_of out_of flip_side] in *.
  rewrite A3, app_length in E. replace (length (out_a s) + length bytes - length (out_a s))%nat with (length bytes) in E by lia.
  apply alive_split in Halive. destruct Halive as [HaA HaB].
  pose proof Hinv as ((Hbase & Dab & _) & (Hlin & Hoa) & _ & _). destruct Hbase as [Hia Hib Hua _ _ _].
  (* A was alive: nothing after its flush touches its status *)
  assert (Hd : is_disconnected (ra s) = false).
  { destruct (is_disconnected (ra s)) eqn:Hd; [|reflexivity]. exfalso.
    rewrite (DisconnectP.get_packets_to_send_disconnected_noop _ Hd) in Eg. injection Eg as <- <-.
    cbn [length deliver_from] in E. injection E as <-. congruence. }
  destruct (flush_live (ra s) c' bytes Hia Hua Hd Hoa Eg)
    as (pk & av & F1 & F2 & F3 & F4 & F5 & F6 & F7 & F8 & F9 & F10 & F11 & F12 & F13 & F14 & F15 & F16 & F17 & _).
  assert (Hb0 : ackrecs_below (c_sent (rb s1)) (c_seq (ra s))).
  { rewrite A2. intros k t lg Hk. exact (li_ackrec _ _ _ _ _ _ _ _ Hlin k t lg Hk). }
  assert (Hu0 : acks_upto (c_acks (rb s1)) (c_seq (ra s)) (c_seq (ra s))).
  { left. split; [reflexivity|]. rewrite A2. unfold dir_inv in Dab. eapply acks_below_seq; eauto. }
  destruct (deliver_b_run cfg_ab cfg_ba (c_seq (ra s)) pk bytes F1 (length (out_a s)) s1 s' (c_seq (ra s)))
    as (B1 & B2 & B3 & B4 & B5 & B6 & B7); auto.
  { intros j b Hj. rewrite A3. now apply nth_error_app_off. }
  exists pk, av. rewrite B1, A1.
  split; [exact F2|]. split; [exact F4|]. split; [exact F5|]. split; [exact F11|]. split; [exact F12|].
  split; [exact F13|]. split; [exact F14|]. split; [exact F15|]. split; [exact F16|]. split; [exact F17|].
  split; [exact B5|]. split; [congruence|]. split; [congruence|].
  intros p Hp. rewrite <- (Forall2_len _ _ _ F1) in B7.
  pose proof (seqs_from_bounds _ _ F2) as HB. rewrite Forall_forall in HB. specialize (HB p Hp).
  destruct B7 as [[Heq _]|[_ He]]; [lia|]. eapply ends_with_in; eauto.
Qed.

(* B transmits (its Ack packet among the rest); every packet reaches A, which releases
   everything the Ack packet lists *)
Lemma phase_b_to_a cfg_ab cfg_ba (pk : list packet) (t0 : N) s s' :
  flush_deliver SB s = Ok s' -> tick_inv cfg_ab cfg_ba s -> alive s' = true ->
  (forall p, In p pk -> in_ranges (packet_seq p) (c_acks (rb s))) ->
  (forall p, In p pk -> sm_find (packet_seq p) (c_sent (ra s)) = Some (t0, pkt_info p)) ->
  tick_inv cfg_ab cfg_ba s' /\ c_rr (rb s') = c_rr (rb s) /\ out_a s' = out_a s /\ sent_a s' = sent_a s /\
  frame_a (ra s) (ra s') /\
  (forall y, pend (ra s') y -> pend (ra s) y) /\
  (forall y, In y (cparts pk) -> ~ pend (ra s') y).
Proof.
  unfold flush_deliver. intros E Hinv Halive Hacked Htracked. cbn [out_of flip_side] in E.
  destruct (sys_step s (SysApi SB CFlush)) as [s1| |] eqn:E1; cbn [bind] in E; try discriminate.
  pose proof (tick_inv_step _ _ _ _ _ Hinv E1) as Hinv1.
  destruct (flush_step _ _ _ E1) as (c' & bytes & Eg & A1 & A2 & A3 & A4 & A5 & A6).
  cbn [conn_of out_of flip_side] in *.
  rewrite A3, app_length in E. replace (length (out_b s) + length bytes - length (out_b s))%nat with (length bytes) in E by lia.
  apply alive_split in Halive. destruct Halive as [HaA HaB].
  pose proof Hinv as ((Hbase & _) & _ & Hob & _). destruct Hbase as [Hia Hib _ Hub _ _].
  destruct (is_disconnected (rb s)) eqn:Hd.
  { (* B dead: it stays dead *)
    exfalso. rewrite (DisconnectP.get_packets_to_send_disconnected_noop _ Hd) in Eg. injection Eg as <- <-.
    cbn [length deliver_from] in E. injection E as <-. congruence. }
  destruct (flush_live (rb s) c' bytes Hib Hub Hd Hob Eg)
    as (pkB & av & F1 & _ & _ & _ & _ & F6 & _ & F8 & _ & _ & _ & _ & _ & _ & _ & _ & _ & F18 & F19).
  destruct (deliver_a_run cfg_ab cfg_ba pk t0 pkB bytes F1 (length (out_b s)) s1 s')
    as (B1 & B2 & B3 & B4 & B5 & B6 & B7 & B8 & B9); auto.
  { intros j b Hj. rewrite A3. now apply nth_error_app_off. }
  { rewrite Forall_forall. intros q Hq sq rs -> p Hp. rewrite (F19 sq rs Hq). auto. }
  { intros p Hp. left. rewrite A2. auto. }
  rewrite A2 in B6, B7. split; [exact B5|]. split; [rewrite B1, A1; exact F6|]. split; [congruence|]. split; [congruence|].
  split; [exact B6|]. split; [exact B7|].
  intros y Hy. unfold cparts in Hy. apply in_flat_map in Hy. destruct Hy as (p & Hp & Hy).
  refine (B9 _ p y Hp Hy).
  assert (Hne : c_acks (rb s) <> []) by (intros Hnil; specialize (Hacked p Hp); rewrite Hnil in Hacked; exact Hacked).
  destruct (F18 Hne) as (sq & Hin). apply Exists_exists. exists (Ack sq (c_acks (rb s))). auto.
Qed.

(* ================================================================== *)
(* 7. a disconnected side stays disconnected *)

Definition dead_mono (s s' : rsys) : Prop :=
  (is_disconnected (ra s) = true -> is_disconnected (ra s') = true) /\
  (is_disconnected (rb s) = true -> is_disconnected (rb s') = true).

Lemma dead_mono_refl s : dead_mono s s.
Proof. split; auto. Qed.

Lemma dead_mono_trans a b c : dead_mono a b -> dead_mono b c -> dead_mono a c.
Proof. intros [A1 A2] [B1 B2]. split; auto. Qed.

Lemma dead_mono_alive s s' : dead_mono s s' -> alive s' = true -> alive s = true.
Proof.
  intros [A B] H. apply alive_split in H. destruct H as [H1 H2]. apply alive_split.
  split; [destruct (is_disconnected (ra s)); [rewrite A in H1 by reflexivity; discriminate|reflexivity]|].
  destruct (is_disconnected (rb s)); [rewrite B in H2 by reflexivity; discriminate|reflexivity].
Qed.

Lemma sys_step_dead s o s' : sys_step s o = Ok s' -> dead_mono s s'.
Proof.
  intros E. destruct o as [x op|x i].
  - cbn [sys_step] in E. destruct (is_process op) eqn:Hnp; [injection E as <-; apply dead_mono_refl|].
    destruct (cstep (conn_of s x) op) as [[c' out]| |] eqn:Ec; cbn [bind] in E; try discriminate.
    injection E as <-. pose proof (cstep_dead_mono _ _ _ _ Ec) as Hd.
    destruct x; cbn [upd_side conn_of ra rb] in *; split; auto.
  - destruct (sys_deliver_step _ _ _ _ E) as (A1 & _ & _ & _ & _ & _ & _ & Hp).
    destruct (nth_error (out_of s (flip_side x)) i) as [b|]; [|subst; apply dead_mono_refl].
    assert (Hd : is_disconnected (conn_of s x) = true -> is_disconnected (conn_of s' x) = true).
    { intros Hd. rewrite (DisconnectP.process_packet_disconnected_noop _ _ Hd) in Hp. injection Hp as <-. exact Hd. }
    destruct x; cbn [conn_of flip_side] in *; split; auto; congruence.
Qed.

Lemma deliver_from_dm x : forall n i s s', deliver_from x i n s = Ok s' -> dead_mono s s'.
Proof.
  induction n as [|n IH]; intros i s s' E; cbn [deliver_from] in E; [injection E as <-; apply dead_mono_refl|].
  destruct (sys_step s (SysDeliver x i)) as [s1| |] eqn:E1; cbn [bind] in E; try discriminate.
  eapply dead_mono_trans; [eapply sys_step_dead; eauto|eauto].
Qed.

Lemma flush_deliver_dm x s s' : flush_deliver x s = Ok s' -> dead_mono s s'.
Proof.
  unfold flush_deliver. intros E.
  destruct (sys_step s (SysApi x CFlush)) as [s1| |] eqn:E1; cbn [bind] in E; try discriminate.
  eapply dead_mono_trans; [eapply sys_step_dead; eauto|eapply deliver_from_dm; eauto].
Qed.

Lemma drain_chan_dm x ch : forall fuel s s', drain_chan fuel x ch s = Ok s' -> dead_mono s s'.
Proof.
  induction fuel as [|f IH]; intros s s' E; cbn [drain_chan] in E; [discriminate|].
  destruct (sys_step s (SysApi x (CRecv ch))) as [s1| |] eqn:E1; cbn [bind] in E; try discriminate.
  pose proof (sys_step_dead _ _ _ E1) as H1.
  destruct (Nat.eqb _ _); [injection E as <-; exact H1|]. eapply dead_mono_trans; eauto.
Qed.

Lemma drain_chans_dm x : forall chs s s', drain_chans x chs s = Ok s' -> dead_mono s s'.
Proof.
  induction chs as [|ch t IH]; intros s s' E; cbn [drain_chans] in E; [injection E as <-; apply dead_mono_refl|].
  destruct (drain_chan _ x ch s) as [s1| |] eqn:E1; cbn [bind] in E; try discriminate.
  eapply dead_mono_trans; [eapply drain_chan_dm; eauto|eauto].
Qed.

Lemma drain_dm x s s' : drain x s = Ok s' -> dead_mono s s'.
Proof. apply drain_chans_dm. Qed.

(* ================================================================== *)
(* 8. both sides advance their clocks *)

Lemma update_step s x dt s1 : sys_step s (SysApi x (CUpdate dt)) = Ok s1 ->
  exists c', update (conn_of s x) dt = Ok c' /\
    conn_of s1 x = c' /\ conn_of s1 (flip_side x) = conn_of s (flip_side x) /\
    out_a s1 = out_a s /\ out_b s1 = out_b s /\ sent_a s1 = sent_a s /\ sent_b s1 = sent_b s.
Proof.
  intros E. destruct (sys_api_step s x (CUpdate dt) s1 eq_refl E) as (c' & out & Ec & A1 & A2 & A3 & A4 & _ & _ & A7).
  destruct A7 as [A7 A8]; [intros c0 m0; discriminate|].
  cbn [cstep] in Ec. destruct (update (conn_of s x) dt) as [c1| |]; cbn [bind] in Ec; try discriminate.
  injection Ec as <- <-. exists c1. cbn [outs_of] in A3. rewrite app_nil_r in A3.
  destruct x; cbn [out_of flip_side] in A3, A4; auto 10.
Qed.

Lemma update_all_due c dt c' :
  conn_inv c -> update c dt = Ok c' -> (forall ch s, sm_find ch (c_sr c) = Some s -> sr_resend s <= dt) ->
  forall ch, all_due c' ch.
Proof.
  intros Hi E Hr ch s id p l Hs Hl.
  destruct (update_unfold c dt c' E) as (ru1 & sent1 & _ & _ & ->).
  cbn [with_sent with_ru with_now c_sr c_now] in *.
  destruct l as [t|]; cbn [is_due]; [|exact I].
  destruct (inv_find_sr _ _ _ Hi Hs) as [Hsi _]. specialize (Hr ch s Hs).
  assert (Ht : t <= c_now c).
  { unfold SendRelP.plast in Hl. destruct (sm_find id (sr_unacked s)) as [u|] eqn:Eu; [|discriminate].
    destruct (SendRelP.sr_inv_find _ _ _ _ Hsi Eu) as (_ & Hwf & _).
    destruct u as [m last|m num na nx ak ls]; destruct p as [i|]; cbn [SendRelP.part_last] in Hl; try discriminate.
    - injection Hl as ->. destruct Hwf as [_ Hle]. exact Hle.
    - destruct Hwf as (_ & _ & _ & _ & _ & _ & Hall).
      exact (SMapSendP.Forall_nth_opt _ _ _ _ Hall Hl). }
  lia.
Qed.

Lemma pend_ext c c' y : c_sr c' = c_sr c -> (pend c' y <-> pend c y).
Proof. intros E. destruct y as [ch [id p]]. cbn [pend]. now rewrite E. Qed.

Lemma pend_static c c' y : sr_static (c_sr c) (c_sr c') -> (pend c' y <-> pend c y).
Proof.
  intros Hst. destruct y as [ch [id p]]. cbn [pend]. specialize (Hst ch).
  destruct (sm_find ch (c_sr c)) as [s|].
  - destruct Hst as (s' & -> & _ & _ & Hp). split.
    + intros (s0 & [= <-] & H). exists s. split; [reflexivity|]. now rewrite <- Hp.
    + intros (s0 & [= <-] & H). exists s'. split; [reflexivity|]. now rewrite Hp.
  - rewrite Hst. split; intros (s0 & [=] & _).
Qed.

Lemma unrel_queued_empty c : conn_inv c ->
  (forall ch q, sm_find ch (c_su c) = Some q -> su_queue q = []) -> unrel_queued c = false.
Proof.
  intros Hi H. unfold unrel_queued.
  destruct (existsb (fun e : N * send_unrel => match su_queue (snd e) with [] => false | _ => true end) (c_su c)) eqn:E;
    [|reflexivity].
  apply existsb_exists in E. destruct E as ([ch q] & Hin & Hq). cbn [snd] in Hq.
  rewrite (H ch q (sm_in_find _ _ _ (ci_su_sorted c Hi) Hin)) in Hq. discriminate.
Qed.

(* ================================================================== *)
(* 9. one good tick *)

Lemma resend_bound cfg c dt : resend_inv cfg c -> cfg_resend_le cfg dt = true ->
  forall ch s, sm_find ch (c_sr c) = Some s -> sr_resend s <= dt.
Proof.
  intros R H ch s Hs. unfold cfg_resend_le in H. rewrite forallb_forall in H.
  specialize (H _ (R ch s Hs)). lia.
Qed.

(* P = the parts A transmits in this tick; av = the budget left after A's flush *)
Theorem good_tick_effect cfg_ab cfg_ba s dt s' :
  tick_inv cfg_ab cfg_ba s -> good_tick s dt = Ok s' -> alive s' = true -> cfg_resend_le cfg_ab dt = true ->
  exists (P : list cpart) (av : N),
    NoDup P /\ (forall y, In y P -> pend (ra s) y) /\
    (forall y, pend (ra s') y -> pend (ra s) y /\ ~ In y P) /\
    (SLICE_SIZE <= av -> forall y, pend (ra s) y -> In y P) /\
    c_budget (ra s) <= av + pending_bytes (ra s) /\
    (unrel_queued (ra s) = false -> c_budget (ra s) <= av + SLICE_SIZE * len P) /\
    tick_inv cfg_ab cfg_ba s' /\ drained (rb s') /\ sent_a s' = sent_a s /\
    unrel_queued (ra s') = false /\ c_budget (ra s') = c_budget (ra s).
Proof.
  unfold good_tick. intros Hinv E Halive Hres.
  destruct (sys_step s (SysApi SA (CUpdate dt))) as [s1| |] eqn:E1; cbn [bind] in E; try discriminate.
  destruct (sys_step s1 (SysApi SB (CUpdate dt))) as [s2| |] eqn:E2; cbn [bind] in E; try discriminate.
  destruct (flush_deliver SA s2) as [s3| |] eqn:E3; cbn [bind] in E; try discriminate.
  destruct (drain SB s3) as [s4| |] eqn:E4; cbn [bind] in E; try discriminate.
  destruct (flush_deliver SB s4) as [s5| |] eqn:E5; cbn [bind] in E; try discriminate.
  rename E into E6.
  pose proof (tick_inv_step _ _ _ _ _ Hinv E1) as Hinv1.
  pose proof (tick_inv_step _ _ _ _ _ Hinv1 E2) as Hinv2.
  (* liveness of both sides, backwards *)
  pose proof (dead_mono_alive _ _ (drain_dm _ _ _ E6) Halive) as Hal5.
  pose proof (dead_mono_alive _ _ (flush_deliver_dm _ _ _ E5) Hal5) as Hal4.
  pose proof (dead_mono_alive _ _ (drain_dm _ _ _ E4) Hal4) as Hal3.
  (* the clocks *)
  destruct (update_step _ _ _ _ E1) as (ca & Eua & A1 & A2 & A3 & A4 & A5 & _).
  destruct (update_step _ _ _ _ E2) as (cb & Eub & B1 & B2 & B3 & B4 & B5 & _).
  cbn [conn_of flip_side] in *.
  pose proof Hinv as ((Hbase & _) & _ & _ & Hrinv & _). destruct Hbase as [Hia _ _ _ _ _].
  destruct (update_unfold _ _ _ Eua) as (ru1 & sent1 & _ & _ & Eca).
  assert (Hsr2 : c_sr (ra s2) = c_sr (ra s)) by (rewrite B2, A1, Eca; reflexivity).
  assert (Hsu2 : c_su (ra s2) = c_su (ra s)) by (rewrite B2, A1, Eca; reflexivity).
  assert (Hord2 : c_order (ra s2) = c_order (ra s)) by (rewrite B2, A1, Eca; reflexivity).
  assert (Hbud2 : c_budget (ra s2) = c_budget (ra s)) by (rewrite B2, A1, Eca; reflexivity).
  assert (Hdue : forall ch, all_due (ra s2) ch).
  { rewrite B2, A1. eapply update_all_due; eauto. eapply resend_bound; eauto. }
  (* A -> B *)
  destruct (phase_a_to_b cfg_ab cfg_ba s2 s3 E3 Hinv2 Hal3)
    as (pk & av & P1 & P2 & P3 & P4 & P5 & P6 & P7 & P8 & P9 & P10 & Hinv3 & P12 & P13 & P14).
  (* B polls *)
  destruct (drain_run cfg_ab cfg_ba SB s3 s4 E4 Hinv3) as (Hinv4 & D2 & D3 & D4 & D5 & _ & D7 & D8).
  cbn [conn_of flip_side] in *.
  apply alive_split in Hal4. destruct Hal4 as [Hal4a Hal4b]. specialize (D8 Hal4b).
  destruct D7 as (_ & _ & D7acks & _).
  (* B -> A *)
  destruct (phase_b_to_a cfg_ab cfg_ba pk (c_now (ra s2)) s4 s5 E5 Hinv4 Hal5)
    as (Hinv5 & Q2 & Q3 & Q4 & Q5 & Q6 & Q7).
  { intros p Hp. rewrite D7acks. auto. }
  { intros p Hp. rewrite D2. auto. }
  (* A polls *)
  destruct (drain_run cfg_ab cfg_ba SA s5 s' E6 Hinv5) as (Hinv6 & G2 & G3 & G4 & G5 & _ & G7 & _).
  cbn [conn_of flip_side] in *.
  destruct G7 as (G7sr & G7su & _ & _ & _ & _ & _ & G7bud & _).
  destruct Q5 as (Q5su & Q5bud & _ & _).
  assert (Hpend2 : forall y, pend (ra s2) y <-> pend (ra s) y) by (intros y; now apply pend_ext).
  exists (cparts pk), av.
  split; [exact P7|]. split; [intros y Hy; apply Hpend2; auto|].
  split.
  { intros y Hy. apply (pend_ext (ra s5) (ra s') y G7sr) in Hy.
    split.
    - apply Hpend2. apply (pend_static (ra s2) (ra s3) y P3). rewrite <- D2. auto.
    - intros Hin. exact (Q7 y Hin Hy). }
  split; [intros Hge y Hy; apply P8; auto; now apply Hpend2|].
  split.
  { rewrite <- Hbud2. unfold pending_bytes in *. rewrite <- Hord2.
    replace (map (chan_bytes (ra s)) (c_order (ra s2))) with (map (chan_bytes (ra s2)) (c_order (ra s2))); [exact P9|].
    apply map_ext. intros e. unfold chan_bytes. now rewrite Hsr2, Hsu2. }
  split.
  { intros Hq. rewrite <- Hbud2. apply P10. unfold unrel_queued in *. now rewrite Hsu2. }
  split; [exact Hinv6|]. split; [intros ch r Hr; rewrite G2, Q2 in Hr; eapply D8; eauto|].
  split; [congruence|].
  split.
  { apply unrel_queued_empty.
    - now destruct Hinv6 as (([Hi' _ _ _ _ _] & _) & _).
    - intros ch q Hq. rewrite G7su, Q5su, D2 in Hq. eapply P5; eauto. }
  rewrite G7bud, Q5bud, D2, P4. exact Hbud2.
Qed.

Print Assumptions good_tick_effect.
